(* Syntax shared by the generated gen/GenPlatform.v (tools/gen_coq_platform.py): the conditions under which a
   piece of dispatch code exists in a build (`#[cfg(..)]` attributes of src/platform.rs / src/lib.rs, `#if` guards of
   c/blake3_dispatch.c), the two shapes of CPU-feature tests of the C dispatcher, and the record that describes one
   call site (one match arm / one rung of a C ladder) as data.

   A build is an environment `string -> bool`.  Atoms are written as in the source with quotes and blanks removed:
   `blake3_avx512_ffi`, `unix`, `miri`, `target_arch=x86_64`, `feature=no_avx2` (Rust); `IS_X86`, `BLAKE3_NO_AVX512`
   (C: `defined(X)`), `BLAKE3_USE_NEON==1` (C: the comparison as written). *)
From Coq Require Import NArith List Bool String.
Import ListNotations.
Open Scope N_scope.

Inductive cfg : Type :=
| CAtom (s : string)
| CNot (c : cfg)
| CAny (l : list cfg)
| CAll (l : list cfg).

Fixpoint cfg_eval (env : string -> bool) (c : cfg) : bool :=
  match c with
  | CAtom s => env s
  | CNot c => negb (cfg_eval env c)
  | CAny l => (fix go (l : list cfg) : bool := match l with [] => false | x :: r => cfg_eval env x || go r end) l
  | CAll l => (fix go (l : list cfg) : bool := match l with [] => true | x :: r => cfg_eval env x && go r end) l
  end.

(* stacked attributes / nested #if: all of them must hold *)
Fixpoint cfgs_eval (env : string -> bool) (l : list cfg) : bool :=
  match l with [] => true | c :: r => cfg_eval env c && cfgs_eval env r end.

(* `features & M` (some bit of M) and `(features & M) == M` (every bit of M) *)
Inductive ftest : Type := FAny (mask : N) | FAll (mask : N).
Definition ftest_eval (features : N) (t : ftest) : bool :=
  match t with
  | FAny m => negb (N.land features m =? 0)
  | FAll m => N.land features m =? m
  end.

(* one call site as data: the patterns / condition it sits under, the callee path as written, the arguments as
   written, and for each argument its index in the enclosing function's parameter list *)
Record call_site := mkCall {
  cs_variants : list string;      (* Rust: the `Platform::X | Platform::Y` patterns ("_" for the wildcard); C: [] *)
  cs_cfgs : list cfg;             (* cfg attributes on the arm / enclosing #if guards *)
  cs_test : option ftest;         (* C only: the feature test of the rung *)
  cs_unsafe : bool;               (* Rust: the arm body is an `unsafe { .. }` block *)
  cs_callee : string;
  cs_args : list string;
  cs_argorder : list N }.

Definition argorder_identity (c : call_site) : bool :=
  (fix eqb (a b : list N) : bool :=
     match a, b with
     | [], [] => true
     | x :: a', y :: b' => N.eqb x y && eqb a' b'
     | _, _ => false
     end) (cs_argorder c) (map N.of_nat (seq 0 (List.length (cs_args c)))).

(* one step of Platform::detect(): under these cfgs, if the test answers yes, return this variant *)
Inductive dtest : Type := TAlways | TForced | THelper (name : string).

Definition env_of (l : list string) : string -> bool :=
  fun s => existsb (String.eqb s) l.
