(* C13: the characters and strings that define the checkfile format are TRANSLATED from b3sum/src/main.rs
   (gen/GenB3sum.v); the model of Model/B3sum.v uses exactly them. *)
From Coq Require Import NArith List Bool.
From V Require Import Model.B3sum gen.GenB3sum.
Import ListNotations.
Open Scope N_scope.

Lemma needs_escape_is_guard : forall c, needs_escape c = existsb (N.eqb c) b3_escape_guard.
Proof. intros c. unfold needs_escape, b3_escape_guard, BSL, LF, CR. cbn [existsb]. rewrite orb_false_r, orb_assoc. reflexivity. Qed.

Lemma escape_path_is_chain : forall s,
  escape_path s = fold_left (fun acc p => replace_char (fst p) (snd p) acc) b3_escape_chain s.
Proof. intros s. reflexivity. Qed.

(* unescape with the recognised escape sequences given as data *)
Fixpoint lookup (arms : list (N * list N)) (d : N) : option (list N) :=
  match arms with [] => None | (k, v) :: tl => if d =? k then Some v else lookup tl d end.

Fixpoint unescape_g (arms : list (N * list N)) (s : list N) : option (list N) :=
  match s with
  | [] => Some []
  | c :: t =>
    if c =? BSL then
      match t with
      | [] => None
      | d :: t' => match lookup arms d with
                   | Some r => option_map (app r) (unescape_g arms t')
                   | None => None
                   end
      end
    else option_map (cons c) (unescape_g arms t)
  end.

Lemma unescape_is_arms : forall s, unescape s = unescape_g b3_unescape_arms s.
Proof.
  fix IH 1. intros [|c t]; [reflexivity|]. cbn [unescape unescape_g].
  destruct (c =? BSL); [|rewrite IH; reflexivity].
  destruct t as [|d t']; [reflexivity|].
  unfold b3_unescape_arms. cbn [lookup]. change 92 with BSL.
  destruct (d =? 110); [rewrite IH; destruct (unescape_g _ t'); reflexivity|].
  destruct (d =? 114); [rewrite IH; destruct (unescape_g _ t'); reflexivity|].
  destruct (d =? BSL); [rewrite IH; destruct (unescape_g _ t'); reflexivity|reflexivity].
Qed.

Lemma separators_are_source :
  PLAIN_SEP = b3_plain_sep /\ TAG_PREFIX = b3_tag_prefix /\ TAG_SEP = b3_tag_sep /\
  [BSL] = b3_print_marker /\ TAG_PREFIX = b3_print_tag_prefix /\ TAG_SEP = b3_print_tag_sep /\
  PLAIN_SEP = b3_print_plain_sep.
Proof. repeat split; reflexivity. Qed.
