(* Kernel-level cases (C05 / C07): the same case kinds as harness/c/driver.c and
   harness/rs (kcip, kxof, khm, khmg, kxm).  The <impl> and <flavour> tokens are ignored:
   every executable kernel must equal the portable kernel model
   (Model.Portable.compress_in_place / compress_xof / hash_many, Model.Platform.portable_xof_many).

     kcip <impl> <fl> <cv32> <block64> <block_len> <counter> <flags>             -> <hex 32>
     kxof <impl> <fl> <cv32> <block64> <block_len> <counter> <flags>             -> <hex 64>
     khm  <impl> <fl> <num_inputs> <blocks> <key32> <counter> <incr> <flags> <flags_start> <flags_end>
          <align_off> <seed>                                                     -> x<hex 32*num_inputs>
          (input i = prng/<seed+i>/<64*blocks>, as harness/c/driver.c fills it; khmg: same arguments)
     kxm  <impl> <fl> <cv32> <block64> <block_len> <counter> <flags> <nblocks>   -> x<hex 64*nblocks> *)
module BigZ = Z
open Model
open Bytespec

let status_token = function
  | Panic c -> if debug_only c then "PANIC_DBG" else "PANIC"
  | OutOfFuel -> "OUTOFFUEL"
  | Ok _ -> "ok"

let run_case (toks : string list) : string list =
  match toks with
  | ["kcip"; _; _; cv; blk; bl; ctr; fl] ->
    [hex_of_nlist (bytes_of_words
                     (compress_in_place (words_of_bytes (parse cv)) (parse blk) (n_of_string bl) (n_of_string ctr)
                        (n_of_string fl)))]
  | ["kxof"; _; _; cv; blk; bl; ctr; fl] ->
    [hex_of_nlist (compress_xof (words_of_bytes (parse cv)) (parse blk) (n_of_string bl) (n_of_string ctr)
                     (n_of_string fl))]
  | [("khm" | "khmg"); _; _; num; blocks; key; ctr; incr; fl; fs; fe; _align; seed] ->
    let num = int_of_string num and blocks = int_of_string blocks in
    let seed = BigZ.of_string seed in
    let inputs = List.init num (fun i ->
        let s = BigZ.logand (BigZ.add seed (BigZ.of_int i)) (BigZ.pred (BigZ.shift_left BigZ.one 64)) in
        parse (Printf.sprintf "prng/%s/%d" (BigZ.to_string s) (64 * blocks))) in
    (match hash_many inputs (words_of_bytes (parse key)) (n_of_string ctr) (incr <> "0") (n_of_string fl)
             (n_of_string fs) (n_of_string fe) (n_of_int num) with
     | Ok cvs -> ["x" ^ String.concat "" (List.map hex_of_nlist cvs)]
     | r -> [status_token r])
  | ["kxm"; _; _; cv; blk; bl; ctr; fl; nblocks] ->
    (match portable_xof_many (words_of_bytes (parse cv)) (parse blk) (n_of_string bl) (n_of_string ctr)
             (n_of_string fl) (n_of_string nblocks) with
     | Ok b -> ["x" ^ hex_of_nlist b]
     | r -> [status_token r])
  | k :: _ -> failwith ("bad kernel case " ^ k)
  | [] -> []
