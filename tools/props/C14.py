"""C14: Hash conversions and equality."""
from props.common import Rng, hexspec, number

RULE = ("tohex: every byte value at every position of a 32-byte hash; fromhex: every byte value at every position "
        "of an otherwise valid 64-char string (lower and upper case bases), lengths 0..130; eq: every single-bit "
        "difference, different lengths; serde: random hashes. A case is non-trivial when its model line is not a "
        "plain acceptance of an all-default input (distinct case text counted).")
MODELLED = ["constant_time_eq crate (modelled by its algorithm: OR of XORs, length check)",
            "serde / serde_json / ciborium wire formats (modelled by contract: lossless; tied by the harness runs only)",
            "arrayvec::ArrayString (push beyond capacity = Panic 11)"]
ASSUMPTIONS = ["byte strings are lists of N < 256; &str inputs are their UTF-8 bytes"]


def gen_cases(seed, tier):
    rng = Rng(seed)
    lines = []
    base = bytes(rng.below(256) for _ in range(32))
    step = 1 if tier == "thorough" else 1
    for pos in range(32):
        for v in range(0, 256, step):
            b = bytearray(base)
            b[pos] = v
            lines.append("tohex " + hexspec(b))
    for basehex in (base.hex().encode(), base.hex().upper().encode()):
        for pos in range(64):
            for v in range(256):
                s = bytearray(basehex)
                s[pos] = v
                lines.append("fromhex " + hexspec(s))
    for n in range(0, 131):
        lines.append("fromhex " + hexspec(bytes(rng.choice(b"0123456789abcdefABCDEF") for _ in range(n))))
        lines.append("fromslice " + f"prng/{rng.below(1000)}/{n}")
    # multi-byte characters inside a 64-byte string (FromStr path)
    for pos in (0, 31, 62):
        s = bytearray(base.hex().encode())
        s[pos:pos + 2] = "é".encode()
        lines.append("fromhex " + hexspec(s))
    for bit in range(256):
        b = bytearray(base)
        b[bit // 8] ^= 1 << (bit % 8)
        lines.append(f"eq {hexspec(base)} {hexspec(b)}")
    lines.append(f"eq {hexspec(base)} {hexspec(base)}")
    for n in (0, 1, 31, 33, 64):
        lines.append(f"eq {hexspec(base)} {hexspec((base * 3)[:n])}")
    nser = 200 if tier == "thorough" else 40
    for _ in range(nser):
        lines.append(f"serde prng/{rng.below(1 << 30)}/32")
    return number(lines)


def correspondence(ctx):
    drv = ctx.need_model()
    cases = gen_cases(ctx.seed, ctx.tier)
    for profile in (["debug", "release"] if ctx.tier == "thorough" else ["debug"]):
        b = ctx.need_harness("default", profile)
        ctx.correspond("hash-conversions", cases, drv, b, profile=profile)


def classify(f):
    return None
