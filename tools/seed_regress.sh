#!/bin/bash
# Regression over the whole corpus of seeded changes: apply each to /repo, run the check of its property, restore.
# Logs: seeded/<name>/final_<id>.log; summary on stdout.  (~2 hours; /repo must be clean and otherwise unused.)
cd /verif
for d in seeded/C*/; do
  name=$(basename $d); id=${name:0:3}
  OUT_PREFIX=final tools/seed_run.sh $name $id | grep "^== "
done
