(* src/traits.rs and src/guts.rs as TRANSLATED statement by statement (gen/GenTraits.v): every RustCrypto trait method
   is the sequence of inherent-method calls the OpT* cases of Machine.step (Model/Machine.v) perform, and the guts API is
   Model/RsGuts.v, for all arguments, including the Panic results.

   Representation.  lib_of_hasher / lib_of_cs / lib_of_out / lib_of_rd as in Proofs/GenLibLoopsP.v, Proofs/GenXofP.v.
   Hasher::update is not translated (a parameter of the translation): m_Hasher_update is the model's hasher_update
   through the representation maps.  The other parameters are instantiated with the models' as in
   Proofs/GenLibLoopsP.v / Proofs/GenXofP.v.  guts::ChunkState is a tuple struct around crate::ChunkState: the
   translation works on the inner record.  An `out: &mut Array<u8, U32>` is its byte list. *)
From Coq Require Import NArith ZArith List Bool Lia Arith.
From V Require Import Base.Res Base.Word Base.MachInt Base.Arr Base.ArrayVec Base.MutSlice Base.SInt
  gen.GenConsts gen.GenFormulas gen.GenLibSmall gen.GenLibLoops gen.GenXof gen.GenHazmat gen.GenTraits
  Spec.Tree Model.Portable Model.Platform Model.RsChunk Model.RsWide Model.RsHasher Model.RsXof Model.RsGuts Model.Machine
  Proofs.GenLibSmallP Proofs.GenLibLoopsP Proofs.GenXofP Proofs.GenHazmatP.
Import ListNotations.
Open Scope N_scope.
(* a tactic that diverges when the generated text changes is a failure, not a hang *)
Set Default Timeout 300.

(* ---------- the associated size types ---------- *)
Lemma tr_sizes :
  tr_OutputSizeUser_OutputSize = rs_OUT_LEN /\ tr_KeySizeUser_KeySize = rs_KEY_LEN /\ tr_BlockSizeUser_BlockSize = rs_BLOCK_LEN.
Proof. repeat split. Qed.

(* ---------- the stand-in for the inherent Hasher::update ---------- *)
Definition m_Hasher_update (h : lib_Hasher) (input : list N) : res lib_Hasher :=
  let p := lib_ChunkState_platform (lib_Hasher_chunk_state h) in
  res_map (lib_of_hasher p) (hasher_update p (hasher_of_lib h) input).

Lemma m_Hasher_update_of p h input :
  m_Hasher_update (lib_of_hasher p h) input = res_map (lib_of_hasher p) (hasher_update p h input).
Proof. unfold m_Hasher_update. cbv zeta. rewrite hasher_of_lib_of_hasher. reflexivity. Qed.

(* ---------- Update, Reset ---------- *)
Lemma tr_Update_update_eq p h data :
  tr_Update_update m_Hasher_update (lib_of_hasher p h) data = res_map (lib_of_hasher p) (hasher_update p h data).
Proof. unfold tr_Update_update. rewrite m_Hasher_update_of. apply bind_ret. Qed.

Lemma tr_Reset_reset_eq p h : tr_Reset_reset (lib_of_hasher p h) = lib_of_hasher p (hasher_reset h).
Proof. reflexivity. Qed.

(* ---------- FixedOutput, FixedOutputReset ---------- *)
(* the side conditions of Hasher::finalize's tie (Proofs/GenLibLoopsP.v): the fuel covers the stack, and not the one
   state where the source's debug_assert fires before the model's index panic *)
Definition fin_ok (fuel : nat) (h : hasher) : Prop :=
  (length (h_stack h) <= fuel)%nat /\ (forall a, h_stack h = [a] -> cs_count (h_cs h) <> Ok 0).

Lemma arr_store_whole (out d : list N) : length d = length out -> arr_store out 0 d = d.
Proof. intros H. rewrite arr_store_0, skipn_all2 by lia. apply app_nil_r. Qed.

Lemma tr_FixedOutput_finalize_into_eq p fuel h out : fin_ok fuel h ->
  tr_FixedOutput_finalize_into m_parent_node_output m_Output_chaining_value m_Output_root_hash fuel (lib_of_hasher p h) out
  = (d <- hasher_finalize p h ;; assert! (nlen d =? nlen out) code 42 ;; Ok d).
Proof.
  intros [Hf H1]. unfold tr_FixedOutput_finalize_into. rewrite (lib_Hasher_finalize_eq p fuel h Hf H1).
  destruct (hasher_finalize p h) as [d| |]; cbn [bind]; try reflexivity.
  unfold nlen. destruct (N.of_nat (length d) =? N.of_nat (length out)) eqn:E; cbn [check bind]; [|reflexivity].
  apply N.eqb_eq in E. change (N.to_nat 0) with 0%nat. rewrite arr_store_whole by lia. reflexivity.
Qed.

Lemma tr_FixedOutputReset_finalize_into_reset_eq p fuel h out : fin_ok fuel h ->
  tr_FixedOutputReset_finalize_into_reset m_parent_node_output m_Output_chaining_value m_Output_root_hash fuel
    (lib_of_hasher p h) out
  = (d <- hasher_finalize p h ;; assert! (nlen d =? nlen out) code 42 ;; Ok (lib_of_hasher p (hasher_reset h), d)).
Proof.
  intros [Hf H1]. unfold tr_FixedOutputReset_finalize_into_reset. rewrite (lib_Hasher_finalize_eq p fuel h Hf H1).
  destruct (hasher_finalize p h) as [d| |]; cbn [bind]; try reflexivity.
  unfold nlen. destruct (N.of_nat (length d) =? N.of_nat (length out)) eqn:E; cbn [check bind]; [|reflexivity].
  apply N.eqb_eq in E. change (N.to_nat 0) with 0%nat. rewrite arr_store_whole by lia. reflexivity.
Qed.

(* a digest is 32 bytes on a platform whose compress_in_place maps 8 words to 8 words (every PlatformOK platform) *)
Lemma final_fold_cv p h : forall l o,
  o_cv (final_fold p h o l) = match l with [] => o_cv o | _ => h_key h end.
Proof.
  induction l as [|cv l IH]; intros o; [reflexivity|].
  cbn [final_fold]. rewrite IH. destruct l; reflexivity.
Qed.

Lemma final_output_cv p h o : final_output p h = Ok o -> o_cv o = h_key h \/ o_cv o = cs_cv (h_cs h).
Proof.
  unfold final_output. destruct (h_stack h) as [|a st] eqn:Est.
  - destruct (cs_ctr (h_cs h) =? h_init h); cbn [check bind]; [|discriminate]. intros H. inversion H. right. reflexivity.
  - destruct (cs_count (h_cs h)) as [c| |]; cbn [bind]; try discriminate.
    destruct (0 <? c).
    + destruct (rs_post_merge_len (cs_ctr (h_cs h)) (h_init h)) as [t| |]; cbn [bind]; try discriminate.
      destruct (N.of_nat (length (a :: st)) =? t); cbn [check bind]; [|discriminate].
      intros H. inversion H. left. apply (final_fold_cv p h (a :: st)).
    + destruct st as [|lcv rest]; [discriminate|]. intros H. inversion H. left.
      rewrite final_fold_cv. destruct rest; reflexivity.
Qed.

Lemma hasher_finalize_length p h d : PlatformOK p -> length (h_key h) = 8%nat -> length (cs_cv (h_cs h)) = 8%nat ->
  hasher_finalize p h = Ok d -> length d = 32%nat.
Proof.
  intros OK Hk Hc. unfold hasher_finalize. destruct (h_init h =? 0); cbn [check bind]; [|discriminate].
  destruct (final_output p h) as [o| |] eqn:Eo; cbn [bind]; try discriminate.
  unfold out_root_hash. destruct (o_ctr o =? 0); cbn [check bind]; [|discriminate].
  intros H. inversion H. rewrite bytes_of_words_length, (p_cip_length p _ _ _ _ _ OK); [reflexivity|].
  destruct (final_output_cv p h o Eo) as [E|E]; rewrite E; assumption.
Qed.

Lemma tr_FixedOutput_finalize_into_32 p fuel h out : fin_ok fuel h -> PlatformOK p ->
  length (h_key h) = 8%nat -> length (cs_cv (h_cs h)) = 8%nat -> length out = 32%nat ->
  tr_FixedOutput_finalize_into m_parent_node_output m_Output_chaining_value m_Output_root_hash fuel (lib_of_hasher p h) out
  = hasher_finalize p h.
Proof.
  intros Hfin OK Hk Hc Hout. rewrite (tr_FixedOutput_finalize_into_eq p fuel h out Hfin).
  destruct (hasher_finalize p h) as [d| |] eqn:Ed; cbn [bind]; try reflexivity.
  unfold nlen. rewrite (hasher_finalize_length p h d OK Hk Hc Ed), Hout. reflexivity.
Qed.

(* ---------- ExtendableOutput, ExtendableOutputReset, XofReader ---------- *)
Lemma lib_Hasher_finalize_xof_new_eq p fuel h : fin_ok fuel h ->
  lib_Hasher_finalize_xof m_parent_node_output m_Output_chaining_value lib_OutputReader_new fuel (lib_of_hasher p h)
  = res_map (fun o => lib_of_rd p (reader_new o)) (hasher_finalize_output p h).
Proof.
  intros [Hf H1]. unfold lib_Hasher_finalize_xof, hasher_finalize_output. unfold mcmp. cbn [bind].
  change (lib_Hasher_initial_chunk_counter (lib_of_hasher p h)) with (h_init h).
  destruct (h_init h =? 0); cbn [check bind res_map]; [|reflexivity].
  rewrite (lib_Hasher_final_output_eq p fuel h Hf H1).
  destruct (final_output p h) as [o| |]; cbn [res_map bind]; reflexivity.
Qed.

Lemma tr_ExtendableOutput_finalize_xof_eq p fuel h : fin_ok fuel h ->
  tr_ExtendableOutput_finalize_xof m_parent_node_output m_Output_chaining_value fuel (lib_of_hasher p h)
  = res_map (fun o => lib_of_rd p (reader_new o)) (hasher_finalize_output p h).
Proof.
  intros Hfin. unfold tr_ExtendableOutput_finalize_xof. rewrite (lib_Hasher_finalize_xof_new_eq p fuel h Hfin). apply bind_ret.
Qed.

Lemma tr_ExtendableOutputReset_finalize_xof_reset_eq p fuel h : fin_ok fuel h ->
  tr_ExtendableOutputReset_finalize_xof_reset m_parent_node_output m_Output_chaining_value fuel (lib_of_hasher p h)
  = res_map (fun o => (lib_of_hasher p (hasher_reset h), lib_of_rd p (reader_new o))) (hasher_finalize_output p h).
Proof.
  intros Hfin. unfold tr_ExtendableOutputReset_finalize_xof_reset. rewrite (lib_Hasher_finalize_xof_new_eq p fuel h Hfin).
  destruct (hasher_finalize_output p h) as [o| |]; reflexivity.
Qed.

Lemma tr_XofReader_read_eq p r buf : r_pwb r < 2 ^ 8 -> nlen buf < 2 ^ 64 -> xof_shape p (r_out r) ->
  tr_XofReader_read m_xof_many (lib_of_rd p r) buf = res_map (fill_map p) (reader_fill p r (nlen buf)).
Proof.
  intros Hpwb Hn Hsh. unfold tr_XofReader_read. cbv zeta. change (ms_win (ms_of buf)) with buf.
  rewrite (lib_OutputReader_fill_eq p r buf Hpwb Hn Hsh).
  destruct (reader_fill p r (nlen buf)) as [[r' bs]| |]; reflexivity.
Qed.

(* ---------- KeyInit ---------- *)
Lemma tr_KeyInit_new_eq key p : length key = 32%nat ->
  tr_KeyInit_new key p = lib_of_hasher p (new_internal (words_of_bytes key) rs_flag_KEYED_HASH).
Proof. intros H. unfold tr_KeyInit_new. cbv zeta. apply hz_Hasher_new_keyed_eq. exact H. Qed.

(* ---------- the OpT* cases of Machine.step are these bodies ---------- *)
Section Step.
  Variables (p : platform) (pn : list N) (m : mmode) (key : list N) (flags : N) (st : mstate).

  Lemma step_TUpdate i b :
    step p pn m key flags st (OpTUpdate i b)
    = (h <- get (st_hashers st) i ;;
       h' <- tr_Update_update m_Hasher_update (lib_of_hasher p h) b ;;
       Ok (set_hasher st i (hasher_of_lib h'), [])).
  Proof.
    cbn [step]. destruct (get (st_hashers st) i) as [h| |]; cbn [bind]; try reflexivity.
    rewrite tr_Update_update_eq. destruct (hasher_update p h b) as [h'| |]; cbn [bind res_map]; try reflexivity.
    rewrite hasher_of_lib_of_hasher. reflexivity.
  Qed.

  Lemma step_TReset i :
    step p pn m key flags st (OpTReset i)
    = (h <- get (st_hashers st) i ;; Ok (set_hasher st i (hasher_of_lib (tr_Reset_reset (lib_of_hasher p h))), [])).
  Proof.
    cbn [step]. destruct (get (st_hashers st) i) as [h| |]; cbn [bind]; reflexivity.
  Qed.

  (* the hashers of the state are well-shaped: 8-word key and chunk-state cv, and the side conditions of finalize *)
  Definition hasher_shape (fuel : nat) (h : hasher) : Prop :=
    fin_ok fuel h /\ length (h_key h) = 8%nat /\ length (cs_cv (h_cs h)) = 8%nat.

  Lemma step_TFinalize fuel i : PlatformOK p ->
    (forall h, get (st_hashers st) i = Ok h -> hasher_shape fuel h) ->
    step p pn m key flags st (OpTFinalize i)
    = (h <- get (st_hashers st) i ;;
       d <- tr_FixedOutput_finalize_into m_parent_node_output m_Output_chaining_value m_Output_root_hash fuel
              (lib_of_hasher p h) (repeat 0 32%nat) ;;
       Ok (st, [ObHex d])).
  Proof.
    intros OK Hsh. cbn [step]. destruct (get (st_hashers st) i) as [h| |] eqn:Eg; cbn [bind]; try reflexivity.
    destruct (Hsh h eq_refl) as (Hfin & Hk & Hc).
    rewrite (tr_FixedOutput_finalize_into_32 p fuel h (repeat 0 32%nat) Hfin OK Hk Hc eq_refl). reflexivity.
  Qed.

  Lemma step_TFinalizeReset fuel i : PlatformOK p ->
    (forall h, get (st_hashers st) i = Ok h -> hasher_shape fuel h) ->
    step p pn m key flags st (OpTFinalizeReset i)
    = (h <- get (st_hashers st) i ;;
       '(h', d) <- tr_FixedOutputReset_finalize_into_reset m_parent_node_output m_Output_chaining_value m_Output_root_hash
                     fuel (lib_of_hasher p h) (repeat 0 32%nat) ;;
       Ok (set_hasher st i (hasher_of_lib h'), [ObHex d])).
  Proof.
    intros OK Hsh. cbn [step]. destruct (get (st_hashers st) i) as [h| |] eqn:Eg; cbn [bind]; try reflexivity.
    destruct (Hsh h eq_refl) as (Hfin & Hk & Hc).
    rewrite (tr_FixedOutputReset_finalize_into_reset_eq p fuel h _ Hfin).
    destruct (hasher_finalize p h) as [d| |] eqn:Ed; cbn [bind]; try reflexivity.
    unfold nlen. rewrite (hasher_finalize_length p h d OK Hk Hc Ed), repeat_length. reflexivity.
  Qed.

  (* finalize_xof, then XofReader::read into a buffer of n bytes *)
  Lemma step_TXof fuel i n : n < 2 ^ 64 ->
    (forall h, get (st_hashers st) i = Ok h -> fin_ok fuel h /\ forall o, hasher_finalize_output p h = Ok o -> xof_shape p o) ->
    step p pn m key flags st (OpTXof i n)
    = (h <- get (st_hashers st) i ;;
       rd <- tr_ExtendableOutput_finalize_xof m_parent_node_output m_Output_chaining_value fuel (lib_of_hasher p h) ;;
       '(rd', buf) <- tr_XofReader_read m_xof_many rd (repeat 0 (N.to_nat n)) ;;
       Ok (add_reader st (rd_of_lib rd'), [ObXof buf])).
  Proof.
    intros Hn Hsh. cbn [step]. destruct (get (st_hashers st) i) as [h| |] eqn:Eg; cbn [bind]; try reflexivity.
    destruct (Hsh h eq_refl) as (Hfin & Hx).
    rewrite (tr_ExtendableOutput_finalize_xof_eq p fuel h Hfin).
    destruct (hasher_finalize_output p h) as [o| |] eqn:Eo; cbn [bind res_map]; try reflexivity.
    rewrite tr_XofReader_read_eq; [| reflexivity | unfold nlen; rewrite repeat_length, N2Nat.id; exact Hn | exact (Hx o eq_refl)].
    unfold nlen. rewrite repeat_length, N2Nat.id.
    destruct (reader_fill p (reader_new o) n) as [[r bs]| |]; cbn [bind res_map]; try reflexivity.
    unfold fill_map. cbn [fst snd]. rewrite rd_of_lib_of_rd. reflexivity.
  Qed.

  Lemma step_TXofReset fuel i n : n < 2 ^ 64 ->
    (forall h, get (st_hashers st) i = Ok h -> fin_ok fuel h /\ forall o, hasher_finalize_output p h = Ok o -> xof_shape p o) ->
    step p pn m key flags st (OpTXofReset i n)
    = (h <- get (st_hashers st) i ;;
       '(h', rd) <- tr_ExtendableOutputReset_finalize_xof_reset m_parent_node_output m_Output_chaining_value fuel
                      (lib_of_hasher p h) ;;
       '(rd', buf) <- tr_XofReader_read m_xof_many rd (repeat 0 (N.to_nat n)) ;;
       Ok (add_reader (set_hasher st i (hasher_of_lib h')) (rd_of_lib rd'), [ObXof buf])).
  Proof.
    intros Hn Hsh. cbn [step]. destruct (get (st_hashers st) i) as [h| |] eqn:Eg; cbn [bind]; try reflexivity.
    destruct (Hsh h eq_refl) as (Hfin & Hx).
    rewrite (tr_ExtendableOutputReset_finalize_xof_reset_eq p fuel h Hfin).
    destruct (hasher_finalize_output p h) as [o| |] eqn:Eo; cbn [bind res_map]; try reflexivity.
    rewrite tr_XofReader_read_eq; [| reflexivity | unfold nlen; rewrite repeat_length, N2Nat.id; exact Hn | exact (Hx o eq_refl)].
    unfold nlen. rewrite repeat_length, N2Nat.id.
    destruct (reader_fill p (reader_new o) n) as [[r bs]| |]; cbn [bind res_map]; try reflexivity.
    unfold fill_map. cbn [fst snd]. rewrite rd_of_lib_of_rd, hasher_of_lib_of_hasher. reflexivity.
  Qed.

  Lemma step_TKeyInit k : m = MKeyed k -> length k = 32%nat ->
    step p pn m key flags st OpTKeyInit = Ok (add_hasher st (hasher_of_lib (tr_KeyInit_new k p)), []).
  Proof.
    intros Hm Hk. cbn [step]. rewrite Hm, (tr_KeyInit_new_eq k p Hk), hasher_of_lib_of_hasher. reflexivity.
  Qed.

  (* digest::Digest::new() is Default::default(), which is Hasher::new() *)
  Lemma step_TDigestNew :
    step p pn m key flags st OpTDigestNew = Ok (add_hasher st (hasher_of_lib (hz_Hasher_Default_default p)), []).
  Proof. cbn [step]. rewrite hz_Hasher_default_eq, hasher_of_lib_of_hasher. reflexivity. Qed.
End Step.

(* ---------- src/guts.rs ---------- *)
Lemma gu_ChunkState_new_eq ctr p : gu_ChunkState_new ctr p = lib_of_cs p (guts_new ctr).
Proof. reflexivity. Qed.

Lemma gu_ChunkState_len_eq p c : gu_ChunkState_len (lib_of_cs p c) = guts_len c.
Proof. unfold gu_ChunkState_len, guts_len. rewrite lib_ChunkState_count_eq. apply bind_ret. Qed.

Lemma gu_ChunkState_update_eq p fuel c input : cs_buf_len c < 2 ^ 64 -> (length input < 64 * fuel)%nat ->
  gu_ChunkState_update fuel (lib_of_cs p c) input = res_map (lib_of_cs p) (guts_update p c input).
Proof.
  intros Hbl Hf. unfold gu_ChunkState_update, guts_update. rewrite (lib_ChunkState_update_model p fuel c input Hbl Hf).
  apply bind_ret.
Qed.

(* every fuel: cs_update_with is cs_update with the fuel of its block loop as a parameter (Proofs/GenLibLoopsP.v) *)
Lemma gu_ChunkState_update_fuel p fuel c input : cs_buf_len c < 2 ^ 64 ->
  gu_ChunkState_update fuel (lib_of_cs p c) input = res_map (lib_of_cs p) (cs_update_with fuel p c input).
Proof. intros Hbl. unfold gu_ChunkState_update. rewrite (lib_ChunkState_update_eq p fuel c input Hbl). apply bind_ret. Qed.

Lemma gu_ChunkState_finalize_eq p c is_root :
  gu_ChunkState_finalize m_Output_chaining_value m_Output_root_hash (lib_of_cs p c) is_root = guts_finalize p c is_root.
Proof.
  unfold gu_ChunkState_finalize, guts_finalize. rewrite output_eq. cbn [bind]. cbv zeta.
  destruct is_root; cbn [bind].
  - rewrite m_rh_of_out. destruct (out_root_hash p (cs_output c)); reflexivity.
  - rewrite m_cv_of_out. reflexivity.
Qed.

Lemma gu_parent_cv_eq p l r is_root :
  gu_parent_cv m_parent_node_output m_Output_chaining_value m_Output_root_hash l r is_root p = guts_parent_cv p l r is_root.
Proof.
  unfold gu_parent_cv, guts_parent_cv. cbv zeta. cbn [bind]. unfold m_parent_node_output.
  destruct is_root; cbn [bind].
  - rewrite m_rh_of_out. destruct (out_root_hash p (parent_output rs_IV 0 l r)); reflexivity.
  - rewrite m_cv_of_out. reflexivity.
Qed.
