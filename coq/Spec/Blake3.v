(* BLAKE3 = the tree mode instantiated with the compression function, plus two
   published digests as anchors (from public sources, not from the repository). *)
From Coq Require Import NArith List.
From V Require Import Base.Word Spec.Compress Spec.Tree.
Import ListNotations.
Open Scope N_scope.

(* chaining values are the first 8 words of the compression output; root output
   blocks are all 16 words, little-endian *)
Definition spec_c8 (cv block : list N) (blen counter flags : N) : list N :=
  firstn 8 (compress cv block blen counter flags).
Definition spec_c64 (cv block : list N) (blen counter flags : N) : list N :=
  bytes_of_words (compress cv block blen counter flags).

Definition b3_root_output := root_output spec_c8.
Definition b3_hash := hash spec_c8 spec_c64.
Definition b3_keyed_hash := keyed_hash spec_c8 spec_c64.
Definition b3_derive_key := derive_key spec_c8 spec_c64.
Definition b3_hash_mode := hash_mode spec_c8 spec_c64.
Definition b3_xof_mode := xof_mode spec_c8 spec_c64.

(* BLAKE3("") and BLAKE3("abc") *)
Definition digest_empty : list N :=
  [0xaf;0x13;0x49;0xb9;0xf5;0xf9;0xa1;0xa6;0xa0;0x40;0x4d;0xea;0x36;0xdc;0xc9;0x49;
   0x9b;0xcb;0x25;0xc9;0xad;0xc1;0x12;0xb7;0xcc;0x9a;0x93;0xca;0xe4;0x1f;0x32;0x62].
Definition digest_abc : list N :=
  [0x64;0x37;0xb3;0xac;0x38;0x46;0x51;0x33;0xff;0xb6;0x3b;0x75;0x27;0x3a;0x8d;0xb5;
   0x48;0xc5;0x58;0x46;0x5d;0x79;0xdb;0x03;0xfd;0x35;0x9c;0x6c;0xd5;0xbd;0x9d;0x85].

Lemma anchor_empty : b3_hash [] = digest_empty.
Proof. vm_compute. reflexivity. Qed.

Lemma anchor_abc : b3_hash [97; 98; 99] = digest_abc.
Proof. vm_compute. reflexivity. Qed.
