#!/usr/bin/env python3
"""Side module of tools/gen_coq.py: statement-by-statement translation of the checkfile functions of
b3sum/src/main.rs into coq/gen/GenB3sumFns.v (properties C13 / C12).

    gen_b3sum_fns()  ->  text of GenB3sumFns.v

The source text is tokenised and parsed by a small recursive-descent parser for the Rust subset these functions use;
every statement / expression / method that has no translation rule below raises AnchorError (a broken tie).

Conventions (part of the trusted base):
  * `&str` / `String` / `Cow<str>` / `Chars` are lists of Unicode scalars (`list N`); `str::len`, `find` and the range
    slices count UTF-8 BYTES (Base/Str.v: s_len, s_find_char, s_slice_from / s_slice_to, which panic off a char boundary);
  * `&Path` / `PathBuf` is whatever the caller uses for OS paths; `Path::to_string_lossy` is the parameter
    `ext_to_string_lossy`; `String -> PathBuf` (`.into()`) and `[u8; 32] -> blake3::Hash` (`.into()`) are the identity;
  * `cfg!(windows)` is the parameter `cfg_windows`;
  * a function body is a term of the control monad `ctl R A` of Base/Str.v: `return e` / `bail!(m)` = `creturn`,
    `e?` = `ctry`, panicking operations and calls of translated functions = `clift`; `anyhow::Result<T>` is
    `list N + T` (inl = the message of `bail!` / `ensure!`, as scalars);
  * machine arithmetic is Base/MachInt.v at the operand's width (u8: 8, usize / u64: 64);
  * `while let` is a Fixpoint on explicit fuel (`OutOfFuel` when exhausted); `for x in &mut arr` is recursion over the array;
  * mutable variables are re-bound (`let x := .. in`); an `if` / `match` statement whose arms assign variables binds the
    tuple of the assigned variables;
  * `String::with_capacity(2 * path.len())` is the empty string (the capacity hint is not modelled).
"""
import os
import re
import sys

sys.path.insert(0, os.path.dirname(os.path.abspath(__file__)))
import gen_coq as G  # noqa: E402

AnchorError = G.AnchorError
READ = G.READ
FILE = "b3sum/src/main.rs"

TOKRE = re.compile(r"""
  (?P<ws>\s+|//[^\n]*|/\*.*?\*/)
 |(?P<char>'(?:\\u\{[0-9a-fA-F]+\}|\\.|[^'\\])')
 |(?P<str>"(?:\\.|[^"\\])*")
 |(?P<num>[0-9][0-9_]*(?:u8|u16|u32|u64|usize)?)
 |(?P<macro>[A-Za-z_][A-Za-z0-9_]*!(?!=))
 |(?P<id>[A-Za-z_][A-Za-z0-9_]*(?:::[A-Za-z_][A-Za-z0-9_]*)*)
 |(?P<op>\.\.|=>|==|!=|<=|>=|&&|\|\||->|[-+*/%&|^!<>=(){}\[\].,;:?\#])
""", re.X | re.S)

ESC = {"\\\\": 92, "\\n": 10, "\\r": 13, "\\t": 9, "\\0": 0, "\\'": 39, '\\"': 34}


COQ_RESERVED = {"left", "right", "fst", "snd", "tt", "inl", "inr", "fuel", "iter", "end", "fun", "fix", "O", "S", "at", "using", "with", "then", "forall", "exists"}


def tokenize(text):
    toks, i = [], 0
    while i < len(text):
        m = TOKRE.match(text, i)
        if not m:
            raise AnchorError("b3sumfns: cannot tokenise %r" % text[i:i + 30])
        i = m.end()
        k = m.lastgroup
        if k == "ws":
            continue
        v = m.group(k)
        if k == "id" and v in COQ_RESERVED:
            v += "_"            # Rust variable names that are Coq constructors / names used by the translation
        toks.append((k, v))
    return toks


def char_code(body, where):
    if body in ESC:
        return ESC[body]
    m = re.fullmatch(r"\\u\{([0-9a-fA-F]+)\}", body)
    if m:
        return int(m.group(1), 16)
    if len(body) == 1:
        return ord(body)
    raise AnchorError("%s: unsupported character literal %r" % (where, body))


def str_codes(body, where):
    out, i = [], 0
    while i < len(body):
        if body[i] == "\\":
            m = re.match(r"\\u\{[0-9a-fA-F]+\}", body[i:])
            n = len(m.group(0)) if m else 2
            out.append(char_code(body[i:i + n], where))
            i += n
        else:
            out.append(ord(body[i]))
            i += 1
    return out


# ---------------------------------------------------------------------------
# parser
# ---------------------------------------------------------------------------
class Parser:
    def __init__(self, toks, pos, name):
        self.t, self.p, self.name = toks, pos, name

    def err(self, msg):
        ctx = " ".join(v for _, v in self.t[self.p:self.p + 8])
        raise AnchorError("%s: %s near `%s`" % (self.name, msg, ctx))

    def peek(self, k=0):
        return self.t[self.p + k] if self.p + k < len(self.t) else ("eof", "")

    def at(self, v, k=0):
        return self.peek(k)[1] == v and self.peek(k)[0] in ("op", "id")

    def eat(self, v):
        if not self.at(v):
            self.err("expected `%s`" % v)
        self.p += 1

    def opt(self, v):
        if self.at(v):
            self.p += 1
            return True
        return False

    def ident(self):
        k, v = self.peek()
        if k != "id" or "::" in v:
            self.err("identifier expected")
        self.p += 1
        return v

    # ---- types (kept as normalised text) ----
    def type_text(self, stops):
        depth, out = 0, []
        while True:
            k, v = self.peek()
            if k == "eof":
                self.err("unterminated type")
            if depth == 0 and v in stops and k == "op":
                break
            if v in "(<[" and k == "op":
                depth += 1
            if v in ")>]" and k == "op":
                depth -= 1
            out.append(v)
            self.p += 1
        return "".join(out)

    # ---- patterns ----
    def pattern(self):
        k, v = self.peek()
        if k == "char":
            self.p += 1
            return ("pchar", char_code(v[1:-1], self.name))
        if self.at("("):
            self.p += 1
            ps = []
            while not self.at(")"):
                ps.append(self.pattern())
                if not self.opt(","):
                    break
            self.eat(")")
            return ("ptuple", ps)
        if k == "id":
            self.p += 1
            if v == "_":
                return ("pwild",)
            if v == "mut":
                return ("pvar", self.ident())
            if self.at("("):
                self.p += 1
                ps = []
                while not self.at(")"):
                    ps.append(self.pattern())
                    if not self.opt(","):
                        break
                self.eat(")")
                return ("pctor", v, ps)
            if self.at("{") and v[0].isupper():
                self.p += 1
                fs = []
                while not self.at("}"):
                    fs.append(self.ident())
                    if not self.opt(","):
                        break
                self.eat("}")
                return ("pstruct", v, fs)
            if v == "None":
                return ("pctor", "None", [])
            return ("pvar", v)
        self.err("unsupported pattern")

    # ---- expressions ----
    PREC = [("||",), ("&&",), ("==", "!=", "<", ">", "<=", ">="), ("+", "-"), ("*", "/", "%")]

    def expr(self, nostruct=False, lvl=0):
        if lvl == len(self.PREC):
            return self.cast(nostruct)
        a = self.expr(nostruct, lvl + 1)
        while self.peek()[0] == "op" and self.peek()[1] in self.PREC[lvl]:
            op = self.peek()[1]
            self.p += 1
            b = self.expr(nostruct, lvl + 1)
            a = ("bin", op, a, b)
            if lvl == 2:
                break
        return a

    def cast(self, nostruct):
        a = self.unary(nostruct)
        while self.at("as"):
            self.p += 1
            a = ("cast", a, self.ident())
        return a

    def unary(self, nostruct):
        if self.at("!"):
            self.p += 1
            return ("un", "!", self.unary(nostruct))
        if self.at("&"):
            self.p += 1
            if self.opt("mut"):
                return ("un", "&mut", self.unary(nostruct))
            return ("un", "&", self.unary(nostruct))
        if self.at("*"):
            self.p += 1
            return ("un", "*", self.unary(nostruct))
        if self.at("-"):
            self.err("unary minus is not supported")
        return self.postfix(nostruct)

    def args(self, close=")"):
        out = []
        while not self.at(close):
            out.append(self.expr())
            if not self.opt(","):
                break
        self.eat(close)
        return out

    def postfix(self, nostruct):
        a = self.primary(nostruct)
        while True:
            if self.at("."):
                self.p += 1
                m = self.ident()
                if self.opt("("):
                    a = ("mcall", a, m, self.args())
                else:
                    a = ("field", a, m)
            elif self.at("?"):
                self.p += 1
                a = ("try", a)
            elif self.at("["):
                self.p += 1
                lo = hi = None
                if not self.at(".."):
                    lo = self.expr()
                if self.opt(".."):
                    if not self.at("]"):
                        hi = self.expr()
                    idx = ("range", lo, hi)
                else:
                    idx = lo
                self.eat("]")
                a = ("index", a, idx)
            elif self.at("(") and a[0] == "var":
                self.p += 1
                a = ("call", a[1], self.args())
            else:
                return a

    def primary(self, nostruct):
        k, v = self.peek()
        if k == "num":
            self.p += 1
            m = re.fullmatch(r"([0-9_]+)(u8|u16|u32|u64|usize)?", v)
            return ("num", int(m.group(1).replace("_", "")), m.group(2))
        if k == "char":
            self.p += 1
            return ("char", char_code(v[1:-1], self.name))
        if k == "str":
            self.p += 1
            return ("str", str_codes(v[1:-1], self.name), v[1:-1])
        if k == "macro":
            self.p += 1
            self.eat("(")
            return ("macro", v[:-1], self.args())
        if self.at("("):
            self.p += 1
            es = self.args()
            if len(es) == 1 and self.t[self.p - 2][1] != ",":
                return es[0]
            return ("tuple", es)
        if self.at("["):
            self.p += 1
            first = self.expr()
            if self.opt(";"):
                n = self.expr()
                self.eat("]")
                return ("repeat", first, n)
            es = [first]
            while self.opt(","):
                if self.at("]"):
                    break
                es.append(self.expr())
            self.eat("]")
            return ("array", es)
        if self.at("if"):
            return self.if_expr()
        if self.at("match"):
            return self.match_expr()
        if k == "id":
            self.p += 1
            if self.at("{") and not nostruct and v[0].isupper() and "::" not in v:
                self.p += 1
                fs = []
                while not self.at("}"):
                    f = self.ident()
                    e = self.expr() if self.opt(":") else ("var", f)
                    fs.append((f, e))
                    if not self.opt(","):
                        break
                self.eat("}")
                return ("struct", v, fs)
            return ("var", v)
        self.err("unsupported expression")

    def cond(self):
        if self.at("let"):
            self.p += 1
            pat = self.pattern()
            self.eat("=")
            return ("let", pat, self.expr(nostruct=True))
        return self.expr(nostruct=True)

    def if_expr(self):
        self.eat("if")
        c = self.cond()
        th = self.block()
        el = None
        if self.opt("else"):
            el = [("expr", self.if_expr(), False)] if self.at("if") else self.block()
        return ("if", c, th, el)

    def match_expr(self):
        self.eat("match")
        scrut = self.expr(nostruct=True)
        self.eat("{")
        arms = []
        while not self.at("}"):
            pat = self.pattern()
            self.eat("=>")
            if self.at("{"):
                body = self.block()
                self.opt(",")
            else:
                body = [("expr", self.expr(), False)]
                if not self.opt(","):
                    if not self.at("}"):
                        self.err("`,` expected after a match arm")
            arms.append((pat, body))
        self.eat("}")
        return ("match", scrut, arms)

    # ---- statements ----
    def block(self):
        self.eat("{")
        ss = []
        while not self.at("}"):
            ss.append(self.stmt())
        self.eat("}")
        return ss

    def stmt(self):
        if self.at("let"):
            self.p += 1
            pat = self.pattern()
            ty = None
            if self.opt(":"):
                ty = self.type_text(("=", ";"))
            init = els = None
            if self.opt("="):
                init = self.expr()
                if self.at("else"):
                    self.p += 1
                    els = self.block()
            self.eat(";")
            return ("let", pat, ty, init, els)
        if self.at("return"):
            self.p += 1
            e = None if self.at(";") else self.expr()
            self.eat(";")
            return ("return", e)
        if self.at("while"):
            self.p += 1
            c = self.cond()
            return ("while", c, self.block())
        if self.at("loop"):
            self.p += 1
            return ("loop", self.block())
        if self.at("for"):
            self.p += 1
            pat = self.pattern()
            self.eat("in")
            it = self.expr(nostruct=True)
            return ("for", pat, it, self.block())
        if self.at("if") or self.at("match"):
            e = self.if_expr() if self.at("if") else self.match_expr()
            semi = self.opt(";")
            return ("expr", e, semi or not self.at("}"))
        e = self.expr()
        if self.opt("="):
            rhs = self.expr()
            self.eat(";")
            return ("assign", e, rhs)
        semi = self.opt(";")
        if not semi and not self.at("}"):
            self.err("`;` expected")
        return ("expr", e, semi)


def find_fn(toks, name):
    hits = [i for i in range(len(toks) - 2) if toks[i] == ("id", "fn") and toks[i + 1] == ("id", name) and toks[i + 2] == ("op", "(")]
    if len(hits) != 1:
        raise AnchorError("b3sumfns: fn %s found %d times" % (name, len(hits)))
    p = Parser(toks, hits[0] + 3, name)
    params = []
    while not p.at(")"):
        p.opt("mut")
        pn = p.ident()
        p.eat(":")
        params.append((pn, p.type_text((",", ")"))))
        if not p.opt(","):
            break
    p.eat(")")
    ret = "()"
    if p.opt("->"):
        ret = p.type_text(("{",))
    body = p.block()
    return params, ret, body


def find_struct(toks, name):
    hits = [i for i in range(len(toks) - 2) if toks[i] == ("id", "struct") and toks[i + 1] == ("id", name) and toks[i + 2] == ("op", "{")]
    if len(hits) != 1:
        raise AnchorError("b3sumfns: struct %s found %d times" % (name, len(hits)))
    p = Parser(toks, hits[0] + 3, name)
    fs = []
    while not p.at("}"):
        f = p.ident()
        p.eat(":")
        fs.append((f, p.type_text((",", "}"))))
        if not p.opt(","):
            break
    return fs


# ---------------------------------------------------------------------------
# types
# ---------------------------------------------------------------------------
STRUCTS = {}
NUMW = {"u8": 8, "usize": 64, "u64": 64}


def rust_type(txt, where):
    t = txt.replace(" ", "")
    simple = {"&str": "str", "String": "str", "&String": "str", "char": "char", "u8": "u8", "usize": "usize", "u64": "u64",
              "bool": "bool", "()": "unit", "&Path": "path", "PathBuf": "path", "blake3::Hash": "hash", "&mutu64": "u64"}
    if t in simple:
        return simple[t]
    m = re.fullmatch(r"anyhow::Result<(.*)>", t)
    if m:
        return ("res", rust_type(m.group(1), where))
    m = re.fullmatch(r"Option<(.*)>", t)
    if m:
        return ("opt", rust_type(m.group(1), where))
    if t.startswith("(") and t.endswith(")"):
        return ("tup", [rust_type(x, where) for x in G._p_split_top(t[1:-1], ",")])
    if t in STRUCTS:
        return ("struct", t)
    raise AnchorError("%s: unsupported type `%s`" % (where, txt))


def coq_ty(t):
    if t in ("str", "path", "hash", "arr", "chars"):
        return "list N"
    if t in ("char", "u8", "usize", "u64", "int"):
        return "N"
    if t == "bool":
        return "bool"
    if t == "unit":
        return "unit"
    if t[0] == "opt":
        return "(option %s)" % coq_ty(t[1])
    if t[0] == "res":
        return "(list N + %s)" % coq_ty(t[1])
    if t[0] == "tup":
        return "(%s)" % " * ".join(coq_ty(x) for x in t[1])
    if t[0] == "struct":
        return "(%s)" % " * ".join(coq_ty(ft) for _, ft in STRUCTS[t[1]])
    raise AnchorError("b3sumfns: no Coq type for %r" % (t,))


def coq_list(v):
    return "[" + "; ".join(str(x) for x in v) + "]"


def tuple_of(names):
    return names[0] if len(names) == 1 else "(" + ", ".join(names) + ")"


# ---------------------------------------------------------------------------
# translation of one function
# ---------------------------------------------------------------------------
FNS = {}  # name -> (param types, ret type, needs_fuel, coq name)
SECTION_VARS = [("ext_to_string_lossy", "list N -> list N"), ("cfg_windows", "bool")]


def names_in(node, acc):
    if isinstance(node, tuple):
        if node and node[0] == "var":
            acc.add(node[1])
        for x in node[1:]:
            names_in(x, acc)
    elif isinstance(node, list):
        for x in node:
            names_in(x, acc)
    return acc


def mutated_in(node, acc):
    """variables assigned or mutated through a method inside `node`, in order of first occurrence"""
    if isinstance(node, tuple):
        if node and node[0] == "assign":
            tgt = node[1]
            while tgt[0] == "un":
                tgt = tgt[2]
            if tgt[0] == "var" and tgt[1] not in acc:
                acc.append(tgt[1])
        if node and node[0] == "mcall" and node[2] in ("push_str", "next", "clear") and node[1][0] == "var" and node[1][1] not in acc:
            acc.append(node[1][1])
        for x in node[1:]:
            mutated_in(x, acc)
    elif isinstance(node, list):
        for x in node:
            mutated_in(x, acc)
    return acc


def diverges(ss):
    if not ss:
        return False
    s = ss[-1]
    if s[0] == "return":
        return True
    if s[0] == "expr" and s[1][0] == "macro" and s[1][1] == "bail":
        return True
    if s[0] == "expr" and s[1][0] == "if" and s[1][3] is not None:
        return diverges(s[1][2]) and diverges(s[1][3])
    return False


class Fn:
    def __init__(self, toks, name):
        self.name = name
        self.coq = "gen_" + name
        params, ret, self.body = find_fn(toks, name)
        self.params = [(n, rust_type(t, name)) for n, t in params]
        self.ret = rust_type(ret, name)
        self.R = coq_ty(self.ret)
        self.tmp = 0
        self.aux = []       # auxiliary Fixpoints (loops)
        self.nloops = 0
        self.fuel = self.uses_fuel(self.body)

    def uses_fuel(self, node):
        if isinstance(node, tuple):
            if node and node[0] in ("while", "loop"):
                return True
            if node and node[0] == "call" and node[1] in FNS and FNS[node[1]][2]:
                return True
            return any(self.uses_fuel(x) for x in node[1:])
        if isinstance(node, list):
            return any(self.uses_fuel(x) for x in node)
        return False

    def err(self, msg):
        raise AnchorError("%s: %s" % (self.name, msg))

    def fresh(self):
        self.tmp += 1
        return "t%d" % self.tmp

    # ---------------- expressions: (binds, term, type) ----------------
    def lift(self, binds, m, ty):
        t = self.fresh()
        binds.append("%s <~ clift (%s) ;;\n" % (t, m))
        return binds, t, ty

    def ex(self, e, env, want=None):
        k = e[0]
        if k == "num":
            return [], str(e[1]), (e[2] or "int")
        if k == "char":
            return [], str(e[1]), "char"
        if k == "str":
            return [], coq_list(e[1]), "str"
        if k == "var":
            v = e[1]
            if v in env:
                if env[v] is None:
                    self.err("variable %s read before it is assigned" % v)
                return [], v, env[v]
            if v == "None":
                return [], "None", ("opt", "any")
            if v in ("true", "false"):
                return [], v, "bool"
            if v == "blake3::OUT_LEN":
                G.src("src/lib.rs")
                return [], "rs_OUT_LEN", "usize"
            self.err("unknown name `%s`" % v)
        if k == "un":
            if e[1] == "!":
                b, t, ty = self.ex(e[2], env)
                if ty != "bool":
                    self.err("`!` on a non-bool")
                return b, "(negb %s)" % t, "bool"
            return self.ex(e[2], env, want)      # & / &mut / * : references are transparent
        if k == "cast":
            b, t, ty = self.ex(e[1], env)
            if ty == "char" and e[2] == "u8":
                return b, "(s_char_as_u8 %s)" % t, "u8"
            self.err("unsupported cast %s as %s" % (ty, e[2]))
        if k == "bin":
            return self.binop(e, env)
        if k == "try":
            b, t, ty = self.ex(e[1], env)
            if ty[0] != "res" or self.ret[0] != "res":
                self.err("`?` on a non-Result")
            v = self.fresh()
            b.append("%s <~ ctry %s ;;\n" % (v, t))
            return b, v, ty[1]
        if k == "tuple":
            if not e[1]:
                return [], "tt", "unit"
            bs, ts, tys = [], [], []
            for x in e[1]:
                b, t, ty = self.ex(x, env)
                bs += b
                ts.append(t)
                tys.append(ty)
            return bs, "(" + ", ".join(ts) + ")", ("tup", tys)
        if k == "repeat":
            b, t, ty = self.ex(e[1], env)
            b2, n, _ = self.ex(e[2], env)
            if b or b2:
                self.err("unsupported array initialiser")
            return [], "(repeat %s (N.to_nat %s))" % (t, n), "arr"
        if k == "struct":
            if e[1] not in STRUCTS:
                self.err("unknown struct %s" % e[1])
            given = dict(e[2])
            if sorted(given) != sorted(f for f, _ in STRUCTS[e[1]]) or len(given) != len(e[2]):
                self.err("struct literal %s: fields do not match the declaration" % e[1])
            bs, ts = [], {}
            for f, x in e[2]:       # evaluation in written order
                b, t, ty = self.ex(x, env)
                want_t = rust_type(dict(STRUCTS_TXT[e[1]])[f], self.name)
                if coq_ty(ty) != coq_ty(want_t):
                    self.err("field %s of %s has type %r" % (f, e[1], ty))
                bs += b
                ts[f] = t
            return bs, "(" + ", ".join(ts[f] for f, _ in STRUCTS[e[1]]) + ")", ("struct", e[1])
        if k == "macro":
            if e[1] == "cfg" and e[2] == [("var", "windows")]:
                return [], "cfg_windows", "bool"
            self.err("macro %s! in expression position" % e[1])
        if k == "call":
            return self.call(e, env)
        if k == "mcall":
            return self.mcall(e, env, want)
        if k == "index":
            b, r, ty = self.ex(e[1], env)
            idx = e[2]
            if ty != "str" or idx is None or idx[0] != "range":
                self.err("unsupported index expression")
            lo, hi = idx[1], idx[2]
            if (lo is None) == (hi is None):
                self.err("unsupported range")
            b2, i, ity = self.ex(lo if hi is None else hi, env)
            if ity not in ("usize", "int"):
                self.err("range bound is not a usize")
            return self.lift(b + b2, "%s %s %s" % ("s_slice_from" if hi is None else "s_slice_to", r, i), "str")
        if k == "if":
            return self.if_value(e, env)
        self.err("unsupported expression %r" % (k,))

    def binop(self, e, env):
        op = e[1]
        b1, a, ta = self.ex(e[2], env)
        b2, b, tb = self.ex(e[3], env)
        if ta == "int":
            ta = tb
        if tb == "int":
            tb = ta
        if op in ("&&", "||"):
            if b2 or ta != "bool" or tb != "bool":
                self.err("unsupported operand of %s" % op)
            return b1, "(%s %s %s)" % ("andb" if op == "&&" else "orb", a, b), "bool"
        if coq_ty(ta) != coq_ty(tb) and not (ta == "str" and tb == "str"):
            self.err("operands of %s have types %r and %r" % (op, ta, tb))
        bs = b1 + b2
        if op in ("==", "!="):
            if coq_ty(ta) == "N":
                t = "(%s =? %s)" % (a, b)
            elif coq_ty(ta) == "list N":
                t = "(s_eqb %s %s)" % (a, b)
            else:
                self.err("unsupported == on %r" % (ta,))
            return bs, t if op == "==" else "(negb %s)" % t, "bool"
        if op in ("<", "<=", ">", ">="):
            if coq_ty(ta) != "N":
                self.err("unsupported comparison on %r" % (ta,))
            t = {"<": "(%s <? %s)" % (a, b), "<=": "(%s <=? %s)" % (a, b), ">": "(%s <? %s)" % (b, a), ">=": "(%s <=? %s)" % (b, a)}[op]
            return bs, t, "bool"
        if op in ("+", "-", "*"):
            if ta == "str" and op == "+":
                return bs, "(%s ++ %s)" % (a, b), "str"
            if ta not in NUMW:
                self.err("arithmetic on %r" % (ta,))
            f = {"+": "mi_add", "-": "mi_sub", "*": "mi_mul"}[op]
            return self.lift(bs, "%s %d %s %s" % (f, NUMW[ta], a, b), ta)
        self.err("unsupported operator %s" % op)

    def call(self, e, env):
        f, args = e[1], e[2]
        if f in ("Ok", "Some"):
            if len(args) != 1:
                self.err("%s with %d arguments" % (f, len(args)))
            b, t, ty = self.ex(args[0], env)
            return (b, "(inr %s)" % t, ("res", ty)) if f == "Ok" else (b, "(Some %s)" % t, ("opt", ty))
        if f == "String::with_capacity":
            a = args[0] if len(args) == 1 else None
            if not (a and a[0] == "bin" and a[1] == "*" and a[2] == ("num", 2, None) and a[3][0] == "mcall" and a[3][2] == "len"
                    and a[3][1][0] == "var" and env.get(a[3][1][1]) == "str" and a[3][3] == []):
                self.err("String::with_capacity: unrecognised capacity expression")
            return [], "[]", "str"
        if f in FNS:
            ptys, rty, fuel, cn = FNS[f]
            if len(args) != len(ptys):
                self.err("call of %s with %d arguments" % (f, len(args)))
            bs, ts = [], []
            for x, pt in zip(args, ptys):
                b, t, ty = self.ex(x, env)
                if coq_ty(ty) != coq_ty(pt):
                    self.err("argument of %s has type %r" % (f, ty))
                bs += b
                ts.append(t)
            return self.lift(bs, "%s %s%s" % (cn, "fuel " if fuel else "", " ".join(ts)), rty)
        self.err("call of untranslated function `%s`" % f)

    def char_set(self, a):
        if a[0] == "array" and a[1] and all(x[0] == "char" for x in a[1]):
            return [x[1] for x in a[1]]
        self.err("character set expected")

    def mcall(self, e, env, want):
        recv, m, args = e[1], e[2], e[3]
        # Chars::next on a variable advances the variable
        if m == "next" and not args and recv[0] == "var" and env.get(recv[1]) == "chars":
            t = self.fresh()
            return ["let '(%s, %s) := s_chars_next %s in\n" % (t, recv[1], recv[1])], t, ("opt", "char")
        b, r, ty = self.ex(recv, env)
        n = len(args)
        if ty == "path" and m == "to_string_lossy" and n == 0:
            return b, "(ext_to_string_lossy %s)" % r, "str"
        if ty == "str" and m == "to_string" and n == 0:
            return b, r, "str"
        if m == "into" and n == 0 and ty in ("str", "arr"):
            return b, r, ty          # the let annotation / field type decides (checked there)
        if ty == "str" and m == "replace" and n == 2 and args[0][0] == "char" and args[1][0] == "str":
            return b, "(s_replace_char %d %s %s)" % (args[0][1], coq_list(args[1][1]), r), "str"
        if ty == "str" and m == "contains" and n == 1:
            if args[0][0] == "char":
                return b, "(s_contains_char %d %s)" % (args[0][1], r), "bool"
            return b, "(s_contains_any %s %s)" % (coq_list(self.char_set(args[0])), r), "bool"
        if ty == "str" and m == "trim_end_matches" and n == 1:
            return b, "(s_trim_end_matches %s %s)" % (coq_list(self.char_set(args[0])), r), "str"
        if ty == "str" and m == "find" and n == 1 and args[0][0] == "char":
            return b, "(s_find_char %d %s)" % (args[0][1], r), ("opt", "usize")
        if ty == "str" and m == "len" and n == 0:
            return b, "(s_len %s)" % r, "usize"
        if ty == "str" and m == "is_empty" and n == 0:
            return b, "(s_is_empty %s)" % r, "bool"
        if ty == "str" and m == "chars" and n == 0:
            return b, r, "chars"
        if ty == "chars" and m == "next" and n == 0:
            return b, "(fst (s_chars_next %s))" % r, ("opt", "char")
        if ty[0] == "opt" and m == "unwrap" and n == 0:
            return self.lift(b, "s_unwrap %s" % r, ty[1])
        if ty == "str" and m in ("starts_with", "split_once", "rsplit_once") and n == 1:
            b2, p, pty = self.ex(args[0], env)
            if pty != "str" or b2:
                self.err("%s: pattern must be a &str" % m)
            if m == "starts_with":
                return b, "(s_starts_with %s %s)" % (p, r), "bool"
            return b, "(s_%s %s %s)" % (m, p, r), ("opt", ("tup", ["str", "str"]))
        if ty == "u64" and m == "saturating_add" and n == 1 and args[0][0] == "num":
            return b, "(s_sat_add64 %s %d)" % (r, args[0][1]), "u64"
        self.err("no translation for method `%s` on %r" % (m, ty))

    def if_value(self, e, env):
        """`if c { a } else { b }` used as a value"""
        c, th, el = e[1], e[2], e[3]
        if el is None or (isinstance(c, tuple) and c[0] == "let"):
            self.err("unsupported if-expression")
        b, ct, cty = self.ex(c, env)
        if cty != "bool":
            self.err("condition is not a bool")
        tys = []

        def fin(env2, v):
            if v is None:
                self.err("if-expression arm without a value")
            tys.append(v[1])
            return "cret %s" % v[0]
        a1 = self.block(th, dict(env), fin)
        a2 = self.block(el, dict(env), fin)
        if len(tys) != 2 or coq_ty(tys[0]) != coq_ty(tys[1]):
            self.err("if-expression arms of different types")
        t = self.fresh()
        b.append("%s <~ (if %s then\n%s\nelse\n%s) ;;\n" % (t, ct, a1, a2))
        return b, t, tys[0]

    # ---------------- patterns ----------------
    def pat(self, p, ty, env):
        """Coq pattern; binds the variables in env"""
        if p[0] == "pvar":
            env[p[1]] = ty
            return p[1]
        if p[0] == "pwild":
            return "_"
        if p[0] == "ptuple":
            if ty[0] != "tup" or len(ty[1]) != len(p[1]):
                self.err("tuple pattern against %r" % (ty,))
            return "(" + ", ".join(self.pat(q, t, env) for q, t in zip(p[1], ty[1])) + ")"
        if p[0] == "pctor" and p[1] == "Some" and len(p[2]) == 1 and ty[0] == "opt":
            return "Some " + self.pat(p[2][0], ty[1], env)
        if p[0] == "pstruct" and ty == ("struct", p[1]):
            if p[2] != [f for f, _ in STRUCTS[p[1]]]:
                self.err("struct pattern %s: fields must be listed in declaration order" % p[1])
            for f, ft in STRUCTS[p[1]]:
                env[f] = ft
            return "(" + ", ".join(p[2]) + ")"
        self.err("unsupported pattern %r against %r" % (p, ty))

    # ---------------- statements ----------------
    def msg(self, e):
        if e[0] != "str" or "{" in e[2]:
            self.err("message must be a plain string literal")
        return coq_list(e[1])

    def block(self, ss, env, fin):
        if not ss:
            return fin(env, None)
        s, rest = ss[0], ss[1:]
        k = s[0]
        if k == "let":
            return self.let(s, rest, env, fin)
        if k == "assign":
            tgt = s[1]
            while tgt[0] == "un" and tgt[1] == "*":
                tgt = tgt[2]
            if tgt[0] != "var" or tgt[1] not in env:
                self.err("unsupported assignment target")
            b, t, ty = self.ex(s[2], env)
            if env[tgt[1]] is not None and coq_ty(env[tgt[1]]) != coq_ty(ty):
                self.err("assignment changes the type of %s" % tgt[1])
            if env[tgt[1]] is None or env[tgt[1]] == "int":
                env[tgt[1]] = ty
            return "".join(b) + "let %s := %s in\n" % (tgt[1], t) + self.block(rest, env, fin)
        if k == "return":
            if rest:
                self.err("statements after return")
            b, t, ty = self.ex(s[1], env) if s[1] is not None else ([], "tt", "unit")
            self.check_ret(ty)
            return "".join(b) + "creturn %s" % t
        if k == "while":
            return self.while_let(s, rest, env, fin)
        if k == "for":
            return self.for_mut(s, rest, env, fin)
        if k == "expr":
            e = s[1]
            if e[0] == "macro" and e[1] == "bail":
                if rest or len(e[2]) != 1 or self.ret[0] != "res":
                    self.err("unsupported bail!")
                return "creturn (inl %s)" % self.msg(e[2][0])
            if e[0] == "macro" and e[1] == "ensure":
                if len(e[2]) != 2 or self.ret[0] != "res":
                    self.err("unsupported ensure!")
                b, c, cty = self.ex(e[2][0], env)
                if cty != "bool":
                    self.err("ensure! on a non-bool")
                return "".join(b) + "if %s then\n%s\nelse creturn (inl %s)" % (c, self.block(rest, env, fin), self.msg(e[2][1]))
            if e[0] == "mcall" and e[2] == "push_str" and e[1][0] == "var" and env.get(e[1][1]) == "str" and len(e[3]) == 1 and s[2]:
                b, t, ty = self.ex(e[3][0], env)
                if ty != "str":
                    self.err("push_str of a non-str")
                v = e[1][1]
                return "".join(b) + "let %s := %s ++ %s in\n" % (v, v, t) + self.block(rest, env, fin)
            if e[0] == "if" and (s[2] or rest or e[3] is None):
                return self.if_stmt(e, rest, env, fin)
            if e[0] == "match" and (s[2] or rest):
                return self.match_stmt(e, rest, env, fin)
            if not rest and not s[2]:
                b, t, ty = self.ex(e, env)
                return "".join(b) + fin(env, (t, ty))
            if e[0] == "try" and s[2]:
                b, t, ty = self.ex(e, env)
                return "".join(b) + self.block(rest, env, fin)
            self.err("unsupported expression statement %r" % (e[0],))
        self.err("unsupported statement %r" % (k,))

    def check_ret(self, ty):
        def ok(a, want):
            if isinstance(a, tuple) and isinstance(want, tuple) and a[0] == want[0] and a[0] in ("res", "opt"):
                return a[1] == "any" or ok(a[1], want[1])
            return coq_ty(a) == coq_ty(want)
        if not ok(ty, self.ret):
            self.err("returned value of type %r, function returns %r" % (ty, self.ret))

    def let(self, s, rest, env, fin):
        _, pat, tytxt, init, els = s
        if init is None:
            if pat[0] != "pvar":
                self.err("unsupported declaration")
            env[pat[1]] = None
            return self.block(rest, env, fin)
        b, t, ty = self.ex(init, env)
        if tytxt is not None:
            want = rust_type(tytxt, self.name)
            if coq_ty(want) != coq_ty(ty):
                self.err("let annotation %s does not fit %r" % (tytxt, ty))
            ty = want
        if els is not None:
            if not diverges(els):
                self.err("let-else whose else block does not diverge")
            d = self.block(els, dict(env), fin)
            cp = self.pat(pat, ty, env)
            return "".join(b) + "match %s with\n| %s =>\n%s\n| _ => %s\nend" % (t, cp, self.block(rest, env, fin), d)
        if pat[0] == "pvar":
            env[pat[1]] = ty
            return "".join(b) + "let %s := %s in\n" % (pat[1], t) + self.block(rest, env, fin)
        cp = self.pat(pat, ty, env)
        return "".join(b) + "let '%s := %s in\n" % (cp, t) + self.block(rest, env, fin)

    def cond_open(self, c, env, env_then):
        """(binds, coq text up to and including the `then` / `=>`, text between the arms, closing text)"""
        if isinstance(c, tuple) and c[0] == "let":
            b, t, ty = self.ex(c[2], env)
            cp = self.pat(c[1], ty, env_then)
            return b, "match %s with\n| %s =>\n" % (t, cp), "\n| _ =>\n", "\nend"
        b, t, ty = self.ex(c, env)
        if ty != "bool":
            self.err("condition is not a bool")
        return b, "if %s then\n" % t, "\nelse\n", ""

    def if_stmt(self, e, rest, env, fin):
        c, th, el = e[1], e[2], e[3]
        if el is None and diverges(th):
            env_t = dict(env)
            b, op, mid, cl = self.cond_open(c, env, env_t)
            a1 = self.block(th, env_t, fin)
            return "".join(b) + op + a1 + mid + self.block(rest, env, fin) + cl
        # arms assign variables of the enclosing scope (or diverge): bind the tuple of the assigned variables
        V = [v for v in mutated_in(("if", None, th, el), []) if v in env]
        if not V:
            self.err("if statement without effect on the translated state")
        tys = {}

        def fin_v(env2, v):
            if v is not None:
                self.err("unexpected value in a statement arm")
            for x in V:
                if env2[x] is None:
                    self.err("variable %s is not assigned on every path" % x)
                if x in tys and coq_ty(tys[x]) != coq_ty(env2[x]):
                    self.err("variable %s gets different types" % x)
                tys.setdefault(x, env2[x])
            return "cret %s" % tuple_of(V)
        text = self.if_chain(("if", c, th, el), env, fin_v)
        for x in V:
            env[x] = tys[x]
        pat = V[0] if len(V) == 1 else "'" + tuple_of(V)
        return "%s <~ (%s) ;;\n" % (pat, text) + self.block(rest, env, fin)

    def if_chain(self, e, env, fin_v):
        c, th, el = e[1], e[2], e[3]
        env_t = dict(env)
        b, op, mid, cl = self.cond_open(c, env, env_t)
        a1 = self.block(th, env_t, fin_v)
        if el is None:
            a2 = fin_v(dict(env), None)
        elif len(el) == 1 and el[0][0] == "expr" and el[0][1][0] == "if":
            a2 = self.if_chain(el[0][1], env, fin_v)
        else:
            a2 = self.block(el, dict(env), fin_v)
        return "".join(b) + op + a1 + mid + a2 + cl     # effects of an `else if` condition are evaluated inside the else arm

    def match_stmt(self, e, rest, env, fin):
        b, t, ty = self.ex(e[1], env)
        arms = e[2]
        if ty != "char" or not arms or arms[-1][0] != ("pwild",) or any(p[0] != "pchar" for p, _ in arms[:-1]):
            self.err("unsupported match (char literals and a final `_` arm expected)")
        V = [v for v in mutated_in([a for _, a in arms], []) if v in env]
        tys = {}

        def fin_v(env2, v):
            for x in V:
                tys.setdefault(x, env2[x])
            return "cret %s" % (tuple_of(V) if V else "tt")
        text = ""
        for p, a in arms[:-1]:
            text += "if %s =? %d then\n%s\nelse " % (t, p[1], self.arm(a, dict(env), fin_v))
        text += self.arm(arms[-1][1], dict(env), fin_v)
        pat = "_" if not V else (V[0] if len(V) == 1 else "'" + tuple_of(V))
        return "".join(b) + "%s <~ (%s) ;;\n" % (pat, text) + self.block(rest, env, fin)

    def arm(self, a, env, fin_v):
        # an arm written as an expression is a statement here
        if len(a) == 1 and a[0][0] == "expr" and not a[0][2]:
            a = [("expr", a[0][1], True)]
        return self.block(a, env, fin_v)

    def loop_sig(self, body_nodes, env, exclude=()):
        used = names_in(body_nodes, set())
        S = [v for v in mutated_in(body_nodes, []) if v in env and v not in exclude]
        Rd = [v for v in env if v in used and v not in S and v not in exclude and env[v] is not None]
        return S, Rd

    def while_let(self, s, rest, env, fin):
        c, body = s[1], s[2]
        if not (isinstance(c, tuple) and c[0] == "let"):
            self.err("only `while let` loops are translated")
        self.nloops += 1
        fname = "%s_while%d" % (self.coq, self.nloops)
        S, Rd = self.loop_sig([c[2], body], env)
        if not S:
            self.err("while loop without state")
        lenv = dict(env)
        b, t, ty = self.ex(c[2], lenv)
        benv = dict(lenv)
        cp = self.pat(c[1], ty, benv)
        call = "%s fuel %s" % (fname, " ".join(Rd + S))
        btxt = self.block(body, benv, lambda env2, v: call)
        sig = " ".join("(%s : %s)" % (v, coq_ty(env[v])) for v in Rd + S)
        sty = " * ".join(coq_ty(env[v]) for v in S)
        self.aux.append("Fixpoint %s (fuel : nat) %s {struct fuel} : ctl %s (%s) :=\n%smatch %s with\n| %s =>\nmatch fuel with\n| O => OutOfFuel\n| S fuel =>\n%s\nend\n| _ => cret %s\nend.\n"
                        % (fname, sig, self.R, sty, "".join(b), t, cp, btxt, tuple_of(S)))
        pat = S[0] if len(S) == 1 else "'" + tuple_of(S)
        return "%s <~ %s ;;\n" % (pat, call) + self.block(rest, env, fin)

    def for_mut(self, s, rest, env, fin):
        pat, it, body = s[1], s[2], s[3]
        if not (pat[0] == "pvar" and it[0] == "un" and it[1] == "&mut" and it[2][0] == "var" and env.get(it[2][1]) == "arr"):
            self.err("only `for x in &mut <array>` loops are translated")
        x, arr = pat[1], it[2][1]
        last = body[-1] if body else None
        if not (last and last[0] == "assign" and last[1] == ("un", "*", ("var", x))):
            self.err("for loop must end with `*%s = ..;`" % x)
        self.nloops += 1
        fname = "%s_for%d" % (self.coq, self.nloops)
        S, Rd = self.loop_sig(body, env, exclude=(arr, x))
        if arr in names_in(body, set()):
            self.err("for loop body uses the array it iterates over")
        benv = dict(env)
        benv[x] = "u8"
        rec = "%s %s" % (fname, " ".join(Rd + ["iter"] + S))
        outs = ["iter"] + S
        btxt = self.block(body, benv, lambda env2, v: "'%s <~ %s ;;\ncret (%s)" % (tuple_of(outs), rec, ", ".join(["%s :: iter" % x] + S)))
        sig = " ".join(["(%s : %s)" % (v, coq_ty(env[v])) for v in Rd] + ["(iter : list N)"] + ["(%s : %s)" % (v, coq_ty(env[v])) for v in S])
        sty = " * ".join(["list N"] + [coq_ty(env[v]) for v in S])
        self.aux.append("Fixpoint %s %s {struct iter} : ctl %s (%s) :=\nmatch iter with\n| [] => cret (%s)\n| %s :: iter =>\n%s\nend.\n"
                        % (fname, sig, self.R, sty, ", ".join(["[]"] + S), x, btxt))
        call = "%s %s" % (fname, " ".join(Rd + [arr] + S))
        return "'%s <~ %s ;;\n" % (tuple_of([arr] + S), call) + self.block(rest, env, fin)

    # ---------------- whole function ----------------
    def translate(self):
        env = {n: t for n, t in self.params}

        def fin(env2, v):
            if v is None:
                if self.ret != "unit":
                    self.err("function body ends without a value")
                return "cret tt"
            self.check_ret(v[1])
            return "cret %s" % v[0]
        body = self.block(self.body, env, fin)
        sig = "".join(" (%s : %s)" % (n, coq_ty(t)) for n, t in self.params)
        head = "(* fn %s *)\n" % self.name
        return head + "".join(a + "\n" for a in self.aux) + "Definition %s%s%s : res %s :=\ncrun (\n%s).\n" % (
            self.coq, " (fuel : nat)" if self.fuel else "", sig, self.R, body)


def indent(text):
    """cosmetic: indent by nesting of match/end and parentheses"""
    out, depth = [], 0
    for line in text.split("\n"):
        s = line.strip()
        if s.startswith("end") or s.startswith(")"):
            depth = max(0, depth - 1)
        out.append(("  " * depth + s) if s else "")
        opens = len(re.findall(r"\bmatch\b", s)) + s.count("(")
        closes = len(re.findall(r"\bend\b", s)) + s.count(")")
        if s.startswith("end") or s.startswith(")"):
            closes -= 1
        depth = max(0, depth + opens - closes)
    return "\n".join(out)


STRUCTS_TXT = {}
ORDER = ["hex_half_byte", "filepath_to_string", "check_for_invalid_characters", "unescape",
         "split_untagged_check_line", "split_tagged_check_line", "parse_check_line"]


def gen_b3sum_fns():
    toks = tokenize(G.src(FILE))
    STRUCTS.clear()
    STRUCTS_TXT.clear()
    FNS.clear()
    for sname in ("FilepathString", "ParsedCheckLine"):
        fs = find_struct(toks, sname)
        STRUCTS_TXT[sname] = fs
        STRUCTS[sname] = []
    for sname in STRUCTS_TXT:
        STRUCTS[sname] = [(f, rust_type(t, sname)) for f, t in STRUCTS_TXT[sname]]
    out = ["(* GENERATED by tools/gen_coq_b3sumfns.py (side module of tools/gen_coq.py) from b3sum/src/main.rs. Do not edit. *)\n"
           "From Coq Require Import NArith List Bool.\nFrom V Require Import Base.Res Base.MachInt Base.Str gen.GenConsts.\n"
           "Import ListNotations.\nOpen Scope N_scope.\n\n"
           "(* struct fields in declaration order *)\n"]
    for sname, fs in STRUCTS.items():
        out.append("Definition gen_%s : Type := %s.  (* %s *)\n" % (sname, coq_ty(("struct", sname)), ", ".join(f for f, _ in fs)))
    out.append("\nSection B3sumFns.\n")
    for v, t in SECTION_VARS:
        out.append("Variable %s : %s.\n" % (v, t))
    out.append("\n")
    for name in ORDER:
        f = Fn(toks, name)
        text = f.translate()
        FNS[name] = ([t for _, t in f.params], f.ret, f.fuel, f.coq)
        out.append(indent(text) + "\n")
    out.append("End B3sumFns.\n")
    return "".join(out)


if __name__ == "__main__":
    try:
        text = gen_b3sum_fns()
    except AnchorError as e:
        print("AnchorError:", e)
        sys.exit(1)
    path = os.path.join(G.OUT, "GenB3sumFns.v")
    print("changed" if G.write_if_changed(path, text) else "unchanged", path)
