(* src/io.rs (copy_wide, maybe_mmap_file) and the reader / Write / mmap / rayon wrappers of src/lib.rs as TRANSLATED
   statement by statement (gen/GenIo.v) are the functions of Model/RsIo.v, for every fuel and including the Panic /
   OutOfFuel results.

   The standard-library and memmap2 calls are parameters of the translation.  They are instantiated here with
   - any reader whose `read` follows a script of Model/RsIo.v (`scripted_reader`: the four outcomes, at most the
     requested number of bytes, delivered at the front of the buffer);
   - an operating-system oracle for a file (`os`): the answer to seek(End(-16383)), whether mmap succeeds, whether
     rewind fails; a file is its cursor position and the script its reads follow;
   - Hasher::update = the model's hasher_update through the representation map (m_Hasher_update, Proofs/GenTraitsP.v). *)
From Coq Require Import NArith ZArith List Bool Lia Arith.
From V Require Import Base.Res Base.Word Base.MachInt Base.Arr Base.ArrayVec Base.MutSlice Base.SInt
  gen.GenConsts gen.GenFormulas gen.GenLibSmall gen.GenLibLoops gen.GenXof gen.GenIo
  Spec.Tree Model.Portable Model.Platform Model.RsChunk Model.RsWide Model.RsHasher Model.RsWideSched Model.RsHasherSched
  Model.RsIo
  Proofs.GenLibSmallP Proofs.GenLibLoopsP Proofs.GenTraitsP.
Import ListNotations.
Open Scope N_scope.
Set Default Timeout 300.

Lemma io_MINIMUM_MMAP_SIZE_eq : io_MINIMUM_MMAP_SIZE = rs_MIN_MMAP.
Proof. reflexivity. Qed.

Notation kind_Interrupted := [73; 110; 116; 101; 114; 114; 117; 112; 116; 101; 100] (only parsing).

(* ---------- scripted readers ---------- *)
Definition next_item (script : list read_item) : read_item * list read_item :=
  match script with [] => (RDeliver rs_COPY_BUF, []) | it :: tl => (it, tl) end.

(* one read of at most buflen bytes: (remaining data and script, bytes delivered, result) *)
Definition script_step (ek : N -> list N) (buflen : N) (st : list N * list read_item)
  : (list N * list read_item) * list N * io_result N :=
  let '(item, script') := next_item (snd st) in
  match item with
  | RInterrupted => ((fst st, script'), [], IoErr kind_Interrupted)
  | RError k => ((fst st, script'), [], IoErr (ek k))
  | RZero => ((fst st, script'), [], IoOk 0)
  | RDeliver n => let k := N.min (N.min n buflen) (nlen (fst st)) in
                  ((skipn (N.to_nat k) (fst st), script'), firstn (N.to_nat k) (fst st), IoOk k)
  end.

Definition io_of_copy (ek : N -> list N) (r : copy_result) : io_result N :=
  match r with CopyOk t => IoOk t | CopyErr k => IoErr (ek k) end.
Definition io_unit_of_copy (ek : N -> list N) (r : copy_result) : io_result unit :=
  match r with CopyOk _ => IoOk tt | CopyErr k => IoErr (ek k) end.

Section Reader.
  Variable Reader : Type.
  Variable view : Reader -> list N * list read_item.
  Variable read : Reader -> list N -> Reader * list N * io_result N.
  Variable ek : N -> list N.
  Hypothesis ek_ne : forall k, ek k <> kind_Interrupted.

  Definition scripted_reader : Prop := forall r buf,
    let s := script_step ek (nlen buf) (view r) in
    exists r' buf', read r buf = (r', buf', snd s) /\ view r' = fst (fst s) /\ length buf' = length buf /\
                    firstn (length (snd (fst s))) buf' = snd (fst s).
  Hypothesis Hread : scripted_reader.

  Lemma kind_eqb_ek k : io_kind_eqb (ek k) kind_Interrupted = false.
  Proof. unfold io_kind_eqb. destruct (list_eq_dec N.eq_dec (ek k) kind_Interrupted) as [E|E]; [destruct (ek_ne k E)|reflexivity]. Qed.

  Lemma kind_eqb_refl : io_kind_eqb kind_Interrupted kind_Interrupted = true.
  Proof. reflexivity. Qed.

  Lemma io_copy_wide_loop1_eq p : forall fuel r h buf total, nlen buf = rs_COPY_BUF ->
    io_copy_wide_loop1 Reader read m_Hasher_update fuel r (lib_of_hasher p h) buf total
    = res_map (fun x => (lib_of_hasher p (fst x), io_of_copy ek (snd x)))
        (copy_wide fuel p h (fst (view r)) (snd (view r)) total).
  Proof.
    induction fuel as [|fuel IH]; intros r h buf total Hbuf; [reflexivity|].
    cbn [io_copy_wide_loop1 copy_wide].
    destruct (Hread r buf) as (r' & buf' & Hr & Hv & Hl & Hp). rewrite Hr. clear Hr.
    unfold script_step in *. fold (next_item (snd (view r))).
    destruct (view r) as [data script]. cbn [fst snd] in *.
    destruct (next_item script) as [item script']. destruct item as [n| |k|]; cbn [fst snd] in *.
    - rewrite Hbuf in *. set (k := N.min (N.min n rs_COPY_BUF) (nlen data)) in *.
      destruct (k =? 0) eqn:E0; [reflexivity|].
      assert (Hk1 : k <= N.of_nat (length buf')).
      { rewrite Hl. fold (nlen buf). rewrite Hbuf. unfold k. lia. }
      apply N.leb_le in Hk1. rewrite Hk1. cbn [check bind].
      assert (Hlen : length (firstn (N.to_nat k) data) = N.to_nat k).
      { rewrite firstn_length. unfold k, nlen. lia. }
      rewrite Hlen in Hp. rewrite Hp. rewrite m_Hasher_update_of.
      destruct (hasher_update p h (firstn (N.to_nat k) data)) as [h1| |]; cbn [bind res_map]; try reflexivity.
      destruct (mi_add 64 total k) as [t1| |]; cbn [bind res_map]; try reflexivity.
      rewrite IH by (unfold nlen; rewrite Hl; exact Hbuf). rewrite Hv. reflexivity.
    - rewrite kind_eqb_refl. rewrite IH by (unfold nlen; rewrite Hl; exact Hbuf). rewrite Hv. reflexivity.
    - rewrite kind_eqb_ek. reflexivity.
    - reflexivity.
  Qed.

  Lemma nlen_copy_buffer : nlen (repeat 0 (N.to_nat 65536)) = rs_COPY_BUF.
  Proof. unfold nlen. rewrite repeat_length, N2Nat.id. reflexivity. Qed.

  (* A. io::copy_wide *)
  Theorem io_copy_wide_eq p fuel r h :
    io_copy_wide Reader read m_Hasher_update fuel r (lib_of_hasher p h)
    = res_map (fun x => (lib_of_hasher p (fst x), io_of_copy ek (snd x)))
        (copy_wide fuel p h (fst (view r)) (snd (view r)) 0).
  Proof. unfold io_copy_wide. cbv zeta. apply io_copy_wide_loop1_eq. exact nlen_copy_buffer. Qed.

  (* C. Hasher::update_reader: copy_wide(reader, self), the total is dropped *)
  Theorem io_Hasher_update_reader_fuel_eq p fuel r h :
    io_Hasher_update_reader Reader read m_Hasher_update fuel (lib_of_hasher p h) r
    = res_map (fun x => (lib_of_hasher p (fst x), io_unit_of_copy ek (snd x)))
        (copy_wide fuel p h (fst (view r)) (snd (view r)) 0).
  Proof.
    unfold io_Hasher_update_reader. rewrite io_copy_wide_eq.
    destruct (copy_wide fuel p h (fst (view r)) (snd (view r)) 0) as [[h1 [t|k]]| |]; reflexivity.
  Qed.

  Theorem io_Hasher_update_reader_eq p r h :
    io_Hasher_update_reader Reader read m_Hasher_update (copy_fuel (fst (view r)) (snd (view r))) (lib_of_hasher p h) r
    = res_map (fun x => (lib_of_hasher p (fst x), io_unit_of_copy ek (snd x)))
        (update_reader p h (fst (view r)) (snd (view r))).
  Proof. apply io_Hasher_update_reader_fuel_eq. Qed.
End Reader.

(* the script itself is a scripted reader (state = remaining data and script) *)
Definition m_read (ek : N -> list N) (st : list N * list read_item) (buf : list N)
  : (list N * list read_item) * list N * io_result N :=
  let s := script_step ek (nlen buf) st in
  (fst (fst s), snd (fst s) ++ skipn (length (snd (fst s))) buf, snd s).

Lemma script_piece_le ek buf st : (length (snd (fst (script_step ek (nlen buf) st))) <= length buf)%nat.
Proof.
  unfold script_step. destruct (next_item (snd st)) as [item s']. destruct item; cbn [fst snd length]; try lia.
  rewrite firstn_length. unfold nlen. lia.
Qed.

Lemma m_read_scripted ek : scripted_reader (list N * list read_item) (fun st => st) (m_read ek) ek.
Proof.
  intros r buf s. unfold m_read. fold s. eexists. eexists. split; [reflexivity|]. split; [reflexivity|].
  pose proof (script_piece_le ek buf r) as Hle. fold s in Hle. split.
  - rewrite app_length, skipn_length. lia.
  - rewrite firstn_app, Nat.sub_diag, firstn_all. cbn [firstn]. apply app_nil_r.
Qed.

(* ---------- C. impl std::io::Write for Hasher ---------- *)
Theorem io_Hasher_Write_write_eq p h input :
  io_Hasher_Write_write m_Hasher_update (lib_of_hasher p h) input
  = res_map (fun x => (lib_of_hasher p (fst x), IoOk (snd x))) (hasher_write p h input).
Proof.
  unfold io_Hasher_Write_write, hasher_write. rewrite m_Hasher_update_of.
  destruct (hasher_update p h input); reflexivity.
Qed.

Theorem io_Hasher_Write_flush_eq h : io_Hasher_Write_flush h = Ok (h, IoOk tt).
Proof. reflexivity. Qed.

(* ---------- C. Hasher::update_rayon = update_with_join::<RayonJoin> ---------- *)
Theorem io_Hasher_update_rayon_call ext h input :
  io_Hasher_update_rayon ext h input = ext io_Join_RayonJoin h input.
Proof. unfold io_Hasher_update_rayon. apply bind_ret. Qed.

(* update_with_join::<J>: the serial join is Hasher::update; RayonJoin runs under some schedule (Model/RsHasherSched.v) *)
Definition m_Hasher_update_with_join (sch : nat -> sched) (j : io_Join) (h : lib_Hasher) (input : list N) : res lib_Hasher :=
  match j with
  | io_Join_SerialJoin => m_Hasher_update h input
  | io_Join_RayonJoin =>
      let p := lib_ChunkState_platform (lib_Hasher_chunk_state h) in
      res_map (lib_of_hasher p) (hasher_update_sched p sch (hasher_of_lib h) input)
  end.

Theorem io_Hasher_update_rayon_eq sch p h input :
  io_Hasher_update_rayon (m_Hasher_update_with_join sch) (lib_of_hasher p h) input
  = res_map (lib_of_hasher p) (hasher_update_sched p sch h input).
Proof.
  rewrite io_Hasher_update_rayon_call. unfold m_Hasher_update_with_join. cbv zeta.
  rewrite hasher_of_lib_of_hasher. reflexivity.
Qed.

(* ---------- B. io::maybe_mmap_file over an operating-system oracle ---------- *)
Record os := { os_bytes : list N;                 (* contents of the file *)
               os_seek_end : option N;            (* seek(End(-16383)): None = error, Some off = new offset *)
               os_mmap_ok : bool;                 (* does MmapOptions::map succeed *)
               os_rewind_err : option (list N);   (* rewind: None = succeeds *)
               os_pos_ok : bool }.                (* does stream_position succeed *)
Record file := { f_pos : N; f_script : list read_item }.

Definition m_seek (o : os) (f : file) (t : lib_SeekFrom) : file * io_result N :=
  match t with
  | lib_SeekFrom_End z =>
      if (z =? - Z.of_N rs_seek_offset)%Z then
        match os_seek_end o with
        | Some off => ({| f_pos := off; f_script := f_script f |}, IoOk off)
        | None => (f, IoErr [])
        end
      else (f, IoErr [])
  | _ => (f, IoErr [])
  end.
Definition m_rewind (o : os) (f : file) : file * io_result unit :=
  match os_rewind_err o with
  | None => ({| f_pos := 0; f_script := f_script f |}, IoOk tt)
  | Some k => (f, IoErr k)
  end.
Definition m_stream_position (o : os) (f : file) : file * io_result N :=
  (f, if os_pos_ok o then IoOk (f_pos f) else IoErr []).
(* MmapOptions: the length set by len(); a Mmap: the mapped bytes *)
Definition m_map (o : os) (opt : option N) (f : file) : io_result (list N) :=
  match opt with
  | Some n => if os_mmap_ok o then IoOk (firstn (N.to_nat n) (os_bytes o)) else IoErr []
  | None => IoErr []
  end.

Definition m_maybe_mmap_file (dbg : bool) (o : os) (f : file) :=
  io_maybe_mmap_file file (option N) (list N) dbg (m_seek o) (m_rewind o) None (fun _ n => Some n) (m_map o)
    (m_stream_position o) f.

(* what maybe_mmap_file does to the file cursor and what it returns *)
Definition mmf_result (o : os) (f : file) : file * io_result (option (list N)) :=
  match os_seek_end o with
  | None => (f, IoOk None)                                            (* seek failed: cursor untouched *)
  | Some off =>
      let f1 := {| f_pos := off; f_script := f_script f |} in
      match mmap_decision (Some off) (os_mmap_ok o) with
      | Some len => (f1, IoOk (Some (firstn (N.to_nat len) (os_bytes o))))   (* mapped: not rewound *)
      | None =>
          if off =? 0 then (f1, IoOk None)                            (* the seek itself left the cursor at 0 *)
          else match os_rewind_err o with
               | None => ({| f_pos := 0; f_script := f_script f |}, IoOk None)   (* rewound *)
               | Some k => (f1, IoErr k)
               end
      end
  end.

Lemma seek_consts :
  mi_sub 64 io_MINIMUM_MMAP_SIZE 1 = Ok rs_seek_offset /\
  zi_sub 64 0%Z (io_u_as_i 64 rs_seek_offset) = Ok (- Z.of_N rs_seek_offset)%Z /\
  zi_as_u 64 (zi_max 64) = isize_max.
Proof. repeat split. Qed.

Theorem io_maybe_mmap_file_eq dbg o f : (dbg = true -> os_pos_ok o = true -> f_pos f = 0) ->
  m_maybe_mmap_file dbg o f = Ok (mmf_result o f).
Proof.
  intros Hdbg. unfold m_maybe_mmap_file, io_maybe_mmap_file. cbv zeta.
  destruct seek_consts as (C1 & C2 & C3). rewrite C1. cbn [bind]. rewrite C2. cbn [bind]. rewrite C3.
  assert (Hmain :
    (let '(file0, t4) := m_seek o f (lib_SeekFrom_End (- Z.of_N rs_seek_offset)) in
     match t4 with
     | IoOk t5 =>
         if t5 =? 0 then Ok (file0, IoOk None)
         else t6 <- mi_sub 64 isize_max rs_seek_offset ;;
              (if t5 <=? t6
               then t11 <- mi_add 64 t5 rs_seek_offset ;;
                    match m_map o (Some t11) file0 with
                    | IoOk t13 => Ok (file0, IoOk (Some t13))
                    | IoErr _ => let '(file1, t8) := m_rewind o file0 in
                                 match t8 with IoOk _ => Ok (file1, IoOk None) | IoErr t10 => Ok (file1, IoErr t10) end
                    end
               else let '(file1, t8) := m_rewind o file0 in
                    match t8 with IoOk _ => Ok (file1, IoOk None) | IoErr t10 => Ok (file1, IoErr t10) end)
     | IoErr _ => Ok (file0, IoOk None)
     end) = Ok (mmf_result o f)).
  { unfold m_seek, mmf_result, mmap_decision. rewrite Z.eqb_refl.
    destruct (os_seek_end o) as [off|]; [|reflexivity].
    destruct (off =? 0) eqn:E0; [reflexivity|].
    change (mi_sub 64 isize_max rs_seek_offset) with (Ok (isize_max - rs_seek_offset)). cbn [bind].
    destruct (off <=? isize_max - rs_seek_offset) eqn:E1.
    - unfold mi_add, fits.
      replace (off + rs_seek_offset <? 2 ^ 64) with true
        by (symmetry; apply N.ltb_lt; apply N.leb_le in E1; unfold isize_max, rs_seek_offset in *; lia).
      cbn [bind]. unfold m_map, m_rewind. destruct (os_mmap_ok o); [reflexivity|].
      destruct (os_rewind_err o); reflexivity.
    - unfold m_rewind. destruct (os_rewind_err o); reflexivity. }
  destruct dbg; [|exact Hmain].
  unfold m_stream_position. destruct (os_pos_ok o); [|exact Hmain].
  rewrite (Hdbg eq_refl eq_refl). cbn [N.eqb check bind]. exact Hmain.
Qed.

(* the decision is RsIo.mmap_decision: mapped exactly when it says so, with exactly the length it gives *)
Theorem mmf_result_decision o f :
  snd (mmf_result o f) =
  match mmap_decision (os_seek_end o) (os_mmap_ok o) with
  | Some len => IoOk (Some (firstn (N.to_nat len) (os_bytes o)))
  | None => match os_seek_end o, os_rewind_err o with
            | Some off, Some k => if (off =? 0) || negb (off <=? isize_max - rs_seek_offset) || negb (os_mmap_ok o)
                                  then (if off =? 0 then IoOk None else IoErr k) else IoOk None
            | _, _ => IoOk None
            end
  end.
Proof.
  unfold mmf_result. destruct (os_seek_end o) as [off|]; [|reflexivity].
  destruct (mmap_decision (Some off) (os_mmap_ok o)) eqn:D; [reflexivity|].
  unfold mmap_decision in D. destruct (off =? 0); [destruct (os_rewind_err o); reflexivity|].
  destruct (os_rewind_err o); [|reflexivity]. cbn [orb fst snd].
  destruct (off <=? isize_max - rs_seek_offset); cbn [negb orb]; [|reflexivity].
  destruct (os_mmap_ok o); [discriminate|reflexivity].
Qed.

(* on every path that returns Ok(None) the cursor of a freshly opened file is at the start again *)
Theorem mmf_result_rewound o f : f_pos f = 0 -> snd (mmf_result o f) = IoOk None -> f_pos (fst (mmf_result o f)) = 0.
Proof.
  unfold mmf_result. intros H0. destruct (os_seek_end o) as [off|]; [|intros _; exact H0].
  destruct (mmap_decision (Some off) (os_mmap_ok o)); [discriminate|].
  destruct (off =? 0) eqn:E; [intros _; apply N.eqb_eq in E; exact E|].
  destruct (os_rewind_err o); [discriminate|reflexivity].
Qed.

(* a regular file of n bytes (seek End(-16383) succeeds iff n >= 16383 and returns n - 16383), mmap succeeds:
   all n bytes are mapped iff n >= 16 KiB *)
Theorem mmf_result_regular o f : nlen (os_bytes o) < 2 ^ 62 -> os_mmap_ok o = true ->
  os_seek_end o = (if rs_seek_offset <=? nlen (os_bytes o) then Some (nlen (os_bytes o) - rs_seek_offset) else None) ->
  snd (mmf_result o f) = if rs_MIN_MMAP <=? nlen (os_bytes o) then IoOk (Some (os_bytes o)) else IoOk None.
Proof.
  intros Hn Hm Hs. rewrite mmf_result_decision, Hs, Hm, (Proofs.IoP.mmap_decision_regular _ Hn).
  destruct (rs_MIN_MMAP <=? nlen (os_bytes o)) eqn:E.
  - unfold nlen. rewrite Nat2N.id, firstn_all. reflexivity.
  - destruct (rs_seek_offset <=? nlen (os_bytes o)) eqn:E2; [|reflexivity].
    destruct (os_rewind_err o); [|reflexivity].
    replace (nlen (os_bytes o) - rs_seek_offset =? 0) with true; [reflexivity|].
    symmetry. apply N.eqb_eq. apply N.leb_le in E2. apply N.leb_gt in E.
    unfold rs_MIN_MMAP, rs_seek_offset in *. lia.
Qed.

(* ---------- C. Hasher::update_mmap / update_mmap_rayon ---------- *)
(* reads of the file follow its script over the bytes from the cursor on *)
Definition file_view (o : os) (f : file) : list N * list read_item := (skipn (N.to_nat (f_pos f)) (os_bytes o), f_script f).
Definition m_file_read (ek : N -> list N) (o : os) (f : file) (buf : list N) : file * list N * io_result N :=
  let s := script_step ek (nlen buf) (file_view o f) in
  ({| f_pos := f_pos f + nlen (snd (fst s)); f_script := snd (fst (fst s)) |},
   snd (fst s) ++ skipn (length (snd (fst s))) buf, snd s).

Lemma skipn_skipn_add {A} : forall b a (l : list A), skipn a (skipn b l) = skipn (b + a) l.
Proof.
  induction b as [|b IH]; intros a l; [reflexivity|].
  destruct l as [|x l]; [cbn [skipn Nat.add]; destruct a; reflexivity|]. cbn [skipn Nat.add]. apply IH.
Qed.

Lemma m_file_read_scripted ek o : scripted_reader file (file_view o) (m_file_read ek o) ek.
Proof.
  intros r buf s. unfold m_file_read. fold s. eexists. eexists. split; [reflexivity|].
  pose proof (script_piece_le ek buf (file_view o r)) as Hle. fold s in Hle. split; [|split].
  - unfold file_view at 1. cbn [f_pos f_script]. subst s. unfold script_step.
    destruct (next_item (snd (file_view o r))) as [item s']. unfold file_view. cbn [fst snd].
    destruct item as [n| | |]; cbn [fst snd nlen length]; rewrite ?N.add_0_r; try reflexivity.
    set (k := N.min (N.min n (nlen buf)) (nlen (skipn (N.to_nat (f_pos r)) (os_bytes o)))).
    fold k. f_equal. rewrite skipn_skipn_add. f_equal. unfold nlen. rewrite firstn_length.
    assert (k <= nlen (skipn (N.to_nat (f_pos r)) (os_bytes o))) by (unfold k; lia). unfold nlen in *. lia.
  - rewrite app_length, skipn_length. lia.
  - rewrite firstn_app, Nat.sub_diag, firstn_all. cbn [firstn]. apply app_nil_r.
Qed.

Definition mmap_outcome (ek : N -> list N) (upd : hasher -> list N -> res hasher) (p : platform) (fuel : nat) (o : os) (h : hasher) (f0 : file)
  : res (lib_Hasher * io_result unit) :=
  match mmf_result o f0 with
  | (_, IoOk (Some m)) => res_map (fun h' => (lib_of_hasher p h', IoOk tt)) (upd h m)          (* mapped: update with the mapped bytes *)
  | (f1, IoOk None) =>                                                                           (* not mapped: copy_wide from the cursor *)
      res_map (fun x => (lib_of_hasher p (fst x), io_unit_of_copy ek (snd x)))
        (copy_wide fuel p h (skipn (N.to_nat (f_pos f1)) (os_bytes o)) (f_script f1) 0)
  | (_, IoErr k) => Ok (lib_of_hasher p h, IoErr k)
  end.

Section Mmap.
  Variable Path : Type.
  Variable ek : N -> list N.
  Hypothesis ek_ne : forall k, ek k <> kind_Interrupted.

  Theorem io_Hasher_update_mmap_eq dbg o (open : Path -> io_result file) p fuel h path :
    (forall f, open path = IoOk f -> dbg = true -> os_pos_ok o = true -> f_pos f = 0) ->
    io_Hasher_update_mmap Path file (option N) (list N) open dbg (m_seek o) (m_rewind o) None (fun _ n => Some n) (m_map o)
      (m_stream_position o) (fun m => m) m_Hasher_update (m_file_read ek o) fuel (lib_of_hasher p h) path
    = match open path with
      | IoOk f0 => mmap_outcome ek (hasher_update p) p fuel o h f0
      | IoErr k => Ok (lib_of_hasher p h, IoErr k)
      end.
  Proof.
    intros Hopen. unfold io_Hasher_update_mmap. cbv zeta. destruct (open path) as [f0|k]; [|reflexivity].
    fold (m_maybe_mmap_file dbg o f0). rewrite (io_maybe_mmap_file_eq dbg o f0 (Hopen f0 eq_refl)). cbn [bind].
    unfold mmap_outcome. destruct (mmf_result o f0) as [f1 [[m|]|k]]; [| |reflexivity].
    - rewrite m_Hasher_update_of. destruct (hasher_update p h m); reflexivity.
    - rewrite (io_copy_wide_eq file (file_view o) (m_file_read ek o) ek ek_ne (m_file_read_scripted ek o)).
      unfold file_view. cbn [fst snd].
      destruct (copy_wide fuel p h (skipn (N.to_nat (f_pos f1)) (os_bytes o)) (f_script f1) 0) as [[h1 [t|k]]| |]; reflexivity.
  Qed.

  Theorem io_Hasher_update_mmap_rayon_eq sch dbg o (open : Path -> io_result file) p fuel h path :
    (forall f, open path = IoOk f -> dbg = true -> os_pos_ok o = true -> f_pos f = 0) ->
    io_Hasher_update_mmap_rayon Path file (option N) (list N) open dbg (m_seek o) (m_rewind o) None (fun _ n => Some n) (m_map o)
      (m_stream_position o) (fun m => m) (m_Hasher_update_with_join sch) (m_file_read ek o) m_Hasher_update fuel
      (lib_of_hasher p h) path
    = match open path with
      | IoOk f0 => mmap_outcome ek (fun h m => hasher_update_sched p sch h m) p fuel o h f0
      | IoErr k => Ok (lib_of_hasher p h, IoErr k)
      end.
  Proof.
    intros Hopen. unfold io_Hasher_update_mmap_rayon. cbv zeta. destruct (open path) as [f0|k]; [|reflexivity].
    fold (m_maybe_mmap_file dbg o f0). rewrite (io_maybe_mmap_file_eq dbg o f0 (Hopen f0 eq_refl)). cbn [bind].
    unfold mmap_outcome. destruct (mmf_result o f0) as [f1 [[m|]|k]]; [| |reflexivity].
    - rewrite io_Hasher_update_rayon_eq. destruct (hasher_update_sched p sch h m); reflexivity.
    - rewrite (io_copy_wide_eq file (file_view o) (m_file_read ek o) ek ek_ne (m_file_read_scripted ek o)).
      unfold file_view. cbn [fst snd].
      destruct (copy_wide fuel p h (skipn (N.to_nat (f_pos f1)) (os_bytes o)) (f_script f1) 0) as [[h1 [t|k]]| |]; reflexivity.
  Qed.
End Mmap.
