From Coq Require Import NArith List Bool Lia Arith.
From V Require Import Base.Res Base.Word Base.MachInt Base.Arr Base.ArrayVec gen.GenConsts gen.GenFormulas
  gen.GenLibSmall gen.GenLibLoops Spec.Tree Model.Portable Model.Platform Model.RsChunk Model.RsHasher
  Proofs.GenLibSmallP.
Import ListNotations.
Open Scope N_scope.

Definition res_map {A B} (f : A -> B) (r : res A) : res B :=
  match r with Ok a => Ok (f a) | Panic c => Panic c | OutOfFuel => OutOfFuel end.

Definition lib_of_out (p : platform) (o : output) : lib_Output :=
  lib_Output_mk (o_cv o) (o_block o) (o_blen o) (o_ctr o) (o_flags o) p.
Definition lib_of_cs (p : platform) (c : chunk_state) : lib_ChunkState :=
  lib_ChunkState_mk (cs_cv c) (cs_ctr c) (cs_buf c) (cs_buf_len c) (cs_blocks c) (cs_flags c) p.
Definition lib_of_hasher (p : platform) (h : hasher) : lib_Hasher :=
  lib_Hasher_mk (h_key h) (lib_of_cs p (h_cs h)) (h_init h) (rev (h_stack h)).

Lemma bind_ret {A} (m : res A) : bind m Ok = m.
Proof. destruct m; reflexivity. Qed.

Lemma lib_ChunkState_count_eq p c : lib_ChunkState_count (lib_of_cs p c) = cs_count c.
Proof. unfold lib_ChunkState_count, cs_count, rs_chunk_count, lib_of_cs. cbn [lib_ChunkState_blocks_compressed lib_ChunkState_buf_len].
  apply bind_ret. Qed.

Lemma land_ones_small x w : x < 2 ^ w -> N.land x (N.ones w) = x.
Proof. intros H. rewrite N.land_ones. apply N.mod_small. exact H. Qed.

Lemma fill_buf_eq p c input : cs_buf_len c < 2 ^ 64 ->
  lib_ChunkState_fill_buf (lib_of_cs p c) input
  = res_map (fun r => (lib_of_cs p (fst r), snd r)) (cs_fill_buf c input).
Proof.
  intros Hbl. destruct c as [cv ctr buf bl blocks fl]. cbn [cs_buf_len] in Hbl.
  unfold lib_ChunkState_fill_buf, cs_fill_buf, lib_of_cs.
  cbn [cs_cv cs_ctr cs_buf cs_buf_len cs_blocks cs_flags lib_ChunkState_buf_len lib_ChunkState_buf].
  unfold mu, mb, mi_cast, mi_min, nlen. cbn [bind]. rewrite (land_ones_small bl 64 Hbl).
  unfold mi_sub. change rs_BLOCK_LEN with 64. destruct (bl <=? 64) eqn:Ebl; cbn [bind res_map]; [|reflexivity].
  apply N.leb_le in Ebl.
  set (take := N.min (64 - bl) (N.of_nat (length input))).
  assert (Ht : take <= 64 - bl) by apply N.le_min_l.
  assert (Hti : take <= N.of_nat (length input)) by apply N.le_min_r.
  clearbody take.
  destruct (bl <=? N.of_nat (length buf)) eqn:E40; cbn [check bind res_map]; [|reflexivity].
  destruct (take <=? N.of_nat (length buf) - bl) eqn:E41; cbn [check bind res_map]; [|reflexivity].
  replace (take <=? N.of_nat (length input)) with true by (symmetry; apply N.leb_le; exact Hti).
  cbn [check bind].
  replace (N.of_nat (length (firstn (N.to_nat take) input)) =? take) with true
    by (symmetry; apply N.eqb_eq; rewrite firstn_length; lia).
  cbn [check bind].
  unfold lib_ChunkState_set_buf, lib_ChunkState_set_buf_len.
  cbn [lib_ChunkState_cv lib_ChunkState_chunk_counter lib_ChunkState_buf lib_ChunkState_buf_len
       lib_ChunkState_blocks_compressed lib_ChunkState_flags lib_ChunkState_platform].
  rewrite (land_ones_small take 8) by (change (2 ^ 8) with 256; lia).
  destruct (mi_add 8 bl take) as [bl'| |]; cbn [bind res_map fst snd cs_cv cs_ctr cs_buf cs_buf_len cs_blocks cs_flags];
    try reflexivity.
  unfold arr_store. rewrite firstn_length, N2Nat.inj_add.
  replace (Init.Nat.min (N.to_nat take) (length input)) with (N.to_nat take) by lia. reflexivity.
Qed.

Lemma cs_of_lib_of_cs p c : cs_of_lib (lib_of_cs p c) = c.
Proof. destruct c; reflexivity. Qed.
Lemma out_of_lib_of_out p o : out_of_lib (lib_of_out p o) = o.
Proof. destruct o; reflexivity. Qed.

Lemma start_flag_eq p c : lib_ChunkState_start_flag (lib_of_cs p c) = Ok (cs_start_flag c).
Proof. rewrite lib_ChunkState_start_flag_eq, cs_of_lib_of_cs. reflexivity. Qed.

Lemma output_eq p c : lib_ChunkState_output (lib_of_cs p c) = Ok (lib_of_out p (cs_output c)).
Proof.
  unfold lib_ChunkState_output. rewrite start_flag_eq. destruct c; reflexivity.
Qed.

Lemma update_loop_eq p : forall fuel c input,
  lib_ChunkState_update_loop1 fuel (lib_of_cs p c) input
  = res_map (fun r => (lib_of_cs p (fst r), snd r)) (cs_update_loop fuel p c input).
Proof.
  induction fuel as [|fuel IH]; intros c input.
  - cbn [lib_ChunkState_update_loop1 cs_update_loop]. unfold mcmp, nlen. cbn [bind].
    rewrite N.ltb_antisym. destruct (N.of_nat (length input) <=? rs_BLOCK_LEN); reflexivity.
  - cbn [lib_ChunkState_update_loop1 cs_update_loop]. unfold mcmp, nlen. cbn [bind].
    rewrite N.ltb_antisym. destruct (N.of_nat (length input) <=? rs_BLOCK_LEN) eqn:Elen; cbn [negb res_map]; [reflexivity|].
    apply N.leb_gt in Elen. rewrite start_flag_eq.
    destruct c as [cv ctr buf bl blocks fl]. unfold lib_of_cs.
    cbn [cs_cv cs_ctr cs_buf cs_buf_len cs_blocks cs_flags lib_ChunkState_buf_len lib_ChunkState_flags].
    destruct (bl =? 0) eqn:E1301; cbn [check bind res_map]; [|reflexivity].
    unfold mb, mu, mi_or, mi_cast. cbn [bind].
    replace (0 + rs_BLOCK_LEN <=? N.of_nat (length input)) with true by (symmetry; apply N.leb_le; lia).
    replace (rs_BLOCK_LEN <=? N.of_nat (length input)) with true by (symmetry; apply N.leb_le; lia).
    cbn [check bind].
    unfold lib_ChunkState_set_cv, lib_ChunkState_set_blocks_compressed.
    cbn [lib_ChunkState_cv lib_ChunkState_chunk_counter lib_ChunkState_buf lib_ChunkState_buf_len
         lib_ChunkState_blocks_compressed lib_ChunkState_flags lib_ChunkState_platform].
    destruct (mi_add 8 blocks 1) as [b'| |]; cbn [bind res_map]; try reflexivity.
    change (N.land rs_BLOCK_LEN (N.ones 8)) with rs_BLOCK_LEN.
    change (arr_slice input (N.to_nat 0) (N.to_nat rs_BLOCK_LEN)) with (firstn (N.to_nat rs_BLOCK_LEN) input).
    exact (IH (mkCS _ ctr buf bl b' fl) _).
Qed.

(* cs_update with the fuel of its block loop as a parameter *)
Definition cs_update_tail_with (fuel : nat) (p : platform) (cs : chunk_state) (input : list N) : res chunk_state :=
  '(cs, input) <- cs_update_loop fuel p cs input ;;
  '(cs, input) <- cs_fill_buf cs input ;;
  assert! (nlen input =? 0) code 1303 ;;
  c <- cs_count cs ;;
  assert! (c <=? rs_CHUNK_LEN) code 1304 ;;
  Ok cs.

Definition cs_update_with (fuel : nat) (p : platform) (cs : chunk_state) (input : list N) : res chunk_state :=
  '(cs, input) <-
    (if 0 <? cs_buf_len cs then
       '(cs, input) <- cs_fill_buf cs input ;;
       if negb (nlen input =? 0) then
         assert! (cs_buf_len cs =? rs_BLOCK_LEN) code 1302 ;;
         let block_flags := N.lor (cs_flags cs) (cs_start_flag cs) in
         let cv := p_compress_in_place p (cs_cv cs) (cs_buf cs) rs_BLOCK_LEN (cs_ctr cs) block_flags in
         blocks <- mi_add 8 (cs_blocks cs) 1 ;;
         Ok (mkCS cv (cs_ctr cs) zero_block 0 blocks (cs_flags cs), input)
       else Ok (cs, input)
     else Ok (cs, input)) ;;
  cs_update_tail_with fuel p cs input.

Lemma cs_update_loop_buf_len p : forall fuel c input c' input',
  cs_update_loop fuel p c input = Ok (c', input') -> cs_buf_len c' = cs_buf_len c.
Proof.
  induction fuel as [|fuel IH]; intros c input c' input' H; cbn [cs_update_loop] in H.
  - destruct (nlen input <=? rs_BLOCK_LEN); [inversion H; reflexivity|discriminate].
  - destruct (nlen input <=? rs_BLOCK_LEN); [inversion H; reflexivity|].
    destruct (cs_buf_len c =? 0); cbn [check bind] in H; [|discriminate].
    destruct (mi_add 8 (cs_blocks c) 1) as [b| |]; cbn [bind] in H; try discriminate.
    apply IH in H. exact H.
Qed.

Lemma mi_add_8_lt a b c : mi_add 8 a b = Ok c -> c < 2 ^ 64.
Proof.
  unfold mi_add, fits. destruct (a + b <? 2 ^ 8) eqn:E; intros H; [|discriminate].
  inversion H; subst. apply N.ltb_lt in E. change (2 ^ 8) with 256 in E. change (2 ^ 64) with 18446744073709551616. lia.
Qed.

Lemma cs_fill_buf_buf_len c input c' input' : cs_fill_buf c input = Ok (c', input') -> cs_buf_len c' < 2 ^ 64.
Proof.
  unfold cs_fill_buf. intros H.
  destruct (mi_sub 64 rs_BLOCK_LEN (cs_buf_len c)) as [want| |]; cbn [bind] in H; try discriminate.
  destruct (cs_buf_len c <=? nlen (cs_buf c)); cbn [check bind] in H; [|discriminate].
  destruct (N.min want (nlen input) <=? nlen (cs_buf c) - cs_buf_len c); cbn [check bind] in H; [|discriminate].
  destruct (mi_add 8 (cs_buf_len c) (N.min want (nlen input))) as [bl'| |] eqn:E; cbn [bind] in H; try discriminate.
  inversion H; subst. cbn [cs_buf_len]. exact (mi_add_8_lt _ _ _ E).
Qed.

Lemma update_tail_eq p fuel c input : cs_buf_len c < 2 ^ 64 ->
  ('(self, input) <- lib_ChunkState_update_loop1 fuel (lib_of_cs p c) input ;;
   '(self, input) <- lib_ChunkState_fill_buf self input ;;
   t10 <- (mcmp N.eqb (Ok (N.of_nat (length input))) (Ok 0)) ;;
   assert! t10 code 1303 ;;
   t11 <- (mcmp N.leb (lib_ChunkState_count self) (Ok rs_CHUNK_LEN)) ;;
   assert! t11 code 1304 ;;
   Ok self)
  = res_map (lib_of_cs p) (cs_update_tail_with fuel p c input).
Proof.
  intros Hbl. unfold cs_update_tail_with. rewrite update_loop_eq.
  destruct (cs_update_loop fuel p c input) as [[c1 in1]| |] eqn:El; cbn [bind res_map fst snd]; try reflexivity.
  rewrite fill_buf_eq by (rewrite (cs_update_loop_buf_len _ _ _ _ _ _ El); exact Hbl).
  destruct (cs_fill_buf c1 in1) as [[c2 in2]| |]; cbn [bind res_map fst snd]; try reflexivity.
  unfold mcmp, nlen. cbn [bind].
  destruct (N.of_nat (length in2) =? 0); cbn [check bind res_map]; [|reflexivity].
  rewrite lib_ChunkState_count_eq.
  destruct (cs_count c2) as [n| |]; cbn [bind res_map]; try reflexivity.
  destruct (n <=? rs_CHUNK_LEN); reflexivity.
Qed.

Lemma lib_ChunkState_update_eq p fuel c input : cs_buf_len c < 2 ^ 64 ->
  lib_ChunkState_update fuel (lib_of_cs p c) input = res_map (lib_of_cs p) (cs_update_with fuel p c input).
Proof.
  intros Hbl. unfold lib_ChunkState_update, cs_update_with.
  unfold mcmp at 1. cbn [bind]. change (lib_ChunkState_buf_len (lib_of_cs p c)) with (cs_buf_len c).
  destruct (0 <? cs_buf_len c).
  - rewrite fill_buf_eq by exact Hbl.
    destruct (cs_fill_buf c input) as [[c1 in1]| |] eqn:Ef; cbn [bind res_map fst snd]; try reflexivity.
    pose proof (cs_fill_buf_buf_len _ _ _ _ Ef) as Hbl1.
    unfold mcmp at 1, nlen. cbn [bind].
    destruct (N.of_nat (length in1) =? 0); cbn [negb bind].
    + exact (update_tail_eq p fuel c1 in1 Hbl1).
    + rewrite start_flag_eq. destruct c1 as [cv ctr buf bl blocks fl]. cbn [cs_buf_len] in Hbl1.
      unfold lib_of_cs.
      cbn [cs_cv cs_ctr cs_buf cs_buf_len cs_blocks cs_flags lib_ChunkState_buf_len lib_ChunkState_flags].
      unfold mcmp at 1, mu at 1, mi_cast at 1. cbn [bind]. rewrite (land_ones_small bl 64 Hbl1).
      destruct (bl =? rs_BLOCK_LEN); cbn [check bind res_map]; [|reflexivity].
      unfold mb, mu, mi_or, mi_cast. cbn [bind].
      unfold lib_ChunkState_set_cv, lib_ChunkState_set_blocks_compressed, lib_ChunkState_set_buf, lib_ChunkState_set_buf_len.
      cbn [lib_ChunkState_cv lib_ChunkState_chunk_counter lib_ChunkState_buf lib_ChunkState_buf_len
           lib_ChunkState_blocks_compressed lib_ChunkState_flags lib_ChunkState_platform].
      destruct (mi_add 8 blocks 1) as [b'| |]; cbn [bind res_map]; try reflexivity.
      change (N.land rs_BLOCK_LEN (N.ones 8)) with rs_BLOCK_LEN.
      apply (update_tail_eq p fuel (mkCS _ ctr zero_block 0 b' fl) in1). cbn [cs_buf_len]. reflexivity.
  - cbn [bind]. exact (update_tail_eq p fuel c input Hbl).
Qed.

(* the fuel the model gives the block loop is always enough: the result does not depend on it *)
Lemma cs_update_loop_fuel p : forall f1 f2 c input, (length input < 64 * f1)%nat -> (length input < 64 * f2)%nat ->
  cs_update_loop f1 p c input = cs_update_loop f2 p c input.
Proof.
  induction f1 as [|f1 IH]; intros f2 c input H1 H2; [lia|].
  destruct f2 as [|f2]; [lia|]. cbn [cs_update_loop].
  destruct (nlen input <=? rs_BLOCK_LEN) eqn:E; [reflexivity|].
  apply N.leb_gt in E. unfold nlen in E. change rs_BLOCK_LEN with 64 in E.
  destruct (cs_buf_len c =? 0); cbn [check bind]; [|reflexivity].
  destruct (mi_add 8 (cs_blocks c) 1); cbn [bind]; try reflexivity.
  apply IH; rewrite skipn_length; change (N.to_nat rs_BLOCK_LEN) with 64%nat; lia.
Qed.

Lemma div64_lt (n : nat) : (n < 64 * S (n / 64))%nat.
Proof. pose proof (Nat.div_mod n 64 ltac:(lia)). pose proof (Nat.mod_upper_bound n 64 ltac:(lia)). lia. Qed.

Lemma cs_update_tail_with_enough p fuel c input : (length input < 64 * fuel)%nat ->
  cs_update_tail_with fuel p c input = cs_update_tail p c input.
Proof.
  intros H. unfold cs_update_tail_with, cs_update_tail.
  rewrite (cs_update_loop_fuel p fuel (S (length input / 64)) c input H (div64_lt _)). reflexivity.
Qed.

Lemma cs_fill_buf_rest c input c' input' : cs_fill_buf c input = Ok (c', input') -> (length input' <= length input)%nat.
Proof.
  unfold cs_fill_buf. intros H.
  destruct (mi_sub 64 rs_BLOCK_LEN (cs_buf_len c)) as [want| |]; cbn [bind] in H; try discriminate.
  destruct (cs_buf_len c <=? nlen (cs_buf c)); cbn [check bind] in H; [|discriminate].
  destruct (N.min want (nlen input) <=? nlen (cs_buf c) - cs_buf_len c); cbn [check bind] in H; [|discriminate].
  destruct (mi_add 8 (cs_buf_len c) (N.min want (nlen input))) as [bl'| |] eqn:E; cbn [bind] in H; try discriminate.
  inversion H; subst. rewrite skipn_length. lia.
Qed.

Lemma cs_update_with_enough p fuel c input : (length input < 64 * fuel)%nat ->
  cs_update_with fuel p c input = cs_update p c input.
Proof.
  intros H. unfold cs_update_with, cs_update.
  destruct (0 <? cs_buf_len c).
  - destruct (cs_fill_buf c input) as [[c1 in1]| |] eqn:Ef; cbn [bind]; try reflexivity.
    pose proof (cs_fill_buf_rest _ _ _ _ Ef) as Hr.
    destruct (negb (nlen in1 =? 0)).
    + destruct (cs_buf_len c1 =? rs_BLOCK_LEN); cbn [check bind]; [|reflexivity].
      destruct (mi_add 8 (cs_blocks c1) 1); cbn [bind]; try reflexivity.
      apply cs_update_tail_with_enough. lia.
    + cbn [bind]. apply cs_update_tail_with_enough. lia.
  - cbn [bind]. apply cs_update_tail_with_enough. exact H.
Qed.

Theorem lib_ChunkState_update_model p fuel c input : cs_buf_len c < 2 ^ 64 -> (length input < 64 * fuel)%nat ->
  lib_ChunkState_update fuel (lib_of_cs p c) input = res_map (lib_of_cs p) (cs_update p c input).
Proof.
  intros Hbl Hf. rewrite (lib_ChunkState_update_eq p fuel c input Hbl), (cs_update_with_enough p fuel c input Hf).
  reflexivity.
Qed.

(* ---------- Hasher ---------- *)
(* the model's stand-ins for the functions the translation takes as parameters *)
Definition m_parent_node_output (l r key : list N) (flags : N) (p : platform) : lib_Output :=
  lib_of_out p (parent_output key flags l r).
Definition m_Output_chaining_value (o : lib_Output) : list N :=
  out_chaining_value (lib_Output_platform o) (out_of_lib o).
Definition m_Output_root_hash (o : lib_Output) : res (list N) :=
  out_root_hash (lib_Output_platform o) (out_of_lib o).

Definition set_stack (h : hasher) (st : list (list N)) : hasher := mkHasher (h_key h) (h_cs h) (h_init h) st.

Lemma set_stack_id h : set_stack h (h_stack h) = h.
Proof. destruct h; reflexivity. Qed.

Lemma m_cv_of_out p o : m_Output_chaining_value (lib_of_out p o) = out_chaining_value p o.
Proof. unfold m_Output_chaining_value. rewrite out_of_lib_of_out. reflexivity. Qed.

Lemma av_index_app_last {A} (a w : list A) (x : A) : av_index ((a ++ [x]) ++ w) (N.of_nat (length a)) = Ok x.
Proof.
  unfold av_index. rewrite Nat2N.id, <- app_assoc. rewrite nth_error_app2 by lia.
  rewrite Nat.sub_diag. reflexivity.
Qed.

Lemma av_index_last {A} (a : list A) (x : A) : av_index (a ++ [x]) (N.of_nat (length a)) = Ok x.
Proof. rewrite <- (app_nil_r (a ++ [x])). apply av_index_app_last. Qed.

(* merge_cv_stack / push_cv with the fuel of the merge loop as a parameter (the model passes 64) *)
Definition merge_cv_stack_with (fuel : nat) (p : platform) (h : hasher) (chunk_counter : N) : res hasher :=
  target <- rs_post_merge_len chunk_counter (h_init h) ;;
  st <- merge_loop fuel p h (h_stack h) target ;;
  Ok (mkHasher (h_key h) (h_cs h) (h_init h) st).

Lemma merge_cv_stack_with_64 p h cc : merge_cv_stack_with 64 p h cc = merge_cv_stack p h cc.
Proof. reflexivity. Qed.

Definition push_cv_with (fuel : nat) (p : platform) (h : hasher) (new_cv : list N) (chunk_counter : N) : res hasher :=
  h <- merge_cv_stack_with fuel p h chunk_counter ;;
  assert! (N.of_nat (length (h_stack h)) <? rs_cv_stack_cap) code 51 ;;
  Ok (mkHasher (h_key h) (h_cs h) (h_init h) (new_cv :: h_stack h)).

Lemma push_cv_with_64 p h cv cc : push_cv_with 64 p h cv cc = push_cv p h cv cc.
Proof. reflexivity. Qed.

(* The lemmas about the functions that call parent_node_output / Output::chaining_value are proved once, for ANY pair
   of functions (pno, cvf) that behave like the specification's parent_output / the model's out_chaining_value on
   chaining values satisfying G and outputs satisfying Good; they are then instantiated twice:
     - with the model's own m_parent_node_output / m_Output_chaining_value (G, Good := True): no side conditions;
     - with the TRANSLATED lib_parent_node_output / lib_Output_chaining_value of gen/GenLibSmall.v (G := 32 bytes,
       Good := an 8-word input chaining value, on a PlatformOK platform): then every line is the source's. *)
Section Ext.
  Variable p : platform.
  Variable G : list N -> Prop.
  Variable Good : output -> Prop.
  Variable pno : list N -> list N -> list N -> N -> platform -> lib_Output.
  Variable cvf : lib_Output -> list N.
  Hypothesis Hpno : forall l r key fl, G l -> G r -> pno l r key fl p = lib_of_out p (parent_output key fl l r).
  Hypothesis Hcv : forall o, Good o -> cvf (lib_of_out p o) = out_chaining_value p o.
  Hypothesis HG : forall o, Good o -> G (out_chaining_value p o).

  Definition key_ok (h : hasher) : Prop := forall fl l r, Good (parent_output (h_key h) fl l r).

  Lemma merge_loop_gen cc : forall fuel h st target, N.of_nat (length st) <= rs_cv_stack_cap ->
    Forall G st -> key_ok h ->
    lib_Hasher_merge_cv_stack_loop1 pno cvf fuel (lib_of_hasher p (set_stack h st)) cc target
    = res_map (fun st' => lib_of_hasher p (set_stack h st')) (merge_loop fuel p h st target).
  Proof.
    induction fuel as [|fuel IH]; intros h st target Hcap HGst Hkey.
    - cbn [lib_Hasher_merge_cv_stack_loop1 merge_loop]. unfold mcmp. cbn [bind].
      unfold lib_of_hasher at 1. cbn [lib_Hasher_cv_stack set_stack h_stack]. unfold av_len. rewrite rev_length.
      rewrite N.ltb_antisym. destruct (N.of_nat (length st) <=? target); reflexivity.
    - cbn [lib_Hasher_merge_cv_stack_loop1 merge_loop]. unfold mcmp. cbn [bind].
      unfold lib_of_hasher at 1. cbn [lib_Hasher_cv_stack set_stack h_stack]. unfold av_len at 1. rewrite rev_length.
      rewrite N.ltb_antisym. destruct (N.of_nat (length st) <=? target); cbn [negb res_map]; [reflexivity|].
      unfold lib_of_hasher, set_stack. cbn [h_key h_cs h_init h_stack lib_Hasher_cv_stack].
      destruct st as [|rcv [|lcv rest]].
      + reflexivity.
      + reflexivity.
      + cbn [rev]. rewrite av_pop_unwrap_snoc. cbn [bind].
        unfold lib_Hasher_set_cv_stack at 1 2. cbn [lib_Hasher_cv_stack lib_Hasher_key lib_Hasher_chunk_state lib_Hasher_initial_chunk_counter].
        rewrite av_pop_unwrap_snoc. cbn [bind].
        unfold lib_Hasher_set_cv_stack at 1 2 3. cbn [lib_Hasher_cv_stack lib_Hasher_key lib_Hasher_chunk_state lib_Hasher_initial_chunk_counter].
        unfold av_push, av_len. rewrite rev_length.
        replace (N.of_nat (length rest) <? rs_cv_stack_cap) with true
          by (symmetry; apply N.ltb_lt; cbn [length] in Hcap; lia).
        cbn [check bind]. unfold lib_Hasher_set_cv_stack. cbn [lib_Hasher_cv_stack lib_Hasher_key lib_Hasher_chunk_state lib_Hasher_initial_chunk_counter].
        inversion HGst as [|? ? Hr HG1]; subst. inversion HG1 as [|? ? Hl HG2]; subst.
        specialize (IH h (parent_cv p h lcv rcv :: rest) target).
        unfold lib_of_hasher, set_stack in IH. cbn [h_key h_cs h_init h_stack rev] in IH.
        cbn [lib_of_cs lib_ChunkState_flags lib_ChunkState_platform].
        rewrite (Hpno lcv rcv _ _ Hl Hr), (Hcv _ (Hkey _ lcv rcv)).
        apply IH; [cbn [length] in *; lia| |exact Hkey].
        constructor; [|exact HG2]. unfold parent_cv. apply HG, Hkey.
  Qed.

  Lemma merge_cv_stack_gen fuel h cc : N.of_nat (length (h_stack h)) <= rs_cv_stack_cap ->
    Forall G (h_stack h) -> key_ok h ->
    lib_Hasher_merge_cv_stack pno cvf fuel (lib_of_hasher p h) cc
    = res_map (lib_of_hasher p) (merge_cv_stack_with fuel p h cc).
  Proof.
    intros Hcap HGst Hkey. unfold lib_Hasher_merge_cv_stack, merge_cv_stack_with, rs_post_merge_len.
    change (lib_Hasher_initial_chunk_counter (lib_of_hasher p h)) with (h_init h).
    destruct (mu (mi_cast 64) (mu (mi_popcount 64) (mb (mi_sub 64) (Ok cc) (Ok (h_init h))))) as [target| |];
      cbn [bind res_map]; try reflexivity.
    rewrite <- (set_stack_id h) at 1. rewrite (merge_loop_gen cc fuel h (h_stack h) target Hcap HGst Hkey).
    destruct (merge_loop fuel p h (h_stack h) target); reflexivity.
  Qed.

  Lemma push_cv_gen fuel h new_cv cc : N.of_nat (length (h_stack h)) <= rs_cv_stack_cap ->
    Forall G (h_stack h) -> key_ok h ->
    lib_Hasher_push_cv pno cvf fuel (lib_of_hasher p h) new_cv cc
    = res_map (lib_of_hasher p) (push_cv_with fuel p h new_cv cc).
  Proof.
    intros Hcap HGst Hkey. unfold lib_Hasher_push_cv, push_cv_with.
    rewrite (merge_cv_stack_gen fuel h cc Hcap HGst Hkey).
    destruct (merge_cv_stack_with fuel p h cc) as [h1| |]; cbn [bind res_map]; try reflexivity.
    unfold av_push, av_len. unfold lib_of_hasher at 1 2. cbn [lib_Hasher_cv_stack]. rewrite rev_length.
    destruct (N.of_nat (length (h_stack h1)) <? rs_cv_stack_cap); reflexivity.
  Qed.

  (* ---------- final_output ---------- *)
  Lemma final_loop_gen h : key_ok h -> forall l fuel w o, Forall G l -> Good o ->
    lib_Hasher_final_output_loop1 pno cvf fuel
      (lib_Hasher_mk (h_key h) (lib_of_cs p (h_cs h)) (h_init h) (rev l ++ w)) (lib_of_out p o) (N.of_nat (length l))
    = if (length l <=? fuel)%nat then Ok (lib_of_out p (final_fold p h o l), 0) else OutOfFuel.
  Proof.
    intros Hkey. induction l as [|cv l IH]; intros fuel w o HGl Ho.
    - destruct fuel; reflexivity.
    - destruct fuel as [|fuel]; [reflexivity|].
      cbn [lib_Hasher_final_output_loop1]. unfold mcmp at 1. cbn [bind].
      replace (0 <? N.of_nat (length (cv :: l))) with true by (symmetry; apply N.ltb_lt; cbn [length]; lia).
      unfold mb, mi_sub. cbn [bind].
      replace (1 <=? N.of_nat (length (cv :: l))) with true by (symmetry; apply N.leb_le; cbn [length]; lia).
      cbn [bind]. replace (N.of_nat (length (cv :: l)) - 1) with (N.of_nat (length l)) by (cbn [length]; lia).
      cbn [lib_Hasher_cv_stack rev]. rewrite <- (rev_length l) at 1. rewrite av_index_app_last. cbn [bind].
      cbn [lib_Hasher_key lib_Hasher_chunk_state lib_of_cs lib_ChunkState_flags lib_ChunkState_platform].
      inversion HGl as [|? ? Hcvg HGl']; subst.
      rewrite (Hcv o Ho), (Hpno cv _ _ _ Hcvg (HG o Ho)), <- app_assoc.
      specialize (IH fuel ([cv] ++ w) (parent_output (h_key h) (h_flags h) cv (out_chaining_value p o)) HGl' (Hkey _ _ _)).
      cbn [lib_of_cs] in IH. unfold h_flags in IH. rewrite IH.
      cbn [length final_fold Nat.leb]. reflexivity.
  Qed.

  (* the one place where the model and the source differ: with exactly one entry on the stack and an empty chunk state
     the source's debug_assert!(self.cv_stack.len() >= 2) fires (code 1406 here); the model leaves it to the index
     panic that follows in every build (Panic 53) *)
  Lemma final_output_gen fuel h : (length (h_stack h) <= fuel)%nat ->
    (forall a, h_stack h = [a] -> cs_count (h_cs h) <> Ok 0) ->
    Forall G (h_stack h) -> key_ok h -> Good (cs_output (h_cs h)) ->
    lib_Hasher_final_output pno cvf fuel (lib_of_hasher p h) = res_map (lib_of_out p) (final_output p h).
  Proof.
    intros Hfuel Hone HGst Hkey Hcs. unfold lib_Hasher_final_output, final_output.
    unfold lib_of_hasher. cbn [lib_Hasher_cv_stack lib_Hasher_chunk_state lib_Hasher_initial_chunk_counter].
    destruct (h_stack h) as [|a st] eqn:Est.
    - cbn [rev]. unfold mcmp at 1. cbn [bind av_len length N.of_nat N.eqb].
      unfold mcmp at 1. cbn [bind lib_of_cs lib_ChunkState_chunk_counter].
      destruct (cs_ctr (h_cs h) =? h_init h); cbn [check bind res_map]; [|reflexivity].
      change (lib_ChunkState_mk _ _ _ _ _ _ p) with (lib_of_cs p (h_cs h)). rewrite output_eq. reflexivity.
    - unfold mcmp at 1. cbn [bind]. unfold av_len at 1. rewrite rev_length.
      replace (N.of_nat (length (a :: st)) =? 0) with false by (symmetry; apply N.eqb_neq; cbn [length]; lia).
      rewrite lib_ChunkState_count_eq. unfold mcmp at 1. cbn [bind].
      destruct (cs_count (h_cs h)) as [c| |] eqn:Ec; cbn [bind res_map]; try reflexivity.
      destruct (0 <? c) eqn:Epos.
      + unfold rs_post_merge_len. cbn [lib_of_cs lib_ChunkState_chunk_counter]. unfold mcmp at 1. cbn [bind].
        destruct (mu (mi_cast 64) (mu (mi_popcount 64) (mb (mi_sub 64) (Ok (cs_ctr (h_cs h))) (Ok (h_init h))))) as [target| |];
          cbn [bind res_map]; try reflexivity.
        unfold av_len. rewrite rev_length.
        destruct (N.of_nat (length (a :: st)) =? target); cbn [check bind res_map]; [|reflexivity].
        change (lib_ChunkState_mk _ _ _ _ _ _ p) with (lib_of_cs p (h_cs h)). rewrite output_eq. cbn [bind].
        rewrite <- (app_nil_r (rev (a :: st))).
        rewrite (final_loop_gen h Hkey (a :: st) fuel [] (cs_output (h_cs h)) HGst Hcs).
        replace (length (a :: st) <=? fuel)%nat with true by (symmetry; apply Nat.leb_le; exact Hfuel).
        reflexivity.
      + assert (c = 0) by (apply N.ltb_ge in Epos; lia). subst c.
        destruct st as [|lcv rest]; [exfalso; exact (Hone a eq_refl eq_refl)|].
        unfold mcmp at 1. cbn [bind]. unfold av_len. rewrite rev_length.
        replace (2 <=? N.of_nat (length (a :: lcv :: rest))) with true by (symmetry; apply N.leb_le; cbn [length]; lia).
        cbn [check bind]. unfold mb, mi_sub. cbn [bind].
        replace (2 <=? N.of_nat (length (a :: lcv :: rest))) with true by (symmetry; apply N.leb_le; cbn [length]; lia).
        replace (1 <=? N.of_nat (length (a :: lcv :: rest))) with true by (symmetry; apply N.leb_le; cbn [length]; lia).
        cbn [bind].
        replace (N.of_nat (length (a :: lcv :: rest)) - 2) with (N.of_nat (length (rev rest))) by (rewrite rev_length; cbn [length]; lia).
        replace (N.of_nat (length (a :: lcv :: rest)) - 1) with (N.of_nat (length (rev rest ++ [lcv])))
          by (rewrite app_length, rev_length; cbn [length]; lia).
        cbn [rev]. rewrite av_index_app_last. cbn [bind]. rewrite av_index_last. cbn [bind].
        cbn [lib_Hasher_key lib_Hasher_chunk_state lib_of_cs lib_ChunkState_flags lib_ChunkState_platform].
        rewrite <- app_assoc. rewrite rev_length.
        inversion HGst as [|? ? Ha HG1]; subst. inversion HG1 as [|? ? Hl HG2]; subst.
        rewrite (Hpno lcv a _ _ Hl Ha).
        pose proof (final_loop_gen h Hkey rest fuel ([lcv] ++ [a]) (parent_output (h_key h) (cs_flags (h_cs h)) lcv a)
                      HG2 (Hkey _ _ _)) as HL.
        cbn [lib_of_cs] in HL. rewrite HL.
        replace (length rest <=? fuel)%nat with true by (symmetry; apply Nat.leb_le; cbn [length] in Hfuel; lia).
        reflexivity.
  Qed.

  Lemma final_output_one_gen fuel h a : h_stack h = [a] -> cs_count (h_cs h) = Ok 0 ->
    lib_Hasher_final_output pno cvf fuel (lib_of_hasher p h) = Panic 1406 /\ final_output p h = Panic 53.
  Proof.
    intros Est Ec. unfold lib_Hasher_final_output, final_output, lib_of_hasher. rewrite Est.
    cbn [lib_Hasher_cv_stack lib_Hasher_chunk_state rev app]. rewrite lib_ChunkState_count_eq, Ec. split; reflexivity.
  Qed.

  Lemma finalize_gen rh fuel h : (forall o, rh (lib_of_out p o) = out_root_hash p o) ->
    (length (h_stack h) <= fuel)%nat -> (forall a, h_stack h = [a] -> cs_count (h_cs h) <> Ok 0) ->
    Forall G (h_stack h) -> key_ok h -> Good (cs_output (h_cs h)) ->
    lib_Hasher_finalize pno cvf rh fuel (lib_of_hasher p h) = hasher_finalize p h.
  Proof.
    intros Hrh Hf H1 HGst Hkey Hcs. unfold lib_Hasher_finalize, hasher_finalize. unfold mcmp. cbn [bind].
    change (lib_Hasher_initial_chunk_counter (lib_of_hasher p h)) with (h_init h).
    destruct (h_init h =? 0); cbn [check bind]; [|reflexivity].
    rewrite (final_output_gen fuel h Hf H1 HGst Hkey Hcs).
    destruct (final_output p h) as [o| |]; cbn [res_map bind]; try reflexivity.
    rewrite Hrh. apply bind_ret.
  Qed.

  (* finalize_xof: OutputReader::new is a parameter; with the reader := the root Output itself *)
  Lemma finalize_xof_gen fuel h : (length (h_stack h) <= fuel)%nat ->
    (forall a, h_stack h = [a] -> cs_count (h_cs h) <> Ok 0) ->
    Forall G (h_stack h) -> key_ok h -> Good (cs_output (h_cs h)) ->
    lib_Hasher_finalize_xof pno cvf out_of_lib fuel (lib_of_hasher p h) = hasher_finalize_output p h.
  Proof.
    intros Hf H1 HGst Hkey Hcs. unfold lib_Hasher_finalize_xof, hasher_finalize_output. unfold mcmp. cbn [bind].
    change (lib_Hasher_initial_chunk_counter (lib_of_hasher p h)) with (h_init h).
    destruct (h_init h =? 0); cbn [check bind]; [|reflexivity].
    rewrite (final_output_gen fuel h Hf H1 HGst Hkey Hcs).
    destruct (final_output p h) as [o| |]; cbn [res_map bind]; try reflexivity.
    rewrite out_of_lib_of_out. reflexivity.
  Qed.
End Ext.

(* ---------- instance 1: the model's own parent_output / out_chaining_value; no side conditions ---------- *)
Definition GT (_ : list N) : Prop := True.
Definition GoodT (_ : output) : Prop := True.

Lemma Forall_GT st : Forall GT st.
Proof. induction st; constructor; [exact I|assumption]. Qed.

Lemma merge_loop_eq p cc : forall fuel h st target, N.of_nat (length st) <= rs_cv_stack_cap ->
  lib_Hasher_merge_cv_stack_loop1 m_parent_node_output m_Output_chaining_value fuel
    (lib_of_hasher p (set_stack h st)) cc target
  = res_map (fun st' => lib_of_hasher p (set_stack h st')) (merge_loop fuel p h st target).
Proof.
  intros fuel h st target Hcap.
  apply (merge_loop_gen p GT GoodT m_parent_node_output m_Output_chaining_value); try assumption.
  - reflexivity.
  - intros o _. apply m_cv_of_out.
  - intros o _. exact I.
  - apply Forall_GT.
  - intros fl l r. exact I.
Qed.

Ltac inst_m :=
  first [ reflexivity | (intros ? _; apply m_cv_of_out) | (intros ? _; exact I) | apply Forall_GT
        | (intros ? ? ?; exact I) | exact I | assumption ].

Lemma lib_Hasher_merge_cv_stack_eq p fuel h cc : N.of_nat (length (h_stack h)) <= rs_cv_stack_cap ->
  lib_Hasher_merge_cv_stack m_parent_node_output m_Output_chaining_value fuel (lib_of_hasher p h) cc
  = res_map (lib_of_hasher p) (merge_cv_stack_with fuel p h cc).
Proof. intros Hcap. apply (merge_cv_stack_gen p GT GoodT m_parent_node_output m_Output_chaining_value); inst_m. Qed.

Lemma lib_Hasher_push_cv_eq p fuel h new_cv cc : N.of_nat (length (h_stack h)) <= rs_cv_stack_cap ->
  lib_Hasher_push_cv m_parent_node_output m_Output_chaining_value fuel (lib_of_hasher p h) new_cv cc
  = res_map (lib_of_hasher p) (push_cv_with fuel p h new_cv cc).
Proof. intros Hcap. apply (push_cv_gen p GT GoodT m_parent_node_output m_Output_chaining_value); inst_m. Qed.

Lemma final_loop_eq p h : forall l fuel w o,
  lib_Hasher_final_output_loop1 m_parent_node_output m_Output_chaining_value fuel
    (lib_Hasher_mk (h_key h) (lib_of_cs p (h_cs h)) (h_init h) (rev l ++ w)) (lib_of_out p o) (N.of_nat (length l))
  = if (length l <=? fuel)%nat then Ok (lib_of_out p (final_fold p h o l), 0) else OutOfFuel.
Proof. intros l fuel w o. apply (final_loop_gen p GT GoodT m_parent_node_output m_Output_chaining_value); inst_m. Qed.

Lemma lib_Hasher_final_output_eq p fuel h : (length (h_stack h) <= fuel)%nat ->
  (forall a, h_stack h = [a] -> cs_count (h_cs h) <> Ok 0) ->
  lib_Hasher_final_output m_parent_node_output m_Output_chaining_value fuel (lib_of_hasher p h)
  = res_map (lib_of_out p) (final_output p h).
Proof. intros Hf H1. apply (final_output_gen p GT GoodT m_parent_node_output m_Output_chaining_value); inst_m. Qed.

Lemma lib_Hasher_final_output_one p fuel h a : h_stack h = [a] -> cs_count (h_cs h) = Ok 0 ->
  lib_Hasher_final_output m_parent_node_output m_Output_chaining_value fuel (lib_of_hasher p h) = Panic 1406 /\
  final_output p h = Panic 53.
Proof. apply final_output_one_gen. Qed.

Lemma m_rh_of_out p o : m_Output_root_hash (lib_of_out p o) = out_root_hash p o.
Proof. unfold m_Output_root_hash. rewrite out_of_lib_of_out. reflexivity. Qed.

Lemma lib_Hasher_finalize_eq p fuel h : (length (h_stack h) <= fuel)%nat ->
  (forall a, h_stack h = [a] -> cs_count (h_cs h) <> Ok 0) ->
  lib_Hasher_finalize m_parent_node_output m_Output_chaining_value m_Output_root_hash fuel (lib_of_hasher p h)
  = hasher_finalize p h.
Proof.
  intros Hf H1. apply (finalize_gen p GT GoodT m_parent_node_output m_Output_chaining_value); try (intros; apply m_rh_of_out); inst_m.
Qed.

Lemma lib_Hasher_finalize_xof_eq p fuel h : (length (h_stack h) <= fuel)%nat ->
  (forall a, h_stack h = [a] -> cs_count (h_cs h) <> Ok 0) ->
  lib_Hasher_finalize_xof m_parent_node_output m_Output_chaining_value out_of_lib fuel (lib_of_hasher p h)
  = hasher_finalize_output p h.
Proof. intros Hf H1. apply (finalize_xof_gen p GT GoodT m_parent_node_output m_Output_chaining_value); inst_m. Qed.

Lemma merge_loop_length p h : forall fuel st target st', merge_loop fuel p h st target = Ok st' ->
  (length st' <= length st)%nat.
Proof.
  induction fuel as [|fuel IH]; intros st target st' H; cbn [merge_loop] in H.
  - destruct (N.of_nat (length st) <=? target); [inversion H; lia|discriminate].
  - destruct (N.of_nat (length st) <=? target); [inversion H; lia|].
    destruct st as [|rcv [|lcv rest]]; try discriminate. apply IH in H. cbn [length] in *. lia.
Qed.

Lemma lib_Hasher_reset_eq p h : lib_Hasher_reset (lib_of_hasher p h) = lib_of_hasher p (hasher_reset h).
Proof. reflexivity. Qed.

(* Hasher::count: the source evaluates (chunk_counter - initial_chunk_counter) * CHUNK_LEN before chunk_state.count(),
   the model the other way round; chunk_state.count() cannot fail for u8 fields *)
Lemma cs_count_ok c : cs_blocks c < 2 ^ 8 -> cs_buf_len c < 2 ^ 8 -> exists n, cs_count c = Ok n.
Proof.
  intros Hb Hl. unfold cs_count, rs_chunk_count, mb, mu, mi_cast, mi_mul, mi_add, fits. cbn [bind].
  change (2 ^ 8) with 256 in *.
  rewrite (land_ones_small (cs_blocks c) 64), (land_ones_small (cs_buf_len c) 64)
    by (change (2 ^ 64) with 18446744073709551616; lia).
  change rs_BLOCK_LEN with 64. change (2 ^ 64) with 18446744073709551616.
  replace (64 * cs_blocks c <? 18446744073709551616) with true by (symmetry; apply N.ltb_lt; lia). cbn [bind].
  replace (64 * cs_blocks c + cs_buf_len c <? 18446744073709551616) with true by (symmetry; apply N.ltb_lt; lia).
  eexists. reflexivity.
Qed.

Lemma lib_Hasher_count_eq p h : cs_blocks (h_cs h) < 2 ^ 8 -> cs_buf_len (h_cs h) < 2 ^ 8 ->
  lib_Hasher_count (lib_of_hasher p h) = hasher_count h.
Proof.
  intros Hb Hl. unfold lib_Hasher_count, hasher_count, rs_count.
  change (lib_Hasher_chunk_state (lib_of_hasher p h)) with (lib_of_cs p (h_cs h)).
  rewrite lib_ChunkState_count_eq. destruct (cs_count_ok (h_cs h) Hb Hl) as [n ->]. cbn [bind].
  apply bind_ret.
Qed.

(* ---------- every translated record is lib_of_* of its model reading ---------- *)
Lemma lib_of_cs_of_lib c : lib_of_cs (lib_ChunkState_platform c) (cs_of_lib c) = c.
Proof. destruct c; reflexivity. Qed.
Lemma lib_of_out_of_lib o : lib_of_out (lib_Output_platform o) (out_of_lib o) = o.
Proof. destruct o; reflexivity. Qed.
Lemma lib_of_hasher_of_lib h :
  lib_of_hasher (lib_ChunkState_platform (lib_Hasher_chunk_state h)) (hasher_of_lib h) = h.
Proof.
  destruct h as [k c i st]. unfold lib_of_hasher, hasher_of_lib.
  cbn [h_key h_cs h_init h_stack lib_Hasher_key lib_Hasher_chunk_state lib_Hasher_initial_chunk_counter lib_Hasher_cv_stack].
  rewrite rev_involutive, lib_of_cs_of_lib. reflexivity.
Qed.
Lemma hasher_of_lib_of_hasher p h : hasher_of_lib (lib_of_hasher p h) = h.
Proof.
  destruct h as [k c i st]. unfold lib_of_hasher, hasher_of_lib.
  cbn [h_key h_cs h_init h_stack lib_Hasher_key lib_Hasher_chunk_state lib_Hasher_initial_chunk_counter lib_Hasher_cv_stack].
  rewrite rev_involutive, cs_of_lib_of_cs. reflexivity.
Qed.

(* ---------- instance 2: the TRANSLATED parent_node_output / Output::chaining_value (gen/GenLibSmall.v) ----------
   on a PlatformOK platform, for 32-byte chaining values on the stack, an 8-word key and an 8-word chunk-state cv *)
Definition G32 (cv : list N) : Prop := length cv = 32%nat.
Definition Good8 (o : output) : Prop := length (o_cv o) = 8%nat.

Section Src.
  Variable p : platform.
  Hypothesis OK : PlatformOK p.

  Lemma src_pno l r key fl : G32 l -> G32 r ->
    lib_parent_node_output l r key fl p = lib_of_out p (parent_output key fl l r).
  Proof.
    intros Hl Hr. destruct (lib_parent_node_output_eq l r key fl p Hl Hr) as [H1 H2].
    rewrite <- (lib_of_out_of_lib (lib_parent_node_output l r key fl p)), H1, H2. reflexivity.
  Qed.

  Lemma src_cv o : Good8 o -> lib_Output_chaining_value (lib_of_out p o) = out_chaining_value p o.
  Proof.
    intros Ho. rewrite lib_Output_chaining_value_eq; [rewrite out_of_lib_of_out; reflexivity|exact OK|exact Ho].
  Qed.

  Lemma src_G o : Good8 o -> G32 (out_chaining_value p o).
  Proof.
    intros Ho. unfold G32, out_chaining_value. rewrite bytes_of_words_length, (p_cip_length p _ _ _ _ _ OK Ho). reflexivity.
  Qed.

  Lemma src_key_ok h : length (h_key h) = 8%nat -> key_ok Good8 h.
  Proof. intros Hk fl l r. exact Hk. Qed.

  Lemma merge_loop_src cc fuel h st target : N.of_nat (length st) <= rs_cv_stack_cap ->
    Forall G32 st -> length (h_key h) = 8%nat ->
    lib_Hasher_merge_cv_stack_loop1 lib_parent_node_output lib_Output_chaining_value fuel
      (lib_of_hasher p (set_stack h st)) cc target
    = res_map (fun st' => lib_of_hasher p (set_stack h st')) (merge_loop fuel p h st target).
  Proof.
    intros Hcap HG Hk.
    exact (merge_loop_gen p G32 Good8 _ _ src_pno src_cv src_G cc fuel h st target Hcap HG (src_key_ok h Hk)).
  Qed.

  Lemma merge_cv_stack_src fuel h cc : N.of_nat (length (h_stack h)) <= rs_cv_stack_cap ->
    Forall G32 (h_stack h) -> length (h_key h) = 8%nat ->
    lib_Hasher_merge_cv_stack lib_parent_node_output lib_Output_chaining_value fuel (lib_of_hasher p h) cc
    = res_map (lib_of_hasher p) (merge_cv_stack_with fuel p h cc).
  Proof.
    intros Hcap HG Hk.
    exact (merge_cv_stack_gen p G32 Good8 _ _ src_pno src_cv src_G fuel h cc Hcap HG (src_key_ok h Hk)).
  Qed.

  Lemma push_cv_src fuel h new_cv cc : N.of_nat (length (h_stack h)) <= rs_cv_stack_cap ->
    Forall G32 (h_stack h) -> length (h_key h) = 8%nat ->
    lib_Hasher_push_cv lib_parent_node_output lib_Output_chaining_value fuel (lib_of_hasher p h) new_cv cc
    = res_map (lib_of_hasher p) (push_cv_with fuel p h new_cv cc).
  Proof.
    intros Hcap HG Hk.
    exact (push_cv_gen p G32 Good8 _ _ src_pno src_cv src_G fuel h new_cv cc Hcap HG (src_key_ok h Hk)).
  Qed.

  Lemma final_output_src fuel h : (length (h_stack h) <= fuel)%nat ->
    (forall a, h_stack h = [a] -> cs_count (h_cs h) <> Ok 0) ->
    Forall G32 (h_stack h) -> length (h_key h) = 8%nat -> length (cs_cv (h_cs h)) = 8%nat ->
    lib_Hasher_final_output lib_parent_node_output lib_Output_chaining_value fuel (lib_of_hasher p h)
    = res_map (lib_of_out p) (final_output p h).
  Proof.
    intros Hf H1 HG Hk Hcs.
    exact (final_output_gen p G32 Good8 _ _ src_pno src_cv src_G fuel h Hf H1 HG (src_key_ok h Hk) Hcs).
  Qed.
End Src.
