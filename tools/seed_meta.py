#!/usr/bin/env python3
"""Add to every seeded/<name>/meta.json what I ran and what my checks reported (from confirm.log and detect_*.log)."""
import glob, json, os, re
V = os.path.dirname(os.path.dirname(os.path.abspath(__file__)))
for d in sorted(glob.glob(os.path.join(V, "seeded", "C*"))):
    mp = os.path.join(d, "meta.json")
    if not os.path.isfile(mp):
        continue
    m = json.load(open(mp))
    conf = open(os.path.join(d, "confirm.log")).read() if os.path.exists(os.path.join(d, "confirm.log")) else ""
    runs = {}
    for lf in sorted(glob.glob(os.path.join(d, "detect_*.log"))):
        pid = os.path.basename(lf)[7:-4]
        t = open(lf).read()
        viol = re.findall(r"^VIOLATION property=\S+ replay=\S+( no-failing-input-found)?", t, re.M)
        runs[pid] = {"command": "git -C /repo apply seeded/%s/patch.diff; ./check %s quick; git -C /repo checkout -- ." % (os.path.basename(d), pid),
                     "exit_status": 1 if viol else 0,
                     "violation_lines": len(viol),
                     "with_concrete_input": sum(1 for v in viol if not v),
                     "broken": [l[len("BROKEN property=%s " % pid):][:200] for l in re.findall(r"^BROKEN .*", t, re.M)][:4]}
    first = {}
    for lf in sorted(glob.glob(os.path.join(d, "first_detect_*.log"))):
        pid = os.path.basename(lf)[13:-4]
        t = open(lf).read()
        viol = re.findall(r"^VIOLATION property=\S+ replay=\S+( no-failing-input-found)?", t, re.M)
        first[pid] = {"exit_status": 1 if viol else 0, "violation_lines": len(viol),
                      "note": "result of the check as it stood when this seed arrived (before it was strengthened)"}
    final = {}
    for lf in sorted(glob.glob(os.path.join(d, "final_*.log"))):
        pid = os.path.basename(lf)[6:-4]
        t = open(lf).read()
        viol = re.findall(r"^VIOLATION property=\S+ replay=\S+( no-failing-input-found)?", t, re.M)
        final[pid] = {"exit_status": 1 if viol else 0, "violation_lines": len(viol),
                      "with_concrete_input": sum(1 for v in viol if not v)}
    m["verif"] = {"confirmed_in_scratch_worktree": "CONFIRMED" in conf,
                  "confirmation": "tools/seed_confirm.sh (see confirm.log): patch == worktree diff, demo fails with it, "
                                  "cargo test --workspace --no-fail-fast --offline passes with it, demo passes without it",
                  "demo": "tools/seeded_demo.sh %s with|without  (fresh scratch worktree)" % os.path.basename(d),
                  "checks_run": runs,
                  "first_version_result": first,
                  "final_regression": final,
                  "detected_by": sorted(k for k, v in runs.items() if v["exit_status"] == 1)}
    json.dump(m, open(mp, "w"), indent=1)
    print(os.path.basename(d), m["verif"]["confirmed_in_scratch_worktree"], m["verif"]["detected_by"])
