(* Facts about the integer formulas that tools/gen_coq.py translates from the
   repository's source text (gen/GenFormulas.v).  These obligations look at
   generated text only, so an edit to a formula breaks them directly. *)
From V Require Import Proofs.ListP.
From V Require Import Base.Res Base.Word Base.MachInt gen.GenConsts gen.GenFormulas Spec.Tree Proofs.TreeP.
Open Scope N_scope.

Lemma two64 : 2 ^ 64 = 18446744073709551616.
Proof. reflexivity. Qed.

Lemma pow2_unique e1 e2 n : 2 ^ e1 < n <= 2 ^ (e1 + 1) -> 2 ^ e2 < n <= 2 ^ (e2 + 1) -> e1 = e2.
Proof.
  intros [A1 A2] [B1 B2].
  assert (H1 : 2 ^ e1 < 2 ^ (e2 + 1)) by lia.
  assert (H2 : 2 ^ e2 < 2 ^ (e1 + 1)) by lia.
  apply N.pow_lt_mono_r_iff in H1; [|lia]. apply N.pow_lt_mono_r_iff in H2; [|lia]. lia.
Qed.

Lemma npot_spec m : 1 < m -> exists e, npot m = 2 ^ e /\ 2 ^ e < 2 * m /\ m <= 2 ^ e.
Proof.
  intros H. unfold npot. destruct m as [|pm] eqn:E; [lia|]. rewrite <- E in *.
  exists (N.log2_up m). split; [reflexivity|].
  pose proof (N.log2_up_spec m H) as [H1 H2].
  split; [|exact H2].
  assert (Hpos : 0 < N.log2_up m) by (apply N.log2_up_pos; exact H).
  replace (N.log2_up m) with (N.succ (N.pred (N.log2_up m))) at 1 by lia.
  rewrite N.pow_succ_r'. lia.
Qed.

(* hazmat::left_subtree_len, as written in the source, on all of u64 above CHUNK_LEN *)
Theorem rs_left_subtree_len_spec n :
  1024 < n -> n < 2 ^ 64 -> rs_left_subtree_len n = Ok (left_len n).
Proof.
  intros Hlo Hhi. rewrite two64 in Hhi.
  unfold rs_left_subtree_len, mu, mb, mi_add, mi_sub, mi_div, mi_npot, fits. cbn [bind].
  replace (1 <=? n) with true by lia. cbn [bind].
  change (2 =? 0) with false. cbn iota. cbn [bind].
  replace ((n - 1) / 2 + 1 <? 2 ^ 64) with true by (rewrite two64; lia). cbn [bind].
  set (m := (n - 1) / 2 + 1).
  destruct (npot_spec m ltac:(unfold m; lia)) as (e & He & He1 & He2).
  destruct (left_len_spec n Hlo) as (a & Ha & Ha1 & Ha2).
  assert (Heq : e = 10 + a).
  { apply (pow2_unique e (10 + a) n).
    - rewrite N.add_1_r, N.pow_succ_r'.
      destruct (N.eq_dec e 0) as [->|He0]; [change (2 ^ 0) with 1 in *; unfold m in *; lia|].
      replace e with (N.succ (N.pred e)) in * by lia. rewrite ?N.pow_succ_r' in *.
      unfold m in *. lia.
    - replace (10 + a + 1) with (10 + (a + 1)) by lia.
      rewrite (N.pow_add_r 2 10 a), (N.pow_add_r 2 10 (a + 1)). change (2 ^ 10) with 1024. lia. }
  rewrite He. assert (Hv : 2 ^ e = left_len n).
  { rewrite Ha, Heq, N.pow_add_r. reflexivity. }
  rewrite Hv.
  replace (left_len n <? 2 ^ 64) with true by (rewrite two64; lia).
  reflexivity.
Qed.

(* largest_power_of_two_leq (lib.rs): 2^(log2 n) for n >= 1 *)
Theorem rs_largest_power_of_two_leq_spec n :
  1 <= n -> n < 2 ^ 64 -> rs_largest_power_of_two_leq n = Ok (2 ^ N.log2 n).
Proof.
  intros Hlo Hhi. rewrite two64 in Hhi.
  unfold rs_largest_power_of_two_leq, mu, mb, mi_add, mi_div, mi_npot, fits. cbn [bind].
  change (2 =? 0) with false. cbn iota. cbn [bind].
  replace (n / 2 + 1 <? 2 ^ 64) with true by (rewrite two64; lia). cbn [bind].
  pose proof (N.log2_spec n ltac:(lia)) as [L1 L2]. rewrite N.pow_succ_r' in L2.
  destruct (N.eq_dec n 1) as [->|Hn1]; [reflexivity|].
  set (m := n / 2 + 1).
  destruct (npot_spec m ltac:(unfold m; lia)) as (e & He & He1 & He2).
  assert (Heq : e = N.log2 n).
  { apply (pow2_unique e (N.log2 n) (n + 1)).
    - rewrite (N.add_1_r e), N.pow_succ_r'.
      destruct (N.eq_dec e 0) as [->|He0]; [change (2 ^ 0) with 1 in *; unfold m in *; lia|].
      replace e with (N.succ (N.pred e)) in * by lia. rewrite ?N.pow_succ_r' in *.
      unfold m in *. lia.
    - rewrite (N.add_1_r (N.log2 n)), N.pow_succ_r'. lia. }
  rewrite He, Heq.
  replace (2 ^ N.log2 n <? 2 ^ 64) with true by (rewrite two64; lia). reflexivity.
Qed.

Lemma rs_right_chunk_counter_spec ctr l :
  l < 2 ^ 64 -> ctr + l / 1024 < 2 ^ 64 -> rs_right_chunk_counter ctr l = Ok (ctr + l / 1024).
Proof.
  intros H1 H2. unfold rs_right_chunk_counter, mu, mb, mi_add, mi_div, mi_cast, fits. cbn [bind].
  change rs_CHUNK_LEN with 1024. change (1024 =? 0) with false. cbn iota. cbn [bind].
  rewrite N.land_ones. rewrite N.mod_small by (rewrite two64 in *; lia).
  replace (ctr + l / 1024 <? 2 ^ 64) with true by lia. reflexivity.
Qed.
