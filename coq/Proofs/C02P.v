(* C02 / C09 / C10: the Hasher theorems instantiated with the real compression
   function: any sequence of updates refines the bytes absorbed so far; finalize,
   finalize_xof, count are queries; subtree hashers (set_input_offset) compute the
   specification's subtree chaining value; reset yields the constructor state. *)
From V Require Import Proofs.ListP.
From V Require Import Base.Res Base.Word Base.MachInt gen.GenConsts gen.GenFormulas
  Spec.Compress Spec.Tree Spec.Blake3 Model.Portable Model.Platform Model.RsChunk Model.RsWide
  Model.RsHasher Model.RsXof Model.RsIo
  Proofs.PortableP Proofs.ChunkP Proofs.TreeP Proofs.FormulasP Proofs.WideP Proofs.C01P Proofs.XofP
  Proofs.StackArithP Proofs.HasherP Proofs.IoP.
Open Scope N_scope.

Section Subtree.
  Variable p : platform.
  Hypothesis POK : PlatformOK p.
  Variables (K : list N) (F : N).
  Hypothesis HK : length K = 8%nat.
  (* a (sub)tree starting at chunk c0 that may hold at most lim chunks: either the whole
     input (c0 = 0, lim = 2^54) or a subtree at a non-zero offset (lim = 2^tz(c0)) *)
  Variable c0 : N.
  Hypothesis Hc0 : c0 < 2 ^ 54.
  Definition lim_of : N := if c0 =? 0 then 2 ^ 54 else 2 ^ tz 64 c0.

  Lemma lim_ok : c0 + lim_of <= 2 ^ 54.
  Proof.
    unfold lim_of. destruct (c0 =? 0) eqn:E; [lia|].
    (* c0 = 2^t * odd < 2^54, so c0 + 2^t <= 2^54 *)
    destruct c0 as [|q] eqn:Ec; [discriminate|]. cbn [tz].
    destruct (tz_pos_spec q) as [o Ho].
    set (t := tz_pos q) in *.
    assert (Ht : t < 54).
    { apply (N.pow_lt_mono_r_iff 2); [lia|]. pose proof (pow2_pos t). nia. }
    assert (Hd : 2 ^ 54 = 2 ^ t * 2 ^ (54 - t)) by (rewrite <- N.pow_add_r; f_equal; lia).
    rewrite Hd in *. rewrite Ho in *.
    assert (2 * o + 1 < 2 ^ (54 - t)) by (pose proof (pow2_pos t); nia).
    nia.
  Qed.

  Lemma lim_al : forall b, 2 ^ b <= lim_of -> (2 ^ b | c0).
  Proof.
    intros b Hb. unfold lim_of in Hb. destruct (c0 =? 0) eqn:E.
    - replace c0 with 0 by lia. apply N.divide_0_r.
    - destruct (tz_divides 64 c0 ltac:(lia)) as [Hd _].
      apply N.pow_le_mono_r_iff in Hb; [|lia].
      eapply N.divide_trans; [|exact Hd]. apply pow2_divides. exact Hb.
  Qed.

  Lemma lim_msl : rs_max_subtree_len (c0 * 1024) = Ok (if c0 =? 0 then None else Some (1024 * lim_of)).
  Proof.
    unfold lim_of. destruct (c0 =? 0) eqn:E.
    - replace c0 with 0 by lia. reflexivity.
    - apply rs_max_subtree_len_spec; lia.
  Qed.

  Definition InvS := Inv spec_c8 K F c0 lim_of.

  Definition fresh : hasher := mkHasher K (cs_new K c0 F) c0 [].

  Lemma InvS_fresh : InvS fresh [].
  Proof.
    apply (Inv_new spec_c8 p POK spec_c8_cip spec_c8_len K F HK c0 lim_of lim_ok Hc0 lim_al). lia.
  Qed.

  Lemma InvS_update h bs input :
    InvS h bs -> len (bs ++ input) <= 1024 * lim_of -> len (bs ++ input) < 2 ^ 64 ->
    exists h', hasher_update p h input = Ok h' /\ InvS h' (bs ++ input).
  Proof.
    apply (hasher_update_spec spec_c8 p POK spec_c8_cip spec_c8_len K F HK c0 lim_of lim_ok Hc0 lim_al lim_msl).
  Qed.

  Lemma InvS_output h bs : InvS h bs ->
    final_output p h = Ok (subtree_output spec_c8 tree_height K F c0 bs).
  Proof.
    intros HI. rewrite (final_output_spec spec_c8 p POK spec_c8_cip spec_c8_len K F HK c0 lim_of lim_ok Hc0 lim_al h bs HI).
    rewrite subtree_output_tree. rewrite st_unfold. reflexivity.
  Qed.

  Lemma InvS_count h bs : InvS h bs -> hasher_count h = Ok (len bs).
  Proof. apply (hasher_count_spec spec_c8 p POK spec_c8_cip spec_c8_len K F HK c0 lim_of lim_ok Hc0 lim_al). Qed.

  (* any number of update calls *)
  Lemma InvS_updates : forall pieces h bs,
    InvS h bs -> len (bs ++ concat pieces) <= 1024 * lim_of -> len (bs ++ concat pieces) < 2 ^ 64 ->
    exists h', updates p h pieces = Ok h' /\ InvS h' (bs ++ concat pieces).
  Proof.
    induction pieces as [|x tl IH]; intros h bs HI H1 H2.
    - exists h. cbn [concat updates]. rewrite app_nil_r. auto.
    - cbn [concat updates] in *. rewrite app_assoc in H1, H2.
      destruct (InvS_update h bs x HI) as (h1 & Hu & HI1).
      { rewrite !len_app in *. lia. }
      { rewrite !len_app in *. lia. }
      rewrite Hu. cbn [bind].
      destruct (IH h1 (bs ++ x) HI1 H1 H2) as (h' & Hr & HI').
      exists h'. rewrite <- app_assoc in HI'. auto.
  Qed.

  (* reset: the constructor state of the same key and flags (C10) *)
  Lemma InvS_key_flags h bs : InvS h bs -> h_key h = K /\ h_flags h = F.
  Proof. intros (es & (Hk & Hf & _) & _). auto. Qed.

  Lemma reset_is_new h bs : InvS h bs -> hasher_reset h = new_internal K F.
  Proof. intros HI. destruct (InvS_key_flags h bs HI) as [Hk Hf]. unfold hasher_reset. rewrite Hk, Hf. reflexivity. Qed.
End Subtree.

(* ---- whole inputs: c0 = 0 ------------------------------------------------------------------ *)
Section Whole.
  Variable p : platform.
  Hypothesis POK : PlatformOK p.
  Variables (K : list N) (F : N).
  Hypothesis HK : length K = 8%nat.

  Lemma c0_zero_lt : 0 < 2 ^ 54.
  Proof. reflexivity. Qed.

  Notation Inv0 := (InvS K F 0).

  Lemma new_internal_Inv : Inv0 (new_internal K F) [].
  Proof. apply (InvS_fresh p POK K F HK 0 c0_zero_lt). Qed.

  Lemma lim0 : 1024 * lim_of 0 = 2 ^ 64.
  Proof. reflexivity. Qed.

  (* update sequence, then finalize / finalize_xof / count describe exactly the bytes absorbed *)
  Theorem hasher_refines pieces :
    len (concat pieces) < 2 ^ 64 ->
    exists h, updates p (new_internal K F) pieces = Ok h /\
      hasher_count h = Ok (len (concat pieces)) /\
      hasher_finalize_output p h = Ok (subtree_output spec_c8 tree_height K F 0 (concat pieces)) /\
      hasher_finalize p h = Ok (stream spec_c64 (subtree_output spec_c8 tree_height K F 0 (concat pieces)) 0 32).
  Proof.
    intros Hl.
    destruct (InvS_updates p POK K F HK 0 c0_zero_lt pieces (new_internal K F) [] new_internal_Inv) as (h & Hu & HI).
    { cbn [app]. rewrite lim0. lia. }
    { cbn [app]. exact Hl. }
    cbn [app] in HI. exists h. split; [exact Hu|].
    split; [apply (InvS_count p POK K F HK 0 c0_zero_lt h _ HI)|].
    pose proof (InvS_output p POK K F HK 0 c0_zero_lt h _ HI) as Ho.
    assert (Hinit : h_init h = 0) by (destruct HI as (es & (_ & _ & Hi & _) & _); exact Hi).
    unfold hasher_finalize_output, hasher_finalize. rewrite Hinit. change (0 =? 0) with true. cbn [check bind].
    rewrite Ho. split; [reflexivity|]. cbn [bind].
    destruct (subtree_output_root_wf spec_c8 p POK spec_c8_cip spec_c8_len K F HK (concat pieces) Hl) as [[W1 W2] Hc].
    unfold out_root_hash. rewrite Hc. change (0 =? 0) with true. cbn [check bind].
    rewrite (ok_cip p POK), spec_c8_cip by assumption. rewrite stream_32 by assumption. reflexivity.
  Qed.
End Whole.

(* ---- the multi-instance history machine (C02, C10) ----------------------------------------- *)
From V Require Import Model.RsDebug Model.Machine.

Inductive hop :=
| HNew | HUpdate (i : nat) (b : list N) | HFinalize (i : nat) | HXof (i : nat) (n : N)
| HCount (i : nat) | HClone (i : nat) | HReset (i : nat).

Definition hop_op (o : hop) : op :=
  match o with
  | HNew => OpNew | HUpdate i b => OpUpdate i b | HFinalize i => OpFinalize i | HXof i n => OpXof i n
  | HCount i => OpCount i | HClone i => OpClone i | HReset i => OpReset i
  end.

Section HistoryMachine.
  Variable p : platform.
  Hypothesis POK : PlatformOK p.
  Variables (K : list N) (F : N).
  Hypothesis HK : length K = 8%nat.
  Variables (pn : list N) (m : mmode).

  Notation root_of bs := (subtree_output spec_c8 tree_height K F 0 bs).
  Local Opaque subtree_output stream.

  (* the abstract machine: one byte list per instance *)
  Definition astep_h (st : list (list N)) (o : hop) : option (list (list N) * list obs) :=
    match o with
    | HNew => Some (st ++ [[]], [])
    | HUpdate i b =>
        match nth_error st i with
        | Some bs => if len (bs ++ b) <? 2 ^ 64 then Some (set_nth st i (bs ++ b), []) else None
        | None => None
        end
    | HFinalize i =>
        match nth_error st i with Some bs => Some (st, [ObHex (stream spec_c64 (root_of bs) 0 32)]) | None => None end
    | HXof i n =>
        match nth_error st i with
        | Some bs => if n <=? 2 ^ 64 - 1 then Some (st, [ObXof (stream spec_c64 (root_of bs) 0 (N.to_nat n))]) else None
        | None => None
        end
    | HCount i => match nth_error st i with Some bs => Some (st, [ObNum (len bs)]) | None => None end
    | HClone i => match nth_error st i with Some bs => Some (st ++ [bs], []) | None => None end
    | HReset i => match nth_error st i with Some _ => Some (set_nth st i [], []) | None => None end
    end.

  Fixpoint arun_h (st : list (list N)) (ops : list hop) : option (list obs) :=
    match ops with
    | [] => Some []
    | o :: tl =>
        match astep_h st o with
        | Some (st', out) => match arun_h st' tl with Some rest => Some (out ++ rest) | None => None end
        | None => None
        end
    end.

  Notation Inv0 := (InvS K F 0).

  Lemma Forall2_nth {A B} (R : A -> B -> Prop) l1 l2 i y :
    Forall2 R l1 l2 -> nth_error l2 i = Some y -> exists x, nth_error l1 i = Some x /\ R x y.
  Proof.
    intros H. revert i. induction H as [|a b l1 l2 Hab H IH]; intros i Hi; [destruct i; discriminate|].
    destruct i as [|i]; cbn in *; [inversion Hi; subst; eauto|auto].
  Qed.

  Lemma Forall2_set_nth {A B} (R : A -> B -> Prop) l1 l2 i x y :
    Forall2 R l1 l2 -> R x y -> Forall2 R (set_nth l1 i x) (set_nth l2 i y).
  Proof.
    intros H Hxy. revert i. induction H as [|a b l1 l2 Hab H IH]; intros i; [constructor|].
    destruct i as [|i]; cbn [set_nth]; constructor; auto.
  Qed.

  Lemma Forall2_snoc {A B} (R : A -> B -> Prop) l1 l2 x y :
    Forall2 R l1 l2 -> R x y -> Forall2 R (l1 ++ [x]) (l2 ++ [y]).
  Proof. intros H Hxy. apply Forall2_app; [exact H|constructor; [exact Hxy|constructor]]. Qed.

  Lemma get_nth {A} (l : list A) i x : nth_error l i = Some x -> get l i = Ok x.
  Proof. unfold get. intros ->. reflexivity. Qed.

  Lemma root_of_wf bs : len bs < 2 ^ 64 -> wf_out (root_of bs) /\ o_ctr (root_of bs) = 0.
  Proof.
    intros H. destruct (subtree_output_root_wf spec_c8 p POK spec_c8_cip spec_c8_len K F HK bs H) as [[W1 W2] Hc].
    split; [split; assumption|exact Hc].
  Qed.

  Lemma Inv0_len h bs : Inv0 h bs -> len bs < 2 ^ 64.
  Proof. intros (es & _ & _ & _ & _ & _ & H). exact H. Qed.

  (* one step: the concrete machine produces the abstract observations and keeps the relation *)
  Lemma step_refines hs rs vs abs o abs' out :
    Forall2 Inv0 hs abs -> astep_h abs o = Some (abs', out) ->
    exists hs', step p pn m K F (mkState hs rs vs) (hop_op o) = Ok (mkState hs' rs vs, out) /\ Forall2 Inv0 hs' abs'.
  Proof.
    intros HF Ha. destruct o as [|i b|i|i n|i|i|i]; cbn [astep_h hop_op step st_hashers] in *.
    - injection Ha as Ha1 Ha2; subst abs' out. eexists. split; [reflexivity|].
      apply Forall2_snoc; [exact HF|]. apply (new_internal_Inv p POK K F HK).
    - destruct (nth_error abs i) as [bs|] eqn:En; [|discriminate].
      destruct (len (bs ++ b) <? 2 ^ 64) eqn:El; [|discriminate]. injection Ha as Ha1 Ha2; subst abs' out.
      destruct (Forall2_nth _ _ _ _ _ HF En) as (h & Hn & HI).
      rewrite (get_nth _ _ _ Hn). cbn [bind].
      destruct (InvS_update p POK K F HK 0 (c0_zero_lt) h bs b HI) as (h' & Hu & HI').
      { rewrite lim0. lia. }
      { lia. }
      rewrite Hu. cbn [bind]. eexists. split; [reflexivity|].
      apply Forall2_set_nth; assumption.
    - destruct (nth_error abs i) as [bs|] eqn:En; [|discriminate]. injection Ha as Ha1 Ha2; subst abs' out.
      destruct (Forall2_nth _ _ _ _ _ HF En) as (h & Hn & HI).
      rewrite (get_nth _ _ _ Hn). cbn [bind].
      pose proof (InvS_output p POK K F HK 0 c0_zero_lt h bs HI) as Ho.
      assert (Hinit : h_init h = 0) by (destruct HI as (es & (_ & _ & Hi & _) & _); exact Hi).
      destruct (root_of_wf bs (Inv0_len h bs HI)) as [[W1 W2] Hc].
      unfold hasher_finalize. rewrite Hinit. change (0 =? 0) with true. cbn [check bind]. rewrite Ho. cbn [bind].
      unfold out_root_hash. rewrite Hc. change (0 =? 0) with true. cbn [check bind].
      rewrite (ok_cip p POK), spec_c8_cip by assumption. rewrite stream_32 by assumption.
      eexists. split; [reflexivity|exact HF].
    - destruct (nth_error abs i) as [bs|] eqn:En; [|discriminate].
      destruct (n <=? 2 ^ 64 - 1) eqn:El; [|discriminate]. injection Ha as Ha1 Ha2; subst abs' out.
      destruct (Forall2_nth _ _ _ _ _ HF En) as (h & Hn & HI).
      rewrite (get_nth _ _ _ Hn). cbn [bind].
      pose proof (InvS_output p POK K F HK 0 c0_zero_lt h bs HI) as Ho.
      assert (Hinit : h_init h = 0) by (destruct HI as (es & (_ & _ & Hi & _) & _); exact Hi).
      destruct (root_of_wf bs (Inv0_len h bs HI)) as [Hwf Hc].
      unfold hasher_finalize_output. rewrite Hinit. change (0 =? 0) with true. cbn [check bind]. rewrite Ho. cbn [bind].
      destruct (reader_fill_spec p POK (reader_new (root_of bs)) (root_of bs) 0 n (Rd_new _ Hwf Hc) ltac:(lia)) as (r' & Hf & _).
      rewrite Hf. cbn [bind]. eexists. split; [reflexivity|exact HF].
    - destruct (nth_error abs i) as [bs|] eqn:En; [|discriminate]. injection Ha as Ha1 Ha2; subst abs' out.
      destruct (Forall2_nth _ _ _ _ _ HF En) as (h & Hn & HI).
      rewrite (get_nth _ _ _ Hn). cbn [bind].
      rewrite (InvS_count p POK K F HK 0 c0_zero_lt h bs HI). cbn [bind].
      eexists. split; [reflexivity|exact HF].
    - destruct (nth_error abs i) as [bs|] eqn:En; [|discriminate]. injection Ha as Ha1 Ha2; subst abs' out.
      destruct (Forall2_nth _ _ _ _ _ HF En) as (h & Hn & HI).
      rewrite (get_nth _ _ _ Hn). cbn [bind].
      eexists. split; [reflexivity|]. apply Forall2_snoc; assumption.
    - destruct (nth_error abs i) as [bs|] eqn:En; [|discriminate]. injection Ha as Ha1 Ha2; subst abs' out.
      destruct (Forall2_nth _ _ _ _ _ HF En) as (h & Hn & HI).
      rewrite (get_nth _ _ _ Hn). cbn [bind].
      rewrite (reset_is_new K F 0 h bs HI).
      eexists. split; [reflexivity|]. apply Forall2_set_nth; [exact HF|]. apply (new_internal_Inv p POK K F HK).
  Qed.

  Lemma run_ops_acc : forall ops st acc,
    run_ops p pn m K F st ops acc =
    (rev acc ++ fst (run_ops p pn m K F st ops []), snd (run_ops p pn m K F st ops [])).
  Proof.
    induction ops as [|o ops IH]; intros st acc.
    - cbn [run_ops rev fst snd]. rewrite app_nil_r. reflexivity.
    - cbn [run_ops]. destruct (step p pn m K F st o) as [[st' out]| |].
      + rewrite (IH st' (rev out ++ acc)), (IH st' (rev out ++ [])). cbn [fst snd].
        rewrite !app_nil_r, rev_app_distr, !rev_involutive, <- app_assoc. reflexivity.
      + cbn [fst snd rev]. rewrite app_nil_r. reflexivity.
      + cbn [fst snd rev]. rewrite app_nil_r. reflexivity.
  Qed.

  (* C02 at the level of call histories: any finite sequence of update / clone / finalize /
     finalize_xof / count / reset / new over any number of instances yields exactly the
     observations of the abstract machine, and never panics *)
  Theorem history_refines : forall ops hs rs vs abs obs,
    Forall2 Inv0 hs abs -> arun_h abs ops = Some obs ->
    run_ops p pn m K F (mkState hs rs vs) (map hop_op ops) [] = (obs, Ok tt).
  Proof.
    induction ops as [|o ops IH]; intros hs rs vs abs obs HF Ha.
    - cbn in *. inversion Ha. reflexivity.
    - cbn [arun_h map run_ops] in *.
      destruct (astep_h abs o) as [[abs' out]|] eqn:Es; [|discriminate].
      destruct (arun_h abs' ops) as [rest|] eqn:Er; [|discriminate]. inversion Ha; subst. clear Ha.
      destruct (step_refines hs rs vs abs o abs' out HF Es) as (hs' & Hs & HF').
      rewrite Hs. rewrite run_ops_acc. rewrite (IH hs' rs vs abs' rest HF' Er). cbn [fst snd].
      rewrite app_nil_r, rev_involutive. reflexivity.
  Qed.
End HistoryMachine.

(* ---- compositions used by C03 and C11 -------------------------------------------------------- *)
Section Compositions.
  Variable p : platform.
  Hypothesis POK : PlatformOK p.
  Variables (K : list N) (F : N).
  Hypothesis HK : length K = 8%nat.
  Local Opaque subtree_output.

  (* finalize_xof of a hasher that absorbed `pieces`: a reader at position 0 of the stream of the
     specification's root output *)
  Theorem finalize_xof_reader pieces :
    len (concat pieces) < 2 ^ 64 ->
    exists h, updates p (new_internal K F) pieces = Ok h /\
      hasher_finalize_output p h = Ok (subtree_output spec_c8 tree_height K F 0 (concat pieces)) /\
      Rd (reader_new (subtree_output spec_c8 tree_height K F 0 (concat pieces)))
         (subtree_output spec_c8 tree_height K F 0 (concat pieces)) 0.
  Proof.
    intros Hl. destruct (hasher_refines p POK K F HK pieces Hl) as (h & Hu & _ & Ho & _).
    exists h. split; [exact Hu|]. split; [exact Ho|].
    destruct (subtree_output_root_wf spec_c8 p POK spec_c8_cip spec_c8_len K F HK (concat pieces) Hl) as [[W1 W2] Hc].
    apply Rd_new; [split; assumption|exact Hc].
  Qed.

  (* update_reader over any reader script: afterwards the hasher has absorbed exactly the bytes the
     reader yielded before end of file or the first hard error *)
  Theorem update_reader_refines h bs data script :
    InvS K F 0 h bs -> len (bs ++ data) < 2 ^ 64 ->
    exists h' r, update_reader p h data script = Ok (h', r) /\
      InvS K F 0 h' (bs ++ concat (fst (delivered (copy_fuel data script) data script))) /\
      match snd (delivered (copy_fuel data script) data script) with
      | EndEof => r = CopyOk (nlen (concat (fst (delivered (copy_fuel data script) data script))))
      | EndErr k => r = CopyErr k
      | EndFuel => False
      end.
  Proof.
    intros HI Hl. unfold update_reader.
    destruct (delivered_prefix (copy_fuel data script) data script) as [rest Hrest].
    set (ps := fst (delivered (copy_fuel data script) data script)) in *.
    assert (Hlen : len (bs ++ concat ps) < 2 ^ 64).
    { rewrite Hrest in Hl. rewrite !len_app in *. lia. }
    destruct (InvS_updates p POK K F HK 0 c0_zero_lt ps h bs HI) as (h' & Hu & HI').
    { rewrite lim0. lia. }
    { exact Hlen. }
    pose proof (copy_wide_spec p (copy_fuel data script) h data script 0 h') as Hc.
    rewrite len_app in Hl. fold ps in Hc.
    specialize (Hc ltac:(unfold nlen; unfold len in Hl; lia) Hu).
    pose proof (copy_fuel_enough data script) as Hf.
    destruct (snd (delivered (copy_fuel data script) data script)) eqn:Es.
    - eexists. eexists. split; [exact Hc|]. split; [exact HI'|]. rewrite N.add_0_l. reflexivity.
    - eexists. eexists. split; [exact Hc|]. split; [exact HI'|reflexivity].
    - contradiction.
  Qed.
End Compositions.
