(* The property-level oracle: the same case language interpreted with the
   SPECIFICATION only (Spec/*.v): one byte list per hasher instance, a reader is
   (root output, position).  It uses none of the implementation models and none
   of the generated constants, so it keeps its meaning when a translated formula
   or a model proof breaks; tools/verif.py then compares the implementation with
   this machine to search for a concrete failing input.  Ops it does not cover
   return None (the case is skipped by the search), and so do histories outside
   the documented domain: 2^64 or more input bytes, a subtree longer than its
   offset allows, finalize at a non-zero offset, an offset that is not a u64, a
   literal chaining value that is not 32 bytes, positions beyond 2^64-1,
   Digest::new outside the hash mode, KeyInit::new outside the keyed mode.
   Proofs/MachineRefinesP.v (pinned in Props/MachineRefines.v) proves that every
   history this machine accepts is reproduced, observation for observation and
   without a panic, by the implementation machine Machine.run_case. *)
From Coq Require Import NArith ZArith List Bool.
From V Require Import Base.Res Base.Word Spec.Compress Spec.Tree Spec.Blake3 Model.RsXof Model.RsIo Model.Machine.
Import ListNotations.
Open Scope N_scope.

Record sinst := mkSI { si_bytes : list N; si_off : N (* input offset in chunks *) }.
Record sreader := mkSR { sr_out : output; sr_pos : N }.
Record sstate := mkSS { ss_h : list sinst; ss_r : list sreader; ss_v : list (list N) }.

Definition spec_mode (m : mmode) : mode :=
  match m with
  | MHash => Hash
  | MKeyed k => KeyedHash k
  | MDerive c | MDeriveK c => DeriveKeyMaterial (b3_hash_mode DeriveKeyContext c)
  end.

Definition sub_out (m : mmode) (c0 : N) (bs : list N) : output :=
  subtree_output spec_c8 tree_height (mode_key (spec_mode m)) (mode_flags (spec_mode m)) c0 bs.

Definition snth {A} (l : list A) (i : nat) : option A := nth_error l i.

Definition max_position : N := 2 ^ 64 - 1.

(* a subtree that starts at chunk index off (off > 0) holds at most lowbit(off) chunks *)
Fixpoint lowbit_pos (p : positive) : N := match p with xO q => 2 * lowbit_pos q | _ => 1 end.
(* the whole input (off = 0) is shorter than 2^64 bytes (the domain of BLAKE3) *)
Definition room (off total : N) : bool :=
  match off with 0 => total <? 2 ^ 64 | Npos p => total <=? 1024 * lowbit_pos p end.

(* a chaining-value argument: a literal is a [u8; 32] *)
Definition sval (vs : list (list N)) (v : vref) : option (list N) :=
  match v with
  | VLit c => if Nat.eqb (length c) 32 then Some c else None
  | VRef k => snth vs k
  end.

Definition sstep (m : mmode) (st : sstate) (o : op) : option (sstate * list obs) :=
  let upd i (f : sinst -> sinst) := mkSS (set_nth (ss_h st) i (match snth (ss_h st) i with Some x => f x | None => mkSI [] 0 end))
                                        (ss_r st) (ss_v st) in
  match o with
  | OpNew => Some (mkSS (ss_h st ++ [mkSI [] 0]) (ss_r st) (ss_v st), [])
  (* Digest::new / Default is the plain hash mode and KeyInit::new the keyed mode, whatever the
     mode of the case: the one-mode-per-case abstraction covers them only in that mode *)
  | OpTDigestNew => match m with
                    | MHash => Some (mkSS (ss_h st ++ [mkSI [] 0]) (ss_r st) (ss_v st), [])
                    | _ => None end
  | OpTKeyInit => match m with
                  | MKeyed _ => Some (mkSS (ss_h st ++ [mkSI [] 0]) (ss_r st) (ss_v st), [])
                  | _ => None end
  | OpUpdate i b | OpTUpdate i b =>
      match snth (ss_h st) i with
      | Some x0 => if room (si_off x0) (len (si_bytes x0) + len b)
                   then Some (upd i (fun x => mkSI (si_bytes x ++ b) (si_off x)), []) else None
      | None => None end
  | OpWrite i b =>
      match snth (ss_h st) i with
      | Some x0 => if room (si_off x0) (len (si_bytes x0) + len b)
                   then Some (upd i (fun x => mkSI (si_bytes x ++ b) (si_off x)), [ObNum (len b)]) else None
      | None => None end
  | OpUpdateReader i data script =>
      (* update_reader with a scripted reader: the hasher absorbs exactly the bytes the reader yielded before the first
         hard error or end of file (delivered: Interrupted retried, short reads, Ok(0) = EOF) *)
      match snth (ss_h st) i with
      | Some x0 =>
          if (si_off x0 =? 0) && (len (si_bytes x0 ++ data) <? 2 ^ 64) then
            let d := delivered (copy_fuel data script) data script in
            match snd d with
            | EndEof => Some (upd i (fun x => mkSI (si_bytes x ++ concat (fst d)) (si_off x)), [ObOk])
            | EndErr k => Some (upd i (fun x => mkSI (si_bytes x ++ concat (fst d)) (si_off x)), [ObErrIo k])
            | EndFuel => None
            end
          else None
      | None => None end
  | OpFinalize i | OpTFinalize i =>
      match snth (ss_h st) i with
      | Some x => if si_off x =? 0 then Some (st, [ObHex (stream spec_c64 (sub_out m 0 (si_bytes x)) 0 32)]) else None
      | None => None end
  | OpTFinalizeReset i =>
      match snth (ss_h st) i with
      | Some x => if si_off x =? 0 then Some (upd i (fun _ => mkSI [] 0), [ObHex (stream spec_c64 (sub_out m 0 (si_bytes x)) 0 32)]) else None
      | None => None end
  | OpXof i n =>
      match snth (ss_h st) i with
      | Some x => if (si_off x =? 0) && (n <=? max_position)
                  then Some (st, [ObXof (stream spec_c64 (sub_out m 0 (si_bytes x)) 0 (N.to_nat n))]) else None
      | None => None end
  | OpCount i => match snth (ss_h st) i with Some x => Some (st, [ObNum (len (si_bytes x))]) | None => None end
  | OpClone i => match snth (ss_h st) i with Some x => Some (mkSS (ss_h st ++ [x]) (ss_r st) (ss_v st), []) | None => None end
  | OpReset i | OpTReset i => match snth (ss_h st) i with Some _ => Some (upd i (fun _ => mkSI [] 0), []) | None => None end
  | OpSetOffset i off =>
      match snth (ss_h st) i with
      | Some x => if (len (si_bytes x) =? 0) && (off mod 1024 =? 0) && (off <? 2 ^ 64) (* a u64 *) then Some (upd i (fun _ => mkSI [] (off / 1024)), []) else None
      | None => None end
  | OpNonRoot i =>
      match snth (ss_h st) i with
      | Some x => if 0 <? len (si_bytes x)
                  then let cv := chaining_value spec_c8 (sub_out m (si_off x) (si_bytes x)) in
                       Some (mkSS (ss_h st) (ss_r st) (ss_v st ++ [cv]), [ObHex cv])
                  else None
      | None => None end
  | OpOneShot b => if len b <? 2 ^ 64 then Some (st, [ObHex (stream spec_c64 (sub_out m 0 b) 0 32)]) else None
  | OpMergeNonRoot l r =>
      match sval (ss_v st) l, sval (ss_v st) r with
      | Some lv, Some rv =>
          let cv := chaining_value spec_c8 (parent_output (mode_key (spec_mode m)) (mode_flags (spec_mode m)) lv rv) in
          Some (mkSS (ss_h st) (ss_r st) (ss_v st ++ [cv]), [ObHex cv])
      | _, _ => None end
  | OpMergeRoot l r =>
      match sval (ss_v st) l, sval (ss_v st) r with
      | Some lv, Some rv =>
          Some (st, [ObHex (stream spec_c64 (parent_output (mode_key (spec_mode m)) (mode_flags (spec_mode m)) lv rv) 0 32)])
      | _, _ => None end
  | OpMergeXof l r =>
      match sval (ss_v st) l, sval (ss_v st) r with
      | Some lv, Some rv =>
          Some (mkSS (ss_h st) (ss_r st ++ [mkSR (parent_output (mode_key (spec_mode m)) (mode_flags (spec_mode m)) lv rv) 0]) (ss_v st), [])
      | _, _ => None end
  | OpContextKey ctx =>
      if len ctx <? 2 ^ 64
      then let ck := b3_hash_mode DeriveKeyContext ctx in Some (mkSS (ss_h st) (ss_r st) (ss_v st ++ [ck]), [ObHex ck])
      else None
  | OpReaderNew i =>
      match snth (ss_h st) i with
      | Some x => if si_off x =? 0 then Some (mkSS (ss_h st) (ss_r st ++ [mkSR (sub_out m 0 (si_bytes x)) 0]) (ss_v st), []) else None
      | None => None end
  | OpFill j n =>
      match snth (ss_r st) j with
      | Some r => if sr_pos r + n <=? max_position
                  then Some (mkSS (ss_h st) (set_nth (ss_r st) j (mkSR (sr_out r) (sr_pos r + n))) (ss_v st),
                             [ObXof (stream spec_c64 (sr_out r) (sr_pos r) (N.to_nat n))]) else None
      | None => None end
  | OpRead j n =>
      match snth (ss_r st) j with
      | Some r => if sr_pos r + n <=? max_position
                  then Some (mkSS (ss_h st) (set_nth (ss_r st) j (mkSR (sr_out r) (sr_pos r + n))) (ss_v st),
                             [ObRead n (stream spec_c64 (sr_out r) (sr_pos r) (N.to_nat n))]) else None
      | None => None end
  | OpPos j => match snth (ss_r st) j with Some r => Some (st, [ObNum (sr_pos r)]) | None => None end
  | OpSetPos j q =>
      match snth (ss_r st) j with
      | Some r => if q <=? max_position then Some (mkSS (ss_h st) (set_nth (ss_r st) j (mkSR (sr_out r) q)) (ss_v st), []) else None
      | None => None end
  | OpSeek j s =>
      match snth (ss_r st) j with
      | Some r =>
          match s with
          | SeekEnd _ => Some (st, [ObErrIo 0])
          | SeekStart x => let q := N.min x max_position in
                           Some (mkSS (ss_h st) (set_nth (ss_r st) j (mkSR (sr_out r) q)) (ss_v st), [ObNum q])
          | SeekCurrent d =>
              if (Z.of_N (sr_pos r) + d <? 0)%Z then Some (st, [ObErrIo 0])
              else let q := N.min (Z.to_N (Z.of_N (sr_pos r) + d)) max_position in
                   Some (mkSS (ss_h st) (set_nth (ss_r st) j (mkSR (sr_out r) q)) (ss_v st), [ObNum q])
          end
      | None => None end
  | OpReaderClone j => match snth (ss_r st) j with Some r => Some (mkSS (ss_h st) (ss_r st ++ [r]) (ss_v st), []) | None => None end
  | OpTXof i n =>
      match snth (ss_h st) i with
      | Some x => if (si_off x =? 0) && (n <=? max_position)
                  then Some (mkSS (ss_h st) (ss_r st ++ [mkSR (sub_out m 0 (si_bytes x)) n]) (ss_v st),
                             [ObXof (stream spec_c64 (sub_out m 0 (si_bytes x)) 0 (N.to_nat n))]) else None
      | None => None end
  | OpTXofReset i n =>
      match snth (ss_h st) i with
      | Some x => if (si_off x =? 0) && (n <=? max_position)
                  then Some (mkSS (set_nth (ss_h st) i (mkSI [] 0)) (ss_r st ++ [mkSR (sub_out m 0 (si_bytes x)) n]) (ss_v st),
                             [ObXof (stream spec_c64 (sub_out m 0 (si_bytes x)) 0 (N.to_nat n))]) else None
      | None => None end
  | OpDbg _ | OpReaderDbg _ | OpZeroHasher _ | OpZeroReader _ => None
  end.

Fixpoint srun (m : mmode) (st : sstate) (ops : list op) : option (list obs) :=
  match ops with
  | [] => Some []
  | o :: tl =>
      match sstep m st o with
      | Some (st', out) => match srun m st' tl with Some rest => Some (out ++ rest) | None => None end
      | None => None
      end
  end.

Definition spec_run_case (m : mmode) (ops : list op) : option (list obs) :=
  srun m (mkSS [mkSI [] 0] [] []) ops.
