(* The portable compression function as TRANSLATED from the source text (gen/GenPortable.v:
   src/portable.rs, src/platform.rs byte/word conversions, c/blake3_portable.c, statement by
   statement, array-indexed) equals the hand-written model Model/Portable.v, for all words.
   Nothing here is tested on particular inputs: states are 16 symbolic words, chaining values 8,
   blocks 64 symbolic bytes. *)
From Coq Require Import NArith List Bool Lia Arith.
From V Require Import Base.Res Base.Word Base.MachInt Base.Arr gen.GenConsts gen.GenFormulas
  gen.GenPortable Model.Portable.
Import ListNotations.
Open Scope N_scope.

(* ---------- destructing lists of known length into named elements ---------- *)
Tactic Notation "destruct_list" ident(l) integer(n) :=
  do n (destruct l as [|? l]; [discriminate|]); destruct l; [|discriminate].

(* ---------- g ---------- *)
(* The source's g works in place on state[a], state[b], state[c], state[d]; the model's g maps
   four words to four words.  Representation: write the model's results back at a, b, c, d. *)
Definition g_in_place (s : list N) (a b c d : nat) (x y : N) : list N :=
  let '(a', b', c', d') := Portable.g (arr_get s a) (arr_get s b) (arr_get s c) (arr_get s d) x y in
  arr_set (arr_set (arr_set (arr_set s a a') b b') c c') d d'.

Definition g_args_ok (s : list N) (a b c d : nat) : Prop :=
  (a < length s)%nat /\ (b < length s)%nat /\ (c < length s)%nat /\ (d < length s)%nat /\
  a <> b /\ a <> c /\ a <> d /\ b <> c /\ b <> d /\ c <> d.

Ltac g_eqbs :=
  match goal with
  | H : g_args_ok _ ?a ?b ?c ?d |- _ =>
      destruct H as (La & Lb & Lc & Ld & Nab & Nac & Nad & Nbc & Nbd & Ncd);
      assert (Eab : Nat.eqb a b = false) by (apply Nat.eqb_neq; assumption);
      assert (Eac : Nat.eqb a c = false) by (apply Nat.eqb_neq; assumption);
      assert (Ead : Nat.eqb a d = false) by (apply Nat.eqb_neq; assumption);
      assert (Ebc : Nat.eqb b c = false) by (apply Nat.eqb_neq; assumption);
      assert (Ebd : Nat.eqb b d = false) by (apply Nat.eqb_neq; assumption);
      assert (Ecd : Nat.eqb c d = false) by (apply Nat.eqb_neq; assumption);
      assert (Eba : Nat.eqb b a = false) by (apply Nat.eqb_neq; auto);
      assert (Eca : Nat.eqb c a = false) by (apply Nat.eqb_neq; auto);
      assert (Eda : Nat.eqb d a = false) by (apply Nat.eqb_neq; auto);
      assert (Ecb : Nat.eqb c b = false) by (apply Nat.eqb_neq; auto);
      assert (Edb : Nat.eqb d b = false) by (apply Nat.eqb_neq; auto);
      assert (Edc : Nat.eqb d c = false) by (apply Nat.eqb_neq; auto)
  end.

Ltac g_simpl_eqb :=
  rewrite ?Nat.eqb_refl;
  repeat match goal with
         | E : Nat.eqb _ _ = false |- _ => rewrite !E
         end.

(* reads of a chain of writes: resolved one (array, index) pair at a time, the comparisons between
   a, b, c, d decided at once *)
Ltac g_reads :=
  repeat (rewrite arr_get_set by (rewrite ?arr_set_length; assumption); g_simpl_eqb).

Lemma g_in_place_get s a b c d x y i : g_args_ok s a b c d ->
  arr_get (g_in_place s a b c d x y) i =
  let '(a', b', c', d') := Portable.g (arr_get s a) (arr_get s b) (arr_get s c) (arr_get s d) x y in
  if Nat.eqb i d then d' else if Nat.eqb i c then c' else if Nat.eqb i b then b' else
  if Nat.eqb i a then a' else arr_get s i.
Proof.
  intros H. g_eqbs. unfold g_in_place, Portable.g. cbv zeta. g_reads. reflexivity.
Qed.

Lemma g_in_place_length s a b c d x y : length (g_in_place s a b c d x y) = length s.
Proof. unfold g_in_place, Portable.g. cbv zeta. rewrite !arr_set_length. reflexivity. Qed.

(* the eight translated statements, in the source's order, against the model *)
Ltac g_statements :=
  cbv zeta; g_reads; unfold Portable.g; cbv zeta;
  repeat match goal with
         | |- context [Nat.eqb ?i ?j] =>
             destruct (Nat.eqb_spec i j) as [->|?]; g_simpl_eqb; try reflexivity
         end.

Lemma rs_g_eq s a b c d x y : g_args_ok s a b c d ->
  rs_g s a b c d x y = g_in_place s a b c d x y.
Proof.
  intros H. apply arr_ext.
  - rewrite g_in_place_length. unfold rs_g. cbv zeta. rewrite !arr_set_length. reflexivity.
  - intros i _. rewrite (g_in_place_get _ _ _ _ _ _ _ i H). g_eqbs. unfold rs_g. g_statements.
Qed.

(* c/blake3_portable.c rotr32, as translated (shift checks included), is the rotation *)
Lemma c_rotr32_ok w c : 0 < c -> c < 32 -> c_rotr32 w c = Ok (rotr32 w c).
Proof.
  intros H0 H1.
  assert (E1 : (c <? 32) = true) by (apply N.ltb_lt; lia).
  assert (E2 : (c <=? 32) = true) by (apply N.leb_le; lia).
  assert (E3 : (32 - c <? 32) = true) by (apply N.ltb_lt; lia).
  unfold c_rotr32, mb, mi_shr, mi_shl, mi_sub, mi_or. cbn [bind].
  rewrite E1, E2. cbn [bind]. rewrite E3. reflexivity.
Qed.

Lemma c_g_eq s a b c d x y : g_args_ok s a b c d ->
  c_g s a b c d x y = g_in_place s a b c d x y.
Proof.
  intros H. apply arr_ext.
  - rewrite g_in_place_length. unfold c_g. cbv zeta. rewrite !arr_set_length. reflexivity.
  - intros i _. rewrite (g_in_place_get _ _ _ _ _ _ _ i H). g_eqbs. unfold c_g.
    rewrite !c_rotr32_ok by lia. unfold res_val. g_statements.
Qed.

(* the same, with the side conditions spelled out (statement pinned in Props/C05.v) *)
Lemma rs_g_model s a b c d x y :
  (a < length s)%nat -> (b < length s)%nat -> (c < length s)%nat -> (d < length s)%nat ->
  a <> b -> a <> c -> a <> d -> b <> c -> b <> d -> c <> d ->
  rs_g s a b c d x y =
  (let '(a', b', c', d') := Portable.g (arr_get s a) (arr_get s b) (arr_get s c) (arr_get s d) x y in
   arr_set (arr_set (arr_set (arr_set s a a') b b') c c') d d').
Proof. intros. apply rs_g_eq. unfold g_args_ok. repeat split; assumption. Qed.

Lemma c_g_model s a b c d x y :
  (a < length s)%nat -> (b < length s)%nat -> (c < length s)%nat -> (d < length s)%nat ->
  a <> b -> a <> c -> a <> d -> b <> c -> b <> d -> c <> d ->
  c_g s a b c d x y =
  (let '(a', b', c', d') := Portable.g (arr_get s a) (arr_get s b) (arr_get s c) (arr_get s d) x y in
   arr_set (arr_set (arr_set (arr_set s a a') b b') c c') d d').
Proof. intros. apply c_g_eq. unfold g_args_ok. repeat split; assumption. Qed.

(* ---------- round ---------- *)
(* each of the eight calls of the translated g is replaced by the model's g written back in place
   (rs_g_eq / c_g_eq: indices inside the 16 words and pairwise distinct), innermost call first *)
Ltac g_ok :=
  unfold g_args_ok; rewrite ?g_in_place_length; cbn [length]; repeat split; lia.

Ltac calls_to_model gf gf_eq :=
  repeat match goal with
         | |- context [gf ?S ?a ?b ?c ?d ?x ?y] =>
             lazymatch S with
             | context [gf] => fail
             | _ => rewrite (gf_eq S a b c d x y) by g_ok
             end
         end.

Lemma rs_round_eq s msg r : length s = 16%nat -> rs_round s msg r = Portable.round s msg r.
Proof.
  intros H. destruct_list s 16. unfold rs_round. cbv zeta.
  calls_to_model rs_g rs_g_eq. reflexivity.
Qed.

Lemma c_round_fn_eq s msg r : length s = 16%nat -> c_round_fn s msg r = Portable.round s msg r.
Proof.
  intros H. destruct_list s 16. unfold c_round_fn. cbv zeta.
  calls_to_model c_g c_g_eq. reflexivity.
Qed.

Lemma portable_round_length s msg r : length s = 16%nat -> length (Portable.round s msg r) = 16%nat.
Proof. intros H. destruct_list s 16. reflexivity. Qed.

(* ---------- byte <-> word conversions ---------- *)
Lemma rs_words_from_le_bytes_64_eq bytes : length bytes = 64%nat ->
  rs_words_from_le_bytes_64 bytes = words_of_bytes bytes.
Proof. intros H. destruct_list bytes 64. reflexivity. Qed.

Lemma rs_le_bytes_from_words_64_eq words : length words = 16%nat ->
  rs_le_bytes_from_words_64 words = bytes_of_words words.
Proof. intros H. destruct_list words 16. reflexivity. Qed.

(* ---------- compress_pre ---------- *)
Lemma seven_rounds (rf : list N -> list N -> nat -> list N) :
  (forall s m r, length s = 16%nat -> rf s m r = Portable.round s m r) ->
  forall s s' m m', s = s' -> m = m' -> length s' = 16%nat ->
  rf (rf (rf (rf (rf (rf (rf s m 0%nat) m 1%nat) m 2%nat) m 3%nat) m 4%nat) m 5%nat) m 6%nat =
  Portable.round (Portable.round (Portable.round (Portable.round (Portable.round (Portable.round
    (Portable.round s' m' 0%nat) m' 1%nat) m' 2%nat) m' 3%nat) m' 4%nat) m' 5%nat) m' 6%nat.
Proof.
  intros Hrf s s' m m' -> -> H.
  rewrite (Hrf s') by assumption.
  rewrite (Hrf (Portable.round s' _ _)) by (repeat apply portable_round_length; assumption).
  rewrite (Hrf (Portable.round (Portable.round s' _ _) _ _)) by (repeat apply portable_round_length; assumption).
  rewrite (Hrf (Portable.round (Portable.round (Portable.round s' _ _) _ _) _ _)) by (repeat apply portable_round_length; assumption).
  rewrite (Hrf (Portable.round (Portable.round (Portable.round (Portable.round s' _ _) _ _) _ _) _ _))
    by (repeat apply portable_round_length; assumption).
  rewrite (Hrf (Portable.round (Portable.round (Portable.round (Portable.round (Portable.round s' _ _) _ _) _ _) _ _) _ _))
    by (repeat apply portable_round_length; assumption).
  rewrite (Hrf (Portable.round (Portable.round (Portable.round (Portable.round (Portable.round (Portable.round s' _ _) _ _) _ _) _ _) _ _) _ _))
    by (repeat apply portable_round_length; assumption).
  reflexivity.
Qed.

Lemma portable_compress_pre_length cv block bl ctr fl : length cv = 8%nat ->
  length (Portable.compress_pre cv block bl ctr fl) = 16%nat.
Proof.
  intros H. unfold Portable.compress_pre. cbv zeta. repeat apply portable_round_length.
  rewrite !app_length, H. reflexivity.
Qed.

Lemma rs_compress_pre_eq cv block bl ctr fl : length cv = 8%nat -> length block = 64%nat ->
  rs_compress_pre cv block bl ctr fl = Portable.compress_pre cv block bl ctr fl.
Proof.
  intros Hcv Hb. unfold rs_compress_pre, Portable.compress_pre. cbv zeta.
  simple apply (seven_rounds rs_round rs_round_eq).
  - destruct_list cv 8. reflexivity.
  - apply rs_words_from_le_bytes_64_eq. exact Hb.
  - rewrite !app_length, Hcv. reflexivity.
Qed.

(* C: `state` is an out-parameter; whatever it held, every element is overwritten *)
Lemma c_compress_pre_eq state cv block bl ctr fl :
  length state = 16%nat -> length cv = 8%nat -> length block = 64%nat ->
  c_compress_pre state cv block bl ctr fl = Portable.compress_pre cv block bl ctr fl.
Proof.
  intros Hs Hcv Hb. unfold c_compress_pre, Portable.compress_pre. cbv zeta.
  simple apply (seven_rounds c_round_fn c_round_fn_eq).
  - destruct_list state 16. destruct_list cv 8. reflexivity.
  - destruct_list block 64. reflexivity.
  - rewrite !app_length, Hcv. reflexivity.
Qed.

(* ---------- feed-forward: compress_in_place, compress_xof ---------- *)
Lemma rs_compress_in_place_eq cv block bl ctr fl : length cv = 8%nat -> length block = 64%nat ->
  rs_compress_in_place cv block bl ctr fl = Portable.compress_in_place cv block bl ctr fl.
Proof.
  intros Hcv Hb. unfold rs_compress_in_place, Portable.compress_in_place. cbv zeta.
  rewrite (rs_compress_pre_eq _ _ _ _ _ Hcv Hb).
  pose proof (portable_compress_pre_length cv block bl ctr fl Hcv) as Hst.
  generalize dependent (Portable.compress_pre cv block bl ctr fl). intros st Hst.
  destruct_list st 16. destruct_list cv 8. reflexivity.
Qed.

(* (the sixteen `state[i] ^= ...` statements each mention `state` three times: the lets are kept,
   not expanded, and evaluated on 16 named words) *)
Lemma rs_compress_xof_eq cv block bl ctr fl : length cv = 8%nat -> length block = 64%nat ->
  rs_compress_xof cv block bl ctr fl = Portable.compress_xof cv block bl ctr fl.
Proof.
  intros Hcv Hb. cbv beta delta [rs_compress_xof Portable.compress_xof].
  rewrite <- (rs_compress_pre_eq _ _ _ _ _ Hcv Hb).
  pose proof (portable_compress_pre_length cv block bl ctr fl Hcv) as Hst.
  rewrite <- (rs_compress_pre_eq _ _ _ _ _ Hcv Hb) in Hst.
  set (st := rs_compress_pre cv block bl ctr fl) in *. clearbody st.
  destruct_list st 16. destruct_list cv 8. reflexivity.
Qed.

Lemma c_compress_in_place_eq cv block bl ctr fl : length cv = 8%nat -> length block = 64%nat ->
  c_blake3_compress_in_place_portable cv block bl ctr fl = Portable.compress_in_place cv block bl ctr fl.
Proof.
  intros Hcv Hb. unfold c_blake3_compress_in_place_portable, Portable.compress_in_place. cbv zeta.
  rewrite (c_compress_pre_eq (repeat 0 16%nat) _ _ _ _ _ eq_refl Hcv Hb).
  pose proof (portable_compress_pre_length cv block bl ctr fl Hcv) as Hst.
  generalize dependent (Portable.compress_pre cv block bl ctr fl). intros st Hst.
  destruct_list st 16. destruct_list cv 8. reflexivity.
Qed.

(* C: the 64 output bytes are stored into the caller's buffer `out` (any previous contents) *)
Lemma c_compress_xof_eq cv block bl ctr fl out :
  length cv = 8%nat -> length block = 64%nat -> length out = 64%nat ->
  c_blake3_compress_xof_portable cv block bl ctr fl out = Portable.compress_xof cv block bl ctr fl.
Proof.
  intros Hcv Hb Ho. unfold c_blake3_compress_xof_portable, Portable.compress_xof. cbv zeta.
  rewrite (c_compress_pre_eq (repeat 0 16%nat) _ _ _ _ _ eq_refl Hcv Hb).
  pose proof (portable_compress_pre_length cv block bl ctr fl Hcv) as Hst.
  generalize dependent (Portable.compress_pre cv block bl ctr fl). intros st Hst.
  destruct_list st 16. destruct_list cv 8. destruct_list out 64. reflexivity.
Qed.
