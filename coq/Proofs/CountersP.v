(* The load_counters* functions as TRANSLATED from the sources (gen/GenCounters.v, terms over
   Model/Intrinsics.v) equal the hand-written models of Model/Kernels.v, hence satisfy the
   counter specification `lc_ok` of Proofs/KernelsP.v:
     lane i = (low 32 bits, high 32 bits) of counter + (if incr then i else 0),
   for every counter with counter + lanes <= 2^64 and both values of incr.
   Nothing here is a finite sweep: the counter is a variable throughout; only the lane count
   (4, 8 or 16, fixed by the register width) is concrete.
     A  scalar conversions
     B  the 64-bit view of a register
     C  C, signed-compare variant    (blake3_sse2.c, blake3_sse41.c, blake3_avx2.c)   = load_counters_cmp
     D  C, andnot variant            (blake3_avx512.c load_counters16)                 = load_counters_andnot
     E  C, 64-bit-lane variant       (blake3_avx512.c load_counters4, load_counters8)  = load_counters_64
     F  Rust                         (rust_sse2.rs, rust_sse41.rs, rust_avx2.rs)       = load_counters_rs
     G  the specification for each *)
From Coq Require Import NArith ZArith List Bool Arith Lia.
From V Require Import Base.Res Base.Word Base.MachInt gen.GenConsts gen.GenFormulas Model.Portable Model.Platform
  Model.Kernels Model.Intrinsics gen.GenCounters Proofs.KernelsP.
Import ListNotations.
Open Scope N_scope.

(* ------------------------------------------------------------------ *)
(* A. scalar conversions                                               *)
(* ------------------------------------------------------------------ *)
Lemma bits32_cast_s32 z : bits32 (cast_s 32 z) = bits32 z.
Proof.
  unfold bits32, cast_s. f_equal.
  change (2 ^ (32 - 1))%Z with 2147483648%Z. change (2 ^ 32)%Z with 4294967296%Z.
  rewrite Zminus_mod_idemp_l. f_equal. lia.
Qed.
Lemma bits32_of_N n : bits32 (Z.of_N n) = w32 n.
Proof.
  unfold bits32. rewrite w32_mod. change 4294967296%Z with (Z.of_N 4294967296).
  rewrite <- N2Z.inj_mod by discriminate. apply N2Z.id.
Qed.
(* (int32_t)counter, `x as i32` *)
Lemma bits32_counter c : bits32 (cast_s 32 (Z.of_N c)) = w32 c.
Proof. rewrite bits32_cast_s32. apply bits32_of_N. Qed.
(* (int32_t)(counter >> 32) *)
Lemma bits32_counter_hi c : bits32 (cast_s 32 (Z.shiftr (Z.of_N c) 32)) = w32 (N.shiftr c 32).
Proof.
  rewrite bits32_cast_s32, Z.shiftr_div_pow2, N.shiftr_div_pow2 by discriminate.
  change (2 ^ 32)%Z with (Z.of_N (2 ^ 32)). rewrite <- N2Z.inj_div. apply bits32_of_N.
Qed.
(* -(int32_t)increment_counter *)
Lemma bits32_neg_bool b : bits32 (Z.opp (Z.b2z b)) = if b then mask32 else 0.
Proof. destruct b; reflexivity. Qed.
Lemma bits64_lt z : bits64 z < 18446744073709551616.
Proof.
  unfold bits64. pose proof (Z.mod_pos_bound z 18446744073709551616 eq_refl). lia.
Qed.
(* (int64_t)counter *)
Lemma bits64_counter c : c < 18446744073709551616 -> bits64 (cast_s 64 (Z.of_N c)) = c.
Proof.
  intros H. unfold bits64, cast_s.
  change (2 ^ (64 - 1))%Z with 9223372036854775808%Z. change (2 ^ 64)%Z with 18446744073709551616%Z.
  rewrite Zminus_mod_idemp_l.
  replace (Z.of_N c + 9223372036854775808 - 9223372036854775808)%Z with (Z.of_N c) by lia.
  rewrite Z.mod_small by lia. apply N2Z.id.
Qed.

(* ------------------------------------------------------------------ *)
(* B. the 64-bit view of a register                                    *)
(* ------------------------------------------------------------------ *)
Definition lanes64 (l : list N) : Prop := Forall (fun x => x < 18446744073709551616) l.

Lemma join_split x : x < 18446744073709551616 -> w32 x + 4294967296 * w32 (N.shiftr x 32) = x.
Proof.
  intros H. rewrite !w32_mod, N.shiftr_div_pow2. change (2 ^ 32) with 4294967296.
  rewrite (N.mod_small (x / 4294967296)) by (apply N.div_lt_upper_bound; [discriminate|exact H]).
  symmetry. rewrite N.add_comm. apply N.div_mod. discriminate.
Qed.
(* writing 64-bit elements and reading them back *)
Lemma to64_of64 l : lanes64 l -> to64 (of64 l) = l.
Proof.
  induction 1 as [|x l Hx _ IH]; [reflexivity|].
  unfold of64. cbn [flat_map app to64]. fold (of64 l). rewrite IH, join_split by exact Hx. reflexivity.
Qed.
Lemma add64_lt a b : add64 a b < 18446744073709551616.
Proof. unfold add64. rewrite N.land_ones. apply N.mod_lt. discriminate. Qed.
Lemma lanes64_add64 a b : lanes64 (vmap2 add64 a b).
Proof.
  unfold lanes64, vmap2. apply Forall_forall. intros x Hx. apply in_map_iff in Hx.
  destruct Hx as (p & <- & _). apply add64_lt.
Qed.
Lemma srl64_le k x : srl64 k x <= x.
Proof.
  unfold srl64. destruct (63 <? k); [apply N.le_0_l|].
  rewrite N.shiftr_div_pow2. apply N.div_le_upper_bound; [apply N.pow_nonzero; discriminate|].
  rewrite <- (N.mul_1_l x) at 1. apply N.mul_le_mono_r.
  assert (0 < 2 ^ k) by (apply N.neq_0_lt_0, N.pow_nonzero; discriminate). lia.
Qed.
Lemma lanes64_srl64 k l : lanes64 l -> lanes64 (map (srl64 k) l).
Proof.
  unfold lanes64. rewrite !Forall_forall. intros H x Hx. apply in_map_iff in Hx. destruct Hx as (y & <- & Hy).
  eapply N.le_lt_trans; [apply srl64_le|apply H, Hy].
Qed.
Lemma lanes64_repeat x n : x < 18446744073709551616 -> lanes64 (repeat x n).
Proof. intros H. apply Forall_forall. intros y Hy. apply repeat_spec in Hy. subst y. exact H. Qed.

Ltac lanes64 :=
  first [ apply lanes64_add64 | apply lanes64_srl64; lanes64 | apply lanes64_repeat; apply bits64_lt ].

(* ------------------------------------------------------------------ *)
(* C. signed-compare variant                                           *)
(* ------------------------------------------------------------------ *)
Theorem c_sse2_load_counters_model counter incr :
  Ok (c_sse2_load_counters counter incr) = load_counters_cmp 4 counter incr.
Proof.
  unfold c_sse2_load_counters, load_counters_cmp. cbv zeta.
  unfold mm_set1_epi32, mm_set_epi32, mm_and_si128, mm_add_epi32, mm_cmpgt_epi32, mm_xor_si128, mm_sub_epi32.
  rewrite bits32_counter, bits32_counter_hi, bits32_neg_bool. reflexivity.
Qed.
Theorem c_sse41_load_counters_model counter incr :
  Ok (c_sse41_load_counters counter incr) = load_counters_cmp 4 counter incr.
Proof.
  unfold c_sse41_load_counters, load_counters_cmp. cbv zeta.
  unfold mm_set1_epi32, mm_set_epi32, mm_and_si128, mm_add_epi32, mm_cmpgt_epi32, mm_xor_si128, mm_sub_epi32.
  rewrite bits32_counter, bits32_counter_hi, bits32_neg_bool. reflexivity.
Qed.
Theorem c_avx2_load_counters_model counter incr :
  Ok (c_avx2_load_counters counter incr) = load_counters_cmp 8 counter incr.
Proof.
  unfold c_avx2_load_counters, load_counters_cmp. cbv zeta.
  unfold mm256_set1_epi32, mm256_set_epi32, mm256_and_si256, mm256_add_epi32, mm256_cmpgt_epi32,
    mm256_xor_si256, mm256_sub_epi32.
  rewrite bits32_counter, bits32_counter_hi, bits32_neg_bool. reflexivity.
Qed.

(* ------------------------------------------------------------------ *)
(* D. andnot variant                                                   *)
(* ------------------------------------------------------------------ *)
Theorem c_avx512_load_counters16_model counter incr :
  Ok (c_avx512_load_counters16 counter incr) = load_counters_andnot 16 counter incr.
Proof.
  unfold c_avx512_load_counters16, load_counters_andnot. cbv zeta.
  unfold mm512_set1_epi32, mm512_set_epi32, mm512_and_si512, mm512_add_epi32, mm512_andnot_si512, mm512_srli_epi32.
  rewrite bits32_counter, bits32_counter_hi, bits32_neg_bool. reflexivity.
Qed.

(* ------------------------------------------------------------------ *)
(* E. 64-bit-lane variant                                              *)
(* ------------------------------------------------------------------ *)
Theorem c_avx512_load_counters4_model counter incr : counter < 2 ^ 64 ->
  Ok (c_avx512_load_counters4 counter incr) = load_counters_64 4 counter incr.
Proof.
  intros Hc. change (2 ^ 64) with 18446744073709551616 in Hc.
  unfold c_avx512_load_counters4. cbv zeta.
  (* the masked deltas do not depend on the counter *)
  set (d := mm256_and_si256 _ _).
  assert (E : d = of64 (map (fun i => N.land (if incr then N.ones 64 else 0) i) (lane_ids 4)))
    by (subst d; destruct incr; vm_compute; reflexivity).
  rewrite E. clear d E.
  unfold mm256_cvtepi64_epi32, mm256_srli_epi64, mm256_add_epi64, mm256_set1_epi64x.
  rewrite (to64_of64 (repeat _ _)) by lanes64.
  rewrite (to64_of64 (map _ (lane_ids 4))) by (destruct incr; repeat constructor).
  rewrite (to64_of64 (vmap2 _ _ _)) by lanes64.
  rewrite (to64_of64 (map _ (vmap2 _ _ _))) by lanes64.
  rewrite bits64_counter by exact Hc. rewrite map_map.
  reflexivity.
Qed.
Theorem c_avx512_load_counters8_model counter incr : counter < 2 ^ 64 ->
  Ok (c_avx512_load_counters8 counter incr) = load_counters_64 8 counter incr.
Proof.
  intros Hc. change (2 ^ 64) with 18446744073709551616 in Hc.
  unfold c_avx512_load_counters8. cbv zeta.
  set (d := mm512_and_si512 _ _).
  assert (E : d = of64 (map (fun i => N.land (if incr then N.ones 64 else 0) i) (lane_ids 8)))
    by (subst d; destruct incr; vm_compute; reflexivity).
  rewrite E. clear d E.
  unfold mm512_cvtepi64_epi32, mm512_srli_epi64, mm512_add_epi64, mm512_set1_epi64.
  rewrite (to64_of64 (repeat _ _)) by lanes64.
  rewrite (to64_of64 (map _ (lane_ids 8))) by (destruct incr; repeat constructor).
  rewrite (to64_of64 (vmap2 _ _ _)) by lanes64.
  rewrite (to64_of64 (map _ (vmap2 _ _ _))) by lanes64.
  rewrite bits64_counter by exact Hc. rewrite map_map.
  reflexivity.
Qed.

(* ------------------------------------------------------------------ *)
(* F. Rust: equal to the model INCLUDING the debug-build overflow panic *)
(* ------------------------------------------------------------------ *)
Lemma rs_counter_low_ok c : rs_counter_low c = Ok (ctr_lo c).
Proof. reflexivity. Qed.
Lemma rs_counter_high_ok c : rs_counter_high c = Ok (ctr_hi c).
Proof. reflexivity. Qed.
Lemma w32_ctr_lo c : w32 (ctr_lo c) = ctr_lo c.
Proof. rewrite ctr_lo_mod, w32_mod. apply N.mod_mod. discriminate. Qed.
Lemma w32_ctr_hi c : w32 (ctr_hi c) = ctr_hi c.
Proof. rewrite ctr_hi_mod, w32_mod. apply N.mod_mod. discriminate. Qed.

(* one lane: whatever `counter + (mask & i)` evaluates to, both sides continue alike *)
Ltac rs_lane :=
  match goal with
  | |- context [bind (mi_add 64 ?c ?d) _] =>
      destruct (mi_add 64 c d); cbn [bind]; [ | reflexivity | reflexivity ]
  end.

Theorem rs_sse2_load_counters_model counter incr :
  rs_sse2_load_counters counter incr = load_counters_rs 4 counter incr.
Proof.
  unfold rs_sse2_load_counters, load_counters_rs, rs_sse2_set4, mm_setr_epi32. cbv zeta.
  change (N.lnot 0 64) with (N.ones 64). change (lane_ids 4) with [0; 1; 2; 3].
  set (mask := if incr then N.ones 64 else 0).
  cbn [res_map mb mu bind mi_and].
  repeat rs_lane. unfold mu. cbn [bind].
  rewrite !rs_counter_low_ok, !rs_counter_high_ok. cbn [bind map].
  rewrite !bits32_counter, !w32_ctr_lo, !w32_ctr_hi. reflexivity.
Qed.
Theorem rs_sse41_load_counters_model counter incr :
  rs_sse41_load_counters counter incr = load_counters_rs 4 counter incr.
Proof.
  unfold rs_sse41_load_counters, load_counters_rs, rs_sse41_set4, mm_setr_epi32. cbv zeta.
  change (N.lnot 0 64) with (N.ones 64). change (lane_ids 4) with [0; 1; 2; 3].
  set (mask := if incr then N.ones 64 else 0).
  cbn [res_map mb mu bind mi_and].
  repeat rs_lane. unfold mu. cbn [bind].
  rewrite !rs_counter_low_ok, !rs_counter_high_ok. cbn [bind map].
  rewrite !bits32_counter, !w32_ctr_lo, !w32_ctr_hi. reflexivity.
Qed.
Theorem rs_avx2_load_counters_model counter incr :
  rs_avx2_load_counters counter incr = load_counters_rs 8 counter incr.
Proof.
  unfold rs_avx2_load_counters, load_counters_rs, rs_avx2_set8, mm256_setr_epi32. cbv zeta.
  change (N.lnot 0 64) with (N.ones 64). change (lane_ids 8) with [0; 1; 2; 3; 4; 5; 6; 7].
  set (mask := if incr then N.ones 64 else 0).
  cbn [res_map mb mu bind mi_and].
  repeat rs_lane. unfold mu. cbn [bind].
  rewrite !rs_counter_low_ok, !rs_counter_high_ok. cbn [bind map].
  rewrite !bits32_counter, !w32_ctr_lo, !w32_ctr_hi. reflexivity.
Qed.

(* ------------------------------------------------------------------ *)
(* G. the specification, for each translated function                  *)
(* ------------------------------------------------------------------ *)
Lemma lc_ok_ext n (f g : N -> bool -> res (vec * vec)) : (0 < n)%nat ->
  (forall counter incr, counter < 2 ^ 64 -> f counter incr = g counter incr) -> lc_ok n g -> lc_ok n f.
Proof.
  intros Hn E H counter incr Hc. rewrite E; [exact (H counter incr Hc)|].
  change (2 ^ 64) with 18446744073709551616 in *. lia.
Qed.

Theorem c_sse2_load_counters_ok : lc_ok 4 (fun c i => Ok (c_sse2_load_counters c i)).
Proof.
  apply (lc_ok_ext 4 _ (load_counters_cmp 4)); [lia|intros; apply c_sse2_load_counters_model|].
  apply load_counters_cmp_ok. cbn. lia.
Qed.
Theorem c_sse41_load_counters_ok : lc_ok 4 (fun c i => Ok (c_sse41_load_counters c i)).
Proof.
  apply (lc_ok_ext 4 _ (load_counters_cmp 4)); [lia|intros; apply c_sse41_load_counters_model|].
  apply load_counters_cmp_ok. cbn. lia.
Qed.
Theorem c_avx2_load_counters_ok : lc_ok 8 (fun c i => Ok (c_avx2_load_counters c i)).
Proof.
  apply (lc_ok_ext 8 _ (load_counters_cmp 8)); [lia|intros; apply c_avx2_load_counters_model|].
  apply load_counters_cmp_ok. cbn. lia.
Qed.
Theorem c_avx512_load_counters4_ok : lc_ok 4 (fun c i => Ok (c_avx512_load_counters4 c i)).
Proof.
  apply (lc_ok_ext 4 _ (load_counters_64 4)); [lia|intros; apply c_avx512_load_counters4_model; assumption|].
  apply load_counters_64_ok.
Qed.
Theorem c_avx512_load_counters8_ok : lc_ok 8 (fun c i => Ok (c_avx512_load_counters8 c i)).
Proof.
  apply (lc_ok_ext 8 _ (load_counters_64 8)); [lia|intros; apply c_avx512_load_counters8_model; assumption|].
  apply load_counters_64_ok.
Qed.
Theorem c_avx512_load_counters16_ok : lc_ok 16 (fun c i => Ok (c_avx512_load_counters16 c i)).
Proof.
  apply (lc_ok_ext 16 _ (load_counters_andnot 16)); [lia|intros; apply c_avx512_load_counters16_model|].
  apply load_counters_andnot_ok. cbn. lia.
Qed.
Theorem rs_sse2_load_counters_ok : lc_ok 4 rs_sse2_load_counters.
Proof.
  apply (lc_ok_ext 4 _ (load_counters_rs 4)); [lia|intros; apply rs_sse2_load_counters_model|].
  apply load_counters_rs_ok.
Qed.
Theorem rs_sse41_load_counters_ok : lc_ok 4 rs_sse41_load_counters.
Proof.
  apply (lc_ok_ext 4 _ (load_counters_rs 4)); [lia|intros; apply rs_sse41_load_counters_model|].
  apply load_counters_rs_ok.
Qed.
Theorem rs_avx2_load_counters_ok : lc_ok 8 rs_avx2_load_counters.
Proof.
  apply (lc_ok_ext 8 _ (load_counters_rs 8)); [lia|intros; apply rs_avx2_load_counters_model|].
  apply load_counters_rs_ok.
Qed.
