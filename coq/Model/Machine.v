(* The multi-instance machine run by the correspondence check: the same case
   language as harness/rs (see tools/caselang.md), interpreted over the models. *)
From Coq Require Import NArith ZArith List Bool.
From V Require Import Base.Res Base.Word Base.MachInt gen.GenConsts gen.GenFormulas
  Spec.Tree Model.Portable Model.Platform Model.RsChunk Model.RsWide Model.RsHasher Model.RsXof Model.RsIo Model.RsDebug.
Import ListNotations.
Open Scope N_scope.

Inductive mmode :=
| MHash
| MKeyed (key : list N)
| MDerive (context : list N)       (* Hasher::new_derive_key *)
| MDeriveK (context : list N).     (* hash_derive_key_context + new_from_context_key *)

Inductive vref := VLit (cv : list N) | VRef (k : nat).

Inductive op :=
| OpNew
| OpUpdate (i : nat) (b : list N)
| OpWrite (i : nat) (b : list N)
| OpUpdateReader (i : nat) (data : list N) (script : list read_item)
| OpFinalize (i : nat)
| OpXof (i : nat) (n : N)
| OpCount (i : nat)
| OpClone (i : nat)
| OpReset (i : nat)
| OpSetOffset (i : nat) (off : N)
| OpNonRoot (i : nat)
| OpOneShot (b : list N)
| OpMergeNonRoot (l r : vref)
| OpMergeRoot (l r : vref)
| OpMergeXof (l r : vref)
| OpContextKey (ctx : list N)
| OpReaderNew (i : nat)
| OpFill (j : nat) (n : N)
| OpRead (j : nat) (n : N)
| OpPos (j : nat)
| OpSetPos (j : nat) (pos : N)
| OpSeek (j : nat) (s : seek_from)
| OpReaderClone (j : nat)
(* RustCrypto traits (src/traits.rs): each delegates to the inherent methods *)
| OpTUpdate (i : nat) (b : list N)
| OpTReset (i : nat)
| OpTFinalize (i : nat)
| OpTFinalizeReset (i : nat)
| OpTXof (i : nat) (n : N)
| OpTXofReset (i : nat) (n : N)
| OpTKeyInit
| OpTDigestNew
(* Debug / Zeroize *)
| OpDbg (i : nat)
| OpReaderDbg (j : nat)
| OpZeroHasher (i : nat)
| OpZeroReader (j : nat).

Inductive obs :=
| ObHex (b : list N)          (* a hash / cv *)
| ObXof (b : list N)          (* extended output bytes *)
| ObNum (n : N)
| ObRead (n : N) (b : list N)
| ObOk
| ObErrIo (kind : N)
| ObStr (s : list N)          (* a Debug string *)
| ObZeroed (all_zero : bool). (* every non-platform field is zero *)         (* 0 = InvalidInput, otherwise the scripted kind *)

Record mstate := mkState {
  st_hashers : list hasher;
  st_readers : list reader;
  st_vals : list (list N) }.

(* key words and flags of the hashers of a mode *)
Definition mode_init (p : platform) (m : mmode) : res (list N * N) :=
  match m with
  | MHash => Ok (rs_IV, 0)
  | MKeyed k => Ok (words_of_bytes k, rs_flag_KEYED_HASH)
  | MDerive c | MDeriveK c =>
      ck <- rs_hash_derive_key_context p c ;;
      Ok (words_of_bytes ck, rs_flag_DERIVE_KEY_MATERIAL)
  end.

Definition one_shot (p : platform) (m : mmode) (input : list N) : res (list N) :=
  match m with
  | MHash => rs_hash p input
  | MKeyed k => rs_keyed_hash p k input
  | MDerive c | MDeriveK c => rs_derive_key p c input
  end.

Definition get {A} (l : list A) (i : nat) : res A :=
  match nth_error l i with Some x => Ok x | None => Panic 900 end.   (* harness error, not a model of the code *)

Fixpoint set_nth {A} (l : list A) (i : nat) (x : A) : list A :=
  match l, i with
  | [], _ => []
  | _ :: tl, O => x :: tl
  | y :: tl, S i' => y :: set_nth tl i' x
  end.

Definition val_of (st : mstate) (v : vref) : res (list N) :=
  match v with VLit cv => Ok cv | VRef k => get (st_vals st) k end.

Definition set_hasher (st : mstate) (i : nat) (h : hasher) : mstate :=
  mkState (set_nth (st_hashers st) i h) (st_readers st) (st_vals st).
Definition set_reader (st : mstate) (j : nat) (r : reader) : mstate :=
  mkState (st_hashers st) (set_nth (st_readers st) j r) (st_vals st).
Definition add_hasher (st : mstate) (h : hasher) : mstate :=
  mkState (st_hashers st ++ [h]) (st_readers st) (st_vals st).
Definition add_reader (st : mstate) (r : reader) : mstate :=
  mkState (st_hashers st) (st_readers st ++ [r]) (st_vals st).
Definition add_val (st : mstate) (v : list N) : mstate :=
  mkState (st_hashers st) (st_readers st) (st_vals st ++ [v]).

Definition all_zero (l : list N) : bool := forallb (fun x => x =? 0) l.
Definition hasher_is_zero (h : hasher) : bool :=
  all_zero (h_key h) && all_zero (cs_cv (h_cs h)) && (cs_ctr (h_cs h) =? 0) && all_zero (cs_buf (h_cs h)) &&
  (cs_buf_len (h_cs h) =? 0) && (cs_blocks (h_cs h) =? 0) && (cs_flags (h_cs h) =? 0) && (h_init h =? 0) &&
  match h_stack h with [] => true | _ => false end.
Definition reader_is_zero (r : reader) : bool :=
  all_zero (o_cv (r_out r)) && all_zero (o_block (r_out r)) && (o_blen (r_out r) =? 0) && (o_ctr (r_out r) =? 0) &&
  (o_flags (r_out r) =? 0) && (r_pwb r =? 0).

Definition step (p : platform) (pname : list N) (m : mmode) (key : list N) (flags : N) (st : mstate) (o : op)
  : res (mstate * list obs) :=
  match o with
  | OpNew => Ok (add_hasher st (new_internal key flags), [])
  | OpUpdate i b | OpTUpdate i b =>
      h <- get (st_hashers st) i ;; h' <- hasher_update p h b ;; Ok (set_hasher st i h', [])
  | OpWrite i b =>
      h <- get (st_hashers st) i ;; '(h', n) <- hasher_write p h b ;; Ok (set_hasher st i h', [ObNum n])
  | OpUpdateReader i data script =>
      h <- get (st_hashers st) i ;;
      '(h', r) <- update_reader p h data script ;;
      Ok (set_hasher st i h', [match r with CopyOk _ => ObOk | CopyErr k => ObErrIo k end])
  | OpFinalize i | OpTFinalize i =>
      h <- get (st_hashers st) i ;; d <- hasher_finalize p h ;; Ok (st, [ObHex d])
  | OpTFinalizeReset i =>
      h <- get (st_hashers st) i ;; d <- hasher_finalize p h ;;
      Ok (set_hasher st i (hasher_reset h), [ObHex d])
  | OpXof i n =>
      h <- get (st_hashers st) i ;; o <- hasher_finalize_output p h ;;
      '(_, bs) <- reader_fill p (reader_new o) n ;; Ok (st, [ObXof bs])
  | OpTXof i n =>
      h <- get (st_hashers st) i ;; o <- hasher_finalize_output p h ;;
      '(r, bs) <- reader_fill p (reader_new o) n ;; Ok (add_reader st r, [ObXof bs])
  | OpTXofReset i n =>
      h <- get (st_hashers st) i ;; o <- hasher_finalize_output p h ;;
      '(r, bs) <- reader_fill p (reader_new o) n ;;
      Ok (add_reader (set_hasher st i (hasher_reset h)) r, [ObXof bs])
  | OpCount i => h <- get (st_hashers st) i ;; c <- hasher_count h ;; Ok (st, [ObNum c])
  | OpClone i => h <- get (st_hashers st) i ;; Ok (add_hasher st h, [])
  | OpReset i | OpTReset i => h <- get (st_hashers st) i ;; Ok (set_hasher st i (hasher_reset h), [])
  | OpSetOffset i off =>
      h <- get (st_hashers st) i ;; h' <- set_input_offset h off ;; Ok (set_hasher st i h', [])
  | OpNonRoot i =>
      h <- get (st_hashers st) i ;; cv <- finalize_non_root p h ;; Ok (add_val st cv, [ObHex cv])
  | OpOneShot b => d <- one_shot p m b ;; Ok (st, [ObHex d])
  | OpMergeNonRoot l r =>
      lv <- val_of st l ;; rv <- val_of st r ;;
      let cv := merge_subtrees_non_root p key flags lv rv in Ok (add_val st cv, [ObHex cv])
  | OpMergeRoot l r =>
      lv <- val_of st l ;; rv <- val_of st r ;;
      d <- merge_subtrees_root p key flags lv rv ;; Ok (st, [ObHex d])
  | OpMergeXof l r =>
      lv <- val_of st l ;; rv <- val_of st r ;;
      Ok (add_reader st (reader_new (merge_subtrees_inner key flags lv rv)), [])
  | OpContextKey ctx =>
      ck <- rs_hash_derive_key_context p ctx ;; Ok (add_val st ck, [ObHex ck])
  | OpReaderNew i =>
      h <- get (st_hashers st) i ;; o <- hasher_finalize_output p h ;; Ok (add_reader st (reader_new o), [])
  | OpFill j n =>
      r <- get (st_readers st) j ;; '(r', bs) <- reader_fill p r n ;; Ok (set_reader st j r', [ObXof bs])
  | OpRead j n =>
      r <- get (st_readers st) j ;; '(r', bs) <- reader_fill p r n ;; Ok (set_reader st j r', [ObRead n bs])
  | OpPos j => r <- get (st_readers st) j ;; q <- reader_position r ;; Ok (st, [ObNum q])
  | OpSetPos j pos =>
      r <- get (st_readers st) j ;; r' <- reader_set_position r pos ;; Ok (set_reader st j r', [])
  | OpSeek j s =>
      r <- get (st_readers st) j ;; '(r', res) <- reader_seek r s ;;
      Ok (set_reader st j r', [match res with Some q => ObNum q | None => ObErrIo 0 end])
  | OpReaderClone j => r <- get (st_readers st) j ;; Ok (add_reader st r, [])
  | OpTKeyInit =>
      match m with
      | MKeyed k => Ok (add_hasher st (new_internal (words_of_bytes k) rs_flag_KEYED_HASH), [])
      | _ => Panic 901
      end
  | OpTDigestNew => Ok (add_hasher st (new_internal rs_IV 0), [])
  | OpDbg i => h <- get (st_hashers st) i ;; Ok (st, [ObStr (debug_hasher h pname)])
  | OpReaderDbg j => r <- get (st_readers st) j ;; s <- debug_reader r ;; Ok (st, [ObStr s])
  | OpZeroHasher i =>
      h <- get (st_hashers st) i ;; let h' := zero_hasher h in
      Ok (set_hasher st i h', [ObZeroed (hasher_is_zero h')])
  | OpZeroReader j =>
      r <- get (st_readers st) j ;; let r' := zero_reader r in
      Ok (set_reader st j r', [ObZeroed (reader_is_zero r')])
  end.

Fixpoint run_ops (p : platform) (pname : list N) (m : mmode) (key : list N) (flags : N) (st : mstate) (ops : list op)
         (acc : list obs) : list obs * res unit :=
  match ops with
  | [] => (rev acc, Ok tt)
  | o :: tl =>
      match step p pname m key flags st o with
      | Ok (st', out) => run_ops p pname m key flags st' tl (rev out ++ acc)
      | Panic c => (rev acc, Panic c)
      | OutOfFuel => (rev acc, OutOfFuel)
      end
  end.

(* a case: mode, then instance 0 is created, then the ops *)
Definition run_case (p : platform) (pname : list N) (m : mmode) (ops : list op) : list obs * res unit :=
  match mode_init p m with
  | Ok (key, flags) => run_ops p pname m key flags (mkState [new_internal key flags] [] []) ops []
  | Panic c => ([], Panic c)
  | OutOfFuel => ([], OutOfFuel)
  end.
