#!/bin/bash
# Apply a seeded change to /repo, run the given checks at the quick tier, undo the change.
#   tools/seed_run.sh <name> <property-id>...      (results: /verif/seeded/<name>/detect_<id>.log)
set -u
name=$1; shift
S=/verif/seeded/$name
cd /verif
if [ -n "$(git -C /repo status --porcelain)" ]; then echo "/repo is not clean"; exit 2; fi
git -C /repo apply $S/patch.diff || exit 2
for id in "$@"; do
  tier=${TIER:-quick}
  ./check $id $tier > $S/${OUT_PREFIX:-detect}_$id.log 2>&1; rc=$?
  echo "== seed $name check $id $tier: rc=$rc"; grep -E "^VIOLATION|^KNOWN-FINDING|^BROKEN|CHECK-ERROR" $S/${OUT_PREFIX:-detect}_$id.log | cut -c1-260
done
git -C /repo checkout -- .
# the generated Coq and the caches must describe the unchanged tree again
python3 tools/gen_coq.py >/dev/null 2>&1
git -C /verif checkout -- evidence 2>/dev/null
