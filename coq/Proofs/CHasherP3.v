(* C06, part D: the lazily merged in-place CV stack; updates refine the absorbed message (see Proofs/CHasherP.v). *)
From V Require Import Proofs.ListP.
From V Require Import Base.Res Base.Word Base.MachInt gen.GenConsts gen.GenFormulas
  Spec.Compress Spec.Tree Spec.Blake3 Model.Portable Model.Platform Model.RsChunk Model.RsWide Model.RsXof Model.CHasher
  Proofs.PortableP Proofs.ChunkP Proofs.TreeP Proofs.FormulasP Proofs.WideP Proofs.C01P Proofs.XofP
  Proofs.StackArithP Proofs.CFormulasP Proofs.CHasherP Proofs.CHasherP2.
Open Scope N_scope.

(* ================================ Part D ================================================ *)
(* ---- arrays ---------------------------------------------------------------------------- *)
Lemma firstn_upd_nth_ge {A} (x : A) : forall st n i, (n <= i)%nat -> firstn n (upd_nth i x st) = firstn n st.
Proof.
  induction st as [|y st IH]; intros n i H; [destruct i; reflexivity|].
  destruct n as [|n]; [reflexivity|]. destruct i as [|i]; [lia|].
  cbn [upd_nth]. rewrite !firstn_cons. rewrite IH by lia. reflexivity.
Qed.

Lemma firstn_upd_nth_snoc {A} (x : A) : forall st i, (i < length st)%nat ->
  firstn (S i) (upd_nth i x st) = firstn i st ++ [x].
Proof.
  induction st as [|y st IH]; intros i H; [cbn in H; lia|].
  destruct i as [|i]; [reflexivity|]. cbn [upd_nth]. rewrite !firstn_cons. cbn [app].
  rewrite IH by (cbn [length] in H; lia). reflexivity.
Qed.

Lemma nth_firstn_lt {A} (d : A) : forall l n i, (i < n)%nat -> nth i (firstn n l) d = nth i l d.
Proof.
  induction l as [|y l IH]; intros n i H; [rewrite firstn_nil; reflexivity|].
  destruct n as [|n]; [lia|]. destruct i as [|i]; [reflexivity|]. cbn [firstn nth]. apply IH. lia.
Qed.

Lemma firstn_app_prefix {A} (l1 l2 st : list A) :
  firstn (length (l1 ++ l2)) st = l1 ++ l2 -> firstn (length l1) st = l1.
Proof.
  intros H.
  assert (E : firstn (length l1) (firstn (length (l1 ++ l2)) st) = firstn (length l1) st).
  { rewrite firstn_firstn. f_equal. rewrite app_length. lia. }
  rewrite <- E, H. rewrite firstn_app, Nat.sub_diag, firstn_all. cbn [firstn]. apply app_nil_r.
Qed.

(* ---- the shrink loop ------------------------------------------------------------------------ *)
Lemma shrink_cond_pow2 j c : j < 64 -> c < 2 ^ 64 ->
  c_shrink_cond (2 ^ j) c = Ok (negb (c mod 2 ^ j =? 0)).
Proof.
  intros Hj Hc. unfold c_shrink_cond, mcmp, mb, mu, mi_sub, mi_cast, mi_and. cbn [bind].
  pose proof (pow2_pos j) as Hp. replace (1 <=? 2 ^ j) with true by lia. cbn [bind].
  assert (Hlt : 2 ^ j < 2 ^ 64) by (apply N.pow_lt_mono_r; lia).
  rewrite N.land_ones. rewrite (N.mod_small (2 ^ j - 1)) by lia.
  replace (2 ^ j - 1) with (N.ones j) by (rewrite N.ones_equiv; lia).
  rewrite N.land_comm, N.land_ones. reflexivity.
Qed.

Lemma c_shrink_loop_spec c : c < 2 ^ 64 -> c mod 1024 = 0 -> forall fuel j,
  10 <= j -> j < 64 -> (N.to_nat (j - 10) < fuel)%nat ->
  exists j', c_shrink_loop fuel (2 ^ j) c = Ok (2 ^ j') /\ 10 <= j' <= j /\ c mod 2 ^ j' = 0.
Proof.
  intros Hc Hm. induction fuel as [|fuel IH]; intros j H10 H64 Hf; [lia|].
  cbn [c_shrink_loop]. rewrite shrink_cond_pow2 by assumption. cbn [bind].
  destruct (c mod 2 ^ j =? 0) eqn:E; cbn [negb].
  - exists j. split; [reflexivity|]. split; lia.
  - assert (Hj : 10 < j).
    { destruct (N.eq_dec j 10) as [->|]; [change (2 ^ 10) with 1024 in E; lia|lia]. }
    replace (2 ^ j / 2) with (2 ^ (j - 1)).
    2:{ replace j with (N.succ (j - 1)) at 2 by lia. rewrite N.pow_succ_r'.
        rewrite N.mul_comm, N.div_mul by lia. reflexivity. }
    destruct (IH (j - 1)) as (j' & Hr & Hj' & Hd); try lia.
    exists j'. split; [exact Hr|]. split; lia.
Qed.

(* ---- the tree shape of a full left part -------------------------------------------------------- *)
Lemma left_len_pow2 a n : 1024 * 2 ^ a < n <= 1024 * 2 ^ (a + 1) -> left_len n = 1024 * 2 ^ a.
Proof.
  intros H. destruct (left_len_spec n) as (a' & Hl & H1 & H2).
  { pose proof (pow2_pos a). lia. }
  rewrite Hl. assert (E : 10 + a' = 10 + a); [|f_equal; f_equal; lia].
  apply (pow2_unique (10 + a') (10 + a) n).
  - replace (10 + a' + 1) with (10 + (a' + 1)) by lia.
    rewrite (N.pow_add_r 2 10 a'), (N.pow_add_r 2 10 (a' + 1)). change (2 ^ 10) with 1024. lia.
  - replace (10 + a + 1) with (10 + (a + 1)) by lia.
    rewrite (N.pow_add_r 2 10 a), (N.pow_add_r 2 10 (a + 1)). change (2 ^ 10) with 1024. lia.
Qed.

Definition sp (ctr : N) (bytes : list N) : tree := spec_tree wide_fuel ctr bytes.

Lemma spec_tree_S h ctr bytes :
  spec_tree (S h) ctr bytes =
  if len bytes <=? 1024 then Leaf ctr bytes
  else let l := left_len (len bytes) in
       Node (spec_tree h ctr (take l bytes)) (spec_tree h (ctr + l / 1024) (drop l bytes)).
Proof. reflexivity. Qed.

Lemma spec_tree_63 ctr b : len b < 2 ^ 64 -> spec_tree 63 ctr b = sp ctr b.
Proof.
  intros H. unfold sp. rewrite two64 in H. apply spec_tree_fuel.
  - change (N.of_nat 63) with 63. change (2 ^ 63) with 9223372036854775808. lia.
  - change (N.of_nat wide_fuel) with 64. change (2 ^ 64) with 18446744073709551616. lia.
Qed.

Lemma sp_unfold ctr bytes :
  sp ctr bytes =
  if len bytes <=? 1024 then Leaf ctr bytes
  else let l := left_len (len bytes) in
       Node (spec_tree 63 ctr (take l bytes)) (spec_tree 63 (ctr + l / 1024) (drop l bytes)).
Proof. unfold sp. change wide_fuel with (S 63). apply spec_tree_S. Qed.

Lemma sp_node ctr A R a :
  len A = 1024 * 2 ^ a -> 0 < len R <= 1024 * 2 ^ a -> len (A ++ R) < 2 ^ 64 ->
  sp ctr (A ++ R) = Node (sp ctr A) (sp (ctr + 2 ^ a) R).
Proof.
  intros HA HR H64. rewrite sp_unfold. cbn zeta.
  pose proof (pow2_pos a) as Hp. rewrite len_app in *.
  replace (len A + len R <=? 1024) with false by lia.
  rewrite (left_len_pow2 a) by (rewrite N.add_1_r, N.pow_succ_r'; lia).
  rewrite <- HA. rewrite take_app_le, take_all, drop_app_ge, N.sub_diag, drop_0 by lia.
  rewrite HA. replace (1024 * 2 ^ a / 1024) with (2 ^ a) by (rewrite N.mul_comm, N.div_mul; lia).
  rewrite (spec_tree_63 ctr A) by lia. rewrite (spec_tree_63 (ctr + 2 ^ a) R) by lia. reflexivity.
Qed.

Lemma sp_leaf ctr bytes : len bytes <= 1024 -> sp ctr bytes = Leaf ctr bytes.
Proof. intros H. rewrite sp_unfold. replace (len bytes <=? 1024) with true by lia. reflexivity. Qed.

(* ---- the abstract stack: (exponent, tree) per entry, bottom first ------------------------------- *)
Fixpoint Segs (ctr : N) (l : list (N * tree)) (bytes : list N) : Prop :=
  match l with
  | [] => bytes = []
  | (e, t) :: tl =>
      1024 * 2 ^ e <= len bytes /\ t = sp ctr (take (1024 * 2 ^ e) bytes) /\
      Segs (ctr + 2 ^ e) tl (drop (1024 * 2 ^ e) bytes)
  end.

Definition exps (l : list (N * tree)) : list N := map fst l.

Lemma Segs_len : forall l ctr bytes, Segs ctr l bytes -> len bytes = 1024 * sum2 (exps l).
Proof.
  induction l as [|[e t] l IH]; intros ctr bytes H; cbn [Segs exps map sum2 fst] in *.
  - subst. reflexivity.
  - destruct H as (H1 & _ & H3). apply IH in H3. rewrite len_drop in H3. unfold exps in H3. lia.
Qed.

Lemma Segs_snoc : forall l ctr bytes e seg,
  Segs ctr l bytes -> len seg = 1024 * 2 ^ e ->
  Segs ctr (l ++ [(e, sp (ctr + sum2 (exps l)) seg)]) (bytes ++ seg).
Proof.
  induction l as [|[e0 t0] l IH]; intros ctr bytes e seg H Hs; cbn [Segs app exps map sum2 fst] in *.
  - subst. cbn [app]. rewrite N.add_0_r. rewrite take_all by lia. rewrite drop_all by lia. repeat split; lia.
  - destruct H as (H1 & H2 & H3). split; [rewrite len_app; lia|]. split.
    + rewrite take_app_le by lia. exact H2.
    + rewrite drop_app_le by lia. replace (ctr + (2 ^ e0 + sum2 (map fst l))) with (ctr + 2 ^ e0 + sum2 (exps l)) by (unfold exps; lia).
      apply IH; assumption.
Qed.

Lemma Segs_merge : forall pre ctr bytes a t1 t2, len bytes < 2 ^ 64 ->
  Segs ctr (pre ++ [(a, t1); (a, t2)]) bytes -> Segs ctr (pre ++ [(a + 1, Node t1 t2)]) bytes.
Proof.
  induction pre as [|[e0 t0] pre IH]; intros ctr bytes a t1 t2 H64 H; cbn [Segs app] in *.
  - destruct H as (H1 & H2 & H3 & H4 & H5). rewrite len_drop in H3.
    assert (Hl : len bytes = 1024 * 2 ^ a + 1024 * 2 ^ a).
    { assert (len (drop (1024 * 2 ^ a) (drop (1024 * 2 ^ a) bytes)) = 0) by (rewrite H5; reflexivity).
      rewrite !len_drop in *. lia. }
    rewrite N.add_1_r, N.pow_succ_r'. split; [lia|]. split.
    + rewrite take_all by lia. rewrite <- (take_drop (1024 * 2 ^ a) bytes) at 1.
      rewrite (sp_node ctr _ _ a); [|rewrite len_take; lia|rewrite len_drop; pose proof (pow2_pos a); lia|rewrite take_drop; exact H64].
      f_equal; [exact H2|].
      rewrite H4. f_equal. rewrite take_all; [reflexivity|]. rewrite len_drop. lia.
    + rewrite drop_all by lia. reflexivity.
  - destruct H as (H1 & H2 & H3). split; [exact H1|]. split; [exact H2|].
    apply IH; [rewrite len_drop; lia|exact H3].
Qed.

Lemma exps_length l : length (exps l) = length l.
Proof. apply map_length. Qed.

Lemma exps_app l1 l2 : exps (l1 ++ l2) = exps l1 ++ exps l2.
Proof. apply map_app. Qed.

Lemma exps_split2 : forall pre l a b, exps l = pre ++ [a; b] ->
  exists lp t1 t2, l = lp ++ [(a, t1); (b, t2)] /\ exps lp = pre.
Proof.
  induction pre as [|e pre IH]; intros l a b H.
  - destruct l as [|[a' t1] [|[b' t2] [|? ?]]]; cbn in H; try discriminate.
    inversion H; subst. exists [], t1, t2. split; reflexivity.
  - destruct l as [|[e' t] l]; [discriminate|]. cbn [exps map fst app] in H. inversion H; subst.
    destruct (IH l a b H2) as (lp & t1 & t2 & -> & Hp). exists ((e, t) :: lp), t1, t2. split; [reflexivity|].
    cbn [exps map fst]. f_equal. exact Hp.
Qed.

Lemma Node_inj a b c d : Node a b = Node c d -> a = c /\ b = d.
Proof. intros H. inversion H. auto. Qed.

Lemma bind_ret {A B} (a : A) (k : A -> res B) : bind (Ok a) k = k a.
Proof. reflexivity. Qed.

Section Refine.
  Variable p : platform.
  Hypothesis POK : PlatformOK p.
  Variables (K : list N) (F : N).
  Hypothesis HK : length K = 8%nat.

  Notation tcv := (tree_cv spec_c8 K F).
  Definition cvof (et : N * tree) : list N := tcv (snd et).

  (* the live part of the in-place byte stack holds the CVs of the abstract entries *)
  Definition StackRel (h : c_hasher) (l : list (N * tree)) : Prop :=
    ch_stack_len h = N.of_nat (length l) /\ firstn (length l) (ch_stack h) = map cvof l /\
    length (ch_stack h) = 55%nat /\ Forall (fun et => wf_tree (snd et)) l /\ ch_key h = K /\ ch_flags h = F.

  Lemma StackRel_le h l : StackRel h l -> (length l <= 55)%nat.
  Proof.
    intros (_ & H2 & H3 & _). apply (f_equal (@length _)) in H2. rewrite firstn_length, map_length in H2. lia.
  Qed.

  Lemma StackRel_slot h l i : StackRel h l -> (i < length l)%nat ->
    slot (ch_stack h) (N.of_nat i) = nth i (map cvof l) [].
  Proof.
    intros (_ & H2 & _) Hi. unfold slot. rewrite Nat2N.id. rewrite <- H2. symmetry. apply nth_firstn_lt. exact Hi.
  Qed.

  Lemma tcv_len t : wf_tree t -> length (tcv t) = 32%nat.
  Proof. apply (tcv_length spec_c8 p POK spec_c8_cip spec_c8_len K F HK). Qed.

  Lemma c_ocv o : wf_output o -> c_output_chaining_value p o = chaining_value spec_c8 o.
  Proof. intros H. apply (wf_chaining_value spec_c8 p POK spec_c8_cip o H). Qed.

  Lemma c_parent_cv t1 t2 : wf_tree t1 -> wf_tree t2 ->
    c_output_chaining_value p (c_parent_output (tcv t1 ++ tcv t2) K F) = tcv (Node t1 t2).
  Proof.
    intros H1 H2. rewrite c_ocv.
    - rewrite (tree_cv_out spec_c8 K F (Node t1 t2)). cbn [tree_out].
      unfold c_parent_output, parent_output. reflexivity.
    - split; [exact HK|]. cbn [c_parent_output o_block]. rewrite app_length, !tcv_len by assumption. reflexivity.
  Qed.

  Lemma c_merge_loop_spec : forall fuel h l,
    (length l <= fuel)%nat -> StackRel h l -> Dom (exps l) ->
    exists h' l', c_merge_loop fuel p h (popcount (sum2 (exps l))) = Ok h' /\ StackRel h' l' /\
      SDom (exps l') /\ sum2 (exps l') = sum2 (exps l) /\ ch_chunk h' = ch_chunk h /\
      (forall ctr bytes, len bytes < 2 ^ 64 -> Segs ctr l bytes -> Segs ctr l' bytes) /\
      (SDom (exps l) -> l' = l).
  Proof.
    induction fuel as [|fuel IH]; intros h l Hf HS HD.
    - destruct l; [|cbn in Hf; lia]. cbn [c_merge_loop]. destruct HS as (S1 & S2 & S3 & S4 & S5 & S6).
      rewrite S1. cbn [length exps map sum2 popcount]. change (N.of_nat 0 <=? 0) with true. cbn iota.
      exists h, []. split; [reflexivity|]. split; [unfold StackRel; auto 10|]. cbn. auto 10.
    - cbn [c_merge_loop]. pose proof HS as (S1 & S2 & S3 & S4 & S5 & S6). rewrite S1.
      destruct (N.of_nat (length l) <=? popcount (sum2 (exps l))) eqn:E.
      + exists h, l. split; [reflexivity|]. split; [exact HS|]. split.
        * apply dom_merged; [exact HD|]. rewrite exps_length. lia.
        * auto.
      + destruct (dom_needs_merge (exps l) HD) as (pre & a & Hpre).
        { rewrite exps_length. lia. }
        destruct (exps_split2 pre l a a Hpre) as (lp & t1 & t2 & -> & Hlp).
        pose proof (StackRel_le h _ HS) as Hle. rewrite app_length in *. cbn [length] in *.
        replace (2 <=? N.of_nat (length lp + 2)) with true by lia. cbn [check bind]. cbn zeta.
        replace (N.of_nat (length lp + 2) - 2) with (N.of_nat (length lp)) by lia.
        unfold c_cv_stack_slots. change (c_cv_stack_bytes / c_OUT_LEN) with 55.
        replace (N.of_nat (length lp) + 2 <=? 55) with true by lia. cbn [check bind].
        rewrite (StackRel_slot h _ (length lp) HS) by (rewrite app_length; cbn [length]; lia).
        replace (N.of_nat (length lp) + 1) with (N.of_nat (S (length lp))) by lia.
        rewrite (StackRel_slot h _ (S (length lp)) HS) by (rewrite app_length; cbn [length]; lia).
        rewrite map_app. rewrite !app_nth2 by (rewrite map_length; lia). rewrite map_length.
        rewrite Nat.sub_diag. replace (S (length lp) - length lp)%nat with 1%nat by lia. cbn [map nth cvof snd].
        rewrite Forall_app in S4. destruct S4 as [S4a S4b].
        pose proof (Forall_inv S4b) as W1. pose proof (Forall_inv (Forall_inv_tail S4b)) as W2. cbn [snd] in W1, W2.
        rewrite S5. unfold ch_flags in S6. fold (ch_flags h). unfold ch_flags. rewrite S6.
        unfold cvof at 1 2. cbn [snd]. rewrite c_parent_cv by assumption.
        unfold mi_sub. replace (1 <=? N.of_nat (length lp + 2)) with true by lia. cbn [bind].
        set (h1 := mkCH K (ch_chunk h) (N.of_nat (length lp + 2) - 1)
                     (upd_nth (N.to_nat (N.of_nat (length lp))) (tcv (Node t1 t2)) (ch_stack h))).
        set (l1 := lp ++ [(a + 1, Node t1 t2)]).
        assert (HS1 : StackRel h1 l1).
        { unfold StackRel, h1, l1. cbn [ch_stack_len ch_stack ch_key]. rewrite app_length. cbn [length].
          split; [lia|]. split.
          - rewrite Nat2N.id. replace (length lp + 1)%nat with (S (length lp)) by lia.
            rewrite firstn_upd_nth_snoc by lia.
            assert (S2' : firstn (length lp) (ch_stack h) = map cvof lp).
            { rewrite map_app in S2.
              replace (length lp + 2)%nat with (length (map cvof lp ++ map cvof [(a, t1); (a, t2)])) in S2
                by (rewrite app_length, !map_length; reflexivity).
              apply firstn_app_prefix in S2. rewrite map_length in S2. exact S2. }
            rewrite S2', map_app. unfold cvof at 3. cbn [map snd]. reflexivity.
          - split; [rewrite upd_nth_length; exact S3|]. split.
            + apply Forall_app. split; [exact S4a|]. constructor; [cbn [snd wf_tree]; auto|constructor].
            + split; [reflexivity|]. unfold ch_flags. cbn [ch_chunk]. exact S6. }
        assert (He1 : exps l1 = pre ++ [a + 1]) by (unfold l1; rewrite exps_app, Hlp; reflexivity).
        rewrite Hpre in HD. destruct (dom_merge pre a HD) as [HD1 Hsum].
        destruct (IH h1 l1) as (h' & l' & Hrun & HS' & HSD & Hsum' & Hch & Hseg & _).
        { unfold l1. rewrite app_length. cbn [length]. lia. }
        { exact HS1. }
        { rewrite He1. exact HD1. }
        rewrite Hpre. rewrite <- Hsum. rewrite <- He1.
        exists h', l'. split; [exact Hrun|]. split; [exact HS'|]. split; [exact HSD|].
        split; [exact Hsum'|]. split; [rewrite Hch; reflexivity|]. split.
        * intros ctr bytes H64 Hsg. apply Hseg; [exact H64|]. apply Segs_merge; assumption.
        * intros HSl. exfalso. rewrite <- Hpre in HSl. rewrite (sdom_popcount _ HSl) in E.
          rewrite exps_length, app_length in E. cbn [length] in E. lia.
  Qed.

  Lemma c_merge_cv_stack_spec h l T :
    StackRel h l -> Dom (exps l) -> T = sum2 (exps l) -> T < 2 ^ 64 ->
    exists h' l', c_merge_cv_stack p h T = Ok h' /\ StackRel h' l' /\
      SDom (exps l') /\ sum2 (exps l') = T /\ ch_chunk h' = ch_chunk h /\
      (forall ctr bytes, len bytes < 2 ^ 64 -> Segs ctr l bytes -> Segs ctr l' bytes) /\
      (SDom (exps l) -> l' = l).
  Proof.
    intros HS HD -> HT. unfold c_merge_cv_stack. rewrite c_popcnt_spec by exact HT. cbn [bind].
    apply c_merge_loop_spec; [|exact HS|exact HD]. pose proof (StackRel_le h l HS). unfold c_merge_fuel. lia.
  Qed.

  Lemma c_push_cv_spec h l T e t :
    StackRel h l -> Dom (exps l) -> T = sum2 (exps l) -> T < 2 ^ 54 -> wf_tree t ->
    exists h' l', c_push_cv p h (tcv t) T = Ok h' /\ StackRel h' (l' ++ [(e, t)]) /\
      SDom (exps l') /\ sum2 (exps l') = T /\ ch_chunk h' = ch_chunk h /\
      (forall ctr bytes, len bytes < 2 ^ 64 -> Segs ctr l bytes -> Segs ctr l' bytes) /\
      (SDom (exps l) -> l' = l).
  Proof.
    intros HS HD HT H54 Hwf. unfold c_push_cv.
    destruct (c_merge_cv_stack_spec h l T HS HD HT) as (h1 & l1 & Hm & HS1 & HSD & Hsum & Hch & Hseg & Hid).
    { change (2 ^ 54) with 18014398509481984 in H54. rewrite two64. lia. }
    rewrite Hm. cbn [bind]. destruct HS1 as (S1 & S2 & S3 & S4 & S5 & S6).
    assert (Hlen : N.of_nat (length l1) <= 54).
    { rewrite <- (exps_length l1).
      apply sdom_length_bound; [exact HSD|]. rewrite Hsum. exact H54. }
    rewrite S1. unfold c_cv_stack_slots. change (c_cv_stack_bytes / c_OUT_LEN) with 55.
    replace (N.of_nat (length l1) <? 55) with true by lia. cbn [check bind].
    unfold mi_add, fits. replace (N.of_nat (length l1) + 1 <? 2 ^ 8) with true by (change (2 ^ 8) with 256; lia).
    cbn [bind]. eexists. exists l1. split; [reflexivity|]. split.
    - unfold StackRel. cbn [ch_stack_len ch_stack ch_key]. rewrite app_length. cbn [length].
      split; [lia|]. split.
      + rewrite Nat2N.id. replace (length l1 + 1)%nat with (S (length l1)) by lia.
        rewrite firstn_upd_nth_snoc by lia. rewrite map_app, S2. reflexivity.
      + split; [rewrite upd_nth_length; exact S3|]. split.
        * apply Forall_app. split; [exact S4|]. constructor; [exact Hwf|constructor].
        * split; [exact S5|exact S6].
    - split; [exact HSD|]. split; [exact Hsum|]. split; [cbn [ch_chunk]; exact Hch|]. split; [exact Hseg|exact Hid].
  Qed.

  (* ---- one chunk through a fresh chunk_state ------------------------------------------------------- *)
  Lemma c_chunk_cv T seg : len seg <= 1024 ->
    exists cs1, c_cs_update p (mkCS K T c_zero_block 0 0 F) seg = Ok cs1 /\ cs_ctr cs1 = T /\
                c_output_chaining_value p (c_cs_output cs1) = tcv (Leaf T seg) /\
                Tight spec_c8 K F T cs1 seg.
  Proof.
    intros Hl.
    destruct (c_cs_update_spec p POK K F HK T (cs_new K T F) [] seg) as (cs1 & Hu & HT).
    { apply (Tight_new spec_c8 p (Hcip spec_c8 p POK spec_c8_cip) spec_c8_len K F T HK). }
    { cbn [app]. exact Hl. }
    exists cs1. split; [exact Hu|]. split.
    - apply c_cs_update_fields in Hu. destruct Hu as [_ Hc]. exact Hc.
    - cbn [app] in HT. split; [|exact HT].
      change (c_cs_output cs1) with (cs_output cs1).
      rewrite (cs_output_spec spec_c8 p (Hcip spec_c8 p POK spec_c8_cip) spec_c8_len K F T HK cs1 seg HT).
      rewrite c_ocv; [rewrite (tree_cv_out spec_c8 K F (Leaf T seg)); cbn [tree_out]; reflexivity|].
      apply (chunk_output_wf spec_c8 p POK spec_c8_cip spec_c8_len K F HK). exact Hl.
  Qed.

  Lemma firstn32_app (a b : list N) : length a = 32%nat -> firstn 32 (a ++ b) = a.
  Proof. intros H. rewrite <- H. rewrite firstn_app, Nat.sub_diag, firstn_all. cbn [firstn]. apply app_nil_r. Qed.
  Lemma skipn32_app (a b : list N) : length a = 32%nat -> skipn 32 (a ++ b) = b.
  Proof. intros H. rewrite <- H. rewrite skipn_app, Nat.sub_diag, skipn_all. reflexivity. Qed.

  Lemma mod_1024_pow2 T b : (1024 * T) mod 2 ^ (b + 10) = 0 -> (2 ^ b | T).
  Proof.
    intros H. rewrite N.pow_add_r in H. change (2 ^ 10) with 1024 in H.
    rewrite (N.mul_comm (2 ^ b) 1024) in H. rewrite N.mul_mod_distr_l in H by (pose proof (pow2_pos b); lia).
    apply N.mod_divide; [pose proof (pow2_pos b); lia|]. lia.
  Qed.

  (* the loop invariant: the chunk state is empty and its counter is the number of chunks on the stack *)
  Definition LInv (h : c_hasher) (m : list N) (l : list (N * tree)) : Prop :=
    StackRel h l /\ Dom (exps l) /\ Segs 0 l m /\ ch_chunk h = mkCS K (sum2 (exps l)) c_zero_block 0 0 F.

  (* one iteration's pushes: a single chunk ... *)
  Lemma c_push_step_chunk h l m input b :
    let T := sum2 (exps l) in
    let seg := take (1024 * 2 ^ b) input in
    StackRel h l -> Dom (exps l) -> Segs 0 l m -> (2 ^ b | T) ->
    1024 * 2 ^ b <= len input -> len m + len input < 18446744073709551616 ->
    (1024 * 2 ^ b <=? 1024) = true ->
    exists h2 l2,
      (cs1 <- c_cs_update p
                (mkCS (cs_cv (c_cs_init K F)) T (cs_buf (c_cs_init K F))
                   (cs_buf_len (c_cs_init K F)) (cs_blocks (c_cs_init K F))
                   (cs_flags (c_cs_init K F))) seg ;;
       c_push_cv p h (c_output_chaining_value p (c_cs_output cs1)) (cs_ctr cs1)) = Ok h2 /\
      StackRel h2 l2 /\ Dom (exps l2) /\ Segs 0 l2 (m ++ seg) /\ sum2 (exps l2) = T + 2 ^ b /\
      ch_chunk h2 = ch_chunk h /\ (1024 < 1024 * 2 ^ b -> exists pre a, exps l2 = pre ++ [a; a]).
  Proof.
    intros T seg HS HD HSeg HdT Hsn H64 Eb.
    pose proof (Segs_len _ _ _ HSeg) as Hlm. fold T in Hlm.
    pose proof (pow2_pos b) as Hpb. set (n := len input) in *.
    assert (Hseg : len seg = 1024 * 2 ^ b) by (unfold seg; rewrite len_take; fold n; lia).
    assert (HT54 : T + 2 ^ b < 2 ^ 54) by (change (2 ^ 54) with 18014398509481984; lia).
        assert (Hb0 : b = 0).
        { destruct (N.eq_dec b 0) as [|Hne]; [assumption|].
          assert (2 ^ 1 <= 2 ^ b) by (apply N.pow_le_mono_r; lia). change (2 ^ 1) with 2 in *. lia. }
        destruct (c_chunk_cv T seg ltac:(lia)) as (cs1 & Hu & Hc1 & Hcv & _).
        change (c_cs_update p _ seg) with (c_cs_update p (mkCS K T c_zero_block 0 0 F) seg). rewrite Hu. cbn [bind].
        rewrite Hcv, Hc1.
        destruct (c_push_cv_spec h l T 0 (Leaf T seg) HS HD eq_refl ltac:(lia) ltac:(cbn; lia))
          as (h2 & l1 & Hp & HS2 & HSD & Hsum & Hch & Htr & _).
        exists h2, (l1 ++ [(0, Leaf T seg)]). split; [exact Hp|]. split; [exact HS2|].
        rewrite exps_app. cbn [exps map fst]. fold (exps l1). split.
        + apply dom_push; [exact HSD|]. rewrite Hsum. change (2 ^ 0) with 1. apply N.divide_1_l.
        + split.
          * rewrite <- (sp_leaf T seg) by lia. replace T with (0 + sum2 (exps l1)) at 1 by lia.
            apply Segs_snoc; [apply Htr; [rewrite two64; lia|exact HSeg]|rewrite Hseg, Hb0; reflexivity].
          * split; [rewrite sum2_app, Hsum, Hb0; cbn [sum2]; lia|]. split; [exact Hch|]. intros Hc. rewrite Hb0 in Hc. cbn in Hc. lia.
  Qed.

  Lemma c_to_parent_node_sp input ctr :
    1024 < len input -> len input < 2 ^ 64 -> ctr + chunks (len input) < 2 ^ 64 ->
    exists ta tb, c_compress_subtree_to_parent_node p input K ctr F = Ok (tcv ta ++ tcv tb) /\
                  sp ctr input = Node ta tb /\ wf_tree ta /\ wf_tree tb.
  Proof. intros H1 H2 H3. unfold sp. apply (c_to_parent_node_spec p POK K F HK); assumption. Qed.

  Lemma pair_run h seg T sc cvp h1 rc h2 :
    c_compress_subtree_to_parent_node p seg K T F = Ok cvp ->
    c_push_cv p h (firstn 32 cvp) T = Ok h1 ->
    c_right_cv_counter T sc = Ok rc ->
    c_push_cv p h1 (firstn 32 (skipn 32 cvp)) rc = Ok h2 ->
    (cv_pair <- c_compress_subtree_to_parent_node p seg K T F ;;
     h0 <- c_push_cv p h (firstn 32 cv_pair) T ;;
     rc <- c_right_cv_counter T sc ;;
     c_push_cv p h0 (firstn 32 (skipn 32 cv_pair)) rc) = Ok h2.
  Proof. intros E1 E2 E3 E4. rewrite E1, bind_ret, E2, bind_ret, E3, bind_ret. exact E4. Qed.

  (* ... or the two halves of a larger subtree *)
  Lemma c_push_step_pair h l m input b :
    let T := sum2 (exps l) in
    let seg := take (1024 * 2 ^ b) input in
    StackRel h l -> Dom (exps l) -> Segs 0 l m -> (2 ^ b | T) ->
    1024 * 2 ^ b <= len input -> len m + len input < 18446744073709551616 ->
    (1024 * 2 ^ b <=? 1024) = false ->
    exists h2 l2,
      (cv_pair <- c_compress_subtree_to_parent_node p seg K T F ;;
       h0 <- c_push_cv p h (firstn 32 cv_pair) T ;;
       rc <- c_right_cv_counter T (2 ^ b) ;;
       c_push_cv p h0 (firstn 32 (skipn 32 cv_pair)) rc) = Ok h2 /\
      StackRel h2 l2 /\ Dom (exps l2) /\ Segs 0 l2 (m ++ seg) /\ sum2 (exps l2) = T + 2 ^ b /\
      ch_chunk h2 = ch_chunk h /\ (1024 < 1024 * 2 ^ b -> exists pre a, exps l2 = pre ++ [a; a]).
  Proof.
    intros T seg HS HD HSeg HdT Hsn H64 Eb.
    pose proof (Segs_len _ _ _ HSeg) as Hlm. fold T in Hlm.
    pose proof (pow2_pos b) as Hpb. set (n := len input) in *.
    assert (Hseg : len seg = 1024 * 2 ^ b) by (unfold seg; rewrite len_take; fold n; lia).
    assert (HT54 : T + 2 ^ b < 2 ^ 54) by (change (2 ^ 54) with 18014398509481984; lia).
        assert (Hb1 : 1 <= b).
        { destruct (N.eq_dec b 0) as [->|]; [change (2 ^ 0) with 1 in Eb; lia|lia]. }
        set (b' := b - 1). assert (Hbb : 2 ^ b = 2 * 2 ^ b').
        { replace b with (N.succ b') by (unfold b'; lia). apply N.pow_succ_r'. }
        pose proof (pow2_pos b') as Hpb'.
        destruct (c_to_parent_node_sp seg T) as (ta & tb & Hrun & Ht & Hwa & Hwb).
        { lia. } { rewrite two64; lia. } { unfold chunks. rewrite two64. lia. }
        (* the two halves *)
        set (A := take (1024 * 2 ^ b') seg). set (R := drop (1024 * 2 ^ b') seg).
        assert (HA : len A = 1024 * 2 ^ b') by (unfold A; rewrite len_take; lia).
        assert (HR : len R = 1024 * 2 ^ b') by (unfold R; rewrite len_drop; lia).
        assert (Hnode : sp T seg = Node (sp T A) (sp (T + 2 ^ b') R)).
        { abstract (rewrite <- (take_drop (1024 * 2 ^ b') seg) at 1; apply (sp_node T A R b'); [exact HA|lia|];
          fold A R; unfold A, R; rewrite take_drop; rewrite two64; lia). }
        rewrite Ht in Hnode. destruct (Node_inj _ _ _ _ Hnode) as [Hta Htb].
        destruct (c_push_cv_spec h l T b' ta HS HD eq_refl ltac:(lia) Hwa)
          as (h1 & l1 & Hp1 & HS1 & HSD1 & Hsum1 & Hch1 & Htr1 & _).
        assert (Hrc : c_right_cv_counter T (2 ^ b) = Ok (T + 2 ^ b')).
        { rewrite c_right_cv_counter_spec by (rewrite two64; lia).
          replace (2 ^ b / 2) with (2 ^ b') by (rewrite Hbb, N.mul_comm, N.div_mul; lia). reflexivity. }
        assert (HSD1' : SDom (exps (l1 ++ [(b', ta)]))).
        { rewrite exps_app. cbn [exps map fst]. fold (exps l1). apply sdom_push_half; [exact HSD1|].
          rewrite Hsum1. replace (b' + 1) with b by (unfold b'; lia). exact HdT. }
        assert (Hsum1' : sum2 (exps (l1 ++ [(b', ta)])) = T + 2 ^ b').
        { rewrite exps_app, sum2_app. fold (exps l1). rewrite Hsum1. cbn [exps map fst sum2]. lia. }
        destruct (c_push_cv_spec h1 (l1 ++ [(b', ta)]) (T + 2 ^ b') b' tb HS1 (SDom_Dom _ HSD1') (eq_sym Hsum1') ltac:(lia) Hwb)
          as (h2 & l2 & Hp2 & HS2 & HSD2 & Hsum2 & Hch2 & Htr2 & Hid2).
        specialize (Hid2 HSD1'). subst l2.
        assert (Hexpr : (cv_pair <- c_compress_subtree_to_parent_node p seg K T F ;;
                         h0 <- c_push_cv p h (firstn 32 cv_pair) T ;;
                         rc <- c_right_cv_counter T (2 ^ b) ;;
                         c_push_cv p h0 (firstn 32 (skipn 32 cv_pair)) rc) = Ok h2).
        { apply (pair_run h seg T (2 ^ b) (tcv ta ++ tcv tb) h1 (T + 2 ^ b') h2 Hrun); [|exact Hrc|].
          - rewrite firstn32_app by (apply tcv_len; exact Hwa). exact Hp1.
          - rewrite skipn32_app by (apply tcv_len; exact Hwa).
            rewrite (firstn_all2 (n := 32) (tcv tb)) by (rewrite tcv_len by exact Hwb; apply le_n). exact Hp2. }
        exists h2, ((l1 ++ [(b', ta)]) ++ [(b', tb)]). split; [exact Hexpr|]. split; [exact HS2|].
        split.
        { abstract (rewrite exps_app; cbn [exps map fst]; fold (exps (l1 ++ [(b', ta)])); apply dom_push; [exact HSD1'|];
          rewrite Hsum1'; apply N.divide_add_r; [|apply N.divide_refl];
          destruct HdT as [q Hq]; exists (q * 2); rewrite Hq, Hbb; lia). }
        split.
        { abstract (replace (m ++ seg) with ((m ++ A) ++ R) by (rewrite <- app_assoc; unfold A, R; rewrite take_drop; reflexivity);
          rewrite Htb; replace (T + 2 ^ b') with (0 + sum2 (exps (l1 ++ [(b', ta)]))) by (rewrite Hsum1'; lia);
          apply Segs_snoc; [|exact HR];
          rewrite Hta; replace T with (0 + sum2 (exps l1)) by lia;
          apply Segs_snoc; [|exact HA]; apply Htr1; [rewrite two64; lia|exact HSeg]). }
        split; [abstract (rewrite exps_app, sum2_app; fold (exps (l1 ++ [(b', ta)])); rewrite Hsum1'; cbn [exps map fst sum2]; lia)|].
        split; [abstract (rewrite Hch2, Hch1; reflexivity)|].
        abstract (intros _; exists (exps l1), b'; rewrite !exps_app; cbn [exps map fst]; rewrite <- app_assoc; reflexivity).
  Qed.

  Lemma c_update_loop_spec : forall fuel h m l input,
    LInv h m l -> len (m ++ input) < 2 ^ 64 -> (N.to_nat (len input / 1024) < fuel)%nat ->
    exists h' l' k, c_update_loop fuel p h input = Ok (h', drop k input) /\ LInv h' (m ++ take k input) l' /\
      k <= len input /\ len input - k <= 1024 /\
      ((k = 0 /\ h' = h /\ l' = l) \/ (0 < k /\ (len input - k = 0 -> exists pre a, exps l' = pre ++ [a; a]))).
  Proof.
    induction fuel as [|fuel IH]; intros h m l input HI H64 Hf; [lia|].
    cbn [c_update_loop]. unfold nlen. fold (len input). change c_CHUNK_LEN with 1024.
    destruct (len input <=? 1024) eqn:E.
    { exists h, l, 0. rewrite drop_0, take_0, app_nil_r. split; [reflexivity|]. split; [exact HI|].
      split; [lia|]. split; [lia|]. left. auto. }
    destruct HI as (HS & HD & HSeg & Hck). cbn zeta. rewrite len_app in H64.
    pose proof (Segs_len _ _ _ HSeg) as Hlm. set (T := sum2 (exps l)) in *.
    set (n := len input) in *. rewrite two64 in H64.
    rewrite c_round_down_spec by (rewrite ?two64; lia). cbn [bind].
    rewrite Hck. cbn [cs_ctr cs_flags]. rewrite c_count_so_far_spec by (rewrite two64; lia). cbn [bind].
    pose proof (N.log2_spec n ltac:(lia)) as [L1 L2].
    assert (Hj10 : 10 <= N.log2 n).
    { apply N.log2_le_pow2; [lia|]. change (2 ^ 10) with 1024. lia. }
    assert (Hj64 : N.log2 n < 64) by (apply log2_lt_64; rewrite two64; lia).
    destruct (c_shrink_loop_spec (T * 1024) ltac:(rewrite two64; lia) ltac:(lia) 64 (N.log2 n) Hj10 Hj64 ltac:(lia))
      as (j' & Hsh & Hj' & Hdiv).
    rewrite Hsh. cbn [bind]. rewrite c_subtree_chunks_spec. cbn [bind].
    set (b := j' - 10). assert (Hjb : j' = b + 10) by (unfold b; lia).
    assert (Hs : 2 ^ j' = 1024 * 2 ^ b) by (rewrite Hjb, N.pow_add_r; change (2 ^ 10) with 1024; lia).
    assert (Hsn : 2 ^ j' <= n).
    { assert (2 ^ j' <= 2 ^ N.log2 n) by (apply N.pow_le_mono_r; lia). lia. }
    assert (HdT : (2 ^ b | T)) by (apply mod_1024_pow2; rewrite <- Hjb, N.mul_comm; exact Hdiv).
    pose proof (pow2_pos b) as Hpb.
    replace (2 ^ j' <=? n) with true by lia. cbn [check bind].
    rewrite Hs. replace (1024 * 2 ^ b / 1024) with (2 ^ b) by (rewrite N.mul_comm, N.div_mul; lia).
    fold (take (1024 * 2 ^ b) input). fold (drop (1024 * 2 ^ b) input).
    set (seg := take (1024 * 2 ^ b) input).
    assert (Hseg : len seg = 1024 * 2 ^ b) by (unfold seg; rewrite len_take; fold n; lia).
    assert (HT54 : T + 2 ^ b < 2 ^ 54) by (change (2 ^ 54) with 18014398509481984; lia).
    pose proof HS as (_ & _ & _ & _ & HKh & _). rewrite HKh.
    assert (Hpush : exists h2 l2,
      (if 1024 * 2 ^ b <=? 1024
       then cs1 <- c_cs_update p
                     (mkCS (cs_cv (c_cs_init K F)) T (cs_buf (c_cs_init K F))
                        (cs_buf_len (c_cs_init K F)) (cs_blocks (c_cs_init K F))
                        (cs_flags (c_cs_init K F))) seg ;;
            c_push_cv p h (c_output_chaining_value p (c_cs_output cs1)) (cs_ctr cs1)
       else cv_pair <- c_compress_subtree_to_parent_node p seg K T F ;;
            h0 <- c_push_cv p h (firstn 32 cv_pair) T ;;
            rc <- c_right_cv_counter T (2 ^ b) ;;
            c_push_cv p h0 (firstn 32 (skipn 32 cv_pair)) rc) = Ok h2 /\
      StackRel h2 l2 /\ Dom (exps l2) /\ Segs 0 l2 (m ++ seg) /\ sum2 (exps l2) = T + 2 ^ b /\
      ch_chunk h2 = ch_chunk h /\ (1024 < 1024 * 2 ^ b -> exists pre a, exps l2 = pre ++ [a; a])).
    { destruct (1024 * 2 ^ b <=? 1024) eqn:Eb.
      - exact (c_push_step_chunk h l m input b HS HD HSeg HdT ltac:(fold n; lia) ltac:(fold n; lia) Eb).
      - exact (c_push_step_pair h l m input b HS HD HSeg HdT ltac:(fold n; lia) ltac:(fold n; lia) Eb). }
    destruct Hpush as (h2 & l2 & Hp & HS2 & HD2 & HSeg2 & Hsum2 & Hch2 & Htop).
    set (h3 := ch_with_chunk h2 (mkCS K (T + 2 ^ b) c_zero_block 0 0 F)).
    assert (HI3 : LInv h3 (m ++ seg) l2).
    { unfold LInv, h3. split.
      - destruct HS2 as (S1 & S2 & S3 & S4 & S5 & S6). unfold StackRel, ch_with_chunk, ch_flags.
        cbn [ch_stack_len ch_stack ch_key ch_chunk cs_flags]. auto 10.
      - split; [exact HD2|]. split; [exact HSeg2|]. unfold ch_with_chunk. cbn [ch_chunk]. rewrite Hsum2. reflexivity. }
    destruct (IH h3 (m ++ seg) l2 (drop (1024 * 2 ^ b) input) HI3) as (h' & l' & k & Hrun & HI' & Hk1 & Hk2 & Hk3).
    { rewrite !len_app, len_drop. fold n. rewrite two64. lia. }
    { rewrite len_drop. fold n. assert (Hq : (n - 1024 * 2 ^ b) / 1024 < n / 1024); [|lia].
      replace n with ((n - 1024 * 2 ^ b) + 2 ^ b * 1024) at 2 by lia. rewrite N.div_add by lia. lia. }
    exists h', l', (1024 * 2 ^ b + k). rewrite len_drop in *. fold n in Hk1, Hk2, Hk3.
    split.
    { match goal with |- bind ?m0 _ = _ => replace m0 with (@Ok c_hasher h2) by (symmetry; exact Hp) end.
      cbn [bind]. unfold mi_add, fits. replace (T + 2 ^ b <? 2 ^ 64) with true by (rewrite two64; lia). cbn [bind].
      rewrite <- drop_drop. cbn [cs_cv cs_buf cs_buf_len cs_blocks cs_flags]. exact Hrun. }
    split.
    { replace (take (1024 * 2 ^ b + k) input) with (seg ++ take k (drop (1024 * 2 ^ b) input)).
      - rewrite app_assoc. exact HI'.
      - symmetry. rewrite <- (take_drop (1024 * 2 ^ b) (take (1024 * 2 ^ b + k) input)) at 1.
        rewrite take_take, <- take_drop_comm. replace (N.min (1024 * 2 ^ b) (1024 * 2 ^ b + k)) with (1024 * 2 ^ b) by lia.
        reflexivity. }
    split; [lia|]. split; [lia|]. right. split; [lia|].
    intros Hz. destruct Hk3 as [(-> & -> & ->)|[Hk0 Hex]].
    - apply Htop. lia.
    - apply Hex. lia.
  Qed.

  (* ---- inputs of at most one chunk: init, one update, finalize_seek --------------------------------- *)
  Lemma c_cs_output_is cs : c_cs_output cs = cs_output cs.
  Proof. reflexivity. Qed.

  Lemma c_merge_loop_done fuel h post : (ch_stack_len h <=? post) = true -> c_merge_loop fuel p h post = Ok h.
  Proof. intros H. destruct fuel; cbn [c_merge_loop]; rewrite H; reflexivity. Qed.

  Lemma c_short_update mem m : len m <= 1024 -> length mem = 55%nat ->
    exists h, c_hasher_update p (c_hasher_init_base mem K F) m = Ok h /\ ch_stack_len h = 0 /\
              Tight spec_c8 K F 0 (ch_chunk h) m.
  Proof.
    intros Hl Hmem. unfold c_hasher_update. unfold nlen. fold (len m).
    destruct (len m =? 0) eqn:E0.
    { exists (c_hasher_init_base mem K F). split; [reflexivity|]. split; [reflexivity|].
      rewrite (len_0_nil m) by lia.
      apply (Tight_new spec_c8 p (Hcip spec_c8 p POK spec_c8_cip) spec_c8_len K F 0 HK). }
    change (c_cs_len (ch_chunk (c_hasher_init_base mem K F))) with (@Ok N 0). rewrite bind_ret. cbn beta.
    change (0 <? 0) with false. cbn iota. rewrite bind_ret. cbn beta iota.
    cbn [c_update_loop]. unfold nlen. fold (len m). change c_CHUNK_LEN with 1024.
    replace (len m <=? 1024) with true by lia. rewrite bind_ret. cbn beta iota.
    replace (0 <? len m) with true by lia.
    destruct (c_cs_update_spec p POK K F HK 0 (cs_new K 0 F) [] m) as (cs' & Hu & HT).
    { apply (Tight_new spec_c8 p (Hcip spec_c8 p POK spec_c8_cip) spec_c8_len K F 0 HK). }
    { cbn [app]. exact Hl. }
    change (ch_chunk (c_hasher_init_base mem K F)) with (cs_new K 0 F). rewrite Hu, bind_ret. cbn beta.
    pose proof (c_cs_update_fields p _ _ _ Hu) as [_ Hctr]. rewrite Hctr. cbn [cs_new cs_ctr].
    unfold c_merge_cv_stack. change (c_popcnt 0) with (@Ok N 0). rewrite bind_ret. cbn beta.
    rewrite c_merge_loop_done by reflexivity.
    fold (len m). replace (0 <? len m) with true by lia.
    eexists. split; [reflexivity|]. split; [reflexivity|]. exact HT.
  Qed.

  Theorem c_short_one_shot mem m seek out_len :
    len m <= 1024 -> length mem = 55%nat -> seek + out_len <= 2 ^ 64 - 1 ->
    (h <- c_hasher_update p (c_hasher_init_base mem K F) m ;; c_hasher_finalize_seek p h seek out_len) =
    Ok (stream spec_c64 (subtree_output spec_c8 tree_height K F 0 m) seek (N.to_nat out_len)).
  Proof.
    intros Hl Hmem Hmax. destruct (c_short_update mem m Hl Hmem) as (h & Hu & Hs & HT).
    rewrite Hu, bind_ret. cbn beta. unfold c_hasher_finalize_seek.
    destruct (out_len =? 0) eqn:E0.
    { replace out_len with 0 by lia. reflexivity. }
    unfold c_final_output. rewrite Hs. change (0 =? 0) with true. cbn iota. rewrite bind_ret. cbn beta.
    rewrite c_cs_output_is.
    rewrite (cs_output_spec spec_c8 p (Hcip spec_c8 p POK spec_c8_cip) spec_c8_len K F 0 HK _ m HT).
    rewrite (c_output_root_bytes_spec p POK).
    - rewrite tree_height_S, subtree_output_unfold. replace (len m <=? 1024) with true by lia. reflexivity.
    - apply (chunk_output_wf spec_c8 p POK spec_c8_cip spec_c8_len K F HK). exact Hl.
    - exact Hmax.
  Qed.
End Refine.
