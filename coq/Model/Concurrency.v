(* Concurrency models (C08, C18).
   C08: the two halves of a split in compress_subtree_wide write their chaining
   values into disjoint slices of one cv_array (left: slots [0, degree), right:
   slots [degree, degree + right_n)); a schedule is any interleaving of the two
   halves' write events; the parent layer then reads the array.
   C18: a process holds any number of instances plus the CPU-feature detection
   cache; an operation touches exactly one instance and may (re)write the cache
   with the constant detected value. *)
From Coq Require Import NArith List Bool.
From V Require Import Base.Res.
Import ListNotations.
Open Scope N_scope.

(* ---- C08: a slot array and write events ------------------------------------------------------ *)
Definition wr := (nat * list N)%type.            (* (slot index, chaining value) *)

Fixpoint write_slot {A} (mem : list A) (i : nat) (x : A) : list A :=
  match mem, i with
  | [], _ => []
  | _ :: tl, O => x :: tl
  | y :: tl, S i' => y :: write_slot tl i' x
  end.

Definition apply_writes (mem : list (list N)) (evs : list wr) : list (list N) :=
  fold_left (fun m e => write_slot m (fst e) (snd e)) evs mem.

(* the events of a half that returned the CVs `cvs`, written from slot `base` on *)
Fixpoint events_from (base : nat) (cvs : list (list N)) : list wr :=
  match cvs with
  | [] => []
  | cv :: tl => (base, cv) :: events_from (S base) tl
  end.

(* all interleavings of two event lists (each list keeps its own order) *)
Inductive Interleave {A} : list A -> list A -> list A -> Prop :=
| IL_nil : Interleave [] [] []
| IL_left x l r m : Interleave l r m -> Interleave (x :: l) r (x :: m)
| IL_right x l r m : Interleave l r m -> Interleave l (x :: r) (x :: m).

(* a split node of compress_subtree_wide under a schedule: both halves' writes land in a
   zeroed cv_array of `cap` slots in the interleaved order m; then the first left_n + right_n
   slots are read (the model of `&cv_array[..num_children * OUT_LEN]`) *)
Definition zero_cv : list N := repeat 0 32.
Definition split_node (cap degree : nat) (lcvs rcvs : list (list N)) (m : list wr) : list (list N) :=
  firstn (length lcvs + length rcvs) (apply_writes (repeat zero_cv cap) m).

(* ---- C18: instances + detection cache ----------------------------------------------------------- *)
Section Instances.
  Variable S : Type.          (* state of one instance *)
  Variable A : Type.          (* an operation's argument *)
  Variable O : Type.          (* an observation *)
  Variable f : A -> S -> res (S * O).   (* an operation acts on its own instance only *)
  Variable features : N.      (* what CPU detection computes: a constant of the machine *)

  Record proc := mkProc { insts : list S; cache : option N }.

  (* get_cpu_features(): read the cache, detect and store if unknown (a racy re-store writes the same value) *)
  Definition detect (p : proc) : proc * N :=
    match cache p with
    | Some v => (p, v)
    | None => (mkProc (insts p) (Some features), features)
    end.

  Definition op_step (p : proc) (i : nat) (a : A) : res (proc * O) :=
    let '(p, _) := detect p in
    match nth_error (insts p) i with
    | None => Panic 900
    | Some s =>
        '(s', o) <- f a s ;;
        Ok (mkProc (write_slot (insts p) i s') (cache p), o)
    end.

  (* run a global sequence of (thread/instance index, argument); returns per-event observations *)
  Fixpoint run_seq (p : proc) (evs : list (nat * A)) : res (proc * list (nat * O)) :=
    match evs with
    | [] => Ok (p, [])
    | (i, a) :: tl =>
        '(p', o) <- op_step p i a ;;
        '(p'', os) <- run_seq p' tl ;;
        Ok (p'', (i, o) :: os)
    end.

  (* the observations of instance i in a global run *)
  Definition project (i : nat) (os : list (nat * O)) : list O :=
    map snd (filter (fun x => Nat.eqb (fst x) i) os).

  (* instance i run alone on its own operations *)
  Fixpoint run_alone (s : S) (args : list A) : res (S * list O) :=
    match args with
    | [] => Ok (s, [])
    | a :: tl => '(s', o) <- f a s ;; '(s'', os) <- run_alone s' tl ;; Ok (s'', o :: os)
    end.
End Instances.
