(* Fixed-size arrays of words / bytes as lists, for code translated statement by statement
   (gen/GenPortable.v): `a[i]` is arr_get, `a[i] = v` is arr_set, storing a run of bytes at an
   offset is arr_store, `*array_ref!(a, off, len)` / `p + off` are arr_slice / skipn.
   Out-of-range accesses (a panic in Rust, undefined in C) read 0 / leave the array unchanged:
   the theorems about translated code are stated for arrays of the declared lengths, where every
   index of the source is a literal inside the bounds. *)
From Coq Require Import NArith List Lia Arith.
From V Require Import Base.Res Base.Word.
Import ListNotations.
Open Scope N_scope.

Definition arr_get (s : list N) (i : nat) : N := nth i s 0.

Fixpoint arr_set (s : list N) (i : nat) (v : N) : list N :=
  match s, i with
  | [], _ => []
  | _ :: tl, O => v :: tl
  | h :: tl, S i' => h :: arr_set tl i' v
  end.

Definition arr_slice (s : list N) (off len : nat) : list N := firstn len (skipn off s).

Definition arr_store (s : list N) (off : nat) (vs : list N) : list N :=
  firstn off s ++ vs ++ skipn (off + length vs) s.

(* `a[lo..hi].copy_from_slice(&src)` (Rust panics unless length src = hi - lo: the theorems are stated for the
   declared lengths) *)
Definition arr_copy (s : list N) (lo hi : nat) (src : list N) : list N := firstn lo s ++ src ++ skipn hi s.

(* value of a generated integer formula that cannot fail at its call sites *)
Definition res_val (r : res N) : N := match r with Ok v => v | _ => 0 end.

(* u32::from_le_bytes / load32: the first four bytes, little endian *)
Definition le_load32 (p : list N) : N :=
  match p with
  | b0 :: b1 :: b2 :: b3 :: _ => word_of_bytes4 b0 b1 b2 b3
  | _ => 0
  end.

Lemma arr_set_length s i v : length (arr_set s i v) = length s.
Proof.
  revert i. induction s as [|h tl IH]; intros [|i]; cbn [arr_set length]; try reflexivity.
  rewrite IH. reflexivity.
Qed.

Lemma arr_get_set s i j v : (j < length s)%nat ->
  arr_get (arr_set s j v) i = if Nat.eqb i j then v else arr_get s i.
Proof.
  unfold arr_get. revert i j. induction s as [|h tl IH]; intros i j H; [cbn in H; lia|].
  destruct j as [|j], i as [|i]; cbn [arr_set nth Nat.eqb]; try reflexivity.
  apply IH. cbn [length] in H. lia.
Qed.

(* a list is determined by its length and its elements *)
Lemma arr_ext (s t : list N) : length s = length t ->
  (forall i, (i < length s)%nat -> arr_get s i = arr_get t i) -> s = t.
Proof.
  unfold arr_get. revert t. induction s as [|h tl IH]; intros [|h' tl'] Hl Hg; try discriminate; [reflexivity|].
  f_equal.
  - apply (Hg 0%nat). cbn. lia.
  - apply IH; [cbn in Hl; lia|]. intros i Hi. apply (Hg (S i)). cbn. lia.
Qed.
