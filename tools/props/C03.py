"""C03: extended output is one coherent, seekable byte stream."""
from props.common import Rng, bspec, modes, number, CHUNK
from props.hist import PLATFORMS

RULE = ("op sequences over {fill(n), read(n), set_position(p), seek(Start/Current/End), position, clone} on roots "
        "from chunk and parent states in all modes and from merge_subtrees_root_xof; positions drawn from 0..200, "
        "2^38+-200 (block counter crossing 2^32), 2^63+-200, near 2^64-1; fill sizes 0..300 and 1000..5000; "
        "exhaustive (p mod 64, n) grid at three bases; wide fills of 2..33 blocks started 1..17 blocks below output "
        "block 2^32 (every xof_many group shape straddling the counter carry); reads (fill, io::Read, after seek) that end "
        "inside the final partial block or exactly at 2^64-1. Non-trivial = distinct sequence with a partial-block read or a seek.")
MODELLED = ["Platform::xof_many AVX-512 path: platform record (PlatformOK), tied by C05 and by the forced-platform runs here"]
ASSUMPTIONS = ["reads stay below 2^64-1 (beyond that the documentation says unspecified)"]

BASES = [0, (1 << 38), (1 << 63), (1 << 64) - 1 - 6000]


def pos(rng):
    b = rng.choice(BASES)
    if b == 0:
        return rng.range(0, 200)
    if b == (1 << 64) - 1 - 6000:
        return b + rng.range(0, 500)
    return b + rng.range(-200, 200)


def reader_ops(rng, j, nops, allow_big=True):
    ops = []
    cur = 0
    for _ in range(nops):
        k = rng.below(100)
        if k < 35:
            n = rng.choice([0, 1, 2, 31, 32, 33, 63, 64, 65, 127, 128, 129]) if rng.chance(0.5) else rng.range(0, 300)
            if allow_big and rng.chance(0.15):
                n = rng.range(1000, 5000)
            if cur + n > (1 << 64) - 1:
                n = 0
            ops.append(f"{'rf' if rng.chance(0.6) else 'rr'}:{j}:{n}")
            cur += n
        elif k < 55:
            cur = pos(rng)
            ops.append(f"rs:{j}:{cur}")
        elif k < 65:
            ops.append(f"rp:{j}")
        elif k < 80:
            kind = rng.choice(["s", "c", "c", "e"])
            if kind == "s":
                v = pos(rng)
                cur = v
            elif kind == "c":
                v = rng.choice([-1, 1, -64, 64, -65, 63, -200, 200, -(1 << 40), (1 << 40), -(1 << 63), (1 << 63) - 1])
                if 0 <= cur + v:
                    cur = min(cur + v, (1 << 64) - 1)
                # else: error, position unchanged
            else:
                v = rng.choice([0, -1, 5])
            ops.append(f"rk:{j}:{kind}:{v}")
            if cur > (1 << 64) - 1 - 6000:
                cur = (1 << 64) - 1 - 6000 - rng.range(0, 100)
                ops.append(f"rs:{j}:{cur}")
        else:
            ops.append(f"rp:{j}")
    ops.append(f"rp:{j}")
    return ops


def gen_cases(seed, tier):
    rng = Rng(seed)
    lines = []
    ms = modes(rng)
    nseq = 60 if tier == "thorough" else 10
    for plat in PLATFORMS:
        for k in range(nseq):
            m = rng.choice(ms)
            n = rng.choice([0, 1, 64, 65, 1024, 1025, 2048, 5000, 3 * CHUNK + 1])
            pre = [f"u:0:{bspec(rng, n)}", "xo:0"]
            ops = reader_ops(rng, 0, rng.range(4, 25))
            if rng.chance(0.3):
                ops += ["rc:0"] + reader_ops(rng, 1, 5) + reader_ops(rng, 0, 3)
            lines.append(f"H {m} {plat} " + " ".join(pre + ops))
        # root from merge_subtrees_root_xof
        lines.append(f"H {rng.choice(ms)} {plat} mx:prng/{rng.below(999)}/32:prng/{rng.below(999)}/32 "
                     + " ".join(reader_ops(rng, 0, 12)))
        # exhaustive (p mod 64, n) grid
        for base in (0, (1 << 38) - 64, (1 << 63)):
            step = 1 if tier == "thorough" else 7
            ops = [f"u:0:paint/0/{rng.choice([3, 1025])}", "xo:0"]
            for pm in range(0, 64, step):
                for n in (list(range(0, 131, step)) + [64, 65, 128]):
                    ops += [f"rs:0:{base + pm}", f"rf:0:{n}", "rp:0"]
                    if len(ops) > 120:
                        lines.append(f"H hash {plat} " + " ".join(ops))
                        ops = [f"u:0:paint/0/{rng.choice([3, 1025])}", "xo:0"]
            lines.append(f"H hash {plat} " + " ".join(ops))
        # wide fills that straddle output block 2^32 (byte position 2^38): Platform::xof_many hands the
        # whole blocks of one fill to the 16/8/4/2/1-wide kernels in groups; every group shape must carry the
        # 32-bit counter into the high word at every lane.  Start k blocks below 2^32, fill m blocks (+ partial).
        ks = list(range(1, 18)) if tier == "thorough" else [1, 2, 3, 4, 5, 7, 8, 9, 12, 15, 16, 17]
        ms_ = [2, 3, 4, 5, 7, 8, 9, 12, 15, 16, 17, 24, 31, 32, 33]
        ops = ["u:0:paint/0/1025", "xo:0"]
        idx = 0
        for k in ks:
            for m in ms_:
                idx += 1
                if tier != "thorough" and (idx + seed) % 3:
                    continue
                off = rng.choice([0, 0, 17, 63])
                boundary = (1 << 31) if (idx % 5 == 0) else (1 << 32)    # 2^31: signed/unsigned compare tricks
                ops += [f"rs:0:{(boundary - k) * 64 + off}", f"rf:0:{64 * m + rng.choice([0, 0, 5])}", "rp:0"]
                if len(ops) > 60:
                    lines.append(f"H {rng.choice(ms)} {plat} " + " ".join(ops))
                    ops = ["u:0:paint/0/1025", "xo:0"]
        if len(ops) > 2:
            lines.append(f"H {rng.choice(ms)} {plat} " + " ".join(ops))
        # the END of the stream: the last block (index 2^58-1) is partial, bytes 2^64-64 .. 2^64-2.  Every read
        # through fill, io::Read and after seek that ends inside it or exactly at 2^64-1 is legal.
        END = (1 << 64) - 1
        ops = ["u:0:paint/0/65", "xo:0"]
        shapes = []
        for back in (1, 2, 10, 62, 63, 64, 65, 100, 127, 128, 129, 200):
            for n in sorted(set([1, back // 2, back - 1, back]) - {0}):
                shapes.append((back, n))
        for idx, (back, n) in enumerate(shapes):
            if tier != "thorough" and (idx + seed) % 2:
                continue
            kind = ("rf", "rr", "rr")[idx % 3]
            if idx % 4 == 3:
                ops += [f"rk:0:s:{END - back}"]
            else:
                ops += [f"rs:0:{END - back}"]
            ops += [f"{kind}:0:{n}", "rp:0"]
            if len(ops) > 50:
                lines.append(f"H {rng.choice(ms)} {plat} " + " ".join(ops))
                ops = ["u:0:paint/0/65", "xo:0"]
        # crossing into the last block by consecutive reads
        ops += [f"rs:0:{END - 300}", "rr:0:100", "rr:0:137", "rp:0", "rr:0:63", "rp:0", "rr:0:0", "rp:0"]
        lines.append(f"H {rng.choice(ms)} {plat} " + " ".join(ops))
    return number(lines)


def nontrivial(rest, model_line):
    return "rk:" in rest or "rs:" in rest


def correspondence(ctx):
    drv = ctx.need_model()
    cases = gen_cases(ctx.seed, ctx.tier)
    builds = [("default", "debug")]
    if ctx.tier == "thorough":
        builds += [("default", "release"), ("prefer_intrinsics", "debug"), ("pure", "debug")]
    for flavour, profile in builds:
        b = ctx.need_harness(flavour, profile)
        ctx.correspond("reader-ops", cases, drv, b, profile=profile, build=flavour, nontrivial=nontrivial)


def classify(f):
    return None
