(* C05: the SIMD kernel algorithms of Model/Kernels.v equal the portable kernels.
   Sections A..M; the deliverable statements are collected in M and pinned in Props/C05.v. *)
From Coq Require Import NArith ZArith List Bool Arith Lia.
From V Require Import Base.Res Base.Word Base.MachInt gen.GenConsts gen.GenFormulas
  Spec.Compress Model.Portable Model.Platform Model.Kernels Proofs.PortableP Proofs.ListP.
Import ListNotations.
Open Scope N_scope.

(* ------------------------------------------------------------------ *)
(* A. the round: source order = G-by-G order; scalar instance = portable *)
(* ------------------------------------------------------------------ *)
Lemma add32_swap a x b : add32 (add32 a x) b = add32 (add32 a b) x.
Proof.
  unfold add32, w32, mask32. change 0xFFFFFFFF with (N.ones 32).
  rewrite !N.land_ones.
  rewrite !N.add_mod_idemp_l by discriminate. f_equal. lia.
Qed.

Lemma gS_scalar a b c d x y : gS add32 xor32 rotr32 a b c d x y = Portable.g a b c d x y.
Proof. unfold gS, Portable.g. cbv zeta. rewrite !(add32_swap a x b). 
  rewrite (add32_swap _ y _). reflexivity. Qed.

Lemma roundS_scalar s m r : roundS add32 xor32 rotr32 0 s m r = Portable.round s m r.
Proof.
  unfold roundS, Portable.round.
  do 16 (destruct s as [|? s]; [reflexivity|]). destruct s; [|reflexivity].
  change (@mw N 0 m) with (msgw m).
  repeat (rewrite ?gS_scalar;
          match goal with |- context [Portable.g ?a ?b ?c ?d ?x ?y] =>
            destruct (Portable.g a b c d x y) as [[[? ?] ?] ?] end).
  reflexivity.
Qed.

Section RoundSrc.
  Context {T : Type} (add xor : T -> T -> T) (rot : T -> N -> T) (dflt : T).
  (* the 112 statements of the SIMD round = eight G applications: the four column
     steps (then the four diagonal steps) act on disjoint words *)
  Lemma round_src_roundS v m r : round_src add xor rot dflt v m r = roundS add xor rot dflt v m r.
  Proof.
    do 16 (destruct v as [|? v]; [reflexivity|]). destruct v; [|reflexivity].
    reflexivity.
  Qed.
End RoundSrc.

(* ------------------------------------------------------------------ *)
(* B. homomorphisms of the word algebra commute with the round         *)
(* ------------------------------------------------------------------ *)
Section Hom.
  Context {T1 T2 : Type}.
  Variables (add1 xor1 : T1 -> T1 -> T1) (rot1 : T1 -> N -> T1) (d1 : T1).
  Variables (add2 xor2 : T2 -> T2 -> T2) (rot2 : T2 -> N -> T2) (d2 : T2).
  Variables (h : T1 -> T2) (P : T1 -> Prop).
  Hypothesis Hadd : forall a b, P a -> P b -> P (add1 a b) /\ h (add1 a b) = add2 (h a) (h b).
  Hypothesis Hxor : forall a b, P a -> P b -> P (xor1 a b) /\ h (xor1 a b) = xor2 (h a) (h b).
  Hypothesis Hrot : forall a r, P a -> P (rot1 a r) /\ h (rot1 a r) = rot2 (h a) r.

  Lemma Hadd_P a b : P a -> P b -> P (add1 a b). Proof. intros; apply Hadd; assumption. Qed.
  Lemma Hxor_P a b : P a -> P b -> P (xor1 a b). Proof. intros; apply Hxor; assumption. Qed.
  Lemma Hrot_P a r : P a -> P (rot1 a r). Proof. intros; apply Hrot; assumption. Qed.
  Lemma Hadd_E a b : P a -> P b -> h (add1 a b) = add2 (h a) (h b). Proof. intros; apply Hadd; assumption. Qed.
  Lemma Hxor_E a b : P a -> P b -> h (xor1 a b) = xor2 (h a) (h b). Proof. intros; apply Hxor; assumption. Qed.
  Lemma Hrot_E a r : P a -> h (rot1 a r) = rot2 (h a) r. Proof. intros; apply Hrot; assumption. Qed.

  Ltac solveP := repeat first [assumption | apply Hadd_P | apply Hxor_P | apply Hrot_P].

  Lemma gS_hom a b c d x y : P a -> P b -> P c -> P d -> P x -> P y ->
    match gS add1 xor1 rot1 a b c d x y with
    | (a', b', c', d') =>
        P a' /\ P b' /\ P c' /\ P d' /\
        gS add2 xor2 rot2 (h a) (h b) (h c) (h d) (h x) (h y) = (h a', h b', h c', h d')
    end.
  Proof.
    intros Pa Pb Pc Pd Px Py. unfold gS. cbv zeta.
    repeat split; try solveP.
    repeat (first [rewrite Hadd_E by solveP | rewrite Hxor_E by solveP | rewrite Hrot_E by solveP]).
    reflexivity.
  Qed.

  Lemma roundS_hom s0 s1 s2 s3 s4 s5 s6 s7 s8 s9 s10 s11 s12 s13 s14 s15
        m0 m1 m2 m3 m4 m5 m6 m7 m8 m9 m10 m11 m12 m13 m14 m15 (r : nat) :
    let s := [s0; s1; s2; s3; s4; s5; s6; s7; s8; s9; s10; s11; s12; s13; s14; s15] in
    let m := [m0; m1; m2; m3; m4; m5; m6; m7; m8; m9; m10; m11; m12; m13; m14; m15] in
    (r < 7)%nat -> Forall P s -> Forall P m ->
    Forall P (roundS add1 xor1 rot1 d1 s m r) /\
    length (roundS add1 xor1 rot1 d1 s m r) = 16%nat /\
    map h (roundS add1 xor1 rot1 d1 s m r) = roundS add2 xor2 rot2 d2 (map h s) (map h m) r.
  Proof.
    intros s m Hr Fs Fm. subst s m.
    repeat match goal with H : Forall _ (_ :: _) |- _ => inversion H; clear H; subst end.
    cbn [map]. unfold roundS.
    do 7 (destruct r as [|r];
      [ repeat match goal with |- context [mw ?d ?mm ?rr ?k] =>
                 let v := eval cbv in (mw d mm rr k) in change (mw d mm rr k) with v end;
        repeat match goal with
        | |- context [gS add1 xor1 rot1 ?a ?b ?c ?d ?x ?y] =>
            let H := fresh "H" in
            pose proof (gS_hom a b c d x y ltac:(assumption) ltac:(assumption) ltac:(assumption)
                               ltac:(assumption) ltac:(assumption) ltac:(assumption)) as H;
            destruct (gS add1 xor1 rot1 a b c d x y) as [[[? ?] ?] ?];
            destruct H as (? & ? & ? & ? & ->)
        end;
        split; [repeat constructor; assumption | split; reflexivity]
      |]).
    lia.
  Qed.
End Hom.

(* ------------------------------------------------------------------ *)
(* C. lane projection of the vector operations                         *)
(* ------------------------------------------------------------------ *)
Definition lane (i : nat) (vs : list vec) : list N := map (fun v => nth i v 0) vs.
Definition wf (n : nat) (v : vec) : Prop := length v = n.

Lemma vmap2_length f a b : length (vmap2 f a b) = Nat.min (length a) (length b).
Proof. unfold vmap2. rewrite map_length, combine_length. reflexivity. Qed.

Lemma nth_map_lt {A B} (f : A -> B) (l : list A) (i : nat) (dA : A) (dB : B) :
  (i < length l)%nat -> nth i (map f l) dB = f (nth i l dA).
Proof.
  revert i. induction l as [|x l IH]; intros [|i] Hi; cbn in *; try lia; [reflexivity|].
  apply IH. lia.
Qed.

Lemma vmap2_nth f a b i : length a = length b -> (i < length a)%nat ->
  nth i (vmap2 f a b) 0 = f (nth i a 0) (nth i b 0).
Proof.
  intros Hl Hi. unfold vmap2.
  rewrite (nth_map_lt _ _ _ (0, 0)) by (rewrite combine_length; lia).
  rewrite combine_nth by exact Hl. reflexivity.
Qed.

Lemma map_nth0 (f : N -> N) a i : (i < length a)%nat -> nth i (map f a) 0 = f (nth i a 0).
Proof. apply nth_map_lt. Qed.

Lemma vset1_length n x : length (vset1 n x) = n.
Proof. apply repeat_length. Qed.
Lemma vset1_nth n x i : (i < n)%nat -> nth i (vset1 n x) 0 = x.
Proof. unfold vset1. revert i. induction n as [|n IH]; intros [|i] Hi; cbn; try lia; try reflexivity. apply IH. lia. Qed.

Section Lanes.
  Variables (n i : nat).
  Hypothesis Hi : (i < n)%nat.
  Let hl (v : vec) : N := nth i v 0.

  Lemma vadd_hom a b : wf n a -> wf n b -> wf n (vadd a b) /\ hl (vadd a b) = add32 (hl a) (hl b).
  Proof.
    unfold wf, vadd, hl. intros Ha Hb. split.
    - rewrite vmap2_length. lia.
    - apply vmap2_nth; lia.
  Qed.
  Lemma vxor_hom a b : wf n a -> wf n b -> wf n (vxor a b) /\ hl (vxor a b) = xor32 (hl a) (hl b).
  Proof.
    unfold wf, vxor, hl. intros Ha Hb. split.
    - rewrite vmap2_length. lia.
    - apply vmap2_nth; lia.
  Qed.
  Lemma vrot_hom a r : wf n a -> wf n (vrot a r) /\ hl (vrot a r) = rotr32 (hl a) r.
  Proof.
    unfold wf, vrot, hl. intros Ha. split.
    - rewrite map_length. exact Ha.
    - apply (map_nth0 (fun x => rotr32 x r)). lia.
  Qed.

  (* lane_lift: ANY function built from lane-wise add / xor / rot, read at lane i, is the
     scalar function of the lane-i inputs *)
  Inductive wexpr := WVar (k : nat) | WAdd (a b : wexpr) | WXor (a b : wexpr) | WRot (a : wexpr) (r : N).
  Fixpoint eval_vec (env : nat -> vec) (e : wexpr) : vec :=
    match e with
    | WVar k => env k
    | WAdd a b => vadd (eval_vec env a) (eval_vec env b)
    | WXor a b => vxor (eval_vec env a) (eval_vec env b)
    | WRot a r => vrot (eval_vec env a) r
    end.
  Fixpoint eval_word (env : nat -> N) (e : wexpr) : N :=
    match e with
    | WVar k => env k
    | WAdd a b => add32 (eval_word env a) (eval_word env b)
    | WXor a b => xor32 (eval_word env a) (eval_word env b)
    | WRot a r => rotr32 (eval_word env a) r
    end.

  Theorem lane_lift (env : nat -> vec) (e : wexpr) :
    (forall k, length (env k) = n) ->
    length (eval_vec env e) = n /\
    nth i (eval_vec env e) 0 = eval_word (fun k => nth i (env k) 0) e.
  Proof.
    intros Henv. induction e as [k|a [La Ea] b [Lb Eb]|a [La Ea] b [Lb Eb]|a [La Ea] r]; cbn [eval_vec eval_word].
    - split; [apply Henv|reflexivity].
    - destruct (vadd_hom _ _ La Lb) as [L E]. split; [exact L|]. unfold hl in E. rewrite E, Ea, Eb. reflexivity.
    - destruct (vxor_hom _ _ La Lb) as [L E]. split; [exact L|]. unfold hl in E. rewrite E, Ea, Eb. reflexivity.
    - destruct (vrot_hom _ r La) as [L E]. split; [exact L|]. unfold hl in E. rewrite E, Ea. reflexivity.
  Qed.

  (* one vector round, read at lane i, is the portable round of the lane-i state and message *)
  Lemma vround_lane (v msg : list vec) (r : nat) :
    (r < 7)%nat -> length v = 16%nat -> length msg = 16%nat -> Forall (wf n) v -> Forall (wf n) msg ->
    Forall (wf n) (vround v msg r) /\ length (vround v msg r) = 16%nat /\
    lane i (vround v msg r) = Portable.round (lane i v) (lane i msg) r.
  Proof.
    intros Hr Lv Lm Fv Fm.
    destruct (length16_inv v Lv) as (s0&s1&s2&s3&s4&s5&s6&s7&s8&s9&s10&s11&s12&s13&s14&s15&->).
    destruct (length16_inv msg Lm) as (m0&m1&m2&m3&m4&m5&m6&m7&m8&m9&m10&m11&m12&m13&m14&m15&->).
    unfold vround. rewrite round_src_roundS.
    pose proof (roundS_hom vadd vxor vrot [] add32 xor32 rotr32 0 hl (wf n) vadd_hom vxor_hom vrot_hom
                  s0 s1 s2 s3 s4 s5 s6 s7 s8 s9 s10 s11 s12 s13 s14 s15
                  m0 m1 m2 m3 m4 m5 m6 m7 m8 m9 m10 m11 m12 m13 m14 m15 r Hr Fv Fm) as (F & L & E).
    split; [exact F|]. split; [exact L|].
    rewrite <- roundS_scalar. exact E.
  Qed.
End Lanes.

(* seven portable rounds on explicit message words *)
Definition rounds7w (s w : list N) : list N :=
  Portable.round (Portable.round (Portable.round (Portable.round (Portable.round (Portable.round
    (Portable.round s w 0) w 1) w 2) w 3) w 4) w 5) w 6.

Lemma vrounds7_lane n i (v msg : list vec) :
  (i < n)%nat -> length v = 16%nat -> length msg = 16%nat -> Forall (wf n) v -> Forall (wf n) msg ->
  Forall (wf n) (vrounds7 v msg) /\ length (vrounds7 v msg) = 16%nat /\
  lane i (vrounds7 v msg) = rounds7w (lane i v) (lane i msg).
Proof.
  intros Hi Lv Lm Fv Fm. unfold vrounds7, rounds7w. cbv zeta.
  destruct (vround_lane n i Hi v msg 0 ltac:(lia) Lv Lm Fv Fm) as (F0 & L0 & <-).
  destruct (vround_lane n i Hi _ msg 1 ltac:(lia) L0 Lm F0 Fm) as (F1 & L1 & <-).
  destruct (vround_lane n i Hi _ msg 2 ltac:(lia) L1 Lm F1 Fm) as (F2 & L2 & <-).
  destruct (vround_lane n i Hi _ msg 3 ltac:(lia) L2 Lm F2 Fm) as (F3 & L3 & <-).
  destruct (vround_lane n i Hi _ msg 4 ltac:(lia) L3 Lm F3 Fm) as (F4 & L4 & <-).
  destruct (vround_lane n i Hi _ msg 5 ltac:(lia) L4 Lm F4 Fm) as (F5 & L5 & <-).
  destruct (vround_lane n i Hi _ msg 6 ltac:(lia) L5 Lm F5 Fm) as (F6 & L6 & <-).
  auto.
Qed.

(* ------------------------------------------------------------------ *)
(* D. one transposed compression, read at lane i                       *)
(* ------------------------------------------------------------------ *)
Definition cipw (cv w : list N) (lo hi bl fl : N) : list N :=
  let st := rounds7w (cv ++ firstn 4 rs_IV ++ [lo; hi; bl; fl]) w in
  xor_pairs (firstn 8 st) (skipn 8 st).

Lemma compress_in_place_cipw cv block bl ctr fl :
  compress_in_place cv block bl ctr fl = cipw cv (words_of_bytes block) (ctr_lo ctr) (ctr_hi ctr) bl fl.
Proof. unfold compress_in_place, compress_pre, cipw, rounds7w. reflexivity. Qed.

Lemma lane_app i a b : lane i (a ++ b) = lane i a ++ lane i b.
Proof. apply map_app. Qed.
Lemma lane_firstn i k v : lane i (firstn k v) = firstn k (lane i v).
Proof. symmetry. apply firstn_map. Qed.
Lemma lane_skipn i k v : lane i (skipn k v) = skipn k (lane i v).
Proof. symmetry. apply skipn_map. Qed.
Lemma lane_length i v : length (lane i v) = length v.
Proof. apply map_length. Qed.

Lemma Forall_firstn {A} (P : A -> Prop) k l : Forall P l -> Forall P (firstn k l).
Proof. revert l. induction k; intros [|x l] H; cbn; auto. inversion H; subst. constructor; auto. Qed.
Lemma Forall_skipn {A} (P : A -> Prop) k l : Forall P l -> Forall P (skipn k l).
Proof. revert l. induction k; intros [|x l] H; cbn; auto. inversion H; subst. auto. Qed.

Lemma vxor_pairs_lane n i a b : (i < n)%nat -> Forall (wf n) a -> Forall (wf n) b ->
  Forall (wf n) (vxor_pairs a b) /\ lane i (vxor_pairs a b) = xor_pairs (lane i a) (lane i b).
Proof.
  intros Hi Fa. revert b. induction Fa as [|x a Hx Fa IH]; intros b Fb.
  - split; [constructor|reflexivity].
  - destruct Fb as [|y b Hy Fb]; [split; [constructor|reflexivity]|].
    destruct (IH b Fb) as [F E]. destruct (vxor_hom n i Hi x y Hx Hy) as [W X].
    unfold vxor_pairs, xor_pairs, lane in *. cbn [combine map fst snd]. split.
    + constructor; assumption.
    + f_equal; assumption.
Qed.

Lemma vstate_lane n i h clo chi bl fl : (i < n)%nat -> length h = 8%nat ->
  Forall (wf n) h -> wf n clo -> wf n chi ->
  Forall (wf n) (vstate n h clo chi bl fl) /\ length (vstate n h clo chi bl fl) = 16%nat /\
  lane i (vstate n h clo chi bl fl) = lane i h ++ firstn 4 rs_IV ++ [nth i clo 0; nth i chi 0; bl; fl].
Proof.
  intros Hi Lh Fh Wlo Whi. unfold vstate. split; [|split].
  - apply Forall_app. split; [exact Fh|]. repeat constructor; try assumption; apply vset1_length.
  - rewrite app_length, Lh. reflexivity.
  - rewrite lane_app. f_equal. unfold lane. cbn [map]. rewrite !vset1_nth by exact Hi. reflexivity.
Qed.

Lemma xor_pairs_length a b : length (xor_pairs a b) = Nat.min (length a) (length b).
Proof. unfold xor_pairs. rewrite map_length, combine_length. reflexivity. Qed.
Lemma vxor_pairs_length a b : length (vxor_pairs a b) = Nat.min (length a) (length b).
Proof. unfold vxor_pairs. rewrite map_length, combine_length. reflexivity. Qed.

Lemma vcompress_lane n i h msg clo chi bl fl : (i < n)%nat -> length h = 8%nat -> length msg = 16%nat ->
  Forall (wf n) h -> Forall (wf n) msg -> wf n clo -> wf n chi ->
  Forall (wf n) (vcompress n h msg clo chi bl fl) /\ length (vcompress n h msg clo chi bl fl) = 8%nat /\
  lane i (vcompress n h msg clo chi bl fl) = cipw (lane i h) (lane i msg) (nth i clo 0) (nth i chi 0) bl fl.
Proof.
  intros Hi Lh Lm Fh Fm Wlo Whi. unfold vcompress, cipw. cbv zeta.
  destruct (vstate_lane n i h clo chi bl fl Hi Lh Fh Wlo Whi) as (Fs & Ls & Es).
  destruct (vrounds7_lane n i _ msg Hi Ls Lm Fs Fm) as (Fr & Lr & Er).
  rewrite <- Es, <- Er.
  destruct (vxor_pairs_lane n i (firstn 8 (vrounds7 (vstate n h clo chi bl fl) msg))
              (skipn 8 (vrounds7 (vstate n h clo chi bl fl) msg)) Hi
              (Forall_firstn _ _ _ Fr) (Forall_skipn _ _ _ Fr)) as (Fx & Ex).
  split; [exact Fx|]. split.
  - rewrite vxor_pairs_length, firstn_length, skipn_length, Lr. reflexivity.
  - rewrite Ex, lane_firstn, lane_skipn. reflexivity.
Qed.

(* ------------------------------------------------------------------ *)
(* E. the unpack/permute sequences are transpositions                  *)
(* ------------------------------------------------------------------ *)
(* row j of the transpose = column j of the matrix *)
Definition tr_spec {A} (d : A) (k : nat) (M : list (list A)) : list (list A) :=
  map (fun j => map (fun row => nth j row d) M) (seq 0 k).

Ltac expl r H :=
  repeat (destruct r as [|? r]; [discriminate H|]); (destruct r; [|discriminate H]).
Ltac expl_rows :=
  repeat match goal with H : Forall _ (_ :: _) |- _ => inversion H; clear H; subst end;
  repeat match goal with H : Forall _ [] |- _ => clear H end;
  repeat match goal with H : length ?r = _ |- _ => is_var r; expl r H; clear H end.

Theorem transpose_vecs_128_ok {A} (d : A) (M : list (list A)) :
  length M = 4%nat -> Forall (fun r => length r = 4%nat) M ->
  transpose_vecs_128 d M = tr_spec d 4 M.
Proof. intros L F. expl M L. expl_rows. reflexivity. Qed.

Theorem transpose_vecs_256_ok {A} (d : A) (M : list (list A)) :
  length M = 8%nat -> Forall (fun r => length r = 8%nat) M ->
  transpose_vecs_256 d M = tr_spec d 8 M.
Proof. intros L F. expl M L. expl_rows. reflexivity. Qed.

Theorem transpose_vecs_512_ok {A} (d : A) (M : list (list A)) :
  length M = 16%nat -> Forall (fun r => length r = 16%nat) M ->
  transpose_vecs_512 d M = tr_spec d 16 M.
Proof. intros L F. expl M L. expl_rows. reflexivity. Qed.

(* ------------------------------------------------------------------ *)
(* F. transposed message load and transposed store                     *)
(* ------------------------------------------------------------------ *)
Lemma map_nth_seq {A} (d : A) (l : list A) : map (fun j => nth j l d) (seq 0 (length l)) = l.
Proof.
  induction l as [|x l IH]; [reflexivity|].
  cbn [length seq map nth]. f_equal. rewrite <- seq_shift, map_map. exact IH.
Qed.

Lemma nth_seq0 i n : (i < n)%nat -> nth i (seq 0 n) 0%nat = i.
Proof. intros H. rewrite seq_nth by exact H. reflexivity. Qed.

Lemma tr_spec_wf k (M : list vec) : Forall (wf (length M)) (tr_spec 0 k M) /\ length (tr_spec 0 k M) = k.
Proof.
  unfold tr_spec. split.
  - apply Forall_forall. intros v Hv. apply in_map_iff in Hv. destruct Hv as (j & <- & _).
    unfold wf. apply map_length.
  - rewrite map_length, seq_length. reflexivity.
Qed.

Lemma tr_spec_lane k i (M : list vec) : (i < length M)%nat -> length (nth i M []) = k ->
  lane i (tr_spec 0 k M) = nth i M [].
Proof.
  intros Hi Hk. unfold lane, tr_spec. rewrite map_map.
  transitivity (map (fun j => nth j (nth i M []) 0) (seq 0 k)).
  - apply map_ext. intros j. apply (nth_map_lt (fun row => nth j row 0) M i [] 0 Hi).
  - rewrite <- Hk. apply map_nth_seq.
Qed.

(* the j-th row vector of the transpose holds word j of every row *)
Lemma tr_spec_row k j (M : list vec) : (j < k)%nat ->
  nth j (tr_spec 0 k M) [] = map (fun row => nth j row 0) M.
Proof.
  intros Hj. unfold tr_spec.
  rewrite (nth_map_lt _ _ _ 0%nat) by (rewrite seq_length; exact Hj).
  rewrite nth_seq0 by exact Hj. reflexivity.
Qed.

Definition tr_ok (n : nat) (tr : list vec -> list vec) : Prop :=
  forall M, length M = n -> Forall (wf n) M -> tr M = tr_spec 0 n M.

Lemma tr_ok_128 : tr_ok 4 (transpose_vecs_128 0).
Proof. intros M L F. apply transpose_vecs_128_ok; assumption. Qed.
Lemma tr_ok_256 : tr_ok 8 (transpose_vecs_256 0).
Proof. intros M L F. apply transpose_vecs_256_ok; assumption. Qed.
Lemma tr_ok_512 : tr_ok 16 (transpose_vecs_512 0).
Proof. intros M L F. apply transpose_vecs_512_ok; assumption. Qed.

Lemma loadu_length k src off : (off + 4 * k <= length src)%nat -> length (loadu k src off) = k.
Proof.
  intros H. unfold loadu. apply words_of_bytes_length.
  rewrite firstn_length, skipn_length. lia.
Qed.

Lemma square_lane n tr (inputs : list (list N)) off i :
  tr_ok n tr -> (i < n)%nat ->
  (forall j, (j < n)%nat -> (off + 4 * n <= length (inp inputs j))%nat) ->
  let sq := tr (map (fun j => loadu n (inp inputs j) off) (seq 0 n)) in
  Forall (wf n) sq /\ length sq = n /\ lane i sq = loadu n (inp inputs i) off.
Proof.
  intros Htr Hi Hlen sq. subst sq.
  set (M := map (fun j => loadu n (inp inputs j) off) (seq 0 n)).
  assert (LM : length M = n) by (unfold M; rewrite map_length, seq_length; reflexivity).
  assert (FM : Forall (wf n) M).
  { unfold M. apply Forall_forall. intros v Hv. apply in_map_iff in Hv. destruct Hv as (j & <- & Hj).
    apply in_seq in Hj. apply loadu_length, Hlen. lia. }
  assert (Ei : nth i M [] = loadu n (inp inputs i) off).
  { unfold M. rewrite (nth_map_lt _ _ _ 0%nat) by (rewrite seq_length; exact Hi).
    rewrite nth_seq0 by exact Hi. reflexivity. }
  rewrite (Htr M LM FM).
  destruct (tr_spec_wf n M) as [F L]. rewrite LM in F.
  split; [exact F|]. split; [exact L|].
  rewrite tr_spec_lane; [exact Ei|lia|]. rewrite Ei. apply loadu_length, Hlen, Hi.
Qed.

Lemma wob_app a b k : length a = (4 * k)%nat -> words_of_bytes (a ++ b) = words_of_bytes a ++ words_of_bytes b.
Proof.
  revert a. induction k as [|k IH]; intros a H.
  - destruct a; [reflexivity|discriminate].
  - destruct a as [|b0 [|b1 [|b2 [|b3 a]]]]; try (cbn in H; lia).
    cbn [app words_of_bytes]. f_equal. apply IH. cbn [length] in H. lia.
Qed.

Lemma firstn_plus {A} (a b : nat) (l : list A) : firstn (a + b) l = firstn a l ++ firstn b (skipn a l).
Proof.
  revert l. induction a as [|a IH]; intros l; [reflexivity|].
  destruct l as [|x l]; [cbn; destruct b; reflexivity|]. cbn [Nat.add firstn skipn app]. f_equal. apply IH.
Qed.

(* a load of 4k+m bytes' worth of words splits into two loads *)
Lemma loadu_split k m src off : (off + 4 * k <= length src)%nat ->
  words_of_bytes (firstn (4 * k + m) (skipn off src)) =
  loadu k src off ++ words_of_bytes (firstn m (skipn (off + 4 * k) src)).
Proof.
  intros H. unfold loadu. rewrite firstn_plus, (wob_app _ _ k).
  - rewrite skipn_skipn. reflexivity.
  - rewrite firstn_length, skipn_length. lia.
Qed.

Lemma load64_8 src off : (off + 64 <= length src)%nat ->
  words_of_bytes (firstn 64 (skipn off src)) = loadu 8 src off ++ loadu 8 src (off + 32).
Proof.
  intros H. change (@firstn N 64) with (@firstn N (4 * 8 + 32)).
  rewrite (loadu_split 8 32 src off) by lia. reflexivity.
Qed.

Lemma load64_4 src off : (off + 64 <= length src)%nat ->
  words_of_bytes (firstn 64 (skipn off src)) =
  loadu 4 src off ++ loadu 4 src (off + 16) ++ loadu 4 src (off + 32) ++ loadu 4 src (off + 48).
Proof.
  intros H. change (@firstn N 64) with (@firstn N (4 * 4 + 48)).
  rewrite (loadu_split 4 48 src off) by lia.
  change (@firstn N 48) with (@firstn N (4 * 4 + 32)).
  rewrite (loadu_split 4 32 src (off + 4 * 4)) by lia.
  change (@firstn N 32) with (@firstn N (4 * 4 + 16)).
  rewrite (loadu_split 4 16 src (off + 4 * 4 + 4 * 4)) by lia.
  replace (off + 4 * 4 + 4 * 4 + 4 * 4)%nat with (off + 48)%nat by lia.
  replace (off + 4 * 4 + 4 * 4)%nat with (off + 32)%nat by lia.
  replace (off + 4 * 4)%nat with (off + 16)%nat by lia.
  reflexivity.
Qed.

Definition tmsg_ok (n : nat) (tmsg : list (list N) -> nat -> list vec) : Prop :=
  forall inputs off i, (i < n)%nat ->
    (forall j, (j < n)%nat -> (off + 64 <= length (inp inputs j))%nat) ->
    Forall (wf n) (tmsg inputs off) /\ length (tmsg inputs off) = 16%nat /\
    lane i (tmsg inputs off) = words_of_bytes (firstn 64 (skipn off (inp inputs i))).

Lemma tmsg_ok_4 : tmsg_ok 4 transpose_msg_vecs4.
Proof.
  intros inputs off i Hi Hlen.
  unfold transpose_msg_vecs4, transpose_msg_vecs.
  change (Nat.div 16 4) with 4%nat. cbn [seq flat_map]. rewrite app_nil_r.
  destruct (square_lane 4 _ inputs (off + 4 * 4 * 0) i tr_ok_128 Hi) as (F0 & L0 & E0).
  { intros j Hj. specialize (Hlen j Hj). lia. }
  destruct (square_lane 4 _ inputs (off + 4 * 4 * 1) i tr_ok_128 Hi) as (F1 & L1 & E1).
  { intros j Hj. specialize (Hlen j Hj). lia. }
  destruct (square_lane 4 _ inputs (off + 4 * 4 * 2) i tr_ok_128 Hi) as (F2 & L2 & E2).
  { intros j Hj. specialize (Hlen j Hj). lia. }
  destruct (square_lane 4 _ inputs (off + 4 * 4 * 3) i tr_ok_128 Hi) as (F3 & L3 & E3).
  { intros j Hj. specialize (Hlen j Hj). lia. }
  cbv zeta in *. cbn [seq] in *. split; [|split].
  - repeat (apply Forall_app; split); assumption.
  - rewrite !app_length, L0, L1, L2, L3. reflexivity.
  - rewrite !lane_app, E0, E1, E2, E3. specialize (Hlen i Hi).
    rewrite (load64_4 _ off Hlen).
    replace (off + 4 * 4 * 0)%nat with off by lia.
    replace (off + 4 * 4 * 1)%nat with (off + 16)%nat by lia.
    replace (off + 4 * 4 * 2)%nat with (off + 32)%nat by lia.
    replace (off + 4 * 4 * 3)%nat with (off + 48)%nat by lia.
    reflexivity.
Qed.

Lemma tmsg_ok_8 : tmsg_ok 8 transpose_msg_vecs8.
Proof.
  intros inputs off i Hi Hlen.
  unfold transpose_msg_vecs8, transpose_msg_vecs.
  change (Nat.div 16 8) with 2%nat. cbn [seq flat_map]. rewrite app_nil_r.
  destruct (square_lane 8 _ inputs (off + 4 * 8 * 0) i tr_ok_256 Hi) as (F0 & L0 & E0).
  { intros j Hj. specialize (Hlen j Hj). lia. }
  destruct (square_lane 8 _ inputs (off + 4 * 8 * 1) i tr_ok_256 Hi) as (F1 & L1 & E1).
  { intros j Hj. specialize (Hlen j Hj). lia. }
  cbv zeta in *. cbn [seq] in *. split; [|split].
  - repeat (apply Forall_app; split); assumption.
  - rewrite !app_length, L0, L1. reflexivity.
  - rewrite !lane_app, E0, E1. specialize (Hlen i Hi).
    rewrite (load64_8 _ off Hlen).
    replace (off + 4 * 8 * 0)%nat with off by lia.
    replace (off + 4 * 8 * 1)%nat with (off + 32)%nat by lia.
    reflexivity.
Qed.

Lemma tmsg_ok_16 : tmsg_ok 16 transpose_msg_vecs16.
Proof.
  intros inputs off i Hi Hlen.
  unfold transpose_msg_vecs16, transpose_msg_vecs.
  change (Nat.div 16 16) with 1%nat. cbn [seq flat_map]. rewrite app_nil_r.
  destruct (square_lane 16 _ inputs (off + 4 * 16 * 0) i tr_ok_512 Hi) as (F0 & L0 & E0).
  { intros j Hj. specialize (Hlen j Hj). lia. }
  cbv zeta in *. cbn [seq] in *. split; [|split]; try assumption.
  rewrite E0. replace (off + 4 * 16 * 0)%nat with off by lia. reflexivity.
Qed.

(* the transposed stores give one CV per lane *)
Definition store_ok (n : nat) (store : list vec -> list (list N)) : Prop :=
  forall h, length h = 8%nat -> Forall (wf n) h ->
    store h = map (fun i => bytes_of_words (lane i h)) (seq 0 n).

Lemma store_ok_4 : store_ok 4 store4.
Proof.
  intros h L F. unfold store4. cbv zeta.
  rewrite (tr_ok_128 (firstn 4 h)) by (try apply Forall_firstn; try rewrite firstn_length; try assumption; lia).
  rewrite (tr_ok_128 (skipn 4 h)) by (try apply Forall_skipn; try rewrite skipn_length; try assumption; lia).
  apply map_ext_in. intros i Hi. apply in_seq in Hi. unfold vk.
  rewrite !tr_spec_row by lia. rewrite <- map_app, firstn_skipn. reflexivity.
Qed.

Lemma store_ok_8 : store_ok 8 store8.
Proof.
  intros h L F. unfold store8. rewrite (tr_ok_256 h L F). unfold tr_spec. rewrite map_map. reflexivity.
Qed.

Lemma store_ok_16 : store_ok 16 store16.
Proof.
  intros h L F. unfold store16.
  rewrite (tr_ok_512 (h ++ repeat (vset1 16 0) 8)).
  - unfold tr_spec. rewrite map_map. apply map_ext. intros j. f_equal.
    unfold lane. rewrite map_app, firstn_app, map_length, L. change (8 - 8)%nat with 0%nat.
    rewrite firstn_O, app_nil_r. apply firstn_all2. rewrite map_length. unfold vec in L. rewrite L. apply Nat.le_refl.
  - rewrite app_length, L. reflexivity.
  - apply Forall_app. split; [exact F|]. repeat constructor.
Qed.

(* ------------------------------------------------------------------ *)
(* G. hashN = hash1 on every lane                                      *)
(* ------------------------------------------------------------------ *)
Definition lane_ctr (counter : N) (incr : bool) (i : nat) : N :=
  if incr then counter + N.of_nat i else counter.

Definition lc_ok (n : nat) (lc : N -> bool -> res (vec * vec)) : Prop :=
  forall counter incr, counter + N.of_nat n <= 2 ^ 64 ->
    exists clo chi, lc counter incr = Ok (clo, chi) /\ wf n clo /\ wf n chi /\
      forall i, (i < n)%nat ->
        nth i clo 0 = ctr_lo (lane_ctr counter incr i) /\ nth i chi 0 = ctr_hi (lane_ctr counter incr i).

(* the value of Portable.hash1 *)
Definition h1w (input key : list N) (ctr flags fs fe : N) : list N :=
  bytes_of_words (hash1_go (S (Nat.div (length input) 64)) key input ctr flags (N.lor flags fs) fe).

Lemma hash1_h1w input key ctr flags fs fe : (Nat.modulo (length input) 64 = 0)%nat ->
  hash1 input key ctr flags fs fe = Ok (h1w input key ctr flags fs fe).
Proof.
  intros H. unfold hash1. rewrite bind_check_true; [reflexivity|].
  change rs_BLOCK_LEN with 64. apply N.eqb_eq.
  apply Nat.mod_divides in H; [|discriminate]. destruct H as [c ->]. lia.
Qed.

Lemma hash1_go_S fuel cv input ctr flags bf fe :
  hash1_go (S fuel) cv input ctr flags bf fe =
  if N.of_nat (length input) <? 64 then cv
  else hash1_go fuel
         (compress_in_place cv (firstn 64 input) 64 ctr
            (if N.of_nat (length input) =? 64 then N.lor bf fe else bf))
         (skipn 64 input) ctr flags flags fe.
Proof. reflexivity. Qed.

Lemma hashN_loop_S n tmsg inputs clo chi flags fe todo block blocks bf h :
  hashN_loop n tmsg inputs clo chi flags fe (S todo) block blocks bf h =
  hashN_loop n tmsg inputs clo chi flags fe todo (S block) blocks flags
    (vcompress n h (tmsg inputs (block * 64)%nat) clo chi rs_BLOCK_LEN
       (if (block + 1 =? blocks)%nat then N.lor bf fe else bf)).
Proof. unfold hashN_loop at 1. fold hashN_loop. reflexivity. Qed.

Lemma hashN_loop_lane n tmsg inputs i clo chi flags fe blocks ctr :
  tmsg_ok n tmsg -> (i < n)%nat -> wf n clo -> wf n chi ->
  nth i clo 0 = ctr_lo ctr -> nth i chi 0 = ctr_hi ctr ->
  (forall j, (j < n)%nat -> length (inp inputs j) = (blocks * 64)%nat) ->
  forall todo block bf h fuel, (todo + block = blocks)%nat -> length h = 8%nat -> Forall (wf n) h ->
    (todo < fuel)%nat ->
    Forall (wf n) (hashN_loop n tmsg inputs clo chi flags fe todo block blocks bf h) /\
    length (hashN_loop n tmsg inputs clo chi flags fe todo block blocks bf h) = 8%nat /\
    lane i (hashN_loop n tmsg inputs clo chi flags fe todo block blocks bf h) =
    hash1_go fuel (lane i h) (skipn (block * 64) (inp inputs i)) ctr flags bf fe.
Proof.
  intros Ht Hi Wlo Whi Elo Ehi Hlen.
  induction todo as [|todo IH]; intros block bf h fuel Hb Lh Fh Hf.
  - split; [exact Fh|]. split; [exact Lh|].
    destruct fuel as [|fuel]; [lia|]. rewrite hash1_go_S.
    rewrite skipn_all2 by (rewrite (Hlen i Hi); lia). reflexivity.
  - rewrite hashN_loop_S. change rs_BLOCK_LEN with 64. destruct fuel as [|fuel]; [lia|]. rewrite hash1_go_S.
    assert (Ll : length (skipn (block * 64) (inp inputs i)) = (S todo * 64)%nat).
    { rewrite skipn_length, (Hlen i Hi). lia. }
    rewrite Ll.
    replace (N.of_nat (S todo * 64) <? 64) with false by lia.
    destruct (Ht inputs (block * 64)%nat i Hi) as (Fm & Lm & Em).
    { intros j Hj. rewrite (Hlen j Hj). nia. }
    replace (N.of_nat (S todo * 64) =? 64) with (block + 1 =? blocks)%nat.
    2:{ destruct (Nat.eqb_spec (block + 1) blocks) as [E|E]; symmetry; [apply N.eqb_eq|apply N.eqb_neq]; lia. }
    set (bf' := if (block + 1 =? blocks)%nat then N.lor bf fe else bf).
    destruct (vcompress_lane n i h (tmsg inputs (block * 64)%nat) clo chi 64 bf' Hi Lh Lm Fh Fm Wlo Whi)
      as (Fc & Lc & Ec).
    destruct (IH (S block) flags (vcompress n h (tmsg inputs (block * 64)%nat) clo chi 64 bf') fuel
                 ltac:(lia) Lc Fc ltac:(lia)) as (F' & L' & E').
    split; [exact F'|]. split; [exact L'|].
    rewrite E', Ec, Em, Elo, Ehi, <- compress_in_place_cipw.
    rewrite skipn_skipn. replace (block * 64 + 64)%nat with (S block * 64)%nat by lia.
    reflexivity.
Qed.

Lemma init_h_lane n i key : (i < n)%nat -> length key = 8%nat ->
  let h := map (fun k => vset1 n (nth k key 0)) (seq 0 8) in
  Forall (wf n) h /\ length h = 8%nat /\ lane i h = key.
Proof.
  intros Hi Lk h. subst h. split; [|split].
  - apply Forall_forall. intros v Hv. apply in_map_iff in Hv. destruct Hv as (k & <- & _). apply vset1_length.
  - rewrite map_length. reflexivity.
  - unfold lane. rewrite map_map.
    transitivity (map (fun k => nth k key 0) (seq 0 8)).
    + apply map_ext. intros k. apply vset1_nth, Hi.
    + rewrite <- Lk. apply map_nth_seq.
Qed.

Theorem hashN_gen_ok n tmsg lc store : (0 < n)%nat -> tmsg_ok n tmsg -> lc_ok n lc -> store_ok n store ->
  forall inputs blocks key counter incr flags fs fe,
    length key = 8%nat ->
    (forall j, (j < n)%nat -> length (inp inputs j) = (blocks * 64)%nat) ->
    counter + N.of_nat n <= 2 ^ 64 ->
    hashN_gen n tmsg lc store inputs blocks key counter incr flags fs fe =
    Ok (map (fun i => h1w (inp inputs i) key (lane_ctr counter incr i) flags fs fe) (seq 0 n)).
Proof.
  intros Hn Ht Hlc Hst inputs blocks key counter incr flags fs fe Lk Hlen Hc.
  unfold hashN_gen. cbv zeta.
  destruct (Hlc counter incr Hc) as (clo & chi & -> & Wlo & Whi & Hlanes). cbn [bind].
  f_equal.
  set (h0 := map (fun k => vset1 n (nth k key 0)) (seq 0 8)).
  assert (Hall : forall i, (i < n)%nat ->
    Forall (wf n) (hashN_loop n tmsg inputs clo chi flags fe blocks 0 blocks (N.lor flags fs) h0) /\
    length (hashN_loop n tmsg inputs clo chi flags fe blocks 0 blocks (N.lor flags fs) h0) = 8%nat /\
    lane i (hashN_loop n tmsg inputs clo chi flags fe blocks 0 blocks (N.lor flags fs) h0) =
    hash1_go (S blocks) key (inp inputs i) (lane_ctr counter incr i) flags (N.lor flags fs) fe).
  { intros i Hi. destruct (init_h_lane n i key Hi Lk) as (F0 & L0 & E0). fold h0 in F0, L0, E0.
    destruct (Hlanes i Hi) as [Elo Ehi].
    destruct (hashN_loop_lane n tmsg inputs i clo chi flags fe blocks (lane_ctr counter incr i)
                Ht Hi Wlo Whi Elo Ehi Hlen blocks 0%nat (N.lor flags fs) h0 (S blocks)
                ltac:(lia) L0 F0 ltac:(lia)) as (F & L & E).
    split; [exact F|]. split; [exact L|]. rewrite E, E0. reflexivity. }
  destruct (Hall 0%nat Hn) as (F & L & _).
  rewrite (Hst _ L F). apply map_ext_in. intros i Hi. apply in_seq in Hi.
  destruct (Hall i ltac:(lia)) as (_ & _ & E). unfold h1w. rewrite E.
  rewrite (Hlen i ltac:(lia)), Nat.div_mul by discriminate. reflexivity.
Qed.

(* ------------------------------------------------------------------ *)
(* H. load_counters, all four source variants                          *)
(* ------------------------------------------------------------------ *)
Lemma ctr_lo_mod c : ctr_lo c = c mod 4294967296.
Proof.
  unfold ctr_lo, rs_counter_low, mu, mi_cast. cbn [bind]. rewrite N.land_ones. reflexivity.
Qed.
Lemma ctr_hi_mod c : ctr_hi c = (c / 4294967296) mod 4294967296.
Proof.
  unfold ctr_hi, rs_counter_high, mu, mb, mi_cast, mi_shr. cbn [bind].
  replace (32 <? 64) with true by reflexivity. cbn [bind].
  rewrite N.land_ones, N.shiftr_div_pow2. reflexivity.
Qed.
Lemma w32_mod x : w32 x = x mod 4294967296.
Proof. unfold w32, mask32. change 0xFFFFFFFF with (N.ones 32). rewrite N.land_ones. reflexivity. Qed.

Lemma lane_ids_length n : length (lane_ids n) = n.
Proof. unfold lane_ids. rewrite map_length, seq_length. reflexivity. Qed.
Lemma lane_ids_nth n i : (i < n)%nat -> nth i (lane_ids n) 0 = N.of_nat i.
Proof.
  intros H. unfold lane_ids. rewrite (nth_map_lt _ _ _ 0%nat) by (rewrite seq_length; exact H).
  rewrite nth_seq0 by exact H. reflexivity.
Qed.

Lemma res_map_ok {A B} (f : A -> res B) (g : A -> B) l :
  (forall x, In x l -> f x = Ok (g x)) -> res_map f l = Ok (map g l).
Proof.
  induction l as [|x l IH]; intros H; [reflexivity|].
  cbn [res_map map]. rewrite (H x (or_introl eq_refl)). cbn [bind].
  rewrite IH by (intros y Hy; apply H; right; exact Hy). reflexivity.
Qed.

Lemma land_ones64_small x : x < 18446744073709551616 -> N.land (N.ones 64) x = x.
Proof. intros H. rewrite N.land_comm, N.land_ones. apply N.mod_small. exact H. Qed.
Lemma land_mask32_small x : x < 4294967296 -> N.land mask32 x = x.
Proof.
  intros H. unfold mask32. change 0xFFFFFFFF with (N.ones 32).
  rewrite N.land_comm, N.land_ones. apply N.mod_small. exact H.
Qed.

(* (R) Rust intrinsics *)
Theorem load_counters_rs_ok n : lc_ok n (load_counters_rs n).
Proof.
  intros counter incr Hc. change (2 ^ 64) with 18446744073709551616 in Hc.
  unfold load_counters_rs. cbv zeta.
  rewrite (res_map_ok _ (fun i => counter + (if incr then i else 0))).
  - cbn [bind]. eexists _, _. split; [reflexivity|]. unfold wf.
    rewrite !map_length, lane_ids_length. split; [reflexivity|]. split; [reflexivity|].
    intros i Hi.
    rewrite (nth_map_lt ctr_lo _ _ 0) by (rewrite map_length, lane_ids_length; exact Hi).
    rewrite (nth_map_lt ctr_hi _ _ 0) by (rewrite map_length, lane_ids_length; exact Hi).
    rewrite (nth_map_lt _ _ _ 0) by (rewrite lane_ids_length; exact Hi).
    rewrite lane_ids_nth by exact Hi. unfold lane_ctr. destruct incr; rewrite ?N.add_0_r; split; reflexivity.
  - intros x Hx. unfold lane_ids in Hx. apply in_map_iff in Hx. destruct Hx as (k & <- & Hk).
    apply in_seq in Hk. unfold mi_add, fits. change (2 ^ 64) with 18446744073709551616.
    destruct incr.
    + rewrite land_ones64_small by lia. replace (_ <? _) with true by lia. reflexivity.
    + rewrite N.land_0_l. replace (_ <? _) with true by lia. reflexivity.
Qed.

(* flipping bit 31 of a 32-bit word *)
Lemma land_pow31_small x : x < 2147483648 -> N.land x 2147483648 = 0.
Proof.
  intros H. apply N.bits_inj. intros k. rewrite N.land_spec, N.bits_0.
  change 2147483648 with (2 ^ 31). rewrite N.pow2_bits_eqb.
  destruct (N.eqb_spec 31 k) as [<-|_]; [|apply andb_false_r].
  rewrite andb_true_r, N.testbit_eqb. change (2 ^ 31) with 2147483648.
  rewrite N.div_small by exact H. reflexivity.
Qed.

Lemma lxor_msb x : x < 4294967296 ->
  N.lxor x 0x80000000 = if x <? 2147483648 then x + 2147483648 else x - 2147483648.
Proof.
  intros H. change 0x80000000 with 2147483648.
  destruct (N.ltb_spec x 2147483648) as [L|L].
  - symmetry. apply N.add_nocarry_lxor. apply land_pow31_small. exact L.
  - replace x with ((x - 2147483648) + 2147483648) at 1 by lia.
    rewrite (N.add_nocarry_lxor (x - 2147483648) 2147483648) by (apply land_pow31_small; lia).
    rewrite N.lxor_assoc, N.lxor_nilpotent, N.lxor_0_r. reflexivity.
Qed.

(* the biased signed comparison is the unsigned comparison *)
Lemma cmpgt_biased a b : a < 4294967296 -> b < 4294967296 ->
  cmpgt32 (xor32 a 0x80000000) (xor32 b 0x80000000) = if b <? a then mask32 else 0.
Proof.
  intros Ha Hb. unfold cmpgt32, xor32. rewrite !lxor_msb by assumption.
  assert (S : forall x, x < 4294967296 ->
    to_signed32 (if x <? 2147483648 then x + 2147483648 else x - 2147483648) = (Z.of_N x - 2147483648)%Z).
  { intros x Hx. unfold to_signed32. destruct (N.ltb_spec x 2147483648).
    - replace (x + 2147483648 <? 2147483648) with false by lia. lia.
    - replace (x - 2147483648 <? 2147483648) with true by lia. lia. }
  rewrite !S by assumption.
  destruct (N.ltb_spec b a).
  - replace (_ <? _)%Z with true by lia. reflexivity.
  - replace (_ <? _)%Z with false by lia. reflexivity.
Qed.

Lemma lane_ctr_arith_cmp counter d :
  d < 4294967296 ->
  let lo := w32 counter in let hi := w32 (N.shiftr counter 32) in
  let l := add32 lo d in
  let carry := cmpgt32 (xor32 d 0x80000000) (xor32 l 0x80000000) in
  l = ctr_lo (counter + d) /\ sub32 hi carry = ctr_hi (counter + d).
Proof.
  intros Hd lo hi l carry. subst carry.
  assert (Hl : l < 4294967296) by (apply w32_lt).
  rewrite (cmpgt_biased d l Hd Hl). subst l lo hi.
  unfold add32, sub32. rewrite ctr_lo_mod, ctr_hi_mod, !w32_mod, N.shiftr_div_pow2.
  change (2 ^ 32) with 4294967296. split; [lia|].
  destruct (N.ltb_spec ((counter mod 4294967296 + d) mod 4294967296) d) as [L|L].
  - unfold mask32. change (0xFFFFFFFF mod 4294967296) with 4294967295. lia.
  - change (0 mod 4294967296) with 0. lia.
Qed.

Ltac lane_len :=
  repeat first [rewrite vmap2_length | rewrite map_length | rewrite vset1_length | rewrite lane_ids_length];
  try lia.
Ltac lane_read Hi :=
  repeat first
    [ rewrite vmap2_nth by (unfold vadd, vxor, vand, vsub, vcmpgt, vandnot, vshr; lane_len)
    | rewrite vset1_nth by exact Hi
    | rewrite lane_ids_nth by exact Hi
    | rewrite map_nth0 by (unfold vadd, vxor, vand, vsub, vcmpgt, vandnot, vshr; lane_len) ].

(* (C) signed-compare variant of blake3_sse2.c / blake3_sse41.c / blake3_avx2.c / the assembly *)
Theorem load_counters_cmp_ok n : N.of_nat n <= 4294967296 -> lc_ok n (load_counters_cmp n).
Proof.
  intros Hn counter incr Hc. unfold load_counters_cmp. cbv zeta.
  eexists _, _. split; [reflexivity|]. unfold wf.
  split; [unfold vadd, vand; lane_len|]. split; [unfold vsub, vcmpgt, vxor, vadd, vand; lane_len|].
  intros i Hi.
  unfold vsub, vcmpgt at 1. unfold vadd at 1. lane_read Hi.
  unfold vxor at 1 2. lane_read Hi. unfold vadd, vand. lane_read Hi.
  unfold lane_ctr. destruct incr.
  - rewrite land_mask32_small by lia.
    apply (lane_ctr_arith_cmp counter (N.of_nat i)). lia.
  - rewrite N.land_0_l.
    pose proof (lane_ctr_arith_cmp counter 0 ltac:(lia)) as H. cbv zeta in H.
    rewrite N.add_0_r in H. exact H.
Qed.

Lemma testbit31 a : a < 4294967296 -> N.testbit a 31 = (2147483648 <=? a).
Proof.
  intros H. rewrite N.testbit_eqb. change (2 ^ 31) with 2147483648.
  destruct (N.leb_spec 2147483648 a); [apply N.eqb_eq|apply N.eqb_neq]; lia.
Qed.

Lemma land_lt32 u b : b < 4294967296 -> N.land u b < 4294967296.
Proof.
  intros H. replace b with (N.land b (N.ones 32)) by (rewrite N.land_ones; apply N.mod_small; exact H).
  rewrite N.land_assoc, N.land_ones. apply N.mod_lt. discriminate.
Qed.

Lemma carry_andnot a b : a < 4294967296 -> b < 4294967296 ->
  N.shiftr (N.land (N.lxor a mask32) b) 31 = if (a <? 2147483648) && (2147483648 <=? b) then 1 else 0.
Proof.
  intros Ha Hb. set (x := N.land (N.lxor a mask32) b).
  assert (Hx : x < 4294967296) by (apply land_lt32; exact Hb).
  assert (Tx : N.testbit x 31 = (a <? 2147483648) && (2147483648 <=? b)).
  { unfold x. rewrite N.land_spec, N.lxor_spec, !testbit31 by (assumption || reflexivity).
    change (2147483648 <=? mask32) with true.
    destruct (N.leb_spec 2147483648 a), (N.ltb_spec a 2147483648); try lia; reflexivity. }
  rewrite <- Tx, (testbit31 x Hx), N.shiftr_div_pow2. change (2 ^ 31) with 2147483648.
  destruct (N.leb_spec 2147483648 x); lia.
Qed.

Lemma lane_ctr_arith_andnot counter d :
  d < 2147483648 ->
  let lo := w32 counter in let hi := w32 (N.shiftr counter 32) in
  let l := add32 lo d in
  let carry := N.shiftr (N.land (N.lxor l mask32) lo) 31 in
  l = ctr_lo (counter + d) /\ add32 hi carry = ctr_hi (counter + d).
Proof.
  intros Hd lo hi l carry. subst carry.
  rewrite (carry_andnot l lo) by (apply w32_lt). subst l lo hi.
  unfold add32. rewrite ctr_lo_mod, ctr_hi_mod, !w32_mod, N.shiftr_div_pow2.
  change (2 ^ 32) with 4294967296. split; [lia|].
  destruct (N.ltb_spec ((counter mod 4294967296 + d) mod 4294967296) 2147483648),
           (N.leb_spec 2147483648 (counter mod 4294967296)); cbn [andb]; lia.
Qed.

(* (A) load_counters16 of blake3_avx512.c *)
Theorem load_counters_andnot_ok n : N.of_nat n <= 2147483648 -> lc_ok n (load_counters_andnot n).
Proof.
  intros Hn counter incr Hc. unfold load_counters_andnot. cbv zeta.
  eexists _, _. split; [reflexivity|]. unfold wf.
  split; [unfold vadd, vand; lane_len|]. split; [unfold vshr, vandnot, vadd, vand; lane_len|].
  intros i Hi.
  unfold vadd at 1 2. lane_read Hi. unfold vshr. lane_read Hi. unfold vandnot. lane_read Hi.
  unfold vadd, vand. lane_read Hi.
  unfold lane_ctr. destruct incr.
  - rewrite N.land_comm, land_mask32_small by lia.
    apply (lane_ctr_arith_andnot counter (N.of_nat i)). lia.
  - rewrite N.land_0_r.
    pose proof (lane_ctr_arith_andnot counter 0 ltac:(lia)) as H. cbv zeta in H.
    rewrite N.add_0_r in H. exact H.
Qed.

(* (W) the 64-bit-lane variant: load_counters4 / load_counters8 of blake3_avx512.c *)
Theorem load_counters_64_ok n : lc_ok n (load_counters_64 n).
Proof.
  intros counter incr Hc. change (2 ^ 64) with 18446744073709551616 in Hc.
  unfold load_counters_64. cbv zeta.
  eexists _, _. split; [reflexivity|]. unfold wf.
  split; [lane_len|]. split; [lane_len|].
  intros i Hi.
  rewrite (nth_map_lt w32 _ _ 0) by lane_len.
  rewrite (nth_map_lt (fun c => w32 (N.shiftr c 32)) _ _ 0) by lane_len.
  rewrite (nth_map_lt _ _ _ 0) by lane_len. rewrite lane_ids_nth by exact Hi.
  rewrite ctr_lo_mod, ctr_hi_mod, !w32_mod, N.shiftr_div_pow2, N.land_ones.
  change (2 ^ 32) with 4294967296. change (2 ^ 64) with 18446744073709551616.
  unfold lane_ctr. destruct incr.
  - rewrite land_ones64_small by lia. split; lia.
  - rewrite N.land_0_l, N.add_0_r. split; lia.
Qed.

(* ------------------------------------------------------------------ *)
(* I. the hash_many cascades                                           *)
(* ------------------------------------------------------------------ *)
(* the value of Portable.hash_many_go on well-formed arguments *)
Fixpoint hm_spec (inputs : list (list N)) (key : list N) (counter : N) (incr : bool)
         (flags fs fe : N) : list (list N) :=
  match inputs with
  | [] => []
  | i :: tl => h1w i key counter flags fs fe ::
               hm_spec tl key (if incr then counter + 1 else counter) incr flags fs fe
  end.

Definition bump (counter : N) (incr : bool) (k : nat) : N := if incr then counter + N.of_nat k else counter.

Lemma hm_spec_length inputs key c incr fl fs fe : length (hm_spec inputs key c incr fl fs fe) = length inputs.
Proof. revert c. induction inputs as [|i tl IH]; intros c; cbn [hm_spec length]; [reflexivity|]. rewrite IH. reflexivity. Qed.

Lemma hm_spec_app a b key c incr fl fs fe :
  hm_spec (a ++ b) key c incr fl fs fe =
  hm_spec a key c incr fl fs fe ++ hm_spec b key (bump c incr (length a)) incr fl fs fe.
Proof.
  revert c. induction a as [|x a IH]; intros c.
  - cbn [app hm_spec length]. unfold bump. destruct incr; [rewrite N.add_0_r|]; reflexivity.
  - cbn [app hm_spec length]. rewrite IH. f_equal. f_equal. f_equal. unfold bump. destruct incr; [lia|reflexivity].
Qed.

Lemma hm_spec_seq inputs key c incr fl fs fe :
  hm_spec inputs key c incr fl fs fe =
  map (fun i => h1w (inp inputs i) key (lane_ctr c incr i) fl fs fe) (seq 0 (length inputs)).
Proof.
  revert c. induction inputs as [|x tl IH]; intros c; [reflexivity|].
  cbn [hm_spec length seq map]. f_equal.
  - unfold inp, lane_ctr. cbn [nth]. destruct incr; [rewrite N.add_0_r|]; reflexivity.
  - rewrite IH, <- seq_shift, map_map. apply map_ext. intros i. unfold inp, lane_ctr. cbn [nth].
    destruct incr; [|reflexivity]. f_equal. lia.
Qed.

Lemma hash_many_go_spec inputs key c incr fl fs fe :
  (forall i, In i inputs -> Nat.modulo (length i) 64 = 0%nat) ->
  c + N.of_nat (length inputs) < 2 ^ 64 ->
  hash_many_go inputs key c incr fl fs fe = Ok (hm_spec inputs key c incr fl fs fe).
Proof.
  change (2 ^ 64) with 18446744073709551616.
  revert c. induction inputs as [|x tl IH]; intros c Hm Hc; [reflexivity|].
  cbn [hash_many_go hm_spec]. rewrite hash1_h1w by (apply Hm; left; reflexivity). cbn [bind].
  cbn [length] in Hc.
  assert (E : (if incr then mi_add 64 c 1 else Ok c) = Ok (if incr then c + 1 else c)).
  { destruct incr; [|reflexivity]. unfold mi_add, fits. change (2 ^ 64) with 18446744073709551616.
    replace (c + 1 <? 18446744073709551616) with true by lia. reflexivity. }
  rewrite E. cbn [bind]. rewrite IH; [reflexivity| |].
  - intros i Hi. apply Hm. right. exact Hi.
  - destruct incr; lia.
Qed.

Lemma firstn_In_aux {A} (x : A) n l : In x (firstn n l) -> In x l.
Proof. intros H. rewrite <- (firstn_skipn n l). apply in_or_app. left. exact H. Qed.
Lemma skipn_In_aux {A} (x : A) n l : In x (skipn n l) -> In x l.
Proof. intros H. rewrite <- (firstn_skipn n l). apply in_or_app. right. exact H. Qed.

Definition hN_ok (deg : nat) (hN : hashN_fn) : Prop :=
  forall chunk blocks key counter incr fl fs fe,
    length chunk = deg -> length key = 8%nat ->
    (forall i, In i chunk -> length i = (blocks * 64)%nat) ->
    counter + N.of_nat deg <= 2 ^ 64 ->
    hN chunk blocks key counter incr fl fs fe = Ok (hm_spec chunk key counter incr fl fs fe).

(* hashN_ok: hashN on N inputs = map of Portable.hash1 over the inputs with counters counter + i *)
Theorem hashN_ok n tmsg lc store : (0 < n)%nat -> tmsg_ok n tmsg -> lc_ok n lc -> store_ok n store ->
  hN_ok n (hashN_gen n tmsg lc store).
Proof.
  intros Hn Ht Hl Hs chunk blocks key counter incr fl fs fe Lc Lk Hlen Hc.
  rewrite (hashN_gen_ok n tmsg lc store Hn Ht Hl Hs chunk blocks key counter incr fl fs fe Lk); [|
    intros j Hj; apply Hlen; unfold inp; apply nth_In; lia | exact Hc].
  rewrite hm_spec_seq, Lc. reflexivity.
Qed.

Definition cadd_ok (cadd : N -> N -> res N) : Prop :=
  forall a b, a + b < 2 ^ 64 -> cadd a b = Ok (a + b).
Lemma cadd_rs_ok : cadd_ok cadd_rs.
Proof. intros a b H. unfold cadd_rs, mi_add, fits. replace (a + b <? 2 ^ 64) with true by lia. reflexivity. Qed.
Lemma cadd_c_ok : cadd_ok cadd_c.
Proof. intros a b H. unfold cadd_c. rewrite N.land_ones, N.mod_small by exact H. reflexivity. Qed.

Lemma batch_while_spec deg hN cadd chk blocks key incr fl fs fe :
  (0 < deg)%nat -> hN_ok deg hN -> cadd_ok cadd -> length key = 8%nat ->
  forall fuel inputs counter cap,
    (length inputs < fuel)%nat ->
    (forall i, In i inputs -> length i = (blocks * 64)%nat) ->
    counter + N.of_nat (length inputs) < 2 ^ 64 ->
    (chk = true -> N.of_nat (length inputs) <= cap) ->
    exists k, (k <= length inputs)%nat /\ (length inputs - k < deg)%nat /\
      batch_while fuel deg hN cadd chk inputs blocks key counter incr fl fs fe cap =
      Ok (hm_spec (firstn k inputs) key counter incr fl fs fe,
          (skipn k inputs, bump counter incr k, cap - N.of_nat k)).
Proof.
  intros Hd HN Hca Lk.
  induction fuel as [|fuel IH]; intros inputs counter cap Hf Hlen Hc Hcap; [lia|].
  cbn [batch_while].
  destruct (Nat.leb_spec deg (length inputs)) as [Hle|Hlt].
  - replace (negb chk || (N.of_nat deg <=? cap)) with true.
    2:{ destruct chk; [|reflexivity]. cbn [negb orb]. symmetry. apply N.leb_le. specialize (Hcap eq_refl). lia. }
    cbn [andb].
    rewrite (HN (firstn deg inputs) blocks key counter incr fl fs fe).
    2:{ rewrite firstn_length. lia. }
    2:{ exact Lk. }
    2:{ intros i Hi. apply Hlen. eapply firstn_In_aux; eassumption. }
    2:{ lia. }
    cbn [bind].
    assert (E : (if incr then cadd counter (N.of_nat deg) else Ok counter) = Ok (bump counter incr deg)).
    { unfold bump. destruct incr; [|reflexivity]. apply Hca. lia. }
    rewrite E. cbn [bind].
    destruct (IH (skipn deg inputs) (bump counter incr deg) (cap - N.of_nat deg)) as (k & Hk1 & Hk2 & Ek).
    + rewrite skipn_length. lia.
    + intros i Hi. apply Hlen. eapply skipn_In_aux; eassumption.
    + rewrite skipn_length. unfold bump. destruct incr; lia.
    + intros Hchk. specialize (Hcap Hchk). rewrite skipn_length. lia.
    + rewrite skipn_length in Hk1, Hk2. rewrite Ek. cbn [bind].
      exists (deg + k)%nat. split; [lia|]. split; [lia|].
      rewrite firstn_plus, hm_spec_app, firstn_length, Nat.min_l by lia.
      rewrite skipn_skipn. unfold bump.
      replace (cap - N.of_nat deg - N.of_nat k) with (cap - N.of_nat (deg + k)) by lia.
      destruct incr; [|reflexivity].
      replace (counter + N.of_nat deg + N.of_nat k) with (counter + N.of_nat (deg + k)) by lia.
      reflexivity.
  - cbn [andb]. exists 0%nat. split; [lia|]. split; [lia|].
    cbn [firstn skipn hm_spec]. unfold bump. change (N.of_nat 0) with 0.
    rewrite N.sub_0_r. destruct incr; [rewrite N.add_0_r|]; reflexivity.
Qed.

Definition h1_ok (h1 : hash1_fn) : Prop :=
  forall input blocks key counter fl fs fe, length key = 8%nat -> length input = (blocks * 64)%nat ->
    h1 input blocks key counter fl fs fe = Ok (h1w input key counter fl fs fe).

Lemma single_loop_spec h1 cadd zip blocks key incr fl fs fe :
  h1_ok h1 -> cadd_ok cadd -> length key = 8%nat ->
  forall inputs counter cap,
    (forall i, In i inputs -> length i = (blocks * 64)%nat) ->
    counter + N.of_nat (length inputs) < 2 ^ 64 ->
    (zip = true -> N.of_nat (length inputs) <= cap) ->
    single_loop h1 cadd zip inputs blocks key counter incr fl fs fe cap =
    Ok (hm_spec inputs key counter incr fl fs fe).
Proof.
  intros H1 Hca Lk. induction inputs as [|x tl IH]; intros counter cap Hlen Hc Hcap; [reflexivity|].
  cbn [single_loop hm_spec]. cbn [length] in Hc, Hcap.
  replace (zip && (cap =? 0)) with false.
  2:{ destruct zip; [|reflexivity]. cbn [andb]. symmetry. apply N.eqb_neq. specialize (Hcap eq_refl). lia. }
  rewrite (H1 x blocks key counter fl fs fe Lk) by (apply Hlen; left; reflexivity). cbn [bind].
  assert (E : (if incr then cadd counter 1 else Ok counter) = Ok (if incr then counter + 1 else counter)).
  { destruct incr; [|reflexivity]. apply Hca. lia. }
  rewrite E. cbn [bind]. rewrite IH; [reflexivity| | |].
  - intros i Hi. apply Hlen. right. exact Hi.
  - destruct incr; lia.
  - intros Hz. specialize (Hcap Hz). lia.
Qed.

(* compress_in_place keeps a CV a CV *)
Lemma round_len s m r : length (Portable.round s m r) = length s.
Proof.
  unfold Portable.round.
  do 16 (destruct s as [|? s]; [reflexivity|]). destruct s; [|reflexivity].
  repeat match goal with |- context [Portable.g ?a ?b ?c ?d ?x ?y] =>
    destruct (Portable.g a b c d x y) as [[[? ?] ?] ?] end.
  reflexivity.
Qed.

Lemma rounds7w_length s w : length (rounds7w s w) = length s.
Proof. unfold rounds7w. rewrite !round_len. reflexivity. Qed.

Lemma compress_pre_rounds7w cv block bl ctr fl :
  compress_pre cv block bl ctr fl =
  rounds7w (cv ++ firstn 4 rs_IV ++ [ctr_lo ctr; ctr_hi ctr; bl; fl]) (words_of_bytes block).
Proof. unfold compress_pre, rounds7w. reflexivity. Qed.

Lemma compress_in_place_length cv block bl ctr fl : length cv = 8%nat ->
  length (compress_in_place cv block bl ctr fl) = 8%nat.
Proof.
  intros H. unfold compress_in_place. cbv zeta. rewrite compress_pre_rounds7w.
  rewrite xor_pairs_length, firstn_length, skipn_length, rounds7w_length, !app_length, H. reflexivity.
Qed.

Definition cip_ok (cip : cip_fn) : Prop :=
  forall cv block bl ctr fl, length cv = 8%nat -> cip cv block bl ctr fl = compress_in_place cv block bl ctr fl.

Lemma hash1_rs_go_ok cip : cip_ok cip -> forall fuel cv input ctr fl bf fe, length cv = 8%nat ->
  hash1_rs_go cip fuel cv input ctr fl bf fe = hash1_go fuel cv input ctr fl bf fe.
Proof.
  intros Hc. induction fuel as [|fuel IH]; intros cv input ctr fl bf fe Lcv; [reflexivity|].
  cbn [hash1_rs_go hash1_go]. destruct (_ <? _); [reflexivity|].
  rewrite Hc by exact Lcv. apply IH. apply compress_in_place_length. exact Lcv.
Qed.

Lemma hash1_rs_ok cip : cip_ok cip -> h1_ok (hash1_rs cip).
Proof.
  intros Hc input blocks key counter fl fs fe Lk Li. unfold hash1_rs.
  rewrite bind_check_true.
  - unfold h1w. rewrite hash1_rs_go_ok by assumption. reflexivity.
  - change rs_BLOCK_LEN with 64. apply N.eqb_eq. rewrite Li. lia.
Qed.

Lemma hash_one_go_ok cip : cip_ok cip -> forall blocks cv input ctr fl bf fe fuel,
  length cv = 8%nat -> length input = (blocks * 64)%nat -> (blocks < fuel)%nat ->
  hash_one_go cip blocks cv input ctr fl bf fe = hash1_go fuel cv input ctr fl bf fe.
Proof.
  intros Hc. induction blocks as [|blocks IH]; intros cv input ctr fl bf fe fuel Lcv Li Hf.
  - destruct fuel as [|fuel]; [lia|]. rewrite hash1_go_S, Li. reflexivity.
  - destruct fuel as [|fuel]; [lia|]. rewrite hash1_go_S, Li.
    replace (N.of_nat (S blocks * 64) <? 64) with false by lia.
    cbn [hash_one_go]. change c_BLOCK_LEN with 64.
    replace (N.of_nat (S blocks * 64) =? 64) with (S blocks =? 1)%nat.
    2:{ destruct (Nat.eqb_spec (S blocks) 1); symmetry; [apply N.eqb_eq|apply N.eqb_neq]; lia. }
    rewrite Hc by exact Lcv. apply IH.
    + apply compress_in_place_length. exact Lcv.
    + rewrite skipn_length, Li. lia.
    + lia.
Qed.

Lemma hash_one_c_ok cip : cip_ok cip -> h1_ok (hash_one_c cip).
Proof.
  intros Hc input blocks key counter fl fs fe Lk Li. unfold hash_one_c, h1w.
  rewrite (hash_one_go_ok cip Hc blocks key input counter fl (N.lor fl fs) fe (S (Nat.div (length input) 64)));
    try assumption; [reflexivity|].
  rewrite Li, Nat.div_mul by discriminate. lia.
Qed.

(* all inputs have the length N = blocks_of inputs * 64 *)
Definition uniform (inputs : list (list N)) : Prop :=
  forall i, In i inputs -> length i = (blocks_of inputs * 64)%nat.

Lemma uniform_sub inputs rest : uniform inputs -> (forall i, In i rest -> In i inputs) -> uniform rest.
Proof.
  intros U Hsub. destruct rest as [|x rest]; [intros i []|].
  assert (Ex : blocks_of (x :: rest) = blocks_of inputs).
  { unfold blocks_of at 1. cbn [hd]. rewrite (U x (Hsub x (or_introl eq_refl))).
    apply Nat.div_mul. discriminate. }
  intros i Hi. rewrite Ex. apply U, Hsub, Hi.
Qed.

Lemma uniform_mod inputs : uniform inputs -> forall i, In i inputs -> Nat.modulo (length i) 64 = 0%nat.
Proof. intros U i Hi. rewrite (U i Hi). apply Nat.mod_mul. discriminate. Qed.

Lemma hash_many_spec inputs key c incr fl fs fe cap : uniform inputs ->
  c + N.of_nat (length inputs) < 2 ^ 64 ->
  hash_many inputs key c incr fl fs fe cap =
  if N.of_nat (length inputs) <=? cap then Ok (hm_spec inputs key c incr fl fs fe) else Panic 1101.
Proof.
  intros U Hc. unfold hash_many. destruct (_ <=? _); cbn [check bind]; [|reflexivity].
  apply hash_many_go_spec; [apply uniform_mod, U|exact Hc].
Qed.

Lemma hm_spec_split k inputs key c incr fl fs fe : (k <= length inputs)%nat ->
  hm_spec (firstn k inputs) key c incr fl fs fe ++ hm_spec (skipn k inputs) key (bump c incr k) incr fl fs fe =
  hm_spec inputs key c incr fl fs fe.
Proof.
  intros Hk. rewrite <- (firstn_skipn k inputs) at 3. rewrite hm_spec_app, firstn_length, Nat.min_l by exact Hk.
  reflexivity.
Qed.

(* ---- Rust back ends ---- *)
Theorem hash_many_rs4_ok lc4 cip : lc_ok 4 lc4 -> cip_ok cip ->
  forall inputs key ctr incr fl fs fe cap,
    length key = 8%nat -> uniform inputs -> ctr + N.of_nat (length inputs) < 2 ^ 64 ->
    hash_many_rs4 lc4 cip inputs key ctr incr fl fs fe cap = hash_many inputs key ctr incr fl fs fe cap.
Proof.
  intros Hl Hc inputs key ctr incr fl fs fe cap Lk U Hctr.
  rewrite hash_many_spec by assumption. unfold hash_many_rs4.
  destruct (N.leb_spec (N.of_nat (length inputs)) cap) as [Hcap|Hcap]; cbn [check bind]; [|reflexivity].
  destruct (batch_while_spec 4 (hashN_gen 4 transpose_msg_vecs4 lc4 store4) cadd_rs true (blocks_of inputs)
              key incr fl fs fe ltac:(lia) (hashN_ok 4 _ _ _ ltac:(lia) tmsg_ok_4 Hl store_ok_4) cadd_rs_ok Lk
              (S (length inputs)) inputs ctr cap ltac:(lia) U Hctr (fun _ => Hcap))
    as (k & Hk1 & Hk2 & ->).
  cbn [bind].
  rewrite (single_loop_spec (hash1_rs cip) cadd_rs true (blocks_of inputs) key incr fl fs fe
             (hash1_rs_ok cip Hc) cadd_rs_ok Lk).
  - cbn [bind]. rewrite hm_spec_split by exact Hk1. reflexivity.
  - intros i Hi. apply U. eapply skipn_In_aux; eassumption.
  - rewrite skipn_length. unfold bump. destruct incr; lia.
  - intros _. rewrite skipn_length. lia.
Qed.

Theorem hash_many_rs8_ok lc8 lc4 cip : lc_ok 8 lc8 -> lc_ok 4 lc4 -> cip_ok cip ->
  forall inputs key ctr incr fl fs fe cap,
    length key = 8%nat -> uniform inputs -> ctr + N.of_nat (length inputs) < 2 ^ 64 ->
    hash_many_rs8 lc8 lc4 cip inputs key ctr incr fl fs fe cap = hash_many inputs key ctr incr fl fs fe cap.
Proof.
  intros Hl8 Hl4 Hc inputs key ctr incr fl fs fe cap Lk U Hctr.
  rewrite hash_many_spec by assumption. unfold hash_many_rs8.
  destruct (N.leb_spec (N.of_nat (length inputs)) cap) as [Hcap|Hcap]; cbn [check bind]; [|reflexivity].
  destruct (batch_while_spec 8 (hashN_gen 8 transpose_msg_vecs8 lc8 store8) cadd_rs true (blocks_of inputs)
              key incr fl fs fe ltac:(lia) (hashN_ok 8 _ _ _ ltac:(lia) tmsg_ok_8 Hl8 store_ok_8) cadd_rs_ok Lk
              (S (length inputs)) inputs ctr cap ltac:(lia) U Hctr (fun _ => Hcap))
    as (k & Hk1 & Hk2 & ->).
  cbn [bind].
  rewrite (hash_many_rs4_ok lc4 cip Hl4 Hc (skipn k inputs) key (bump ctr incr k) incr fl fs fe
             (cap - N.of_nat k) Lk).
  - rewrite hash_many_spec.
    + rewrite skipn_length. replace (N.of_nat (length inputs - k) <=? cap - N.of_nat k) with true by lia.
      cbn [bind]. rewrite hm_spec_split by exact Hk1. reflexivity.
    + apply (uniform_sub inputs); [exact U|]. intros i Hi. eapply skipn_In_aux; eassumption.
    + rewrite skipn_length. unfold bump. destruct incr; lia.
  - apply (uniform_sub inputs); [exact U|]. intros i Hi. eapply skipn_In_aux; eassumption.
  - rewrite skipn_length. unfold bump. destruct incr; lia.
Qed.

(* ---- C back ends (and the assembly's cascade) ---- *)
Definition hm_c_ok (f : list (list N) -> nat -> list N -> N -> bool -> N -> N -> N -> res (list (list N))) : Prop :=
  forall inputs blocks key ctr incr fl fs fe,
    length key = 8%nat -> (forall i, In i inputs -> length i = (blocks * 64)%nat) ->
    ctr + N.of_nat (length inputs) < 2 ^ 64 ->
    f inputs blocks key ctr incr fl fs fe = Ok (hm_spec inputs key ctr incr fl fs fe).

Theorem hash_many_c4_ok lc4 cip : lc_ok 4 lc4 -> cip_ok cip -> hm_c_ok (hash_many_c4 lc4 cip).
Proof.
  intros Hl Hc inputs blocks key ctr incr fl fs fe Lk U Hctr. unfold hash_many_c4.
  destruct (batch_while_spec 4 (hashN_gen 4 transpose_msg_vecs4 lc4 store4) cadd_c false blocks
              key incr fl fs fe ltac:(lia) (hashN_ok 4 _ _ _ ltac:(lia) tmsg_ok_4 Hl store_ok_4) cadd_c_ok Lk
              (S (length inputs)) inputs ctr 0 ltac:(lia) U Hctr ltac:(discriminate))
    as (k & Hk1 & Hk2 & ->).
  cbn [bind].
  rewrite (single_loop_spec (hash_one_c cip) cadd_c false blocks key incr fl fs fe
             (hash_one_c_ok cip Hc) cadd_c_ok Lk).
  - cbn [bind]. rewrite hm_spec_split by exact Hk1. reflexivity.
  - intros i Hi. apply U. eapply skipn_In_aux; eassumption.
  - rewrite skipn_length. unfold bump. destruct incr; lia.
  - discriminate.
Qed.

Theorem hash_many_c8_ok lc8 lc4 cip : lc_ok 8 lc8 -> lc_ok 4 lc4 -> cip_ok cip ->
  hm_c_ok (hash_many_c8 lc8 lc4 cip).
Proof.
  intros Hl8 Hl4 Hc inputs blocks key ctr incr fl fs fe Lk U Hctr. unfold hash_many_c8.
  destruct (batch_while_spec 8 (hashN_gen 8 transpose_msg_vecs8 lc8 store8) cadd_c false blocks
              key incr fl fs fe ltac:(lia) (hashN_ok 8 _ _ _ ltac:(lia) tmsg_ok_8 Hl8 store_ok_8) cadd_c_ok Lk
              (S (length inputs)) inputs ctr 0 ltac:(lia) U Hctr ltac:(discriminate))
    as (k & Hk1 & Hk2 & ->).
  cbn [bind].
  rewrite (hash_many_c4_ok lc4 cip Hl4 Hc (skipn k inputs) blocks key (bump ctr incr k) incr fl fs fe Lk).
  - cbn [bind]. rewrite hm_spec_split by exact Hk1. reflexivity.
  - intros i Hi. apply U. eapply skipn_In_aux; eassumption.
  - rewrite skipn_length. unfold bump. destruct incr; lia.
Qed.

Lemma hash16_avx512_ok : hN_ok 16 hash16_avx512.
Proof. apply (hashN_ok 16); [lia|exact tmsg_ok_16|apply load_counters_andnot_ok; cbn; lia|exact store_ok_16]. Qed.
Lemma hash8_avx512_ok : hN_ok 8 hash8_avx512.
Proof. apply (hashN_ok 8); [lia|exact tmsg_ok_8|apply load_counters_64_ok|exact store_ok_8]. Qed.
Lemma hash4_avx512_ok : hN_ok 4 hash4_avx512.
Proof. apply (hashN_ok 4); [lia|exact tmsg_ok_4|apply load_counters_64_ok|exact store_ok_4]. Qed.

Theorem hash_many_c16_ok cip : cip_ok cip -> hm_c_ok (hash_many_c16 cip).
Proof.
  intros Hc inputs blocks key ctr incr fl fs fe Lk U Hctr. unfold hash_many_c16.
  destruct (batch_while_spec 16 hash16_avx512 cadd_c false blocks key incr fl fs fe ltac:(lia)
              hash16_avx512_ok cadd_c_ok Lk (S (length inputs)) inputs ctr 0 ltac:(lia) U Hctr ltac:(discriminate))
    as (k1 & Ha1 & Hb1 & ->).
  cbn [bind].
  set (in1 := skipn k1 inputs). set (c1 := bump ctr incr k1).
  assert (U1 : forall i, In i in1 -> length i = (blocks * 64)%nat).
  { intros i Hi. apply U. eapply skipn_In_aux; eassumption. }
  assert (L1 : length in1 = (length inputs - k1)%nat) by (unfold in1; apply skipn_length).
  assert (C1 : c1 + N.of_nat (length in1) < 2 ^ 64) by (rewrite L1; unfold c1, bump; destruct incr; lia).
  destruct (batch_while_spec 8 hash8_avx512 cadd_c false blocks key incr fl fs fe ltac:(lia)
              hash8_avx512_ok cadd_c_ok Lk (S (length in1)) in1 c1 0 ltac:(lia) U1 C1 ltac:(discriminate))
    as (k2 & Ha2 & Hb2 & ->).
  cbn [bind].
  set (in2 := skipn k2 in1). set (c2 := bump c1 incr k2).
  assert (U2 : forall i, In i in2 -> length i = (blocks * 64)%nat).
  { intros i Hi. apply U1. eapply skipn_In_aux; eassumption. }
  assert (L2 : length in2 = (length in1 - k2)%nat) by (unfold in2; apply skipn_length).
  assert (C2 : c2 + N.of_nat (length in2) < 2 ^ 64) by (rewrite L2; unfold c2, bump; destruct incr; lia).
  destruct (batch_while_spec 4 hash4_avx512 cadd_c false blocks key incr fl fs fe ltac:(lia)
              hash4_avx512_ok cadd_c_ok Lk (S (length in2)) in2 c2 0 ltac:(lia) U2 C2 ltac:(discriminate))
    as (k3 & Ha3 & Hb3 & ->).
  cbn [bind].
  set (in3 := skipn k3 in2). set (c3 := bump c2 incr k3).
  assert (U3 : forall i, In i in3 -> length i = (blocks * 64)%nat).
  { intros i Hi. apply U2. eapply skipn_In_aux; eassumption. }
  assert (L3 : length in3 = (length in2 - k3)%nat) by (unfold in3; apply skipn_length).
  assert (C3 : c3 + N.of_nat (length in3) < 2 ^ 64) by (rewrite L3; unfold c3, bump; destruct incr; lia).
  rewrite (single_loop_spec (hash_one_c cip) cadd_c false blocks key incr fl fs fe
             (hash_one_c_ok cip Hc) cadd_c_ok Lk in3 c3 _ U3 C3 ltac:(discriminate)).
  cbn [bind]. unfold in3, c3. rewrite (hm_spec_split k3 in2) by exact Ha3.
  unfold in2, c2. rewrite (hm_spec_split k2 in1) by exact Ha2.
  unfold in1, c1. rewrite (hm_spec_split k1 inputs) by exact Ha1. reflexivity.
Qed.

(* the FFI wrapper: equal to portable hash_many whenever its (unconditional) assertion holds;
   when it fails the wrapper panics in every build (code 101), portable only in debug (1101) *)
Theorem ffi_hash_many_ok f : hm_c_ok f ->
  forall inputs key ctr incr fl fs fe cap,
    length key = 8%nat -> uniform inputs -> ctr + N.of_nat (length inputs) < 2 ^ 64 ->
    N.of_nat (length inputs) <= cap ->
    ffi_hash_many f inputs key ctr incr fl fs fe cap = hash_many inputs key ctr incr fl fs fe cap.
Proof.
  intros Hf inputs key ctr incr fl fs fe cap Lk U Hctr Hcap.
  rewrite hash_many_spec by assumption. unfold ffi_hash_many.
  replace (N.of_nat (length inputs) <=? cap) with true by lia. cbn [check bind].
  apply Hf; assumption.
Qed.

Theorem ffi_hash_many_short f inputs key ctr incr fl fs fe cap : cap < N.of_nat (length inputs) ->
  ffi_hash_many f inputs key ctr incr fl fs fe cap = Panic 101.
Proof. intros H. unfold ffi_hash_many. replace (_ <=? _) with false by lia. reflexivity. Qed.

(* ------------------------------------------------------------------ *)
(* J. row-vectorised compression = portable compression                *)
(* ------------------------------------------------------------------ *)
(* the 16 message words of round r, in schedule order *)
Definition sel (r : nat) (w : list N) : list N := map (fun k => nth (sched r k) w 0) (seq 0 16).
(* the four state rows *)
Definition to_rows (s : list N) : rows :=
  (firstn 4 s, firstn 4 (skipn 4 s), firstn 4 (skipn 8 s), firstn 4 (skipn 12 s)).
(* the message vectors of a round whose schedule-ordered words are x:
   columns take (x0,x2,x4,x6) and (x1,x3,x5,x7); the diagonal step, with row1 unrotated,
   takes (x14,x8,x10,x12) and (x15,x9,x11,x13) *)
Definition layout (x : list N) : msgs :=
  let e k := nth k x 0 in
  ([e 0; e 2; e 4; e 6], [e 1; e 3; e 5; e 7], [e 14; e 8; e 10; e 12], [e 15; e 9; e 11; e 13])%nat.

Lemma sel_length r w : length (sel r w) = 16%nat.
Proof. unfold sel. rewrite map_length. reflexivity. Qed.

(* the shuffles between rounds implement MSG_PERMUTATION in the diagonal layout *)
Lemma msg_next_layout x : length x = 16%nat -> msg_next (layout x) = layout (permute x).
Proof.
  intros L. destruct (length16_inv x L) as (x0&x1&x2&x3&x4&x5&x6&x7&x8&x9&x10&x11&x12&x13&x14&x15&->).
  reflexivity.
Qed.

Lemma sel_S r w : (r < 6)%nat -> sel (S r) w = permute (sel r w).
Proof. intros H. do 6 (destruct r as [|r]; [reflexivity|]). lia. Qed.

(* one row round = one G-by-G round (same association of the additions) *)
Lemma rows_round_ok r s w : (r < 7)%nat -> length s = 16%nat ->
  rows_round (to_rows s) (layout (sel r w)) = to_rows (roundS add32 xor32 rotr32 0 s w r).
Proof.
  intros Hr L. destruct (length16_inv s L) as (s0&s1&s2&s3&s4&s5&s6&s7&s8&s9&s10&s11&s12&s13&s14&s15&->).
  do 7 (destruct r as [|r]; [reflexivity|]). lia.
Qed.

Lemma wob_skipn k l : words_of_bytes (skipn (4 * k) l) = skipn k (words_of_bytes l).
Proof.
  revert l. induction k as [|k IH]; intros l; [reflexivity|].
  replace (4 * S k)%nat with (S (S (S (S (4 * k))))) by lia.
  destruct l as [|b0 [|b1 [|b2 [|b3 l]]]]; try (cbn [skipn words_of_bytes]; destruct (4 * k)%nat; reflexivity).
  cbn [skipn words_of_bytes]. apply IH.
Qed.

Lemma wob_firstn k l : words_of_bytes (firstn (4 * k) l) = firstn k (words_of_bytes l).
Proof.
  revert l. induction k as [|k IH]; intros l; [reflexivity|].
  replace (4 * S k)%nat with (S (S (S (S (4 * k))))) by lia.
  destruct l as [|b0 [|b1 [|b2 [|b3 l]]]]; try (cbn [firstn words_of_bytes]; destruct (4 * k)%nat; reflexivity).
  cbn [firstn words_of_bytes]. f_equal. apply IH.
Qed.

Lemma nth_firstn_lt {A} (d : A) j n l : (j < n)%nat -> nth j (firstn n l) d = nth j l d.
Proof.
  revert j l. induction n as [|n IH]; intros j l H; [lia|].
  destruct l as [|x l]; [destruct j; reflexivity|]. destruct j as [|j]; [reflexivity|].
  cbn [firstn nth]. apply IH. lia.
Qed.

Lemma nth_skipn_add {A} (d : A) j m l : nth j (skipn m l) d = nth (m + j) l d.
Proof.
  revert l. induction m as [|m IH]; intros l; [reflexivity|].
  destruct l as [|x l]; [destruct j; reflexivity|]. cbn [skipn Nat.add nth]. apply IH.
Qed.

(* word j of the 16-byte load at word offset q is word q + j of the block *)
Lemma loadu_word block q j : (j < 4)%nat ->
  nth j (loadu 4 block (4 * q)) 0 = nth (q + j) (words_of_bytes block) 0.
Proof.
  intros H. unfold loadu. rewrite wob_firstn, wob_skipn, nth_firstn_lt by exact H. apply nth_skipn_add.
Qed.

Lemma msg_round1_ok block :
  msg_round1 (loadu 4 block 0, loadu 4 block 16, loadu 4 block 32, loadu 4 block 48) =
  layout (sel 0 (words_of_bytes block)).
Proof.
  pose proof (fun j H => loadu_word block 0 j H : nth j (loadu 4 block 0) 0 = nth (0 + j) (words_of_bytes block) 0) as E0.
  pose proof (fun j H => loadu_word block 4 j H : nth j (loadu 4 block 16) 0 = nth (4 + j) (words_of_bytes block) 0) as E1.
  pose proof (fun j H => loadu_word block 8 j H : nth j (loadu 4 block 32) 0 = nth (8 + j) (words_of_bytes block) 0) as E2.
  pose proof (fun j H => loadu_word block 12 j H : nth j (loadu 4 block 48) 0 = nth (12 + j) (words_of_bytes block) 0) as E3.
  unfold msg_round1, shuffle2, shuffle_epi32, ln. cbn [nth].
  rewrite !E0, !E1, !E2, !E3 by lia. reflexivity.
Qed.

Theorem compress_pre_rows_ok cv block bl ctr fl : length cv = 8%nat ->
  compress_pre_rows cv block bl ctr fl = to_rows (compress_pre cv block bl ctr fl).
Proof.
  intros L.
  do 8 (destruct cv as [|? cv]; [discriminate L|]). destruct cv; [|discriminate L].
  unfold compress_pre_rows. cbv zeta. rewrite msg_round1_ok.
  set (W := words_of_bytes block).
  set (s0 := [n; n0; n1; n2; n3; n4; n5; n6] ++ firstn 4 rs_IV ++ [ctr_lo ctr; ctr_hi ctr; bl; fl]).
  change (firstn 4 [n; n0; n1; n2; n3; n4; n5; n6], firstn 4 (skipn 4 [n; n0; n1; n2; n3; n4; n5; n6]),
          [nth 0 rs_IV 0; nth 1 rs_IV 0; nth 2 rs_IV 0; nth 3 rs_IV 0], [ctr_lo ctr; ctr_hi ctr; bl; fl])
    with (to_rows s0).
  assert (L0 : length s0 = 16%nat) by reflexivity.
  rewrite (rows_round_ok 0 s0 W) by (lia || exact L0). rewrite roundS_scalar.
  set (s1 := Portable.round s0 W 0). assert (L1 : length s1 = 16%nat) by (unfold s1; rewrite round_len; exact L0).
  rewrite msg_next_layout, <- sel_S by (lia || apply sel_length).
  rewrite (rows_round_ok 1 s1 W) by (lia || exact L1). rewrite roundS_scalar.
  set (s2 := Portable.round s1 W 1). assert (L2 : length s2 = 16%nat) by (unfold s2; rewrite round_len; exact L1).
  rewrite msg_next_layout, <- sel_S by (lia || apply sel_length).
  rewrite (rows_round_ok 2 s2 W) by (lia || exact L2). rewrite roundS_scalar.
  set (s3 := Portable.round s2 W 2). assert (L3 : length s3 = 16%nat) by (unfold s3; rewrite round_len; exact L2).
  rewrite msg_next_layout, <- sel_S by (lia || apply sel_length).
  rewrite (rows_round_ok 3 s3 W) by (lia || exact L3). rewrite roundS_scalar.
  set (s4 := Portable.round s3 W 3). assert (L4 : length s4 = 16%nat) by (unfold s4; rewrite round_len; exact L3).
  rewrite msg_next_layout, <- sel_S by (lia || apply sel_length).
  rewrite (rows_round_ok 4 s4 W) by (lia || exact L4). rewrite roundS_scalar.
  set (s5 := Portable.round s4 W 4). assert (L5 : length s5 = 16%nat) by (unfold s5; rewrite round_len; exact L4).
  rewrite msg_next_layout, <- sel_S by (lia || apply sel_length).
  rewrite (rows_round_ok 5 s5 W) by (lia || exact L5). rewrite roundS_scalar.
  set (s6 := Portable.round s5 W 5). assert (L6 : length s6 = 16%nat) by (unfold s6; rewrite round_len; exact L5).
  rewrite msg_next_layout, <- sel_S by (lia || apply sel_length).
  rewrite (rows_round_ok 6 s6 W) by (lia || exact L6). rewrite roundS_scalar.
  unfold compress_pre. cbv zeta. subst s6 s5 s4 s3 s2 s1 s0 W. reflexivity.
Qed.

Lemma compress_pre_length cv block bl ctr fl : length cv = 8%nat ->
  length (compress_pre cv block bl ctr fl) = 16%nat.
Proof. intros H. rewrite compress_pre_rounds7w, rounds7w_length, !app_length, H. reflexivity. Qed.

(* compress_rows_ok *)
Theorem compress_in_place_rows_ok cv block bl ctr fl : length cv = 8%nat ->
  compress_in_place_rows cv block bl ctr fl = compress_in_place cv block bl ctr fl.
Proof.
  intros L. unfold compress_in_place_rows, compress_in_place. rewrite compress_pre_rows_ok by exact L.
  cbv zeta. pose proof (compress_pre_length cv block bl ctr fl L) as Ls.
  destruct (length16_inv _ Ls) as (s0&s1&s2&s3&s4&s5&s6&s7&s8&s9&s10&s11&s12&s13&s14&s15&->).
  reflexivity.
Qed.

Theorem compress_xof_rows_ok cv block bl ctr fl : length cv = 8%nat ->
  compress_xof_rows cv block bl ctr fl = compress_xof cv block bl ctr fl.
Proof.
  intros L. unfold compress_xof_rows, compress_xof. rewrite compress_pre_rows_ok by exact L.
  cbv zeta. pose proof (compress_pre_length cv block bl ctr fl L) as Ls.
  destruct (length16_inv _ Ls) as (s0&s1&s2&s3&s4&s5&s6&s7&s8&s9&s10&s11&s12&s13&s14&s15&->).
  do 8 (destruct cv as [|? cv]; [discriminate L|]). destruct cv; [|discriminate L].
  reflexivity.
Qed.

Lemma cip_ok_rows : cip_ok compress_in_place_rows.
Proof. intros cv block bl ctr fl L. apply compress_in_place_rows_ok. exact L. Qed.


(* ------------------------------------------------------------------ *)
(* K. xofN and the xof_many cascade of blake3_avx512.c                 *)
(* ------------------------------------------------------------------ *)
(* k consecutive output blocks starting at counter c *)
Definition xof_spec (cv block : list N) (bl c fl : N) (k : nat) : list N :=
  concat (map (fun i => compress_xof cv block bl (c + N.of_nat i) fl) (seq 0 k)).

Lemma seq_add_map a b : seq a b = map (fun i => (a + i)%nat) (seq 0 b).
Proof.
  revert a. induction b as [|b IH]; intros a; [reflexivity|].
  cbn [seq map]. f_equal; [lia|]. rewrite (IH (S a)), <- seq_shift, map_map.
  apply map_ext. intros i. lia.
Qed.

Lemma xof_spec_app cv block bl c fl a b :
  xof_spec cv block bl c fl (a + b) =
  xof_spec cv block bl c fl a ++ xof_spec cv block bl (c + N.of_nat a) fl b.
Proof.
  unfold xof_spec. rewrite seq_app, map_app, concat_app. f_equal. f_equal.
  cbn [Nat.add]. rewrite (seq_add_map a b), map_map. apply map_ext. intros i.
  replace (c + N.of_nat (a + i)) with (c + N.of_nat a + N.of_nat i) by lia. reflexivity.
Qed.

Lemma xof_many_loop_spec cv block bl fl : forall k c, c + N.of_nat k < 2 ^ 64 ->
  xof_many_loop compress_xof cv block bl c fl k = Ok (xof_spec cv block bl c fl k).
Proof.
  induction k as [|k IH]; intros c Hc; [reflexivity|].
  cbn [xof_many_loop]. unfold mi_add, fits. replace (c + 1 <? 2 ^ 64) with true by lia. cbn [bind].
  rewrite IH by lia. cbn [bind]. f_equal.
  change (S k) with (1 + k)%nat. rewrite xof_spec_app. f_equal.
  unfold xof_spec. cbn [seq map concat]. rewrite app_nil_r, N.add_0_r. reflexivity.
Qed.

(* the padded message of load_block_words gives the same rounds *)
Lemma round_pad s block r : (r < 7)%nat -> length s = 16%nat ->
  Portable.round s (load_block_words block) r = Portable.round s (words_of_bytes block) r.
Proof.
  intros Hr L. destruct (length16_inv s L) as (s0&s1&s2&s3&s4&s5&s6&s7&s8&s9&s10&s11&s12&s13&s14&s15&->).
  unfold load_block_words. set (W := words_of_bytes block).
  do 7 (destruct r as [|r]; [reflexivity|]). lia.
Qed.

Lemma rounds7w_pad s block : length s = 16%nat ->
  rounds7w s (load_block_words block) = rounds7w s (words_of_bytes block).
Proof.
  intros L. unfold rounds7w.
  rewrite (round_pad s block 0) by (lia || exact L).
  rewrite (round_pad _ block 1) by (lia || rewrite !round_len; exact L).
  rewrite (round_pad _ block 2) by (lia || rewrite !round_len; exact L).
  rewrite (round_pad _ block 3) by (lia || rewrite !round_len; exact L).
  rewrite (round_pad _ block 4) by (lia || rewrite !round_len; exact L).
  rewrite (round_pad _ block 5) by (lia || rewrite !round_len; exact L).
  rewrite (round_pad _ block 6) by (lia || rewrite !round_len; exact L).
  reflexivity.
Qed.

Definition store_x_ok (n : nat) (store_x : list vec -> list N) : Prop :=
  forall v, length v = 16%nat -> Forall (wf n) v ->
    store_x v = concat (map (fun i => bytes_of_words (lane i v)) (seq 0 n)).

Lemma bow_concat (L : list (list N)) : bytes_of_words (concat L) = concat (map bytes_of_words L).
Proof.
  unfold bytes_of_words. induction L as [|x L IH]; [reflexivity|].
  cbn [concat map]. rewrite flat_map_app, IH. reflexivity.
Qed.

Lemma store_x16_ok : store_x_ok 16 store_x16.
Proof.
  intros v L F. unfold store_x16. rewrite (tr_ok_512 v L F), bow_concat. reflexivity.
Qed.

Lemma store_x8_ok : store_x_ok 8 store_x8.
Proof.
  intros v L F. unfold store_x8. cbv zeta.
  rewrite (tr_ok_256 (firstn 8 v)) by (try apply Forall_firstn; try rewrite firstn_length; try assumption; lia).
  rewrite (tr_ok_256 (skipn 8 v)) by (try apply Forall_skipn; try rewrite skipn_length; try assumption; lia).
  rewrite bow_concat, map_map. f_equal. apply map_ext_in. intros i Hi. apply in_seq in Hi. unfold vk.
  rewrite !tr_spec_row by lia. rewrite <- map_app, firstn_skipn. reflexivity.
Qed.

Lemma split4 {A} (v : list A) :
  v = firstn 4 v ++ firstn 4 (skipn 4 v) ++ firstn 4 (skipn 8 v) ++ skipn 12 v.
Proof.
  change (skipn 12 v) with (skipn (8 + 4) v). rewrite <- (skipn_skipn 4 8 v), firstn_skipn.
  change (skipn 8 v) with (skipn (4 + 4) v). rewrite <- (skipn_skipn 4 4 v), firstn_skipn.
  symmetry. apply firstn_skipn.
Qed.

Lemma store_x4_ok : store_x_ok 4 store_x4.
Proof.
  intros v L F. unfold store_x4. cbv zeta.
  assert (F1 := Forall_firstn _ 4 _ F).
  assert (F2 := Forall_firstn _ 4 _ (Forall_skipn _ 4 _ F)).
  assert (F3 := Forall_firstn _ 4 _ (Forall_skipn _ 8 _ F)).
  assert (F4 := Forall_skipn _ 12 _ F).
  rewrite (tr_ok_128 (firstn 4 v)) by (try rewrite firstn_length; try assumption; lia).
  rewrite (tr_ok_128 (firstn 4 (skipn 4 v))) by (try rewrite firstn_length, skipn_length; try assumption; lia).
  rewrite (tr_ok_128 (firstn 4 (skipn 8 v))) by (try rewrite firstn_length, skipn_length; try assumption; lia).
  rewrite (tr_ok_128 (skipn 12 v)) by (try rewrite skipn_length; try assumption; lia).
  rewrite bow_concat, map_map. f_equal. apply map_ext_in. intros i Hi. apply in_seq in Hi. unfold vk.
  rewrite !tr_spec_row by lia. rewrite <- !map_app. f_equal. unfold lane. f_equal.
  symmetry. apply split4.
Qed.

Lemma msg_set1_lane n i (ws : list N) : (i < n)%nat ->
  let msg := map (vset1 n) ws in
  Forall (wf n) msg /\ length msg = length ws /\ lane i msg = ws.
Proof.
  intros Hi msg. subst msg. split; [|split].
  - apply Forall_forall. intros v Hv. apply in_map_iff in Hv. destruct Hv as (k & <- & _). apply vset1_length.
  - apply map_length.
  - unfold lane. rewrite map_map. rewrite <- (map_id ws) at 2. apply map_ext. intros x. apply vset1_nth, Hi.
Qed.

Definition xN_ok (deg : nat) (xN : xofN_fn) : Prop :=
  forall cv block bl counter fl, length cv = 8%nat -> counter + N.of_nat deg <= 2 ^ 64 ->
    xN cv block bl counter fl = Ok (xof_spec cv block bl counter fl deg).

Theorem xofN_gen_ok n lc store_x : (0 < n)%nat -> lc_ok n lc -> store_x_ok n store_x ->
  xN_ok n (xofN_gen n lc store_x).
Proof.
  intros Hn Hlc Hst cv block bl counter fl Lcv Hc. unfold xofN_gen. cbv zeta.
  destruct (Hlc counter true Hc) as (clo & chi & -> & Wlo & Whi & Hlanes). cbn [bind]. f_equal.
  set (h := map (fun k => vset1 n (nth k cv 0)) (seq 0 8)).
  set (msg := map (vset1 n) (load_block_words block)).
  set (v7 := vrounds7 (vstate n h clo chi bl fl) msg).
  assert (Hall : forall i, (i < n)%nat ->
    Forall (wf n) (vxor_pairs (firstn 8 v7) (skipn 8 v7) ++ vxor_pairs (skipn 8 v7) h) /\
    length (vxor_pairs (firstn 8 v7) (skipn 8 v7) ++ vxor_pairs (skipn 8 v7) h) = 16%nat /\
    bytes_of_words (lane i (vxor_pairs (firstn 8 v7) (skipn 8 v7) ++ vxor_pairs (skipn 8 v7) h)) =
    compress_xof cv block bl (counter + N.of_nat i) fl).
  { intros i Hi.
    destruct (init_h_lane n i cv Hi Lcv) as (Fh & Lh & Eh). fold h in Fh, Lh, Eh.
    destruct (msg_set1_lane n i (load_block_words block) Hi) as (Fm & Lm & Em). fold msg in Fm, Lm, Em.
    assert (Lm' : length msg = 16%nat) by (rewrite Lm; unfold load_block_words; rewrite map_length; reflexivity).
    destruct (vstate_lane n i h clo chi bl fl Hi Lh Fh Wlo Whi) as (Fs & Ls & Es).
    destruct (vrounds7_lane n i _ msg Hi Ls Lm' Fs Fm) as (Fr & Lr & Er). fold v7 in Fr, Lr, Er.
    destruct (vxor_pairs_lane n i (firstn 8 v7) (skipn 8 v7) Hi (Forall_firstn _ _ _ Fr) (Forall_skipn _ _ _ Fr)) as (Fx & Ex).
    destruct (vxor_pairs_lane n i (skipn 8 v7) h Hi (Forall_skipn _ _ _ Fr) Fh) as (Fy & Ey).
    split; [apply Forall_app; split; assumption|]. split.
    - rewrite app_length, !vxor_pairs_length, firstn_length, skipn_length, Lr, Lh. reflexivity.
    - rewrite lane_app, Ex, Ey, lane_firstn, lane_skipn, Er, Es, Em, Eh.
      destruct (Hlanes i Hi) as [-> ->]. unfold lane_ctr.
      rewrite rounds7w_pad by (rewrite !app_length, Lcv; reflexivity).
      unfold compress_xof. cbv zeta. rewrite compress_pre_rounds7w. reflexivity. }
  destruct (Hall 0%nat Hn) as (F & L & _).
  rewrite (Hst _ L F). unfold xof_spec. f_equal. apply map_ext_in. intros i Hi. apply in_seq in Hi.
  apply (Hall i). lia.
Qed.

Lemma xof16_ok : xN_ok 16 xof16_avx512.
Proof. apply xofN_gen_ok; [lia|apply load_counters_andnot_ok; cbn; lia|exact store_x16_ok]. Qed.
Lemma xof8_ok : xN_ok 8 xof8_avx512.
Proof. apply xofN_gen_ok; [lia|apply load_counters_64_ok|exact store_x8_ok]. Qed.
Lemma xof4_ok : xN_ok 4 xof4_avx512.
Proof. apply xofN_gen_ok; [lia|apply load_counters_64_ok|exact store_x4_ok]. Qed.

Definition cx_ok (cx : cip_fn) : Prop :=
  forall cv block bl ctr fl, length cv = 8%nat -> cx cv block bl ctr fl = compress_xof cv block bl ctr fl.

Lemma xof1_ok cx : cx_ok cx -> xN_ok 1 (xof1 cx).
Proof.
  intros H cv block bl counter fl Lcv _. unfold xof1, xof_spec. cbn [seq map concat].
  rewrite app_nil_r, N.add_0_r, H by exact Lcv. reflexivity.
Qed.

Lemma xof_while_spec deg xN cv block bl fl : (0 < deg)%nat -> xN_ok deg xN -> length cv = 8%nat ->
  forall fuel counter outblocks, (N.to_nat outblocks < fuel)%nat -> counter + outblocks < 2 ^ 64 ->
    exists k, N.of_nat k <= outblocks /\ outblocks - N.of_nat k < N.of_nat deg /\
      xof_while fuel deg xN cv block bl counter fl outblocks =
      Ok (xof_spec cv block bl counter fl k, (counter + N.of_nat k, outblocks - N.of_nat k)).
Proof.
  intros Hd HX Lcv. induction fuel as [|fuel IH]; intros counter outblocks Hf Hc; [lia|].
  cbn [xof_while]. destruct (N.leb_spec (N.of_nat deg) outblocks) as [Hle|Hlt].
  - rewrite (HX cv block bl counter fl Lcv) by lia. cbn [bind].
    rewrite (cadd_c_ok counter (N.of_nat deg)) by lia. cbn [bind].
    destruct (IH (counter + N.of_nat deg) (outblocks - N.of_nat deg) ltac:(lia) ltac:(lia)) as (k & Hk1 & Hk2 & ->).
    cbn [bind]. exists (deg + k)%nat. split; [lia|]. split; [lia|].
    rewrite xof_spec_app.
    replace (counter + N.of_nat deg + N.of_nat k) with (counter + N.of_nat (deg + k)) by lia.
    replace (outblocks - N.of_nat deg - N.of_nat k) with (outblocks - N.of_nat (deg + k)) by lia.
    reflexivity.
  - exists 0%nat. split; [lia|]. split; [lia|]. unfold xof_spec. cbn [seq map concat].
    change (N.of_nat 0) with 0. rewrite N.add_0_r, N.sub_0_r. reflexivity.
Qed.

(* xof_many_avx512_ok *)
Theorem xof_many_avx512_ok cx : cx_ok cx -> forall cv block bl ctr fl n,
  length cv = 8%nat -> ctr + n < 2 ^ 64 ->
  xof_many_avx512 cx cv block bl ctr fl n = portable_xof_many cv block bl ctr fl n.
Proof.
  intros Hcx cv block bl ctr fl n Lcv Hc. unfold portable_xof_many.
  rewrite xof_many_loop_spec by lia. unfold xof_many_avx512.
  destruct (xof_while_spec 16 xof16_avx512 cv block bl fl ltac:(lia) xof16_ok Lcv
              (S (N.to_nat n)) ctr n ltac:(lia) Hc) as (k1 & A1 & B1 & ->). cbn [bind].
  destruct (xof_while_spec 8 xof8_avx512 cv block bl fl ltac:(lia) xof8_ok Lcv
              (S (N.to_nat (n - N.of_nat k1))) (ctr + N.of_nat k1) (n - N.of_nat k1) ltac:(lia) ltac:(lia))
    as (k2 & A2 & B2 & ->). cbn [bind].
  destruct (xof_while_spec 4 xof4_avx512 cv block bl fl ltac:(lia) xof4_ok Lcv
              (S (N.to_nat (n - N.of_nat k1 - N.of_nat k2))) (ctr + N.of_nat k1 + N.of_nat k2)
              (n - N.of_nat k1 - N.of_nat k2) ltac:(lia) ltac:(lia))
    as (k3 & A3 & B3 & ->). cbn [bind].
  destruct (xof_while_spec 1 (xof1 cx) cv block bl fl ltac:(lia) (xof1_ok cx Hcx) Lcv
              (S (N.to_nat (n - N.of_nat k1 - N.of_nat k2 - N.of_nat k3)))
              (ctr + N.of_nat k1 + N.of_nat k2 + N.of_nat k3)
              (n - N.of_nat k1 - N.of_nat k2 - N.of_nat k3) ltac:(lia) ltac:(lia))
    as (k4 & A4 & B4 & ->). cbn [bind]. f_equal.
  replace (N.to_nat n) with (k1 + (k2 + (k3 + k4)))%nat by lia.
  rewrite !xof_spec_app.
  replace (ctr + N.of_nat k1 + N.of_nat (k2 + k3)) with (ctr + N.of_nat k1 + N.of_nat k2 + N.of_nat k3) by lia.
  rewrite ?Nat2N.inj_add, ?N.add_assoc. reflexivity.
Qed.

Theorem xof_many_avx512_rs_ok cx : cx_ok cx -> forall cv block bl ctr fl n,
  length cv = 8%nat -> ctr + n < 2 ^ 64 ->
  xof_many_avx512_rs cx cv block bl ctr fl n = portable_xof_many cv block bl ctr fl n.
Proof.
  intros Hcx cv block bl ctr fl n Lcv Hc. unfold xof_many_avx512_rs.
  destruct (N.eqb_spec n 0) as [->|_]; [reflexivity|]. apply xof_many_avx512_ok; assumption.
Qed.

(* ------------------------------------------------------------------ *)
(* L. PlatformOK                                                       *)
(* ------------------------------------------------------------------ *)
Lemma cip_rows_total cv block bl ctr fl : cip_rows cv block bl ctr fl = compress_in_place cv block bl ctr fl.
Proof.
  unfold cip_rows, guard_cip, cv_ok. destruct (Nat.eqb_spec (length cv) 8) as [E|E]; [|reflexivity].
  apply compress_in_place_rows_ok. exact E.
Qed.
Lemma cx_rows_total cv block bl ctr fl : cx_rows cv block bl ctr fl = compress_xof cv block bl ctr fl.
Proof.
  unfold cx_rows, guard_cip, cv_ok. destruct (Nat.eqb_spec (length cv) 8) as [E|E]; [|reflexivity].
  apply compress_xof_rows_ok. exact E.
Qed.

(* inside the argument types the guards are the identity: the vector kernels run *)
Lemma cip_rows_guard_in cv block bl ctr fl : length cv = 8%nat ->
  cip_rows cv block bl ctr fl = compress_in_place_rows cv block bl ctr fl.
Proof. intros E. unfold cip_rows, guard_cip, cv_ok. rewrite E. reflexivity. Qed.
Lemma guard_hm_in extra k inputs key ctr incr fl fs fe cap :
  cv_ok key = true -> inputs_ok inputs = true -> extra inputs cap = true ->
  guard_hm extra k inputs key ctr incr fl fs fe cap = k inputs key ctr incr fl fs fe cap.
Proof. intros A B C. unfold guard_hm. rewrite A, B, C. reflexivity. Qed.
Lemma guard_xm_in k cv block bl ctr fl n : cv_ok cv = true ->
  guard_xm k cv block bl ctr fl n = k cv block bl ctr fl n.
Proof. intros A. unfold guard_xm. rewrite A. reflexivity. Qed.

Lemma inputs_ok_uniform inputs : inputs_ok inputs = true -> uniform inputs.
Proof.
  intros H i Hi. unfold inputs_ok in H. rewrite forallb_forall in H.
  specialize (H i Hi). apply andb_true_iff in H. destruct H as [H1 H2].
  apply Nat.eqb_eq in H1. apply Nat.eqb_eq in H2.
  unfold blocks_of. rewrite <- H1.
  apply Nat.mod_divides in H2; [|discriminate]. destruct H2 as [c Hc]. rewrite Hc.
  rewrite Nat.mul_comm, Nat.div_mul by discriminate. reflexivity.
Qed.

Lemma guard_hm_ok extra k :
  (forall inputs key ctr incr fl fs fe cap, length key = 8%nat -> uniform inputs -> extra inputs cap = true ->
     ctr + N.of_nat (length inputs) < 2 ^ 64 ->
     k inputs key ctr incr fl fs fe cap = hash_many inputs key ctr incr fl fs fe cap) ->
  forall inputs key ctr incr fl fs fe cap, ctr + N.of_nat (length inputs) < 2 ^ 64 ->
    guard_hm extra k inputs key ctr incr fl fs fe cap = hash_many inputs key ctr incr fl fs fe cap.
Proof.
  intros Hk inputs key ctr incr fl fs fe cap Hc. unfold guard_hm.
  destruct (cv_ok key) eqn:A; [|reflexivity]. destruct (inputs_ok inputs) eqn:B; [|reflexivity].
  destruct (extra inputs cap) eqn:C; [|reflexivity]. cbn [andb].
  apply Hk; try assumption.
  - apply Nat.eqb_eq. exact A.
  - apply inputs_ok_uniform. exact B.
Qed.

Lemma xof_many_loop_ext cx cx' cv block bl fl :
  (forall c, cx cv block bl c fl = cx' cv block bl c fl) ->
  forall n c, xof_many_loop cx cv block bl c fl n = xof_many_loop cx' cv block bl c fl n.
Proof.
  intros H. induction n as [|n IH]; intros c; [reflexivity|].
  cbn [xof_many_loop]. rewrite H. destruct (mi_add 64 c 1); cbn [bind]; try reflexivity.
  rewrite IH. reflexivity.
Qed.

Lemma guard_xm_generic_ok cv block bl ctr fl n :
  guard_xm (xof_many_generic compress_xof_rows) cv block bl ctr fl n = portable_xof_many cv block bl ctr fl n.
Proof.
  unfold guard_xm, cv_ok. destruct (Nat.eqb_spec (length cv) 8) as [E|E]; [|reflexivity].
  unfold xof_many_generic, portable_xof_many. apply xof_many_loop_ext.
  intros c. apply compress_xof_rows_ok. exact E.
Qed.

Ltac platform_basics :=
  constructor; cbn [p_degree p_max_degree p_compress_in_place p_compress_xof p_hash_many p_xof_many];
  [ reflexivity | unfold rs_degree_SSE2, rs_degree_SSE41, rs_degree_AVX2, rs_degree_AVX512; lia | lia | reflexivity
  | exact cip_rows_total | exact cx_rows_total | | ].

Theorem sse41_platform_ok : PlatformOK sse41_platform.
Proof.
  unfold sse41_platform. platform_basics.
  - intros inputs key ctr incr fl fs fe cap Hc. apply guard_hm_ok; [|exact Hc].
    intros. apply hash_many_rs4_ok; try assumption; [apply load_counters_rs_ok|exact cip_ok_rows].
  - intros cv block bl ctr fl n _. apply guard_xm_generic_ok.
Qed.

Theorem sse2_platform_ok : PlatformOK sse2_platform.
Proof. exact sse41_platform_ok. Qed.

Theorem avx2_platform_ok : PlatformOK avx2_platform.
Proof.
  unfold avx2_platform. platform_basics.
  - intros inputs key ctr incr fl fs fe cap Hc. apply guard_hm_ok; [|exact Hc].
    intros. apply hash_many_rs8_ok; try assumption; [apply load_counters_rs_ok|apply load_counters_rs_ok|exact cip_ok_rows].
  - intros cv block bl ctr fl n _. apply guard_xm_generic_ok.
Qed.

Theorem sse41_ffi_platform_ok : PlatformOK sse41_ffi_platform.
Proof.
  unfold sse41_ffi_platform. platform_basics.
  - intros inputs key ctr incr fl fs fe cap Hc. apply guard_hm_ok; [|exact Hc].
    intros. apply ffi_hash_many_ok; try assumption.
    + apply hash_many_c4_ok; [apply load_counters_cmp_ok; cbn; lia|exact cip_ok_rows].
    + apply N.leb_le. assumption.
  - intros cv block bl ctr fl n _. apply guard_xm_generic_ok.
Qed.

Theorem avx2_ffi_platform_ok : PlatformOK avx2_ffi_platform.
Proof.
  unfold avx2_ffi_platform. platform_basics.
  - intros inputs key ctr incr fl fs fe cap Hc. apply guard_hm_ok; [|exact Hc].
    intros. apply ffi_hash_many_ok; try assumption.
    + apply hash_many_c8_ok; [apply load_counters_cmp_ok; cbn; lia|apply load_counters_cmp_ok; cbn; lia|exact cip_ok_rows].
    + apply N.leb_le. assumption.
  - intros cv block bl ctr fl n _. apply guard_xm_generic_ok.
Qed.

Lemma cx_ok_rows : cx_ok compress_xof_rows.
Proof. intros cv block bl ctr fl L. apply compress_xof_rows_ok. exact L. Qed.

Theorem avx512_platform_ok : PlatformOK avx512_platform.
Proof.
  unfold avx512_platform. platform_basics.
  - intros inputs key ctr incr fl fs fe cap Hc. apply guard_hm_ok; [|exact Hc].
    intros. apply ffi_hash_many_ok; try assumption.
    + apply hash_many_c16_ok. exact cip_ok_rows.
    + apply N.leb_le. assumption.
  - intros cv block bl ctr fl n Hc. unfold guard_xm, cv_ok.
    destruct (Nat.eqb_spec (length cv) 8) as [E|E]; [|reflexivity].
    apply xof_many_avx512_rs_ok; [exact cx_ok_rows|exact E|exact Hc].
Qed.

(* ------------------------------------------------------------------ *)
(* M. the deliverable statements in one place                          *)
(* ------------------------------------------------------------------ *)
(* transposes: the three theorems transpose_vecs_{128,256,512}_ok above.
   load_counters_ok: load_counters_{rs,cmp,andnot,64}_ok above. *)

(* hashN for the concrete kernels *)
Theorem hash4_rs_ok : hN_ok 4 hash4_rs.
Proof. apply (hashN_ok 4); [lia|exact tmsg_ok_4|apply load_counters_rs_ok|exact store_ok_4]. Qed.
Theorem hash8_rs_ok : hN_ok 8 hash8_rs.
Proof. apply (hashN_ok 8); [lia|exact tmsg_ok_8|apply load_counters_rs_ok|exact store_ok_8]. Qed.
Theorem hash4_c_ok : hN_ok 4 hash4_c.
Proof. apply (hashN_ok 4); [lia|exact tmsg_ok_4|apply load_counters_cmp_ok; cbn; lia|exact store_ok_4]. Qed.
Theorem hash8_c_ok : hN_ok 8 hash8_c.
Proof. apply (hashN_ok 8); [lia|exact tmsg_ok_8|apply load_counters_cmp_ok; cbn; lia|exact store_ok_8]. Qed.

(* hash_many of the four back ends, Rust and C flavours *)
Definition hm_dom (inputs : list (list N)) (key : list N) (ctr : N) : Prop :=
  length key = 8%nat /\ uniform inputs /\ ctr + N.of_nat (length inputs) < 2 ^ 64.

Theorem hash_many_sse41_ok inputs key ctr incr fl fs fe cap : hm_dom inputs key ctr ->
  hash_many_rs4 (load_counters_rs 4) compress_in_place_rows inputs key ctr incr fl fs fe cap =
  hash_many inputs key ctr incr fl fs fe cap.
Proof. intros (A & B & C). apply hash_many_rs4_ok; try assumption; [apply load_counters_rs_ok|exact cip_ok_rows]. Qed.

(* rust_sse2.rs has the same hash_many as rust_sse41.rs *)
Theorem hash_many_sse2_ok inputs key ctr incr fl fs fe cap : hm_dom inputs key ctr ->
  hash_many_rs4 (load_counters_rs 4) compress_in_place_rows inputs key ctr incr fl fs fe cap =
  hash_many inputs key ctr incr fl fs fe cap.
Proof. exact (hash_many_sse41_ok inputs key ctr incr fl fs fe cap). Qed.

Theorem hash_many_avx2_ok inputs key ctr incr fl fs fe cap : hm_dom inputs key ctr ->
  hash_many_rs8 (load_counters_rs 8) (load_counters_rs 4) compress_in_place_rows inputs key ctr incr fl fs fe cap =
  hash_many inputs key ctr incr fl fs fe cap.
Proof.
  intros (A & B & C). apply hash_many_rs8_ok; try assumption;
    [apply load_counters_rs_ok|apply load_counters_rs_ok|exact cip_ok_rows].
Qed.

Theorem hash_many_avx512_ok inputs key ctr incr fl fs fe cap : hm_dom inputs key ctr ->
  N.of_nat (length inputs) <= cap ->
  ffi_hash_many (hash_many_c16 compress_in_place_rows) inputs key ctr incr fl fs fe cap =
  hash_many inputs key ctr incr fl fs fe cap.
Proof. intros (A & B & C) D. apply ffi_hash_many_ok; try assumption. apply hash_many_c16_ok. exact cip_ok_rows. Qed.

Theorem hash_many_sse41_c_ok inputs key ctr incr fl fs fe cap : hm_dom inputs key ctr ->
  N.of_nat (length inputs) <= cap ->
  ffi_hash_many (hash_many_c4 (load_counters_cmp 4) compress_in_place_rows) inputs key ctr incr fl fs fe cap =
  hash_many inputs key ctr incr fl fs fe cap.
Proof.
  intros (A & B & C) D. apply ffi_hash_many_ok; try assumption.
  apply hash_many_c4_ok; [apply load_counters_cmp_ok; cbn; lia|exact cip_ok_rows].
Qed.

Theorem hash_many_avx2_c_ok inputs key ctr incr fl fs fe cap : hm_dom inputs key ctr ->
  N.of_nat (length inputs) <= cap ->
  ffi_hash_many (hash_many_c8 (load_counters_cmp 8) (load_counters_cmp 4) compress_in_place_rows)
                inputs key ctr incr fl fs fe cap =
  hash_many inputs key ctr incr fl fs fe cap.
Proof.
  intros (A & B & C) D. apply ffi_hash_many_ok; try assumption.
  apply hash_many_c8_ok; [apply load_counters_cmp_ok; cbn; lia|apply load_counters_cmp_ok; cbn; lia|exact cip_ok_rows].
Qed.
