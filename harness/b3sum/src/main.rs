// The real b3sum command line tool: the unmodified b3sum/src/main.rs of the repository under
// test (path chosen by build.rs), compiled against the repository's blake3 crate.
include!(env!("B3SUM_MAIN_RS"));
