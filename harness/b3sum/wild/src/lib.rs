//! Offline stand-in for the `wild` crate: on Unix `wild::args_os()` IS `std::env::args_os()`.
pub fn args_os() -> std::env::ArgsOs {
    std::env::args_os()
}
