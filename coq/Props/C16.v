(* C16: RustCrypto trait impls and the legacy guts API agree with the inherent API.
   Statements only; proofs in Proofs/MiscP.v. *)
From Coq Require Import NArith List Bool.
From V Require Import Base.Res Base.Word Spec.Compress Spec.Tree Spec.Blake3 Model.Platform Model.RsChunk
  Model.RsHasher Model.RsXof Model.RsGuts Model.Machine Proofs.MiscP.
Import ListNotations.
Open Scope N_scope.

(* each trait method is the inherent method (same machine step, same observations) *)
Theorem C16_trait_update : forall p pn m key flags st i b,
  step p pn m key flags st (OpTUpdate i b) = step p pn m key flags st (OpUpdate i b).
Proof. exact trait_update. Qed.
Theorem C16_trait_reset : forall p pn m key flags st i,
  step p pn m key flags st (OpTReset i) = step p pn m key flags st (OpReset i).
Proof. exact trait_reset. Qed.
Theorem C16_trait_finalize : forall p pn m key flags st i,
  step p pn m key flags st (OpTFinalize i) = step p pn m key flags st (OpFinalize i).
Proof. exact trait_finalize. Qed.

(* the resetting variants leave exactly the state of finalize followed by reset *)
Theorem C16_trait_finalize_reset : forall p pn m key flags st i,
  step p pn m key flags st (OpTFinalizeReset i) =
  ('(st1, o1) <- step p pn m key flags st (OpFinalize i) ;;
   '(st2, o2) <- step p pn m key flags st1 (OpReset i) ;; Ok (st2, o1 ++ o2)).
Proof. exact trait_finalize_reset. Qed.

Theorem C16_trait_xof : forall p pn m key flags st i n,
  step p pn m key flags st (OpTXof i n) =
  ('(st1, o1) <- step p pn m key flags st (OpReaderNew i) ;;
   '(st2, o2) <- step p pn m key flags st1 (OpFill (length (st_readers st)) n) ;; Ok (st2, o1 ++ o2)).
Proof. exact trait_xof. Qed.

(* guts::ChunkState: any split of at most 1024 bytes, any chunk counter; root only for chunk 0 *)
Theorem C16_guts_chunk_spec : forall p, PlatformOK p -> forall ctr pieces,
  len (concat pieces) <= 1024 ->
  exists cs lens, guts_feed p (guts_new ctr) pieces [] = Ok (cs, lens) /\
    guts_finalize p cs false = Ok (chaining_value spec_c8 (chunk_output spec_c8 IV 0 ctr (concat pieces))) /\
    (ctr = 0 -> guts_finalize p cs true = Ok (stream spec_c64 (chunk_output spec_c8 IV 0 0 (concat pieces)) 0 32)).
Proof. exact guts_chunk_spec. Qed.

Theorem C16_guts_parent_spec : forall p, PlatformOK p -> forall l r,
  length l = 32%nat -> length r = 32%nat ->
  guts_parent_cv p l r false = Ok (chaining_value spec_c8 (parent_output IV 0 l r)) /\
  guts_parent_cv p l r true = Ok (stream spec_c64 (parent_output IV 0 l r) 0 32).
Proof. exact guts_parent_spec. Qed.

Example C16_nonvacuous :
  let p := sim_platform 4 16 in
  exists cs lens, guts_feed p (guts_new 5) [[1;2;3]; repeat 7 100; [9]] [] = Ok (cs, lens) /\ lens = [3; 103; 104].
Proof. vm_compute. eauto. Qed.

(* the functions of the modelled source are exactly the functions the model was written against
   (gen/GenApi.v is regenerated from /repo on every run; see Model/ApiSurface.v) *)
From V Require gen.GenApi Model.ApiSurface.
Theorem C16_api_traits : GenApi.api_traits = ApiSurface.expected_traits.
Proof. reflexivity. Qed.
Theorem C16_api_guts : GenApi.api_guts = ApiSurface.expected_guts.
Proof. reflexivity. Qed.

Print Assumptions C16_api_traits.
Print Assumptions C16_api_guts.
Print Assumptions C16_trait_update.
Print Assumptions C16_trait_reset.
Print Assumptions C16_trait_finalize.
Print Assumptions C16_trait_finalize_reset.
Print Assumptions C16_trait_xof.
Print Assumptions C16_guts_chunk_spec.
Print Assumptions C16_guts_parent_spec.
