(* Proofs for C12: digest output of b3sum and the exit status of b3sum --check. *)
From V Require Import Base.Res Spec.Tree Spec.Blake3 Model.B3sum Proofs.ListP Proofs.B3sumP.
Import ListNotations.
Open Scope N_scope.

(* ========================================================================= *)
(* 1. output                                                                 *)
(* ========================================================================= *)
Lemma nrange_app p a b : nrange p (a + b) = nrange p a ++ nrange (p + N.of_nat a) b.
Proof.
  revert p. induction a as [|a IH]; intros p; cbn [nrange Nat.add app].
  - f_equal. lia.
  - f_equal. rewrite IH. do 2 f_equal. lia.
Qed.

Lemma srange_app St p a b : srange St p (a + b) = srange St p a ++ srange St (p + N.of_nat a) b.
Proof. unfold srange. rewrite nrange_app, map_app. reflexivity. Qed.

Lemma nrange_length p n : length (nrange p n) = n.
Proof. revert p. induction n as [|n IH]; intros p; cbn [nrange length]; [reflexivity|]. rewrite IH. reflexivity. Qed.

Lemma srange_length St p n : length (srange St p n) = n.
Proof. unfold srange. rewrite map_length. apply nrange_length. Qed.

Lemma firstn_srange St p n m : (n <= m)%nat -> firstn n (srange St p m) = srange St p n.
Proof.
  intros H. replace m with (n + (m - n))%nat by lia. rewrite srange_app.
  rewrite firstn_app, srange_length. replace (n - n)%nat with 0%nat by lia.
  rewrite firstn_O, app_nil_r. apply firstn_all2. rewrite srange_length. lia.
Qed.

Lemma hex_of_bytes_app a b : hex_of_bytes (a ++ b) = hex_of_bytes a ++ hex_of_bytes b.
Proof. induction a as [|x a IH]; [reflexivity|]. cbn [app hex_of_bytes]. rewrite IH. reflexivity. Qed.

Lemma hex_of_bytes_length l : length (hex_of_bytes l) = (2 * length l)%nat.
Proof. induction l as [|x l IH]; [reflexivity|]. cbn [hex_of_bytes length]. rewrite IH. lia. Qed.

Lemma firstn_hex n l : firstn (2 * n) (hex_of_bytes l) = hex_of_bytes (firstn n l).
Proof.
  revert l. induction n as [|n IH]; intros l; [reflexivity|].
  destruct l as [|x l]; [reflexivity|].
  replace (2 * S n)%nat with (S (S (2 * n))) by lia. cbn [hex_of_bytes firstn]. rewrite IH. reflexivity.
Qed.

(* the digest bytes b3sum is asked for *)
Definition digest (St : N -> N) (seek len : N) : list N := srange St seek (N.to_nat len).

Theorem hex_output_spec_gen : forall fuel St seek len, (N.to_nat (len / 64) < fuel)%nat ->
  write_hex_output fuel St seek len = Ok (hex_of_bytes (digest St seek len)).
Proof.
  unfold digest. induction fuel as [|fuel IH]; intros St seek len Hf; [lia|].
  cbn [write_hex_output]. destruct (N.eqb_spec len 0) as [->|NZ]; [reflexivity|].
  destruct (N.le_gt_cases len 64) as [LE|GT].
  - replace (N.min len 64) with len by lia. replace (len - len) with 0 by lia.
    assert (E0 : write_hex_output fuel St (seek + 64) 0 = Ok []) by (destruct fuel; reflexivity).
    rewrite E0. cbn [bind]. rewrite app_nil_r.
    replace (N.to_nat (2 * len)) with (2 * N.to_nat len)%nat by lia.
    rewrite firstn_hex, firstn_srange by lia. reflexivity.
  - replace (N.min len 64) with 64 by lia.
    rewrite IH by lia. cbn [bind]. f_equal.
    change (N.to_nat (2 * 64)) with 128%nat.
    rewrite firstn_all2 by (rewrite hex_of_bytes_length, srange_length; apply le_n).
    rewrite <- hex_of_bytes_app. f_equal.
    replace (N.to_nat len) with (64 + N.to_nat (len - 64))%nat by lia.
    rewrite srange_app. reflexivity.
Qed.

(* the statement with the bound of the property text (the bound is not needed by the model, whose
   positions are unbounded; it is the range in which the real OutputReader position cannot wrap) *)
Theorem hex_output_spec : forall St seek len, seek + len <= U64_MAX ->
  write_hex_output (hex_fuel len) St seek len = Ok (hex_of_bytes (digest St seek len)).
Proof. intros. apply hex_output_spec_gen. unfold hex_fuel. lia. Qed.

Theorem raw_output_spec_gen : forall fuel chunk St seek len, (N.to_nat (len / N.max 1 chunk) < fuel)%nat ->
  write_raw_output fuel chunk St seek len = Ok (digest St seek len).
Proof.
  unfold digest. induction fuel as [|fuel IH]; intros chunk St seek len Hf; [inversion Hf|].
  cbn [write_raw_output]. destruct (N.eqb_spec len 0) as [->|NZ]; [reflexivity|].
  set (c := N.max 1 chunk) in *. assert (C1 : 1 <= c) by (unfold c; lia).
  destruct (N.le_gt_cases len c) as [LE|GT].
  - replace (N.min len c) with len by lia. replace (len - len) with 0 by lia.
    assert (E0 : write_raw_output fuel chunk St (seek + len) 0 = Ok []) by (destruct fuel; reflexivity).
    rewrite E0. cbn [bind]. rewrite app_nil_r. reflexivity.
  - replace (N.min len c) with c by lia.
    assert (D : len / c = (len - c) / c + 1).
    { replace len with ((len - c) + 1 * c) at 1 by lia. rewrite N.div_add by lia. reflexivity. }
    rewrite IH by (fold c; lia). cbn [bind]. f_equal.
    replace (N.to_nat len) with (N.to_nat c + N.to_nat (len - c))%nat by lia.
    rewrite srange_app. do 2 f_equal. lia.
Qed.

Theorem raw_output_spec : forall chunk St seek len, seek + len <= U64_MAX ->
  write_raw_output (S (N.to_nat (len / N.max 1 chunk))) chunk St seek len = Ok (digest St seek len).
Proof. intros. apply raw_output_spec_gen. lia. Qed.

(* stdout of hash_one_input for every combination of --raw, --no-names, --tag, --length, --seek *)
Theorem hash_one_input_spec : forall fl St path,
  hash_one_input fl St path =
  Ok (let d := digest St (f_seek fl) (f_length fl) in
      if f_raw fl then d
      else if f_no_names fl then hex_of_bytes d ++ [LF]
      else print_line (f_tag fl) path (hex_of_bytes d)).
Proof.
  intros. unfold hash_one_input. destruct (f_raw fl).
  - apply raw_output_spec_gen. change (N.max 1 8192) with 8192. lia.
  - rewrite hex_output_spec_gen by (unfold hex_fuel; lia). cbn [bind].
    destruct (f_no_names fl); reflexivity.
Qed.

(* the stream of the specification: S = root output stream of the mode and file *)
Definition lib_stream (m : mode) (input : list N) : N -> N := stream_byte spec_c64 (b3_root_output m input).

Lemma digest_is_xof m input seek len :
  digest (lib_stream m input) seek len = b3_xof_mode m input seek (N.to_nat len).
Proof. reflexivity. Qed.

(* ========================================================================= *)
(* 2. --check                                                                *)
(* ========================================================================= *)
Lemma list_eqb_eq a : forall b, list_eqb a b = true <-> a = b.
Proof.
  induction a as [|x a IH]; intros [|y b]; cbn [list_eqb]; split; intros H; try congruence; try discriminate.
  - apply andb_true_iff in H as [H1 H2]. apply N.eqb_eq in H1. apply IH in H2. congruence.
  - inversion H; subst. rewrite N.eqb_refl. apply IH. reflexivity.
Qed.

(* check_one_line succeeds exactly when the line parses, the named file is readable, and its
   32 output bytes at --seek equal the expected hash *)
Theorem line_ok_iff : forall cfg fs seek quiet line,
  (exists out, check_one_line cfg fs seek quiet line = Ok (true, out)) <->
  (exists p h e f St, parse_check_line cfg line = Ok (POk p h e f) /\ fs p = inr St /\ digest St seek 32 = h).
Proof.
  intros. unfold check_one_line, digest. change (N.to_nat 32) with 32%nat. split.
  - intros [out H]. destruct (parse_check_line cfg line) as [[er|p h e f]| |]; cbn [bind] in H; try discriminate.
    destruct (fs p) as [err|St] eqn:EF; [discriminate|].
    destruct (list_eqb h (srange St seek 32)) eqn:EQ; [|discriminate].
    apply list_eqb_eq in EQ. exists p, h, e, f, St. auto.
  - intros (p & h & e & f & St & -> & EF & <-). cbn [bind]. rewrite EF.
    replace (list_eqb _ _) with true by (symmetry; apply list_eqb_eq; reflexivity). eauto.
Qed.

(* a failing line always yields a diagnostic: on stdout ("FAILED"), or - for a malformed line -
   on stderr (`b3sum: <error>`, not part of the stdout model) *)
Theorem failing_line_diagnosed : forall cfg fs seek quiet line out,
  check_one_line cfg fs seek quiet line = Ok (false, out) ->
  (exists e, parse_check_line cfg line = Ok (PErr e) /\ out = []) \/
  (exists p h e f, parse_check_line cfg line = Ok (POk p h e f) /\
     exists shown, shown = esc_prefix e ++ f /\
       ((exists msg, fs p = inl msg /\ out = shown ++ FAILED_OPEN ++ msg ++ [41; 10]) \/
        (exists St, fs p = inr St /\ digest St seek 32 <> h /\ out = shown ++ FAILED_SUFFIX))).
Proof.
  intros cfg fs seek quiet line out. unfold check_one_line, digest. change (N.to_nat 32) with 32%nat.
  destruct (parse_check_line cfg line) as [[er|p h e f]| |]; cbn [bind]; try discriminate.
  - intros H; inversion H; subst. left. eauto.
  - intros H. right. exists p, h, e, f. split; [reflexivity|]. eexists. split; [reflexivity|].
    destruct (fs p) as [msg|St].
    + inversion H; subst. left. eauto.
    + destruct (list_eqb h (srange St seek 32)) eqn:EQ; [discriminate|]. inversion H; subst.
      right. exists St. repeat split; auto. intros E. rewrite <- E in EQ.
      assert (list_eqb (srange St seek 32) (srange St seek 32) = true) by (apply list_eqb_eq; reflexivity).
      congruence.
Qed.

Definition line_ok (cfg : b3cfg) (fs : fsys) (seek : N) (quiet : bool) (l : cline) : Prop :=
  match l with
  | LBadUtf8 => False
  | LText s => exists out, check_one_line cfg fs seek quiet s = Ok (true, out)
  end.

Lemma sat_add1_nonzero x : sat_add1 x <> 0.
Proof. unfold sat_add1, U64_MAX. destruct (x <? 18446744073709551615); lia. Qed.

Lemma Forall_line_ok_cons cfg fs seek quiet s lines :
  Forall (line_ok cfg fs seek quiet) (LText s :: lines) ->
  (exists o, check_one_line cfg fs seek quiet s = Ok (true, o)) /\ Forall (line_ok cfg fs seek quiet) lines.
Proof. intros F. inversion F; subst. split; assumption. Qed.

Lemma check_lines_zero cfg fs seek quiet : forall lines failed out r,
  check_lines cfg fs seek quiet lines failed = (out, r) ->
  match r with
  | inr f' => (f' = 0 <-> failed = 0 /\ Forall (line_ok cfg fs seek quiet) lines)
  | inl e => exit_status e <> 0 /\ ~ Forall (line_ok cfg fs seek quiet) lines
  end.
Proof.
  induction lines as [|l lines IH]; intros failed out r H; cbn [check_lines] in H.
  { inversion H; subst. split; [intros ->; split; [reflexivity|constructor]|tauto]. }
  destruct l as [s|].
  2:{ inversion H; subst. split; [discriminate|]. intros F. inversion F; subst. assumption. }
  destruct (check_one_line cfg fs seek quiet s) as [[success o]| c |] eqn:EC.
  - destruct (check_lines cfg fs seek quiet lines (if success then failed else sat_add1 failed)) as [out2 r2] eqn:E2.
    inversion H; subst. apply IH in E2.
    assert (HD : forall F : Forall (line_ok cfg fs seek quiet) (LText s :: lines), success = true /\ Forall (line_ok cfg fs seek quiet) lines).
    { intros F. apply Forall_line_ok_cons in F as [[o' Ho] F']. split; [congruence|assumption]. }
    destruct r as [e|f'].
    + destruct E2 as [E2a E2b]. split; [exact E2a|]. intros F. apply HD in F. tauto.
    + destruct success.
      * rewrite E2. split; intros [A B]; split; auto.
        -- constructor; [cbn; eauto|assumption].
        -- apply HD in B. tauto.
      * split.
        -- intros Z. apply E2 in Z as [Z _]. exfalso. eapply sat_add1_nonzero; eauto.
        -- intros [_ F]. apply HD in F. destruct F; discriminate.
  - inversion H; subst. split; [cbn; discriminate|]. intros F. apply Forall_line_ok_cons in F as [[o' Ho] F']. congruence.
  - inversion H; subst. split; [cbn; discriminate|]. intros F. apply Forall_line_ok_cons in F as [[o' Ho] F']. congruence.
Qed.

Definition checkfile_ok cfg fs seek quiet (cf : option (list cline)) : Prop :=
  exists lines, cf = Some lines /\ Forall (line_ok cfg fs seek quiet) lines.

Lemma run_check_zero cfg fs seek quiet : forall cfs failed out e,
  run_check cfg fs seek quiet cfs failed = (out, e) ->
  (exit_status e = 0 <-> failed = 0 /\ Forall (checkfile_ok cfg fs seek quiet) cfs).
Proof.
  induction cfs as [|cf cfs IH]; intros failed out e H; cbn [run_check] in H.
  { inversion H; subst. cbn [exit_status]. destruct (N.ltb_spec 0 failed); split.
    - discriminate.
    - intros [-> _]. lia.
    - intros _. split; [lia|constructor].
    - reflexivity. }
  destruct cf as [lines|].
  2:{ inversion H; subst. split; [discriminate|]. intros [_ F]. inversion F as [|? ? [l [X _]] ?]; discriminate. }
  destruct (check_lines cfg fs seek quiet lines failed) as [o [ex|f']] eqn:EL.
  - inversion H; subst. apply check_lines_zero in EL as [E1 E2]. split; [tauto|].
    intros [_ F]. inversion F as [|? ? [l [X Y]] ?]; subst. inversion X; subst. tauto.
  - destruct (run_check cfg fs seek quiet cfs f') as [out2 e2] eqn:E2. inversion H; subst.
    apply IH in E2. apply check_lines_zero in EL. rewrite E2, EL. split.
    + intros [[A B] C]. split; [exact A|]. constructor; [exists lines; auto|exact C].
    + intros [A F]. inversion F as [|? ? [l [X Y]] F']; subst. inversion X; subst. tauto.
Qed.

(* exit status 0 exactly when every checkfile could be read and every line of every checkfile
   checks; any number of lines; the saturating counter never returns to 0; any configuration
   (a panic is status 101) *)
Theorem exit_status_spec : forall cfg fs seek quiet cfs,
  exit_status (snd (b3sum_check cfg fs seek quiet cfs)) = 0 <->
  Forall (checkfile_ok cfg fs seek quiet) cfs.
Proof.
  intros. unfold b3sum_check. destruct (run_check cfg fs seek quiet cfs 0) as [out e] eqn:E.
  cbn [snd]. rewrite (run_check_zero _ _ _ _ _ _ _ _ E). tauto.
Qed.

(* ---- every entry is checked and counted (repaired configuration) ---------- *)
Definition line_result cfg fs seek quiet (s : list N) : bool * list N :=
  match check_one_line cfg fs seek quiet s with Ok r => r | _ => (false, []) end.

Lemma check_one_line_total cfg fs seek quiet s : hex_unwrap_is_error cfg = true ->
  check_one_line cfg fs seek quiet s = Ok (line_result cfg fs seek quiet s).
Proof.
  intros Hc. unfold line_result, check_one_line.
  destruct (parse_total_fixed cfg s Hc) as [r ->]. cbn [bind].
  destruct r as [e|p h e f]; [reflexivity|]. destruct (fs p); [reflexivity|].
  destruct (list_eqb _ _); reflexivity.
Qed.

Definition nfail cfg fs seek quiet (ls : list (list N)) : N :=
  N.of_nat (length (filter (fun s => negb (fst (line_result cfg fs seek quiet s))) ls)).

Lemma sat_add1_min k : sat_add1 (N.min k U64_MAX) = N.min (k + 1) U64_MAX.
Proof. unfold sat_add1. destruct (N.ltb_spec (N.min k U64_MAX) U64_MAX); lia. Qed.

Lemma check_lines_all cfg fs seek quiet : hex_unwrap_is_error cfg = true ->
  forall ls k,
  check_lines cfg fs seek quiet (map LText ls) (N.min k U64_MAX) =
  (flat_map (fun s => snd (line_result cfg fs seek quiet s)) ls,
   inr (N.min (k + nfail cfg fs seek quiet ls) U64_MAX)).
Proof.
  intros Hc. unfold nfail. induction ls as [|s ls IH]; intros k.
  { cbn. f_equal. f_equal. lia. }
  cbn [map check_lines flat_map filter]. rewrite check_one_line_total by exact Hc.
  destruct (line_result cfg fs seek quiet s) as [ok o] eqn:ER. cbn [fst snd negb].
  destruct ok; cbn [negb].
  - rewrite IH. reflexivity.
  - rewrite sat_add1_min, IH. cbn [length]. do 3 f_equal. lia.
Qed.

(* all checkfiles readable text: the output is the concatenation of the per-line outputs of ALL
   lines in order - nothing is skipped after a failure - and files_failed is the number of failing
   lines, saturated at u64::MAX *)
Theorem check_all_lines_processed : forall cfg fs seek quiet (cfs : list (list (list N))),
  hex_unwrap_is_error cfg = true ->
  b3sum_check cfg fs seek quiet (map (fun ls => Some (map LText ls)) cfs) =
  (flat_map (fun s => snd (line_result cfg fs seek quiet s)) (concat cfs),
   ExitCode (N.min (nfail cfg fs seek quiet (concat cfs)) U64_MAX)).
Proof.
  intros cfg fs seek quiet cfs Hc. unfold b3sum_check.
  assert (G : forall cfs k, run_check cfg fs seek quiet (map (fun ls => Some (map LText ls)) cfs) (N.min k U64_MAX) =
    (flat_map (fun s => snd (line_result cfg fs seek quiet s)) (concat cfs),
     ExitCode (N.min (k + nfail cfg fs seek quiet (concat cfs)) U64_MAX))).
  { clear cfs. induction cfs as [|ls cfs IH]; intros k.
    - cbn. do 2 f_equal. unfold nfail. cbn. lia.
    - cbn [map run_check concat]. rewrite check_lines_all by exact Hc. rewrite IH.
      rewrite flat_map_app. f_equal. f_equal. unfold nfail. rewrite filter_app, app_length. f_equal. lia. }
  specialize (G cfs 0). change (N.min 0 U64_MAX) with 0 in G. rewrite G. reflexivity.
Qed.

(* ---- hashing mode: every unreadable input is counted, the others are printed -------------- *)
Lemma run_hash_spec fl : forall inputs k,
  run_hash fl inputs (N.min k U64_MAX) =
  Ok (flat_map (fun i => match snd i with
                         | Some St => match hash_one_input fl St (fst i) with Ok o => o | _ => [] end
                         | None => []
                         end) inputs,
      N.min (k + N.of_nat (length (filter (fun i => match snd i with None => true | _ => false end) inputs))) U64_MAX).
Proof.
  induction inputs as [|[p [St|]] t IH]; intros k.
  - cbn. do 2 f_equal. lia.
  - cbn [run_hash flat_map filter fst snd]. rewrite hash_one_input_spec. cbn [bind]. rewrite IH. reflexivity.
  - cbn [run_hash flat_map filter fst snd app]. rewrite sat_add1_min, IH. cbn [length]. do 3 f_equal. lia.
Qed.

Theorem read_key_spec : forall stdin k,
  read_key_from_stdin stdin = KeyOk k <-> (stdin = k /\ length k = 32%nat).
Proof.
  intros stdin k. unfold read_key_from_stdin. cbv zeta.
  pose proof (firstn_length 33 stdin) as FL.
  destruct (N.ltb_spec (N.of_nat (length (firstn 33 stdin))) 32) as [A|A].
  { split; [discriminate|]. intros [-> L]. lia. }
  destruct (N.ltb_spec 32 (N.of_nat (length (firstn 33 stdin)))) as [B|B].
  { split; [discriminate|]. intros [-> L]. lia. }
  assert (L : length stdin = 32%nat) by lia.
  rewrite (firstn_all2 (n := 33)) by lia. rewrite firstn_all2 by lia.
  split; [intros H; inversion H; subst; auto|intros [-> _]; reflexivity].
Qed.
