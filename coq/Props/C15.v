(* C15: the reference implementation and the published test vectors agree with the
   specification.  Statements only; proofs in
     Proofs/RefCompressP.v  (compression function, constants, word ranges)
     Proofs/RefChunkP.v     (ChunkState / Output of reference_impl.rs)
     Proofs/RefStackP.v     (the 54-entry CV stack, add_chunk_chaining_value, finalize fold)
     Proofs/RefImplP.v      (Hasher::update / finalize, the three constructors)
     Proofs/TVCommon.v, TV1..TV4.v, TestVectorsP.v (test vectors, evaluated in the kernel)
     Proofs/C15P.v          (both halves joined)
     Proofs/GenRefImplP.v   (the functions of reference_impl.rs translated from the source text,
                             gen/GenRefImpl.v, against the model: C15_ref_src_*, at the end)
     Proofs/GenRefImplLoopsP.v (the rest of reference_impl.rs, gen/GenRefImplLoops.v: the loops, the
                             Hasher; and the translated implementation against the specification).
   Model: Model/RefImpl.v mirrors reference_impl/reference_impl.rs; `Ok` is the
   no-panic claim: every index, slice, `+=`/`-` overflow check and debug_assert of the
   reference implementation is an `assert!` of the model (the CV stack never needs
   more than its 54 entries).  Spec: Spec/{Compress,Tree,Blake3}.v (from the paper). *)
From Coq Require Import NArith List Bool.
From V Require Import Base.Res Base.Word gen.GenConsts gen.GenTestVectors
  Spec.Compress Spec.Tree Spec.Blake3 Model.RefImpl
  Model.Platform Model.RsWide
  Proofs.RefCompressP Proofs.RefImplP Proofs.TVCommon Proofs.TestVectorsP Proofs.C15P.
From V Require Import Base.Arr gen.GenRefImpl Proofs.GenRefImplP.
From V Require Import Base.MachInt Base.Arr2 gen.GenRefImplLoops Proofs.GenRefImplLoopsP.
Import ListNotations.
Open Scope N_scope.

(* ---- the repository's constants of the reference implementation are the paper's ------------ *)
Theorem C15_ref_constants :
  ref_IV = IV /\ ref_MSG_PERMUTATION = MSG_PERMUTATION /\
  ref_flag_CHUNK_START = CHUNK_START /\ ref_flag_CHUNK_END = CHUNK_END /\ ref_flag_PARENT = PARENT /\
  ref_flag_ROOT = ROOT /\ ref_flag_KEYED_HASH = KEYED_HASH /\
  ref_flag_DERIVE_KEY_CONTEXT = DERIVE_KEY_CONTEXT /\ ref_flag_DERIVE_KEY_MATERIAL = DERIVE_KEY_MATERIAL /\
  ref_OUT_LEN = 32 /\ ref_KEY_LEN = 32 /\ ref_BLOCK_LEN = 64 /\ ref_CHUNK_LEN = 1024 /\ ref_stack_len = 54.
Proof. repeat split; reflexivity. Qed.

(* ---- compress: all arguments (block as 16 words = the little-endian words of 64 bytes) ------ *)
Theorem C15_ref_compress_is_spec : forall cv block ctr bl fl,
  length cv = 8%nat -> length block = 64%nat ->
  (bw <- ref_words_from_le_bytes block 16 ;; ref_compress cv bw ctr bl fl)
  = Ok (compress cv block bl ctr fl).
Proof. exact ref_compress_is_spec. Qed.

Theorem C15_ref_compress_words_is_spec : forall cv bw block ctr bl fl,
  length cv = 8%nat -> length bw = 16%nat -> words_of_bytes block = bw ->
  ref_compress cv bw ctr bl fl = Ok (compress cv block bl ctr fl).
Proof. exact ref_compress_words_is_spec. Qed.

(* ---- the refinement: every mode, every update split, every output length ---------------------
   ref_mode_ok: keys are 32 bytes (values below 256), context strings below 2^64 bytes.
   ref_spec_mode: RHash -> Hash, RKeyed k -> KeyedHash k,
                  RDerive c -> DeriveKeyMaterial (b3_hash_mode DeriveKeyContext c). *)
Theorem C15_ref_refines : forall m pieces out_len,
  ref_mode_ok m -> len (concat pieces) < 2 ^ 64 -> out_len < 2 ^ 64 ->
  ref_run m pieces out_len = Ok (b3_xof_mode (ref_spec_mode m) (concat pieces) 0 (N.to_nat out_len)).
Proof. exact ref_refines. Qed.

Theorem C15_ref_hash : forall pieces, len (concat pieces) < 2 ^ 64 ->
  ref_run RHash pieces 32 = Ok (b3_hash (concat pieces)).
Proof. exact ref_hash_spec. Qed.

Theorem C15_ref_keyed_hash : forall key pieces,
  length key = 32%nat -> Forall (fun b => b < 256) key -> len (concat pieces) < 2 ^ 64 ->
  ref_run (RKeyed key) pieces 32 = Ok (b3_keyed_hash key (concat pieces)).
Proof. exact ref_keyed_hash_spec. Qed.

Theorem C15_ref_derive_key : forall context pieces,
  len context < 2 ^ 64 -> len (concat pieces) < 2 ^ 64 ->
  ref_run (RDerive context) pieces 32 = Ok (b3_derive_key context (concat pieces)).
Proof. exact ref_derive_key_spec. Qed.

(* ---- the published test vectors against the specification ----------------------------------------
   paint n = the input pattern of test_vectors/src/lib.rs (byte i = i mod 251) *)
Theorem C15_paint_is_the_pattern : forall n,
  paint n = map (fun i => N.of_nat i mod 251) (seq 0 (N.to_nat n)).
Proof. exact paint_spec. Qed.

Theorem C15_test_vectors_shape :
  length tv_cases = 35%nat /\
  map (fun c => fst (fst (fst c))) tv_cases =
    [0; 1; 2; 3; 4; 5; 6; 7; 8; 63; 64; 65; 127; 128; 129; 1023; 1024; 1025; 2048; 2049; 3072; 3073;
     4096; 4097; 5120; 5121; 6144; 6145; 7168; 7169; 8192; 8193; 16384; 31744; 102400] /\
  forallb (fun c => let '(_, h, k, d) := c in
             Nat.eqb (length h) 131 && Nat.eqb (length k) 131 && Nat.eqb (length d) 131) tv_cases = true /\
  length tv_key = 32%nat.
Proof. exact tv_shape. Qed.

Theorem C15_test_vectors_ok : forallb check_case tv_cases = true.
Proof. exact test_vectors_ok. Qed.

Theorem C15_test_vectors_spec : forall n h k d, In (n, h, k, d) tv_cases ->
  b3_xof_mode Hash (paint n) 0 131 = h /\
  b3_xof_mode (KeyedHash tv_key) (paint n) 0 131 = k /\
  stream spec_c64 (root_output spec_c8 (DeriveKeyMaterial (b3_hash_mode DeriveKeyContext tv_context)) (paint n)) 0 131 = d.
Proof. exact test_vectors_spec. Qed.

Theorem C15_test_vectors_default_len : forall n h k d, In (n, h, k, d) tv_cases ->
  b3_hash (paint n) = firstn 32 h /\ b3_keyed_hash tv_key (paint n) = firstn 32 k /\
  b3_derive_key tv_context (paint n) = firstn 32 d.
Proof. exact test_vectors_default_len. Qed.

(* ---- both halves: the reference implementation reproduces every vector, for every update split *)
Theorem C15_ref_reproduces_test_vectors : forall n h k d pieces,
  In (n, h, k, d) tv_cases -> concat pieces = paint n ->
  ref_run RHash pieces 131 = Ok h /\
  ref_run (RKeyed tv_key) pieces 131 = Ok k /\
  ref_run (RDerive tv_context) pieces 131 = Ok d.
Proof. exact ref_reproduces_test_vectors. Qed.

(* ---- all agree: reference implementation = spec = model of the optimized Rust crate (C01) ----- *)
Theorem C15_ref_agrees_with_rust_hash : forall p pieces, PlatformOK p -> len (concat pieces) < 2 ^ 64 ->
  ref_run RHash pieces 32 = rs_hash p (concat pieces).
Proof. exact ref_agrees_with_rust_hash. Qed.

Theorem C15_ref_agrees_with_rust_keyed_hash : forall p key pieces, PlatformOK p ->
  length key = 32%nat -> Forall (fun b => b < 256) key -> len (concat pieces) < 2 ^ 64 ->
  ref_run (RKeyed key) pieces 32 = rs_keyed_hash p key (concat pieces).
Proof. exact ref_agrees_with_rust_keyed_hash. Qed.

Theorem C15_ref_agrees_with_rust_derive_key : forall p context pieces, PlatformOK p ->
  len context < 2 ^ 64 -> len (concat pieces) < 2 ^ 64 ->
  ref_run (RDerive context) pieces 32 = rs_derive_key p context (concat pieces).
Proof. exact ref_agrees_with_rust_derive_key. Qed.

(* ---- non-vacuity: the hypotheses are satisfiable and the model really runs ----------------------- *)
Example C15_nonvacuous :
  let pieces := [paint 1000; []; paint 3000; paint 1] in
  ref_mode_ok (RKeyed tv_key) /\ ref_mode_ok (RDerive tv_context) /\
  len (concat pieces) < 2 ^ 64 /\ len (concat pieces) = 4001 /\
  ref_run (RKeyed tv_key) pieces 70 = Ok (b3_xof_mode (KeyedHash tv_key) (concat pieces) 0 70) /\
  is_ok (ref_run (RDerive tv_context) pieces 131) = true /\
  tv_cases <> [] /\
  (* the stack bound is a real constraint of the model: a 55th push panics *)
  is_panic (ref_push_stack (mkRH (rcs_new ref_IV 0 0) ref_IV (repeat ref_zero_cv 54) 54 0) ref_zero_cv) = true.
Proof.
  cbv zeta. split; [exact tv_key_ok|]. split; [exact tv_context_ok|].
  split; [vm_compute; reflexivity|]. split; [vm_compute; reflexivity|].
  split; [vm_compute; reflexivity|]. split; [vm_compute; reflexivity|].
  split; [|vm_compute; reflexivity].
  unfold tv_cases. discriminate.
Qed.

Print Assumptions C15_ref_constants.
Print Assumptions C15_ref_compress_is_spec.
Print Assumptions C15_ref_compress_words_is_spec.
Print Assumptions C15_ref_refines.
Print Assumptions C15_ref_hash.
Print Assumptions C15_ref_keyed_hash.
Print Assumptions C15_ref_derive_key.
Print Assumptions C15_paint_is_the_pattern.
Print Assumptions C15_test_vectors_shape.
Print Assumptions C15_test_vectors_ok.
Print Assumptions C15_test_vectors_spec.
Print Assumptions C15_test_vectors_default_len.
Print Assumptions C15_ref_reproduces_test_vectors.
Print Assumptions C15_ref_agrees_with_rust_hash.
Print Assumptions C15_ref_agrees_with_rust_keyed_hash.
Print Assumptions C15_ref_agrees_with_rust_derive_key.
Print Assumptions C15_nonvacuous.

(* ---- the model against the source text -------------------------------------------------------------
   gen/GenRefImpl.v is reference_impl/reference_impl.rs translated statement by statement (tools/gen_coq.py
   gen_refimpl: order of statements, indices, rotation amounts, loop bounds, call arguments are the source's;
   arrays are lists with Base/Arr.v's arr_get / arr_set, integer expressions go through Base/MachInt.v).
   Each translated function equals the function of Model/RefImpl.v the theorems above are about, for all
   arguments: array lengths are the declared types, u8 fields are below 256, nothing else is assumed. *)
Theorem C15_ref_src_g : forall state a b c d mx my,
  refsrc_g state a b c d mx my = ref_g state a b c d mx my.
Proof. exact refsrc_g_eq. Qed.
Print Assumptions C15_ref_src_g.

Theorem C15_ref_src_round : forall state m, refsrc_round state m = ref_round state m.
Proof. exact refsrc_round_eq. Qed.
Print Assumptions C15_ref_src_round.

(* the model's Ok: the index m[MSG_PERMUTATION[i]] is in bounds *)
Theorem C15_ref_src_permute : forall m, length m = 16%nat -> ref_permute m = Ok (refsrc_permute m).
Proof. exact refsrc_permute_eq. Qed.
Print Assumptions C15_ref_src_permute.

Theorem C15_ref_src_permute_is_spec : forall m, length m = 16%nat -> refsrc_permute m = Compress.permute m.
Proof. exact refsrc_permute_is_spec. Qed.
Print Assumptions C15_ref_src_permute_is_spec.

Theorem C15_ref_src_compress : forall chaining_value block_words counter block_len flags,
  length chaining_value = 8%nat -> length block_words = 16%nat ->
  ref_compress chaining_value block_words counter block_len flags =
  Ok (refsrc_compress chaining_value block_words counter block_len flags).
Proof. exact refsrc_compress_eq. Qed.
Print Assumptions C15_ref_src_compress.

(* hence the translated source computes the specification's compression function *)
Theorem C15_ref_src_compress_is_spec : forall cv block ctr bl fl,
  length cv = 8%nat -> length block = 64%nat ->
  refsrc_compress cv (words_of_bytes block) ctr bl fl = compress cv block bl ctr fl.
Proof. exact refsrc_compress_is_spec. Qed.
Print Assumptions C15_ref_src_compress_is_spec.

Theorem C15_ref_src_first_8_words : forall w, refsrc_first_8_words w = ref_first_8_words w.
Proof. exact refsrc_first_8_words_eq. Qed.
Print Assumptions C15_ref_src_first_8_words.

(* any number of words; the model takes `words` as its length, its assert 1600 is the source's debug_assert_eq! *)
Theorem C15_ref_src_words_from_little_endian_bytes : forall bytes words,
  ref_words_from_le_bytes bytes (length words) =
  if refsrc_words_from_little_endian_bytes_debug_assert bytes words
  then Ok (refsrc_words_from_little_endian_bytes bytes words) else Panic 1600.
Proof. exact refsrc_words_from_le_bytes_model. Qed.
Print Assumptions C15_ref_src_words_from_little_endian_bytes.

Theorem C15_ref_src_words_from_little_endian_bytes_value : forall bytes words,
  length bytes = (4 * length words)%nat ->
  refsrc_words_from_little_endian_bytes bytes words = words_of_bytes bytes.
Proof. exact refsrc_words_from_le_bytes_eq. Qed.
Print Assumptions C15_ref_src_words_from_little_endian_bytes_value.

(* struct Output / struct ChunkState as translated (records, fields in the source's order) -> the model's *)
Theorem C15_ref_src_records : forall a b c d e f,
  ro_of_src (refsrc_Output_mk a b c d e) = mkRO a b c d e /\
  rcs_of_src (refsrc_ChunkState_mk a c b d e f) = mkRCS a c b d e f.
Proof. intros. split; reflexivity. Qed.
Print Assumptions C15_ref_src_records.

Theorem C15_ref_src_output_chaining_value : forall o,
  length (refsrc_Output_input_chaining_value o) = 8%nat -> length (refsrc_Output_block_words o) = 16%nat ->
  ro_chaining_value (ro_of_src o) = Ok (refsrc_Output_chaining_value o).
Proof. exact refsrc_Output_chaining_value_eq. Qed.
Print Assumptions C15_ref_src_output_chaining_value.

(* blocks_compressed and block_len are u8 *)
Theorem C15_ref_src_chunk_state_len : forall c,
  refsrc_ChunkState_blocks_compressed c < 256 -> refsrc_ChunkState_block_len c < 256 ->
  refsrc_ChunkState_len c = Ok (rcs_len (rcs_of_src c)).
Proof. exact refsrc_ChunkState_len_eq. Qed.
Print Assumptions C15_ref_src_chunk_state_len.

Theorem C15_ref_src_chunk_state_start_flag : forall c,
  refsrc_ChunkState_start_flag c = Ok (rcs_start_flag (rcs_of_src c)).
Proof. exact refsrc_ChunkState_start_flag_eq. Qed.
Print Assumptions C15_ref_src_chunk_state_start_flag.

Theorem C15_ref_src_parent_output : forall left_child_cv right_child_cv key_words flags,
  length left_child_cv = 8%nat -> length right_child_cv = 8%nat ->
  ro_of_src (refsrc_parent_output left_child_cv right_child_cv key_words flags) =
  ref_parent_output left_child_cv right_child_cv key_words flags.
Proof. exact refsrc_parent_output_eq. Qed.
Print Assumptions C15_ref_src_parent_output.

Theorem C15_ref_src_parent_cv : forall left_child_cv right_child_cv key_words flags,
  length left_child_cv = 8%nat -> length right_child_cv = 8%nat -> length key_words = 8%nat ->
  ref_parent_cv left_child_cv right_child_cv key_words flags =
  Ok (refsrc_parent_cv left_child_cv right_child_cv key_words flags).
Proof. exact refsrc_parent_cv_eq. Qed.
Print Assumptions C15_ref_src_parent_cv.

(* ---- the rest of reference_impl.rs against the model and the specification ----------------------------
   gen/GenRefImplLoops.v (tools/gen_coq.py gen_refimpl_loops) is Output::root_output_bytes, ChunkState::new /
   update / output and the whole `impl Hasher` translated statement by statement: `while` loops are Fixpoints on
   explicit fuel (OutOfFuel when it runs out), `for .. in chunks_mut(n)` recurses over the part of the slice not
   visited yet, `[[u32; 8]; 54]` is a list of lists with the bounds asserts of the source (Base/Arr2.v).
   Records of the translation are mapped to the model's by ro_of_src / rcs_of_src / rh_of_src; results are compared
   through res_map; wt_out / wt_cs / wt_h are the declared types (array lengths, u8 fields below 256).
   The three simple loops equal the model's loops for EVERY fuel (OutOfFuel / Panic results included).  Where the
   model is shaped differently (it gives every inner loop its own fuel - 320 in add_chunk_chaining_value,
   S (length input) in ChunkState::update, S (out_len / 64) in root_output_bytes - and recurses on the counter in
   finalize, while the translation threads one fuel through all loops) the statements are: equal with enough fuel
   (explicit bound), and with ANY fuel OutOfFuel or equal (fuel_approx). *)
Theorem C15_ref_src_representation :
  (forall cs kw st sl fl, rh_of_src (refsrc_Hasher_mk cs kw st sl fl) = mkRH (rcs_of_src cs) kw st sl fl) /\
  (forall A B (f : A -> B) a, res_map f (Ok a) = Ok (f a)) /\
  (forall A B (f : A -> B) c, res_map f (Panic c) = Panic c) /\
  (forall A B (f : A -> B), res_map f OutOfFuel = OutOfFuel) /\
  (forall A (r m : res A), fuel_approx r m <-> (r = OutOfFuel \/ r = m)) /\
  (forall o, wt_out o <->
     (length (refsrc_Output_input_chaining_value o) = 8%nat /\ length (refsrc_Output_block_words o) = 16%nat)) /\
  (forall c, wt_cs c <->
     (length (refsrc_ChunkState_chaining_value c) = 8%nat /\ length (refsrc_ChunkState_block c) = 64%nat /\
      refsrc_ChunkState_block_len c < 256 /\ refsrc_ChunkState_blocks_compressed c < 256)) /\
  (forall h, wt_h h <->
     (wt_cs (refsrc_Hasher_chunk_state h) /\ length (refsrc_Hasher_key_words h) = 8%nat /\
      Forall (fun cv => length cv = 8%nat) (refsrc_Hasher_cv_stack h) /\ refsrc_Hasher_cv_stack_len h < 256)) /\
  (forall p, cs_pair p = rcs_of_src (fst p)) /\ (forall p, h_pair p = rh_of_src (fst p)) /\
  (forall p, o_pair p = ro_of_src (fst p)) /\
  (forall p, h_cv p = (rh_of_src (fst p), snd p)) /\ (forall p, h_cv3 p = (rh_of_src (fst (fst p)), snd (fst p))) /\
  (forall A s (r : res A), ref_at_site s r = match r with Panic _ => Panic s | _ => r end).
Proof. repeat split; try reflexivity; try (unfold fuel_approx, wt_out, wt_h, wt_cs in *; tauto). Qed.
Print Assumptions C15_ref_src_representation.

(* Output::root_output_bytes: the chunks_mut loop for every fuel (its second component is the final counter) *)
Theorem C15_ref_src_root_output_bytes_loop : forall o, wt_out o -> forall fuel out_slice counter,
  res_map fst (refsrc_Output_root_output_bytes_loop2 fuel o out_slice counter 64) =
  ref_root_loop fuel (ro_of_src o) counter (rlen out_slice).
Proof. exact refsrc_root_loop_eq. Qed.
Print Assumptions C15_ref_src_root_output_bytes_loop.

Theorem C15_ref_src_root_output_bytes : forall o fuel out_slice, wt_out o ->
  refsrc_Output_root_output_bytes fuel o out_slice = ref_root_loop fuel (ro_of_src o) 0 (rlen out_slice).
Proof. exact refsrc_Output_root_output_bytes_eq. Qed.
Print Assumptions C15_ref_src_root_output_bytes.

Theorem C15_ref_src_root_output_bytes_any_fuel : forall fuel o out_slice, wt_out o ->
  fuel_approx (refsrc_Output_root_output_bytes fuel o out_slice) (ro_root_output_bytes (ro_of_src o) (rlen out_slice)).
Proof. exact refsrc_Output_root_output_bytes_any_fuel. Qed.
Print Assumptions C15_ref_src_root_output_bytes_any_fuel.

Theorem C15_ref_src_chunk_state_new : forall key_words chunk_counter flags,
  rcs_of_src (refsrc_ChunkState_new key_words chunk_counter flags) = rcs_new key_words chunk_counter flags.
Proof. exact refsrc_ChunkState_new_eq. Qed.
Print Assumptions C15_ref_src_chunk_state_new.

(* ChunkState::update: the loop and the function for every fuel; the model's rcs_update is the loop at S (length input) *)
Theorem C15_ref_src_chunk_state_update_loop : forall fuel cs input, wt_cs cs ->
  res_map cs_pair (refsrc_ChunkState_update_loop1 fuel cs input) = rcs_update_loop fuel (rcs_of_src cs) input.
Proof. exact refsrc_ChunkState_update_loop_eq. Qed.
Print Assumptions C15_ref_src_chunk_state_update_loop.

Theorem C15_ref_src_chunk_state_update : forall fuel cs input, wt_cs cs ->
  res_map rcs_of_src (refsrc_ChunkState_update fuel cs input) = rcs_update_loop fuel (rcs_of_src cs) input.
Proof. exact refsrc_ChunkState_update_eq. Qed.
Print Assumptions C15_ref_src_chunk_state_update.

Theorem C15_ref_src_chunk_state_update_model : forall cs input, wt_cs cs ->
  res_map rcs_of_src (refsrc_ChunkState_update (S (length input)) cs input) = rcs_update (rcs_of_src cs) input.
Proof. exact refsrc_ChunkState_update_model. Qed.
Print Assumptions C15_ref_src_chunk_state_update_model.

Theorem C15_ref_src_chunk_state_update_any_fuel : forall fuel cs input, wt_cs cs ->
  fuel_approx (res_map rcs_of_src (refsrc_ChunkState_update fuel cs input)) (rcs_update (rcs_of_src cs) input).
Proof. exact refsrc_ChunkState_update_any_fuel. Qed.
Print Assumptions C15_ref_src_chunk_state_update_any_fuel.

Theorem C15_ref_src_chunk_state_output : forall cs, wt_cs cs ->
  res_map ro_of_src (refsrc_ChunkState_output cs) = rcs_output (rcs_of_src cs).
Proof. exact refsrc_ChunkState_output_eq. Qed.
Print Assumptions C15_ref_src_chunk_state_output.

(* the constructors *)
Theorem C15_ref_src_new_internal : forall key_words flags,
  rh_of_src (refsrc_Hasher_new_internal key_words flags) = ref_new_internal key_words flags.
Proof. exact refsrc_Hasher_new_internal_eq. Qed.
Print Assumptions C15_ref_src_new_internal.

Theorem C15_ref_src_new : rh_of_src refsrc_Hasher_new = ref_new.
Proof. exact refsrc_Hasher_new_eq. Qed.
Print Assumptions C15_ref_src_new.

Theorem C15_ref_src_new_keyed : forall key,
  res_map rh_of_src (refsrc_Hasher_new_keyed key) = ref_new_keyed key.
Proof. exact refsrc_Hasher_new_keyed_eq. Qed.
Print Assumptions C15_ref_src_new_keyed.

Theorem C15_ref_src_new_derive_key : forall fuel context, (length context + 256 < fuel)%nat ->
  res_map rh_of_src (refsrc_Hasher_new_derive_key fuel context) = ref_new_derive_key context.
Proof. exact refsrc_Hasher_new_derive_key_eq. Qed.
Print Assumptions C15_ref_src_new_derive_key.

Theorem C15_ref_src_new_derive_key_any_fuel : forall fuel context,
  fuel_approx (res_map rh_of_src (refsrc_Hasher_new_derive_key fuel context)) (ref_new_derive_key context).
Proof. exact refsrc_Hasher_new_derive_key_any_fuel. Qed.
Print Assumptions C15_ref_src_new_derive_key_any_fuel.

(* the CV stack *)
Theorem C15_ref_src_push_stack : forall h cv, wt_h h -> length cv = 8%nat ->
  res_map rh_of_src (refsrc_Hasher_push_stack h cv) = ref_push_stack (rh_of_src h) cv.
Proof. exact refsrc_Hasher_push_stack_eq. Qed.
Print Assumptions C15_ref_src_push_stack.

Theorem C15_ref_src_pop_stack : forall h, wt_h h ->
  res_map h_cv (refsrc_Hasher_pop_stack h) = ref_pop_stack (rh_of_src h).
Proof. exact refsrc_Hasher_pop_stack_eq. Qed.
Print Assumptions C15_ref_src_pop_stack.

(* add_chunk_chaining_value: the loop for every fuel; the function for every fuel against the model's text with the
   fuel as a parameter; the model itself (fuel 320) *)
Theorem C15_ref_src_add_cv_loop : forall fuel h new_cv total_chunks, wt_h h -> length new_cv = 8%nat ->
  res_map h_cv3 (refsrc_Hasher_add_chunk_chaining_value_loop1 fuel h new_cv total_chunks) =
  ref_add_cv_loop fuel (rh_of_src h) new_cv total_chunks.
Proof. exact refsrc_Hasher_add_cv_loop_eq. Qed.
Print Assumptions C15_ref_src_add_cv_loop.

Theorem C15_ref_src_add_chunk_chaining_value : forall fuel h new_cv total_chunks, wt_h h -> length new_cv = 8%nat ->
  res_map rh_of_src (refsrc_Hasher_add_chunk_chaining_value fuel h new_cv total_chunks) =
  ('(h, new_cv) <- ref_add_cv_loop fuel (rh_of_src h) new_cv total_chunks ;; ref_push_stack h new_cv).
Proof. exact refsrc_Hasher_add_chunk_chaining_value_eq. Qed.
Print Assumptions C15_ref_src_add_chunk_chaining_value.

Theorem C15_ref_src_add_chunk_chaining_value_model : forall h new_cv total_chunks, wt_h h -> length new_cv = 8%nat ->
  res_map rh_of_src (refsrc_Hasher_add_chunk_chaining_value ref_add_cv_fuel h new_cv total_chunks) =
  ref_add_chunk_chaining_value (rh_of_src h) new_cv total_chunks.
Proof. exact refsrc_Hasher_add_chunk_chaining_value_model. Qed.
Print Assumptions C15_ref_src_add_chunk_chaining_value_model.

Theorem C15_ref_src_add_chunk_chaining_value_any_fuel : forall fuel h new_cv total_chunks,
  wt_h h -> length new_cv = 8%nat ->
  fuel_approx (res_map rh_of_src (refsrc_Hasher_add_chunk_chaining_value fuel h new_cv total_chunks))
              (ref_add_chunk_chaining_value (rh_of_src h) new_cv total_chunks).
Proof. exact refsrc_Hasher_add_chunk_chaining_value_any_fuel. Qed.
Print Assumptions C15_ref_src_add_chunk_chaining_value_any_fuel.

(* Hasher::update: the loop with fuel F against the model's loop with fuel f (the inner loops of the translation run
   on F as well, the model's on their own fuel); the function with enough fuel, and with any fuel *)
Theorem C15_ref_src_update_loop : forall f F h input, wt_h h ->
  (length input < f)%nat -> (length input + 256 < F)%nat ->
  res_map h_pair (refsrc_Hasher_update_loop1 F h input) = ref_update_loop f (rh_of_src h) input.
Proof. intros f F h input H1 H2 H3. apply (refsrc_update_loop_rel f F h input H1 H2 H3). Qed.
Print Assumptions C15_ref_src_update_loop.

Theorem C15_ref_src_update : forall fuel h input, wt_h h -> (length input + 256 < fuel)%nat ->
  res_map rh_of_src (refsrc_Hasher_update fuel h input) = ref_update (rh_of_src h) input.
Proof. exact refsrc_Hasher_update_eq. Qed.
Print Assumptions C15_ref_src_update.

Theorem C15_ref_src_update_any_fuel : forall fuel h input, wt_h h ->
  fuel_approx (res_map rh_of_src (refsrc_Hasher_update fuel h input)) (ref_update (rh_of_src h) input).
Proof. exact refsrc_Hasher_update_any_fuel. Qed.
Print Assumptions C15_ref_src_update_any_fuel.

Theorem C15_ref_src_update_keeps_types : forall fuel h input h', wt_h h ->
  refsrc_Hasher_update fuel h input = Ok h' -> wt_h h'.
Proof. exact refsrc_Hasher_update_wt. Qed.
Print Assumptions C15_ref_src_update_keeps_types.

(* Hasher::finalize: the loop (the model recurses on parent_nodes_remaining itself), the function *)
Theorem C15_ref_src_finalize_loop : forall fuel h out_slice output n, wt_h h -> wt_out output -> (N.to_nat n <= fuel)%nat ->
  res_map o_pair (refsrc_Hasher_finalize_loop1 fuel h out_slice output n) =
  ref_finalize_loop (N.to_nat n) (rh_of_src h) (ro_of_src output).
Proof. intros F h os o n H1 H2 H3. apply (refsrc_finalize_loop_rel F h os o n H1 H2 H3). Qed.
Print Assumptions C15_ref_src_finalize_loop.

Theorem C15_ref_src_finalize : forall fuel h out_slice, wt_h h ->
  (256 <= fuel)%nat -> (length out_slice <= 64 * fuel)%nat ->
  refsrc_Hasher_finalize fuel h out_slice = ref_finalize (rh_of_src h) (rlen out_slice).
Proof. exact refsrc_Hasher_finalize_eq. Qed.
Print Assumptions C15_ref_src_finalize.

Theorem C15_ref_src_finalize_any_fuel : forall fuel h out_slice, wt_h h ->
  fuel_approx (refsrc_Hasher_finalize fuel h out_slice) (ref_finalize (rh_of_src h) (rlen out_slice)).
Proof. exact refsrc_Hasher_finalize_any_fuel. Qed.
Print Assumptions C15_ref_src_finalize_any_fuel.

(* ---- the TRANSLATED reference implementation computes the specification ------------------------------------
   refsrc_run: the translated constructor of the mode, one translated Hasher::update per piece, the translated
   Hasher::finalize into out_slice.  No hand-written model in the statement. *)
Theorem C15_ref_src_run_def : forall fuel m pieces out_slice,
  refsrc_run fuel m pieces out_slice =
  (h <- match m with
        | SrcHash => Ok refsrc_Hasher_new
        | SrcKeyed k => refsrc_Hasher_new_keyed k
        | SrcDerive c => refsrc_Hasher_new_derive_key fuel c
        end ;;
   h <- refsrc_update_all fuel h pieces ;;
   refsrc_Hasher_finalize fuel h out_slice) /\
  (forall h, refsrc_update_all fuel h [] = Ok h) /\
  (forall h p tl, refsrc_update_all fuel h (p :: tl) =
                  (h <- refsrc_Hasher_update fuel h p ;; refsrc_update_all fuel h tl)) /\
  refsrc_spec_mode m = match m with
                       | SrcHash => Hash
                       | SrcKeyed k => KeyedHash k
                       | SrcDerive c => DeriveKeyMaterial (b3_hash_mode DeriveKeyContext c)
                       end /\
  (refsrc_mode_ok m <-> match m with
                        | SrcHash => True
                        | SrcKeyed k => length k = 32%nat /\ Forall (fun b => b < 256) k
                        | SrcDerive c => len c < 2 ^ 64
                        end) /\
  (refsrc_fuel_ok fuel m pieces out_slice <->
   (length (concat pieces) + match m with SrcDerive c => length c | _ => 0%nat end + length out_slice + 256 < fuel)%nat).
Proof.
  intros. destruct m; repeat split; try reflexivity;
    try (unfold refsrc_mode_ok, refsrc_fuel_ok in *; cbn [refsrc_context_len] in *; tauto).
Qed.
Print Assumptions C15_ref_src_run_def.

Theorem C15_ref_src_run_is_model : forall fuel m pieces out_slice, refsrc_fuel_ok fuel m pieces out_slice ->
  refsrc_run fuel m pieces out_slice = ref_run (ref_mode_of_src m) pieces (rlen out_slice).
Proof. exact refsrc_run_model. Qed.
Print Assumptions C15_ref_src_run_is_model.

Theorem C15_ref_src_run_spec : forall fuel m pieces out_slice,
  refsrc_mode_ok m -> len (concat pieces) < 2 ^ 64 -> len out_slice < 2 ^ 64 ->
  refsrc_fuel_ok fuel m pieces out_slice ->
  refsrc_run fuel m pieces out_slice =
  Ok (b3_xof_mode (refsrc_spec_mode m) (concat pieces) 0 (length out_slice)).
Proof. exact refsrc_run_spec. Qed.
Print Assumptions C15_ref_src_run_spec.

(* with any fuel: OutOfFuel or the specification's output, never another value or a Panic *)
Theorem C15_ref_src_run_any_fuel : forall fuel m pieces out_slice,
  refsrc_mode_ok m -> len (concat pieces) < 2 ^ 64 -> len out_slice < 2 ^ 64 ->
  fuel_approx (refsrc_run fuel m pieces out_slice)
              (Ok (b3_xof_mode (refsrc_spec_mode m) (concat pieces) 0 (length out_slice))).
Proof. exact refsrc_run_any_fuel. Qed.
Print Assumptions C15_ref_src_run_any_fuel.

(* non-vacuity: the translation runs, and its stack bound is real (a 55th push panics with the model's code) *)
Example C15_ref_src_nonvacuous :
  (let key := map N.of_nat (seq 0 32) in
   let pieces := [map (fun i => N.of_nat i mod 251) (seq 0 1100); map (fun i => N.of_nat i mod 251) (seq 1100 400)] in
   is_ok (refsrc_run 2000 (SrcKeyed key) pieces (repeat 0 70)) = true /\
   refsrc_fuel_ok 2000 (SrcKeyed key) pieces (repeat 0 70) /\ refsrc_mode_ok (SrcKeyed key)) /\
  refsrc_Hasher_push_stack (refsrc_Hasher_mk (refsrc_ChunkState_new ref_IV 0 0) ref_IV (repeat (repeat 0 8) 54) 54 0)
    (repeat 0 8) = Panic 71 /\
  refsrc_Hasher_pop_stack refsrc_Hasher_new = Panic 72 /\
  refsrc_run 0 SrcHash [[1; 2; 3]] (repeat 0 32) = OutOfFuel /\ is_ok (refsrc_run 3 SrcHash [[1; 2; 3]] (repeat 0 32)) = true.
Proof.
  split; [exact refsrc_run_example|]. repeat split; vm_compute; reflexivity.
Qed.
Print Assumptions C15_ref_src_nonvacuous.
