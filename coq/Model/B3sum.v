(* Executable model of the b3sum command line tool (b3sum/src/main.rs).

   Strings are lists of Unicode scalar values (`list N`); OS paths and file
   contents are lists of bytes.  The code mixes byte lengths (`hash_hex.len()`,
   slicing at byte offsets) with `chars()`, so `utf8_len`/`str_len` give the
   UTF-8 byte length of a scalar / string.

   The model is parametric in a configuration record

     b3cfg := { tagged_first ; hex_unwrap_is_error }

   `asis_cfg`  = (false,false) is the code as it is in the repository;
   `fixed_cfg` = (true,true)   is the code with the two proposed repairs
   (b3sum_fixes.diff).  Both are ONE definition; the correspondence check
   probes the code under test and selects the configuration that matches. *)
From Coq Require Import NArith List Bool.
From V Require Import Base.Res Spec.Tree.
Import ListNotations.
Open Scope N_scope.

(* ------------------------------------------------------------------------- *)
(* characters                                                                *)
(* ------------------------------------------------------------------------- *)
Definition BSL : N := 92.     (* '\\' *)
Definition LF : N := 10.
Definition CR : N := 13.
Definition REPL : N := 65533. (* U+FFFD *)
Definition NUL : N := 0.

(* "BLAKE3 (" , ") = " , "  " *)
Definition TAG_PREFIX : list N := [66;76;65;75;69;51;32;40].
Definition TAG_SEP : list N := [41;32;61;32].
Definition PLAIN_SEP : list N := [32;32].

(* char::len_utf8 *)
Definition utf8_len (c : N) : N :=
  if c <? 128 then 1 else if c <? 2048 then 2 else if c <? 65536 then 3 else 4.

(* str::len(): length in bytes *)
Fixpoint str_len (s : list N) : N :=
  match s with [] => 0 | c :: t => utf8_len c + str_len t end.

(* a Rust `char` *)
Definition valid_scalar (c : N) : bool :=
  (c <? 55296) || ((57344 <=? c) && (c <? 1114112)).

(* ------------------------------------------------------------------------- *)
(* UTF-8: encoder, and the lossy decoder of String::from_utf8_lossy           *)
(* (core::str::lossy::Utf8Chunks: each maximal invalid prefix of a sequence   *)
(* becomes ONE U+FFFD).  On Unix OsStr::to_string_lossy is exactly this.      *)
(* ------------------------------------------------------------------------- *)
Definition utf8_encode1 (c : N) : list N :=
  if c <? 128 then [c]
  else if c <? 2048 then [192 + c / 64; 128 + c mod 64]
  else if c <? 65536 then [224 + c / 4096; 128 + (c / 64) mod 64; 128 + c mod 64]
  else [240 + c / 262144; 128 + (c / 4096) mod 64; 128 + (c / 64) mod 64; 128 + c mod 64].

Fixpoint utf8_encode (s : list N) : list N :=
  match s with [] => [] | c :: t => utf8_encode1 c ++ utf8_encode t end.

Definition is_cont (b : N) : bool := (128 <=? b) && (b <=? 191).
Definition in_range (lo hi b : N) : bool := (lo <=? b) && (b <=? hi).

(* second byte admissible after a 3-byte lead (the match in Utf8Chunks::next) *)
Definition ok_second3 (b0 b1 : N) : bool :=
  if b0 =? 224 then in_range 160 191 b1
  else if b0 =? 237 then in_range 128 159 b1
  else in_range 128 191 b1.
(* second byte admissible after a 4-byte lead *)
Definition ok_second4 (b0 b1 : N) : bool :=
  if b0 =? 240 then in_range 144 191 b1
  else if b0 =? 244 then in_range 128 143 b1
  else in_range 128 191 b1.

Fixpoint utf8_lossy (bs : list N) : list N :=
  match bs with
  | [] => []
  | b0 :: t0 =>
    if b0 <? 128 then b0 :: utf8_lossy t0
    else if in_range 194 223 b0 then
      match t0 with
      | b1 :: t1 =>
        if is_cont b1 then ((b0 - 192) * 64 + (b1 - 128)) :: utf8_lossy t1
        else REPL :: utf8_lossy t0
      | [] => [REPL]
      end
    else if in_range 224 239 b0 then
      match t0 with
      | b1 :: t1 =>
        if ok_second3 b0 b1 then
          match t1 with
          | b2 :: t2 =>
            if is_cont b2 then ((b0 - 224) * 4096 + (b1 - 128) * 64 + (b2 - 128)) :: utf8_lossy t2
            else REPL :: utf8_lossy t1
          | [] => [REPL]
          end
        else REPL :: utf8_lossy t0
      | [] => [REPL]
      end
    else if in_range 240 244 b0 then
      match t0 with
      | b1 :: t1 =>
        if ok_second4 b0 b1 then
          match t1 with
          | b2 :: t2 =>
            if is_cont b2 then
              match t2 with
              | b3 :: t3 =>
                if is_cont b3 then
                  ((b0 - 240) * 262144 + (b1 - 128) * 4096 + (b2 - 128) * 64 + (b3 - 128)) :: utf8_lossy t3
                else REPL :: utf8_lossy t2
              | [] => [REPL]
              end
            else REPL :: utf8_lossy t1
          | [] => [REPL]
          end
        else REPL :: utf8_lossy t0
      | [] => [REPL]
      end
    else REPL :: utf8_lossy t0
  end.

(* ------------------------------------------------------------------------- *)
(* hex                                                                       *)
(* ------------------------------------------------------------------------- *)
Definition hex_digit (d : N) : N := if d <? 10 then 48 + d else 87 + d.
(* hex::encode *)
Fixpoint hex_of_bytes (bs : list N) : list N :=
  match bs with [] => [] | b :: t => hex_digit (b / 16) :: hex_digit (b mod 16) :: hex_of_bytes t end.

(* hex_half_byte: None = bail!("Invalid hex") *)
Definition hex_half_byte (c : N) : option N :=
  if (48 <=? c) && (c <=? 57) then Some (c - 48)
  else if (97 <=? c) && (c <=? 102) then Some (c - 97 + 10)
  else None.

(* ------------------------------------------------------------------------- *)
(* filepath_to_string                                                        *)
(* ------------------------------------------------------------------------- *)
(* str::replace(c, r) for a single character pattern *)
Fixpoint replace_char (c : N) (r : list N) (s : list N) : list N :=
  match s with
  | [] => []
  | x :: t => if x =? c then r ++ replace_char c r t else x :: replace_char c r t
  end.

Definition needs_escape (c : N) : bool := (c =? BSL) || (c =? LF) || (c =? CR).

(* .replace('\\', "\\\\").replace('\n', "\\n").replace('\r', "\\r") *)
Definition escape_path (s : list N) : list N :=
  replace_char CR [BSL; 114] (replace_char LF [BSL; 110] (replace_char BSL [BSL; BSL] s)).

(* returns (filepath_string, is_escaped); the cfg!(windows) branch is not modelled (Unix) *)
Definition filepath_to_string (path_bytes : list N) : list N * bool :=
  let s := utf8_lossy path_bytes in
  if existsb needs_escape s then (escape_path s, true) else (s, false).

(* ------------------------------------------------------------------------- *)
(* output lines of hash_one_input                                            *)
(* ------------------------------------------------------------------------- *)
(* the line without its terminating "\n"; `hexs` is what write_hex_output printed *)
Definition print_body (tag : bool) (path_bytes : list N) (hexs : list N) : list N :=
  let '(fs, esc) := filepath_to_string path_bytes in
  (if esc then [BSL] else []) ++
  (if tag then TAG_PREFIX ++ fs ++ TAG_SEP ++ hexs else hexs ++ PLAIN_SEP ++ fs).

Definition print_line (tag : bool) (path_bytes : list N) (hexs : list N) : list N :=
  print_body tag path_bytes hexs ++ [LF].

(* ------------------------------------------------------------------------- *)
(* parse_check_line                                                          *)
(* ------------------------------------------------------------------------- *)
Record b3cfg := { tagged_first : bool; hex_unwrap_is_error : bool }.
Definition asis_cfg : b3cfg := {| tagged_first := false; hex_unwrap_is_error := false |}.
Definition fixed_cfg : b3cfg := {| tagged_first := true; hex_unwrap_is_error := true |}.

Inductive b3err :=
| EEmptyLine      (* "Empty line" *)
| EFormat         (* "Invalid check line format" *)
| EHashLength     (* "Invalid hash length" *)
| EHex            (* "Invalid hex" *)
| EEscape         (* "Invalid backslash escape" *)
| EEmptyPath      (* "empty file path" *)
| ENul            (* "Null character in path" *)
| EReplacement.   (* "Unicode replacement character in path" *)

Inductive presult :=
| PErr (e : b3err)
| POk (path : list N) (hash : list N) (is_escaped : bool) (file_string : list N).

(* panic sites *)
Definition PANIC_HEX_HIGH : N := 390.  (* main.rs line 390: hex_chars.next().unwrap() *)
Definition PANIC_HEX_LOW : N := 391.   (* main.rs line 391 *)

Definition is_crlf (c : N) : bool := (c =? CR) || (c =? LF).

(* str::trim_end_matches(['\r','\n']) *)
Fixpoint trim_end (s : list N) : list N :=
  match s with
  | [] => []
  | c :: t => match trim_end t with
              | [] => if is_crlf c then [] else [c]
              | t' => c :: t'
              end
  end.

(* str::strip_prefix / starts_with + slice *)
Fixpoint strip_prefix (pat s : list N) : option (list N) :=
  match pat, s with
  | [], _ => Some s
  | p :: pt, c :: t => if p =? c then strip_prefix pt t else None
  | _ :: _, [] => None
  end.

(* str::split_once(pat): leftmost occurrence (pat non-empty) *)
Fixpoint split_once (pat s : list N) : option (list N * list N) :=
  match strip_prefix pat s with
  | Some r => Some ([], r)
  | None => match s with
            | [] => None
            | c :: t => match split_once pat t with
                        | Some (l, r) => Some (c :: l, r)
                        | None => None
                        end
            end
  end.

(* str::rsplit_once(pat): rightmost occurrence (pat non-empty) *)
Fixpoint rsplit_once (pat s : list N) : option (list N * list N) :=
  match s with
  | [] => None
  | c :: t => match rsplit_once pat t with
              | Some (l, r) => Some (c :: l, r)
              | None => match strip_prefix pat s with
                        | Some r => Some ([], r)
                        | None => None
                        end
              end
  end.

(* both return (hash_hex, file_str) *)
Definition split_untagged_check_line (las : list N) : option (list N * list N) :=
  split_once PLAIN_SEP las.

Definition split_tagged_check_line (las : list N) : option (list N * list N) :=
  match strip_prefix TAG_PREFIX las with
  | None => None
  | Some rest => match rsplit_once TAG_SEP rest with
                 | Some (file, hash) => Some (hash, file)
                 | None => None
                 end
  end.

Definition orelse {A} (a b : option A) : option A := match a with Some _ => a | None => b end.

Definition split_check_line (cfg : b3cfg) (las : list N) : option (list N * list N) :=
  if tagged_first cfg
  then orelse (split_tagged_check_line las) (split_untagged_check_line las)
  else orelse (split_untagged_check_line las) (split_tagged_check_line las).

(* the loop `for byte in &mut hash_bytes` (n = 32 iterations) over hash_hex.chars().
   Result: Ok (inr bytes) | Ok (inl EHex) | Panic (an unwrap on None). *)
Definition unwrap_none (cfg : b3cfg) (site : N) : res (b3err + list N) :=
  if hex_unwrap_is_error cfg then Ok (inl EHex) else Panic site.

Fixpoint hex_loop (cfg : b3cfg) (n : nat) (chars : list N) : res (b3err + list N) :=
  match n with
  | O => Ok (inr [])
  | S n' =>
    match chars with
    | [] => unwrap_none cfg PANIC_HEX_HIGH
    | hi :: t =>
      match t with
      | [] => unwrap_none cfg PANIC_HEX_LOW
      | lo :: t' =>
        match hex_half_byte hi with
        | None => Ok (inl EHex)
        | Some a =>
          match hex_half_byte lo with
          | None => Ok (inl EHex)
          | Some b =>
            match hex_loop cfg n' t' with
            | Ok (inr bs) => Ok (inr ((16 * a + b) :: bs))
            | other => other
            end
          end
        end
      end
    end
  end.

(* unescape: None = "Invalid backslash escape" *)
Fixpoint unescape (s : list N) : option (list N) :=
  match s with
  | [] => Some []
  | c :: t =>
    if c =? BSL then
      match t with
      | [] => None
      | d :: t' =>
        if d =? 110 then option_map (cons LF) (unescape t')
        else if d =? 114 then option_map (cons CR) (unescape t')
        else if d =? BSL then option_map (cons BSL) (unescape t')
        else None
      end
    else option_map (cons c) (unescape t)
  end.

Definition check_for_invalid_characters (p : list N) : option b3err :=
  if existsb (N.eqb NUL) p then Some ENul
  else if existsb (N.eqb REPL) p then Some EReplacement
  else None.

(* the part of parse_check_line after the line has been split into its two fields *)
Definition parse_fields (cfg : b3cfg) (is_escaped : bool) (hash_hex file_str : list N) : res presult :=
  (* ensure!(hash_hex.len() == 2 * blake3::OUT_LEN, "Invalid hash length"): a BYTE length *)
  if negb (str_len hash_hex =? 64) then Ok (PErr EHashLength)
  else
    match hex_loop cfg 32 hash_hex with
    | Panic c => Panic c
    | OutOfFuel => OutOfFuel
    | Ok (inl e) => Ok (PErr e)
    | Ok (inr hash) =>
      match (if is_escaped then unescape file_str else Some file_str) with
      | None => Ok (PErr EEscape)
      | Some p =>
        match p with
        | [] => Ok (PErr EEmptyPath)
        | _ => match check_for_invalid_characters p with
               | Some e => Ok (PErr e)
               | None => Ok (POk p hash is_escaped file_str)
               end
        end
      end
    end.

Definition parse_check_line (cfg : b3cfg) (line0 : list N) : res presult :=
  let line := trim_end line0 in
  match line with
  | [] => Ok (PErr EEmptyLine)
  | first :: rest =>
    let is_escaped := first =? BSL in
    (* &line[1..]: the backslash is one byte, the slice cannot fail *)
    let las := if is_escaped then rest else line in
    match split_check_line cfg las with
    | None => Ok (PErr EFormat)
    | Some (hash_hex, file_str) => parse_fields cfg is_escaped hash_hex file_str
    end
  end.

(* ------------------------------------------------------------------------- *)
(* C12: digest output                                                        *)
(* ------------------------------------------------------------------------- *)
(* S : N -> N is the extended output of the library for the mode and file
   (byte at absolute position); OutputReader::set_position(seek) then fill. *)
Definition srange (St : N -> N) (pos : N) (n : nat) : list N := map St (nrange pos n).

(* write_hex_output: `while len > 0 { fill(block[64]); print hex[..2*min(len,64)]; len -= .. }` *)
Fixpoint write_hex_output (fuel : nat) (St : N -> N) (pos len : N) : res (list N) :=
  if len =? 0 then Ok []
  else match fuel with
       | O => OutOfFuel
       | Datatypes.S f =>
         let block := srange St pos 64 in
         let hex_str := hex_of_bytes block in
         let take_bytes := N.min len 64 in
         rest <- write_hex_output f St (pos + 64) (len - take_bytes) ;;
         Ok (firstn (N.to_nat (2 * take_bytes)) hex_str ++ rest)
       end.

(* write_raw_output: io::copy(&mut output.take(len), stdout): reads of at most `chunk`
   bytes (the copy buffer; any positive size) until `len` bytes have been delivered *)
Fixpoint write_raw_output (fuel : nat) (chunk : N) (St : N -> N) (pos len : N) : res (list N) :=
  if len =? 0 then Ok []
  else match fuel with
       | O => OutOfFuel
       | Datatypes.S f =>
         let n := N.min len (N.max 1 chunk) in
         rest <- write_raw_output f chunk St (pos + n) (len - n) ;;
         Ok (srange St pos (N.to_nat n) ++ rest)
       end.

Record out_flags := { f_raw : bool; f_no_names : bool; f_tag : bool; f_length : N; f_seek : N }.

Definition hex_fuel (len : N) : nat := Datatypes.S (N.to_nat (len / 64)).

(* stdout bytes (as scalars / raw bytes) of hash_one_input for a readable input *)
Definition hash_one_input (fl : out_flags) (St : N -> N) (path_bytes : list N) : res (list N) :=
  if f_raw fl then write_raw_output (Datatypes.S (N.to_nat (f_length fl / 8192))) 8192 St (f_seek fl) (f_length fl)
  else
    hexs <- write_hex_output (hex_fuel (f_length fl)) St (f_seek fl) (f_length fl) ;;
    if f_no_names fl then Ok (hexs ++ [LF])
    else Ok (print_line (f_tag fl) path_bytes hexs).

(* main, hashing mode: inputs are (path, Some S | None = hash_path failed).
   Result: (stdout, files_failed).  Exit status = if files_failed > 0 then 1 else 0. *)
Definition U64_MAX : N := 18446744073709551615.
Definition sat_add1 (x : N) : N := if x <? U64_MAX then x + 1 else U64_MAX.

Fixpoint run_hash (fl : out_flags) (inputs : list (list N * option (N -> N))) (failed : N)
  : res (list N * N) :=
  match inputs with
  | [] => Ok ([], failed)
  | (p, None) :: t => run_hash fl t (sat_add1 failed)
  | (p, Some St) :: t =>
    o <- hash_one_input fl St p ;;
    '(o2, f2) <- run_hash fl t failed ;;
    Ok (o ++ o2, f2)
  end.

(* read_key_from_stdin: stdin.take(33).read_to_end(): exactly 32 bytes are a key *)
Inductive key_result := KeyOk (k : list N) | KeyTooShort (n : N) | KeyTooLong.
Definition read_key_from_stdin (stdin : list N) : key_result :=
  let bytes := firstn 33 stdin in
  let n := N.of_nat (length bytes) in
  if n <? 32 then KeyTooShort n
  else if 32 <? n then KeyTooLong
  else KeyOk (firstn 32 bytes).   (* bytes[..KEY_LEN].try_into().unwrap(): n = 32, cannot fail *)

(* ------------------------------------------------------------------------- *)
(* C12: --check                                                              *)
(* ------------------------------------------------------------------------- *)
(* the file system seen by hash_path at check time: path string -> error text or stream *)
Definition fsys := list N -> (list N + (N -> N)).

Definition OK_SUFFIX : list N := [58;32;79;75;10].                   (* ": OK\n" *)
Definition FAILED_SUFFIX : list N := [58;32;70;65;73;76;69;68;10].   (* ": FAILED\n" *)
Definition FAILED_OPEN : list N := [58;32;70;65;73;76;69;68;32;40].  (* ": FAILED (" *)

Fixpoint list_eqb (a b : list N) : bool :=
  match a, b with
  | [], [] => true
  | x :: a', y :: b' => (x =? y) && list_eqb a' b'
  | _, _ => false
  end.

(* check_one_line: (success, stdout) *)
Definition check_one_line (cfg : b3cfg) (fs : fsys) (seek : N) (quiet : bool) (line : list N)
  : res (bool * list N) :=
  r <- parse_check_line cfg line ;;
  match r with
  | PErr _ => Ok (false, [])
  | POk path expected is_escaped file_string =>
    let shown := (if is_escaped then [BSL] else []) ++ file_string in
    match fs path with
    | inl e => Ok (false, shown ++ FAILED_OPEN ++ e ++ [41; 10])
    | inr St =>
      let found := srange St seek 32 in
      if list_eqb expected found
      then Ok (true, if quiet then [] else shown ++ OK_SUFFIX)
      else Ok (false, shown ++ FAILED_SUFFIX)
    end
  end.

(* a line delivered by BufRead::read_line: text, or bytes that are not UTF-8 (io error) *)
Inductive cline := LText (s : list N) | LBadUtf8.

(* how the run ends *)
Inductive b3exit :=
| ExitCode (files_failed : N)   (* std::process::exit(if files_failed > 0 {1} else {0}) *)
| ExitError                     (* main returned Err (unopenable checkfile, read error): status 1 *)
| ExitPanic (pcode : N).         (* status 101 *)

Definition exit_status (e : b3exit) : N :=
  match e with
  | ExitCode f => if 0 <? f then 1 else 0
  | ExitError => 1
  | ExitPanic _ => 101
  end.

(* check_one_checkfile's loop; returns stdout, and the counter or how it stopped *)
Fixpoint check_lines (cfg : b3cfg) (fs : fsys) (seek : N) (quiet : bool) (lines : list cline) (failed : N)
  : list N * (b3exit + N) :=
  match lines with
  | [] => ([], inr failed)
  | LBadUtf8 :: _ => ([], inl ExitError)
  | LText l :: t =>
    match check_one_line cfg fs seek quiet l with
    | Panic c => ([], inl (ExitPanic c))
    | OutOfFuel => ([], inl (ExitPanic 0))
    | Ok (success, out) =>
      let '(out2, r) := check_lines cfg fs seek quiet t (if success then failed else sat_add1 failed) in
      (out ++ out2, r)
    end
  end.

(* main, --check mode: a checkfile is None (cannot be opened) or its lines *)
Fixpoint run_check (cfg : b3cfg) (fs : fsys) (seek : N) (quiet : bool)
         (checkfiles : list (option (list cline))) (failed : N) : list N * b3exit :=
  match checkfiles with
  | [] => ([], ExitCode failed)
  | None :: _ => ([], ExitError)
  | Some lines :: t =>
    match check_lines cfg fs seek quiet lines failed with
    | (out, inl e) => (out, e)
    | (out, inr failed') =>
      let '(out2, e) := run_check cfg fs seek quiet t failed' in (out ++ out2, e)
    end
  end.

Definition b3sum_check cfg fs seek quiet checkfiles := run_check cfg fs seek quiet checkfiles 0.
