(* Reference implementation, tree level: the CV stack of the model of
   reference_impl.rs holds the chaining values of the complete subtrees given by
   the binary decomposition of the number of completed chunks; merging
   (add_chunk_chaining_value) and the final right-edge fold (finalize) build the
   specification's tree. *)
From V Require Import Proofs.ListP.
From V Require Import Base.Res Base.Word Base.MachInt gen.GenConsts
  Spec.Compress Spec.Tree Spec.Blake3 Model.RefImpl Proofs.PortableP Proofs.TreeP Proofs.FormulasP
  Proofs.RefCompressP Proofs.RefChunkP.
Open Scope N_scope.

(* ---- the specification tree at the canonical fuel -------------------------------------- *)
Definition ST (ctr : N) (bytes : list N) : tree := spec_tree tree_height ctr bytes.

Lemma ref_spec_tree_unfold h ctr bytes :
  spec_tree (S h) ctr bytes =
  if len bytes <=? 1024 then Leaf ctr bytes
  else let l := left_len (len bytes) in
       Node (spec_tree h ctr (take l bytes)) (spec_tree h (ctr + l / 1024) (drop l bytes)).
Proof. reflexivity. Qed.

Lemma ST_leaf ctr bytes : len bytes <= 1024 -> ST ctr bytes = Leaf ctr bytes.
Proof.
  intros H. unfold ST. rewrite tree_height_S, ref_spec_tree_unfold.
  replace (len bytes <=? 1024) with true by lia. reflexivity.
Qed.

Lemma left_len_pow a n : 1024 * 2 ^ a < n <= 1024 * 2 ^ (a + 1) -> left_len n = 1024 * 2 ^ a.
Proof.
  intros H.
  assert (Hp : 0 < 2 ^ a) by apply pow2_pos.
  destruct (left_len_spec n ltac:(lia)) as (a' & Hl & Hlo & Hhi).
  rewrite Hl.
  assert (P10 : forall b, 2 ^ (b + 10) = 1024 * 2 ^ b /\ 2 ^ (b + 10 + 1) = 1024 * 2 ^ (b + 1)).
  { intros b. split.
    - rewrite N.pow_add_r. change (2 ^ 10) with 1024. lia.
    - replace (b + 10 + 1) with ((b + 1) + 10) by lia. rewrite (N.pow_add_r 2 (b + 1) 10).
      change (2 ^ 10) with 1024. lia. }
  assert (E : a + 10 = a' + 10).
  { apply (pow2_unique (a + 10) (a' + 10) n).
    - destruct (P10 a) as [-> ->]. exact H.
    - destruct (P10 a') as [-> ->]. split; assumption. }
  replace a' with a by lia. reflexivity.
Qed.

Lemma ST_node a ctr X Y :
  len X = 1024 * 2 ^ a -> 0 < len Y <= 1024 * 2 ^ a -> len (X ++ Y) < 2 ^ 64 ->
  ST ctr (X ++ Y) = Node (ST ctr X) (ST (ctr + 2 ^ a) Y).
Proof.
  intros HX HY H64. unfold ST. rewrite tree_height_S, ref_spec_tree_unfold.
  assert (Hp : 0 < 2 ^ a) by apply pow2_pos.
  rewrite len_app in *.
  replace (len X + len Y <=? 1024) with false by lia. cbv zeta.
  rewrite (left_len_pow a) by (rewrite N.add_1_r, N.pow_succ_r'; lia).
  rewrite <- HX.
  rewrite take_app_le, take_all by lia.
  rewrite drop_app_ge by lia. rewrite N.sub_diag, drop_0.
  replace (len X / 1024) with (2 ^ a) by (rewrite HX; rewrite N.mul_comm, N.div_mul; lia).
  change (2 ^ 64) with (1024 * 2 ^ 54) in H64.
  assert (H63 : 2 ^ 54 <= 2 ^ N.of_nat 63) by (apply N.pow_le_mono_r; lia).
  assert (H64' : 2 ^ 54 <= 2 ^ N.of_nat (S 63)) by (apply N.pow_le_mono_r; lia).
  rewrite (spec_tree_fuel 63 (S 63) ctr X) by lia.
  rewrite (spec_tree_fuel 63 (S 63) (ctr + 2 ^ a) Y) by lia.
  reflexivity.
Qed.

(* well-formed trees: every leaf is at most one chunk *)
Fixpoint wft (t : tree) : Prop :=
  match t with
  | Leaf _ b => len b <= 1024
  | Node l r => wft l /\ wft r
  end.

Lemma spec_tree_wft : forall h ctr bytes, len bytes <= 1024 * 2 ^ N.of_nat h -> wft (spec_tree h ctr bytes).
Proof.
  induction h as [|h IH]; intros ctr bytes H.
  - change (2 ^ N.of_nat 0) with 1 in H. cbn [spec_tree wft]. lia.
  - rewrite ref_spec_tree_unfold. destruct (len bytes <=? 1024) eqn:E; [cbn [wft]; lia|].
    cbv zeta. cbn [wft].
    destruct (left_len_spec (len bytes) ltac:(lia)) as (a & Hl & Hlo & Hhi).
    rewrite Hl. rewrite Nat2N.inj_succ, N.pow_succ_r' in H.
    assert (Ha : 2 ^ a < 2 * 2 ^ N.of_nat h) by lia.
    rewrite <- N.pow_succ_r' in Ha. apply N.pow_lt_mono_r_iff in Ha; [|lia].
    assert (Hp : 2 ^ a <= 2 ^ N.of_nat h) by (apply N.pow_le_mono_r; lia).
    rewrite N.add_1_r, N.pow_succ_r' in Hhi.
    split; apply IH; rewrite ?len_take, ?len_drop; lia.
Qed.

Lemma ST_wft ctr bytes : len bytes < 2 ^ 64 -> wft (ST ctr bytes).
Proof.
  intros H. unfold ST. apply spec_tree_wft.
  assert (2 ^ 64 <= 1024 * 2 ^ N.of_nat tree_height).
  { change (2 ^ 64) with (1024 * 2 ^ 54). apply N.mul_le_mono_l. apply N.pow_le_mono_r; [lia|].
    unfold tree_height. lia. }
  lia.
Qed.

Global Opaque ST.

(* ---- the abstract stack: top first ------------------------------------------------------------
   stack_pos u q P: P consists of q groups of u chunks (u a power of two); the
   entries are the complete subtrees of the binary decomposition of q, in units of u chunks *)
Fixpoint stack_pos (u : N) (q : positive) (P : list N) : list tree :=
  match q with
  | xH => [ST 0 P]
  | xO q' => stack_pos (2 * u) q' P
  | xI q' => ST (u * Npos (xO q')) (drop (1024 * u * Npos (xO q')) P)
             :: stack_pos (2 * u) q' (take (1024 * u * Npos (xO q')) P)
  end.

Definition stack_of (u q : N) (P : list N) : list tree :=
  match q with
  | 0 => []
  | Npos p => stack_pos u p P
  end.

Lemma stack_pos_length q : forall u P, N.of_nat (length (stack_pos u q P)) <= N.size (Npos q).
Proof.
  induction q as [q IH|q IH|]; intros u P; cbn [stack_pos length N.size Pos.size] in *.
  - specialize (IH (2 * u) (take (1024 * u * N.pos q~0) P)). lia.
  - specialize (IH (2 * u) P). lia.
  - lia.
Qed.

Lemma stack_of_length u q P : q < 2 ^ 54 -> (length (stack_of u q P) <= 54)%nat.
Proof.
  intros H. destruct q as [|p]; [cbn; lia|]. cbn [stack_of].
  pose proof (stack_pos_length p u P) as HL.
  rewrite N.size_log2 in HL by discriminate.
  assert (N.log2 (Npos p) < 54) by (apply N.log2_lt_pow2; lia). lia.
Qed.

(* the right edge: folding the stack (top first) over the current subtree gives the whole tree *)
Definition fold_stack (ts : list tree) (t : tree) : tree := fold_left (fun acc T => Node T acc) ts t.

Lemma fold_stack_cons T ts t : fold_stack (T :: ts) t = fold_stack ts (Node T t).
Proof. reflexivity. Qed.
Lemma fold_stack_nil t : fold_stack [] t = t.
Proof. reflexivity. Qed.
Lemma stack_pos_xI u q P :
  stack_pos u q~1 P = ST (u * Npos (xO q)) (drop (1024 * u * Npos (xO q)) P)
                      :: stack_pos (2 * u) q (take (1024 * u * Npos (xO q)) P).
Proof. reflexivity. Qed.
Lemma stack_pos_xO u q P : stack_pos u q~0 P = stack_pos (2 * u) q P.
Proof. reflexivity. Qed.
Lemma stack_pos_xH u P : stack_pos u 1 P = [ST 0 P].
Proof. reflexivity. Qed.

Lemma fold_stack_pos q : forall a P X,
  len P = 1024 * 2 ^ a * Npos q -> 0 < len X <= 1024 * 2 ^ a -> len (P ++ X) < 2 ^ 64 ->
  fold_stack (stack_pos (2 ^ a) q P) (ST (2 ^ a * Npos q) X) = ST 0 (P ++ X).
Proof.
  induction q as [q IH|q IH|]; intros a P X HP HX H64.
  - (* odd, at least 3: top entry, then the rest one level up *)
    rewrite stack_pos_xI, fold_stack_cons.
    assert (Hp : 0 < 2 ^ a) by apply pow2_pos.
    remember (1024 * 2 ^ a * N.pos q~0) as n eqn:En.
    assert (HL : len (drop n P) = 1024 * 2 ^ a) by (rewrite len_drop; lia).
    rewrite len_app in H64.
    replace (2 ^ a * N.pos q~1) with (2 ^ a * N.pos q~0 + 2 ^ a) by lia.
    rewrite <- (ST_node a) by (rewrite ?len_app; lia).
    rewrite <- N.pow_succ_r'. replace (2 ^ a * N.pos q~0) with (2 ^ N.succ a * N.pos q) by (rewrite N.pow_succ_r'; lia).
    rewrite IH.
    + rewrite app_assoc, take_drop. reflexivity.
    + rewrite len_take. rewrite N.pow_succ_r'. lia.
    + rewrite len_app, HL, N.pow_succ_r'. lia.
    + rewrite app_assoc, take_drop, len_app. lia.
  - rewrite stack_pos_xO.
    assert (Hp : 0 < 2 ^ a) by apply pow2_pos.
    rewrite <- N.pow_succ_r'. replace (2 ^ a * N.pos q~0) with (2 ^ N.succ a * N.pos q) by (rewrite N.pow_succ_r'; lia).
    apply IH; rewrite ?N.pow_succ_r'; lia.
  - rewrite stack_pos_xH, fold_stack_cons, fold_stack_nil.
    rewrite N.mul_1_r. replace (2 ^ a) with (0 + 2 ^ a) at 1 by lia.
    symmetry. apply ST_node; lia.
Qed.

Lemma fold_stack_of c P X :
  len P = 1024 * c -> 0 < len X <= 1024 -> len (P ++ X) < 2 ^ 64 ->
  fold_stack (stack_of 1 c P) (ST c X) = ST 0 (P ++ X).
Proof.
  intros HP HX H64. destruct c as [|q].
  - cbn [stack_of]. rewrite fold_stack_nil. assert (P = []) by (apply len_0_nil; lia). subst P. reflexivity.
  - cbn [stack_of]. change 1 with (2 ^ 0). replace (N.pos q) with (2 ^ 0 * N.pos q) at 2 by (change (2 ^ 0) with 1; lia).
    apply fold_stack_pos; change (2 ^ 0) with 1; lia.
Qed.

(* ---- list helpers for the array-with-length stack -------------------------------------------- *)
Lemma firstn_snoc_nth {A} (d : A) : forall (n : nat) (l : list A), (n < length l)%nat ->
  firstn (S n) l = firstn n l ++ [nth n l d].
Proof.
  induction n as [|n IH]; intros l H; destruct l as [|x l]; cbn [length] in H; try lia; [reflexivity|].
  cbn [firstn nth app]. f_equal. apply IH. lia.
Qed.

Lemma upd_length {A} (v : A) : forall (l : list A) (n : nat), length (upd l n v) = length l.
Proof. induction l as [|x l IH]; intros [|n]; cbn [upd length]; auto. Qed.

Lemma firstn_upd {A} (v : A) : forall (n : nat) (l : list A), firstn n (upd l n v) = firstn n l.
Proof.
  induction n as [|n IH]; intros l; [reflexivity|]. destruct l as [|x l]; [reflexivity|].
  cbn [upd firstn]. f_equal. apply IH.
Qed.

Lemma nth_upd {A} (v d : A) : forall (n : nat) (l : list A), (n < length l)%nat -> nth n (upd l n v) d = v.
Proof.
  induction n as [|n IH]; intros l H; destruct l as [|x l]; cbn [length] in H; try lia; [reflexivity|].
  cbn [upd nth]. apply IH. lia.
Qed.

Section RefStack.
  Variables (K : list N) (F : N).
  Hypothesis HK : length K = 8%nat.
  Hypothesis HKW : Forall W K.
  Hypothesis HF : W F.

  Definition tout (t : tree) : output := tree_out spec_c8 K F t.
  Definition cvw (t : tree) : list N := out_cvw (tout t).

  Lemma tree_cv_cvw t : tree_cv spec_c8 K F t = bytes_of_words (cvw t).
  Proof. rewrite tree_cv_out. unfold cvw, tout. apply chaining_value_cvw. Qed.

  Lemma tout_node l r :
    tout (Node l r) = parent_output K F (bytes_of_words (cvw l)) (bytes_of_words (cvw r)).
  Proof. unfold tout. cbn [tree_out]. rewrite !tree_cv_cvw. reflexivity. Qed.

  Lemma tout_leaf c b : tout (Leaf c b) = chunk_output spec_c8 K F c b.
  Proof. reflexivity. Qed.

  Lemma tout_wf t : wft t -> wf_out (tout t).
  Proof.
    induction t as [c b|l IHl r IHr]; intros H.
    - rewrite tout_leaf. apply chunk_output_wf; assumption.
    - destruct H as [Hl Hr]. rewrite tout_node.
      apply parent_output_wf; try assumption.
      + apply (out_cvw_words _ (IHl Hl)).
      + apply (out_cvw_words _ (IHr Hr)).
  Qed.

  Lemma cvw_words t : wft t -> length (cvw t) = 8%nat /\ Forall W (cvw t).
  Proof. intros H. apply out_cvw_words, tout_wf, H. Qed.

  Lemma ro_cv_tree t : wft t -> ro_chaining_value (ro_of (tout t)) = Ok (cvw t).
  Proof. intros H. apply ro_chaining_value_spec, tout_wf, H. Qed.

  Lemma ref_parent_tree l r : wft l -> wft r ->
    ref_parent_output (cvw l) (cvw r) K F = ro_of (tout (Node l r)).
  Proof.
    intros Hl Hr. rewrite tout_node.
    destruct (cvw_words l Hl) as [L1 L2]. destruct (cvw_words r Hr) as [R1 R2].
    apply ref_parent_output_spec; assumption.
  Qed.

  Lemma ref_parent_cv_tree l r : wft l -> wft r ->
    ref_parent_cv (cvw l) (cvw r) K F = Ok (cvw (Node l r)).
  Proof.
    intros Hl Hr. unfold ref_parent_cv. rewrite ref_parent_tree by assumption.
    apply ro_cv_tree. split; assumption.
  Qed.

  (* the concrete stack (array of 54 CVs and a length) against the abstract one (top first) *)
  Definition StackRel (stk : list (list N)) (n : N) (ts : list tree) : Prop :=
    length stk = 54%nat /\ n = N.of_nat (length ts) /\ (length ts <= 54)%nat /\
    firstn (length ts) stk = rev (map cvw ts) /\ Forall wft ts.

  Definition same_rest (h h' : ref_hasher) : Prop :=
    rh_chunk_state h' = rh_chunk_state h /\ rh_key_words h' = rh_key_words h /\ rh_flags h' = rh_flags h.

  Lemma same_rest_refl h : same_rest h h.
  Proof. repeat split. Qed.

  Lemma same_rest_trans a b c : same_rest a b -> same_rest b c -> same_rest a c.
  Proof. intros (A1&A2&A3) (B1&B2&B3). repeat split; congruence. Qed.

  Lemma pop_spec h T ts :
    StackRel (rh_cv_stack h) (rh_cv_stack_len h) (T :: ts) ->
    exists h', ref_pop_stack h = Ok (h', cvw T) /\
               StackRel (rh_cv_stack h') (rh_cv_stack_len h') ts /\ same_rest h h' /\ wft T.
  Proof.
    intros (H54 & Hn & Hle & Hfirst & Hwf). cbn [length] in *.
    unfold ref_pop_stack. rewrite Hn, H54.
    replace (1 <=? N.of_nat (S (length ts))) with true by lia. cbn [check bind].
    replace (N.of_nat (S (length ts)) - 1) with (N.of_nat (length ts)) by lia.
    replace (N.of_nat (length ts) <? N.of_nat 54) with true by lia. cbn [check bind].
    rewrite Nat2N.id.
    rewrite (firstn_snoc_nth ref_zero_cv) in Hfirst by lia.
    cbn [map rev] in Hfirst. apply app_inj_tail in Hfirst. destruct Hfirst as [Hf1 Hf2].
    rewrite Hf2. eexists. split; [reflexivity|].
    cbn [rh_cv_stack rh_cv_stack_len rh_chunk_state rh_key_words rh_flags].
    inversion Hwf; subst.
    split; [|split; [repeat split|assumption]].
    repeat split; try assumption; lia.
  Qed.

  Lemma push_spec h T ts :
    StackRel (rh_cv_stack h) (rh_cv_stack_len h) ts -> (length ts < 54)%nat -> wft T ->
    exists h', ref_push_stack h (cvw T) = Ok h' /\
               StackRel (rh_cv_stack h') (rh_cv_stack_len h') (T :: ts) /\ same_rest h h'.
  Proof.
    intros (H54 & Hn & Hle & Hfirst & Hwf) Hlt HT.
    unfold ref_push_stack. rewrite Hn, H54.
    replace (N.of_nat (length ts) <? N.of_nat 54) with true by lia. cbn [check bind].
    unfold mi_add, fits. replace (N.of_nat (length ts) + 1 <? 2 ^ 8) with true by (change (2 ^ 8) with 256; lia).
    cbn [bind]. rewrite Nat2N.id.
    eexists. split; [reflexivity|].
    cbn [rh_cv_stack rh_cv_stack_len rh_chunk_state rh_key_words rh_flags].
    split; [|repeat split].
    repeat split.
    - rewrite upd_length. exact H54.
    - cbn [length]. lia.
    - cbn [length]. lia.
    - cbn [length map rev].
      rewrite (firstn_snoc_nth ref_zero_cv) by (rewrite upd_length; lia).
      rewrite firstn_upd, nth_upd by lia. rewrite Hfirst. reflexivity.
    - constructor; assumption.
  Qed.

  Lemma add_loop_unfold fuel h cv total :
    ref_add_cv_loop fuel h cv total =
    if N.land total 1 =? 0 then
      match fuel with
      | O => OutOfFuel
      | S fuel' =>
          '(h, left_cv) <- ref_pop_stack h ;;
          new_cv <- ref_parent_cv left_cv cv (rh_key_words h) (rh_flags h) ;;
          ref_add_cv_loop fuel' h new_cv (N.shiftr total 1)
      end
    else Ok (h, cv).
  Proof. destruct fuel; reflexivity. Qed.

  Lemma add_loop_spec : forall fuel a q P X h,
    rh_key_words h = K -> rh_flags h = F ->
    StackRel (rh_cv_stack h) (rh_cv_stack_len h) (stack_of (2 ^ a) q P) ->
    len P = 1024 * 2 ^ a * q -> len X = 1024 * 2 ^ a -> len (P ++ X) < 2 ^ 64 ->
    q < 2 ^ N.of_nat fuel ->
    exists h' t' ts',
      ref_add_cv_loop fuel h (cvw (ST (2 ^ a * q) X)) (q + 1) = Ok (h', cvw t') /\
      t' :: ts' = stack_of (2 ^ a) (q + 1) (P ++ X) /\ wft t' /\
      StackRel (rh_cv_stack h') (rh_cv_stack_len h') ts' /\ same_rest h h'.
  Proof.
    induction fuel as [|fuel IH]; intros a q P X h HKh HFh HS HP HX H64 Hq.
    - (* q = 0 *)
      change (2 ^ N.of_nat 0) with 1 in Hq. assert (q = 0) by lia. subst q.
      rewrite add_loop_unfold. change (N.land (0 + 1) 1 =? 0) with false. cbv iota.
      assert (P = []) by (apply len_0_nil; lia). subst P.
      exists h, (ST (2 ^ a * 0) X), []. split; [reflexivity|].
      split; [rewrite N.mul_0_r; reflexivity|].
      split; [apply ST_wft; exact H64|]. split; [exact HS|apply same_rest_refl].
    - assert (Hp : 0 < 2 ^ a) by apply pow2_pos.
      rewrite len_app in H64.
      rewrite add_loop_unfold.
      destruct q as [|[q'|q'|]].
      + (* q = 0 *)
        change (N.land (0 + 1) 1 =? 0) with false. cbv iota.
        assert (P = []) by (apply len_0_nil; lia). subst P.
        exists h, (ST (2 ^ a * 0) X), []. split; [reflexivity|].
        split; [rewrite N.mul_0_r; reflexivity|].
        split; [apply ST_wft; change (len []) with 0 in H64; lia|]. split; [exact HS|apply same_rest_refl].
      + (* q = 2q'+1: pop, merge, continue one level up *)
        change (N.pos q'~1 + 1) with (N.pos (Pos.succ q')~0).
        change (N.land (N.pos (Pos.succ q')~0) 1 =? 0) with true. cbv iota.
        change (N.shiftr (N.pos (Pos.succ q')~0) 1) with (N.pos (Pos.succ q')).
        cbn [stack_of] in HS. rewrite stack_pos_xI in HS.
        remember (1024 * 2 ^ a * N.pos q'~0) as n eqn:En.
        destruct (pop_spec h _ _ HS) as (h1 & Hpop & HS1 & Hsame1 & HwT).
        rewrite Hpop. cbn [bind].
        destruct Hsame1 as (Hc1 & Hk1 & Hf1).
        rewrite Hk1, Hf1, HKh, HFh.
        assert (HL : len (drop n P) = 1024 * 2 ^ a) by (rewrite len_drop; lia).
        assert (HwX : wft (ST (2 ^ a * N.pos q'~1) X)) by (apply ST_wft; lia).
        rewrite ref_parent_cv_tree by assumption. cbn [bind].
        replace (2 ^ a * N.pos q'~1) with (2 ^ a * N.pos q'~0 + 2 ^ a) by lia.
        rewrite <- (ST_node a) by (rewrite ?len_app; lia).
        replace (2 ^ a * N.pos q'~0) with (2 ^ N.succ a * N.pos q') by (rewrite N.pow_succ_r'; lia).
        replace (N.pos (Pos.succ q')) with (N.pos q' + 1) by lia.
        destruct (IH (N.succ a) (N.pos q') (take n P) (drop n P ++ X) h1) as (h' & t' & ts' & Hrun & Heq & Hwt & HS' & Hsame').
        * congruence.
        * congruence.
        * rewrite N.pow_succ_r'. exact HS1.
        * rewrite len_take, N.pow_succ_r'. lia.
        * rewrite len_app, HL, N.pow_succ_r'. lia.
        * rewrite app_assoc, take_drop, len_app. lia.
        * rewrite Nat2N.inj_succ, N.pow_succ_r' in Hq. lia.
        * exists h', t', ts'. split; [exact Hrun|].
          split; [|split; [exact Hwt|split; [exact HS'|]]].
          -- rewrite Heq. rewrite app_assoc, take_drop.
             replace (N.pos q' + 1) with (N.pos (Pos.succ q')) by lia.
             cbn [stack_of]. rewrite stack_pos_xO, N.pow_succ_r'. reflexivity.
          -- eapply same_rest_trans; [|exact Hsame']. repeat split; assumption.
      + (* q = 2q': push position reached *)
        change (N.pos q'~0 + 1) with (N.pos q'~1).
        change (N.land (N.pos q'~1) 1 =? 0) with false. cbv iota.
        exists h, (ST (2 ^ a * N.pos q'~0) X), (stack_pos (2 * 2 ^ a) q' P).
        split; [reflexivity|].
        split; [|split; [apply ST_wft; lia|split; [exact HS|apply same_rest_refl]]].
        cbn [stack_of]. rewrite stack_pos_xI.
        rewrite drop_app_ge by lia. replace (1024 * 2 ^ a * N.pos q'~0 - len P) with 0 by lia.
        rewrite drop_0. rewrite take_app_le, take_all by lia. reflexivity.
      + (* q = 1 *)
        change (1 + 1) with (N.pos 1~0).
        change (N.land (N.pos 1~0) 1 =? 0) with true. cbv iota.
        change (N.shiftr (N.pos 1~0) 1) with (0 + 1).
        cbn [stack_of] in HS. rewrite stack_pos_xH in HS.
        destruct (pop_spec h _ _ HS) as (h1 & Hpop & HS1 & Hsame1 & HwT).
        rewrite Hpop. cbn [bind].
        destruct Hsame1 as (Hc1 & Hk1 & Hf1).
        rewrite Hk1, Hf1, HKh, HFh.
        assert (HwX : wft (ST (2 ^ a * 1) X)) by (apply ST_wft; lia).
        rewrite ref_parent_cv_tree by assumption. cbn [bind].
        replace (2 ^ a * 1) with (0 + 2 ^ a) by lia.
        rewrite <- (ST_node a) by (rewrite ?len_app; lia).
        destruct (IH (N.succ a) 0 [] (P ++ X) h1) as (h' & t' & ts' & Hrun & Heq & Hwt & HS' & Hsame').
        * congruence.
        * congruence.
        * exact HS1.
        * change (len []) with 0. lia.
        * rewrite len_app, N.pow_succ_r'. lia.
        * cbn [app]. rewrite len_app. lia.
        * apply pow2_pos.
        * rewrite N.mul_0_r in Hrun.
          exists h', t', ts'. split; [exact Hrun|].
          split; [|split; [exact Hwt|split; [exact HS'|]]].
          -- rewrite Heq. cbn [app stack_of]. change (0 + 1) with 1. cbn [stack_of].
             rewrite stack_pos_xO, N.pow_succ_r'. reflexivity.
          -- eapply same_rest_trans; [|exact Hsame']. repeat split; assumption.
  Qed.

  Lemma add_chunk_spec h c P R :
    rh_key_words h = K -> rh_flags h = F ->
    StackRel (rh_cv_stack h) (rh_cv_stack_len h) (stack_of 1 c P) ->
    len P = 1024 * c -> len R = 1024 -> len (P ++ R) < 2 ^ 64 ->
    exists h', ref_add_chunk_chaining_value h (cvw (Leaf c R)) (c + 1) = Ok h' /\
               StackRel (rh_cv_stack h') (rh_cv_stack_len h') (stack_of 1 (c + 1) (P ++ R)) /\
               same_rest h h'.
  Proof.
    intros HKh HFh HS HP HR H64. unfold ref_add_chunk_chaining_value.
    assert (Hc : c + 1 < 2 ^ 54).
    { rewrite len_app in H64. change (2 ^ 64) with (1024 * 2 ^ 54) in H64. lia. }
    destruct (add_loop_spec ref_add_cv_fuel 0 c P R h HKh HFh) as (h1 & t' & ts' & Hrun & Heq & Hwt & HS1 & Hsame1).
    - exact HS.
    - change (2 ^ 0) with 1. lia.
    - change (2 ^ 0) with 1. lia.
    - exact H64.
    - assert (2 ^ 54 <= 2 ^ N.of_nat ref_add_cv_fuel) by (apply N.pow_le_mono_r; unfold ref_add_cv_fuel; lia). lia.
    - change (2 ^ 0) with 1 in Hrun, Heq. rewrite N.mul_1_l in Hrun.
      rewrite ST_leaf in Hrun by lia. rewrite Hrun. cbn [bind].
      pose proof (stack_of_length 1 (c + 1) (P ++ R) Hc) as Hlen. rewrite <- Heq in Hlen. cbn [length] in Hlen.
      destruct (push_spec h1 t' ts' HS1 ltac:(lia) Hwt) as (h' & Hpush & HS' & Hsame').
      exists h'. split; [exact Hpush|]. split; [rewrite <- Heq; exact HS'|].
      eapply same_rest_trans; eassumption.
  Qed.

  (* the right-edge fold of finalize *)
  Lemma finalize_loop_spec h : rh_key_words h = K -> rh_flags h = F ->
    forall ts t, length (rh_cv_stack h) = 54%nat -> (length ts <= 54)%nat ->
    firstn (length ts) (rh_cv_stack h) = rev (map cvw ts) -> Forall wft ts -> wft t ->
    ref_finalize_loop (length ts) h (ro_of (tout t)) = Ok (ro_of (tout (fold_stack ts t))).
  Proof.
    intros HKh HFh. induction ts as [|T ts IH]; intros t H54 Hle Hfirst Hwf Hwt.
    - reflexivity.
    - cbn [length] in *. cbn [ref_finalize_loop]. rewrite H54.
      replace (N.of_nat (length ts) <? N.of_nat 54) with true by lia. cbn [check bind].
      rewrite ro_cv_tree by exact Hwt. cbn [bind].
      rewrite (firstn_snoc_nth ref_zero_cv) in Hfirst by lia.
      cbn [map rev] in Hfirst. apply app_inj_tail in Hfirst. destruct Hfirst as [Hf1 Hf2].
      rewrite Hf2, HKh, HFh.
      inversion Hwf; subst.
      rewrite ref_parent_tree by assumption.
      rewrite fold_stack_cons. apply IH; try assumption; [lia|split; assumption].
  Qed.
End RefStack.
