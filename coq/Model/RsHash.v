(* Model of `blake3::Hash` conversions and equality (src/lib.rs, impl Hash,
   FromStr, From, PartialEq x3, Display/Debug).  A Hash value is a list of 32
   bytes; strings are lists of bytes (Rust `&str`/`impl AsRef<[u8]>`).
   Tables, ranges and the nibble arithmetic come from gen/GenConsts.v. *)
From Coq Require Import NArith List Bool.
From V Require Import Base.Res Base.Word Base.MachInt gen.GenConsts.
Import ListNotations.
Open Scope N_scope.

(* table[i] with Rust's bounds check *)
Definition index_tbl (tbl : list N) (i : N) : res N :=
  match nth_error tbl (N.to_nat i) with
  | Some v => Ok v
  | None => Panic 10
  end.

(* Hash::to_hex: two table lookups per byte, pushed into an ArrayString<64>
   (push panics when full: Panic 11). *)
Fixpoint to_hex_go (bs : list N) (acc_len : N) : res (list N) :=
  match bs with
  | [] => Ok []
  | b :: tl =>
      hi <- rs_hex_hi_index b ;;
      lo <- rs_hex_lo_index b ;;
      c1 <- index_tbl rs_hex_table hi ;;
      c2 <- index_tbl rs_hex_table lo ;;
      assert! (acc_len + 2 <=? 2 * rs_OUT_LEN) code 11 ;;
      rest <- to_hex_go tl (acc_len + 2) ;;
      Ok (c1 :: c2 :: rest)
  end.
Definition to_hex (h : list N) : res (list N) := to_hex_go h 0.

(* Display prints to_hex; Debug prints Hash("<hex>") *)
Definition display (h : list N) : res (list N) := to_hex h.

Inductive hex_result :=
| HexOk (bytes : list N)
| HexInvalidLen (len : N)
| HexInvalidByte (b : N).

Fixpoint hex_val_arms (arms : list (N * N * (N -> res N))) (byte : N) : res (option N) :=
  match arms with
  | [] => Ok None
  | (lo, hi, f) :: tl =>
      if (lo <=? byte) && (byte <=? hi) then (v <- f byte ;; Ok (Some v))
      else hex_val_arms tl byte
  end.
Definition hex_val (byte : N) : res (option N) := hex_val_arms rs_hex_val_arms byte.

(* the loop `for i in 0..OUT_LEN`, reading hex_bytes[2i], hex_bytes[2i+1];
   the slice has been length-checked, so the reads cannot fail; we still model
   a failing read as Panic 12. *)
Fixpoint from_hex_go (n : nat) (s : list N) : res hex_result :=
  match n with
  | O => Ok (HexOk [])
  | S n' =>
      match s with
      | c1 :: c2 :: tl =>
          v1 <- hex_val c1 ;;
          match v1 with
          | None => Ok (HexInvalidByte c1)
          | Some hi =>
              v2 <- hex_val c2 ;;
              match v2 with
              | None => Ok (HexInvalidByte c2)
              | Some lo =>
                  b <- rs_hex_combine hi lo ;;
                  r <- from_hex_go n' tl ;;
                  match r with
                  | HexOk bs => Ok (HexOk (b :: bs))
                  | e => Ok e
                  end
              end
          end
      | _ => Panic 12
      end
  end.

Definition from_hex (s : list N) : res hex_result :=
  if negb (N.of_nat (length s) =? rs_hex_len) then Ok (HexInvalidLen (N.of_nat (length s)))
  else from_hex_go (N.to_nat rs_OUT_LEN) s.

(* FromStr delegates to from_hex *)
Definition from_str (s : list N) : res hex_result := from_hex s.

(* from_slice: Ok iff the slice has exactly OUT_LEN bytes (TryFrom<&[u8]> for [u8; 32]) *)
Definition from_slice (bs : list N) : option (list N) :=
  if N.of_nat (length bs) =? rs_OUT_LEN then Some bs else None.
Definition as_slice (h : list N) : list N := h.
Definition from_bytes (bs : list N) : list N := bs.
Definition as_bytes (h : list N) : list N := h.

(* constant_time_eq (external crate, modelled by its documented algorithm):
   length mismatch -> false; otherwise OR together the XORs and compare with 0 *)
Fixpoint ct_acc (a b : list N) (acc : N) : N :=
  match a, b with
  | x :: a', y :: b' => ct_acc a' b' (N.lor acc (N.lxor x y))
  | _, _ => acc
  end.
Definition constant_time_eq (a b : list N) : bool :=
  if negb (Nat.eqb (length a) (length b)) then false else ct_acc a b 0 =? 0.

Definition hash_eq (a b : list N) : bool := constant_time_eq a b.       (* Hash == Hash, Hash == [u8;32] *)
Definition hash_eq_slice (a s : list N) : bool := constant_time_eq a s. (* Hash == [u8] *)
