(* Model of src/io.rs::copy_wide driven by a reader script, and of the decision
   function of maybe_mmap_file.  The reader is an oracle: a finite script of
   results followed by "deliver what is left, then EOF". *)
From Coq Require Import NArith ZArith List Bool.
From V Require Import Base.Res Base.Word Base.MachInt gen.GenConsts gen.GenFormulas
  Spec.Tree Model.Platform Model.RsChunk Model.RsHasher.
Import ListNotations.
Open Scope N_scope.

Inductive read_item :=
| RDeliver (n : N)      (* Ok(k) with k = min(n, buffer, remaining); k = 0 means EOF *)
| RInterrupted          (* Err(Interrupted): retried *)
| RError (kind : N)     (* any other error: returned *)
| RZero.                (* Ok(0) *)

Inductive copy_result := CopyOk (total : N) | CopyErr (kind : N).

Fixpoint copy_wide (fuel : nat) (p : platform) (h : hasher) (data : list N) (script : list read_item) (total : N)
  : res (hasher * copy_result) :=
  match fuel with
  | O => OutOfFuel
  | S fuel' =>
      let '(item, script') := match script with
                              | [] => (RDeliver rs_COPY_BUF, [])
                              | it :: tl => (it, tl)
                              end in
      match item with
      | RInterrupted => copy_wide fuel' p h data script' total
      | RError k => Ok (h, CopyErr k)
      | RZero => Ok (h, CopyOk total)
      | RDeliver n =>
          let k := N.min (N.min n rs_COPY_BUF) (nlen data) in
          if k =? 0 then Ok (h, CopyOk total)
          else
            h' <- hasher_update p h (firstn (N.to_nat k) data) ;;
            total' <- mi_add 64 total k ;;
            copy_wide fuel' p h' (skipn (N.to_nat k) data) script' total'
      end
  end.

Definition copy_fuel (data : list N) (script : list read_item) : nat :=
  (length script + N.to_nat (nlen data / rs_COPY_BUF) + 2)%nat.

Definition update_reader (p : platform) (h : hasher) (data : list N) (script : list read_item)
  : res (hasher * copy_result) :=
  copy_wide (copy_fuel data script) p h data script 0.

(* Write::write: update, then report the whole buffer consumed *)
Definition hasher_write (p : platform) (h : hasher) (input : list N) : res (hasher * N) :=
  h' <- hasher_update p h input ;; Ok (h', nlen input).

(* maybe_mmap_file as a decision function of the oracle answers:
   seek_end = result of seek(End(-(MIN_MMAP-1))): None = error, Some off = new offset;
   mmap_ok = whether the mapping call succeeds; returns Some len = map that many bytes,
   None = fall back to reading (cursor rewound to 0). *)
Definition isize_max : N := 2 ^ 63 - 1.
Definition mmap_decision (seek_end : option N) (mmap_ok : bool) : option N :=
  match seek_end with
  | None => None
  | Some off =>
      if off =? 0 then None
      else if off <=? isize_max - rs_seek_offset then
             (if mmap_ok then Some (off + rs_seek_offset) else None)
           else None
  end.

(* what a scripted reader yields, independently of the hasher (used by Proofs/IoP.v and by the specification machine) *)
Inductive copy_end := EndEof | EndErr (kind : N) | EndFuel.

(* what the reader yields, independently of the hasher: the pieces handed to update, in
   order, and how the loop ends *)
Fixpoint delivered (fuel : nat) (data : list N) (script : list read_item) : list (list N) * copy_end :=
  match fuel with
  | O => ([], EndFuel)
  | S fuel' =>
      let '(item, script') := match script with [] => (RDeliver rs_COPY_BUF, []) | it :: tl => (it, tl) end in
      match item with
      | RInterrupted => delivered fuel' data script'
      | RError k => ([], EndErr k)
      | RZero => ([], EndEof)
      | RDeliver n =>
          let k := N.min (N.min n rs_COPY_BUF) (nlen data) in
          if k =? 0 then ([], EndEof)
          else let '(ps, e) := delivered fuel' (skipn (N.to_nat k) data) script' in
               (firstn (N.to_nat k) data :: ps, e)
      end
  end.

