(* Extraction of the executable models and the specification to OCaml.
   Directives used: exactly those of ExtrOcamlBasic (bool, option, unit, list,
   prod, sumbool, sumor -> OCaml types of the same shape; andb/orb inlined).
   N, positive, nat, Z stay the extracted inductive types. *)
From Coq Require Import NArith List.
From Coq Require Extraction.
From Coq Require Import ExtrOcamlBasic.
From V Require Import Base.Res Base.Word Base.MachInt gen.GenConsts gen.GenFormulas Model.RsHash
  Spec.Compress Spec.Tree Spec.Blake3 Model.Portable Model.Platform Model.RsChunk Model.RsWide Model.RsHasher Model.RsXof Model.RsIo Model.RsDebug Model.RsGuts Model.Machine Model.SpecMachine Model.B3sum Model.RefImpl Model.CHasher.



Extraction "model.ml"
  Res.debug_only RsHash.to_hex RsHash.from_hex RsHash.from_slice RsHash.constant_time_eq
  RefImpl.ref_run SpecMachine.spec_run_case Machine.run_case RsGuts.guts_new RsGuts.guts_feed RsGuts.guts_debug RsGuts.guts_finalize RsGuts.guts_parent_cv Platform.sim_platform RsWide.rs_hash RsWide.rs_keyed_hash RsWide.rs_derive_key
  Blake3.b3_hash Blake3.b3_keyed_hash Blake3.b3_derive_key Blake3.b3_xof_mode Blake3.b3_hash_mode
  B3sum.parse_check_line B3sum.filepath_to_string B3sum.print_line B3sum.print_body B3sum.unescape B3sum.check_for_invalid_characters
  B3sum.hex_half_byte B3sum.utf8_encode B3sum.utf8_lossy B3sum.hash_one_input B3sum.run_hash B3sum.b3sum_check B3sum.exit_status B3sum.asis_cfg B3sum.fixed_cfg B3sum.read_key_from_stdin B3sum.hex_of_bytes
  Portable.compress_in_place Portable.compress_xof Portable.hash_many Platform.portable_xof_many Word.words_of_bytes Word.bytes_of_words
  GenFormulas.rs_left_subtree_len GenFormulas.rs_max_subtree_len GenFormulas.rs_largest_power_of_two_leq
  CHasher.c_run_case CHasher.c_platform.
