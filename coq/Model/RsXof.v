(* Model of `OutputReader` (src/lib.rs): fill_one_block, fill, position,
   set_position, Read::read, Seek::seek (the i128 arithmetic in Z). *)
From Coq Require Import NArith ZArith List Bool.
From V Require Import Base.Res Base.Word Base.MachInt gen.GenConsts gen.GenFormulas
  Spec.Tree Model.Portable Model.Platform Model.RsChunk.
Import ListNotations.
Open Scope N_scope.

Record reader := mkReader { r_out : output; r_pwb : N (* position_within_block: u8 *) }.

Definition reader_new (o : output) : reader := mkReader o 0.

Definition with_counter (o : output) (c : N) : output :=
  mkOutput (o_cv o) (o_block o) (o_blen o) c (o_flags o).

(* fill_one_block with a destination of n bytes: returns the bytes written *)
Definition fill_one_block (p : platform) (r : reader) (n : N) : res (reader * list N) :=
  let block := out_root_output_block p (r_out r) in
  assert! (r_pwb r <=? nlen block) code 60 ;;                       (* &output_block[pwb..] *)
  let output_bytes := skipn (N.to_nat (r_pwb r)) block in
  let take := N.min n (nlen output_bytes) in
  pwb <- mi_add 8 (r_pwb r) take ;;
  if pwb =? rs_BLOCK_LEN then
    c <- mi_add 64 (o_ctr (r_out r)) 1 ;;
    Ok (mkReader (with_counter (r_out r) c) 0, firstn (N.to_nat take) output_bytes)
  else Ok (mkReader (r_out r) pwb, firstn (N.to_nat take) output_bytes).

Definition reader_fill (p : platform) (r : reader) (n : N) : res (reader * list N) :=
  if n =? 0 then Ok (r, []) else
  '(r, head, n) <- (if negb (r_pwb r =? 0) then
                      '(r', bs) <- fill_one_block p r n ;; Ok (r', bs, n - nlen bs)
                    else Ok (r, [], n)) ;;
  let full_blocks := n / rs_BLOCK_LEN in
  '(r, mid, n) <- (if 0 <? full_blocks then
                     assert! (r_pwb r =? 0) code 1500 ;;
                     let o := r_out r in
                     bs <- p_xof_many p (o_cv o) (o_block o) (o_blen o) (o_ctr o) (N.lor (o_flags o) rs_flag_ROOT)
                             full_blocks ;;
                     c <- mi_add 64 (o_ctr o) full_blocks ;;
                     Ok (mkReader (with_counter o c) (r_pwb r), bs, n - full_blocks * rs_BLOCK_LEN)
                   else Ok (r, [], n)) ;;
  if negb (n =? 0) then
    assert! (n <? rs_BLOCK_LEN) code 1501 ;;
    '(r, tail) <- fill_one_block p r n ;;
    assert! (nlen tail =? n) code 1502 ;;
    Ok (r, head ++ mid ++ tail)
  else Ok (r, head ++ mid).

Definition reader_position (r : reader) : res N := rs_position (o_ctr (r_out r)) (r_pwb r).

Definition reader_set_position (r : reader) (position : N) : res reader :=
  pwb <- rs_set_position_pwb position ;;
  c <- rs_set_position_ctr position ;;
  Ok (mkReader (with_counter (r_out r) c) pwb).

Inductive seek_from := SeekStart (x : N) | SeekCurrent (d : Z) | SeekEnd (d : Z).

(* Ok (Some pos) = Ok(pos); Ok None = Err(InvalidInput) *)
Definition reader_seek (r : reader) (pos : seek_from) : res (reader * option N) :=
  let max_position : Z := Z.of_N (2 ^ 64 - 1) in
  match pos with
  | SeekEnd _ => Ok (r, None)
  | SeekStart x =>
      r' <- reader_set_position r (Z.to_N (Z.min (Z.of_N x) max_position)) ;;
      q <- reader_position r' ;; Ok (r', Some q)
  | SeekCurrent d =>
      cur <- reader_position r ;;
      let target := (Z.of_N cur + d)%Z in
      if (target <? 0)%Z then Ok (r, None)
      else
        r' <- reader_set_position r (Z.to_N (Z.min target max_position)) ;;
        q <- reader_position r' ;; Ok (r', Some q)
  end.
