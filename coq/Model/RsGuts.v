(* Model of the deprecated guts API (src/guts.rs): ChunkState::{new, len, update,
   finalize}, parent_cv -- regular hash mode only (key = IV, flags = 0). *)
From Coq Require Import NArith List Bool.
From V Require Import Base.Res Base.Word Base.MachInt gen.GenConsts gen.GenFormulas
  Spec.Tree Model.Platform Model.RsChunk Model.RsDebug.
Import ListNotations.
Open Scope N_scope.

Definition guts_new (chunk_counter : N) : chunk_state := cs_new rs_IV chunk_counter 0.
Definition guts_len (cs : chunk_state) : res N := cs_count cs.
Definition guts_update (p : platform) (cs : chunk_state) (input : list N) : res chunk_state := cs_update p cs input.
Definition guts_finalize (p : platform) (cs : chunk_state) (is_root : bool) : res (list N) :=
  let o := cs_output cs in
  if is_root then out_root_hash p o else Ok (out_chaining_value p o).

Definition guts_parent_cv (p : platform) (left_child right_child : list N) (is_root : bool) : res (list N) :=
  let o := parent_output rs_IV 0 left_child right_child in
  if is_root then out_root_hash p o else Ok (out_chaining_value p o).

(* a whole guts::ChunkState case: lens after each update, the Debug string, the final hash *)
Fixpoint guts_feed (p : platform) (cs : chunk_state) (pieces : list (list N)) (acc : list N)
  : res (chunk_state * list N) :=
  match pieces with
  | [] => Ok (cs, rev acc)
  | x :: tl => cs' <- guts_update p cs x ;; l <- guts_len cs' ;; guts_feed p cs' tl (l :: acc)
  end.

(* #[derive(Debug)] on the tuple struct guts::ChunkState(crate::ChunkState) *)
Definition guts_debug (cs : chunk_state) (pname : list N) : res (list N) :=
  inner <- debug_chunk_state cs pname ;;
  Ok ([67; 104; 117; 110; 107; 83; 116; 97; 116; 101; 40] (* "ChunkState(" *) ++ inner ++ [41]).
