"""C05: every executable SIMD kernel flavour computes the portable kernel (kernel-level correspondence)."""
from props import kern

RULE = ("kernel calls compress_in_place / compress_xof / hash_many / xof_many with: block_len 0..64 exhaustively; flags "
        "0..255 exhaustively on one block; counters {0, 1, 2^32-k, 2^32, 2^33-k, 2^63, 2^64-1-N-k} for k in 0..17 (N = "
        "inputs/blocks of the call); hash_many num_inputs 0..33 (= 2*16+1) x blocks {1,16} x increment yes/no; "
        "(flags_start, flags_end) in {(CHUNK_START, CHUNK_END), (0, 0), random}; input alignment offsets 0..15 and 63; "
        "xof_many 1..35 blocks (and 0).  One argument list, evaluated once by the extracted portable kernel model "
        "(Portable.compress_in_place / compress_xof / hash_many, Platform.portable_xof_many), run on every executable "
        "flavour x SIMD level: Rust crate builds default (assembly via FFI), prefer_intrinsics (Rust SSE2/SSE4.1/AVX2 "
        "intrinsics + C AVX-512 intrinsics), pure (Rust intrinsics, no AVX-512) through blake3::platform::Platform on "
        "an explicit platform; C intrinsics; Unix assembly; Windows-GNU assembly through an ms_abi trampoline. "
        "Non-trivial = distinct argument tuple with a partial block, a counter >= 2^32-18, >= 2 inputs or >= 2 output "
        "blocks.")
MODELLED = ["vector kernels are not modelled instruction by instruction: each is compared, as a black box, with the "
            "portable kernel model on the argument lattice above (PlatformOK is the interface the other proofs use)",
            "NEON / wasm32 kernels: not executable on this host, not covered"]
ASSUMPTIONS = ["counter + number of inputs/blocks <= 2^64-1 (beyond: u64 overflow, debug panic in the portable code)",
               "host CPU supports SSE2..AVX-512F/VL (levels the host lacks print SKIP and are counted as skipped)"]
TRUSTED_EXTRA = ["harness/c/driver.c + trampoline.S (register/ABI checking call trampoline), gcc as assembler of the "
                 "Windows-GNU files into ELF objects (only `.section .rdata` -> `.rodata`, symbols prefixed win_)"]

RS_FLAVOURS = ["default", "prefer_intrinsics", "pure"]


def correspondence(ctx):
    drv = ctx.need_model()
    if drv is None:
        return
    args = kern.gen_args(ctx.seed, ctx.tier)
    ncomp = sum(kern.compressions(k, a) for k, a in args)
    ctx.log("kernel argument tuples: %d (%d model compressions)" % (len(args), ncomp))
    mres = kern.model_results(ctx, drv, args)
    bad_model = [i for i, m in enumerate(mres) if m.startswith(("MISSING", "CRASH", "PANIC", "OUTOFFUEL", "STACK"))]
    if bad_model:
        ctx.broken.append("model could not evaluate %d kernel cases, e.g. %s %s -> %s" %
                          (len(bad_model), args[bad_model[0]][0], args[bad_model[0]][1], mres[bad_model[0]]))
    flav = {}
    # Rust crate: three build flavours
    profiles = ["debug"] + (["release"] if ctx.tier == "thorough" else [])
    for fl in RS_FLAVOURS:
        for profile in profiles:
            b = ctx.need_harness(fl, profile)
            if b:
                flav["rs-%s/%s" % (fl, profile)] = kern.run_flavour(
                    ctx, "kernels", "rs-%s/%s" % (fl, profile), args, mres, kern.rs_runner(b), kern.RS_COMBOS, profile)
    # C intrinsics
    b = kern.need_c(ctx, "intr")
    if b:
        flav["c-intrinsics"] = kern.run_flavour(ctx, "kernels", "c-intr", args, mres, kern.c_runner(b),
                                                kern.C_INTR_COMBOS)
    # Unix assembly + Windows-GNU assembly (ms_abi)
    b = kern.need_c(ctx, "asm")
    if b:
        flav["c-asm+winasm"] = kern.run_flavour(ctx, "kernels", "c-asm", args, mres, kern.c_runner(b),
                                                kern.C_ASM_COMBOS)
    # every executable flavour x level must actually have been compared
    want = {"rs-default/debug": ["%s/rs" % i for i in kern.IMPLS],
            "rs-prefer_intrinsics/debug": ["%s/rs" % i for i in kern.IMPLS],
            "rs-pure/debug": ["%s/rs" % i for i in kern.IMPLS[:-1]],
            "c-intrinsics": ["%s/c" % i for i in kern.IMPLS],
            "c-asm+winasm": ["%s/%s" % (i, f) for f in ("asm", "winasm") for i in kern.IMPLS[1:]]}
    for k, impls in want.items():
        for i in impls:
            if k in flav and flav[k]["per_impl"].get(i, {}).get("compared", 0) == 0:
                ctx.broken.append("configuration not reached: %s %s (no kernel call compared)" % (k, i))
    ctx.extra_cov = {"flavours": {k: {"calls": v["cases"], "skipped": v["skipped"], "compared": v["compared"],
                                      "disagreements": v["disagreements"], "per_impl": v["per_impl"]}
                                  for k, v in flav.items()},
                     "argument_tuples": len(args), "model_compressions": ncomp}


def classify(f):
    return None


def replay(path):
    import json
    import verif
    f = json.load(open(path))
    print("case:", f.get("case"))
    print("recorded model:", f.get("model"))
    print("recorded impl :", f.get("impl"), "build:", f.get("build"))
    drv, _ = verif.build_model()
    if drv and f.get("case"):
        print("model now     :", verif.run_model(drv, ["r " + f["case"]]).get("r"))
    return 0
