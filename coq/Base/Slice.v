(* List semantics of the slice / iterator operations of code translated statement by statement (gen/GenLibWide.v,
   gen/GenCHasherWide.v):
     s.chunks_exact(n)            sl_chunks_exact n s : (the full n-byte pieces in order, the remainder);
                                  `for x in &mut it` runs over the pieces, it.remainder() is the second component
     s.split_at(k)                (firstn k s, skipn k s) after the bounds assert
     at_code c r                  the checked operation r with its Panic code replaced by the code of the source site
                                  (the site numbering of the hand-written models); not translated from anything *)
From Coq Require Import NArith List Lia Arith.
From V Require Import Base.Res.
Import ListNotations.
Open Scope N_scope.

Fixpoint sl_chunks_exact_go (fuel : nat) (n : nat) (l : list N) : list (list N) * list N :=
  match fuel with
  | O => ([], l)
  | S fuel' =>
      if Nat.ltb (length l) n then ([], l)
      else let '(cs, r) := sl_chunks_exact_go fuel' n (skipn n l) in (firstn n l :: cs, r)
  end.

Definition sl_chunks_exact (n : N) (l : list N) : list (list N) * list N :=
  sl_chunks_exact_go (S (Nat.div (length l) (N.to_nat n))) (N.to_nat n) l.

Definition at_code {A : Type} (c : N) (r : res A) : res A :=
  match r with Ok a => Ok a | Panic _ => Panic c | OutOfFuel => OutOfFuel end.

(* a[i] = v for an array of pointers (`const uint8_t *a[N]`: a list of N byte lists); out of range: unchanged (the
   translated code asserts i < N first) *)
Fixpoint pa_set {A : Type} (s : list A) (i : nat) (v : A) : list A :=
  match s, i with
  | [], _ => []
  | _ :: tl, O => v :: tl
  | h :: tl, S i' => h :: pa_set tl i' v
  end.
