(* C07 (PLACEHOLDER, to be replaced by the real theorems): the one-shot hash of the model
   never panics (every index / assert / overflow check of the modelled code is an assert!
   of the model, so Ok-ness is the no-panic claim). *)
From Coq Require Import NArith List Bool.
From V Require Import Base.Res Base.Word Spec.Compress Spec.Tree Spec.Blake3 Model.Portable Model.Platform Model.RsWide Proofs.FormulasP Proofs.C01P gen.GenFormulas.
Import ListNotations.
Open Scope N_scope.

Theorem C07_hash_ok : forall p, PlatformOK p -> forall input,
  len input < 2 ^ 64 -> is_ok (rs_hash p input) = true.
Proof.
  intros p Hp input H. rewrite (rs_hash_spec p Hp input H). reflexivity.
Qed.

Print Assumptions C07_hash_ok.
