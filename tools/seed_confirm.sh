#!/bin/bash
# Confirm a sub-agent's seeded change in its scratch worktree /tmp/mut_<name>:
#  (1) the recorded patch is exactly the worktree's diff, (2) the demonstration fails with it,
#  (3) the repository's own test suite still passes with it, (4) the demonstration passes without it.
# Then copy patch.diff, demo/, meta.json to /verif/seeded/<name>/ with a confirm.log.
# usage: [WT=<worktree>] [DEMO_CMD=<shell command run in mutation/demo>] tools/seed_confirm.sh <name> [cargo subcommand: run|test|...]
set -u
name=$1; W=${WT:-/tmp/mut_$name}; M=$W/mutation; V=/verif
export CARGO_NET_OFFLINE=true CARGO_TARGET_DIR=$W/target
out=$V/seeded/$name; mkdir -p $out; log=$out/confirm.log; : > $log
say() { echo "$@" | tee -a $log; }
cd $W || exit 2
git diff > /tmp/seed_$name.diff
if ! diff -q <(grep -v '^index ' /tmp/seed_$name.diff) <(grep -v '^index ' $M/patch.diff) >/dev/null; then
  say "NOTE: patch.diff differs textually from the worktree diff; using the worktree diff"
  cp /tmp/seed_$name.diff $M/patch.diff
fi
rm -f /tmp/seed_$name.diff
sub=${2:-run}
# DEMO_CMD (run inside mutation/demo) overrides `cargo <sub> --offline`
run_demo() { if [ -n "${DEMO_CMD:-}" ]; then timeout 1800 bash -c "$DEMO_CMD"; else timeout 1800 cargo $sub --offline; fi; }
demo() { (cd $M/demo && run_demo 2>&1 | tail -25); return ${PIPESTATUS[0]}; }
say "== demo WITH the change"; demo >> $log 2>&1; (cd $M/demo && run_demo >/dev/null 2>&1); rc_with=$?
say "rc_with=$rc_with"
say "== repository test suite WITH the change (cargo test --workspace --no-fail-fast --offline)"
timeout 3000 cargo test --workspace --no-fail-fast --offline 2>&1 | grep -E "^test result|FAILED|failed" | tee -a $log
rc_tests=${PIPESTATUS[0]}; say "rc_tests=$rc_tests"
git apply -R $M/patch.diff   # (not git stash: the stash ref is shared by all worktrees)
say "== demo WITHOUT the change"; (cd $M/demo && run_demo 2>&1 | tail -8) >> $log 2>&1
(cd $M/demo && run_demo >/dev/null 2>&1); rc_without=$?
git apply $M/patch.diff
say "rc_without=$rc_without"
if [ $rc_with -ne 0 ] && [ $rc_tests -eq 0 ] && [ $rc_without -eq 0 ]; then
  say "CONFIRMED $name"
  cp $M/patch.diff $out/patch.diff; cp $M/meta.json $out/meta.json
  rm -rf $out/demo; cp -r $M/demo $out/demo; rm -rf $out/demo/target
  exit 0
else
  say "NOT-CONFIRMED $name"; exit 1
fi
