(* Facts about the integer formulas that tools/gen_coq.py translates from the
   repository's source text (gen/GenFormulas.v).  These obligations look at
   generated text only, so an edit to a formula breaks them directly. *)
From V Require Import Proofs.ListP.
From V Require Import Base.Res Base.Word Base.MachInt gen.GenConsts gen.GenFormulas Spec.Tree Proofs.TreeP.
Open Scope N_scope.

Lemma two64 : 2 ^ 64 = 18446744073709551616.
Proof. reflexivity. Qed.

Lemma pow2_unique e1 e2 n : 2 ^ e1 < n <= 2 ^ (e1 + 1) -> 2 ^ e2 < n <= 2 ^ (e2 + 1) -> e1 = e2.
Proof.
  intros [A1 A2] [B1 B2].
  assert (H1 : 2 ^ e1 < 2 ^ (e2 + 1)) by lia.
  assert (H2 : 2 ^ e2 < 2 ^ (e1 + 1)) by lia.
  apply N.pow_lt_mono_r_iff in H1; [|lia]. apply N.pow_lt_mono_r_iff in H2; [|lia]. lia.
Qed.

Lemma npot_spec m : 1 < m -> exists e, npot m = 2 ^ e /\ 2 ^ e < 2 * m /\ m <= 2 ^ e.
Proof.
  intros H. unfold npot. destruct m as [|pm] eqn:E; [lia|]. rewrite <- E in *.
  exists (N.log2_up m). split; [reflexivity|].
  pose proof (N.log2_up_spec m H) as [H1 H2].
  split; [|exact H2].
  assert (Hpos : 0 < N.log2_up m) by (apply N.log2_up_pos; exact H).
  replace (N.log2_up m) with (N.succ (N.pred (N.log2_up m))) at 1 by lia.
  rewrite N.pow_succ_r'. lia.
Qed.

(* hazmat::left_subtree_len, as written in the source, on all of u64 above CHUNK_LEN *)
Theorem rs_left_subtree_len_spec n :
  1024 < n -> n < 2 ^ 64 -> rs_left_subtree_len n = Ok (left_len n).
Proof.
  intros Hlo Hhi. rewrite two64 in Hhi.
  unfold rs_left_subtree_len, mu, mb, mi_add, mi_sub, mi_div, mi_npot, fits. cbn [bind].
  replace (1 <=? n) with true by lia. cbn [bind].
  change (2 =? 0) with false. cbn iota. cbn [bind].
  replace ((n - 1) / 2 + 1 <? 2 ^ 64) with true by (rewrite two64; lia). cbn [bind].
  set (m := (n - 1) / 2 + 1).
  destruct (npot_spec m ltac:(unfold m; lia)) as (e & He & He1 & He2).
  destruct (left_len_spec n Hlo) as (a & Ha & Ha1 & Ha2).
  assert (Heq : e = 10 + a).
  { apply (pow2_unique e (10 + a) n).
    - rewrite N.add_1_r, N.pow_succ_r'.
      destruct (N.eq_dec e 0) as [->|He0]; [change (2 ^ 0) with 1 in *; unfold m in *; lia|].
      replace e with (N.succ (N.pred e)) in * by lia. rewrite ?N.pow_succ_r' in *.
      unfold m in *. lia.
    - replace (10 + a + 1) with (10 + (a + 1)) by lia.
      rewrite (N.pow_add_r 2 10 a), (N.pow_add_r 2 10 (a + 1)). change (2 ^ 10) with 1024. lia. }
  rewrite He. assert (Hv : 2 ^ e = left_len n).
  { rewrite Ha, Heq, N.pow_add_r. reflexivity. }
  rewrite Hv.
  replace (left_len n <? 2 ^ 64) with true by (rewrite two64; lia).
  reflexivity.
Qed.

(* largest_power_of_two_leq (lib.rs): 2^(log2 n) for n >= 1 *)
Theorem rs_largest_power_of_two_leq_spec n :
  1 <= n -> n < 2 ^ 64 -> rs_largest_power_of_two_leq n = Ok (2 ^ N.log2 n).
Proof.
  intros Hlo Hhi. rewrite two64 in Hhi.
  unfold rs_largest_power_of_two_leq, mu, mb, mi_add, mi_div, mi_npot, fits. cbn [bind].
  change (2 =? 0) with false. cbn iota. cbn [bind].
  replace (n / 2 + 1 <? 2 ^ 64) with true by (rewrite two64; lia). cbn [bind].
  pose proof (N.log2_spec n ltac:(lia)) as [L1 L2]. rewrite N.pow_succ_r' in L2.
  destruct (N.eq_dec n 1) as [->|Hn1]; [reflexivity|].
  set (m := n / 2 + 1).
  destruct (npot_spec m ltac:(unfold m; lia)) as (e & He & He1 & He2).
  assert (Heq : e = N.log2 n).
  { apply (pow2_unique e (N.log2 n) (n + 1)).
    - rewrite (N.add_1_r e), N.pow_succ_r'.
      destruct (N.eq_dec e 0) as [->|He0]; [change (2 ^ 0) with 1 in *; unfold m in *; lia|].
      replace e with (N.succ (N.pred e)) in * by lia. rewrite ?N.pow_succ_r' in *.
      unfold m in *. lia.
    - rewrite (N.add_1_r (N.log2 n)), N.pow_succ_r'. lia. }
  rewrite He, Heq.
  replace (2 ^ N.log2 n <? 2 ^ 64) with true by (rewrite two64; lia). reflexivity.
Qed.

Lemma rs_right_chunk_counter_spec ctr l :
  l < 2 ^ 64 -> ctr + l / 1024 < 2 ^ 64 -> rs_right_chunk_counter ctr l = Ok (ctr + l / 1024).
Proof.
  intros H1 H2. unfold rs_right_chunk_counter, mu, mb, mi_add, mi_div, mi_cast, fits. cbn [bind].
  change rs_CHUNK_LEN with 1024. change (1024 =? 0) with false. cbn iota. cbn [bind].
  rewrite N.land_ones. rewrite N.mod_small by (rewrite two64 in *; lia).
  replace (ctr + l / 1024 <? 2 ^ 64) with true by lia. reflexivity.
Qed.

(* ---- more formulas of lib.rs / hazmat.rs (translated source text) --------------------------- *)
Lemma cast64_small x : x < 2 ^ 64 -> N.land x (N.ones 64) = x.
Proof. intros H. rewrite N.land_ones. apply N.mod_small. exact H. Qed.

Lemma rs_input_offset_spec c : c * 1024 < 2 ^ 64 -> rs_input_offset c = Ok (c * 1024).
Proof.
  intros H. unfold rs_input_offset, mb, mu, mi_mul, mi_cast, fits. cbn [bind].
  change rs_CHUNK_LEN with 1024. change (N.land 1024 (N.ones 64)) with 1024.
  replace (c * 1024 <? 2 ^ 64) with true by lia. reflexivity.
Qed.

Lemma rs_count_so_far_spec c : c * 1024 < 2 ^ 64 -> rs_count_so_far c = Ok (c * 1024).
Proof.
  intros H. unfold rs_count_so_far, mb, mu, mi_mul, mi_cast, fits. cbn [bind].
  change rs_CHUNK_LEN with 1024. change (N.land 1024 (N.ones 64)) with 1024.
  replace (c * 1024 <? 2 ^ 64) with true by lia. reflexivity.
Qed.

Lemma ones_pred e : N.ones e = 2 ^ e - 1.
Proof. rewrite N.ones_equiv. lia. Qed.

(* the shrink-loop condition on a power-of-two subtree_len: count_so_far mod subtree_len <> 0 *)
Lemma rs_shrink_cond_spec e q : e < 64 ->
  rs_shrink_cond (2 ^ e) q = Ok (negb (q mod 2 ^ e =? 0)).
Proof.
  intros He. unfold rs_shrink_cond, mcmp, mb, mu, mi_and, mi_sub, mi_cast, nneb. cbn [bind].
  pose proof (pow2_pos e) as Hp. replace (1 <=? 2 ^ e) with true by lia. cbn [bind].
  assert (H64 : 2 ^ e < 2 ^ 64) by (apply N.pow_lt_mono_r; lia).
  rewrite cast64_small by lia. rewrite <- ones_pred, N.land_comm, N.land_ones. reflexivity.
Qed.

Lemma rs_subtree_chunks_spec s : s < 2 ^ 64 -> rs_subtree_chunks s = Ok (s / 1024).
Proof.
  intros H. unfold rs_subtree_chunks, mu, mb, mi_div, mi_cast. cbn [bind].
  change rs_CHUNK_LEN with 1024. change (1024 =? 0) with false. cbn iota. cbn [bind].
  rewrite cast64_small; [reflexivity|]. rewrite two64 in *. lia.
Qed.

Lemma rs_right_cv_counter_spec ctr sc : ctr + sc / 2 < 2 ^ 64 -> rs_right_cv_counter ctr sc = Ok (ctr + sc / 2).
Proof.
  intros H. unfold rs_right_cv_counter, mb, mi_add, mi_div, fits. cbn [bind].
  change (2 =? 0) with false. cbn iota. cbn [bind].
  replace (ctr + sc / 2 <? 2 ^ 64) with true by lia. reflexivity.
Qed.

Lemma rs_count_spec ctr init c : init <= ctr -> (ctr - init) * 1024 + c < 2 ^ 64 ->
  rs_count ctr init c = Ok ((ctr - init) * 1024 + c).
Proof.
  intros Hi H. unfold rs_count, mb, mu, mi_add, mi_mul, mi_sub, mi_cast, fits. cbn [bind].
  replace (init <=? ctr) with true by lia. cbn [bind].
  change rs_CHUNK_LEN with 1024. change (N.land 1024 (N.ones 64)) with 1024.
  replace ((ctr - init) * 1024 <? 2 ^ 64) with true by lia. cbn [bind].
  rewrite cast64_small by lia.
  replace ((ctr - init) * 1024 + c <? 2 ^ 64) with true by lia. reflexivity.
Qed.

(* trailing zeros *)
Lemma tz_pos_spec q : exists odd, N.pos q = 2 ^ tz_pos q * (2 * odd + 1).
Proof.
  induction q as [q IH|q IH|].
  - exists (N.pos q). cbn [tz_pos]. change (2 ^ 0) with 1. lia.
  - destruct IH as [o Ho]. exists o. cbn [tz_pos]. rewrite N.add_1_l, N.pow_succ_r'.
    change (N.pos q~0) with (2 * N.pos q). rewrite Ho. lia.
  - exists 0. reflexivity.
Qed.

Lemma tz_divides W c : 0 < c -> (2 ^ tz W c | c) /\ 2 ^ tz W c <= c.
Proof.
  intros H. destruct c as [|q]; [lia|]. cbn [tz].
  destruct (tz_pos_spec q) as [o Ho]. split.
  - exists (2 * o + 1). rewrite Ho. lia.
  - pose proof (pow2_pos (tz_pos q)). nia.
Qed.

(* hazmat::max_subtree_len, as written in the source *)
Theorem rs_max_subtree_len_spec c : 0 < c -> c < 2 ^ 54 ->
  rs_max_subtree_len (c * 1024) = Ok (Some (1024 * 2 ^ tz 64 c)).
Proof.
  intros Hc Hlt. assert (H54 : 2 ^ 54 = 18014398509481984) by reflexivity.
  unfold rs_max_subtree_len. replace (c * 1024 =? 0) with false by lia.
  unfold mb, mu, mi_rem, mi_div, mi_shl, mi_mul, mi_tz, mi_cast, fits. cbn [bind].
  change rs_CHUNK_LEN with 1024. change (N.land 1024 (N.ones 64)) with 1024.
  change (1024 =? 0) with false. cbn iota. cbn [bind].
  replace (c * 1024 mod 1024) with 0 by (rewrite N.mod_mul; lia).
  change (0 =? 0) with true. cbn [check bind].
  rewrite N.div_mul by lia.
  destruct (tz_divides 64 c Hc) as [Hd Hle].
  assert (Ht : tz 64 c < 54).
  { apply (N.pow_lt_mono_r_iff 2); lia. }
  replace (tz 64 c <? 64) with true by lia. cbn [bind].
  rewrite N.shiftl_1_l. rewrite cast64_small by (apply N.pow_lt_mono_r; lia).
  replace (2 ^ tz 64 c * 1024 <? 2 ^ 64) with true by (rewrite two64; lia). cbn [bind].
  f_equal. f_equal. lia.
Qed.

Theorem rs_max_subtree_len_zero : rs_max_subtree_len 0 = Ok None.
Proof. reflexivity. Qed.
