/*
 * Harness implementation of the join seam that blake3.c calls when compiled
 * with -DBLAKE3_USE_TBB (the real one is /repo/c/blake3_tbb.cpp, which needs
 * oneTBB).  Contract (blake3_tbb.cpp): run
 *     *l_n = blake3_compress_subtree_wide(l_input, l_input_len, key, l_chunk_counter, flags, l_cvs, use_tbb);
 *     *r_n = blake3_compress_subtree_wide(r_input, r_input_len, key, r_chunk_counter, flags, r_cvs, use_tbb);
 * sequentially when !use_tbb, otherwise in any order / concurrently.
 *
 * With use_tbb the order is taken from a script: a string of digits consumed
 * from a global (atomic) cursor, one digit per join:
 *     0 = left first, then right (same thread)
 *     1 = right first, then left (same thread)
 *     2 = both halves on two fresh pthreads, joined before returning
 * An exhausted (or absent) script means 0.  If a thread cannot be created the
 * half runs on the calling thread.
 */
#include <pthread.h>
#include <stdatomic.h>
#include <stdbool.h>
#include <stddef.h>
#include <stdint.h>
#include <string.h>

#include "blake3_impl.h"

#if !defined(BLAKE3_USE_TBB)
#error "compile with -DBLAKE3_USE_TBB"
#endif

static _Atomic(const char *) g_script;
static _Atomic size_t g_script_len;
static _Atomic size_t g_cursor;
static _Atomic unsigned long g_calls;

void tbbseam_set_script(const char *script) {
  atomic_store(&g_script, script);
  atomic_store(&g_script_len, script ? strlen(script) : 0);
  atomic_store(&g_cursor, 0);
}

unsigned long tbbseam_calls(void) { return atomic_load(&g_calls); }

static int next_mode(void) {
  const char *s = atomic_load(&g_script);
  size_t n = atomic_load(&g_script_len);
  if (!s) return 0;
  size_t i = atomic_fetch_add(&g_cursor, 1);
  if (i >= n) return 0;
  char c = s[i];
  return (c == '1' || c == '2') ? c - '0' : 0;
}

struct half {
  const uint8_t *input;
  size_t input_len;
  const uint32_t *key;
  uint64_t chunk_counter;
  uint8_t flags;
  uint8_t *cvs;
  size_t *n;
  bool use_tbb;
};

static void *run_half(void *p) {
  struct half *h = p;
  *h->n = blake3_compress_subtree_wide(h->input, h->input_len, h->key, h->chunk_counter, h->flags, h->cvs,
                                       h->use_tbb);
  return NULL;
}

void blake3_compress_subtree_wide_join_tbb(
    // shared params
    const uint32_t key[8], uint8_t flags, bool use_tbb,
    // left-hand side params
    const uint8_t *l_input, size_t l_input_len, uint64_t l_chunk_counter, uint8_t *l_cvs, size_t *l_n,
    // right-hand side params
    const uint8_t *r_input, size_t r_input_len, uint64_t r_chunk_counter, uint8_t *r_cvs, size_t *r_n) {
  struct half l = {l_input, l_input_len, key, l_chunk_counter, flags, l_cvs, l_n, use_tbb};
  struct half r = {r_input, r_input_len, key, r_chunk_counter, flags, r_cvs, r_n, use_tbb};
  atomic_fetch_add(&g_calls, 1);
  if (!use_tbb) {
    run_half(&l);
    run_half(&r);
    return;
  }
  switch (next_mode()) {
  case 1:
    run_half(&r);
    run_half(&l);
    break;
  case 2: {
    pthread_t tl, tr;
    int okl = pthread_create(&tl, NULL, run_half, &l) == 0;
    int okr = pthread_create(&tr, NULL, run_half, &r) == 0;
    if (!okr) run_half(&r);
    if (!okl) run_half(&l);
    if (okr) pthread_join(tr, NULL);
    if (okl) pthread_join(tl, NULL);
    break;
  }
  default:
    run_half(&l);
    run_half(&r);
    break;
  }
}
