"""C13: the b3sum checkfile format: print -> parse round trip, injectivity, total parser, exact error set."""
import json
import os
import verif
from props.common import Rng, number

RULE = ("real filepath_to_string / hash_one_input line layouts / parse_check_line / unescape / hex_half_byte / "
        "check_for_invalid_characters (b3sum/src/main.rs compiled by include!, probed through harness/b3sum b3probe) "
        "against the extracted Model/B3sum.v: every single-scalar insertion, substitution and deletion (alphabet of 27 "
        "scalars: space ) = ( B backslash CR LF TAB n r, lower and upper hex digits, NUL, U+FFFD, 2/3/4-byte scalars) "
        "at every position of the valid lines of all four kinds (plain, escaped, --tag, escaped --tag; LF, CRLF, no "
        "terminator); print->parse round trips of OS paths (double spaces, ') = ', 'BLAKE3 (' prefixes, backslashes, "
        "CR, LF, blanks, invalid UTF-8) in both forms; byte strings over the UTF-8 boundary bytes for the lossy decoder; "
        "random lines; the REAL binary's printed lines (plain and --tag) for files with special names against the model's "
        "print_line, and the real --check on that real output. Two runs: the model configuration that matches the code under test (model tie) and the repaired "
        "configuration for which the theorems are proved (specification). Non-trivial = distinct case whose model "
        "result is not the plain format error.")
MODELLED = ["String::from_utf8_lossy (core::str::lossy) as Model.B3sum.utf8_lossy; str::{split_once, rsplit_once, "
            "strip_prefix, trim_end_matches, replace} as list functions; anyhow errors as an enumeration",
            "cfg!(windows) branches are not modelled (Unix only)"]
ASSUMPTIONS = ["Unix: OsStr is a byte string; checkfile lines are UTF-8 (read_line rejects anything else, see C12)"]
TRUSTED_EXTRA = ["harness/b3sum: b3sum/src/main.rs is compiled unmodified via include!; the `wild` crate is replaced by "
                 "a shim returning std::env::args_os() (its Unix behaviour); clap without `wrap_help`"]
EXTRA_COQ_TARGETS = ["Proofs/B3sumRefuted.vo"]

H1 = "db9567190cd45180b6d81d4cf23912a0f498112986794419d0dd103692f603a1"
H2 = "0123456789abcdef0123456789abcdef0123456789abcdeffedcba9876543210"
H3 = "00000000000000000000000000000000000000000000000000000000000000ff"

ALPHABET = [0x20, 0x29, 0x3D, 0x28, 0x42, 0x5C, 0x0D, 0x0A, 0x09, 0x6E, 0x72, 0x30, 0x39, 0x61, 0x66, 0x67,
            0x41, 0x46, 0x00, 0xFFFD, 0xE9, 0x7FF, 0x20AC, 0xFFFF, 0x1F600, 0x10FFFF, 0x2F]

PATHS = ["a", "a b", "a  b", "dir/f", ") = ", "BLAKE3 (x", "BLAKE3 (x) = y", "x\\y", "x\ny", "x\ry", " lead", "trail ",
         "\u00e9", "\u20ac", "\U0001F600", "t\tb", "a) = b  c", "\\", "  ", "\\n", H2, "a\r\nb", "BLAKE3 (",
         ") = " + H1, H1 + "  x"]

# OS paths (bytes) for the round-trip cases, including invalid UTF-8
BPATHS = [p.encode() for p in PATHS] + [
    b"y\xffy", b"\xff", b"\xe2\x82", b"\xf0\x9f\x98", b"\xed\xa0\x80", b"\xc0\xaf", b"a\x00b", "\ufffd".encode(),
    b"\xf4\x90\x80\x80", b"a  \xffb", b"x\\\xfe\ny", b" ", b"-", b"", b"a\\", b"\\\\", b"\r", b"\n", b"a \n b",
    "caf\u00e9  \u20ac) = \U0001F600".encode()]

UTF8_BOUNDARY = [0x00, 0x41, 0x7F, 0x80, 0x8F, 0x90, 0x9F, 0xA0, 0xBF, 0xC0, 0xC1, 0xC2, 0xDF, 0xE0, 0xE1, 0xEC, 0xED,
                 0xEE, 0xEF, 0xF0, 0xF1, 0xF3, 0xF4, 0xF5, 0xFF, 0x5C, 0x0A, 0x0D]


def hx(b):
    return bytes(b).hex() if len(b) else "-"


def enc(scalars):
    return "".join(chr(c) for c in scalars).encode("utf-8", "surrogatepass")


def py_print(path, h, tag):
    """generator-side copy of the output format; only used to make valid base lines (the format itself is checked by
    the `rt` cases against the real code)"""
    esc = any(c in path for c in "\\\n\r")
    fs = path.replace("\\", "\\\\").replace("\n", "\\n").replace("\r", "\\r")
    body = ("BLAKE3 (%s) = %s" % (fs, h)) if tag else ("%s  %s" % (h, fs))
    return ("\\" if esc else "") + body


def base_lines(tier):
    lines = []
    for i, p in enumerate(PATHS):
        for tag in (False, True):
            h = (H1, H2, H3)[(i + tag) % 3]
            lines.append(py_print(p, h, tag))
    return lines if tier == "thorough" else lines[:42]


def gen_cases(seed, tier, cfg):
    rng = Rng(seed)
    out = []
    # 1. exhaustive single-scalar mutations of valid lines
    terms = ["", "\n", "\r\n"]
    bl = base_lines(tier)
    for li, line in enumerate(bl):
        sc = [ord(c) for c in line]
        term = [ord(c) for c in terms[li % 3]]
        out.append("parse %s %s" % (cfg, hx(enc(sc + term))))
        step = 1 if (tier == "thorough" or li < 14) else 3
        for pos in range(0, len(sc) + 1, step):
            for a in ALPHABET:
                out.append("parse %s %s" % (cfg, hx(enc(sc[:pos] + [a] + sc[pos:] + term))))
                if pos < len(sc):
                    out.append("parse %s %s" % (cfg, hx(enc(sc[:pos] + [a] + sc[pos + 1:] + term))))
            if pos < len(sc):
                out.append("parse %s %s" % (cfg, hx(enc(sc[:pos] + sc[pos + 1:] + term))))
    # 2. print -> parse round trips on OS paths
    for bi, bp in enumerate(BPATHS):
        for form in ("plain", "tag"):
            for term in ("lf", "crlf", "none"):
                out.append("rt %s %s %s %s %s" % (cfg, form, term, hx(bp), (H1, H2, H3)[bi % 3]))
        out.append("print plain %s %s" % (hx(bp), H1))
        out.append("print tag %s %s" % (hx(bp), H2))
        out.append("fts %s" % hx(bp))
    # random OS paths over the alphabet and raw bytes
    for k in range(3000 if tier == "thorough" else 400):
        n = rng.range(1, 12)
        if k % 2:
            bp = enc([rng.choice(ALPHABET) for _ in range(n)])
        else:
            bp = bytes(rng.choice(UTF8_BOUNDARY + [0x20, 0x29, 0x3D, 0x28, 0x42]) for _ in range(n))
        out.append("rt %s %s %s %s %s" % (cfg, rng.choice(["plain", "tag"]), rng.choice(["lf", "crlf", "none"]), hx(bp), H1))
    # 3. the lossy decoder: all pairs and triples over the UTF-8 boundary bytes, random quadruples
    for a in UTF8_BOUNDARY:
        out.append("fts %s" % hx([a]))
        for b in UTF8_BOUNDARY:
            out.append("fts %s" % hx([a, b]))
    trip = [(a, b, c) for a in UTF8_BOUNDARY for b in UTF8_BOUNDARY for c in UTF8_BOUNDARY]
    for t in (trip if tier == "thorough" else trip[::7]):
        out.append("fts %s" % hx(list(t) + [0x41]))
    for _ in range(40000 if tier == "thorough" else 3000):
        out.append("fts %s" % hx([rng.choice(UTF8_BOUNDARY) for _ in range(rng.range(4, 9))]))
    # 4. random lines: pieces of valid lines glued with alphabet characters, hash fields of every byte length near 64
    hexalpha = [ord(c) for c in "0123456789abcdef"]
    for _ in range(20000 if tier == "thorough" else 2500):
        kind = rng.below(4)
        if kind == 0:
            sc = [rng.choice(ALPHABET + hexalpha) for _ in range(rng.range(0, 90))]
        else:
            nhex = rng.choice([0, 1, 60, 61, 62, 63, 64, 64, 64, 65, 66])
            hf = [rng.choice(hexalpha) for _ in range(nhex)]
            for _ in range(rng.below(3)):
                if hf:
                    hf[rng.below(len(hf))] = rng.choice(ALPHABET)
            for _ in range(rng.below(2)):
                hf.append(rng.choice([0xE9, 0x20AC, 0x1F600]))
            path = [rng.choice(ALPHABET) for _ in range(rng.range(0, 6))]
            pre = [0x5C] if rng.chance(0.4) else []
            if kind == 1:
                sc = pre + hf + [0x20, 0x20] + path
            elif kind == 2:
                sc = pre + [ord(c) for c in "BLAKE3 ("] + path + [ord(c) for c in ") = "] + hf
            else:
                sc = pre + hf + [0x20] * rng.range(1, 3) + [ord(c) for c in "BLAKE3 ("] + path + [ord(c) for c in ") = "] + hf
        sc += [ord(c) for c in rng.choice(["", "\n", "\r\n", "\n\n", "\r", "\n\r"])]
        out.append("parse %s %s" % (cfg, hx(enc(sc))))
    # 5. helpers
    for a in ALPHABET + list(range(0x2F, 0x3B)) + list(range(0x60, 0x68)) + [0x40, 0x47, 0xFF10, 0x661]:
        out.append("half %d" % a)
    for _ in range(3000 if tier == "thorough" else 500):
        sc = [rng.choice([0x5C, 0x5C, 0x6E, 0x72, 0x61, 0x0A, 0x0D, 0xE9, 0x1F600, 0x00, 0xFFFD, 0x20]) for _ in range(rng.range(0, 7))]
        out.append("unescape %s" % hx(enc(sc)))
        out.append("inv %s" % hx(enc(sc)))
    # 6. regression corpus: the two defects of the unchanged tree
    out.append("rt %s tag lf %s %s" % (cfg, hx(b"a  b"), H1))
    out.append("parse %s %s" % (cfg, hx((H1[:62] + "\u00e9  c\n").encode())))
    out.append("parse %s %s" % (cfg, hx((H1[:60] + "\U0001F600  c\n").encode())))
    out.append("parse %s %s" % (cfg, hx(("BLAKE3 (c) = " + H1[:62] + "\u00e9").encode())))
    return number(list(dict.fromkeys(out)))


def nontrivial(rest, model_line):
    return not model_line.startswith("err format")


def probe_cfg(probe):
    """Which model configuration is the code under test? (tagged form tried first; unwrap turned into an error)"""
    lines = ["p0 rt 00 tag lf %s %s" % (hx(b"a  b"), H1),
             "p1 parse 00 %s" % hx((H1[:62] + "\u00e9  c").encode())]
    res = verif.run_lines(probe, lines, shards=1)
    tf = "1" if " ok " in " " + res.get("p0", "") + " " else "0"
    hu = "0" if res.get("p1", "").startswith("PANIC") else "1"
    return tf + hu


def probe_bin(b):
    return os.path.join(os.path.dirname(b), "b3probe") if b else None


def correspondence(ctx):
    drv = ctx.need_model()
    builds = [("default", "debug")]
    if ctx.tier == "thorough":
        builds.append(("default", "release"))
    for flavour, profile in builds:
        realbin = ctx.need_harness(flavour, profile, crate="b3sum", hooks=False)
        b = probe_bin(realbin)
        if b is None or drv is None:
            continue
        binary_lines(ctx, drv, realbin, flavour, profile)
        cfg = probe_cfg(b)
        ctx.log("code under test matches model configuration tagged_first=%s hex_unwrap_is_error=%s" % (cfg[0], cfg[1]))
        ctx.extra_cov = {"probed_configuration": {"tagged_first": cfg[0] == "1", "hex_unwrap_is_error": cfg[1] == "1"}}
        # (a) the model is a faithful model of the code that is there
        ctx.correspond("model-tie(cfg=%s)" % cfg, gen_cases(ctx.seed, ctx.tier, cfg), drv, b, profile=profile,
                       build=flavour, nontrivial=nontrivial)
        # (b) the code agrees with the configuration the theorems are proved for
        if cfg != "11":
            spec_compare(ctx, "specification(cfg=11)", gen_cases(ctx.seed, ctx.tier, "11"), drv, b, profile, flavour)


def norm_err(tokens):
    """the theorems speak of `an error for that line`: which message a malformed line gets is not part of C13"""
    t = tokens.split()
    for k in range(len(t) - 1):
        if t[k] == "err":
            return " ".join(t[:k + 1])
    return " ".join(t)


def spec_compare(ctx, name, cases, drv, probe, profile, flavour):
    """the real code against the configuration the C13 theorems are proved for (fixed_cfg), modulo the error message"""
    mres = verif.run_model(drv, cases)
    ires = verif.run_lines(probe, cases)
    nfail = 0
    for line in cases:
        cid, _, rest = line.partition(" ")
        ctx.evaluations += 1
        m, i = mres.get(cid, "MISSING"), ires.get(cid, "MISSING")
        if not verif.compare_line(norm_err(m), norm_err(i), profile):
            nfail += 1
            ctx.failures.append({"correspondence": name, "case": rest, "model": m, "impl": i,
                                 "build": f"{flavour}/{profile}"})
    ctx.stats[name + "/" + flavour + "/" + profile] = {"cases": len(cases), "disagreements": nfail}
    ctx.log(f"correspondence {name} [{flavour}/{profile}]: {len(cases)} cases, {nfail} disagreements")


def binary_lines(ctx, drv, binary, flavour, profile):
    """The lines the REAL binary prints (hash_one_input itself, not the harness's transcription print_line) for files
    with special names, in the plain and --tag forms, against the model's print_line; then the real --check on the
    real output (LF and CRLF line ends) must report every file OK: the printed line denotes the file it was printed for."""
    import shutil
    import subprocess
    import tempfile
    names = [bp for bp in BPATHS if bp and b"/" not in bp and b"\x00" not in bp and bp not in (b".", b"..", b"-")
             and len(bp) < 200]
    # pairs that differ only by escaping: the escaped spelling of one is the literal name of the other
    names += [b"lit\nl", b"lit\\nl", b"cr\rx", b"cr\\rx", b"bs\\\\x"]
    names = sorted(set(names))
    d = tempfile.mkdtemp(prefix="c13bin", dir=os.path.join("/verif", "build"))
    nfail = ncases = 0
    try:
        for i, nm in enumerate(names):
            with open(os.path.join(d.encode(), nm), "wb") as f:
                f.write(b"content of file %d\n" % i)
        for form in ("plain", "tag"):
            flag = ["--tag"] if form == "tag" else []
            listing = b""
            nvalid = 0
            want_lines = []
            mlines = []
            hashes = []
            for nm in names:
                r = subprocess.run([binary, "--no-names", "--", nm], cwd=d, stdout=subprocess.PIPE, stderr=subprocess.PIPE)
                hashes.append(r.stdout.decode().strip())
            mres = verif.run_model(drv, ["p%d print %s %s %s" % (i, form, hx(nm), h) for i, (nm, h) in enumerate(zip(names, hashes))])
            for i, nm in enumerate(names):
                r = subprocess.run([binary] + flag + ["--", nm], cwd=d, stdout=subprocess.PIPE, stderr=subprocess.PIPE)
                got = hx(r.stdout)
                want = mres.get("p%d" % i, "MISSING")
                ncases += 1
                ctx.evaluations += 1
                ctx.nontrivial.add("binary-line %s %s" % (form, hx(nm)))
                if got != want or r.returncode != 0:
                    nfail += 1
                    ctx.failures.append({"correspondence": "binary line layout", "case": "print %s %s %s" % (form, hx(nm), hashes[i]),
                                         "model": want, "impl": "%d %s" % (r.returncode, got), "build": "%s/%s" % (flavour, profile)})
                # the round trip is claimed for paths that are valid UTF-8 without U+FFFD (others print lossily and are
                # rejected by --check on purpose: covered by the probe cases above)
                try:
                    valid = "\ufffd" not in nm.decode("utf-8")
                except UnicodeDecodeError:
                    valid = False
                if valid:
                    listing += r.stdout
                    nvalid += 1
            for term in (b"\n", b"\r\n"):
                data = listing if term == b"\n" else listing.replace(b"\n", b"\r\n")
                r = subprocess.run([binary, "--check"], cwd=d, input=data, stdout=subprocess.PIPE, stderr=subprocess.PIPE)
                ncases += 1
                ctx.evaluations += 1
                ok_lines = [l for l in r.stdout.split(b"\n") if l.endswith(b": OK")]
                if r.returncode != 0 or len(ok_lines) != nvalid:
                    nfail += 1
                    ctx.failures.append({"correspondence": "binary round trip (print then --check)",
                                         "case": "b3sum %s <%d special names> | b3sum --check (%s)" % (" ".join(flag), nvalid, "CRLF" if term != b"\n" else "LF"),
                                         "model": "status 0, %d lines OK" % nvalid,
                                         "impl": "status %d, %d OK; %s" % (r.returncode, len(ok_lines), (r.stdout + r.stderr)[-600:].decode("utf-8", "replace")),
                                         "build": "%s/%s" % (flavour, profile)})
    finally:
        shutil.rmtree(d, ignore_errors=True)
    ctx.stats["binary-lines/%s/%s" % (flavour, profile)] = {"cases": ncases, "disagreements": nfail}
    ctx.log("binary line layout + round trip [%s/%s]: %d cases, %d disagreements" % (flavour, profile, ncases, nfail))


def classify(f):
    if not f.get("correspondence", "").startswith("specification"):
        return None
    if f["impl"].endswith("PANIC"):
        return "hex_unwrap_panic"
    if " ok " in f["model"] and f["impl"].endswith("err hash_length"):
        return "tag_double_space"
    return None


def replay(path):
    obj = json.load(open(path))
    case = obj.get("case")
    if not case:
        print("no failing input recorded:", obj.get("broken"))
        return 1
    drv, _ = verif.build_model()
    b, _ = verif.cargo_build("default", "debug", crate="b3sum", hooks=False)
    m = verif.run_model(drv, ["r " + case]).get("r")
    i = verif.run_lines(probe_bin(b), ["r " + case], shards=1).get("r")
    print("case :", case)
    print("model:", m)
    print("impl :", i)
    ok = verif.compare_line(m, i, "debug")
    print("AGREE" if ok else "VIOLATION property=C13 (replayed)")
    return 0 if ok else 1
