(* The BLAKE3 compression function, transcribed from the BLAKE3 paper
   (section 2.2, 2.3) -- NOT from the repository.  Constants are written out
   here; the repository's own constants live in gen/ and are proved equal
   elsewhere.  Words are N < 2^32; a block is 64 bytes, little-endian words. *)
From Coq Require Import NArith List.
From V Require Import Base.Word.
Import ListNotations.
Open Scope N_scope.

Definition IV : list N :=
  [0x6A09E667; 0xBB67AE85; 0x3C6EF372; 0xA54FF53A; 0x510E527F; 0x9B05688C; 0x1F83D9AB; 0x5BE0CD19].

Definition MSG_PERMUTATION : list N := [2; 6; 3; 10; 7; 0; 4; 13; 1; 11; 12; 5; 9; 14; 15; 8].

(* flag bits (paper, table 3) *)
Definition CHUNK_START : N := 1.
Definition CHUNK_END : N := 2.
Definition PARENT : N := 4.
Definition ROOT : N := 8.
Definition KEYED_HASH : N := 16.
Definition DERIVE_KEY_CONTEXT : N := 32.
Definition DERIVE_KEY_MATERIAL : N := 64.

(* the quarter-round G on (a,b,c,d) with message words mx, my *)
Definition g (a b c d mx my : N) : N * N * N * N :=
  let a := add32 (add32 a b) mx in
  let d := rotr32 (xor32 d a) 16 in
  let c := add32 c d in
  let b := rotr32 (xor32 b c) 12 in
  let a := add32 (add32 a b) my in
  let d := rotr32 (xor32 d a) 8 in
  let c := add32 c d in
  let b := rotr32 (xor32 b c) 7 in
  (a, b, c, d).

(* one round: G on the four columns, then on the four diagonals *)
Definition round (s m : list N) : list N :=
  match s, m with
  | [s0; s1; s2; s3; s4; s5; s6; s7; s8; s9; s10; s11; s12; s13; s14; s15],
    [m0; m1; m2; m3; m4; m5; m6; m7; m8; m9; m10; m11; m12; m13; m14; m15] =>
      let '(s0, s4, s8, s12) := g s0 s4 s8 s12 m0 m1 in
      let '(s1, s5, s9, s13) := g s1 s5 s9 s13 m2 m3 in
      let '(s2, s6, s10, s14) := g s2 s6 s10 s14 m4 m5 in
      let '(s3, s7, s11, s15) := g s3 s7 s11 s15 m6 m7 in
      let '(s0, s5, s10, s15) := g s0 s5 s10 s15 m8 m9 in
      let '(s1, s6, s11, s12) := g s1 s6 s11 s12 m10 m11 in
      let '(s2, s7, s8, s13) := g s2 s7 s8 s13 m12 m13 in
      let '(s3, s4, s9, s14) := g s3 s4 s9 s14 m14 m15 in
      [s0; s1; s2; s3; s4; s5; s6; s7; s8; s9; s10; s11; s12; s13; s14; s15]
  | _, _ => s
  end.

Definition permute (m : list N) : list N :=
  map (fun i => nth (N.to_nat i) m 0) MSG_PERMUTATION.

(* seven rounds, the message words permuted between rounds *)
Fixpoint rounds (n : nat) (s m : list N) : list N :=
  match n with
  | O => s
  | S O => round s m
  | S n' => rounds n' (round s m) (permute m)
  end.

Definition counter_lo (t : N) : N := N.land t mask32.
Definition counter_hi (t : N) : N := N.land (N.shiftr t 32) mask32.

Definition xor_lists (a b : list N) : list N := map (fun p => xor32 (fst p) (snd p)) (combine a b).

(* compress h m t b d : 16 output words.
   cv = 8 words, block = 64 bytes (zero padded by the caller), counter t < 2^64,
   blen = number of input bytes in the block, flags = domain flags *)
Definition compress (cv block : list N) (blen counter flags : N) : list N :=
  let m := words_of_bytes block in
  let s := cv ++ firstn 4 IV ++ [counter_lo counter; counter_hi counter; blen; flags] in
  let s := rounds 7 s m in
  xor_lists (firstn 8 s) (skipn 8 s) ++ xor_lists (skipn 8 s) cv.
