(* C11: reader, mmap and Write adapters hash exactly the bytes of their source.
   Statements only; proofs in Proofs/IoP.v.  The reader is an oracle: any finite
   script of results.  `delivered` is what the reader yields (independent of the
   hasher); `updates` feeds pieces to Hasher::update. *)
From Coq Require Import NArith List Bool.
From V Require Import Base.Res Base.Word gen.GenConsts Spec.Tree Model.Platform Model.RsChunk Model.RsHasher
  Model.RsIo Proofs.IoP Proofs.HasherP Proofs.C02P.
Import ListNotations.
Open Scope N_scope.

(* update_reader = update with exactly the delivered pieces; Ok(total) at EOF, the
   error is returned otherwise; Interrupted never escapes (copy_result has no such case) *)
Theorem C11_copy_wide_spec : forall p fuel h data script total h',
  total + nlen data < 2 ^ 64 ->
  updates p h (fst (delivered fuel data script)) = Ok h' ->
  copy_wide fuel p h data script total =
  match snd (delivered fuel data script) with
  | EndEof => Ok (h', CopyOk (total + nlen (concat (fst (delivered fuel data script)))))
  | EndErr k => Ok (h', CopyErr k)
  | EndFuel => OutOfFuel
  end.
Proof. exact copy_wide_spec. Qed.

(* the delivered pieces are a prefix of the source, in order, without loss or duplication *)
Theorem C11_delivered_prefix : forall fuel data script,
  exists rest, data = concat (fst (delivered fuel data script)) ++ rest.
Proof. exact delivered_prefix. Qed.

Theorem C11_delivered_pieces : forall fuel data script,
  Forall (fun x => 0 < nlen x <= rs_COPY_BUF) (fst (delivered fuel data script)).
Proof. exact delivered_pieces. Qed.

(* the fuel update_reader passes is always enough *)
Theorem C11_copy_fuel_enough : forall data script, snd (delivered (copy_fuel data script) data script) <> EndFuel.
Proof. exact copy_fuel_enough. Qed.

Theorem C11_write_consumes_all : forall p h input h' n,
  hasher_write p h input = Ok (h', n) -> n = nlen input /\ hasher_update p h input = Ok h'.
Proof. exact hasher_write_consumes_all. Qed.

(* mapping decision for a regular file: map (all n bytes) iff n >= 16 KiB *)
Theorem C11_mmap_decision_regular : forall n, n < 2 ^ 62 ->
  mmap_decision (if rs_seek_offset <=? n then Some (n - rs_seek_offset) else None) true =
  if rs_MIN_MMAP <=? n then Some n else None.
Proof. exact mmap_decision_regular. Qed.

(* together with C02: after update_reader the hasher has absorbed exactly the delivered prefix
   (so finalize / count describe it), whatever the script; Ok(total) at end of file, the error otherwise *)
Theorem C11_update_reader_refines : forall p, PlatformOK p -> forall K F, length K = 8%nat -> forall h bs data script,
  InvS K F 0 h bs -> len (bs ++ data) < 2 ^ 64 ->
  exists h' r, update_reader p h data script = Ok (h', r) /\
    InvS K F 0 h' (bs ++ concat (fst (delivered (copy_fuel data script) data script))) /\
    match snd (delivered (copy_fuel data script) data script) with
    | EndEof => r = CopyOk (nlen (concat (fst (delivered (copy_fuel data script) data script))))
    | EndErr k => r = CopyErr k
    | EndFuel => False
    end.
Proof. exact update_reader_refines. Qed.

Example C11_nonvacuous :
  let data := map N.of_nat (seq 0 300) in
  let script := [RDeliver 7; RInterrupted; RDeliver 100; RInterrupted; RError 5; RDeliver 9] in
  delivered (copy_fuel data script) data script = ([firstn 7 data; firstn 100 (skipn 7 data)], EndErr 5).
Proof. vm_compute. reflexivity. Qed.

(* the functions of the modelled source are exactly the functions the model was written against
   (gen/GenApi.v is regenerated from /repo on every run; see Model/ApiSurface.v) *)
From V Require gen.GenApi Model.ApiSurface.
Theorem C11_api_io : GenApi.api_io = ApiSurface.expected_io.
Proof. reflexivity. Qed.

Print Assumptions C11_api_io.
Print Assumptions C11_copy_wide_spec.
Print Assumptions C11_delivered_prefix.
Print Assumptions C11_delivered_pieces.
Print Assumptions C11_copy_fuel_enough.
Print Assumptions C11_write_consumes_all.
Print Assumptions C11_mmap_decision_regular.
Print Assumptions C11_update_reader_refines.
