(* test vectors, cases with index in [26, 33): evaluated inside the kernel *)
From Coq Require Import NArith List Bool.
From V Require Import Proofs.TVCommon.

Lemma tv_slice_3_ok : forallb check_case (tv_slice 26 33) = true.
Proof. vm_compute. reflexivity. Qed.
