(* test vectors, cases with index in [0, 15): evaluated inside the kernel *)
From Coq Require Import NArith List Bool.
From V Require Import Proofs.TVCommon.

Lemma tv_slice_1_ok : forallb check_case (tv_slice 0 15) = true.
Proof. vm_compute. reflexivity. Qed.
