(* C07: native code stays inside its buffers (the part a model can carry).
   (1) Every array index, slice bound, split_at, ArrayVec::push and capacity-dependent write of the
       modelled glue code is an `assert!` of the model, so the `Ok` of the C01 / C02 / C03 / C09
       theorems is the statement "no index is out of range, for any input".
   (2) Footprints: the kernel models produce exactly 32 bytes per hashed input, exactly 64 bytes per
       extended-output block, and a fill exactly the requested bytes.
   Statements only; proofs in Proofs/{C01P,C04P,XofP}.v.  What the native loads and stores really
   touch, and the assembly's register discipline, is checked by the guard-page / sentinel harness
   (tools/props/C07.py), not proved: see DESIGN.md. *)
From Coq Require Import NArith List Bool.
From V Require Import Base.Res Base.Word Spec.Tree Spec.Blake3 Model.Portable Model.Platform Model.RsChunk Model.RsWide
  Model.RsXof Model.RsHasher Model.CHasher Proofs.C01P Proofs.XofP Proofs.C04P Proofs.IoP Proofs.C02P Proofs.CHasherP4 gen.GenAsmFrames Model.AsmFrame Proofs.AsmFrameP.
Import ListNotations.
Open Scope N_scope.

Theorem C07_one_shot_indices_in_bounds : forall p, PlatformOK p -> forall input, len input < 2 ^ 64 ->
  is_ok (rs_hash p input) = true.
Proof. intros p H input Hl. rewrite (rs_hash_spec p H input Hl). reflexivity. Qed.

Theorem C07_hash_many_footprint : forall inputs key ctr incr fl fs fe cap outs,
  hash_many inputs key ctr incr fl fs fe cap = Ok outs ->
  length outs = length inputs /\ N.of_nat (length inputs) <= cap.
Proof. exact hash_many_footprint. Qed.

Theorem C07_xof_many_footprint : forall cv block bl fl, length cv = 8%nat -> length block = 64%nat -> forall n ctr bs,
  xof_many_loop compress_xof cv block bl ctr fl n = Ok bs -> length bs = (64 * n)%nat.
Proof. exact xof_many_footprint. Qed.

Theorem C07_fill_footprint : forall p, PlatformOK p -> forall r o pos n,
  Rd r o pos -> pos + n <= 2 ^ 64 - 1 ->
  exists r' bs, reader_fill p r n = Ok (r', bs) /\ length bs = N.to_nat n.
Proof. exact reader_fill_footprint. Qed.

(* the incremental Rust hasher: for ANY sequence of updates (below 2^64 bytes in total) no slice index, array_ref,
   ArrayVec::push (capacity 55 of the CV stack) or checked arithmetic of update/finalize fails *)
Theorem C07_hasher_indices_in_bounds : forall p, PlatformOK p -> forall K F, length K = 8%nat -> forall pieces,
  len (concat pieces) < 2 ^ 64 ->
  exists h out, updates p (new_internal K F) pieces = Ok h /\ hasher_finalize p h = Ok out /\ length out = 32%nat.
Proof.
  intros p POK K F HK pieces Hl. destruct (hasher_refines p POK K F HK pieces Hl) as (h & H1 & _ & _ & H4).
  exists h. eexists. split; [exact H1|]. split; [exact H4|]. apply stream_length.
Qed.

(* the C glue (c/blake3.c): for ANY sequence of blake3_hasher_update calls and any finalize_seek the model never
   reads or writes outside cv_stack[55], the chunk buffer, cv_array or the output buffer (panic codes 300..328 of
   Model/CHasher.v) and writes exactly out_len bytes *)
Theorem C07_c_glue_in_bounds : forall p, PlatformOK p -> forall K F, length K = 8%nat ->
  forall mem pieces seek out_len,
  length mem = 55%nat -> len (concat pieces) < 2 ^ 64 -> seek + out_len <= 2 ^ 64 - 1 ->
  exists h bs,
    fold_left (fun r x => h <- r ;; c_hasher_update p h x) pieces (Ok (c_hasher_init_base mem K F)) = Ok h /\
    c_hasher_finalize_seek p h seek out_len = Ok bs /\ length bs = N.to_nat out_len.
Proof.
  intros p POK K F HK mem pieces seek n Hm Hl Hs.
  destruct (c_update_refines p POK K F HK mem pieces seek n Hm Hl Hs) as (h & H1 & H2).
  exists h. eexists. split; [exact H1|]. split; [exact H2|]. apply stream_length.
Qed.

(* ---- the hand-written Unix assembly: frame and callee-saved-register discipline, decided on the TRANSLATED
   functions (gen/GenAsmFrames.v, regenerated from the four .S files on every run) ---- *)
Theorem C07_asm_frames_ok : forallb frame_ok asm_frames = true.
Proof. vm_compute. reflexivity. Qed.

Lemma C07_row_ok r : In r asm_frames -> frame_ok r = true.
Proof. intros H. pose proof C07_asm_frames_ok as A. rewrite forallb_forall in A. apply A. exact H. Qed.

(* every rsp-based memory operand of every function stays inside the function's own frame [rsp, rbp): never below
   rsp (red zone / signal frames), never into the saved registers or the return address - for EVERY incoming
   stack alignment (the `and rsp, -64` realignment may consume 0..63 bytes of slack) *)
Theorem C07_asm_stack_accesses_inside_frame : forall r, In r asm_frames -> forall a, In a (f_accesses r) ->
  forall sp0, f_frame r + 63 <= sp0 ->
  let sp := frame_sp (f_realigned r) sp0 (f_frame r) in
  sp <= sp + fst a /\ sp + fst a + snd a <= sp0.
Proof.
  intros r Hr a Ha sp0 Hs. pose proof (C07_row_ok r Hr) as Hok. unfold frame_ok in Hok.
  apply andb_true_iff in Hok. destruct Hok as [Hok _]. apply andb_true_iff in Hok. destruct Hok as [Hok _].
  apply andb_true_iff in Hok. destruct Hok as [Hok _].
  rewrite forallb_forall in Hok. specialize (Hok a Ha). apply N.leb_le in Hok.
  destruct (frame_access_inside (f_realigned r) sp0 (f_frame r) (fst a) (snd a) Hs Hok) as (G1 & G2 & _).
  split; assumption.
Qed.

(* on return every callee-saved general register (rbx, rbp, r12-r15) holds the caller's value, given that the
   function body writes no callee-saved register other than those the translator saw as a destination *)
Theorem C07_asm_callee_saved_preserved : forall r, In r asm_frames -> forall (rg0 rg1 : regs) stack,
  (forall x, mem x (f_written r) = false -> rg1 x = rg0 x) ->
  forall x, do_pops rg1 (f_pops r) (do_pushes rg0 (f_pushes r) stack) x = rg0 x.
Proof.
  intros r Hr rg0 rg1 stack Hb x. pose proof (C07_row_ok r Hr) as Hok. unfold frame_ok in Hok.
  apply andb_true_iff in Hok. destruct Hok as [Hok H4]. apply andb_true_iff in Hok. destruct Hok as [Hok H3].
  apply andb_true_iff in Hok. destruct Hok as [_ H2].
  exact (callee_saved_preserved (f_pushes r) (f_pops r) (f_written r) rg0 rg1 stack H2 H3 H4 Hb x).
Qed.

(* ---- the Windows-GNU assembly (Microsoft x64: rbx rbp rsi rdi r12-r15 and xmm6-xmm15 callee-saved) ---- *)
Theorem C07_asm_win_frames_ok : forallb win_ok asm_frames_win = true.
Proof. vm_compute. reflexivity. Qed.

Lemma C07_wrow_ok r : In r asm_frames_win -> win_ok r = true.
Proof. intros H. pose proof C07_asm_win_frames_ok as A. rewrite forallb_forall in A. apply A. exact H. Qed.

(* every callee-saved xmm register (xmm6-xmm15, also when written as ymm/zmm) that the body of a function writes is
   saved in the prologue and reloaded from the same slot in the epilogue; the slots lie inside the frame, are pairwise
   disjoint, and no store of the body overlaps one (decided on the translated rows): so on return every xmm register
   holds the caller's value, provided the body writes no other xmm6-15 than the translator saw *)
Theorem C07_asm_win_xmm_preserved : forall r, In r asm_frames_win -> forall (x0 x1 : xregs) (m0 m1 : slots),
  (forall off, In off (map snd (w_saves r)) -> m1 off = do_saves x0 (w_saves r) m0 off) ->
  (forall x, mem x (w_xwritten r) = false -> x1 x = x0 x) ->
  forall x, do_restores x1 (w_restores r) m1 x = x0 x.
Proof.
  intros r Hr x0 x1 m0 m1 Hm Hx x. pose proof (C07_wrow_ok r Hr) as Hok. unfold win_ok in Hok.
  repeat match type of Hok with (_ && _ = true) => let H := fresh "Hk" in apply andb_true_iff in Hok; destruct Hok as [Hok H] end.
  eapply xmm_preserved; eassumption.
Qed.

(* and the general registers incl. rsi, rdi *)
Theorem C07_asm_win_callee_saved_preserved : forall r, In r asm_frames_win -> forall (rg0 rg1 : regs) stack,
  (forall x, mem x (w_gwritten r) = false -> rg1 x = rg0 x) ->
  forall x, do_pops rg1 (w_pops r) (do_pushes rg0 (w_pushes r) stack) x = rg0 x.
Proof.
  intros r Hr rg0 rg1 stack Hb x. pose proof (C07_wrow_ok r Hr) as Hok. unfold win_ok in Hok.
  repeat match type of Hok with (_ && _ = true) => let H := fresh "Hk" in apply andb_true_iff in Hok; destruct Hok as [Hok H] end.
  eapply callee_saved_preserved; eassumption.
Qed.

(* the save slots and the body's stack stores stay inside the frame *)
Theorem C07_asm_win_slots_inside_frame : forall r, In r asm_frames_win ->
  (forall s, In s (w_saves r) -> snd s + 16 <= w_frame r) /\
  (forall st, In st (w_stores r) -> fst st + snd st <= w_frame r).
Proof.
  intros r Hr. pose proof (C07_wrow_ok r Hr) as Hok. unfold win_ok in Hok.
  repeat match type of Hok with (_ && _ = true) => let H := fresh "Hk" in apply andb_true_iff in Hok; destruct Hok as [Hok H] end.
  split.
  - intros s Hs. match goal with H : forallb (fun s => snd s + 16 <=? _) _ = true |- _ => rewrite forallb_forall in H; specialize (H s Hs); apply N.leb_le in H; exact H end.
  - intros st Hs. match goal with H : forallb (fun st => (fst st + snd st <=? _) && _) _ = true |- _ =>
      rewrite forallb_forall in H; specialize (H st Hs); apply andb_true_iff in H; destruct H as [H _]; apply N.leb_le in H; exact H end.
Qed.

Example C07_asm_win_nonvacuous :
  length asm_frames_win = 10%nat /\
  (exists r, In r asm_frames_win /\ w_frame r = 120 /\ length (w_saves r) = 7%nat /\ mem 14 (w_xwritten r) = true).
Proof. split; [reflexivity|]. exists (nth 2 asm_frames_win ([], false, 0, [], [], [], [], [], [], [])). vm_compute. repeat split; auto. Qed.

(* non-vacuity: eleven functions were translated; blake3_hash_many_sse41 has a 360-byte realigned frame whose highest
   access ends at byte 352 and saves all six registers *)
Example C07_asm_nonvacuous :
  length asm_frames = 11%nat /\
  (exists r, In r asm_frames /\ f_frame r = 360 /\ f_realigned r = true /\
             existsb (fun a => (fst a =? 336) && (snd a =? 16)) (f_accesses r) = true /\
             length (f_pushes r) = 6%nat).
Proof.
  split; [reflexivity|]. exists (nth 3 asm_frames ([], false, 0, [], [], [], [])).
  vm_compute. repeat split; auto.
Qed.

Example C07_nonvacuous :
  exists outs, hash_many [repeat 1 64; repeat 2 64; repeat 3 64] Spec.Compress.IV 0 true 0 1 2 3 = Ok outs /\ length outs = 3%nat.
Proof. vm_compute. eexists. split; reflexivity. Qed.

Print Assumptions C07_one_shot_indices_in_bounds.
Print Assumptions C07_hash_many_footprint.
Print Assumptions C07_hasher_indices_in_bounds.
Print Assumptions C07_c_glue_in_bounds.
Print Assumptions C07_asm_frames_ok.
Print Assumptions C07_row_ok.
Print Assumptions C07_asm_stack_accesses_inside_frame.
Print Assumptions C07_asm_callee_saved_preserved.
Print Assumptions C07_asm_win_frames_ok.
Print Assumptions C07_wrow_ok.
Print Assumptions C07_asm_win_xmm_preserved.
Print Assumptions C07_asm_win_callee_saved_preserved.
Print Assumptions C07_asm_win_slots_inside_frame.
Print Assumptions C07_xof_many_footprint.
Print Assumptions C07_fill_footprint.
