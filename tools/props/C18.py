"""C18: independent hasher instances are isolated: no shared writable state except the CPU-feature detection cache."""
import concurrent.futures
import glob
import os
import subprocess
import sys

from props import kern, C03, C07
from props.common import Rng, bspec, modes
from props.hist import history

sys.path.insert(0, os.path.dirname(os.path.dirname(os.path.abspath(__file__))))
import charness  # noqa: E402
import gen_coq  # noqa: E402
import verif  # noqa: E402

RULE = ("(a) `nm` over the freshly compiled C library objects (blake3.c with and without BLAKE3_USE_TBB, dispatch, "
        "portable, the four intrinsics files, Unix and Windows-GNU assembly; compiled WITHOUT BLAKE3_TESTING) and over the "
        "blake3 rlib + the native archives of the Rust harness build: symbols in writable sections are generated into "
        "coq/gen/GenGlobals.v and must be a subset of {g_cpu_features} (C) / the cpufeatures detection statics (Rust); "
        "the statics of the verification hooks are listed separately and a hooks-off build of the crate must show "
        "exactly the same set without them.  (b) one fresh process per case starts 2..16 threads on a barrier with the "
        "detection cache untouched; every thread runs a complete history on its own instances (hasher histories, XOF "
        "reader sequences, update_rayon, update_reader with scripted readers, direct kernel calls; C: CH histories with mask `detect` and direct kernels); "
        "each thread's result line must equal the sequential model result of the same sub-case.  Every fourth case all "
        "threads race the very first detection on the same short input; the C builds add 160 (asm) + 40 (intrinsics) "
        "fresh processes (thorough 600 + 200) whose 4/8/16 threads all hash one large input with thread starts staggered by "
        "0..50 us (first-detection race against threads already inside compress_subtree_wide), and an initialiser hammer "
        "(4-8 threads, each re-running its own derive-key / keyed initialiser 20 000 times: all digests equal).  (c) get_cpu_features is "
        "TRANSLATED (tools/gen_coq.py gen_dispatch -> gen/GenDispatch.v) and the theorems C18_c_cache_* show that every "
        "store to g_cpu_features is the complete returned value.  Thorough: the C side under TSan.  Non-trivial "
        "= distinct THR case with at least two different sub-cases or a first-detection race.")
MODELLED = ["OS scheduling: interleavings are sampled, not enumerated; the model's `touches only its own instance` is "
            "tied by the writable-symbol scan and, for Rust, by ownership (&mut self)",
            "blake3_tbb.cpp (needs oneTBB headers) and blake3_neon.c are not compiled on this host: not scanned"]
ASSUMPTIONS = ["relaxed atomic / racy int store of the same constant to the detection cache is benign (C: "
               "BLAKE3_ATOMICS on this compiler; TSan run in the thorough tier)"]

C_EXPECTED = {"g_cpu_features"}
RS_DETECT = {"blake3::platform::%s_detected::has_%s::STORAGE" % (a, a) for a in ("avx512", "avx2", "sse41", "sse2")}
HOOK_PREFIXES = ("blake3::join::verif::", "blake3::platform::VERIF_FORCED_PLATFORM")


# ---------------------------------------------------------------------------
# (a) writable globals
# ---------------------------------------------------------------------------
def c_library_objects():
    """the library's translation units, compiled as a user would (no BLAKE3_TESTING)"""
    b = charness._Builder("gcc", None)
    objs = []
    for f in charness.LIB_C:
        objs.append(b.compile(os.path.join(charness.REPO_C, f), ["-O2"], "lib"))
    objs.append(b.compile(os.path.join(charness.REPO_C, "blake3.c"), ["-O2", "-DBLAKE3_USE_TBB"], "lib-tbb"))
    for f, extra in charness.INTR_C:
        objs.append(b.compile(os.path.join(charness.REPO_C, f), ["-O2"] + extra, "lib"))
    for f in charness.UNIX_S:
        objs.append(b.compile(os.path.join(charness.REPO_C, f), [], "unix"))
    for f in charness.WIN_S:
        objs.append(b.winasm(f))
    return [o for o in objs if o], (None if b.ok and all(objs) else "\n".join(b.log)[-800:])


def newest(paths):
    return max(paths, key=os.path.getmtime) if paths else None


def rust_archives(target_dir, profile="debug"):
    rlib = newest(glob.glob(os.path.join(target_dir, profile, "deps", "libblake3-*.rlib")))
    outs = glob.glob(os.path.join(target_dir, profile, "build", "blake3-*", "out"))
    outs = [o for o in outs if glob.glob(os.path.join(o, "*.a"))]
    natives = sorted(glob.glob(os.path.join(newest(outs), "*.a"))) if outs else []
    return rlib, natives


def build_crate_without_hooks():
    tdir = os.path.join(verif.BUILD, "cargo", "rs-nohooks")
    env = {"CARGO_NET_OFFLINE": "true", "CARGO_TARGET_DIR": tdir, "RUSTFLAGS": ""}
    with verif.Lock("cargo-rs-nohooks"):
        rc, out = verif.sh(["cargo", "build", "--offline", "-p", "blake3"], cwd=os.path.join(verif.V, "harness", "rs"),
                           env=env, timeout=1500)
    return (tdir if rc == 0 else None), out


def pregen(ctx):
    """runs before the Coq build: nm -> coq/gen/GenGlobals.v (+ its .vo, the file is not in _CoqProject)"""
    ctx.globals = None
    objs, err = c_library_objects()
    if err:
        ctx.broken.append("C library objects did not compile: " + err)
        return
    b, out = verif.cargo_build("default", "debug")
    if b is None:
        ctx.broken.append("harness build failed (default/debug): " + out[-600:])
        return
    rlib, natives = rust_archives(os.path.join(verif.BUILD, "cargo", "rs-default"))
    if rlib is None:
        ctx.broken.append("blake3 rlib not found in the harness target directory")
        return
    try:
        g = gen_coq.gen_globals(objs, [rlib] + natives, hook_prefixes=HOOK_PREFIXES)
    except gen_coq.AnchorError as e:
        ctx.broken.append("nm scan failed: %s" % e)
        return
    g.update({"c_objects": [os.path.basename(o) for o in objs], "rs_archives": [os.path.basename(rlib)] +
              [os.path.basename(n) for n in natives]})
    ctx.globals = g
    src = os.path.join(verif.COQ, "gen", "GenGlobals.v")
    vo = src + "o"
    if g["changed"] or not os.path.exists(vo) or os.path.getmtime(vo) < os.path.getmtime(src):
        with verif.Lock("coq"):
            rc, out = verif.sh(["coqc", "-Q", verif.COQ, "V", "-w", "-notation-overridden", src], timeout=300)
        if rc != 0:
            ctx.broken.append("gen/GenGlobals.v does not compile: " + out[-400:])
    ctx.log("writable globals: C %s | Rust %s | hook statics %s | foreign %s" % (g["c"], g["rs"], g["rs_hooks"], g["rs_foreign"]))


def check_globals(ctx):
    g = getattr(ctx, "globals", None)
    if g is None:
        return
    ctx.evaluations += len(g["c_objects"]) + len(g["rs_archives"])
    new_c = sorted(set(g["c"]) - C_EXPECTED)
    new_rs = sorted(set(g["rs"]) - RS_DETECT)
    for side, new, expected, found in (("C", new_c, C_EXPECTED, g["c"]), ("Rust", new_rs, RS_DETECT, g["rs"])):
        for name in new:
            ctx.failures.append({"correspondence": "writable-globals", "case": "%s writable symbol %s" % (side, name),
                                 "model": "expected subset of " + " ".join(sorted(expected)), "impl": " ".join(found),
                                 "build": "nm"})
    if not set(g["c"]) & C_EXPECTED:
        ctx.broken.append("configuration not reached: g_cpu_features not among the writable C symbols (nm scan blind?)")
    if not set(g["rs"]) & RS_DETECT:
        ctx.broken.append("configuration not reached: no cpufeatures detection static among the writable Rust symbols")
    # the stock crate (hooks off) must have the same set without the hook statics
    tdir, out = build_crate_without_hooks()
    stock = None
    if tdir is None:
        ctx.broken.append("hooks-off build of the blake3 crate failed: " + out[-400:])
    else:
        rlib, natives = rust_archives(tdir)
        names = set()
        for a in [rlib] + natives:
            for name, cls, sec, member in gen_coq.nm_writable(a):
                d = gen_coq.rust_demangle(name)
                if d.startswith("blake3::") or a.endswith(".a"):
                    names.add(d)
        stock = sorted(names)
        ctx.evaluations += 1 + len(natives)
        if names != set(g["rs"]):
            ctx.failures.append({"correspondence": "writable-globals", "case": "Rust crate built without hooks vs with hooks",
                                 "model": " ".join(g["rs"]), "impl": " ".join(stock), "build": "nm"})
    ctx.stats["writable-globals/nm"] = {"cases": len(g["c_objects"]) + len(g["rs_archives"]),
                                        "disagreements": len(new_c) + len(new_rs)}
    ctx.extra_cov = {"globals": {"c": g["c"], "rs": g["rs"], "rs_hook_statics": g["rs_hooks"], "rs_foreign": g["rs_foreign"],
                                 "rs_stock_build": stock, "c_objects": g["c_objects"], "rs_archives": g["rs_archives"],
                                 "GenGlobals_sha256": g["sha256"]}}
    ctx.samples.append({"case": "nm --format=sysv over %d C objects / %d Rust archives" % (len(g["c_objects"]), len(g["rs_archives"])),
                        "model": "C: %s; Rust: subset of %s" % (sorted(C_EXPECTED), sorted(RS_DETECT)),
                        "impl": "C: %s; Rust: %s" % (g["c"], g["rs"])})


# ---------------------------------------------------------------------------
# (b) threads
# ---------------------------------------------------------------------------
def run_fresh(binary, lines, env=None, workers=6, stderr=None, timeout=600):
    """one process per case line"""
    e = dict(os.environ)
    e.setdefault("TSAN_OPTIONS", "halt_on_error=0:report_signal_unsafe=0")
    if env:
        e.update(env)

    def one(line):
        try:
            p = subprocess.run([binary], input=line + "\n", stdout=subprocess.PIPE, stderr=subprocess.PIPE, text=True,
                               timeout=timeout, env=e)
            return p.returncode, p.stdout, p.stderr
        except subprocess.TimeoutExpired:
            return 124, "", "timeout"
    res = {}
    with concurrent.futures.ThreadPoolExecutor(max_workers=workers) as ex:
        for line, (rc, out, err) in zip(lines, ex.map(one, lines)):
            cid = line.split(" ", 1)[0]
            got = [l for l in out.split("\n") if l.startswith(cid + " ") or l == cid]
            res[cid] = got[0][len(cid) + 1:] if got else "CRASH rc=%s %s" % (rc, err.strip()[-200:].replace("\n", "|"))
            if err.strip() and stderr is not None:
                stderr.append(([cid], err))
    return res


def rs_pool(rng, tier):
    """(implementation sub-case, model sub-case) for the Rust side"""
    pool = []
    ms = modes(rng)
    for _ in range(30 if tier == "thorough" else 12):
        m = rng.choice(ms)
        ops = history(rng, "avx512", rng.range(3, 14), budget=24 * 1024, maxchunks=20)
        c = "H %s detect %s" % (m, " ".join(ops))
        pool.append((c, c))
    for _ in range(10 if tier == "thorough" else 4):
        c = "H %s detect u:0:%s xo:0 %s" % (rng.choice(ms), bspec(rng, rng.choice([0, 1, 64, 1025, 5000])),
                                            " ".join(C03.reader_ops(rng, 0, rng.range(4, 12))))
        pool.append((c, c))
    for _ in range(6 if tier == "thorough" else 3):
        b = bspec(rng, rng.choice([1025, 40000, 140000]))
        pool.append(("H hash detect uy:0:%s c:0 f:0" % b, "H hash detect u:0:%s c:0 f:0" % b))
    # the adapters: update_reader (copy_wide and its staging buffer) on different data in every thread
    for _ in range(8 if tier == "thorough" else 5):
        n = rng.choice([70000, 200000, 400000])
        script = ",".join(rng.choice(["d65536", "d65536", "d1000", "d40000", "i", "d7"]) for _ in range(rng.range(0, 6)))
        b = bspec(rng, n)
        pool.append(("H hash detect ur:0:%s:%s c:0 f:0" % (b, script), "H hash detect ur:0:%s:%s c:0 f:0" % (b, script)))
    ka = [("kcip", a) for a in kern.gen_compress(rng, 1)[::60]] + [("kxof", a) for a in kern.gen_compress(rng, 1)[::80]]
    ka += [("khm", a) for a in kern.gen_hash_many(rng, 1, small=True)[::45]]
    ka += [("kxm", a) for a in kern.gen_xof_many(rng, 1)[::40]]
    for k, a in ka:
        c = "%s %s rs %s" % (k, rng.choice(kern.IMPLS), a)
        pool.append((c, c))
    return pool


def c_pool(rng, tier, native):
    pool = []
    ms = C07.ch_modes(rng)
    for _ in range(30 if tier == "thorough" else 12):
        cm, mm = rng.choice(ms)
        cops, mops = C07.ch_history(rng, "detect", rng.range(3, 14), budget=24 * 1024)
        pool.append(("CH %s detect %s" % (cm, " ".join(cops)), "H %s detect %s" % (mm, " ".join(mops))))
    ka = [("kcip", a) for a in kern.gen_compress(rng, 1)[::60]] + [("kxof", a) for a in kern.gen_compress(rng, 1)[::80]]
    ka += [("khm", a) for a in kern.gen_hash_many(rng, 1, small=True)[::45]]
    for k, a in ka:
        impl = rng.choice(kern.IMPLS)
        fl = "c" if impl == "portable" else native
        if k in ("kcip", "kxof") and impl == "avx2":
            impl = "sse41"
        c = "%s %s %s %s" % (k, impl, fl, a)
        pool.append((c, c))
    for a in kern.gen_xof_many(rng, 1)[::40]:
        c = "kxm avx512 %s %s" % (native, a)
        pool.append((c, c))
    return pool


def thr_cases(rng, pool, tier, short):
    """-> list of (n, [pool index...])"""
    out = []
    ncases = 200 if tier == "thorough" else 60
    for t in range(ncases):
        n = rng.choice([2, 3, 4, 8, 16]) if t % 2 else rng.range(2, 16)
        if t % 4 == 0:
            subs = [short[t // 4 % len(short)]] * n     # everybody races the first detection on the same input
        else:
            subs = [rng.below(len(pool) - len(short)) for _ in range(n)]
        out.append((n, subs))
    return out


def run_threads(ctx, drv, label, binary, pool, cases, env, strip=(), profile="debug", errs=None):
    used = sorted(set(i for _, subs in cases for i in subs))
    cache = ctx.__dict__.setdefault("_model_cache", {})
    todo = [i for i in used if pool[i][1] not in cache]
    if todo:
        got = verif.run_model(drv, ["m%d %s" % (i, pool[i][1]) for i in todo])
        for i in todo:
            cache[pool[i][1]] = got.get("m%d" % i, "MISSING")
    mr = {"m%d" % i: cache[pool[i][1]] for i in used}
    lines = ["t%d THR %d %s" % (j, n, "|".join(pool[i][0] for i in subs)) for j, (n, subs) in enumerate(cases)]
    res = run_fresh(binary, lines, env=env, stderr=errs)
    nfail = 0
    for j, (n, subs) in enumerate(cases):
        r = res.get("t%d" % j, "MISSING")
        ctx.evaluations += 1
        parts = [p.split() for p in (" " + r + " ").split(" | ")]
        ok = len(parts) == n and not r.startswith(("CRASH", "MISSING"))
        if ok:
            for toks, i in zip(parts, subs):
                if toks[:1] == ["SKIP"]:
                    continue
                toks = [t for t in toks if t not in strip]
                if kern.BADTOK.search(" ".join(toks)) or "diff" in toks or \
                        not verif.compare_line(mr.get("m%d" % i, "MISSING"), " ".join(toks), profile):
                    ok = False
        if len(set(subs)) >= 2 or subs[0] >= len(pool) - 17:
            ctx.nontrivial.add("%s %d %s" % (label.split("/")[0], n, ",".join(map(str, subs))))
        if not ok:
            nfail += 1
            ctx.failures.append({"correspondence": "threads", "case": lines[j].split(" ", 1)[1][:3000],
                                 "model": " | ".join(mr.get("m%d" % i, "MISSING") for i in subs)[:600], "impl": r[:600],
                                 "build": label})
    if len(ctx.samples) < 12 and lines:
        ctx.samples.append({"case": lines[1].split(" ", 1)[1][:400] if len(lines) > 1 else lines[0][:400], "build": label,
                            "impl": res.get("t1", "")[:200]})
    ctx.stats["threads/" + label] = {"cases": len(lines), "disagreements": nfail,
                                     "threads": sorted(set(n for n, _ in cases))}
    ctx.log("threads [%s]: %d fresh processes, thread counts %s, %d failures" %
            (label, len(lines), sorted(set(n for n, _ in cases)), nfail))


def correspondence(ctx):
    check_globals(ctx)
    drv = ctx.need_model()
    if drv is None:
        return
    thorough = ctx.tier == "thorough"
    rng = Rng(ctx.seed * 65537 + 3)
    # ---- Rust ----
    pool = rs_pool(rng, ctx.tier)
    short = []
    for n in (1, 1024, 4096, 70000):
        c = "H hash detect u:0:paint/0/%d f:0" % n
        pool.append((c, c))
        short.append(len(pool) - 1)
    for k in ("kcip sse41 rs", "khm avx512 rs"):     # direct kernels: Platform::sse41()/avx512() detect concurrently
        a = kern.gen_compress(rng, 1)[3] if k.startswith("kcip") else kern.gen_hash_many(rng, 1, small=True)[40]
        pool.append(("%s %s" % (k, a), "%s %s" % (k, a)))
        short.append(len(pool) - 1)
    short += short[:2]
    short = short[:8]
    # keep the eight "short" entries at the end of the pool (thr_cases draws the others from the front)
    cases = thr_cases(rng, pool, ctx.tier, short)
    builds = [("default", "debug")] + ([("default", "release"), ("prefer_intrinsics", "debug"), ("pure", "debug")] if thorough else [])
    for flavour, profile in builds:
        b = ctx.need_harness(flavour, profile)
        if b:
            run_threads(ctx, drv, "rs-%s/%s" % (flavour, profile), b, pool, cases, None, profile=profile)
    # ---- C ----
    cbuilds = [("asm", None), ("intr", None)] + ([("asm", "tsan"), ("intr", "tsan")] if thorough else [])
    for variant, san in cbuilds:
        cb = kern.need_c(ctx, variant, san)
        if cb is None:
            continue
        native = "asm" if variant == "asm" else "c"
        crng = Rng(ctx.seed * 65537 + 5)
        cpool = c_pool(crng, ctx.tier, native)
        cshort = []
        for n in (1, 1024, 4096, 70000, 2049, 65):
            cpool.append(("CH hash detect u:0:paint/0/%d f:0:32" % n, "H hash detect u:0:paint/0/%d x:0:32" % n))
            cshort.append(len(cpool) - 1)
        cshort += cshort[:2]
        ccases = thr_cases(crng, cpool, ctx.tier, cshort)
        errs = []
        label = "c-%s%s" % (variant, "-" + san if san else "")
        env = {"C_GUARD": "1", "C_GUARD_SIDE": "hi", "C_HM_LAYOUT": "contig"} if not san else {"C_GUARD": "0"}
        run_threads(ctx, drv, label, cb, cpool, ccases, env, strip=("ok", "same"), errs=errs)
        # first-detection race: every thread of a fresh process hashes the same large input (several wide
        # updates) so that threads are inside compress_subtree_wide while later threads still run their first
        # get_cpu_features; thread i's start is delayed by i * C_THR_STAGGER_NS.  A cache that is ever written with
        # anything but the final value (a partial feature set, a different degree) shows up as a wrong digest.
        if not san:
            big = []
            for n in (16384, 65536, 102400):
                cpool.append(("CH hash detect u:0:prng/7/%d u:0:prng/8/65536 u:0:prng/9/%d f:0:32" % (n, n),
                              "H hash detect u:0:prng/7/%d u:0:prng/8/65536 u:0:prng/9/%d x:0:32" % (n, n)))
                big.append(len(cpool) - 1)
            nproc = (600 if thorough else 160) if variant == "asm" else (200 if thorough else 40)
            if not ctx.proofs_ok:
                nproc *= 5      # a proof obligation broke: search harder for a concrete failing schedule
            staggers = [0, 1000, 5000, 20000, 50000]
            for si, st in enumerate(staggers):
                rc_ = [(crng.choice([4, 8, 16]), None) for _ in range(nproc // len(staggers))]
                rcases = [(n, [big[(j + si) % len(big)]] * n) for j, (n, _) in enumerate(rc_)]
                env2 = dict(env)
                env2["C_THR_STAGGER_NS"] = str(st)
                run_threads(ctx, drv, "%s/first-detection-race/stagger%d" % (label, st), cb, cpool, rcases, env2,
                            strip=("ok", "same"), errs=errs)
        # initialiser hammer: every thread re-runs ITS OWN initialiser (different derive-key contexts / keys per
        # thread) tens of thousands of times and hashes "abc"; all of a thread's digests must be equal and equal to
        # the model's.  A cache of "the last context" shared between threads shows up as `diff` / a wrong digest.
        if not san:
            hammer = []
            n_it = 60000 if thorough else 20000
            for t in range(6):
                ctxb = ("ctx %d for the initialiser hammer" % t).encode()
                spec = "hex/" + ctxb.hex()
                mode_c, mode_m = (("deriveraw=" + spec, "derive=" + spec) if t % 3 != 2 else
                                  ("keyed=prng/%d/32" % (77 + t), "keyed=prng/%d/32" % (77 + t)))
                cpool.append(("CH %s detect ri:%d u:0:hex/616263 f:0:32" % (mode_c, n_it),
                              "H %s detect u:0:hex/616263 x:0:32" % mode_m))
                hammer.append(len(cpool) - 1)
            hcases = [(n, [hammer[(j + i) % len(hammer)] for i in range(n)]) for j, n in
                      enumerate([4, 6, 8, 4, 6, 8] * (3 if thorough else 1))]
            run_threads(ctx, drv, "%s/initialiser-hammer" % label, cb, cpool, hcases, {"C_GUARD": "0"},
                        strip=("ok", "same"), errs=errs)
        for ids, text in errs:
            ctx.failures.append({"correspondence": "sanitizer/stderr report", "case": "THR case " + ",".join(ids),
                                 "model": "", "impl": text[:1500], "build": label})
        ctx.stats["stderr/" + label] = {"cases": 1, "disagreements": len(errs)}


def classify(f):
    return None


def replay(path):
    import json
    f = json.load(open(path))
    print("case:", f.get("case"), "| build:", f.get("build"))
    print("recorded model:", f.get("model"))
    print("recorded impl :", f.get("impl"))
    return 0
