"""Shared generator vocabulary (DESIGN.md section 5): PRNG, length lattice, byte specs."""
import json
import os
import sys

MASK = (1 << 64) - 1


class Rng:
    """xorshift64* -- every random choice of a run derives from one state (VERIF_SEED)."""

    def __init__(self, seed):
        self.x = (seed * 0x9E3779B97F4A7C15 + 1) & MASK or 1

    def next(self):
        x = self.x
        x ^= x >> 12
        x ^= (x << 25) & MASK
        x ^= x >> 27
        self.x = x
        return (x * 0x2545F4914F6CDD1D) & MASK

    def below(self, n):
        return self.next() % n if n > 0 else 0

    def range(self, lo, hi):
        return lo + self.below(hi - lo + 1)

    def choice(self, seq):
        return seq[self.below(len(seq))]

    def chance(self, p):
        return self.below(1000) < int(p * 1000)


CHUNK = 1024
BASE_L = [0, 1, 2, 63, 64, 65, 127, 128, 129, 1023, 1024, 1025]
KS = [2, 3, 4, 5, 7, 8, 9, 15, 16, 17, 31, 32, 33, 63, 64, 65, 100, 127, 128, 129]


def lattice(max_chunks=129):
    out = list(BASE_L)
    for k in KS:
        if k <= max_chunks:
            out += [CHUNK * k - 1, CHUNK * k, CHUNK * k + 1]
    return sorted(set(out))


PATTERNS = ["paint", "prng", "zero", "ff"]


def bspec(rng, n, pattern=None):
    p = pattern or rng.choice(PATTERNS)
    if p == "paint":
        return f"paint/{rng.below(251) if rng.chance(0.3) else 0}/{n}"
    if p == "prng":
        return f"prng/{rng.below(1 << 32)}/{n}"
    if p == "bit":
        return f"bit/{rng.below(max(1, 8 * n))}/{n}"
    return f"{p}/0/{n}"


def hexspec(b):
    return "hex/" + bytes(b).hex()


TEST_KEY = b"whats the Elvish word for friend"
CONTEXTS = [b"", b"BLAKE3 2019-12-27 16:29:52 test vectors context", "naïve ☃ \U0001F600 ctx".encode(),
            bytes((i % 95) + 32 for i in range(1500)), bytes((i % 94) + 33 for i in range(3000))]


def modes(rng):
    """hash, keyed (several keys), derive (several contexts)"""
    ms = ["hash", "keyed=" + hexspec(TEST_KEY), "keyed=zero/0/32", "keyed=ff/0/32",
          f"keyed=prng/{rng.below(1 << 20)}/32"]
    for c in CONTEXTS:
        ms.append("derive=" + hexspec(c))
    ms.append("derivek=" + hexspec(CONTEXTS[1]))
    return ms


def number(lines, prefix="c"):
    return [f"{prefix}{i} {l}" for i, l in enumerate(lines)]
