(* C04: results do not depend on SIMD level, build flavour or feature set.
   Statements only; proofs in Proofs/C04P.v (corollaries of C01/C02/C03/C09) and
   Proofs/KernelsP.v (PlatformOK of the modelled kernels).  A "platform" is the record
   (SIMD degree, MAX_SIMD_DEGREE, four kernels); PlatformOK says the kernels equal the
   portable ones on their domain and the degree is a power of two <= MAX_SIMD_DEGREE <= 16. *)
From Coq Require Import String.
From Coq Require Import NArith List Bool.
From V Require Import Base.Res Base.Word Spec.Tree Spec.Blake3 Model.Platform Model.Kernels Model.RsChunk Model.RsWide
  Model.RsHasher Model.RsXof Model.Machine Proofs.KernelsP Proofs.XofP Proofs.IoP Proofs.HasherP Proofs.C02P Proofs.C04P Model.SpecMachine Proofs.MachineRefinesP.
From V Require Import gen.GenConsts Model.Portable Model.DispatchSyntax gen.GenPlatform Model.PlatformDispatch Model.CHasher Proofs.GenPlatformP.
Import ListNotations.
Open Scope N_scope.

Theorem C04_hash : forall p1 p2 input, PlatformOK p1 -> PlatformOK p2 -> len input < 2 ^ 64 ->
  rs_hash p1 input = rs_hash p2 input.
Proof. exact hash_platform_independent. Qed.

Theorem C04_keyed_hash : forall p1 p2 key input, PlatformOK p1 -> PlatformOK p2 -> length key = 32%nat -> len input < 2 ^ 64 ->
  rs_keyed_hash p1 key input = rs_keyed_hash p2 key input.
Proof. exact keyed_hash_platform_independent. Qed.

Theorem C04_derive_key : forall p1 p2 ctx material, PlatformOK p1 -> PlatformOK p2 ->
  len ctx < 2 ^ 64 -> len material < 2 ^ 64 -> rs_derive_key p1 ctx material = rs_derive_key p2 ctx material.
Proof. exact derive_key_platform_independent. Qed.

Theorem C04_histories : forall p1 p2 K F pn1 pn2 m ops hs1 hs2 rs1 rs2 vs1 vs2 abs obs,
  PlatformOK p1 -> PlatformOK p2 -> length K = 8%nat ->
  Forall2 (InvS K F 0) hs1 abs -> Forall2 (InvS K F 0) hs2 abs -> arun_h K F abs ops = Some obs ->
  fst (run_ops p1 pn1 m K F (mkState hs1 rs1 vs1) (map hop_op ops) []) =
  fst (run_ops p2 pn2 m K F (mkState hs2 rs2 vs2) (map hop_op ops) []).
Proof. exact history_platform_independent. Qed.

Theorem C04_extended_output : forall p1 p2 ops r1 r2 o pos obs,
  PlatformOK p1 -> PlatformOK p2 -> Rd r1 o pos -> Rd r2 o pos -> pos <= max_pos -> arun o pos ops = Some obs ->
  rrun p1 r1 ops = rrun p2 r2 ops.
Proof. exact reader_platform_independent. Qed.

Theorem C04_subtree_cvs : forall p1 p2 K F c0 pieces,
  PlatformOK p1 -> PlatformOK p2 -> length K = 8%nat ->
  c0 < 2 ^ 54 -> 0 < len (concat pieces) -> len (concat pieces) <= 1024 * lim_of c0 -> len (concat pieces) < 2 ^ 64 ->
  exists h1 h2 cv, updates p1 (fresh K F c0) pieces = Ok h1 /\ updates p2 (fresh K F c0) pieces = Ok h2 /\
                   finalize_non_root p1 h1 = Ok cv /\ finalize_non_root p2 h2 = Ok cv.
Proof. exact subtree_cv_platform_independent. Qed.

(* the hypothesis holds for every modelled instruction-set level (kernel algorithms of C05)
   and for the portable kernels at every degree / MAX_SIMD_DEGREE the build scripts can produce *)
Theorem C04_platforms_ok :
  PlatformOK sse2_platform /\ PlatformOK sse41_platform /\ PlatformOK avx2_platform /\ PlatformOK avx512_platform /\
  PlatformOK sse41_ffi_platform /\ PlatformOK avx2_ffi_platform /\
  PlatformOK (sim_platform 1 16) /\ PlatformOK (sim_platform 1 8) /\ PlatformOK (sim_platform 1 1) /\
  PlatformOK (sim_platform 4 8) /\ PlatformOK (sim_platform 8 8).
Proof.
  split; [exact sse2_platform_ok|]. split; [exact sse41_platform_ok|]. split; [exact avx2_platform_ok|].
  split; [exact avx512_platform_ok|]. split; [exact sse41_ffi_platform_ok|]. split; [exact avx2_ffi_platform_ok|].
  repeat split; apply sim_platform_ok; (reflexivity || (intro H; discriminate H)).
Qed.

Example C04_nonvacuous :
  let input := map (fun i => N.of_nat i mod 251) (seq 0 5000) in
  rs_hash sse41_platform input = rs_hash avx512_platform input /\ rs_hash avx2_platform input = rs_hash (sim_platform 1 16) input.
Proof. vm_compute. split; reflexivity. Qed.

(* whole histories over the case language (hashers, readers, offsets, merges, trait operations): any two PlatformOK
   platforms produce identical observation sequences *)
Theorem C04_machine_platform_independent : forall p1 p2, PlatformOK p1 -> PlatformOK p2 -> forall pn1 pn2 m ops obs,
  mode_ok m -> spec_run_case m ops = Some obs ->
  Machine.run_case p1 pn1 m ops = Machine.run_case p2 pn2 m ops.
Proof. exact machine_platform_independent. Qed.

Print Assumptions C04_hash.
Print Assumptions C04_machine_platform_independent.
Print Assumptions C04_keyed_hash.
Print Assumptions C04_derive_key.
Print Assumptions C04_histories.
Print Assumptions C04_extended_output.
Print Assumptions C04_subtree_cvs.
Print Assumptions C04_platforms_ok.

(* ---- the dispatch layer itself, translated from the source text (gen/GenPlatform.v, tools/gen_coq_platform.py) ----
   src_platform_* / src_detect / src_c_* are the translated functions; cfgs_of f is the set of cfg flags of the
   x86-64 build flavour f (default = assembly behind FFI, prefer-intrinsics, pure), defs_c_x86 the C library's build;
   src_cip / src_cx / src_hm / src_xm are the translated Platform methods with each `crate::<mod>::` callee bound to
   the kernel models of the file the translated module table of lib.rs selects. *)

(* which kernel each variant calls, for arbitrary kernels *)
Theorem C04_src_compress_in_place_table : forall f kp k2 k41 k512 kw v cv block bl ctr fl,
  src_platform_compress_in_place (cfgs_of f) k512 k2 k41 kw kp v cv block bl ctr fl =
  option_map (fun k : cip_fn => k cv block bl ctr fl) (rs_x86_compress_table (has_avx512 f) kp k2 k41 k512 v).
Proof. exact src_compress_in_place_table. Qed.

Theorem C04_src_compress_xof_table : forall f kp k2 k41 k512 kw v cv block bl ctr fl,
  src_platform_compress_xof (cfgs_of f) k512 k2 k41 kw kp v cv block bl ctr fl =
  option_map (fun k : cip_fn => k cv block bl ctr fl) (rs_x86_compress_table (has_avx512 f) kp k2 k41 k512 v).
Proof. exact src_compress_xof_table. Qed.

Theorem C04_src_hash_many_table : forall f kp k2 k41 k8 k512 kn kw v inputs key ctr incr fl fs fe cap,
  src_platform_hash_many (cfgs_of f) k8 k512 kn k2 k41 kw kp v inputs key ctr incr fl fs fe cap =
  option_map (fun k : hash_many_fn => k inputs key ctr incr fl fs fe cap)
             (rs_x86_hash_many_table (has_avx512 f) kp k2 k41 k8 k512 v).
Proof. exact src_hash_many_table. Qed.

Theorem C04_src_xof_many_table : forall f k512 (cx : variant -> cip_fn) v cv block bl ctr fl n,
  src_platform_xof_many (cfgs_of f) k512 cx v cv block bl ctr fl n =
  if n =? 0 then Ok []
  else match v with
       | AVX512 => if has_avx512 f then k512 cv block bl ctr fl n
                   else xof_many_loop (cx v) cv block bl ctr fl (N.to_nat n)
       | _ => xof_many_loop (cx v) cv block bl ctr fl (N.to_nat n)
       end.
Proof. exact src_xof_many_table. Qed.

(* every call site of both files passes the parameters of the enclosing function in their own order *)
Theorem C04_src_argorders_identity :
  forallb argorder_identity
    (src_platform_compress_in_place_arms ++ src_platform_compress_xof_arms ++ src_platform_hash_many_arms ++
     src_platform_xof_many_arms ++ src_c_compress_in_place_ladder ++ src_c_compress_xof_ladder ++
     src_c_xof_many_ladder ++ src_c_hash_many_ladder) = true.
Proof. exact src_argorders_identity. Qed.

(* the translated dispatch with the kernel models behind the callees = the platform record of (flavour, variant):
   degree, compress_in_place, compress_xof, hash_many, xof_many at every argument; variants without a record do
   not exist in the build *)
Theorem C04_src_platform_agrees : forall f v,
  match model_platform f v with
  | Some p => agrees (cfgs_of f) v p
  | None => absent (cfgs_of f) v
  end.
Proof. exact src_platform_agrees. Qed.

Theorem C04_src_model_platform_ok : forall f v p, model_platform f v = Some p -> PlatformOK p.
Proof. exact model_platform_ok. Qed.

(* degrees: the debug_assert of simd_degree holds in every build; the x86 table; MAX_SIMD_DEGREE(_OR_2) *)
Theorem C04_src_simd_degree_le_max : forall cfgs v d,
  src_platform_simd_degree cfgs v = Some d -> d <= src_MAX_SIMD_DEGREE cfgs.
Proof. exact src_simd_degree_le_max. Qed.

Theorem C04_src_simd_degree_x86 : forall f v,
  src_platform_simd_degree (cfgs_of f) v =
  rs_x86_hash_many_table (has_avx512 f) rs_degree_Portable rs_degree_SSE2 rs_degree_SSE41 rs_degree_AVX2 rs_degree_AVX512 v.
Proof. exact src_simd_degree_x86. Qed.

Theorem C04_src_max_degree_x86 : forall f, src_MAX_SIMD_DEGREE (cfgs_of f) = if has_avx512 f then 16 else 8.
Proof. exact src_max_degree_x86. Qed.

Theorem C04_src_max_degree_or_2 : forall cfgs, src_MAX_SIMD_DEGREE_OR_2 cfgs = N.max (src_MAX_SIMD_DEGREE cfgs) 2.
Proof. exact src_max_degree_or_2. Qed.

(* detect(): the ladder, highest available level, AVX512 iff both features, never a variant absent from the build,
   always a variant whose dispatch agrees with a PlatformOK record *)
Theorem C04_src_detect_x86 : forall f cpu forced,
  src_detect (cfgs_of f) cpu forced = detect_x86 (has_avx512 f) cpu.
Proof. exact src_detect_x86. Qed.

Theorem C04_src_detect_highest : forall a cpu,
  avail a cpu (detect_x86 a cpu) = true /\
  forall v, avail a cpu v = true -> level v <= level (detect_x86 a cpu).
Proof. exact detect_x86_highest. Qed.

Theorem C04_src_detect_avx512_iff : forall f cpu forced,
  src_detect (cfgs_of f) cpu forced = AVX512 <->
  has_avx512 f = true /\ cpu "avx512f"%string = true /\ cpu "avx512vl"%string = true.
Proof. exact src_detect_avx512_iff. Qed.

Theorem C04_src_detect_exists : forall cfgs cpu, variant_exists cfgs (src_detect cfgs cpu None) = true.
Proof. exact src_detect_exists. Qed.

Theorem C04_src_detect_ok : forall f cpu forced,
  exists p, model_platform f (src_detect (cfgs_of f) cpu forced) = Some p /\
            agrees (cfgs_of f) (src_detect (cfgs_of f) cpu forced) p /\ PlatformOK p.
Proof. exact src_detect_ok. Qed.

(* the C dispatcher at every feature mask *)
Theorem C04_src_c_compress_in_place_table : forall (k512 k41 k2 kp : cip_fn) features cv block bl ctr fl,
  src_c_compress_in_place defs_c_x86 k512 kp k2 k41 features cv block bl ctr fl =
  c_x86_compress_table k512 k41 k2 kp features cv block bl ctr fl.
Proof. exact src_c_compress_in_place_table. Qed.

Theorem C04_src_c_compress_xof_table : forall (k512 k41 k2 kp : cip_fn) features cv block bl ctr fl,
  src_c_compress_xof defs_c_x86 k512 kp k2 k41 features cv block bl ctr fl =
  c_x86_compress_table k512 k41 k2 kp features cv block bl ctr fl.
Proof. exact src_c_compress_xof_table. Qed.

Theorem C04_src_c_hash_many_table : forall k512 k8 k41 k2 kn kp features inputs num_inputs blocks key ctr incr fl fs fe,
  src_c_hash_many defs_c_x86 k8 k512 kn kp k2 k41 features inputs num_inputs blocks key ctr incr fl fs fe =
  c_x86_wide_table k512 k8 k41 k2 kp features inputs num_inputs blocks key ctr incr fl fs fe.
Proof. exact src_c_hash_many_table. Qed.

Theorem C04_src_c_xof_many_table : forall k512 (cx : cip_fn) features cv block bl ctr fl n,
  src_c_xof_many defs_c_x86 cx k512 features cv block bl ctr fl n =
  if n =? 0 then Ok []
  else if has_bit features src_c_feature_AVX512VL then k512 cv block bl ctr fl n
  else xof_many_loop cx cv block bl ctr fl (N.to_nat n).
Proof. exact src_c_xof_many_table. Qed.

Theorem C04_src_c_degree_matches_hash_many : forall features,
  src_c_simd_degree defs_c_x86 features =
  snd (c_x86_wide_table (src_c_feature_AVX512F, 16) (src_c_feature_AVX2, 8) (src_c_feature_SSE41, 4)
                        (src_c_feature_SSE2, 4) (0, 1) features).
Proof. exact src_c_degree_matches_hash_many. Qed.

Theorem C04_src_c_simd_degree_ok : forall features, PlatformOK (c_platform (src_c_simd_degree defs_c_x86 features)).
Proof. exact src_c_simd_degree_ok. Qed.

Theorem C04_src_c_compress_in_place_ok : forall features cv block bl ctr fl,
  src_c_compress_in_place defs_c_x86 cip_rows compress_in_place cip_rows cip_rows features cv block bl ctr fl =
  compress_in_place cv block bl ctr fl.
Proof. exact src_c_compress_in_place_ok. Qed.

Theorem C04_src_c_compress_xof_ok : forall features cv block bl ctr fl,
  src_c_compress_xof defs_c_x86 cx_rows compress_xof cx_rows cx_rows features cv block bl ctr fl =
  compress_xof cv block bl ctr fl.
Proof. exact src_c_compress_xof_ok. Qed.

Theorem C04_src_c_hash_many_ok : forall kn features inputs blocks key ctr incr fl fs fe,
  length key = 8%nat -> (forall i, In i inputs -> length i = (N.to_nat blocks * 64)%nat) ->
  ctr + N.of_nat (length inputs) < 2 ^ 64 ->
  src_c_hash_many defs_c_x86
    (c_hm (hash_many_c8 (load_counters_cmp 8) (load_counters_cmp 4) compress_in_place_rows))
    (c_hm (hash_many_c16 compress_in_place_rows))
    kn (c_hm (hash_many_c1 compress_in_place))
    (c_hm (hash_many_c4 (load_counters_cmp 4) compress_in_place_rows))
    (c_hm (hash_many_c4 (load_counters_cmp 4) compress_in_place_rows))
    features inputs (N.of_nat (length inputs)) blocks key ctr incr fl fs fe =
  Ok (hm_spec inputs key ctr incr fl fs fe).
Proof. exact src_c_hash_many_ok. Qed.

Theorem C04_src_c_xof_many_ok : forall features cv block bl ctr fl n, ctr + n < 2 ^ 64 ->
  src_c_xof_many defs_c_x86
    (src_c_compress_xof defs_c_x86 cx_rows compress_xof cx_rows cx_rows features)
    (guard_xm (xof_many_avx512 compress_xof_rows))
    features cv block bl ctr fl n =
  portable_xof_many cv block bl ctr fl n.
Proof. exact src_c_xof_many_ok. Qed.

(* non-vacuity: the default build on a CPU with AVX2 but no AVX-512 selects AVX2, whose hash_many is the C/assembly
   cascade behind the FFI wrapper *)
Example C04_src_nonvacuous :
  let cpu := env_of ["sse2"; "sse4.1"; "avx2"]%string in
  src_detect (cfgs_of FlDefault) cpu None = AVX2 /\ model_platform FlDefault AVX2 = Some avx2_ffi_platform /\
  src_c_simd_degree defs_c_x86 (N.lor src_c_feature_SSE2 (N.lor src_c_feature_SSE41 src_c_feature_AVX2)) = 8.
Proof. cbv zeta. split; [reflexivity|]. split; [reflexivity|]. vm_compute. reflexivity. Qed.

Print Assumptions C04_src_compress_in_place_table.
Print Assumptions C04_src_compress_xof_table.
Print Assumptions C04_src_hash_many_table.
Print Assumptions C04_src_xof_many_table.
Print Assumptions C04_src_argorders_identity.
Print Assumptions C04_src_platform_agrees.
Print Assumptions C04_src_model_platform_ok.
Print Assumptions C04_src_simd_degree_le_max.
Print Assumptions C04_src_simd_degree_x86.
Print Assumptions C04_src_max_degree_x86.
Print Assumptions C04_src_max_degree_or_2.
Print Assumptions C04_src_detect_x86.
Print Assumptions C04_src_detect_highest.
Print Assumptions C04_src_detect_avx512_iff.
Print Assumptions C04_src_detect_exists.
Print Assumptions C04_src_detect_ok.
Print Assumptions C04_src_c_compress_in_place_table.
Print Assumptions C04_src_c_compress_xof_table.
Print Assumptions C04_src_c_hash_many_table.
Print Assumptions C04_src_c_xof_many_table.
Print Assumptions C04_src_c_degree_matches_hash_many.
Print Assumptions C04_src_c_simd_degree_ok.
Print Assumptions C04_src_c_compress_in_place_ok.
Print Assumptions C04_src_c_compress_xof_ok.
Print Assumptions C04_src_c_hash_many_ok.
Print Assumptions C04_src_c_xof_many_ok.
