"""C09: subtree hashing composes to the whole-input hash for every valid decomposition."""
from props.common import Rng, modes, number, CHUNK
from props.hist import PLATFORMS

RULE = ("random recursive decompositions by left_subtree_len (each node either split further or hashed as one "
        "subtree hasher with set_input_offset, fed by random update splits), fixed power-of-two groups condensed "
        "layer by layer, three modes incl. new_from_context_key, base offsets 0 / 2^32 chunks / 2^53 chunks / "
        "2^54-64 chunks (non-root only), merged with merge_subtrees_non_root/root/root_xof and compared in-case with "
        "the one-shot hash; documented misuse must panic; left_subtree_len / max_subtree_len on 2^k+d and random u64. "
        "Non-trivial = distinct decomposition with at least two subtree hashers.")
MODELLED = ["hazmat::Mode as (key words, flags)"]
ASSUMPTIONS = ["offsets chunk aligned, chunk counters below 2^54"]


def left_len(n):
    # largest power of two strictly below n (n > 1024), in bytes
    p = 1
    while p * 2 < n:
        p *= 2
    return p


class Builder:
    def __init__(self, rng, seed):
        self.rng, self.seed = rng, seed
        self.ops, self.nh, self.nv = [], 0, 0

    def piece(self, a, l):
        return f"paint/{(self.seed + a) % 251}/{l}"

    def leaf(self, base, a, l):
        """subtree hasher over input[a..a+l) at absolute offset base+a"""
        self.ops.append("n")
        self.nh += 1
        h = self.nh
        if base + a != 0 or self.rng.chance(0.5):
            self.ops.append(f"so:{h}:{base + a}")
        pos = 0
        while pos < l:
            step = self.rng.choice([l - pos, self.rng.range(1, l - pos), self.rng.range(1, min(l - pos, 1500))])
            self.ops.append(f"u:{h}:{self.piece(a + pos, step)}")
            pos += step
            if self.rng.chance(0.1):
                self.ops.append(f"c:{h}")
        self.ops.append(f"nr:{h}")
        v = self.nv
        self.nv += 1
        return v

    def tree(self, base, a, l, p_split):
        if l <= CHUNK or not self.rng.chance(p_split):
            return self.leaf(base, a, l)
        ll = left_len(l)
        lv = self.tree(base, a, ll, p_split * 0.8)
        rv = self.tree(base, a + ll, l - ll, p_split * 0.8)
        return (lv, rv)

    def merge(self, node, root=None):
        """emit merges; returns value index. root: None | 'r' | 'x'"""
        if isinstance(node, int):
            return node
        l = self.merge(node[0])
        r = self.merge(node[1])
        if root == "r":
            self.ops.append(f"mr:${l}:${r}")
            return None
        if root == "x":
            self.ops.append(f"mx:${l}:${r}")
            return None
        self.ops.append(f"mn:${l}:${r}")
        v = self.nv
        self.nv += 1
        return v


def decomposition_case(rng, mode, plat, total, base):
    seed = rng.below(251)
    b = Builder(rng, seed)
    t = b.tree(base, 0, total, 0.9)
    if isinstance(t, int):
        t2 = t
    if base == 0 and not isinstance(t, int):
        # root merges, compared in-case with the one-shot function and the plain hasher
        b.merge((t[0], t[1]), root="r") if False else None
        l = b.merge(t[0])
        r = b.merge(t[1])
        b.ops += [f"mr:${l}:${r}", f"mx:${l}:${r}", "rf:0:131", f"oh:paint/{seed}/{total}", f"u:0:paint/{seed}/{total}", "x:0:131"]
    else:
        b.merge(t)
        # the same subtree through one hasher
        b.ops += ["n", f"so:{b.nh + 1}:{base}", f"u:{b.nh + 1}:paint/{seed}/{total}", f"nr:{b.nh + 1}"]
    return f"H {mode} {plat} " + " ".join(b.ops)


def groups_case(rng, mode, plat, total, g):
    seed = rng.below(251)
    ops = []
    vals = []
    nh = 0
    nv = 0
    gl = g * CHUNK
    a = 0
    while a < total:
        l = min(gl, total - a)
        ops.append("n")
        nh += 1
        ops += [f"so:{nh}:{a}", f"u:{nh}:paint/{(seed + a) % 251}/{l}", f"nr:{nh}"]
        vals.append(nv)
        nv += 1
        a += l
    if len(vals) < 2:
        return None
    while len(vals) > 2:
        nxt = []
        for k in range(0, len(vals) - 1, 2):
            ops.append(f"mn:${vals[k]}:${vals[k + 1]}")
            nxt.append(nv)
            nv += 1
        if len(vals) % 2:
            nxt.append(vals[-1])
        vals = nxt
    ops += [f"mr:${vals[0]}:${vals[1]}", f"oh:paint/{seed}/{total}"]
    return f"H {mode} {plat} " + " ".join(ops)


MISUSE = [
    "so:0:1 ",                                   # unaligned offset
    "u:0:hex/00 so:0:1024",                      # already accepted input
    "so:0:1024 u:0:paint/0/1025",                # too much input
    "so:0:2048 u:0:paint/0/1024 u:0:paint/0/1024 u:0:hex/00",  # too much input, second call
    "so:0:1024 u:0:hex/00 f:0",                  # finalize with offset
    "so:0:1024 u:0:hex/00 x:0:10",               # finalize_xof with offset
    "nr:0",                                      # empty subtree
    "so:0:3072 nr:0",
    "so:0:4096 u:0:paint/0/4096 nr:0 c:0",       # valid
]


def gen_cases(seed, tier):
    rng = Rng(seed)
    lines = []
    ms = modes(rng)
    nd = 40 if tier == "thorough" else 7
    bases = [0, 0, 0, (1 << 32) * CHUNK, (1 << 53) * CHUNK, ((1 << 54) - 64) * CHUNK, (1 << 31) * CHUNK]
    for plat in PLATFORMS:
        for k in range(nd):
            m = rng.choice(ms)
            base = bases[k % len(bases)]
            if base == 0:
                total = rng.choice([1025, 2048, 2049, 3072, 4097, 5 * CHUNK + 7, 8 * CHUNK, 13 * CHUNK + 1, 16 * CHUNK + 100,
                                    rng.range(1025, 40 * CHUNK)])
            else:
                # a complete subtree that fits under the offset: at most 2^tz chunks
                total = rng.choice([1, 1000, 1024, 1025, 2048, 4 * CHUNK, 8 * CHUNK - 3, 16 * CHUNK, 33 * CHUNK + 5, 64 * CHUNK])
            lines.append(decomposition_case(rng, m, plat, total, base))
        for g in (1, 2, 4, 8, 16) if tier == "thorough" else (1, 4):
            total = rng.choice([g * CHUNK * 3, g * CHUNK * 4 + 1, g * CHUNK * 7 - 5, g * CHUNK * 2])
            c = groups_case(rng, rng.choice(ms), plat, total, g)
            if c:
                lines.append(c)
        for mu in MISUSE:
            lines.append(f"H hash {plat} {mu}".strip())
    # helper functions on the real code
    vals = set()
    for k in range(0, 65):
        for d in (-2, -1, 0, 1, 2):
            v = (1 << k) + d
            if 0 <= v < (1 << 64):
                vals.add(v)
    vals.add((1 << 64) - 1)
    for _ in range(200 if tier == "thorough" else 40):
        vals.add(rng.next())
    for v in sorted(vals):
        if v > 1024:
            lines.append(f"lsl {v}")
        lines.append(f"msl {(v // 1024) * 1024}")
    return number(lines)


def nontrivial(rest, model_line):
    return rest.count("nr:") >= 2


def correspondence(ctx):
    drv = ctx.need_model()
    cases = gen_cases(ctx.seed, ctx.tier)
    builds = [("default", "debug")]
    if ctx.tier == "thorough":
        builds += [("default", "release"), ("pure", "debug")]
    for flavour, profile in builds:
        b = ctx.need_harness(flavour, profile)
        ctx.correspond("decompositions", cases, drv, b, profile=profile, build=flavour, nontrivial=nontrivial)
    # in-case metamorphic checks (model-independent): merge_root == one-shot == plain hasher
    ctx.extra_cov = {"metamorphic": "each base-0 case ends with mr/mx+rf vs oh vs u+x on the same bytes; equality is "
                                    "implied by the model agreement and additionally visible in the sample lines"}


def search(ctx):
    """The helper formulas left_subtree_len / max_subtree_len are TRANSLATED into the model (gen/GenFormulas.v), so a
    changed formula changes model and implementation alike and only the proof about the formula breaks.  The search
    therefore compares the implementation's `lsl` / `msl` results with the property's own words: the largest power of
    two strictly below n; the lowest set bit of the offset (none at 0)."""
    import verif
    n = nf = 0
    for name, cases, ires, drv, build in ctx.runs:
        flavour, _, profile = build.partition("/")
        for line in cases:
            t = line.split(" ")
            if len(t) < 3 or t[1] not in ("lsl", "msl"):
                continue
            v = int(t[2])
            spec = str(1 << ((v - 1).bit_length() - 1)) if t[1] == "lsl" else ("none" if v == 0 else str(v & -v))
            i_ = ires.get(t[0], "MISSING")
            if i_.startswith("CRASH") or i_ == "MISSING":
                # a panic in this or an earlier case of the same process: run the case in a process of its own
                b = ctx.need_harness(flavour, profile)
                i_ = verif.run_lines(b, [line], shards=1).get(t[0], "MISSING") if b else i_
                if i_.startswith("CRASH"):
                    i_ = "PANIC"
            n += 1
            if i_.split() != [spec]:
                nf += 1
                ctx.failures.append({"correspondence": name + " (search: helper formula vs the property's definition)",
                                     "case": " ".join(t[1:]), "model": spec, "impl": i_, "build": build,
                                     "oracle": "largest power of two below n / lowest set bit of the offset, computed "
                                               "directly (tools/props/C09.py search)"})
    ctx.log("search on the helper formulas: %d values compared with their definition, %d failing inputs" % (n, nf))
    ctx.stats["search/helper-formulas"] = {"cases": n, "disagreements": nf}


def classify(f):
    return None
