(* C09: subtree hashing (hazmat) composes to the whole-input hash. *)
From V Require Import Proofs.ListP.
From V Require Import Base.Res Base.Word Base.MachInt gen.GenConsts gen.GenFormulas
  Spec.Compress Spec.Tree Spec.Blake3 Model.Portable Model.Platform Model.RsChunk Model.RsWide
  Model.RsHasher Model.RsXof Model.RsIo
  Proofs.PortableP Proofs.ChunkP Proofs.TreeP Proofs.FormulasP Proofs.WideP Proofs.C01P Proofs.XofP
  Proofs.StackArithP Proofs.HasherP Proofs.IoP Proofs.C02P.
Open Scope N_scope.

Section Hazmat.
  Variable p : platform.
  Hypothesis POK : PlatformOK p.
  Variables (K : list N) (F : N).
  Hypothesis HK : length K = 8%nat.

  Notation sub c0 bs := (subtree_output spec_c8 tree_height K F c0 bs).
  Notation cvs o := (chaining_value spec_c8 o).
  Local Opaque subtree_output.

  (* set_input_offset on a fresh hasher *)
  Lemma set_input_offset_fresh c0 : c0 < 2 ^ 54 ->
    set_input_offset (new_internal K F) (1024 * c0) = Ok (fresh K F c0).
  Proof.
    intros Hc. unfold set_input_offset, hasher_count, new_internal. cbn [h_cs h_init h_key h_stack].
    change (cs_count (cs_new K 0 F)) with (Ok 0 : res N). cbn [bind cs_new cs_ctr].
    change (rs_count 0 0 0) with (Ok 0 : res N). cbn [bind]. change (0 =? 0) with true. cbn [check bind].
    change rs_CHUNK_LEN with 1024.
    replace (1024 * c0 mod 1024) with 0 by (rewrite N.mul_comm, N.mod_mul; lia).
    change (0 =? 0) with true. cbn [check bind].
    replace (1024 * c0 / 1024) with c0 by (rewrite N.mul_comm, N.div_mul; lia).
    reflexivity.
  Qed.

  Lemma sub_wf c0 bs : len bs <= 1024 * 2 ^ 64 -> wf_output (sub c0 bs).
  Proof.
    intros H. rewrite subtree_output_tree. apply (tree_out_wf spec_c8 p POK spec_c8_cip spec_c8_len K F HK).
    apply spec_tree_wf. exact H.
  Qed.

  (* a subtree hasher: set_input_offset, any update split, finalize_non_root *)
  Theorem subtree_cv_spec c0 pieces :
    c0 < 2 ^ 54 -> 0 < len (concat pieces) -> len (concat pieces) <= 1024 * lim_of c0 ->
    len (concat pieces) < 2 ^ 64 ->
    exists h, updates p (fresh K F c0) pieces = Ok h /\
              finalize_non_root p h = Ok (cvs (sub c0 (concat pieces))).
  Proof.
    intros Hc Hpos Hlim H64.
    pose proof (lim_ok K HK c0 Hc) as Hlo. assert (H54 : 2 ^ 54 = 18014398509481984) by reflexivity.
    destruct (InvS_updates p POK K F HK c0 Hc pieces (fresh K F c0) [] (InvS_fresh p POK K F HK c0 Hc)) as (h & Hu & HI).
    { cbn [app]. exact Hlim. }
    { cbn [app]. exact H64. }
    cbn [app] in HI. exists h. split; [exact Hu|].
    unfold finalize_non_root. rewrite (InvS_count p POK K F HK c0 Hc h _ HI). cbn [bind].
    replace (len (concat pieces) =? 0) with false by lia. cbn [negb check bind].
    rewrite (InvS_output p POK K F HK c0 Hc h _ HI). cbn [bind]. f_equal.
    apply (wf_chaining_value spec_c8 p POK spec_c8_cip). apply sub_wf. rewrite two64 in *. lia.
  Qed.

  (* merge_subtrees_*: parent node over two 32-byte chaining values *)
  Lemma merge_non_root_spec l r : length l = 32%nat -> length r = 32%nat ->
    merge_subtrees_non_root p K F l r = cvs (parent_output K F l r).
  Proof.
    intros Hl Hr. unfold merge_subtrees_non_root, merge_subtrees_inner.
    apply (wf_chaining_value spec_c8 p POK spec_c8_cip). split; [exact HK|].
    cbn [parent_output o_block]. rewrite app_length. lia.
  Qed.

  Lemma merge_root_spec l r : length l = 32%nat -> length r = 32%nat ->
    merge_subtrees_root p K F l r = Ok (stream spec_c64 (parent_output K F l r) 0 32).
  Proof.
    intros Hl Hr. unfold merge_subtrees_root, merge_subtrees_inner, out_root_hash.
    cbn [parent_output o_ctr]. change (0 =? 0) with true. cbn [check bind].
    assert (W2 : length (l ++ r) = 64%nat) by (rewrite app_length; lia).
    rewrite (ok_cip p POK), spec_c8_cip by assumption. rewrite stream_32 by assumption. reflexivity.
  Qed.

  (* ---- every valid decomposition ------------------------------------------------------------- *)
  (* a decomposition of the bytes starting at chunk c0 into subtree hashers (leaves) joined by
     merge_subtrees_non_root; validity = each leaf respects max_subtree_len (lim_of), each join
     respects left_subtree_len *)
  Inductive Decomp : N -> list N -> list N -> Prop :=
  | DLeaf c0 pieces h :
      c0 < 2 ^ 54 -> 0 < len (concat pieces) -> len (concat pieces) <= 1024 * lim_of c0 ->
      len (concat pieces) < 2 ^ 64 ->
      updates p (fresh K F c0) pieces = Ok h ->
      forall cv, finalize_non_root p h = Ok cv -> Decomp c0 (concat pieces) cv
  | DNode c0 l r cvl cvr :
      1024 < len (l ++ r) -> len l = left_len (len (l ++ r)) ->
      Decomp c0 l cvl -> Decomp (c0 + len l / 1024) r cvr ->
      Decomp c0 (l ++ r) (merge_subtrees_non_root p K F cvl cvr).

  Lemma sub_node c0 l r : 1024 < len (l ++ r) -> len (l ++ r) <= 1024 * 2 ^ 64 -> len l = left_len (len (l ++ r)) ->
    sub c0 (l ++ r) = parent_output K F (cvs (sub c0 l)) (cvs (sub (c0 + len l / 1024) r)).
  Proof.
    intros Hlo Hhi Hl. rewrite !subtree_output_tree.
    change tree_height with wide_fuel.
    rewrite <- (st_unfold c0 (l ++ r)), <- (st_unfold c0 l), <- (st_unfold (c0 + len l / 1024) r).
    rewrite (st_node c0 (l ++ r)) by assumption. rewrite <- Hl.
    rewrite take_app_le by lia. rewrite take_all by lia.
    rewrite drop_app_ge by lia. rewrite N.sub_diag, drop_0.
    cbn [tree_out]. rewrite !tree_cv_out. reflexivity.
  Qed.

  Lemma cvs_length o : wf_output o -> length (cvs o) = 32%nat.
  Proof. apply (chaining_value_length spec_c8 spec_c8_len). Qed.

  Theorem decomp_cv : forall c0 bs cv, Decomp c0 bs cv -> len bs <= 1024 * 2 ^ 64 -> cv = cvs (sub c0 bs).
  Proof.
    intros c0 bs cv HD. induction HD as [c0 pieces h Hc Hpos Hlim H64 Hu cv Hf | c0 l r cvl cvr Hlo Hl HDl IHl HDr IHr]; intros Hb.
    - destruct (subtree_cv_spec c0 pieces Hc Hpos Hlim H64) as (h' & Hu' & Hf').
      rewrite Hu in Hu'. inversion Hu'; subst h'. rewrite Hf in Hf'. inversion Hf'. reflexivity.
    - rewrite len_app in Hb.
      rewrite (IHl ltac:(lia)), (IHr ltac:(lia)).
      rewrite merge_non_root_spec by (apply cvs_length, sub_wf; lia).
      rewrite sub_node; [reflexivity|exact Hlo|rewrite len_app; lia|exact Hl].
  Qed.

  (* the root: merging the two top-level subtrees of a decomposition gives the hash / the stream *)
  Theorem decomp_root l r cvl cvr :
    1024 < len (l ++ r) -> len (l ++ r) < 2 ^ 64 -> len l = left_len (len (l ++ r)) ->
    Decomp 0 l cvl -> Decomp (len l / 1024) r cvr ->
    merge_subtrees_root p K F cvl cvr = Ok (stream spec_c64 (sub 0 (l ++ r)) 0 32) /\
    merge_subtrees_inner K F cvl cvr = sub 0 (l ++ r).
  Proof.
    intros Hlo Hhi Hl HDl HDr. rewrite two64 in Hhi. rewrite len_app in Hhi.
    rewrite (decomp_cv _ _ _ HDl) by lia. rewrite (decomp_cv _ _ _ HDr) by lia.
    assert (Hsub : parent_output K F (cvs (sub 0 l)) (cvs (sub (len l / 1024) r)) = sub 0 (l ++ r)).
    { symmetry. rewrite (sub_node 0 l r); [rewrite N.add_0_l; reflexivity|exact Hlo|rewrite len_app; lia|exact Hl]. }
    split.
    - rewrite merge_root_spec by (apply cvs_length, sub_wf; lia). rewrite Hsub. reflexivity.
    - unfold merge_subtrees_inner. exact Hsub.
  Qed.

  (* ---- documented misuse panics ----------------------------------------------------------------- *)
  Lemma misuse_unaligned_offset off : off mod 1024 <> 0 -> set_input_offset (new_internal K F) off = Panic 24.
  Proof.
    intros H. unfold set_input_offset, hasher_count, new_internal. cbn [h_cs h_init].
    change (cs_count (cs_new K 0 F)) with (Ok 0 : res N). cbn [bind cs_new cs_ctr].
    change (rs_count 0 0 0) with (Ok 0 : res N). cbn [bind]. change (0 =? 0) with true. cbn [check bind].
    change rs_CHUNK_LEN with 1024. replace (off mod 1024 =? 0) with false by lia. reflexivity.
  Qed.

  Lemma misuse_offset_after_input c0 h bs off : c0 < 2 ^ 54 -> InvS K F c0 h bs -> 0 < len bs ->
    set_input_offset h off = Panic 23.
  Proof.
    intros Hc HI Hpos. unfold set_input_offset. rewrite (InvS_count p POK K F HK c0 Hc h bs HI). cbn [bind].
    replace (len bs =? 0) with false by lia. reflexivity.
  Qed.

  Lemma misuse_too_much_input c0 h bs input : c0 < 2 ^ 54 -> c0 <> 0 -> InvS K F c0 h bs ->
    1024 * lim_of c0 < len bs + len input -> hasher_update p h input = Panic 21.
  Proof.
    intros Hc Hnz HI Hbig. pose proof (lim_ok K HK c0 Hc) as Hlo. assert (H54 : 2 ^ 54 = 18014398509481984) by reflexivity.
    pose proof HI as (es & (_ & _ & Hi & _) & _ & _ & _ & Hblim & Hb64).
    unfold hasher_update. rewrite Hi. rewrite rs_input_offset_spec by (rewrite two64; lia). cbn [bind].
    rewrite (lim_msl K HK c0 Hc). replace (c0 =? 0) with false by lia. cbn [bind].
    rewrite (InvS_count p POK K F HK c0 Hc h bs HI). cbn [bind]. unfold mi_sub.
    replace (len bs <=? 1024 * lim_of c0) with true by lia. cbn [bind]. unfold nlen. fold (len input).
    replace (len input <=? 1024 * lim_of c0 - len bs) with false by lia. reflexivity.
  Qed.

  Lemma misuse_finalize_with_offset c0 h bs : c0 < 2 ^ 54 -> c0 <> 0 -> InvS K F c0 h bs ->
    hasher_finalize p h = Panic 22 /\ hasher_finalize_output p h = Panic 22.
  Proof.
    intros Hc Hnz (es & (_ & _ & Hi & _) & _). unfold hasher_finalize, hasher_finalize_output. rewrite Hi.
    replace (c0 =? 0) with false by lia. split; reflexivity.
  Qed.

  Lemma misuse_empty_subtree c0 : c0 < 2 ^ 54 -> finalize_non_root p (fresh K F c0) = Panic 25.
  Proof.
    intros Hc. unfold finalize_non_root.
    rewrite (InvS_count p POK K F HK c0 Hc _ [] (InvS_fresh p POK K F HK c0 Hc)). reflexivity.
  Qed.
End Hazmat.
