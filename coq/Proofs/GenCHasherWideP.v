(* The wide core of c/blake3.c as TRANSLATED from the source text (gen/GenCHasherWide.v: compress_chunks_parallel,
   compress_parents_parallel, blake3_compress_subtree_wide, compress_subtree_to_parent_node,
   blake3_hasher_update_base) against the hand-written models of Model/CHasher.v.

   Representation.  As in GenLibWideP.v for the Rust side: the models return lists of chaining values and take the
   capacity of `out` in CVs, the translation threads the byte buffer: for the CVs `cvs` a model returns, the translation
   returns (arr_store out 0 (concat cvs), number of CVs), capacity (length out) / 32.  A C `(pointer, length)` pair is
   the list of all bytes from the pointer on plus the length: the model sees firstn length of it.  The array of input
   pointers handed to blake3_hash_many is a list of such lists; m_c_hash_many takes `blocks * 64` bytes at each of the
   first num_inputs pointers and stores the model's CVs at offset 0 of `out`.  blake3_simd_degree() is p_degree p; the
   build constants are the x86-64 values c_MAX_SIMD_DEGREE (= p_max_degree of c_platform).  Hashers are read through
   hasher_of_flat (GenCHasherLoopsP.v).

   Fuel.  One fuel for every loop / recursion / callee in the translation; the c_*_with functions are the models with
   that discipline.  The two `while` loops that collect input pointers need one unit per pointer: the model has no such
   loop, the *_with model says `OutOfFuel` when the fuel is below the number of pointers.

   Uninitialised reads.  The model flags reading stack bytes nobody wrote (Panic 306 / 307 in
   blake3_compress_subtree_wide, 309 in compress_subtree_to_parent_node); C has no such check and the translation
   (zero-filled locals) none either.  The theorems say: the model's result is one of these flags, or the translation
   equals the model.  309 is shown unreachable. *)
From Coq Require Import NArith List Bool Lia Arith.
From V Require Import Base.Res Base.Word Base.MachInt Base.Arr Base.Slice gen.GenConsts gen.GenFormulas
  gen.GenCHasherSmall gen.GenCHasherLoops gen.GenCHasherWide Spec.Tree Model.Portable Model.Platform Model.RsChunk
  Model.RsWide Model.CHasher Proofs.CFormulasP Proofs.C04P Proofs.GenCHasherSmallP Proofs.GenCHasherLoopsP Proofs.GenLibWideP.
Import ListNotations.
Open Scope N_scope.

Local Notation res_map := GenCHasherSmallP.res_map.

(* ---------- blake3_hash_many as the source sees it ---------- *)
Definition m_c_hash_many (p : platform) (inputs : list (list N)) (num_inputs blocks : N) (key : list N) (counter : N)
    (incr : bool) (flags flags_start flags_end : N) (out : list N) : res (list N) :=
  cvs <- p_hash_many p (map (firstn (N.to_nat (blocks * 64))) (firstn (N.to_nat num_inputs) inputs)) key counter incr
           flags flags_start flags_end (nlen out / 32) ;;
  Ok (arr_store out 0 (concat cvs)).

(* ---------- the models with the translation's fuel discipline ---------- *)
Definition c_cs_update_with (fuel : nat) (p : platform) (cs : chunk_state) (input : list N) : res chunk_state :=
  '(cs, input) <-
    (if 0 <? cs_buf_len cs then
       '(cs, take) <- c_cs_fill_buf cs input ;;
       let input := skipn (N.to_nat take) input in
       if 0 <? nlen input then
         let cv := p_compress_in_place p (cs_cv cs) (cs_buf cs) c_BLOCK_LEN (cs_ctr cs)
                     (N.lor (cs_flags cs) (c_cs_start_flag cs)) in
         blocks <- mi_add 8 (cs_blocks cs) 1 ;;
         Ok (mkCS cv (cs_ctr cs) c_zero_block 0 blocks (cs_flags cs), input)
       else Ok (cs, input)
     else Ok (cs, input)) ;;
  '(cs, input) <- c_cs_update_loop fuel p cs input ;;
  '(cs, _) <- c_cs_fill_buf cs input ;;
  Ok cs.

Definition c_compress_chunks_parallel_with (fuel : nat) (p : platform) (input key : list N) (chunk_counter flags cap : N)
  : res (list (list N)) :=
  assert! (0 <? nlen input) code 1600 ;;
  assert! (nlen input <=? p_max_degree p * c_CHUNK_LEN) code 1601 ;;
  let '(chunks, rem) := chunks_exact_of c_CHUNK_LEN input in
  if Nat.ltb fuel (length chunks) then OutOfFuel else              (* the chunks_array loop: one unit per chunk *)
  assert! (nlen_l chunks <=? p_max_degree p) code 301 ;;
  cvs <- p_hash_many p chunks key chunk_counter true flags c_flag_CHUNK_START c_flag_CHUNK_END cap ;;
  let chunks_array_len := nlen_l chunks in
  if 0 <? nlen rem then
    counter <- mi_add 64 chunk_counter chunks_array_len ;;
    let cs0 := c_cs_init key flags in
    let cs0 := mkCS (cs_cv cs0) counter (cs_buf cs0) (cs_buf_len cs0) (cs_blocks cs0) (cs_flags cs0) in
    cs <- c_cs_update_with fuel p cs0 rem ;;
    assert! (chunks_array_len + 1 <=? cap) code 302 ;;
    Ok (cvs ++ [c_output_chaining_value p (c_cs_output cs)])
  else Ok cvs.

Definition c_compress_parents_parallel_with (fuel : nat) (p : platform) (child_cvs : list (list N)) (key : list N)
    (flags cap : N) : res (list (list N)) :=
  let num := nlen_l child_cvs in
  assert! (2 <=? num) code 1602 ;;
  assert! (num <=? 2 * max_degree_or_2 p) code 1603 ;;
  let '(parents, odd) := pair_blocks child_cvs in
  if Nat.ltb fuel (length parents) then OutOfFuel else             (* the parents_array loop: one unit per parent *)
  assert! (nlen_l parents <=? max_degree_or_2 p) code 303 ;;
  outs <- p_hash_many p parents key 0 false (N.lor flags c_flag_PARENT) 0 0 cap ;;
  match odd with
  | Some cv =>
      assert! (nlen_l parents + 1 <=? cap) code 304 ;;
      Ok (outs ++ [cv])
  | None => Ok outs
  end.

Fixpoint c_compress_subtree_wide_with (fuel : nat) (p : platform) (input key : list N) (chunk_counter flags cap : N)
  : res (list (list N)) :=
  if nlen input <=? p_degree p * c_CHUNK_LEN then
    c_compress_chunks_parallel_with fuel p input key chunk_counter flags cap
  else match fuel with
  | O => OutOfFuel
  | S fuel' =>
      left_len <- c_left_subtree_len (nlen input) ;;
      _ <- mi_sub 64 (nlen input) left_len ;;
      let left := firstn (N.to_nat left_len) input in
      let right := skipn (N.to_nat left_len) input in
      right_counter <- mi_add 64 chunk_counter (left_len / c_CHUNK_LEN) ;;
      let array_cap := 2 * max_degree_or_2 p in
      let degree := if (c_CHUNK_LEN <? left_len) && (p_degree p =? 1) then 2 else p_degree p in
      assert! (degree <=? array_cap) code 305 ;;
      lcvs <- c_compress_subtree_wide_with fuel' p left key chunk_counter flags degree ;;
      rcvs <- c_compress_subtree_wide_with fuel' p right key right_counter flags (array_cap - degree) ;;
      let left_n := nlen_l lcvs in
      let right_n := nlen_l rcvs in
      assert! (left_n =? degree) code 306 ;;
      if left_n =? 1 then
        assert! (1 <=? right_n) code 307 ;;
        assert! (2 <=? cap) code 308 ;;
        Ok (firstn 2 (lcvs ++ rcvs))
      else
        c_compress_parents_parallel_with fuel' p (lcvs ++ rcvs) key flags cap
  end.

Fixpoint c_condense_loop_with (fuel : nat) (p : platform) (cvs : list (list N)) (key : list N) (flags : N)
  : res (list (list N)) :=
  if nlen_l cvs <=? 2 then Ok cvs
  else match fuel with
       | O => OutOfFuel
       | S fuel' =>
           outs <- c_compress_parents_parallel_with fuel' p cvs key flags (max_degree_or_2 p / 2) ;;
           c_condense_loop_with fuel' p outs key flags
       end.

Definition c_compress_subtree_to_parent_node_with (fuel : nat) (p : platform) (input key : list N) (chunk_counter flags : N)
  : res (list N) :=
  assert! (c_CHUNK_LEN <? nlen input) code 1604 ;;
  cvs <- c_compress_subtree_wide_with fuel p input key chunk_counter flags (max_degree_or_2 p) ;;
  assert! (nlen_l cvs <=? max_degree_or_2 p) code 1605 ;;
  cvs <- (if 2 <? max_degree_or_2 p then c_condense_loop_with fuel p cvs key flags else Ok cvs) ;;
  match cvs with
  | a :: b :: _ => Ok (a ++ b)
  | _ => Panic 309
  end.

(* ---------- chunks_exact_of by offsets ---------- *)
Definition piece (s : nat) (X : list N) (i : nat) : list N := firstn s (skipn (s * i) X).

Lemma chunks_exact_seq s : (0 < s)%nat -> forall f X, (length X / s < f)%nat ->
  chunks_exact f s X = (map (piece s X) (seq 0 (length X / s)), skipn (s * (length X / s)) X).
Proof.
  intros Hs. induction f as [|f IH]; intros X Hf; [exfalso; exact (Nat.nlt_0_r _ Hf)|]. cbn [chunks_exact].
  destruct (Nat.ltb (length X) s) eqn:E.
  - apply Nat.ltb_lt in E. rewrite (Nat.div_small _ _ E). cbn [seq map]. rewrite Nat.mul_0_r. reflexivity.
  - apply Nat.ltb_ge in E.
    assert (Hq : (length X / s = S (length (skipn s X) / s))%nat).
    { rewrite skipn_length. replace (length X) with ((length X - s) + 1 * s)%nat at 1 by lia.
      rewrite Nat.div_add by lia. apply Nat.add_1_r. }
    remember (length (skipn s X) / s)%nat as q eqn:Eq. rewrite Hq in Hf |- *.
    rewrite (IH (skipn s X)) by (rewrite <- Eq; apply Nat.succ_lt_mono; exact Hf). rewrite <- Eq. cbn [seq map]. f_equal.
    + f_equal; [unfold piece; rewrite Nat.mul_0_r; reflexivity|].
      rewrite <- seq_shift, map_map. apply map_ext. intros i. unfold piece. rewrite skipn_skipn'. f_equal. f_equal. lia.
    + rewrite skipn_skipn'. f_equal. lia.
Qed.

Lemma chunks_exact_of_seq (s : N) X : 0 < s ->
  chunks_exact_of s X = (map (piece (N.to_nat s) X) (seq 0 (length X / N.to_nat s)),
                         skipn (N.to_nat s * (length X / N.to_nat s)) X).
Proof. intros Hs. unfold chunks_exact_of. apply chunks_exact_seq; [lia|apply Nat.lt_succ_diag_r]. Qed.

(* a piece inside the first n bytes does not see what follows them *)
Lemma piece_firstn s n X i : (s * i + s <= n)%nat -> piece s (firstn n X) i = piece s X i.
Proof.
  intros H. unfold piece. rewrite skipn_firstn_comm, firstn_firstn. f_equal. lia.
Qed.

Lemma pa_set_length {A} (a : list A) i v : length (pa_set a i v) = length a.
Proof. revert i. induction a as [|h tl IH]; intros [|i]; cbn [pa_set length]; try reflexivity. rewrite IH. reflexivity. Qed.

Lemma firstn_pa_set_snoc {A} (a : list A) i v : (i < length a)%nat -> firstn (S i) (pa_set a i v) = firstn i a ++ [v].
Proof.
  revert i. induction a as [|h tl IH]; intros [|i] H; cbn [length] in H; try lia; cbn [pa_set]; [reflexivity|].
  rewrite !firstn_cons. cbn [app]. rewrite IH by lia. reflexivity.
Qed.

Lemma firstn_pa_set_before {A} (a : list A) i j v : (j <= i)%nat -> firstn j (pa_set a i v) = firstn j a.
Proof.
  revert i j. induction a as [|h tl IH]; intros [|i] [|j] H; cbn [pa_set]; try reflexivity; try lia.
  rewrite !firstn_cons. rewrite IH by lia. reflexivity.
Qed.

(* ---------- chunk_state_update: every fuel, and only the first input_len bytes matter ---------- *)
Lemma src_csu_with_exact p fuel self input : cs_shape self ->
  res_map cs_of_src (src_chunk_state_update (p_compress_in_place p) fuel self input (nlen input))
  = c_cs_update_with fuel p (cs_of_src self) input.
Proof.
  intros [Hcv Hbuf]. unfold src_chunk_state_update, c_cs_update_with.
  assert (Tail : forall s i, length (blake3_chunk_state_buf s) = 64%nat ->
    res_map cs_of_src
      ('(self0, input0, input_len0) <- src_chunk_state_update_loop1 (p_compress_in_place p) fuel s i (nlen i) ;;
       '(self1, _) <- src_chunk_state_fill_buf self0 input0 input_len0 ;; Ok self1)
    = ('(cs, input0) <- c_cs_update_loop fuel p (cs_of_src s) i ;;
       '(cs, _) <- c_cs_fill_buf cs input0 ;; Ok cs)).
  { intros s i Hs. rewrite src_chunk_state_update_loop1_as_model.
    destruct (c_cs_update_loop fuel p (cs_of_src s) i) as [[cs r]| |] eqn:EL; cbn [res_map bind fst snd]; try reflexivity.
    apply c_cs_update_loop_buf in EL. destruct EL as [EB _].
    rewrite src_fill_buf_as_model by (destruct cs; cbn in *; congruence).
    rewrite cs_of_src_of_cs.
    destruct (c_cs_fill_buf cs r) as [[cs2 t]| |]; cbn [res_map bind fst snd]; try reflexivity.
    rewrite cs_of_src_of_cs. reflexivity. }
  change (cs_buf_len (cs_of_src self)) with (blake3_chunk_state_buf_len self).
  destruct (0 <? blake3_chunk_state_buf_len self) eqn:Ebl.
  2:{ cbn [bind]. apply (Tail self input Hbuf). }
  rewrite (src_fill_buf_as_model self input Hbuf).
  destruct (c_cs_fill_buf (cs_of_src self) input) as [[cs1 take]| |] eqn:EF;
    cbn [res_map bind fst snd]; try reflexivity.
  apply c_cs_fill_buf_Ok in EF. destruct EF as [Ht [Hb1 _]].
  change (cs_buf (cs_of_src self)) with (blake3_chunk_state_buf self) in Hb1.
  unfold mi_sub. replace (take <=? nlen input) with true by (symmetry; apply N.leb_le; exact Ht).
  cbn [bind]. rewrite <- (nlen_skipn input take Ht).
  set (input1 := skipn (N.to_nat take) input).
  destruct cs1 as [cv1 ctr1 buf1 bl1 blocks1 fl1]. cbn [cs_buf] in Hb1.
  unfold src_of_cs. cbn [cs_cv cs_ctr cs_buf cs_buf_len cs_blocks cs_flags].
  destruct (0 <? nlen input1) eqn:E1.
  2:{ cbn [bind]. apply (Tail (mk_blake3_chunk_state cv1 ctr1 buf1 bl1 blocks1 fl1) input1); cbn; congruence. }
  cbn [blake3_chunk_state_cv blake3_chunk_state_chunk_counter blake3_chunk_state_buf
       blake3_chunk_state_buf_len blake3_chunk_state_blocks_compressed blake3_chunk_state_flags
       set_blake3_chunk_state_cv set_blake3_chunk_state_blocks_compressed set_blake3_chunk_state_buf_len
       set_blake3_chunk_state_buf].
  change (src_chunk_state_maybe_start_flag (mk_blake3_chunk_state cv1 ctr1 buf1 bl1 blocks1 fl1))
    with (c_cs_start_flag (mkCS cv1 ctr1 buf1 bl1 blocks1 fl1)).
  destruct (mi_add 8 blocks1 1) as [b'| |]; cbn [bind]; try reflexivity.
  rewrite (memset_whole buf1 0 64) by congruence.
  apply (Tail (mk_blake3_chunk_state _ ctr1 (repeat 0 64%nat) 0 b' fl1) input1); reflexivity.
Qed.

Lemma firstn_firstn_le {A} a b (l : list A) : (a <= b)%nat -> firstn a (firstn b l) = firstn a l.
Proof. intros H. rewrite firstn_firstn. f_equal. lia. Qed.

Lemma src_fill_buf_ext self l n :
  src_chunk_state_fill_buf self (firstn (N.to_nat n) l) n = src_chunk_state_fill_buf self l n.
Proof.
  unfold src_chunk_state_fill_buf. destruct (mi_sub 64 c_BLOCK_LEN (blake3_chunk_state_buf_len self)) as [t| |];
    cbn [bind]; try reflexivity. cbv zeta.
  rewrite firstn_firstn_le; [reflexivity|]. destruct (n <? t) eqn:E; [lia|]. apply N.ltb_ge in E. lia.
Qed.

Definition csu_tail (k : list N -> list N -> N -> N -> N -> list N) (fuel : nat) (self : src_blake3_chunk_state)
    (X : list N) (m : N) : res src_blake3_chunk_state :=
  '(s, i, l) <- src_chunk_state_update_loop1 k fuel self X m ;;
  '(s, _) <- src_chunk_state_fill_buf s i l ;; Ok s.

Lemma csu_tail_ext k : forall fuel self X m, m <= nlen X ->
  csu_tail k fuel self (firstn (N.to_nat m) X) m = csu_tail k fuel self X m.
Proof.
  unfold csu_tail. induction fuel as [|fuel IH]; intros self X m Hm; cbn [src_chunk_state_update_loop1].
  - destruct (c_BLOCK_LEN <? m); cbn [bind]; [reflexivity|]. rewrite src_fill_buf_ext. reflexivity.
  - destruct (c_BLOCK_LEN <? m) eqn:E; cbn [bind]; [|rewrite src_fill_buf_ext; reflexivity].
    apply N.ltb_lt in E. change c_BLOCK_LEN with 64 in E.
    rewrite firstn_firstn_le by lia.
    destruct (mi_add 8 (blake3_chunk_state_blocks_compressed _) 1) as [b| |]; cbn [bind]; try reflexivity.
    unfold mi_sub. replace (c_BLOCK_LEN <=? m) with true by (symmetry; apply N.leb_le; change c_BLOCK_LEN with 64; lia).
    cbn [bind]. change (N.to_nat c_BLOCK_LEN) with 64%nat. rewrite skipn_firstn_comm.
    replace (N.to_nat m - 64)%nat with (N.to_nat (m - c_BLOCK_LEN)) by (change c_BLOCK_LEN with 64; lia).
    apply IH. unfold nlen in *. rewrite skipn_length. change c_BLOCK_LEN with 64. lia.
Qed.

Lemma src_csu_ext k fuel self l n : n <= nlen l ->
  src_chunk_state_update k fuel self (firstn (N.to_nat n) l) n = src_chunk_state_update k fuel self l n.
Proof.
  intros Hn. unfold src_chunk_state_update.
  destruct (0 <? blake3_chunk_state_buf_len self).
  2:{ cbn [bind]. exact (csu_tail_ext k fuel self l n Hn). }
  rewrite src_fill_buf_ext.
  destruct (src_chunk_state_fill_buf self l n) as [[s1 take]| |] eqn:EF; cbn [bind]; try reflexivity.
  assert (Ht : take <= n).
  { unfold src_chunk_state_fill_buf in EF.
    destruct (mi_sub 64 c_BLOCK_LEN (blake3_chunk_state_buf_len self)) as [t| |]; cbn [bind] in EF; try discriminate.
    cbv zeta in EF.
    destruct (mi_cast 8 (if n <? t then n else t)) as [c| |]; cbn [bind] in EF; try discriminate.
    match type of EF with bind ?m _ = _ => destruct m as [b| |] end; cbn [bind] in EF; try discriminate.
    inversion EF; subst. destruct (n <? t) eqn:E; [lia|]. apply N.ltb_ge in E. lia. }
  unfold mi_sub. replace (take <=? n) with true by (symmetry; apply N.leb_le; exact Ht). cbn [bind].
  rewrite skipn_firstn_comm. replace (N.to_nat n - N.to_nat take)%nat with (N.to_nat (n - take)) by lia.
  assert (Hm : n - take <= nlen (skipn (N.to_nat take) l)) by (unfold nlen in *; rewrite skipn_length; lia).
  destruct (0 <? n - take).
  - match goal with |- context [mi_add 8 ?a 1] => destruct (mi_add 8 a 1) as [b| |] end; cbn [bind]; try reflexivity.
    match goal with |- context [src_chunk_state_update_loop1 k fuel ?s2 _ _] => exact (csu_tail_ext k fuel s2 _ _ Hm) end.
  - cbn [bind]. exact (csu_tail_ext k fuel s1 _ _ Hm).
Qed.

Lemma src_csu_with p fuel self input n : cs_shape self -> n <= nlen input ->
  res_map cs_of_src (src_chunk_state_update (p_compress_in_place p) fuel self input n)
  = c_cs_update_with fuel p (cs_of_src self) (firstn (N.to_nat n) input).
Proof.
  intros HS Hn. rewrite <- (src_csu_ext _ fuel self input n Hn).
  replace n with (nlen (firstn (N.to_nat n) input)) at 2 by (unfold nlen in *; rewrite firstn_length; lia).
  apply src_csu_with_exact. exact HS.
Qed.

(* ---------- the shape of a chunk state is kept by the model's update ---------- *)
Definition cs_shape_m (cs : chunk_state) : Prop := length (cs_cv cs) = 8%nat /\ length (cs_buf cs) = 64%nat.

Lemma cs_shape_of_src s : cs_shape s <-> cs_shape_m (cs_of_src s).
Proof. destruct s; reflexivity. Qed.

Lemma c_cs_update_loop_shape p (WF : plat_wf p) : forall fuel cs input cs' rest, cs_shape_m cs ->
  c_cs_update_loop fuel p cs input = Ok (cs', rest) -> cs_shape_m cs'.
Proof.
  induction fuel as [|fuel IH]; intros cs input cs' rest HS H; cbn [c_cs_update_loop] in H;
    destruct (nlen input <=? c_BLOCK_LEN); try discriminate; try (inversion H; subst; exact HS).
  inv_bind H b Eb. apply IH in H; [exact H|]. destruct HS as [A B]. split; cbn [cs_cv cs_buf]; [|exact B].
  apply (wf_cip p WF). exact A.
Qed.

Lemma c_cs_update_with_shape p (WF : plat_wf p) fuel cs input cs' : cs_shape_m cs ->
  c_cs_update_with fuel p cs input = Ok cs' -> cs_shape_m cs'.
Proof.
  intros HS H. unfold c_cs_update_with in H.
  assert (Htail : forall c0 in0, cs_shape_m c0 ->
            ('(cs, input) <- c_cs_update_loop fuel p c0 in0 ;; '(cs, _) <- c_cs_fill_buf cs input ;; Ok cs) = Ok cs' ->
            cs_shape_m cs').
  { intros c0 in0 H0 Ht. inv_bind Ht x El. destruct x as [c1 in1]. inv_bind Ht y Ef. destruct y as [c2 t].
    inversion Ht; subst. pose proof (c_cs_update_loop_shape p WF _ _ _ _ _ H0 El) as [A B].
    destruct (c_cs_fill_buf_Ok _ _ _ _ Ef) as [_ [Hb Hc]]. split; [rewrite Hc; exact A|rewrite Hb; exact B]. }
  inv_bind H x E0. destruct x as [c1 in1].
  assert (HS1 : cs_shape_m c1).
  { destruct (0 <? cs_buf_len cs).
    - inv_bind E0 y Ef. destruct y as [c0 take]. destruct (c_cs_fill_buf_Ok _ _ _ _ Ef) as [_ [Hb Hc]]. destruct HS as [A B].
      destruct (0 <? nlen (skipn (N.to_nat take) input)).
      + inv_bind E0 b Eb. inversion E0; subst. split; cbn [cs_cv cs_buf]; [apply (wf_cip p WF); rewrite Hc; exact A|reflexivity].
      + inversion E0; subst. split; [rewrite Hc; exact A|rewrite Hb; exact B].
    - inversion E0; subst. exact HS. }
  exact (Htail _ _ HS1 H).
Qed.

(* ---------- the loops that collect input pointers ---------- *)
Fixpoint fill_ptrs (stride : N) (input : list N) (arr : list (list N)) (pos len : N) (k : nat) : list (list N) :=
  match k with
  | O => arr
  | S k' => fill_ptrs stride input (pa_set arr (N.to_nat len) (skipn (N.to_nat pos) input)) (pos + stride) (len + 1) k'
  end.

Lemma fill_ptrs_length stride input : forall k arr pos len, length (fill_ptrs stride input arr pos len k) = length arr.
Proof. induction k as [|k IH]; intros arr pos len; cbn [fill_ptrs]; [reflexivity|]. rewrite IH. apply pa_set_length. Qed.

Lemma fill_ptrs_firstn stride input : forall k arr pos len, (N.to_nat len + k <= length arr)%nat ->
  firstn (N.to_nat len + k) (fill_ptrs stride input arr pos len k)
  = firstn (N.to_nat len) arr ++ map (fun i => skipn (N.to_nat (pos + stride * N.of_nat i)) input) (seq 0 k).
Proof.
  induction k as [|k IH]; intros arr pos len H; cbn [fill_ptrs].
  - rewrite Nat.add_0_r. cbn [seq map]. rewrite app_nil_r. reflexivity.
  - replace (N.to_nat len + S k)%nat with (N.to_nat (len + 1) + k)%nat by lia.
    rewrite IH by (rewrite pa_set_length; lia).
    replace (N.to_nat (len + 1)) with (S (N.to_nat len)) by lia. rewrite firstn_pa_set_snoc by lia.
    rewrite <- app_assoc. f_equal. cbn [seq map app]. f_equal; [f_equal; lia|].
    rewrite <- seq_shift, map_map. apply map_ext. intros i. f_equal. lia.
Qed.

Lemma chunks_loop1_eq input input_len : input_len < 2 ^ 64 -> forall k fuel arr pos len,
  pos + 1024 * N.of_nat k <= input_len -> input_len < pos + 1024 * (N.of_nat k + 1) -> len + N.of_nat k <= 16 ->
  src_compress_chunks_parallel_loop1 fuel input input_len arr pos len
  = if Nat.ltb fuel k then OutOfFuel
    else Ok (fill_ptrs 1024 input arr pos len k, pos + 1024 * N.of_nat k, len + N.of_nat k).
Proof.
  intros Hlt. change (2 ^ 64) with 18446744073709551616 in Hlt.
  induction k as [|k IH]; intros fuel arr pos len H1 H2 H3.
  - assert (E1 : (pos <=? input_len) = true) by (apply N.leb_le; lia).
    assert (E2 : (c_CHUNK_LEN <=? input_len - pos) = false) by (apply N.leb_gt; change c_CHUNK_LEN with 1024; lia).
    replace (Nat.ltb fuel 0) with false by (destruct fuel; reflexivity).
    destruct fuel; cbn [src_compress_chunks_parallel_loop1]; unfold mi_sub; rewrite E1; cbn [bind]; rewrite E2; cbn [fill_ptrs];
      (replace (pos + 1024 * N.of_nat 0) with pos by lia); (replace (len + N.of_nat 0) with len by lia); reflexivity.
  - destruct fuel as [|fuel]; cbn [src_compress_chunks_parallel_loop1]; unfold mi_sub;
      (replace (pos <=? input_len) with true by (symmetry; apply N.leb_le; lia)); cbn [bind];
      (replace (c_CHUNK_LEN <=? input_len - pos) with true by (symmetry; apply N.leb_le; change c_CHUNK_LEN with 1024; lia));
      [reflexivity|].
    replace (len <? 16) with true by (symmetry; apply N.ltb_lt; lia). cbn [check bind].
    change c_CHUNK_LEN with 1024.
    rewrite add64_small by (change (2 ^ 64) with 18446744073709551616; lia). cbn [bind].
    rewrite add64_small by (change (2 ^ 64) with 18446744073709551616; lia). cbn [bind].
    rewrite IH by lia. cbn [fill_ptrs]. change (Nat.ltb (S fuel) (S k)) with (Nat.ltb fuel k).
    destruct (Nat.ltb fuel k); [reflexivity|]. f_equal. f_equal; [f_equal|]; lia.
Qed.

(* ---------- compress_chunks_parallel ---------- *)
Lemma c_out_cv_len p (WF : plat_wf p) o : length (o_cv o) = 8%nat -> length (c_output_chaining_value p o) = 32%nat.
Proof. intros H. unfold c_output_chaining_value. rewrite bytes_of_words_length, (wf_cip p WF) by exact H. reflexivity. Qed.

Lemma div1024 (n : N) : (N.to_nat n / 1024)%nat = N.to_nat (n / 1024).
Proof. rewrite N2Nat.inj_div. reflexivity. Qed.

Theorem src_compress_chunks_parallel_eq p (WF : plat_wf p) fuel input input_len key cc fl out :
  p_max_degree p = c_MAX_SIMD_DEGREE -> length key = 8%nat -> input_len <= nlen input -> nlen input < 2 ^ 64 ->
  src_compress_chunks_parallel (m_c_hash_many p) (p_compress_in_place p) fuel input input_len key cc fl out
  = res_map (fun cvs => (arr_store out 0 (concat cvs), nlen_l cvs))
      (c_compress_chunks_parallel_with fuel p (firstn (N.to_nat input_len) input) key cc fl (nlen out / 32)).
Proof.
  intros Hmax Hkey Hle Hin. unfold src_compress_chunks_parallel, c_compress_chunks_parallel_with.
  set (X := firstn (N.to_nat input_len) input).
  assert (HX : nlen X = input_len) by (unfold X, nlen in *; rewrite firstn_length; lia).
  rewrite HX, Hmax. change (c_MAX_SIMD_DEGREE * c_CHUNK_LEN) with 16384.
  destruct (0 <? input_len); cbn [check bind res_map]; [|reflexivity].
  destruct (input_len <=? 16384) eqn:E1601; cbn [check bind res_map]; [|reflexivity]. apply N.leb_le in E1601.
  rewrite (chunks_exact_of_seq c_CHUNK_LEN X eq_refl). change (N.to_nat c_CHUNK_LEN) with 1024%nat.
  assert (HlX : length X = N.to_nat input_len) by (unfold nlen in HX; lia).
  rewrite HlX, div1024. set (k := N.to_nat (input_len / 1024)).
  assert (Hk1 : 1024 * N.of_nat k <= input_len) by (unfold k; rewrite N2Nat.id; apply N.mul_div_le; discriminate).
  assert (Hk2 : input_len < 1024 * (N.of_nat k + 1)).
  { unfold k. rewrite N2Nat.id. pose proof (N.div_mod input_len 1024 ltac:(discriminate)).
    pose proof (N.mod_lt input_len 1024 ltac:(discriminate)). lia. }
  assert (Hk16 : N.of_nat k <= 16) by lia.
  rewrite (chunks_loop1_eq input input_len ltac:(unfold nlen in *; lia) k fuel (repeat [] 16%nat) 0 0) by lia.
  rewrite map_length, seq_length.
  destruct (Nat.ltb fuel k); cbn [bind res_map]; [reflexivity|].
  unfold nlen_l. rewrite map_length, seq_length.
  replace (N.of_nat k <=? c_MAX_SIMD_DEGREE) with true by (symmetry; apply N.leb_le; exact Hk16). cbn [check bind].
  change (0 + 1024 * N.of_nat k) with (1024 * N.of_nat k). change (0 + N.of_nat k) with (N.of_nat k).
  (* the pointers handed to hash_many are the chunks *)
  unfold m_c_hash_many at 1.
  replace (map (firstn (N.to_nat (16 * 64))) (firstn (N.to_nat (N.of_nat k)) (fill_ptrs 1024 input (repeat [] 16%nat) 0 0 k)))
    with (map (piece 1024 X) (seq 0 k)).
  2:{ rewrite Nat2N.id. pose proof (fill_ptrs_firstn 1024 input k (repeat [] 16%nat) 0 0) as HF.
      change (N.to_nat 0) with 0%nat in HF. cbn [Nat.add firstn app] in HF. rewrite HF by (rewrite repeat_length; lia).
      rewrite map_map. apply map_ext_in. intros i Hi. apply in_seq in Hi.
      unfold X. rewrite piece_firstn by lia. unfold piece. change (N.to_nat (16 * 64)) with 1024%nat. f_equal. f_equal. lia. }
  destruct (p_hash_many p (map (piece 1024 X) (seq 0 k)) key cc true fl c_flag_CHUNK_START c_flag_CHUNK_END (nlen out / 32))
    as [cvs| |] eqn:Ehm; cbn [bind res_map]; try reflexivity.
  destruct (wf_hm p WF _ _ _ _ _ _ _ _ _ Hkey Ehm) as [Hlen [H32 Hcap]]. rewrite map_length, seq_length in Hlen, Hcap.
  assert (Hrem : nlen (skipn (1024 * k) X) = input_len - 1024 * N.of_nat k) by (unfold nlen; rewrite skipn_length, HlX; lia).
  rewrite Hrem.
  replace (0 <? input_len - 1024 * N.of_nat k) with (1024 * N.of_nat k <? input_len).
  2:{ destruct (1024 * N.of_nat k <? input_len) eqn:E; symmetry; [apply N.ltb_lt in E; apply N.ltb_lt; lia|apply N.ltb_ge in E; apply N.ltb_ge; lia]. }
  destruct (1024 * N.of_nat k <? input_len) eqn:Erem; cbn [bind res_map]; [|rewrite Hlen; reflexivity].
  apply N.ltb_lt in Erem.
  destruct (mi_add 64 cc (N.of_nat k)) as [counter| |]; cbn [bind res_map]; try reflexivity.
  unfold mi_sub. replace (1024 * N.of_nat k <=? input_len) with true by (symmetry; apply N.leb_le; lia). cbn [bind].
  set (S0 := set_blake3_chunk_state_chunk_counter (src_chunk_state_init uninit_blake3_chunk_state key fl) counter).
  assert (HS0 : cs_of_src S0 = mkCS (cs_cv (c_cs_init key fl)) counter (cs_buf (c_cs_init key fl)) (cs_buf_len (c_cs_init key fl))
                                    (cs_blocks (c_cs_init key fl)) (cs_flags (c_cs_init key fl))).
  { unfold S0. rewrite <- (src_chunk_state_init_eq uninit_blake3_chunk_state key fl (conj eq_refl eq_refl) Hkey).
    destruct (src_chunk_state_init uninit_blake3_chunk_state key fl); reflexivity. }
  assert (HshS0 : cs_shape S0) by (apply cs_shape_of_src; rewrite HS0; split; [exact Hkey|reflexivity]).
  pose proof (src_csu_with p fuel S0 (skipn (N.to_nat (1024 * N.of_nat k)) input) (input_len - 1024 * N.of_nat k) HshS0
                ltac:(unfold nlen in *; rewrite skipn_length; lia)) as HU.
  rewrite HS0 in HU.
  replace (firstn (N.to_nat (input_len - 1024 * N.of_nat k)) (skipn (N.to_nat (1024 * N.of_nat k)) input))
    with (skipn (1024 * k) X) in HU
    by (unfold X; rewrite skipn_firstn_comm; f_equal; [lia|f_equal; lia]).
  destruct (src_chunk_state_update (p_compress_in_place p) fuel S0 (skipn (N.to_nat (1024 * N.of_nat k)) input)
              (input_len - 1024 * N.of_nat k)) as [s| |]; cbn [GenCHasherSmallP.res_map] in HU; rewrite <- HU; cbn [bind res_map];
    try reflexivity.
  assert (Hs : cs_shape s).
  { apply cs_shape_of_src. refine (c_cs_update_with_shape p WF fuel _ _ _ _ (eq_sym HU)).
    split; [exact Hkey|reflexivity]. }
  rewrite mul64_small by (change c_OUT_LEN with 32; change (2 ^ 64) with 18446744073709551616; lia). cbn [bind].
  assert (Hstore : length (arr_store out 0 (concat cvs)) = length out).
  { apply GenLibWideP.arr_store_length. rewrite (concat_length32 _ H32), Hlen. cbn [Nat.add].
    pose proof (N.mul_div_le (N.of_nat (length out)) 32 ltac:(discriminate)). unfold nlen in Hcap. lia. }
  rewrite Hstore. change c_OUT_LEN with 32. rewrite fits_cv. unfold nlen at 1.
  destruct (N.of_nat k + 1 <=? N.of_nat (length out) / 32) eqn:E302; cbn [check bind res_map]; [|reflexivity].
  rewrite add64_small by (change (2 ^ 64) with 18446744073709551616; lia). cbn [bind res_map].
  pose proof E302 as E302'. rewrite <- fits_cv in E302'. apply N.leb_le in E302'.
  assert (Hocv : src_output_chaining_value (p_compress_in_place p) (src_chunk_state_output s)
                   (firstn 32 (skipn (N.to_nat (N.of_nat k * 32)) (arr_store out 0 (concat cvs))))
                 = c_output_chaining_value p (c_cs_output (cs_of_src s))).
  { rewrite <- (src_chunk_state_output_eq s Hs). apply src_output_chaining_value_eq.
    - rewrite output_t_input_cv_of_src, (src_chunk_state_output_eq s Hs). destruct Hs as [A _]. destruct s; exact A.
    - rewrite firstn_length, skipn_length, Hstore. lia.
    - apply (wf_cip p WF). rewrite output_t_input_cv_of_src, (src_chunk_state_output_eq s Hs). destruct Hs as [A _]. destruct s; exact A. }
  rewrite Hocv.
  assert (Hcv : length (c_output_chaining_value p (c_cs_output (cs_of_src s))) = 32%nat).
  { apply (c_out_cv_len p WF). destruct Hs as [A _]. destruct s; exact A. }
  f_equal. f_equal.
  - rewrite concat_app. cbn [concat]. rewrite app_nil_r.
    replace (N.to_nat (N.of_nat k * 32)) with (length (concat cvs)) by (rewrite (concat_length32 _ H32), Hlen; lia).
    apply arr_store_snoc. rewrite (concat_length32 _ H32), Hlen, Hcv. lia.
  - rewrite app_length, Hlen. cbn [length]. lia.
Qed.

(* ---------- compress_parents_parallel ---------- *)
Lemma parents_loop1_eq ccv num : num < 2 ^ 32 -> forall j fuel arr len,
  2 * (len + N.of_nat j) <= num -> num < 2 * (len + N.of_nat j) + 2 -> len + N.of_nat j <= 16 ->
  src_compress_parents_parallel_loop1 fuel ccv num arr len
  = if Nat.ltb fuel j then OutOfFuel else Ok (fill_ptrs 64 ccv arr (64 * len) len j, len + N.of_nat j).
Proof.
  intros Hlt. change (2 ^ 32) with 4294967296 in Hlt.
  induction j as [|j IH]; intros fuel arr len H1 H2 H3.
  - assert (E2 : (2 <=? num - 2 * len) = false) by (apply N.leb_gt; lia).
    replace (Nat.ltb fuel 0) with false by (destruct fuel; reflexivity).
    destruct fuel; cbn [src_compress_parents_parallel_loop1];
      (rewrite mul64_small by (change (2 ^ 64) with 18446744073709551616; lia)); cbn [bind]; unfold mi_sub;
      (replace (2 * len <=? num) with true by (symmetry; apply N.leb_le; lia)); cbn [bind]; rewrite E2; cbn [fill_ptrs];
      (replace (len + N.of_nat 0) with len by lia); reflexivity.
  - assert (E2 : (2 <=? num - 2 * len) = true) by (apply N.leb_le; lia).
    destruct fuel as [|fuel]; cbn [src_compress_parents_parallel_loop1];
      (rewrite mul64_small by (change (2 ^ 64) with 18446744073709551616; lia)); cbn [bind]; unfold mi_sub;
      (replace (2 * len <=? num) with true by (symmetry; apply N.leb_le; lia)); cbn [bind]; rewrite E2; [reflexivity|].
    rewrite mul64_small by (change c_OUT_LEN with 32; change (2 ^ 64) with 18446744073709551616; lia). cbn [bind].
    replace (len <? 16) with true by (symmetry; apply N.ltb_lt; lia). cbn [check bind].
    rewrite add64_small by (change (2 ^ 64) with 18446744073709551616; lia). cbn [bind].
    rewrite IH by lia. cbn [fill_ptrs]. change (Nat.ltb (S fuel) (S j)) with (Nat.ltb fuel j).
    destruct (Nat.ltb fuel j); [reflexivity|]. change c_OUT_LEN with 32.
    f_equal. f_equal; [|lia]. f_equal; [f_equal; f_equal; f_equal; lia|lia].
Qed.

Theorem src_compress_parents_parallel_eq p (WF : plat_wf p) fuel child_cvs ccv key fl out :
  p_max_degree p = c_MAX_SIMD_DEGREE -> length key = 8%nat -> cvs32 child_cvs ->
  firstn (32 * length child_cvs) ccv = concat child_cvs ->
  src_compress_parents_parallel (m_c_hash_many p) fuel ccv (nlen_l child_cvs) key fl out
  = res_map (fun cvs => (arr_store out 0 (concat cvs), nlen_l cvs))
      (c_compress_parents_parallel_with fuel p child_cvs key fl (nlen out / 32)).
Proof.
  intros Hmax Hkey H32 Hccv. unfold src_compress_parents_parallel, c_compress_parents_parallel_with. cbv zeta.
  unfold max_degree_or_2. rewrite Hmax. change (N.max c_MAX_SIMD_DEGREE 2) with 16. change (2 * 16) with 32.
  unfold nlen_l. set (num := N.of_nat (length child_cvs)).
  destruct (2 <=? num) eqn:E2; cbn [check bind res_map]; [|reflexivity]. apply N.leb_le in E2.
  destruct (num <=? 32) eqn:E32; cbn [check bind res_map]; [|reflexivity]. apply N.leb_le in E32.
  pose proof (pair_blocks_chunks_of _ H32) as HPB.
  rewrite (chunks_exact_of_seq rs_BLOCK_LEN (concat child_cvs) eq_refl) in HPB. change (N.to_nat rs_BLOCK_LEN) with 64%nat in HPB.
  assert (HlC : length (concat child_cvs) = (32 * length child_cvs)%nat) by apply (concat_length32 _ H32).
  set (k := (length (concat child_cvs) / 64)%nat) in HPB.
  assert (Hk : (length child_cvs = 2 * k + length child_cvs mod 2)%nat).
  { unfold k. rewrite HlC. replace (32 * length child_cvs)%nat with (length child_cvs * 32)%nat by lia.
    change 64%nat with (2 * 32)%nat. rewrite Nat.div_mul_cancel_r by lia. apply Nat.div_mod. lia. }
  pose proof (Nat.mod_upper_bound (length child_cvs) 2 ltac:(lia)) as Hmod.
  destruct (pair_blocks_lengths _ child_cvs (le_n _)) as [_ Hodd].
  destruct (pair_blocks child_cvs) as [parents odd]. cbn [fst snd] in HPB, Hodd.
  pose proof (f_equal fst HPB) as Hpar. pose proof (f_equal snd HPB) as Hob. cbn [fst snd] in Hpar, Hob. clear HPB. subst parents.
  rewrite map_length, seq_length.
  rewrite (parents_loop1_eq ccv num ltac:(change (2 ^ 32) with 4294967296; lia) k fuel (repeat [] 16%nat) 0) by (unfold num; lia).
  destruct (Nat.ltb fuel k); cbn [bind res_map]; [reflexivity|].
  replace (N.of_nat k <=? 16) with true by (symmetry; apply N.leb_le; unfold num in *; lia). cbn [check bind].
  change (0 + N.of_nat k) with (N.of_nat k). change (64 * 0) with 0.
  unfold m_c_hash_many at 1.
  replace (map (firstn (N.to_nat (1 * 64))) (firstn (N.to_nat (N.of_nat k)) (fill_ptrs 64 ccv (repeat [] 16%nat) 0 0 k)))
    with (map (piece 64 (concat child_cvs)) (seq 0 k)).
  2:{ rewrite Nat2N.id. pose proof (fill_ptrs_firstn 64 ccv k (repeat [] 16%nat) 0 0) as HF.
      change (N.to_nat 0) with 0%nat in HF. cbn [Nat.add firstn app] in HF.
      rewrite HF by (rewrite repeat_length; unfold num in *; lia).
      rewrite map_map. apply map_ext_in. intros i Hi. apply in_seq in Hi.
      rewrite <- Hccv. rewrite piece_firstn by lia. unfold piece. change (N.to_nat (1 * 64)) with 64%nat. f_equal. f_equal. lia. }
  destruct (p_hash_many p (map (piece 64 (concat child_cvs)) (seq 0 k)) key 0 false (N.lor fl c_flag_PARENT) 0 0 (nlen out / 32))
    as [cvs| |] eqn:Ehm; cbn [bind res_map]; try reflexivity.
  destruct (wf_hm p WF _ _ _ _ _ _ _ _ _ Hkey Ehm) as [Hlen [Hc32 Hcap]]. rewrite map_length, seq_length in Hlen, Hcap.
  rewrite mul64_small by (change (2 ^ 64) with 18446744073709551616; unfold num in *; lia). cbn [bind].
  assert (Hstore : length (arr_store out 0 (concat cvs)) = length out).
  { apply GenLibWideP.arr_store_length. rewrite (concat_length32 _ Hc32), Hlen. cbn [Nat.add].
    pose proof (N.mul_div_le (N.of_nat (length out)) 32 ltac:(discriminate)). unfold nlen in Hcap. lia. }
  destruct odd as [cv|].
  - (* an odd child: the last 32 bytes *)
    assert (Hm1 : (length child_cvs mod 2 = 1)%nat) by exact Hodd.
    replace (2 * N.of_nat k <? num) with true by (symmetry; apply N.ltb_lt; unfold num; lia). cbn [bind].
    rewrite mul64_small by (change c_OUT_LEN with 32; change (2 ^ 64) with 18446744073709551616; unfold num in *; lia). cbn [bind].
    rewrite mul64_small by (change c_OUT_LEN with 32; change (2 ^ 64) with 18446744073709551616; unfold num in *; lia). cbn [bind].
    rewrite Hstore. change c_OUT_LEN with 32. rewrite fits_cv. unfold nlen at 1.
    destruct (N.of_nat k + 1 <=? N.of_nat (length out) / 32) eqn:E304; cbn [check bind res_map]; [|reflexivity].
    rewrite add64_small by (change (2 ^ 64) with 18446744073709551616; unfold num in *; lia). cbn [bind res_map].
    pose proof E304 as E304'. rewrite <- fits_cv in E304'. apply N.leb_le in E304'.
    assert (Hcv : firstn 32 (skipn (N.to_nat (2 * N.of_nat k * 32)) ccv) = cv).
    { cbn [odd_bytes] in Hob. rewrite <- Hob. rewrite <- Hccv. rewrite skipn_firstn_comm. f_equal; [lia|f_equal; lia]. }
    rewrite Hcv.
    assert (Hcvl : length cv = 32%nat).
    { cbn [odd_bytes] in Hob. rewrite <- Hob, skipn_length, HlC. lia. }
    f_equal. f_equal.
    + rewrite concat_app. cbn [concat]. rewrite app_nil_r.
      replace (N.to_nat (N.of_nat k * 32)) with (length (concat cvs)) by (rewrite (concat_length32 _ Hc32), Hlen; lia).
      apply arr_store_snoc. rewrite (concat_length32 _ Hc32), Hlen, Hcvl. lia.
    + rewrite app_length, Hlen. cbn [length]. lia.
  - assert (Hm0 : (length child_cvs mod 2 = 0)%nat) by exact Hodd.
    replace (2 * N.of_nat k <? num) with false by (symmetry; apply N.ltb_ge; unfold num; lia). cbn [bind res_map].
    rewrite Hlen. reflexivity.
Qed.

(* ---------- shapes of the C models' results ---------- *)
Lemma c_chunks_with_shape p (WF : plat_wf p) fuel input key cc fl cap cvs : length key = 8%nat ->
  c_compress_chunks_parallel_with fuel p input key cc fl cap = Ok cvs -> cvs32 cvs /\ nlen_l cvs <= cap.
Proof.
  intros Hkey H. unfold c_compress_chunks_parallel_with in H. bstep H. bstep H.
  destruct (chunks_exact_of c_CHUNK_LEN input) as [chunks rem]. destruct (Nat.ltb fuel (length chunks)); [discriminate|].
  bstep H. bstep H.
  destruct (wf_hm p WF _ _ _ _ _ _ _ _ _ Hkey E) as [Hlen [H32 Hcap]].
  destruct (0 <? nlen rem).
  - bstep H. bstep H. bstep H. inversion H; subst. split.
    + apply cvs32_app; [exact H32|]. constructor; [|constructor]. apply (c_out_cv_len p WF). unfold c_cs_output. cbn [o_cv].
      refine (proj1 (c_cs_update_with_shape p WF fuel _ _ _ _ E1)). split; [exact Hkey|reflexivity].
    + unfold nlen_l in *. rewrite app_length, Hlen. cbn [length]. apply N.leb_le in Heqb2. lia.
  - inversion H; subst. split; [exact H32|]. unfold nlen_l. rewrite Hlen. exact Hcap.
Qed.

Lemma c_parents_with_shape p (WF : plat_wf p) fuel cvs key fl cap outs : length key = 8%nat -> cvs32 cvs ->
  c_compress_parents_parallel_with fuel p cvs key fl cap = Ok outs -> cvs32 outs /\ nlen_l outs <= cap.
Proof.
  intros Hkey H32 H. unfold c_compress_parents_parallel_with in H. cbv zeta in H. bstep H. bstep H.
  destruct (pair_blocks_32 _ cvs (le_n _) H32) as [_ Hodd32].
  destruct (pair_blocks cvs) as [parents odd]. cbn [fst snd] in *. destruct (Nat.ltb fuel (length parents)); [discriminate|].
  bstep H. bstep H.
  destruct (wf_hm p WF _ _ _ _ _ _ _ _ _ Hkey E) as [Hlen [Hc32 Hcap]].
  destruct odd as [cv|].
  - bstep H. inversion H; subst. split.
    + apply cvs32_app; [exact Hc32|]. constructor; [exact (Hodd32 cv eq_refl)|constructor].
    + unfold nlen_l in *. rewrite app_length, Hlen. cbn [length]. apply N.leb_le in Heqb2. lia.
  - inversion H; subst. split; [exact Hc32|]. unfold nlen_l. rewrite Hlen. exact Hcap.
Qed.

Lemma c_wide_with_shape p (WF : plat_wf p) key fl : length key = 8%nat -> forall fuel input cc cap cvs,
  c_compress_subtree_wide_with fuel p input key cc fl cap = Ok cvs -> cvs32 cvs /\ nlen_l cvs <= cap.
Proof.
  intros Hkey. induction fuel as [|fuel IH]; intros input cc cap cvs H; cbn [c_compress_subtree_wide_with] in H.
  - destruct (nlen input <=? p_degree p * c_CHUNK_LEN); [|discriminate].
    exact (c_chunks_with_shape p WF _ _ _ _ _ _ _ Hkey H).
  - destruct (nlen input <=? p_degree p * c_CHUNK_LEN); [exact (c_chunks_with_shape p WF _ _ _ _ _ _ _ Hkey H)|].
    bstep H. bstep H. bstep H. cbv zeta in H. bstep H. bstep H. bstep H. bstep H.
    destruct (IH _ _ _ _ E2) as [Hl32 _]. destruct (IH _ _ _ _ E3) as [Hr32 _].
    destruct (nlen_l a2 =? 1).
    + bstep H. bstep H. replace cvs with (firstn 2 (a2 ++ a3)) by congruence.
      split; [apply cvs32_firstn, cvs32_app; assumption|]. unfold nlen_l in *. rewrite firstn_length.
      apply N.leb_le in Heqb2. lia.
    + exact (c_parents_with_shape p WF _ _ _ _ _ _ Hkey (cvs32_app _ _ Hl32 Hr32) H).
Qed.

(* ---------- blake3_compress_subtree_wide ---------- *)
(* the model's flags for reads of stack bytes nobody wrote: no counterpart in the C text *)
Definition uninit_flag {A} (r : res A) : Prop := r = Panic 306 \/ r = Panic 307 \/ r = Panic 309.

Lemma uninit_flag_bind {A B} (m : res A) (k : A -> res B) : uninit_flag m -> uninit_flag (bind m k).
Proof. intros [H|[H|H]]; rewrite H; cbn [bind]; unfold uninit_flag; auto. Qed.

Theorem src_compress_subtree_wide_eq p (WF : plat_wf p) key fl : p_max_degree p = c_MAX_SIMD_DEGREE -> length key = 8%nat ->
  forall fuel input input_len cc out use_tbb, input_len <= nlen input -> nlen input < 2 ^ 64 ->
  uninit_flag (c_compress_subtree_wide_with fuel p (firstn (N.to_nat input_len) input) key cc fl (nlen out / 32)) \/
  src_blake3_compress_subtree_wide (p_degree p) (m_c_hash_many p) (p_compress_in_place p) fuel input input_len key cc fl out use_tbb
  = res_map (fun cvs => (arr_store out 0 (concat cvs), nlen_l cvs))
      (c_compress_subtree_wide_with fuel p (firstn (N.to_nat input_len) input) key cc fl (nlen out / 32)).
Proof.
  intros Hmax Hkey. pose proof (wf_deg p WF) as Hdeg. change (2 ^ 32) with 4294967296 in Hdeg.
  assert (Hor : max_degree_or_2 p = 16) by (unfold max_degree_or_2; rewrite Hmax; reflexivity).
  induction fuel as [|fuel IH]; intros input input_len cc out use_tbb Hle Hin;
    cbn [src_blake3_compress_subtree_wide c_compress_subtree_wide_with];
    (assert (HX : nlen (firstn (N.to_nat input_len) input) = input_len) by (unfold nlen in *; rewrite firstn_length; lia));
    rewrite HX;
    (rewrite mul64_small by (change c_CHUNK_LEN with 1024; change (2 ^ 64) with 18446744073709551616; lia)); cbn [bind];
    destruct (input_len <=? p_degree p * c_CHUNK_LEN).
  - right. rewrite bind_ret_pair. apply src_compress_chunks_parallel_eq; assumption.
  - right. reflexivity.
  - right. rewrite bind_ret_pair. apply src_compress_chunks_parallel_eq; assumption.
  - destruct (c_left_subtree_len input_len) as [ll| |]; cbn [bind res_map]; [|right; reflexivity|right; reflexivity].
    destruct (mi_sub 64 input_len ll) as [ril| |] eqn:Eril; cbn [bind res_map]; [|right; reflexivity|right; reflexivity].
    destruct (mi_sub_Ok _ _ _ _ Eril) as [Hll ->].
    destruct (mi_add 64 cc (ll / c_CHUNK_LEN)) as [rcc| |]; cbn [bind res_map]; [|right; reflexivity|right; reflexivity].
    cbv zeta. rewrite Hor.
    set (degree := if (c_CHUNK_LEN <? ll) && (p_degree p =? 1) then 2 else p_degree p).
    replace (if (c_CHUNK_LEN <? ll) && (p_degree p =? 1) then Ok 2 else Ok (p_degree p)) with (Ok degree : res N)
      by (unfold degree; destruct ((c_CHUNK_LEN <? ll) && (p_degree p =? 1)); reflexivity).
    cbn [bind].
    assert (Hdg : degree < 4294967296) by (unfold degree; destruct ((c_CHUNK_LEN <? ll) && (p_degree p =? 1)); lia).
    rewrite mul64_small by (change c_OUT_LEN with 32; change (2 ^ 64) with 18446744073709551616; lia). cbn [bind].
    rewrite repeat_length. change c_OUT_LEN with 32. change (N.of_nat 1024) with 1024. change (2 * 16) with 32.
    replace (degree * 32 <=? 1024) with (degree <=? 32).
    2:{ destruct (degree <=? 32) eqn:E; symmetry; [apply N.leb_le in E; apply N.leb_le; lia|apply N.leb_gt in E; apply N.leb_gt; lia]. }
    destruct (degree <=? 32) eqn:E305; cbn [check bind res_map]; [|right; reflexivity]. apply N.leb_le in E305.
    set (cv0 := repeat 0 1024%nat).
    set (lo := firstn (N.to_nat (degree * 32)) cv0). set (ro := skipn (N.to_nat (degree * 32)) cv0).
    assert (Hlo : length lo = N.to_nat (degree * 32)) by (unfold lo, cv0; rewrite firstn_length, repeat_length; lia).
    assert (Hro : length ro = N.to_nat ((32 - degree) * 32)) by (unfold ro, cv0; rewrite skipn_length, repeat_length; lia).
    (* the left call *)
    destruct (IH input ll cc lo use_tbb ltac:(lia) Hin) as [HF|HL].
    { left. rewrite firstn_firstn_le by lia.
      replace (nlen lo / 32) with degree in HF by (unfold nlen; rewrite Hlo, N2Nat.id, div32; reflexivity).
      apply uninit_flag_bind. exact HF. }
    rewrite HL. rewrite firstn_firstn_le by lia.
    replace (nlen lo / 32) with degree by (unfold nlen; rewrite Hlo, N2Nat.id, div32; reflexivity).
    destruct (c_compress_subtree_wide_with fuel p (firstn (N.to_nat ll) input) key cc fl degree) as [lcvs| |] eqn:El;
      cbn [bind res_map]; [|right; reflexivity|right; reflexivity].
    (* the right call *)
    rewrite skipn_firstn_comm. replace (N.to_nat input_len - N.to_nat ll)%nat with (N.to_nat (input_len - ll)) by lia.
    destruct (IH (skipn (N.to_nat ll) input) (input_len - ll) rcc ro use_tbb
                ltac:(unfold nlen in *; rewrite skipn_length; lia) ltac:(unfold nlen in *; rewrite skipn_length; lia)) as [HF|HR].
    { left. replace (nlen ro / 32) with (32 - degree) in HF by (unfold nlen; rewrite Hro, N2Nat.id, div32; reflexivity).
      apply uninit_flag_bind. exact HF. }
    rewrite HR. replace (nlen ro / 32) with (32 - degree) by (unfold nlen; rewrite Hro, N2Nat.id, div32; reflexivity).
    destruct (c_compress_subtree_wide_with fuel p (firstn (N.to_nat (input_len - ll)) (skipn (N.to_nat ll) input)) key rcc fl
                (32 - degree)) as [rcvs| |] eqn:Er; cbn [bind res_map]; [|right; reflexivity|right; reflexivity].
    destruct (c_wide_with_shape p WF key fl Hkey _ _ _ _ _ El) as [Hl32 Hlcap].
    destruct (c_wide_with_shape p WF key fl Hkey _ _ _ _ _ Er) as [Hr32 Hrcap]. unfold nlen_l in *.
    destruct (N.of_nat (length lcvs) =? degree) eqn:E306; cbn [check bind]; [|left; left; reflexivity].
    apply N.eqb_eq in E306.
    assert (Hlfull : arr_store lo 0 (concat lcvs) = concat lcvs).
    { rewrite arr_store_0. rewrite skipn_all2, app_nil_r; [reflexivity|]. rewrite (concat_length32 _ Hl32), Hlo. lia. }
    rewrite Hlfull.
    assert (Hall : forall n, n = (32 * (length lcvs + length rcvs))%nat ->
              firstn n (concat lcvs ++ arr_store ro 0 (concat rcvs)) = concat (lcvs ++ rcvs)).
    { intros n ->. rewrite arr_store_0, app_assoc, <- concat_app.
      replace (32 * (length lcvs + length rcvs))%nat with (length (concat (lcvs ++ rcvs)) + 0)%nat
        by (rewrite (concat_length32 _ (cvs32_app _ _ Hl32 Hr32)), app_length; lia).
      rewrite firstn_app_2, firstn_O, app_nil_r. reflexivity. }
    destruct (N.of_nat (length lcvs) =? 1) eqn:E1.
    + apply N.eqb_eq in E1. destruct (1 <=? N.of_nat (length rcvs)) eqn:E307; cbn [check bind]; [|left; right; left; reflexivity].
      apply N.leb_le in E307. right.
      change (0 + 64 <=? N.of_nat (length out)) with (1 * 32 + 32 <=? N.of_nat (length out)). rewrite fits_cv.
      change (1 + 1) with 2. unfold nlen.
      destruct (2 <=? N.of_nat (length out) / 32); cbn [check bind res_map]; [|reflexivity].
      change (N.to_nat 0) with 0%nat. f_equal. f_equal.
      * f_equal. destruct lcvs as [|a [|a' lt]]; try (cbn [length] in E1; lia).
        destruct rcvs as [|b rt]; [cbn [length] in E307; lia|].
        inversion Hl32 as [|? ? Ha _]; subst. inversion Hr32 as [|? ? Hb _]; subst.
        change (firstn 2 ([a] ++ b :: rt)) with [a; b]. cbn [concat]. rewrite !app_nil_r, arr_store_0. rewrite <- !app_assoc.
        rewrite firstn_app, Ha. change (64 - 32)%nat with 32%nat. rewrite (firstn_all2 a) by lia.
        rewrite firstn_app, Hb, Nat.sub_diag, firstn_O, app_nil_r, firstn_all2 by lia. reflexivity.
      * destruct lcvs as [|a [|a' lt]]; try (cbn [length] in E1; lia).
        destruct rcvs as [|b rt]; [cbn [length] in E307; lia|]. reflexivity.
    + apply N.eqb_neq in E1.
      rewrite add64_small by (change (2 ^ 64) with 18446744073709551616; lia). cbn [bind].
      rewrite bind_ret_pair.
      replace (N.of_nat (length lcvs) + N.of_nat (length rcvs)) with (nlen_l (lcvs ++ rcvs))
        by (unfold nlen_l; rewrite app_length; lia).
      right. apply src_compress_parents_parallel_eq; [exact WF|exact Hmax|exact Hkey|exact (cvs32_app _ _ Hl32 Hr32)|].
      rewrite app_length. apply Hall. reflexivity.
Qed.

(* ---------- compress_subtree_to_parent_node ---------- *)
Lemma c_tpn_loop_eq p (WF : plat_wf p) key fl : p_max_degree p = c_MAX_SIMD_DEGREE -> length key = 8%nat ->
  forall fuel cvs ca oa, cvs32 cvs -> N.of_nat (length cvs) <= 16 ->
  length ca = 512%nat -> firstn (32 * length cvs) ca = concat cvs -> length oa = 256%nat ->
  match c_condense_loop_with fuel p cvs key fl with
  | Ok cvs' => exists ca' oa',
      src_compress_subtree_to_parent_node_loop1 (m_c_hash_many p) fuel key fl ca (nlen_l cvs) oa = Ok (ca', nlen_l cvs', oa') /\
      length ca' = 512%nat /\ firstn (32 * length cvs') ca' = concat cvs' /\ cvs32 cvs'
  | Panic c => src_compress_subtree_to_parent_node_loop1 (m_c_hash_many p) fuel key fl ca (nlen_l cvs) oa = Panic c
  | OutOfFuel => src_compress_subtree_to_parent_node_loop1 (m_c_hash_many p) fuel key fl ca (nlen_l cvs) oa = OutOfFuel
  end.
Proof.
  intros Hmax Hkey. assert (Hor : max_degree_or_2 p = 16) by (unfold max_degree_or_2; rewrite Hmax; reflexivity).
  induction fuel as [|fuel IH]; intros cvs ca oa H32 Hn Hca Hfirst Hoa.
  - cbn [c_condense_loop_with src_compress_subtree_to_parent_node_loop1]. unfold nlen_l.
    rewrite N.ltb_antisym. destruct (N.of_nat (length cvs) <=? 2); cbn [negb]; [|reflexivity].
    exists ca, oa. repeat split; assumption.
  - cbn [c_condense_loop_with src_compress_subtree_to_parent_node_loop1]. unfold nlen_l.
    rewrite N.ltb_antisym. destruct (N.of_nat (length cvs) <=? 2); cbn [negb].
    { exists ca, oa. repeat split; assumption. }
    fold (nlen_l cvs).
    rewrite (src_compress_parents_parallel_eq p WF fuel cvs ca key fl oa Hmax Hkey H32 Hfirst).
    replace (nlen oa / 32) with (max_degree_or_2 p / 2) by (unfold nlen; rewrite Hoa, Hor; reflexivity).
    destruct (c_compress_parents_parallel_with fuel p cvs key fl (max_degree_or_2 p / 2)) as [outs| |] eqn:Ep;
      cbn [bind res_map]; try reflexivity.
    destruct (c_parents_with_shape p WF _ _ _ _ _ _ Hkey H32 Ep) as [Ho32 Hocap]. unfold nlen_l in Hocap.
    rewrite Hor in Hocap. change (16 / 2) with 8 in Hocap.
    unfold nlen_l.
    rewrite mul64_small by (change c_OUT_LEN with 32; change (2 ^ 64) with 18446744073709551616; lia). cbn [bind].
    change c_OUT_LEN with 32.
    replace (N.to_nat (N.of_nat (length outs) * 32)) with (length (concat outs)) by (rewrite (concat_length32 _ Ho32); lia).
    rewrite firstn_arr_store_0 by (rewrite (concat_length32 _ Ho32), Hoa; lia).
    assert (Hca' : length (arr_store ca 0 (concat outs)) = 512%nat).
    { rewrite GenLibWideP.arr_store_length; [exact Hca|]. rewrite (concat_length32 _ Ho32), Hca. lia. }
    assert (Hoa' : length (arr_store oa 0 (concat outs)) = 256%nat).
    { rewrite GenLibWideP.arr_store_length; [exact Hoa|]. rewrite (concat_length32 _ Ho32), Hoa. lia. }
    specialize (IH outs (arr_store ca 0 (concat outs)) (arr_store oa 0 (concat outs)) Ho32 ltac:(lia) Hca').
    rewrite <- (concat_length32 _ Ho32) in IH.
    specialize (IH (firstn_arr_store_0 _ _ ltac:(rewrite (concat_length32 _ Ho32), Hca; lia)) Hoa').
    unfold nlen_l in IH. exact IH.
Qed.

Theorem src_compress_subtree_to_parent_node_eq p (WF : plat_wf p) fuel input input_len key cc fl out use_tbb :
  p_max_degree p = c_MAX_SIMD_DEGREE -> length key = 8%nat -> length out = 64%nat ->
  input_len <= nlen input -> nlen input < 2 ^ 64 ->
  uninit_flag (c_compress_subtree_to_parent_node_with fuel p (firstn (N.to_nat input_len) input) key cc fl) \/
  src_compress_subtree_to_parent_node (p_degree p) (m_c_hash_many p) (p_compress_in_place p) fuel input input_len key cc fl
    out use_tbb
  = c_compress_subtree_to_parent_node_with fuel p (firstn (N.to_nat input_len) input) key cc fl.
Proof.
  intros Hmax Hkey Hout Hle Hin. assert (Hor : max_degree_or_2 p = 16) by (unfold max_degree_or_2; rewrite Hmax; reflexivity).
  unfold src_compress_subtree_to_parent_node, c_compress_subtree_to_parent_node_with.
  assert (HX : nlen (firstn (N.to_nat input_len) input) = input_len) by (unfold nlen in *; rewrite firstn_length; lia).
  rewrite HX. destruct (c_CHUNK_LEN <? input_len); cbn [check bind]; [|right; reflexivity].
  set (cv0 := repeat 0 512%nat).
  destruct (src_compress_subtree_wide_eq p WF key fl Hmax Hkey fuel input input_len cc cv0 use_tbb Hle Hin) as [HF|HW].
  { left. change (nlen cv0 / 32) with 16 in HF. rewrite Hor. apply uninit_flag_bind. exact HF. }
  rewrite HW. change (nlen cv0 / 32) with 16. rewrite Hor.
  destruct (c_compress_subtree_wide_with fuel p (firstn (N.to_nat input_len) input) key cc fl 16) as [cvs| |] eqn:Ew;
    cbn [bind res_map]; [|right; reflexivity|right; reflexivity].
  destruct (c_wide_with_shape p WF key fl Hkey _ _ _ _ _ Ew) as [H32 Hcap]. unfold nlen_l in *.
  change c_MAX_SIMD_DEGREE_OR_2 with 16.
  replace (N.of_nat (length cvs) <=? 16) with true by (symmetry; apply N.leb_le; exact Hcap). cbn [check bind].
  change (2 <? 16) with true. cbv iota.
  assert (Hca : length (arr_store cv0 0 (concat cvs)) = 512%nat).
  { rewrite GenLibWideP.arr_store_length; [reflexivity|]. rewrite (concat_length32 _ H32). unfold cv0. rewrite repeat_length. lia. }
  pose proof (c_tpn_loop_eq p WF key fl Hmax Hkey fuel cvs (arr_store cv0 0 (concat cvs)) (repeat 0 256%nat) H32 Hcap Hca) as HL.
  rewrite <- (concat_length32 _ H32) in HL.
  specialize (HL (firstn_arr_store_0 cv0 (concat cvs) ltac:(rewrite (concat_length32 _ H32); unfold cv0; rewrite repeat_length; lia))
                 (repeat_length _ _)).
  unfold nlen_l in HL.
  destruct (c_condense_loop_with fuel p cvs key fl) as [cvs'| |] eqn:Ec; cbn [bind];
    [|right; rewrite HL; reflexivity|right; rewrite HL; reflexivity].
  destruct HL as [ca' [oa' [H1 [H2 [H3 H4]]]]]. rewrite H1. cbn [bind].
  destruct cvs' as [|a [|b tl]]; [left; right; right; reflexivity|left; right; right; reflexivity|]. right.
  f_equal. rewrite arr_store_whole by (rewrite firstn_length; lia).
  inversion H4 as [|? ? Ha H4']; subst. inversion H4' as [|? ? Hb _]; subst.
  replace 64%nat with (length (a ++ b)) by (rewrite app_length; lia).
  rewrite <- (firstn_firstn_le (length (a ++ b)) (32 * length (a :: b :: tl)) ca') by (rewrite app_length; cbn [length]; lia).
  rewrite H3. cbn [concat]. rewrite app_assoc. rewrite firstn_app, Nat.sub_diag, firstn_O, app_nil_r. apply firstn_all.
Qed.

(* ---------- blake3_hasher_update_base ---------- *)
Definition c_merge_cv_stack_with (fuel : nat) (p : platform) (h : c_hasher) (total_len : N) : res c_hasher :=
  post <- c_popcnt total_len ;;
  c_merge_loop fuel p h post.

Definition c_push_cv_with (fuel : nat) (p : platform) (h : c_hasher) (new_cv : list N) (chunk_counter : N) : res c_hasher :=
  h <- c_merge_cv_stack_with fuel p h chunk_counter ;;
  assert! (ch_stack_len h <? c_cv_stack_slots) code 322 ;;
  len' <- mi_add 8 (ch_stack_len h) 1 ;;
  Ok (mkCH (ch_key h) (ch_chunk h) len' (upd_nth (N.to_nat (ch_stack_len h)) new_cv (ch_stack h))).

Fixpoint c_update_loop_with (fuel : nat) (p : platform) (h : c_hasher) (input : list N) : res (c_hasher * list N) :=
  if nlen input <=? c_CHUNK_LEN then Ok (h, input)
  else match fuel with
  | O => OutOfFuel
  | S fuel' =>
      let cs := ch_chunk h in
      subtree_len <- c_round_down_to_power_of_2 (nlen input) ;;
      count_so_far <- c_count_so_far (cs_ctr cs) ;;
      subtree_len <- c_shrink_loop fuel' subtree_len count_so_far ;;
      subtree_chunks <- c_subtree_chunks subtree_len ;;
      assert! (subtree_len <=? nlen input) code 323 ;;
      h <- (if subtree_len <=? c_CHUNK_LEN then
              let cs0 := c_cs_init (ch_key h) (cs_flags cs) in
              let cs0 := mkCS (cs_cv cs0) (cs_ctr cs) (cs_buf cs0) (cs_buf_len cs0) (cs_blocks cs0) (cs_flags cs0) in
              cs1 <- c_cs_update_with fuel' p cs0 (firstn (N.to_nat subtree_len) input) ;;
              c_push_cv_with fuel' p h (c_output_chaining_value p (c_cs_output cs1)) (cs_ctr cs1)
            else
              cv_pair <- c_compress_subtree_to_parent_node_with fuel' p (firstn (N.to_nat subtree_len) input) (ch_key h)
                           (cs_ctr cs) (cs_flags cs) ;;
              h <- c_push_cv_with fuel' p h (firstn 32 cv_pair) (cs_ctr cs) ;;
              rc <- c_right_cv_counter (cs_ctr cs) subtree_chunks ;;
              c_push_cv_with fuel' p h (firstn 32 (skipn 32 cv_pair)) rc) ;;
      ctr' <- mi_add 64 (cs_ctr cs) subtree_chunks ;;
      let cs' := mkCS (cs_cv cs) ctr' (cs_buf cs) (cs_buf_len cs) (cs_blocks cs) (cs_flags cs) in
      c_update_loop_with fuel' p (ch_with_chunk h cs') (skipn (N.to_nat subtree_len) input)
  end.

Definition c_hasher_update_with (fuel : nat) (p : platform) (h : c_hasher) (input : list N) : res c_hasher :=
  if nlen input =? 0 then Ok h else
  clen <- c_cs_len (ch_chunk h) ;;
  r <- (if 0 <? clen then
          take <- mi_sub 64 c_CHUNK_LEN clen ;;
          let take := N.min take (nlen input) in
          cs <- c_cs_update_with fuel p (ch_chunk h) (firstn (N.to_nat take) input) ;;
          let input := skipn (N.to_nat take) input in
          if 0 <? nlen input then
            let chunk_cv := c_output_chaining_value p (c_cs_output cs) in
            h <- c_push_cv_with fuel p (ch_with_chunk h cs) chunk_cv (cs_ctr cs) ;;
            ctr' <- mi_add 64 (cs_ctr cs) 1 ;;
            Ok (ch_with_chunk h (c_cs_reset cs (ch_key h) ctr'), input, false)
          else Ok (ch_with_chunk h cs, input, true)
        else Ok (h, input, false)) ;;
  let '(h, input, done) := r in
  if done then Ok h else
  '(h, input) <- c_update_loop_with fuel p h input ;;
  if 0 <? nlen input then
    cs <- c_cs_update_with fuel p (ch_chunk h) input ;;
    c_merge_cv_stack_with fuel p (ch_with_chunk h cs) (cs_ctr cs)
  else Ok h.

Lemma wf_len8 p : plat_wf p -> compress_len8 p.
Proof. intros WF cv block bl ctr fl H. apply (wf_cip p WF). exact H. Qed.

Lemma src_hasher_merge_cv_stack_with p fuel (self : src_flat_hasher) total_len : compress_len8 p -> flat_shape self ->
  res_map hasher_of_flat (src_hasher_merge_cv_stack (p_compress_in_place p) fuel self total_len)
  = c_merge_cv_stack_with fuel p (hasher_of_flat self) total_len.
Proof.
  intros HP HS. unfold src_hasher_merge_cv_stack, c_merge_cv_stack_with.
  destruct (c_popcnt total_len) as [post| |]; cbn [bind res_map]; try reflexivity. cbv zeta.
  rewrite <- (src_hasher_merge_cv_stack_loop1_eq p HP fuel self post HS).
  destruct (src_hasher_merge_cv_stack_loop1 _ _ self post); reflexivity.
Qed.

Lemma src_hasher_push_cv_with p fuel (self : src_flat_hasher) new_cv chunk_counter :
  compress_len8 p -> flat_shape self -> length new_cv = 32%nat ->
  res_map hasher_of_flat (src_hasher_push_cv (p_compress_in_place p) fuel self new_cv chunk_counter)
  = c_push_cv_with fuel p (hasher_of_flat self) new_cv chunk_counter.
Proof.
  intros HP HS Hn. unfold src_hasher_push_cv, c_push_cv_with.
  rewrite <- (src_hasher_merge_cv_stack_with p fuel self chunk_counter HP HS).
  destruct (src_hasher_merge_cv_stack (p_compress_in_place p) fuel self chunk_counter) as [h| |] eqn:EM;
    cbn [res_map bind]; try reflexivity.
  apply src_hasher_push_cv_tail; [|exact Hn]. exact (src_hasher_merge_cv_stack_shape p _ _ _ _ HP HS EM).
Qed.

(* hasher_push_cv copies BLAKE3_OUT_LEN bytes of new_cv: a longer array may be passed *)
Lemma src_hasher_push_cv_firstn k fuel (self : src_flat_hasher) new_cv cc :
  src_hasher_push_cv k fuel self new_cv cc = src_hasher_push_cv k fuel self (firstn 32 new_cv) cc.
Proof. unfold src_hasher_push_cv. rewrite firstn_firstn. reflexivity. Qed.

Lemma src_hasher_push_cv_shape p fuel (self h' : src_flat_hasher) new_cv cc : compress_len8 p -> flat_shape self ->
  length new_cv = 32%nat -> src_hasher_push_cv (p_compress_in_place p) fuel self new_cv cc = Ok h' -> flat_shape h'.
Proof.
  intros HP HS Hn H. unfold src_hasher_push_cv in H.
  set (d := firstn 32%nat new_cv) in H. assert (Hd : length d = 32%nat) by (unfold d; rewrite firstn_length; lia). clearbody d.
  inv_bind H h1 EM.
  pose proof (src_hasher_merge_cv_stack_shape p _ _ _ _ HP HS EM) as [[Hk Hcs] Hst].
  inv_bind H t1 E1. inv_check H Ec. cbv zeta in H. inv_bind H t2 E2. inversion H; subst.
  apply N.leb_le in Ec. destruct h1 as [key chunk len st].
  unfold set_blake3_hasher_cv_stack_len, set_blake3_hasher_cv_stack.
  cbn [blake3_hasher_key blake3_hasher_chunk blake3_hasher_cv_stack_len blake3_hasher_cv_stack] in *.
  split; [split; assumption|]. cbn [blake3_hasher_cv_stack].
  rewrite GenCHasherLoopsP.arr_store_length; [exact Hst|]. lia.
Qed.

Lemma c_shrink_loop_le : forall fuel sl csf sl', c_shrink_loop fuel sl csf = Ok sl' -> sl' <= sl.
Proof.
  induction fuel as [|fuel IH]; intros sl csf sl' H; cbn [c_shrink_loop] in H;
    destruct (c_shrink_cond sl csf) as [[|]| |]; cbn [bind] in H; try discriminate; try (inversion H; lia).
  apply IH in H. pose proof (N.div_le_upper_bound sl 2 sl ltac:(discriminate) ltac:(lia)). lia.
Qed.

Lemma src_shrink_loop_eq : forall fuel sl csf, sl < 2 ^ 64 ->
  src_blake3_hasher_update_base_loop2 fuel sl csf = c_shrink_loop fuel sl csf.
Proof.
  induction fuel as [|fuel IH]; intros sl csf Hsl; cbn [src_blake3_hasher_update_base_loop2 c_shrink_loop];
    unfold c_shrink_cond, mcmp, mb, mu, mi_and; cbn [bind]; destruct (mi_sub 64 sl 1) as [t| |] eqn:Et; cbn [bind]; try reflexivity;
    (assert (Htl : t < 2 ^ 64) by (destruct (mi_sub_Ok _ _ _ _ Et) as [_ ->]; lia));
    rewrite (cast64_small _ Htl); cbn [bind]; unfold nneb; destruct (N.land t csf =? 0); cbn [negb]; try reflexivity.
  apply IH. pose proof (N.div_le_upper_bound sl 2 sl ltac:(discriminate) ltac:(lia)). lia.
Qed.

Lemma src_merge_loop1_fields k : forall fuel (self h' : src_flat_hasher) post,
  src_hasher_merge_cv_stack_loop1 k fuel self post = Ok h' ->
  blake3_hasher_chunk h' = blake3_hasher_chunk self /\ blake3_hasher_key h' = blake3_hasher_key self.
Proof.
  induction fuel as [|fuel IH]; intros self h' post H; cbn [src_hasher_merge_cv_stack_loop1] in H;
    destruct (post <? blake3_hasher_cv_stack_len self); try discriminate; try (inversion H; subst; split; reflexivity).
  inv_bind H t2 E2. inv_bind H t3 E3. cbv zeta in H. inv_check H Ec1. inv_check H Ec2. inv_bind H t5 E5.
  apply IH in H. destruct self; exact H.
Qed.

Lemma src_hasher_push_cv_fields k fuel (self h' : src_flat_hasher) cv cc : src_hasher_push_cv k fuel self cv cc = Ok h' ->
  blake3_hasher_chunk h' = blake3_hasher_chunk self /\ blake3_hasher_key h' = blake3_hasher_key self.
Proof.
  intros H. unfold src_hasher_push_cv, src_hasher_merge_cv_stack in H.
  set (d := firstn 32%nat cv) in H. clearbody d.
  inv_bind H h1 EM. inv_bind EM t0 E0. cbv zeta in EM. inv_bind EM h2 EL. inversion EM; subst.
  destruct (src_merge_loop1_fields _ _ _ _ _ EL) as [A B].
  inv_bind H t1 E1. inv_check H Ec. cbv zeta in H. inv_bind H t2 E2. inversion H; subst.
  destruct h1; split; [exact A|exact B].
Qed.

Lemma c_condense_with_shape p (WF : plat_wf p) key fl : length key = 8%nat -> forall fuel cvs cvs', cvs32 cvs ->
  c_condense_loop_with fuel p cvs key fl = Ok cvs' -> cvs32 cvs'.
Proof.
  intros Hkey. induction fuel as [|fuel IH]; intros cvs cvs' H32 H; cbn [c_condense_loop_with] in H;
    destruct (nlen_l cvs <=? 2); try discriminate; try (inversion H; subst; exact H32).
  bstep H. destruct (c_parents_with_shape p WF _ _ _ _ _ _ Hkey H32 E) as [Ho _]. exact (IH _ _ Ho H).
Qed.

Lemma c_tpn_with_len p (WF : plat_wf p) fuel input key cc fl pair : length key = 8%nat ->
  c_compress_subtree_to_parent_node_with fuel p input key cc fl = Ok pair -> length pair = 64%nat.
Proof.
  intros Hkey H. unfold c_compress_subtree_to_parent_node_with in H.
  destruct (c_CHUNK_LEN <? nlen input); cbn [check bind] in H; [|discriminate].
  destruct (c_compress_subtree_wide_with fuel p input key cc fl (max_degree_or_2 p)) as [cvs| |] eqn:Ew; cbn [bind] in H;
    try discriminate.
  destruct (c_wide_with_shape p WF key fl Hkey _ _ _ _ _ Ew) as [H32 _].
  destruct (nlen_l cvs <=? max_degree_or_2 p); cbn [check bind] in H; [|discriminate].
  match type of H with bind ?m _ = _ => destruct m as [cvs'| |] eqn:Ec end; cbn [bind] in H; try discriminate.
  assert (Hc : cvs32 cvs').
  { destruct (2 <? max_degree_or_2 p); [exact (c_condense_with_shape p WF key fl Hkey _ _ _ H32 Ec)|].
    inversion Ec; subst. exact H32. }
  destruct cvs' as [|a [|b tl]]; try discriminate. inversion H; subst.
  inversion Hc as [|? ? Ha Hc']; subst. inversion Hc' as [|? ? Hb _]; subst. rewrite app_length. lia.
Qed.

Lemma hasher_of_flat_set_chunk (s : src_flat_hasher) c :
  hasher_of_flat (set_blake3_hasher_chunk s c) = ch_with_chunk (hasher_of_flat s) (cs_of_src c).
Proof. destruct s; reflexivity. Qed.

Lemma flat_shape_set_chunk (s : src_flat_hasher) c : flat_shape s -> cs_shape c -> flat_shape (set_blake3_hasher_chunk s c).
Proof. intros [[Hk _] Hst] Hc. destruct s. split; [split; assumption|exact Hst]. Qed.

Definition loop_rel (p : platform) (m : res (c_hasher * list N)) (r : res (src_flat_hasher * N * list N)) : Prop :=
  match r with
  | Ok (s', n', i') => m = Ok (hasher_of_flat s', firstn (N.to_nat n') i') /\ flat_shape s' /\ n' <= nlen i' /\ nlen i' < 2 ^ 64
  | Panic c => m = Panic c
  | OutOfFuel => m = OutOfFuel
  end.

Lemma src_update_loop_eq p (WF : plat_wf p) use_tbb : p_max_degree p = c_MAX_SIMD_DEGREE ->
  forall fuel (self : src_flat_hasher) input input_len, flat_shape self -> input_len <= nlen input -> nlen input < 2 ^ 64 ->
  uninit_flag (c_update_loop_with fuel p (hasher_of_flat self) (firstn (N.to_nat input_len) input)) \/
  loop_rel p (c_update_loop_with fuel p (hasher_of_flat self) (firstn (N.to_nat input_len) input))
    (src_blake3_hasher_update_base_loop1 (p_compress_in_place p) (p_degree p) (m_c_hash_many p) fuel self input_len use_tbb input).
Proof.
  intros Hmax. pose proof (wf_len8 p WF) as HP.
  induction fuel as [|fuel IH]; intros self input input_len HS Hle Hin;
    cbn [src_blake3_hasher_update_base_loop1 c_update_loop_with];
    (assert (HX : nlen (firstn (N.to_nat input_len) input) = input_len) by (unfold nlen in *; rewrite firstn_length; lia));
    rewrite HX; rewrite N.ltb_antisym; destruct (input_len <=? c_CHUNK_LEN) eqn:Elen; cbn [negb].
  - right. cbn [loop_rel]. split; [reflexivity|]. split; [exact HS|]. split; assumption.
  - right. reflexivity.
  - right. cbn [loop_rel]. split; [reflexivity|]. split; [exact HS|]. split; assumption.
  - apply N.leb_gt in Elen. change c_CHUNK_LEN with 1024 in Elen.
    assert (Hil : input_len < 2 ^ 64) by (unfold nlen in *; lia).
    rewrite (CFormulasP.c_round_down_spec input_len ltac:(lia) Hil). cbn [bind].
    set (sl0 := 2 ^ N.log2 input_len).
    assert (Hsl0 : sl0 <= input_len) by (unfold sl0; apply N.log2_spec; lia).
    change (blake3_chunk_state_chunk_counter (blake3_hasher_chunk self)) with (cs_ctr (ch_chunk (hasher_of_flat self))).
    change (mi_mul 64 (cs_ctr (ch_chunk (hasher_of_flat self))) c_CHUNK_LEN) with (c_count_so_far (cs_ctr (ch_chunk (hasher_of_flat self)))).
    destruct (c_count_so_far (cs_ctr (ch_chunk (hasher_of_flat self)))) as [csf| |]; cbn [bind]; [|right; reflexivity|right; reflexivity].
    rewrite src_shrink_loop_eq by lia.
    destruct (c_shrink_loop fuel sl0 csf) as [sl| |] eqn:Esh; cbn [bind]; [|right; reflexivity|right; reflexivity].
    pose proof (c_shrink_loop_le _ _ _ _ Esh) as Hsl.
    rewrite CFormulasP.c_subtree_chunks_spec. cbn [bind]. change c_CHUNK_LEN with 1024.
    replace (sl <=? input_len) with true by (symmetry; apply N.leb_le; lia). cbn [check bind].
    rewrite !firstn_firstn_le by lia.
    destruct HS as [[Hk Hcs] Hst]. pose proof (conj (conj Hk Hcs) Hst : flat_shape self) as HS.
    change (ch_key (hasher_of_flat self)) with (blake3_hasher_key self).
    change (cs_flags (ch_chunk (hasher_of_flat self))) with (blake3_chunk_state_flags (blake3_hasher_chunk self)).
    change (cs_ctr (ch_chunk (hasher_of_flat self))) with (blake3_chunk_state_chunk_counter (blake3_hasher_chunk self)).
    set (KEY := blake3_hasher_key self) in *. set (FL := blake3_chunk_state_flags (blake3_hasher_chunk self)).
    set (CTR := blake3_chunk_state_chunk_counter (blake3_hasher_chunk self)).
    match goal with |- uninit_flag (bind ?am _) \/ loop_rel p (bind ?am _) (bind ?asrc _) => set (arm_m := am); set (arm_s := asrc) end.
    assert (Harm : uninit_flag arm_m \/
              match arm_s with
              | Ok s' => arm_m = Ok (hasher_of_flat s') /\ flat_shape s' /\
                         blake3_hasher_chunk s' = blake3_hasher_chunk self /\ blake3_hasher_key s' = KEY
              | Panic c => arm_m = Panic c
              | OutOfFuel => arm_m = OutOfFuel
              end).
    { unfold arm_m, arm_s. destruct (sl <=? 1024) eqn:Esl.
      - (* one chunk *)
        right. cbv zeta.
        set (S0 := set_blake3_chunk_state_chunk_counter (src_chunk_state_init uninit_blake3_chunk_state KEY FL) CTR).
        assert (HS0 : cs_of_src S0 = mkCS (cs_cv (c_cs_init KEY FL)) CTR (cs_buf (c_cs_init KEY FL)) (cs_buf_len (c_cs_init KEY FL))
                                          (cs_blocks (c_cs_init KEY FL)) (cs_flags (c_cs_init KEY FL))).
        { unfold S0. rewrite <- (src_chunk_state_init_eq uninit_blake3_chunk_state KEY FL (conj eq_refl eq_refl) Hk).
          destruct (src_chunk_state_init uninit_blake3_chunk_state KEY FL); reflexivity. }
        assert (HshS0 : cs_shape S0) by (apply cs_shape_of_src; rewrite HS0; split; [exact Hk|reflexivity]).
        pose proof (src_csu_with p fuel S0 input sl HshS0 ltac:(lia)) as HU. rewrite HS0 in HU.
        destruct (src_chunk_state_update (p_compress_in_place p) fuel S0 input sl) as [s1| |];
          cbn [GenCHasherSmallP.res_map] in HU; rewrite <- HU; cbn [bind]; try reflexivity.
        assert (Hs1 : cs_shape s1).
        { apply cs_shape_of_src. refine (c_cs_update_with_shape p WF fuel _ _ _ _ (eq_sym HU)). split; [exact Hk|reflexivity]. }
        assert (Hocv : src_output_chaining_value (p_compress_in_place p) (src_chunk_state_output s1) (repeat 0 32%nat)
                       = c_output_chaining_value p (c_cs_output (cs_of_src s1))).
        { rewrite <- (src_chunk_state_output_eq s1 Hs1). apply src_output_chaining_value_eq.
          - rewrite output_t_input_cv_of_src, (src_chunk_state_output_eq s1 Hs1). destruct Hs1 as [A _]. destruct s1; exact A.
          - reflexivity.
          - apply (wf_cip p WF). rewrite output_t_input_cv_of_src, (src_chunk_state_output_eq s1 Hs1). destruct Hs1 as [A _].
            destruct s1; exact A. }
        rewrite Hocv.
        assert (Hcv : length (c_output_chaining_value p (c_cs_output (cs_of_src s1))) = 32%nat).
        { apply (c_out_cv_len p WF). destruct Hs1 as [A _]. destruct s1; exact A. }
        change (blake3_chunk_state_chunk_counter s1) with (cs_ctr (cs_of_src s1)).
        pose proof (src_hasher_push_cv_with p fuel self _ (cs_ctr (cs_of_src s1)) HP HS Hcv) as HPU.
        destruct (src_hasher_push_cv (p_compress_in_place p) fuel self (c_output_chaining_value p (c_cs_output (cs_of_src s1)))
                    (cs_ctr (cs_of_src s1))) as [s'| |] eqn:Epush; cbn [GenCHasherSmallP.res_map] in HPU; rewrite <- HPU;
          cbn [bind]; try reflexivity.
        destruct (src_hasher_push_cv_fields _ _ _ _ _ _ Epush) as [A B].
        split; [reflexivity|]. split; [exact (src_hasher_push_cv_shape p _ _ _ _ _ HP HS Hcv Epush)|]. split; assumption.
      - (* a subtree: two CVs *)
        destruct (src_compress_subtree_to_parent_node_eq p WF fuel input sl KEY CTR FL (repeat 0 64%nat) use_tbb Hmax Hk eq_refl
                    ltac:(lia) Hin) as [HF|HT].
        { left. apply uninit_flag_bind. exact HF. }
        right. cbv zeta. rewrite HT.
        destruct (c_compress_subtree_to_parent_node_with fuel p (firstn (N.to_nat sl) input) KEY CTR FL) as [pair| |] eqn:Et;
          cbn [bind]; try reflexivity.
        pose proof (c_tpn_with_len p WF _ _ _ _ _ _ Hk Et) as Hpl.
        rewrite src_hasher_push_cv_firstn.
        assert (H1 : length (firstn 32 pair) = 32%nat) by (rewrite firstn_length; lia).
        pose proof (src_hasher_push_cv_with p fuel self _ CTR HP HS H1) as HPU.
        destruct (src_hasher_push_cv (p_compress_in_place p) fuel self (firstn 32 pair) CTR) as [s1| |] eqn:Ep1;
          cbn [GenCHasherSmallP.res_map] in HPU; fold CTR in HPU |- *; rewrite <- HPU; cbn [bind]; try reflexivity.
        destruct (src_hasher_push_cv_fields _ _ _ _ _ _ Ep1) as [A1 B1].
        pose proof (src_hasher_push_cv_shape p _ _ _ _ _ HP HS H1 Ep1) as HS1.
        rewrite A1. fold CTR. change (mi_add 64 CTR (sl / 1024 / 2)) with (c_right_cv_counter CTR (sl / 1024)).
        destruct (c_right_cv_counter CTR (sl / 1024)) as [rc| |]; cbn [bind]; try reflexivity.
        assert (H2 : length (firstn 32 (skipn 32 pair)) = 32%nat) by (rewrite firstn_length, skipn_length; lia).
        pose proof (src_hasher_push_cv_with p fuel s1 _ rc HP HS1 H2) as HPU2.
        destruct (src_hasher_push_cv (p_compress_in_place p) fuel s1 (firstn 32 (skipn 32 pair)) rc) as [s2| |] eqn:Ep2;
          cbn [GenCHasherSmallP.res_map] in HPU2; rewrite <- HPU2; cbn [bind]; try reflexivity.
        destruct (src_hasher_push_cv_fields _ _ _ _ _ _ Ep2) as [A2 B2].
        split; [reflexivity|]. split; [exact (src_hasher_push_cv_shape p _ _ _ _ _ HP HS1 H2 Ep2)|].
        split; [rewrite A2; exact A1|rewrite B2; exact B1]. }
    clearbody arm_m arm_s. destruct Harm as [HF|Harm]; [left; apply uninit_flag_bind; exact HF|].
    destruct arm_s as [s'| |]; [|right; rewrite Harm; reflexivity|right; rewrite Harm; reflexivity].
    destruct Harm as [Harm [HS' [Hch' Hk']]]. rewrite Harm. cbn [bind]. rewrite Hch'. fold CTR.
    destruct (mi_add 64 CTR (sl / 1024)) as [ctr'| |]; cbn [bind]; [|right; reflexivity|right; reflexivity].
    unfold mi_sub. replace (sl <=? input_len) with true by (symmetry; apply N.leb_le; lia). cbn [bind].
    set (s'' := set_blake3_hasher_chunk s' (set_blake3_chunk_state_chunk_counter (blake3_hasher_chunk self) ctr')).
    assert (HS'' : flat_shape s'').
    { apply flat_shape_set_chunk; [exact HS'|]. destruct Hcs as [A B]. destruct (blake3_hasher_chunk self); split; assumption. }
    assert (Hh'' : hasher_of_flat s'' = ch_with_chunk (hasher_of_flat s')
              (mkCS (cs_cv (ch_chunk (hasher_of_flat self))) ctr' (cs_buf (ch_chunk (hasher_of_flat self)))
                    (cs_buf_len (ch_chunk (hasher_of_flat self))) (cs_blocks (ch_chunk (hasher_of_flat self)))
                    (cs_flags (ch_chunk (hasher_of_flat self))))).
    { unfold s''. rewrite hasher_of_flat_set_chunk. reflexivity. }
    match goal with |- context [c_update_loop_with fuel p ?H _] => replace H with (hasher_of_flat s'') by (rewrite Hh''; reflexivity) end.
    rewrite skipn_firstn_comm.
    replace (N.to_nat input_len - N.to_nat sl)%nat with (N.to_nat (input_len - sl)) by lia.
    apply (IH s'' (skipn (N.to_nat sl) input) (input_len - sl) HS'');
      unfold nlen in *; rewrite skipn_length; lia.
Qed.

Lemma min_if a b : (if b <? a then b else a) = N.min a b.
Proof. destruct (b <? a) eqn:E; [apply N.ltb_lt in E|apply N.ltb_ge in E]; lia. Qed.

Theorem src_blake3_hasher_update_base_eq p (WF : plat_wf p) fuel (self : src_flat_hasher) input input_len use_tbb :
  p_max_degree p = c_MAX_SIMD_DEGREE -> flat_shape self -> input_len <= nlen input -> nlen input < 2 ^ 64 ->
  uninit_flag (c_hasher_update_with fuel p (hasher_of_flat self) (firstn (N.to_nat input_len) input)) \/
  res_map hasher_of_flat
    (src_blake3_hasher_update_base (p_compress_in_place p) (p_degree p) (m_c_hash_many p) fuel self input input_len use_tbb)
  = c_hasher_update_with fuel p (hasher_of_flat self) (firstn (N.to_nat input_len) input).
Proof.
  intros Hmax HS Hle Hin. pose proof (wf_len8 p WF) as HP.
  unfold src_blake3_hasher_update_base, c_hasher_update_with.
  assert (HX : nlen (firstn (N.to_nat input_len) input) = input_len) by (unfold nlen in *; rewrite firstn_length; lia).
  rewrite HX. destruct (input_len =? 0); [right; reflexivity|]. cbv zeta.
  change (c_cs_len (ch_chunk (hasher_of_flat self)))
    with (c_chunk_state_len (blake3_chunk_state_blocks_compressed (blake3_hasher_chunk self))
            (blake3_chunk_state_buf_len (blake3_hasher_chunk self))).
  destruct (c_chunk_state_len (blake3_chunk_state_blocks_compressed (blake3_hasher_chunk self))
              (blake3_chunk_state_buf_len (blake3_hasher_chunk self))) as [clen| |]; cbn [bind res_map];
    [|right; reflexivity|right; reflexivity].
  (* the second half, for any state the first half can leave *)
  assert (Htail : forall (s1 : src_flat_hasher) in1 n1, flat_shape s1 -> n1 <= nlen in1 -> nlen in1 < 2 ^ 64 ->
    let m := ('(h, input) <- c_update_loop_with fuel p (hasher_of_flat s1) (firstn (N.to_nat n1) in1) ;;
              if 0 <? nlen input then
                cs <- c_cs_update_with fuel p (ch_chunk h) input ;;
                c_merge_cv_stack_with fuel p (ch_with_chunk h cs) (cs_ctr cs)
              else Ok h) in
    uninit_flag m \/
    res_map hasher_of_flat
      ('(self, input_len, input_bytes) <- src_blake3_hasher_update_base_loop1 (p_compress_in_place p) (p_degree p)
                                            (m_c_hash_many p) fuel s1 n1 use_tbb in1 ;;
       self <- (if (0 <? input_len) then
           t11 <- src_chunk_state_update (p_compress_in_place p) fuel (blake3_hasher_chunk self) input_bytes input_len ;;
           let self := set_blake3_hasher_chunk self t11 in
           self <- src_hasher_merge_cv_stack (p_compress_in_place p) fuel self
                     (blake3_chunk_state_chunk_counter (blake3_hasher_chunk self)) ;;
           Ok self
         else Ok self) ;;
       Ok self) = m).
  { intros s1 in1 n1 HS1 Hle1 Hin1. cbv zeta.
    destruct (src_update_loop_eq p WF use_tbb Hmax fuel s1 in1 n1 HS1 Hle1 Hin1) as [HF|HL].
    { left. apply uninit_flag_bind. exact HF. }
    right. destruct (src_blake3_hasher_update_base_loop1 (p_compress_in_place p) (p_degree p) (m_c_hash_many p) fuel s1 n1 use_tbb in1)
      as [[[s2 n2] in2]| |]; cbn [loop_rel] in HL; [|rewrite HL; reflexivity|rewrite HL; reflexivity].
    destruct HL as [HL [HS2 [Hle2 Hin2]]]. rewrite HL. cbn [bind].
    assert (HX2 : nlen (firstn (N.to_nat n2) in2) = n2) by (unfold nlen in *; rewrite firstn_length; lia).
    rewrite HX2. destruct (0 <? n2); cbn [bind res_map]; [|reflexivity].
    destruct HS2 as [[Hk2 Hcs2] Hst2]. pose proof (conj (conj Hk2 Hcs2) Hst2 : flat_shape s2) as HS2.
    pose proof (src_csu_with p fuel (blake3_hasher_chunk s2) in2 n2 Hcs2 Hle2) as HU.
    change (ch_chunk (hasher_of_flat s2)) with (cs_of_src (blake3_hasher_chunk s2)).
    destruct (src_chunk_state_update (p_compress_in_place p) fuel (blake3_hasher_chunk s2) in2 n2) as [c3| |];
      cbn [GenCHasherSmallP.res_map] in HU; rewrite <- HU; cbn [bind res_map]; try reflexivity.
    assert (Hc3 : cs_shape c3).
    { apply cs_shape_of_src. refine (c_cs_update_with_shape p WF fuel _ _ _ _ (eq_sym HU)). apply cs_shape_of_src. exact Hcs2. }
    pose proof (src_hasher_merge_cv_stack_with p fuel (set_blake3_hasher_chunk s2 c3) (blake3_chunk_state_chunk_counter c3) HP
                  (flat_shape_set_chunk s2 c3 HS2 Hc3)) as HM.
    rewrite hasher_of_flat_set_chunk in HM.
    change (blake3_chunk_state_chunk_counter (blake3_hasher_chunk (set_blake3_hasher_chunk s2 c3)))
      with (blake3_chunk_state_chunk_counter c3).
    change (cs_ctr (cs_of_src c3)) with (blake3_chunk_state_chunk_counter c3). rewrite <- HM.
    destruct (src_hasher_merge_cv_stack (p_compress_in_place p) fuel (set_blake3_hasher_chunk s2 c3)
                (blake3_chunk_state_chunk_counter c3)); reflexivity. }
  destruct (0 <? clen).
  2:{ cbn [bind]. exact (Htail self input input_len HS Hle Hin). }
  destruct (mi_sub 64 c_CHUNK_LEN clen) as [want| |]; cbn [bind res_map]; [|right; reflexivity|right; reflexivity].
  replace (if input_len <? want then Ok input_len else Ok want) with (Ok (N.min want input_len) : res N)
    by (rewrite <- min_if; destruct (input_len <? want); reflexivity).
  cbn [bind]. set (take := N.min want input_len).
  assert (Htake : take <= input_len) by apply N.le_min_r. clearbody take.
  destruct HS as [[Hk Hcs] Hst]. pose proof (conj (conj Hk Hcs) Hst : flat_shape self) as HS.
  pose proof (src_csu_with p fuel (blake3_hasher_chunk self) input take Hcs ltac:(lia)) as HU.
  rewrite firstn_firstn_le by lia.
  change (ch_chunk (hasher_of_flat self)) with (cs_of_src (blake3_hasher_chunk self)).
  destruct (src_chunk_state_update (p_compress_in_place p) fuel (blake3_hasher_chunk self) input take) as [c1| |];
    cbn [GenCHasherSmallP.res_map] in HU; rewrite <- HU; cbn [bind res_map]; [|right; reflexivity|right; reflexivity].
  assert (Hc1 : cs_shape c1).
  { apply cs_shape_of_src. refine (c_cs_update_with_shape p WF fuel _ _ _ _ (eq_sym HU)). apply cs_shape_of_src. exact Hcs. }
  unfold mi_sub. replace (take <=? input_len) with true by (symmetry; apply N.leb_le; exact Htake). cbn [bind].
  rewrite skipn_firstn_comm. replace (N.to_nat input_len - N.to_nat take)%nat with (N.to_nat (input_len - take)) by lia.
  assert (HX1 : nlen (firstn (N.to_nat (input_len - take)) (skipn (N.to_nat take) input)) = input_len - take).
  { unfold nlen in *. rewrite firstn_length, skipn_length. lia. }
  rewrite HX1.
  pose proof (flat_shape_set_chunk self c1 HS Hc1) as HS1.
  destruct (0 <? input_len - take).
  2:{ right. cbn [bind res_map]. rewrite hasher_of_flat_set_chunk. reflexivity. }
  assert (Hocv : src_output_chaining_value (p_compress_in_place p) (src_chunk_state_output c1) (repeat 0 32%nat)
                 = c_output_chaining_value p (c_cs_output (cs_of_src c1))).
  { rewrite <- (src_chunk_state_output_eq c1 Hc1). apply src_output_chaining_value_eq.
    - rewrite output_t_input_cv_of_src, (src_chunk_state_output_eq c1 Hc1). destruct Hc1 as [A _]. destruct c1; exact A.
    - reflexivity.
    - apply (wf_cip p WF). rewrite output_t_input_cv_of_src, (src_chunk_state_output_eq c1 Hc1). destruct Hc1 as [A _].
      destruct c1; exact A. }
  change (blake3_hasher_chunk (set_blake3_hasher_chunk self c1)) with c1. rewrite Hocv.
  assert (Hcv : length (c_output_chaining_value p (c_cs_output (cs_of_src c1))) = 32%nat).
  { apply (c_out_cv_len p WF). destruct Hc1 as [A _]. destruct c1; exact A. }
  pose proof (src_hasher_push_cv_with p fuel (set_blake3_hasher_chunk self c1) _ (blake3_chunk_state_chunk_counter c1) HP HS1 Hcv) as HPU.
  rewrite hasher_of_flat_set_chunk in HPU. change (cs_ctr (cs_of_src c1)) with (blake3_chunk_state_chunk_counter c1).
  destruct (src_hasher_push_cv (p_compress_in_place p) fuel (set_blake3_hasher_chunk self c1)
              (c_output_chaining_value p (c_cs_output (cs_of_src c1))) (blake3_chunk_state_chunk_counter c1)) as [s2| |] eqn:Epush;
    cbn [GenCHasherSmallP.res_map] in HPU; rewrite <- HPU; cbn [bind res_map]; [|right; reflexivity|right; reflexivity].
  destruct (src_hasher_push_cv_fields _ _ _ _ _ _ Epush) as [A2 B2].
  pose proof (src_hasher_push_cv_shape p _ _ _ _ _ HP HS1 Hcv Epush) as HS2.
  rewrite A2. change (blake3_hasher_chunk (set_blake3_hasher_chunk self c1)) with c1.
  destruct (mi_add 64 (blake3_chunk_state_chunk_counter c1) 1) as [ctr'| |]; cbn [bind res_map];
    [|right; reflexivity|right; reflexivity].
  set (s3 := set_blake3_hasher_chunk s2 (src_chunk_state_reset c1 (blake3_hasher_key s2) ctr')).
  assert (Hk2 : length (blake3_hasher_key s2) = 8%nat) by (rewrite B2; destruct self; exact Hk).
  assert (Hr : cs_of_src (src_chunk_state_reset c1 (blake3_hasher_key s2) ctr') = c_cs_reset (cs_of_src c1) (blake3_hasher_key s2) ctr')
    by (apply src_chunk_state_reset_eq; assumption).
  assert (HS3 : flat_shape s3).
  { apply flat_shape_set_chunk; [exact HS2|]. apply cs_shape_of_src. rewrite Hr. split; [exact Hk2|reflexivity]. }
  replace (ch_with_chunk (hasher_of_flat s2) (c_cs_reset (cs_of_src c1) (ch_key (hasher_of_flat s2)) ctr')) with (hasher_of_flat s3)
    by (unfold s3; rewrite hasher_of_flat_set_chunk, Hr; reflexivity).
  apply (Htail s3 (skipn (N.to_nat take) input) (input_len - take) HS3); unfold nlen in *; rewrite skipn_length; lia.
Qed.

(* ---------- the c_*_with models against Model/CHasher.v: with enough fuel they agree, up to the models' own OutOfFuel ---------- *)
Lemma c_cs_update_with_enough p F cs input : (length input <= 64 * F)%nat -> c_cs_update_with F p cs input = c_cs_update p cs input.
Proof.
  intros HF. unfold c_cs_update_with, c_cs_update.
  assert (Htail : forall c0 in0, (length in0 <= length input)%nat ->
    ('(cs, input) <- c_cs_update_loop F p c0 in0 ;; '(cs, _) <- c_cs_fill_buf cs input ;; Ok cs)
    = ('(cs, input) <- c_cs_update_loop (S (length in0 / 64)) p c0 in0 ;; '(cs, _) <- c_cs_fill_buf cs input ;; Ok cs)).
  { intros c0 in0 Hl. rewrite (c_cs_update_loop_fuel p F c0 in0) by lia. reflexivity. }
  destruct (0 <? cs_buf_len cs).
  - destruct (c_cs_fill_buf cs input) as [[c1 take]| |]; cbn [bind]; try reflexivity.
    destruct (0 <? nlen (skipn (N.to_nat take) input)).
    + destruct (mi_add 8 (cs_blocks c1) 1); cbn [bind]; try reflexivity. apply Htail. rewrite skipn_length. lia.
    + cbn [bind]. apply Htail. rewrite skipn_length. lia.
  - cbn [bind]. apply Htail. lia.
Qed.

Lemma c_chunks_with_enough p F input key cc fl cap : p_max_degree p <= 16 -> (17 <= F)%nat ->
  c_compress_chunks_parallel_with F p input key cc fl cap = c_compress_chunks_parallel p input key cc fl cap.
Proof.
  intros Hmax HF. unfold c_compress_chunks_parallel_with, c_compress_chunks_parallel.
  destruct (0 <? nlen input); cbn [check bind]; [|reflexivity].
  destruct (nlen input <=? p_max_degree p * c_CHUNK_LEN) eqn:E; cbn [check bind]; [|reflexivity]. apply N.leb_le in E.
  rewrite (chunks_exact_of_seq c_CHUNK_LEN input eq_refl). change (N.to_nat c_CHUNK_LEN) with 1024%nat.
  rewrite map_length, seq_length.
  assert (Hk : (length input / 1024 <= 16)%nat).
  { apply Nat.div_le_upper_bound; [lia|]. unfold nlen in E. change c_CHUNK_LEN with 1024 in E. lia. }
  replace (Nat.ltb F (length input / 1024)) with false by (symmetry; apply Nat.ltb_ge; lia).
  destruct (nlen_l (map (piece 1024 input) (seq 0 (length input / 1024))) <=? p_max_degree p); cbn [check bind]; [|reflexivity].
  destruct (p_hash_many p (map (piece 1024 input) (seq 0 (length input / 1024))) key cc true fl c_flag_CHUNK_START
              c_flag_CHUNK_END cap); cbn [bind]; try reflexivity.
  destruct (0 <? nlen (skipn (1024 * (length input / 1024)) input)); [|reflexivity].
  destruct (mi_add 64 cc (nlen_l (map (piece 1024 input) (seq 0 (length input / 1024))))); cbn [bind]; try reflexivity.
  rewrite c_cs_update_with_enough; [reflexivity|]. rewrite skipn_length.
  pose proof (Nat.div_mod (length input) 1024 ltac:(lia)). pose proof (Nat.mod_upper_bound (length input) 1024 ltac:(lia)). lia.
Qed.

Lemma c_parents_with_enough p F cvs key fl cap : max_degree_or_2 p <= 16 -> (16 <= F)%nat ->
  c_compress_parents_parallel_with F p cvs key fl cap = c_compress_parents_parallel p cvs key fl cap.
Proof.
  intros Hmax HF. unfold c_compress_parents_parallel_with, c_compress_parents_parallel. cbv zeta.
  destruct (2 <=? nlen_l cvs); cbn [check bind]; [|reflexivity].
  destruct (nlen_l cvs <=? 2 * max_degree_or_2 p) eqn:E; cbn [check bind]; [|reflexivity]. apply N.leb_le in E.
  destruct (pair_blocks_lengths _ cvs (le_n _)) as [Hpl _]. destruct (pair_blocks cvs) as [parents odd]. cbn [fst] in Hpl.
  replace (Nat.ltb F (length parents)) with false; [reflexivity|]. symmetry. apply Nat.ltb_ge. rewrite Hpl.
  assert (length cvs / 2 <= 16)%nat; [|lia]. apply Nat.div_le_upper_bound; [lia|]. unfold nlen_l in E. lia.
Qed.

Lemma c_wide_with_refines p key fl : p_max_degree p <= 16 -> forall f F input cc cap, (f + 17 <= F)%nat ->
  refines (c_compress_subtree_wide f p input key cc fl cap) (c_compress_subtree_wide_with F p input key cc fl cap).
Proof.
  intros Hmax. assert (Hor : max_degree_or_2 p <= 16) by (unfold max_degree_or_2; lia).
  induction f as [|f IH]; intros F input cc cap HF.
  - destruct F as [|F]; [lia|]. cbn [c_compress_subtree_wide c_compress_subtree_wide_with].
    destruct (nlen input <=? p_degree p * c_CHUNK_LEN); [|left; reflexivity].
    rewrite c_chunks_with_enough by (assumption || lia). apply refines_refl.
  - destruct F as [|F]; [lia|]. cbn [c_compress_subtree_wide c_compress_subtree_wide_with].
    destruct (nlen input <=? p_degree p * c_CHUNK_LEN).
    { rewrite c_chunks_with_enough by (assumption || lia). apply refines_refl. }
    apply refines_bind; [apply refines_refl|intros ll]. apply refines_bind; [apply refines_refl|intros ril].
    apply refines_bind; [apply refines_refl|intros rc]. cbv zeta. apply refines_check; intros _.
    apply refines_bind; [apply IH; lia|intros lcvs]. apply refines_bind; [apply IH; lia|intros rcvs].
    apply refines_check; intros _. destruct (nlen_l lcvs =? 1); [apply refines_refl|].
    rewrite c_parents_with_enough by (assumption || lia). apply refines_refl.
Qed.

Lemma c_condense_with_refines p key fl : max_degree_or_2 p <= 16 -> forall f F cvs, (f + 17 <= F)%nat ->
  refines (c_condense_loop f p cvs key fl) (c_condense_loop_with F p cvs key fl).
Proof.
  intros Hor. induction f as [|f IH]; intros F cvs HF.
  - destruct F as [|F]; [lia|]. cbn [c_condense_loop c_condense_loop_with]. destruct (nlen_l cvs <=? 2); [apply refines_refl|left; reflexivity].
  - destruct F as [|F]; [lia|]. cbn [c_condense_loop c_condense_loop_with]. destruct (nlen_l cvs <=? 2); [apply refines_refl|].
    rewrite c_parents_with_enough by (assumption || lia). apply refines_bind; [apply refines_refl|intros outs]. apply IH. lia.
Qed.

Lemma c_tpn_with_refines p F input key cc fl : p_max_degree p <= 16 -> (81 <= F)%nat ->
  refines (c_compress_subtree_to_parent_node p input key cc fl) (c_compress_subtree_to_parent_node_with F p input key cc fl).
Proof.
  intros Hmax HF. assert (Hor : max_degree_or_2 p <= 16) by (unfold max_degree_or_2; lia).
  unfold c_compress_subtree_to_parent_node, c_compress_subtree_to_parent_node_with.
  apply refines_check; intros _. apply refines_bind; [apply c_wide_with_refines; [exact Hmax|unfold wide_fuel; lia]|intros cvs].
  apply refines_check; intros _. apply refines_bind; [|intros cvs'; apply refines_refl].
  destruct (2 <? max_degree_or_2 p); [apply c_condense_with_refines; [exact Hor|lia]|apply refines_refl].
Qed.

Lemma c_shrink_loop_mono : forall f F sl csf, (f <= F)%nat -> refines (c_shrink_loop f sl csf) (c_shrink_loop F sl csf).
Proof.
  induction f as [|f IH]; intros F sl csf HF.
  - cbn [c_shrink_loop]. destruct F; cbn [c_shrink_loop]; destruct (c_shrink_cond sl csf) as [[|]| |]; cbn [bind];
      first [apply refines_refl | left; reflexivity].
  - destruct F as [|F]; [lia|]. cbn [c_shrink_loop]. destruct (c_shrink_cond sl csf) as [[|]| |]; cbn [bind];
      try apply refines_refl. apply IH. lia.
Qed.

Lemma c_merge_loop_mono p : forall f F h post, (f <= F)%nat -> refines (c_merge_loop f p h post) (c_merge_loop F p h post).
Proof.
  induction f as [|f IH]; intros F h post HF.
  - cbn [c_merge_loop]. destruct F; cbn [c_merge_loop]; destruct (ch_stack_len h <=? post); first [apply refines_refl | left; reflexivity].
  - destruct F as [|F]; [lia|]. cbn [c_merge_loop]. destruct (ch_stack_len h <=? post); [apply refines_refl|].
    apply refines_check; intros _. cbv zeta. apply refines_check; intros _.
    apply refines_bind; [apply refines_refl|intros len']. apply IH. lia.
Qed.

Lemma c_merge_cv_stack_with_refines p F h tl : (256 <= F)%nat -> refines (c_merge_cv_stack p h tl) (c_merge_cv_stack_with F p h tl).
Proof.
  intros HF. unfold c_merge_cv_stack, c_merge_cv_stack_with. apply refines_bind; [apply refines_refl|intros post].
  apply c_merge_loop_mono. unfold c_merge_fuel. exact HF.
Qed.

Lemma c_push_cv_with_refines p F h cv cc : (256 <= F)%nat -> refines (c_push_cv p h cv cc) (c_push_cv_with F p h cv cc).
Proof.
  intros HF. unfold c_push_cv, c_push_cv_with. apply refines_bind; [apply c_merge_cv_stack_with_refines; exact HF|intros h'].
  apply refines_refl.
Qed.

Lemma c_update_loop_with_refines p : p_max_degree p <= 16 -> forall f F h input, (f + 256 <= F)%nat ->
  refines (c_update_loop f p h input) (c_update_loop_with F p h input).
Proof.
  intros Hmax. induction f as [|f IH]; intros F h input HF.
  - destruct F as [|F]; [lia|]. cbn [c_update_loop c_update_loop_with]. destruct (nlen input <=? c_CHUNK_LEN); [apply refines_refl|left; reflexivity].
  - destruct F as [|F]; [lia|]. cbn [c_update_loop c_update_loop_with]. destruct (nlen input <=? c_CHUNK_LEN); [apply refines_refl|].
    cbv zeta. apply refines_bind; [apply refines_refl|intros sl0]. apply refines_bind; [apply refines_refl|intros csf].
    apply refines_bind; [apply c_shrink_loop_mono; lia|intros sl]. apply refines_bind; [apply refines_refl|intros sc].
    apply refines_check; intros _.
    apply refines_bind.
    + destruct (sl <=? c_CHUNK_LEN) eqn:Esl.
      * apply N.leb_le in Esl. change c_CHUNK_LEN with 1024 in Esl.
        rewrite c_cs_update_with_enough by (rewrite firstn_length; lia).
        apply refines_bind; [apply refines_refl|intros cs1]. apply c_push_cv_with_refines. lia.
      * apply refines_bind; [apply c_tpn_with_refines; [exact Hmax|lia]|intros cv_pair].
        apply refines_bind; [apply c_push_cv_with_refines; lia|intros h1].
        apply refines_bind; [apply refines_refl|intros rc]. apply c_push_cv_with_refines. lia.
    + intros h1. apply refines_bind; [apply refines_refl|intros ctr']. apply IH. lia.
Qed.

Lemma c_update_loop_rest p : forall f h input h' in', c_update_loop f p h input = Ok (h', in') -> nlen in' <= c_CHUNK_LEN.
Proof.
  induction f as [|f IH]; intros h input h' in' H; cbn [c_update_loop] in H.
  - destruct (nlen input <=? c_CHUNK_LEN) eqn:E; [|discriminate H]. injection H as <- <-. apply N.leb_le. exact E.
  - destruct (nlen input <=? c_CHUNK_LEN) eqn:E; [injection H as <- <-; apply N.leb_le; exact E|].
    cbv zeta in H. bstep H. bstep H. bstep H. bstep H. bstep H.
    match type of H with bind ?m _ = _ => destruct m as [h1| |] end; cbn [bind] in H; [|discriminate H|discriminate H].
    bstep H. exact (IH _ _ _ _ H).
Qed.

Lemma c_hasher_update_with_refines p F h input : p_max_degree p <= 16 -> (S (length input / 1024) + 256 <= F)%nat ->
  refines (c_hasher_update p h input) (c_hasher_update_with F p h input).
Proof.
  intros Hmax HF. unfold c_hasher_update, c_hasher_update_with. destruct (nlen input =? 0); [apply refines_refl|].
  apply refines_bind; [apply refines_refl|intros clen].
  assert (Htail : forall h1 in1, (length in1 <= length input)%nat ->
    refines ('(h, input) <- c_update_loop (S (length in1 / 1024)) p h1 in1 ;;
             if 0 <? nlen input then cs <- c_cs_update p (ch_chunk h) input ;; c_merge_cv_stack p (ch_with_chunk h cs) (cs_ctr cs) else Ok h)
            ('(h, input) <- c_update_loop_with F p h1 in1 ;;
             if 0 <? nlen input then cs <- c_cs_update_with F p (ch_chunk h) input ;; c_merge_cv_stack_with F p (ch_with_chunk h cs) (cs_ctr cs)
             else Ok h)).
  { intros h1 in1 Hl.
    pose proof (c_update_loop_with_refines p Hmax (S (length in1 / 1024)) F h1 in1) as HR.
    assert (HFl : (S (length in1 / 1024) + 256 <= F)%nat).
    { assert (length in1 / 1024 <= length input / 1024)%nat by (apply Nat.div_le_mono; lia). lia. }
    specialize (HR HFl). destruct HR as [HR|HR]; [rewrite HR; left; reflexivity|]. rewrite <- HR.
    destruct (c_update_loop (S (length in1 / 1024)) p h1 in1) as [[h2 in2]| |] eqn:El; cbn [bind]; try apply refines_refl.
    pose proof (c_update_loop_rest p _ _ _ _ _ El) as Hr. unfold nlen in Hr. change c_CHUNK_LEN with 1024 in Hr.
    destruct (0 <? nlen in2); [|apply refines_refl].
    rewrite c_cs_update_with_enough by lia. apply refines_bind; [apply refines_refl|intros cs].
    apply c_merge_cv_stack_with_refines. lia. }
  destruct (0 <? clen).
  - destruct (mi_sub 64 c_CHUNK_LEN clen) as [want| |] eqn:Ew; cbn [bind]; try apply refines_refl.
    assert (Hwant : want <= 1024).
    { unfold mi_sub in Ew. destruct (clen <=? c_CHUNK_LEN); [|discriminate]. inversion Ew. change c_CHUNK_LEN with 1024. lia. }
    rewrite c_cs_update_with_enough by (rewrite firstn_length; lia).
    destruct (c_cs_update p (ch_chunk h) (firstn (N.to_nat (N.min want (nlen input))) input)) as [cs| |]; cbn [bind];
      try apply refines_refl.
    destruct (0 <? nlen (skipn (N.to_nat (N.min want (nlen input))) input)).
    + pose proof (c_push_cv_with_refines p F (ch_with_chunk h cs) (c_output_chaining_value p (c_cs_output cs)) (cs_ctr cs) ltac:(lia)) as HP.
      destruct HP as [HP|HP]; rewrite HP; [left; reflexivity|].
      destruct (c_push_cv_with F p (ch_with_chunk h cs) (c_output_chaining_value p (c_cs_output cs)) (cs_ctr cs)) as [h1| |];
        cbn [bind]; try apply refines_refl.
      destruct (mi_add 64 (cs_ctr cs) 1); cbn [bind]; try apply refines_refl.
      apply Htail. rewrite skipn_length. lia.
    + cbn [bind]. apply refines_refl.
  - cbn [bind]. apply Htail. lia.
Qed.

(* ---------- output_root_bytes ---------- *)
(* blake3_xof_many writes 64 * outblocks bytes from `out` on; blake3_compress_xof fills its 64-byte `out` *)
Definition m_c_xof_many (p : platform) (cv block : list N) (block_len counter flags : N) (out : list N) (outblocks : N)
  : res (list N) :=
  bs <- p_xof_many p cv block block_len counter flags outblocks ;;
  Ok (arr_store out 0 bs).

Definition m_c_compress_xof (p : platform) (cv block : list N) (block_len counter flags : N) (out : list N) : list N :=
  p_compress_xof p cv block block_len counter flags.

Record xof_wf (p : platform) : Prop := {
  xw_cx : forall cv block bl ctr fl, length cv = 8%nat -> length block = 64%nat ->
          length (p_compress_xof p cv block bl ctr fl) = 64%nat;
  xw_xm : forall cv block bl ctr fl n bs, length cv = 8%nat -> length block = 64%nat ->
          p_xof_many p cv block bl ctr fl n = Ok bs -> length bs = (64 * N.to_nat n)%nat }.

Lemma land_whole n : n < 2 ^ 64 -> N.land n 18446744073709551552 = n / 64 * 64.
Proof.
  intros H. pose proof (c_orb_whole_spec n H) as E. unfold c_orb_whole, mb, mi_and in E. cbn [bind] in E.
  inversion E. reflexivity.
Qed.

Lemma arr_store_at (X M : list N) k : (k <= length X)%nat ->
  firstn k X ++ arr_store (skipn k X) 0 M = arr_store X k M.
Proof.
  intros H. rewrite arr_store_0. unfold arr_store. rewrite skipn_skipn'. reflexivity.
Qed.

Lemma arr_store_app (out a b : list N) : (length a + length b <= length out)%nat ->
  arr_store (arr_store out 0 a) (length a) b = arr_store out 0 (a ++ b).
Proof. apply arr_store_snoc. Qed.

Theorem src_output_root_bytes_eq p (XW : xof_wf p) self seek out out_len :
  length (output_t_input_cv self) = 8%nat -> length (output_t_block self) = 64%nat ->
  seek < 2 ^ 64 -> out_len <= nlen out -> nlen out < 2 ^ 64 ->
  src_output_root_bytes (m_c_compress_xof p) (m_c_xof_many p) self seek out out_len
  = res_map (fun bs => arr_store out 0 bs) (c_output_root_bytes p (output_of_src self) seek out_len).
Proof.
  intros Hcv Hblk Hseek Hol Hout. unfold src_output_root_bytes, c_output_root_bytes. cbv zeta.
  destruct (out_len =? 0) eqn:E0. { cbn [res_map]. rewrite arr_store_nil. reflexivity. }
  apply N.eqb_neq in E0.
  rewrite c_orb_counter_spec, c_orb_offset_spec. cbn [bind].
  change (o_cv (output_of_src self)) with (output_t_input_cv self). change (o_block (output_of_src self)) with (output_t_block self).
  change (o_blen (output_of_src self)) with (output_t_block_len self). change (o_flags (output_of_src self)) with (output_t_flags self).
  set (FL := N.lor (output_t_flags self) c_flag_ROOT).
  assert (Hoff : seek mod 64 < 64) by (apply N.mod_lt; discriminate).
  set (off := seek mod 64) in *. set (ctr0 := seek / 64).
  assert (Hol64 : out_len < 2 ^ 64) by (unfold nlen in *; lia).
  (* the part after the first (partial) block, for the state it leaves *)
  assert (Hrest : forall (wb head : list N) (n ctr : N), nlen head + n = out_len ->
    (out1 <- (if negb (n / 64 =? 0) then
                let t4 := skipn (N.to_nat (nlen head)) (arr_store out 0 head) in
                t4 <- m_c_xof_many p (output_t_input_cv self) (output_t_block self) (output_t_block_len self) ctr FL t4 (n / 64) ;;
                Ok (firstn (N.to_nat (nlen head)) (arr_store out 0 head) ++ t4)
              else Ok (arr_store out 0 head)) ;;
     t5 <- mi_add 64 ctr (n / 64) ;;
     t6 <- mi_add 64 (nlen head) (N.land n 18446744073709551552) ;;
     t7 <- mi_sub 64 n (N.land n 18446744073709551552) ;;
     '(out2, wide_buf) <- (if negb (t7 =? 0) then
         let wide_buf := m_c_compress_xof p (output_t_input_cv self) (output_t_block self) (output_t_block_len self) t5 FL wb in
         assert! (t7 <=? N.of_nat (length wide_buf)) code 312 ;;
         assert! (t6 + t7 <=? N.of_nat (length out1)) code 313 ;;
         Ok (arr_store out1 (N.to_nat t6) (firstn (N.to_nat t7) wide_buf), wide_buf)
       else Ok (out1, wb)) ;;
     Ok out2)
    = res_map (fun bs => arr_store out 0 bs)
        (blocks <- c_orb_blocks n ;;
         mid <- (if negb (blocks =? 0) then p_xof_many p (output_t_input_cv self) (output_t_block self) (output_t_block_len self)
                                               ctr FL blocks else Ok []) ;;
         counter <- mi_add 64 ctr blocks ;;
         whole <- c_orb_whole n ;;
         assert! (nlen mid =? whole) code 311 ;;
         n' <- mi_sub 64 n whole ;;
         if negb (n' =? 0) then
           let wide_buf := p_compress_xof p (output_t_input_cv self) (output_t_block self) (output_t_block_len self) counter FL in
           assert! (n' <=? nlen wide_buf) code 312 ;;
           Ok (head ++ mid ++ firstn (N.to_nat n') wide_buf)
         else Ok (head ++ mid))).
  { intros wb head n ctr Hsum. assert (Hn : n < 2 ^ 64) by lia.
    rewrite c_orb_blocks_spec, (c_orb_whole_spec n Hn), (land_whole n Hn). cbn [bind].
    pose proof (N.mul_div_le n 64 ltac:(discriminate)) as Hw.
    assert (Hh : (length head <= length out)%nat) by (unfold nlen in *; lia).
    assert (Hst : length (arr_store out 0 head) = length out) by (apply GenLibWideP.arr_store_length; lia).
    set (mid_m := if negb (n / 64 =? 0) then p_xof_many p (output_t_input_cv self) (output_t_block self) (output_t_block_len self)
                                              ctr FL (n / 64) else Ok []).
    assert (Hmid : forall mid, mid_m = Ok mid -> nlen mid = n / 64 * 64).
    { unfold mid_m. intros mid Hm. destruct (negb (n / 64 =? 0)) eqn:Eb.
      - pose proof (xw_xm p XW _ _ _ _ _ _ _ Hcv Hblk Hm) as Hl. unfold nlen. lia.
      - inversion Hm; subst. apply negb_false_iff, N.eqb_eq in Eb. rewrite Eb. reflexivity. }
    (* the translated middle part in terms of mid_m *)
    match goal with |- bind ?l _ = _ =>
      assert (Hl : l = res_map (fun mid => arr_store out 0 (head ++ mid)) mid_m) end.
    { unfold mid_m. destruct (negb (n / 64 =? 0)).
      - cbv zeta. unfold m_c_xof_many.
        destruct (p_xof_many p (output_t_input_cv self) (output_t_block self) (output_t_block_len self) ctr FL (n / 64)) as [bs| |] eqn:Ex;
          cbn [bind res_map]; try reflexivity.
        pose proof (xw_xm p XW _ _ _ _ _ _ _ Hcv Hblk Ex) as Hbl.
        f_equal. replace (N.to_nat (nlen head)) with (length head) by (unfold nlen; lia).
        rewrite arr_store_at by lia. apply arr_store_app. unfold nlen in *. lia.
      - cbn [res_map]. rewrite app_nil_r. reflexivity. }
    rewrite Hl. clearbody mid_m. destruct mid_m as [mid| |]; cbn [bind res_map]; try reflexivity.
    specialize (Hmid mid eq_refl).
    destruct (mi_add 64 ctr (n / 64)) as [ctr'| |]; cbn [bind res_map]; try reflexivity.
    rewrite Hmid, N.eqb_refl. cbn [check bind].
    rewrite add64_small by (change (2 ^ 64) with 18446744073709551616 in *; lia). cbn [bind].
    unfold mi_sub. replace (n / 64 * 64 <=? n) with true by (symmetry; apply N.leb_le; lia). cbn [bind res_map].
    assert (Hhm : length (arr_store out 0 (head ++ mid)) = length out).
    { apply GenLibWideP.arr_store_length. rewrite app_length. unfold nlen in *. lia. }
    destruct (n - n / 64 * 64 =? 0) eqn:Et; cbn [negb bind res_map]; [reflexivity|].
    unfold m_c_compress_xof. unfold nlen. rewrite !(xw_cx p XW _ _ _ _ _ Hcv Hblk). change (N.of_nat 64) with 64.
    destruct (n - n / 64 * 64 <=? 64) eqn:E312; cbn [check bind res_map]; [|reflexivity]. apply N.leb_le in E312.
    rewrite Hhm. replace (N.of_nat (length head) + n / 64 * 64 + (n - n / 64 * 64) <=? N.of_nat (length out)) with true
      by (symmetry; apply N.leb_le; unfold nlen in *; lia).
    cbn [check bind]. f_equal.
    replace (N.to_nat (N.of_nat (length head) + n / 64 * 64)) with (length (head ++ mid)) by (rewrite app_length; unfold nlen in *; lia).
    rewrite arr_store_app; [rewrite <- app_assoc; reflexivity|].
    rewrite app_length, firstn_length, (xw_cx p XW _ _ _ _ _ Hcv Hblk). unfold nlen in *. lia. }
  destruct (off =? 0) eqn:Eoff; cbn [negb bind].
  - (* block-aligned seek: no head *)
    exact (Hrest (repeat 0 64%nat) [] out_len ctr0 eq_refl).
  - apply N.eqb_neq in Eoff. rewrite (c_orb_available_spec off) by lia. cbn [bind].
    replace (mi_sub 64 64 off) with (Ok (64 - off) : res N)
      by (unfold mi_sub; replace (off <=? 64) with true by (symmetry; apply N.leb_le; lia); reflexivity).
    cbn [bind]. unfold m_c_compress_xof at 1 2 3. unfold nlen at 1. rewrite !(xw_cx p XW _ _ _ _ _ Hcv Hblk). change (N.of_nat 64) with 64.
    set (bytes := if 64 - off <? out_len then 64 - off else out_len).
    assert (Hb : bytes <= 64 - off /\ bytes <= out_len) by (unfold bytes; destruct (64 - off <? out_len) eqn:E;
      [apply N.ltb_lt in E|apply N.ltb_ge in E]; lia).
    replace (off + bytes <=? 64) with true by (symmetry; apply N.leb_le; lia). cbn [check bind].
    replace (0 + bytes <=? N.of_nat (length out)) with true by (symmetry; apply N.leb_le; unfold nlen in *; lia). cbn [check bind].
    change (N.to_nat 0) with 0%nat.
    replace (mi_add 64 0 bytes) with (Ok bytes : res N)
      by (rewrite add64_small by (change (2 ^ 64) with 18446744073709551616 in *; lia); reflexivity).
    replace (mi_sub 64 out_len bytes) with (Ok (out_len - bytes) : res N)
      by (unfold mi_sub; replace (bytes <=? out_len) with true by (symmetry; apply N.leb_le; lia); reflexivity).
    cbn [bind].
    destruct (mi_add 64 ctr0 1) as [ctr1| |]; cbn [bind res_map]; try reflexivity.
    set (head := firstn (N.to_nat bytes) (skipn (N.to_nat off) (p_compress_xof p (output_t_input_cv self) (output_t_block self)
                   (output_t_block_len self) ctr0 FL))).
    assert (Hhead : nlen head = bytes).
    { unfold head, nlen. rewrite firstn_length, skipn_length, (xw_cx p XW _ _ _ _ _ Hcv Hblk). lia. }
    specialize (Hrest (p_compress_xof p (output_t_input_cv self) (output_t_block self) (output_t_block_len self) ctr0 FL)
                      head (out_len - bytes) ctr1 ltac:(lia)). rewrite Hhead in Hrest.
    exact Hrest.
Qed.

Lemma xof_wf_portable p :
  (forall cv block bl ctr fl, p_compress_xof p cv block bl ctr fl = compress_xof cv block bl ctr fl) ->
  (forall cv block bl ctr fl n, p_xof_many p cv block bl ctr fl n = portable_xof_many cv block bl ctr fl n) -> xof_wf p.
Proof.
  intros Hc Hx. constructor.
  - intros cv block bl ctr fl Hcv Hb. rewrite Hc, Proofs.PortableP.compress_xof_is_spec by assumption.
    rewrite bytes_of_words_length, Proofs.PortableP.compress_length by assumption. reflexivity.
  - intros cv block bl ctr fl n bs Hcv Hb H. rewrite Hx in H. exact (xof_many_footprint cv block bl fl Hcv Hb _ _ _ H).
Qed.

Lemma sim_platform_xof_wf d m : xof_wf (sim_platform d m).
Proof. apply xof_wf_portable; reflexivity. Qed.
