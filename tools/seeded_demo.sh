#!/bin/bash
# Re-run the demonstration of a seeded change in a fresh scratch worktree of /repo (never in /repo):
#   tools/seeded_demo.sh <name> with|without [run|test]
# The demo crate is copied to <worktree>/mutation/demo, so its "../.." / absolute paths resolve.
set -u
name=$1; mode=$2; sub=${3:-run}
S=/verif/seeded/$name; W=/tmp/mut_$name
git -C /repo worktree remove --force $W 2>/dev/null
git -C /repo worktree add --detach $W HEAD >/dev/null 2>&1 || exit 2
[ "$mode" = with ] && git -C $W apply $S/patch.diff
mkdir -p $W/mutation && cp -r $S/demo $W/mutation/demo
(cd $W/mutation/demo && CARGO_NET_OFFLINE=true CARGO_TARGET_DIR=$W/target timeout 1800 cargo $sub --offline 2>&1 | tail -20)
rc=${PIPESTATUS[0]}
git -C /repo worktree remove --force $W
echo "demo $name $mode: rc=$rc"
exit $rc
