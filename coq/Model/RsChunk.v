(* Model of `Output` and `ChunkState` in src/lib.rs.  Output is the same record
   as the specification's (cv, block, block_len, counter, flags); the platform is
   passed separately. *)
From Coq Require Import NArith List Bool.
From V Require Import Base.Res Base.Word Base.MachInt gen.GenConsts gen.GenFormulas
  Spec.Tree Model.Portable Model.Platform.
Import ListNotations.
Open Scope N_scope.

Definition nlen (l : list N) : N := N.of_nat (length l).

(* ---- Output ------------------------------------------------------------------ *)
Definition out_chaining_value (p : platform) (o : output) : list N :=
  bytes_of_words (p_compress_in_place p (o_cv o) (o_block o) (o_blen o) (o_ctr o) (o_flags o)).

Definition out_root_hash (p : platform) (o : output) : res (list N) :=
  assert! (o_ctr o =? 0) code 1300 ;;                       (* debug_assert_eq!(self.counter, 0) *)
  Ok (bytes_of_words (p_compress_in_place p (o_cv o) (o_block o) (o_blen o) 0 (N.lor (o_flags o) rs_flag_ROOT))).

Definition out_root_output_block (p : platform) (o : output) : list N :=
  p_compress_xof p (o_cv o) (o_block o) (o_blen o) (o_ctr o) (N.lor (o_flags o) rs_flag_ROOT).

(* ---- ChunkState ---------------------------------------------------------------- *)
Record chunk_state := mkCS {
  cs_cv : list N;        (* 8 words *)
  cs_ctr : N;            (* chunk_counter: u64 *)
  cs_buf : list N;       (* [u8; 64] *)
  cs_buf_len : N;        (* u8 *)
  cs_blocks : N;         (* blocks_compressed: u8 *)
  cs_flags : N }.

Definition zero_block : list N := repeat 0 (N.to_nat rs_BLOCK_LEN).

Definition cs_new (key : list N) (chunk_counter flags : N) : chunk_state :=
  mkCS key chunk_counter zero_block 0 0 flags.

Definition cs_count (cs : chunk_state) : res N := rs_chunk_count (cs_blocks cs) (cs_buf_len cs).

Definition cs_start_flag (cs : chunk_state) : N :=
  if cs_blocks cs =? 0 then rs_flag_CHUNK_START else 0.

(* fill_buf: copy min(want, len) bytes into buf[buf_len..]; returns the rest of the input *)
Definition cs_fill_buf (cs : chunk_state) (input : list N) : res (chunk_state * list N) :=
  want <- mi_sub 64 rs_BLOCK_LEN (cs_buf_len cs) ;;
  let take := N.min want (nlen input) in
  (* self.buf[buf_len..][..take]: both slice operations are bounds-checked *)
  assert! (cs_buf_len cs <=? nlen (cs_buf cs)) code 40 ;;
  assert! (take <=? nlen (cs_buf cs) - cs_buf_len cs) code 41 ;;
  let buf := firstn (N.to_nat (cs_buf_len cs)) (cs_buf cs) ++ firstn (N.to_nat take) input
             ++ skipn (N.to_nat (cs_buf_len cs + take)) (cs_buf cs) in
  buf_len <- mi_add 8 (cs_buf_len cs) take ;;
  Ok (mkCS (cs_cv cs) (cs_ctr cs) buf buf_len (cs_blocks cs) (cs_flags cs), skipn (N.to_nat take) input).

(* the `while input.len() > BLOCK_LEN` loop *)
Fixpoint cs_update_loop (fuel : nat) (p : platform) (cs : chunk_state) (input : list N)
  : res (chunk_state * list N) :=
  if nlen input <=? rs_BLOCK_LEN then Ok (cs, input)
  else match fuel with
       | O => OutOfFuel
       | S fuel' =>
           assert! (cs_buf_len cs =? 0) code 1301 ;;
           let block_flags := N.lor (cs_flags cs) (cs_start_flag cs) in
           let cv := p_compress_in_place p (cs_cv cs) (firstn (N.to_nat rs_BLOCK_LEN) input) rs_BLOCK_LEN
                       (cs_ctr cs) block_flags in
           blocks <- mi_add 8 (cs_blocks cs) 1 ;;
           cs_update_loop fuel' p (mkCS cv (cs_ctr cs) (cs_buf cs) (cs_buf_len cs) blocks (cs_flags cs))
             (skipn (N.to_nat rs_BLOCK_LEN) input)
       end.

(* second half of ChunkState::update: the block loop, the final fill_buf, the two debug_asserts *)
Definition cs_update_tail (p : platform) (cs : chunk_state) (input : list N) : res chunk_state :=
  '(cs, input) <- cs_update_loop (S (Nat.div (length input) 64)) p cs input ;;
  '(cs, input) <- cs_fill_buf cs input ;;
  assert! (nlen input =? 0) code 1303 ;;
  c <- cs_count cs ;;
  assert! (c <=? rs_CHUNK_LEN) code 1304 ;;
  Ok cs.

Definition cs_update (p : platform) (cs : chunk_state) (input : list N) : res chunk_state :=
  '(cs, input) <-
    (if 0 <? cs_buf_len cs then
       '(cs, input) <- cs_fill_buf cs input ;;
       if negb (nlen input =? 0) then
         assert! (cs_buf_len cs =? rs_BLOCK_LEN) code 1302 ;;
         let block_flags := N.lor (cs_flags cs) (cs_start_flag cs) in
         let cv := p_compress_in_place p (cs_cv cs) (cs_buf cs) rs_BLOCK_LEN (cs_ctr cs) block_flags in
         blocks <- mi_add 8 (cs_blocks cs) 1 ;;
         Ok (mkCS cv (cs_ctr cs) zero_block 0 blocks (cs_flags cs), input)
       else Ok (cs, input)
     else Ok (cs, input)) ;;
  cs_update_tail p cs input.

Definition cs_output (cs : chunk_state) : output :=
  mkOutput (cs_cv cs) (cs_buf cs) (cs_buf_len cs) (cs_ctr cs)
           (N.lor (N.lor (cs_flags cs) (cs_start_flag cs)) rs_flag_CHUNK_END).
