// Implementation side of the correspondence check: reads one case per line on
// stdin, runs it against the real blake3 crate (path dependency on /repo, hooks
// on), prints one canonical result line per case.  See DESIGN.md App. B and
// tools/caselang.md for the case language.
mod bytespec;
mod kernel;
use bytespec::{hex, parse as bytes};

use blake3::hazmat::{self, HasherExt};
use blake3::platform::Platform;
use std::io::{BufRead, Read, Seek, SeekFrom, Write};
use std::panic::{catch_unwind, AssertUnwindSafe};

#[derive(Clone)]
enum ModeSpec {
    Hash,
    Keyed([u8; 32]),
    Derive(String),
    DeriveK(String), // via hash_derive_key_context + new_from_context_key
}

impl ModeSpec {
    fn parse(s: &str) -> ModeSpec {
        if s == "hash" {
            return ModeSpec::Hash;
        }
        let (kind, rest) = s.split_once('=').expect("mode");
        let b = bytes(rest);
        match kind {
            "keyed" => ModeSpec::Keyed(b.try_into().expect("key len")),
            "derive" => ModeSpec::Derive(String::from_utf8(b).expect("utf8 context")),
            "derivek" => ModeSpec::DeriveK(String::from_utf8(b).expect("utf8 context")),
            _ => panic!("bad mode {s}"),
        }
    }
    fn new_hasher(&self) -> blake3::Hasher {
        match self {
            ModeSpec::Hash => blake3::Hasher::new(),
            ModeSpec::Keyed(k) => blake3::Hasher::new_keyed(k),
            ModeSpec::Derive(c) => blake3::Hasher::new_derive_key(c),
            ModeSpec::DeriveK(c) => {
                let ck = hazmat::hash_derive_key_context(c);
                blake3::Hasher::new_from_context_key(&ck)
            }
        }
    }
    fn one_shot(&self, input: &[u8]) -> [u8; 32] {
        match self {
            ModeSpec::Hash => *blake3::hash(input).as_bytes(),
            ModeSpec::Keyed(k) => *blake3::keyed_hash(k, input).as_bytes(),
            ModeSpec::Derive(c) | ModeSpec::DeriveK(c) => blake3::derive_key(c, input),
        }
    }
}

fn with_mode<R>(m: &ModeSpec, f: impl FnOnce(hazmat::Mode) -> R) -> R {
    match m {
        ModeSpec::Hash => f(hazmat::Mode::Hash),
        ModeSpec::Keyed(k) => f(hazmat::Mode::KeyedHash(k)),
        ModeSpec::Derive(c) | ModeSpec::DeriveK(c) => {
            let ck = hazmat::hash_derive_key_context(c);
            f(hazmat::Mode::DeriveKeyMaterial(&ck))
        }
    }
}

fn force_platform(name: &str) -> bool {
    let p = match name {
        "detect" => None,
        "portable" => Some(Platform::portable()),
        "sse2" => Platform::sse2(),
        "sse41" => Platform::sse41(),
        "avx2" => Platform::avx2(),
        #[cfg(not(feature = "pure"))]
        "avx512" => Platform::avx512(),
        #[cfg(feature = "pure")]
        "avx512" => return false,
        _ => panic!("bad platform {name}"),
    };
    if name != "detect" && p.is_none() {
        return false;
    }
    blake3::platform::verif_force_platform(p);
    true
}

// A reader that replays a script: d<n> deliver up to n bytes, i Interrupted,
// e<kind> hard error, z Ok(0).  After the script: deliver the rest in one go, then EOF.
struct ScriptedReader {
    data: Vec<u8>,
    pos: usize,
    script: Vec<String>,
    step: usize,
}

impl Read for ScriptedReader {
    fn read(&mut self, buf: &mut [u8]) -> std::io::Result<usize> {
        let item = if self.step < self.script.len() {
            let s = self.script[self.step].clone();
            self.step += 1;
            s
        } else {
            format!("d{}", buf.len())
        };
        match item.as_bytes()[0] {
            b'd' => {
                let n: usize = item[1..].parse().unwrap();
                let n = n.min(buf.len()).min(self.data.len() - self.pos);
                buf[..n].copy_from_slice(&self.data[self.pos..self.pos + n]);
                self.pos += n;
                Ok(n)
            }
            b'i' => Err(std::io::Error::new(std::io::ErrorKind::Interrupted, "scripted")),
            b'z' => Ok(0),
            b'e' => {
                let kind = match &item[1..] {
                    "wouldblock" => std::io::ErrorKind::WouldBlock,
                    "unexpectedeof" => std::io::ErrorKind::UnexpectedEof,
                    "invaliddata" => std::io::ErrorKind::InvalidData,
                    "timedout" => std::io::ErrorKind::TimedOut,
                    _ => std::io::ErrorKind::Other,
                };
                Err(std::io::Error::new(kind, "scripted"))
            }
            _ => panic!("bad script item"),
        }
    }
}

fn io_kind(e: &std::io::Error) -> String {
    format!("{:?}", e.kind()).to_lowercase()
}

struct Machine {
    mode: ModeSpec,
    hashers: Vec<blake3::Hasher>,
    readers: Vec<blake3::OutputReader>,
    vals: Vec<[u8; 32]>,
    out: Vec<String>,
}

fn idx(s: &str) -> usize {
    s.parse().unwrap()
}

impl Machine {
    fn val(&self, s: &str) -> [u8; 32] {
        if let Some(k) = s.strip_prefix('$') {
            self.vals[idx(k)]
        } else {
            bytes(s).try_into().expect("cv len")
        }
    }

    fn op(&mut self, tok: &str) {
        let f: Vec<&str> = tok.split(':').collect();
        match f[0] {
            "n" => self.hashers.push(self.mode.new_hasher()),
            "u" => {
                self.hashers[idx(f[1])].update(&bytes(f[2]));
            }
            "w" => {
                let b = bytes(f[2]);
                let n = self.hashers[idx(f[1])].write(&b).unwrap();
                self.hashers[idx(f[1])].flush().unwrap();
                self.out.push(format!("{n}"));
            }
            "uy" => {
                self.hashers[idx(f[1])].update_rayon(&bytes(f[2]));
            }
            // um / umy: the bytes go through a real file and update_mmap / update_mmap_rayon (mapped when >= 16 KiB,
            // read fallback below); observable effect = update with the same bytes
            "um" | "umy" => {
                let data = bytes(f[2]);
                let dir = std::env::var("VERIF_TMPDIR").unwrap_or_else(|_| "/verif/build".into());
                let path = std::path::PathBuf::from(dir).join(format!(
                    "mm-{}-{:?}-{}", std::process::id(), std::thread::current().id(), self.hashers.len()));
                std::fs::write(&path, &data).expect("write temp file");
                let r = if f[0] == "um" {
                    self.hashers[idx(f[1])].update_mmap(&path).map(|_| ())
                } else {
                    self.hashers[idx(f[1])].update_mmap_rayon(&path).map(|_| ())
                };
                let _ = std::fs::remove_file(&path);
                r.expect("update_mmap failed");
            }
            "us" => {
                // scripted join: script is a string of digits 0/1/2
                let script: Vec<u8> = f[3].bytes().map(|c| c - b'0').collect();
                let n = self.hashers[idx(f[1])].verif_update_scripted(&bytes(f[2]), &script);
                let _ = n;
            }
            "usc" => {
                // like `us`, but prints the number of joins the update performed (C08: validates the
                // generator's count of internal nodes, so that "all 3^k scripts" really is all of them)
                let script: Vec<u8> = f[3].bytes().map(|c| c - b'0').collect();
                let n = self.hashers[idx(f[1])].verif_update_scripted(&bytes(f[2]), &script);
                self.out.push(format!("{n}"));
            }
            "ur" => {
                let script: Vec<String> = if f.len() > 3 && !f[3].is_empty() {
                    f[3].split(',').map(|s| s.to_string()).collect()
                } else {
                    vec![]
                };
                let rd = ScriptedReader { data: bytes(f[2]), pos: 0, script, step: 0 };
                match self.hashers[idx(f[1])].update_reader(rd) {
                    Ok(_) => self.out.push("ok".into()),
                    Err(e) => self.out.push(format!("ERR:io:{}", io_kind(&e))),
                }
            }
            "f" => self.out.push(hex(self.hashers[idx(f[1])].finalize().as_bytes())),
            "x" => {
                let n = idx(f[2]);
                let mut buf = vec![0u8; n];
                self.hashers[idx(f[1])].finalize_xof().fill(&mut buf);
                self.out.push(format!("x{}", hex(&buf)));
            }
            "c" => self.out.push(format!("{}", self.hashers[idx(f[1])].count())),
            "cl" => {
                let h = self.hashers[idx(f[1])].clone();
                self.hashers.push(h);
            }
            // clf:j:k  same observable effect as cl:j, but through Clone::clone_from into a USED destination
            // (a copy of hasher k): whatever state the destination had must be gone
            "clf" => {
                let mut d = self.hashers[idx(f[2])].clone();
                d.clone_from(&self.hashers[idx(f[1])]);
                self.hashers.push(d);
            }
            "r" => {
                self.hashers[idx(f[1])].reset();
            }
            "so" => {
                let off: u64 = f[2].parse().unwrap();
                self.hashers[idx(f[1])].set_input_offset(off);
            }
            "nr" => {
                let cv = self.hashers[idx(f[1])].finalize_non_root();
                self.vals.push(cv);
                self.out.push(hex(&cv));
            }
            "oh" => {
                let h = self.mode.one_shot(&bytes(f[1]));
                self.out.push(hex(&h));
            }
            "mn" => {
                let (l, r) = (self.val(f[1]), self.val(f[2]));
                let cv = with_mode(&self.mode, |m| hazmat::merge_subtrees_non_root(&l, &r, m));
                self.vals.push(cv);
                self.out.push(hex(&cv));
            }
            "mr" => {
                let (l, r) = (self.val(f[1]), self.val(f[2]));
                let h = with_mode(&self.mode, |m| hazmat::merge_subtrees_root(&l, &r, m));
                self.out.push(hex(h.as_bytes()));
            }
            "mx" => {
                let (l, r) = (self.val(f[1]), self.val(f[2]));
                let rd = with_mode(&self.mode, |m| hazmat::merge_subtrees_root_xof(&l, &r, m));
                self.readers.push(rd);
            }
            "ck" => {
                // hash_derive_key_context of a context string -> value
                let c = String::from_utf8(bytes(f[1])).expect("utf8");
                let ck = hazmat::hash_derive_key_context(&c);
                self.vals.push(ck);
                self.out.push(hex(&ck));
            }
            // ---- output readers ----
            "xo" => {
                let r = self.hashers[idx(f[1])].finalize_xof();
                self.readers.push(r);
            }
            "rf" => {
                let mut buf = vec![0u8; idx(f[2])];
                self.readers[idx(f[1])].fill(&mut buf);
                self.out.push(format!("x{}", hex(&buf)));
            }
            "rr" => {
                let mut buf = vec![0u8; idx(f[2])];
                let n = self.readers[idx(f[1])].read(&mut buf).unwrap();
                self.out.push(format!("{}x{}", n, hex(&buf)));
            }
            "rp" => self.out.push(format!("{}", self.readers[idx(f[1])].position())),
            "rs" => {
                self.readers[idx(f[1])].set_position(f[2].parse().unwrap());
            }
            "rk" => {
                let from = match f[2] {
                    "s" => SeekFrom::Start(f[3].parse().unwrap()),
                    "c" => SeekFrom::Current(f[3].parse().unwrap()),
                    "e" => SeekFrom::End(f[3].parse().unwrap()),
                    _ => panic!("bad seek"),
                };
                match self.readers[idx(f[1])].seek(from) {
                    Ok(p) => self.out.push(format!("{p}")),
                    Err(e) => self.out.push(format!("ERR:io:{}", io_kind(&e))),
                }
            }
            "rc" => {
                let r = self.readers[idx(f[1])].clone();
                self.readers.push(r);
            }
            // rcf:j:k  as rc:j, through clone_from into a copy of reader k
            "rcf" => {
                let mut d = self.readers[idx(f[2])].clone();
                d.clone_from(&self.readers[idx(f[1])]);
                self.readers.push(d);
            }
            // ---- Debug / zeroize (C17) ----
            "dbg" => self.out.push(format!("{:?}", self.hashers[idx(f[1])]).replace(' ', "_")),
            "rdbg" => self.out.push(format!("{:?}", self.readers[idx(f[1])]).replace(' ', "_")),
            "zh" => {
                use zeroize::Zeroize;
                let h = &mut self.hashers[idx(f[1])];
                h.zeroize();
                self.out.push(field_scan(h, &blake3::verif_secret_field_ranges_hasher()));
            }
            "zr" => {
                use zeroize::Zeroize;
                let r = &mut self.readers[idx(f[1])];
                r.zeroize();
                self.out.push(field_scan(r, &blake3::verif_secret_field_ranges_output_reader()));
            }
            // ---- RustCrypto traits (C16) ----
            "tu" => {
                blake3::traits::digest::Update::update(&mut self.hashers[idx(f[1])], &bytes(f[2]));
            }
            "tr" => {
                blake3::traits::digest::Reset::reset(&mut self.hashers[idx(f[1])]);
            }
            "tf" => {
                let h = self.hashers[idx(f[1])].clone();
                let out = blake3::traits::digest::FixedOutput::finalize_fixed(h);
                self.out.push(hex(&out));
            }
            "tfr" => {
                let out = blake3::traits::digest::FixedOutputReset::finalize_fixed_reset(
                    &mut self.hashers[idx(f[1])],
                );
                self.out.push(hex(&out));
            }
            "tx" => {
                let h = self.hashers[idx(f[1])].clone();
                let mut rd = blake3::traits::digest::ExtendableOutput::finalize_xof(h);
                let mut buf = vec![0u8; idx(f[2])];
                blake3::traits::digest::XofReader::read(&mut rd, &mut buf);
                self.out.push(format!("x{}", hex(&buf)));
                self.readers.push(rd);
            }
            "txr" => {
                let mut rd = blake3::traits::digest::ExtendableOutputReset::finalize_xof_reset(
                    &mut self.hashers[idx(f[1])],
                );
                let mut buf = vec![0u8; idx(f[2])];
                blake3::traits::digest::XofReader::read(&mut rd, &mut buf);
                self.out.push(format!("x{}", hex(&buf)));
                self.readers.push(rd);
            }
            // trd:j:n  XofReader::read on an EXISTING reader j (the model: inherent fill)
            "trd" => {
                let mut buf = vec![0u8; idx(f[2])];
                blake3::traits::digest::XofReader::read(&mut self.readers[idx(f[1])], &mut buf);
                self.out.push(format!("x{}", hex(&buf)));
            }
            "tk" => {
                // KeyInit::new with the mode's key (keyed mode only) -> new instance
                if let ModeSpec::Keyed(k) = &self.mode {
                    let key = blake3::traits::digest::Key::<blake3::Hasher>::from(*k);
                    let h = <blake3::Hasher as blake3::traits::digest::KeyInit>::new(&key);
                    self.hashers.push(h);
                } else {
                    panic!("tk needs keyed mode");
                }
            }
            "td" => {
                // Digest::new (Default) -> new instance (hash mode)
                let h: blake3::Hasher = blake3::traits::digest::Digest::new();
                self.hashers.push(h);
            }
            _ => panic!("bad op {tok}"),
        }
    }
}

// After zeroize(): every byte inside a field range (hook: all fields except `platform`) must be
// zero. Bytes outside the ranges are padding or the platform discriminant: not a violation
// (the language does not define padding), they are not reported.
fn field_scan<T>(obj: &T, ranges: &[(usize, usize)]) -> String {
    let p = obj as *const T as *const u8;
    let n = std::mem::size_of::<T>();
    let mut bad = vec![];
    for &(off, len) in ranges {
        assert!(off + len <= n);
        for i in off..off + len {
            let b = unsafe { std::ptr::read_volatile(p.add(i)) };
            if b != 0 {
                bad.push(i);
            }
        }
    }
    if bad.is_empty() {
        "zero".into()
    } else {
        format!("nonzero/{}", bad.iter().map(|i| i.to_string()).collect::<Vec<_>>().join(","))
    }
}

#[allow(deprecated)]
fn guts_case(f: &[&str], out: &mut Vec<String>) {
    match f[0] {
        // gc <counter> <is_root 0/1> <piece>,<piece>...
        "gc" => {
            let ctr: u64 = f[1].parse().unwrap();
            let root = f[2] == "1";
            let mut cs = blake3::guts::ChunkState::new(ctr);
            if f.len() > 3 && !f[3].is_empty() {
                for p in f[3].split(',') {
                    cs.update(&bytes(p));
                    out.push(format!("{}", cs.len()));
                }
            }
            out.push(format!("{:?}", cs).replace(' ', "_"));
            out.push(hex(cs.finalize(root).as_bytes()));
        }
        // gp <l> <r> <is_root>
        "gp" => {
            let l: [u8; 32] = bytes(f[1]).try_into().unwrap();
            let r: [u8; 32] = bytes(f[2]).try_into().unwrap();
            let h = blake3::guts::parent_cv(&l.into(), &r.into(), f[3] == "1");
            out.push(hex(h.as_bytes()));
        }
        _ => unreachable!(),
    }
}

fn hash_conv_case(f: &[&str], out: &mut Vec<String>) {
    match f[0] {
        "tohex" => {
            let b: [u8; 32] = bytes(f[1]).try_into().unwrap();
            let h = blake3::Hash::from_bytes(b);
            out.push(h.to_hex().to_string());
            out.push(format!("{}", h));
            out.push(format!("{:?}", h));
            let arr: [u8; 32] = h.into();
            out.push(hex(&arr));
            out.push(hex(blake3::Hash::from(arr).as_bytes()));
        }
        "fromhex" => {
            let s = bytes(f[1]);
            match blake3::Hash::from_hex(&s) {
                Ok(h) => out.push(format!("ok/{}", hex(h.as_bytes()))),
                Err(e) => out.push(classify_hex_err(&e.to_string())),
            }
            if let Ok(st) = std::str::from_utf8(&s) {
                match st.parse::<blake3::Hash>() {
                    Ok(h) => out.push(format!("ok/{}", hex(h.as_bytes()))),
                    Err(e) => out.push(classify_hex_err(&e.to_string())),
                }
            } else {
                out.push("nonutf8".into());
            }
        }
        "fromslice" => {
            let s = bytes(f[1]);
            match blake3::Hash::from_slice(&s) {
                Ok(h) => out.push(format!("ok/{}", hex(h.as_slice()))),
                Err(_) => out.push("err".into()),
            }
        }
        "eq" => {
            let a: [u8; 32] = bytes(f[1]).try_into().unwrap();
            let b = bytes(f[2]);
            let ha = blake3::Hash::from_bytes(a);
            out.push(format!("{}", ha == b[..]));
            if b.len() == 32 {
                let bb: [u8; 32] = b.clone().try_into().unwrap();
                out.push(format!("{}", ha == bb));
                out.push(format!("{}", ha == blake3::Hash::from_bytes(bb)));
            }
        }
        "serde" => {
            let a: [u8; 32] = bytes(f[1]).try_into().unwrap();
            let h = blake3::Hash::from_bytes(a);
            let j = serde_json::to_string(&h).unwrap();
            let h2: blake3::Hash = serde_json::from_str(&j).unwrap();
            out.push(hex(h2.as_bytes()));
            let mut cbor = Vec::new();
            ciborium::into_writer(&h, &mut cbor).unwrap();
            let h3: blake3::Hash = ciborium::from_reader(&cbor[..]).unwrap();
            out.push(hex(h3.as_bytes()));
            // legacy byte-string form in a self-describing format
            let mut legacy = vec![0x58, 0x20];
            legacy.extend_from_slice(&a);
            let h4: Result<blake3::Hash, _> = ciborium::from_reader(&legacy[..]);
            match h4 {
                Ok(h4) => out.push(hex(h4.as_bytes())),
                Err(_) => out.push("legacy_err".into()),
            }
            // wrong-length sequences are rejected
            let short: Result<blake3::Hash, _> = serde_json::from_str(&format!("{:?}", &a[..31]));
            out.push(format!("{}", short.is_err()));
        }
        _ => unreachable!(),
    }
}

fn classify_hex_err(msg: &str) -> String {
    if let Some(rest) = msg.strip_prefix("expected 64 hex bytes, received ") {
        format!("errlen/{rest}")
    } else if let Some(rest) = msg.strip_prefix("invalid hex character: 0x") {
        format!("errbyte/{}", u8::from_str_radix(rest, 16).unwrap())
    } else if let Some(rest) = msg.strip_prefix("invalid hex character: ") {
        // {:?} of a char
        let c: Vec<char> = rest.chars().collect();
        let v = if c.len() == 3 {
            c[1] as u32
        } else {
            match rest {
                "'\\n'" => 10,
                "'\\r'" => 13,
                "'\\t'" => 9,
                "'\\\\'" => 92,
                "'\\''" => 39,
                "'\\0'" => 0,
                _ => {
                    // '\u{..}'
                    let inner = rest.trim_start_matches("'\\u{").trim_end_matches("}'");
                    u32::from_str_radix(inner, 16).unwrap_or(9999)
                }
            }
        };
        format!("errbyte/{v}")
    } else {
        format!("err/{msg}")
    }
}

// ref <mode> <out_len> [<piece>,<piece>,...]: the reference implementation (C15)
fn ref_case(f: &[&str], out: &mut Vec<String>) {
    let mut h = match ModeSpec::parse(f[1]) {
        ModeSpec::Hash => reference_impl::Hasher::new(),
        ModeSpec::Keyed(k) => reference_impl::Hasher::new_keyed(&k),
        ModeSpec::Derive(c) | ModeSpec::DeriveK(c) => reference_impl::Hasher::new_derive_key(&c),
    };
    let out_len: usize = f[2].parse().unwrap();
    if f.len() > 3 && !f[3].is_empty() {
        for p in f[3].split(',') {
            h.update(&bytes(p));
        }
    }
    let mut buf = vec![0u8; out_len];
    h.finalize(&mut buf);
    out.push(format!("x{}", hex(&buf)));
}

fn helper_case(f: &[&str], out: &mut Vec<String>) {
    match f[0] {
        "lsl" => out.push(format!("{}", hazmat::left_subtree_len(f[1].parse().unwrap()))),
        "msl" => match hazmat::max_subtree_len(f[1].parse().unwrap()) {
            None => out.push("none".into()),
            Some(v) => out.push(format!("{v}")),
        },
        // tconst: the size constants the RustCrypto traits advertise (OutputSize, KeySize, BlockSize)
        "tconst" => {
            use blake3::traits::digest::{self, common};
            out.push(format!("{}", <blake3::Hasher as digest::OutputSizeUser>::output_size()));
            out.push(format!("{}", <blake3::Hasher as common::KeySizeUser>::key_size()));
            out.push(format!("{}", <blake3::Hasher as common::BlockSizeUser>::block_size()));
        }
        // dkre <material> <ctx> <ctx> ...: derive_key / new_derive_key called repeatedly with ONE reused String buffer
        // (same address, often same length, different contents): every result must depend on the context VALUE only
        "dkre" => {
            let material = bytes(f[1]);
            let mut buf = String::with_capacity(4096);
            for spec in &f[2..] {
                let ctx = String::from_utf8(bytes(spec)).expect("dkre context must be UTF-8");
                buf.clear();
                buf.push_str(&ctx);
                out.push(hex(&blake3::derive_key(&buf, &material)));
                let mut h = blake3::Hasher::new_derive_key(&buf);
                h.update(&material);
                out.push(hex(h.finalize().as_bytes()));
            }
        }
        // tks <key bytes, any length> <message>: <Hasher as KeyInit>::new_from_slice(key) -> "errlen" or
        // "ok <Mac::finalize of the message>" (the trait API must accept exactly the 32-byte keys)
        "tks" => {
            use blake3::traits::digest::{KeyInit, Mac};
            let key = bytes(f[1]);
            match <blake3::Hasher as KeyInit>::new_from_slice(&key) {
                Err(_) => out.push("errlen".into()),
                Ok(mut h) => {
                    Mac::update(&mut h, &bytes(f[2]));
                    out.push("ok".into());
                    out.push(hex(&Mac::finalize(h).into_bytes()));
                }
            }
        }
        _ => unreachable!(),
    }
}

fn run_case(line: &str) -> String {
    let toks: Vec<&str> = line.split_whitespace().collect();
    let mut out: Vec<String> = vec![];
    let res = catch_unwind(AssertUnwindSafe(|| match toks[0] {
        "H" => {
            let mode = ModeSpec::parse(toks[1]);
            if !force_platform(toks[2]) {
                out.push("SKIP".into());
                return;
            }
            let mut m = Machine { mode: mode.clone(), hashers: vec![], readers: vec![], vals: vec![], out: vec![] };
            let r = catch_unwind(AssertUnwindSafe(|| {
                m.hashers.push(mode.new_hasher());
                for t in &toks[3..] {
                    m.op(t);
                }
            }));
            out.append(&mut m.out);
            if r.is_err() {
                out.push("PANIC".into());
            }
            blake3::platform::verif_force_platform(None);
        }
        "gc" | "gp" => {
            if !force_platform(toks[1]) {
                out.push("SKIP".into());
                return;
            }
            let mut rest = vec![toks[0]];
            rest.extend_from_slice(&toks[2..]);
            let r = catch_unwind(AssertUnwindSafe(|| guts_case(&rest, &mut out)));
            if r.is_err() {
                out.push("PANIC".into());
            }
            blake3::platform::verif_force_platform(None);
        }
        "tohex" | "fromhex" | "fromslice" | "eq" | "serde" => hash_conv_case(&toks, &mut out),
        "file" => {
            // file <expected-bytes-spec|-|!> <path>: update_reader(File), update_mmap, update_mmap_rayon
            let path = toks[2];
            let r1 = std::fs::File::open(path).and_then(|f| {
                let mut h = blake3::Hasher::new();
                h.update_reader(f)?;
                Ok(h.finalize())
            });
            let r2 = {
                let mut h = blake3::Hasher::new();
                h.update_mmap(path).map(|h| h.finalize())
            };
            let r3 = {
                let mut h = blake3::Hasher::new();
                h.update_mmap_rayon(path).map(|h| h.finalize())
            };
            for r in [r1, r2, r3] {
                match r {
                    Ok(h) => out.push(hex(h.as_bytes())),
                    Err(_) => out.push("ERR".into()),
                }
            }
        }
        "lsl" | "msl" | "tks" | "dkre" | "tconst" => helper_case(&toks, &mut out),
        "kcip" | "kxof" | "khm" | "khmg" | "kxm" => kernel::kernel_case(&toks, &mut out),
        "THR" => out.push(kernel::thr_case(&toks, run_case)),
        "ref" => {
            let r = catch_unwind(AssertUnwindSafe(|| ref_case(&toks, &mut out)));
            if r.is_err() {
                out.push("PANIC".into());
            }
        }
        other => panic!("unknown case kind {other}"),
    }));
    if res.is_err() {
        out.push("PANIC".into());
    }
    out.join(" ")
}

fn main() {
    if std::env::var_os("VERIF_PANIC_MSG").is_none() {
        std::panic::set_hook(Box::new(|_| {}));
    }
    let stdin = std::io::stdin();
    let stdout = std::io::stdout();
    let mut w = std::io::BufWriter::new(stdout.lock());
    for line in stdin.lock().lines() {
        let line = line.unwrap();
        if line.trim().is_empty() {
            continue;
        }
        let (id, rest) = line.split_once(' ').unwrap_or((&line, ""));
        writeln!(w, "{} {}", id, run_case(rest)).unwrap();
    }
}
