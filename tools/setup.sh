#!/bin/bash
# One-time setup after a fresh restore (offline): translate, build the whole Coq
# development (full .vo build), extract + build the OCaml model driver, and
# pre-build the harnesses so that the per-property checks are incremental.
cd "$(dirname "$0")/.."
export CARGO_NET_OFFLINE=true
mkdir -p build
python3 tools/gen_coq.py > build/gen.log 2>&1 || { cat build/gen.log; echo "translator reported errors (continuing)"; }
# harness builds in the background while Coq compiles
python3 - <<'PY' > build/harness_build.log 2>&1 &
import sys, concurrent.futures
sys.path.insert(0, "tools")
import verif
jobs = [("rs", "default", "debug"), ("rs", "default", "release"), ("rs", "prefer_intrinsics", "debug"),
        ("rs", "prefer_intrinsics", "release"), ("rs", "pure", "debug"), ("rs", "pure", "release"), ("b3sum", "default", "debug")]
def one(j):
    crate, flavour, profile = j
    b, out = verif.cargo_build(flavour, profile, crate=crate)
    return j, b, (out[-1500:] if b is None else "")
with concurrent.futures.ThreadPoolExecutor(max_workers=3) as ex:
    for j, b, out in ex.map(one, jobs):
        print("harness", j, "->", b, out)
try:
    import charness
    for v in ("asm", "intr", "tbbseam"):
        b, log = charness.build(v)
        print("c harness", v, "->", b)
except Exception as e:
    print("c harness build problem:", e)
PY
HPID=$!
( cd coq && coq_makefile -f _CoqProject -o Makefile > /dev/null 2>&1 && timeout 3400 make -k -j12 2>&1 | grep -v "^Closed under\|^COQC\|^COQDEP" | tail -30 )
tools/build_model.sh || echo "model driver build failed (checks will report it)"
wait $HPID
cat build/harness_build.log | tail -15
echo setup done
