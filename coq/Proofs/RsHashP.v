(* Proofs about Model/RsHash.v (C14).  Per-byte facts are established by
   exhaustive evaluation over the 256 byte values inside the kernel
   (forallb ... = true by vm_compute, lifted with forallb_forall) and lifted to
   all byte lists by induction, so the statements cover all 2^256 hashes and
   all byte strings of every length. *)
From Coq Require Import NArith Arith List Bool Lia.
From V Require Import Base.Res Base.Word Base.MachInt gen.GenConsts Model.RsHash.
Import ListNotations.
Open Scope N_scope.

Definition bytes256 : list N := map N.of_nat (seq 0 256).

Lemma in_bytes256 b : b < 256 -> In b bytes256.
Proof.
  intros H. unfold bytes256. apply in_map_iff. exists (N.to_nat b). split.
  - apply N2Nat.id.
  - apply in_seq. lia.
Qed.

Lemma byte_sweep (P : N -> bool) :
  forallb P bytes256 = true -> forall b, b < 256 -> P b = true.
Proof. intros H b Hb. rewrite forallb_forall in H. apply H, in_bytes256, Hb. Qed.

(* ---- specification-side vocabulary (independent of the generated tables) -- *)
Definition is_lower_hex (c : N) : bool :=
  ((48 <=? c) && (c <=? 57)) || ((97 <=? c) && (c <=? 102)).
Definition is_hex_digit (c : N) : bool :=
  is_lower_hex c || ((65 <=? c) && (c <=? 70)).
Definition digit_value (c : N) : N :=
  if (48 <=? c) && (c <=? 57) then c - 48
  else if (97 <=? c) && (c <=? 102) then c - 97 + 10
  else c - 65 + 10.
Definition to_lower (c : N) : N := if (65 <=? c) && (c <=? 90) then c + 32 else c.

(* ---- one byte of to_hex ---------------------------------------------------- *)
Definition to_hex_byte (b : N) : res (N * N) :=
  hi <- rs_hex_hi_index b ;;
  lo <- rs_hex_lo_index b ;;
  c1 <- index_tbl rs_hex_table hi ;;
  c2 <- index_tbl rs_hex_table lo ;;
  Ok (c1, c2).

Definition byte_ok (b : N) : bool :=
  match to_hex_byte b with
  | Ok (c1, c2) =>
      is_lower_hex c1 && is_lower_hex c2 &&
      (digit_value c1 =? b / 16) && (digit_value c2 =? b mod 16) &&
      match hex_val c1, hex_val c2 with
      | Ok (Some hi), Ok (Some lo) =>
          match rs_hex_combine hi lo with Ok v => v =? b | _ => false end
      | _, _ => false
      end
  | _ => false
  end.

Lemma byte_ok_all : forallb byte_ok bytes256 = true.
Proof. vm_compute. reflexivity. Qed.

(* hex_val on every byte value: total, accepts exactly the hex digits, with the
   documented value; never panics *)
Definition hex_val_ok (c : N) : bool :=
  match hex_val c with
  | Ok (Some v) => is_hex_digit c && (v =? digit_value c) && (v <? 16)
  | Ok None => negb (is_hex_digit c)
  | _ => false
  end.
Lemma hex_val_ok_all : forallb hex_val_ok bytes256 = true.
Proof. vm_compute. reflexivity. Qed.

(* combining two nibbles never overflows u8 *)
Definition nibbles16 : list N := map N.of_nat (seq 0 16).
Definition combine_ok (hi : N) : bool :=
  forallb (fun lo => match rs_hex_combine hi lo with Ok v => v =? 16 * hi + lo | _ => false end) nibbles16.
Lemma combine_ok_all : forallb combine_ok nibbles16 = true.
Proof. vm_compute. reflexivity. Qed.

Lemma in_nibbles16 v : v < 16 -> In v nibbles16.
Proof.
  intros H. unfold nibbles16. apply in_map_iff. exists (N.to_nat v). split.
  - apply N2Nat.id.
  - apply in_seq. lia.
Qed.

Lemma combine_spec hi lo : hi < 16 -> lo < 16 -> rs_hex_combine hi lo = Ok (16 * hi + lo).
Proof.
  intros Hh Hl. pose proof combine_ok_all as H. rewrite forallb_forall in H.
  specialize (H hi (in_nibbles16 hi Hh)). unfold combine_ok in H. rewrite forallb_forall in H.
  specialize (H lo (in_nibbles16 lo Hl)).
  destruct (rs_hex_combine hi lo) as [v| |]; try discriminate.
  apply N.eqb_eq in H. subst. reflexivity.
Qed.

Lemma hex_val_spec c : c < 256 ->
  (is_hex_digit c = true /\ hex_val c = Ok (Some (digit_value c)) /\ digit_value c < 16) \/
  (is_hex_digit c = false /\ hex_val c = Ok None).
Proof.
  intros Hc. pose proof (byte_sweep _ hex_val_ok_all c Hc) as H. unfold hex_val_ok in H.
  destruct (hex_val c) as [[v|]| |]; try discriminate.
  - left. rewrite !andb_true_iff in H. destruct H as [[H1 H2] H3].
    apply N.eqb_eq in H2. apply N.ltb_lt in H3. subst. auto.
  - right. apply negb_true_iff in H. auto.
Qed.

(* ---- to_hex over lists ------------------------------------------------------ *)
Lemma to_hex_go_ok bs acc :
  all_bytes bs = true -> acc + 2 * N.of_nat (length bs) <= 2 * rs_OUT_LEN ->
  exists s, to_hex_go bs acc = Ok s /\ length s = (2 * length bs)%nat /\
            forallb is_lower_hex s = true.
Proof.
  revert acc. induction bs as [|b bs IH]; intros acc Hb Hlen.
  - exists []. repeat split; reflexivity.
  - cbn [all_bytes forallb] in Hb. apply andb_true_iff in Hb. destruct Hb as [Hb1 Hb2].
    apply N.ltb_lt in Hb1.
    pose proof (byte_sweep _ byte_ok_all b Hb1) as Hok. unfold byte_ok, to_hex_byte in Hok.
    cbn [to_hex_go].
    destruct (rs_hex_hi_index b) as [hi| |]; try discriminate. cbn [bind] in *.
    destruct (rs_hex_lo_index b) as [lo| |]; try discriminate. cbn [bind] in *.
    destruct (index_tbl rs_hex_table hi) as [c1| |]; try discriminate. cbn [bind] in *.
    destruct (index_tbl rs_hex_table lo) as [c2| |]; try discriminate. cbn [bind] in *.
    assert (Hcap : (acc + 2 <=? 2 * rs_OUT_LEN) = true).
    { apply N.leb_le. cbn [length] in Hlen. lia. }
    rewrite Hcap. cbn [check bind].
    destruct (IH (acc + 2) Hb2) as [s [Hs [Hl Hf]]].
    { cbn [length] in Hlen. lia. }
    rewrite Hs. cbn [bind]. exists (c1 :: c2 :: s). split; [reflexivity|]. split.
    + cbn [length]. lia.
    + cbn [forallb]. rewrite !andb_true_iff in Hok. destruct Hok as [[[[H1 H2] _] _] _].
      rewrite H1, H2, Hf. reflexivity.
Qed.

Lemma to_hex_go_acc_irrelevant bs acc acc' s :
  to_hex_go bs acc = Ok s -> acc' <= acc -> to_hex_go bs acc' = Ok s.
Proof.
  revert acc acc' s. induction bs as [|b bs IH]; intros acc acc' s H Hle; [exact H|].
  cbn [to_hex_go] in *.
  destruct (rs_hex_hi_index b) as [hi| |]; try discriminate. cbn [bind] in *.
  destruct (rs_hex_lo_index b) as [lo| |]; try discriminate. cbn [bind] in *.
  destruct (index_tbl rs_hex_table hi) as [c1| |]; try discriminate. cbn [bind] in *.
  destruct (index_tbl rs_hex_table lo) as [c2| |]; try discriminate. cbn [bind] in *.
  destruct (acc + 2 <=? 2 * rs_OUT_LEN) eqn:E; cbn [check bind] in H; try discriminate.
  assert (E' : (acc' + 2 <=? 2 * rs_OUT_LEN) = true).
  { apply N.leb_le. apply N.leb_le in E. lia. }
  rewrite E'. cbn [check bind].
  destruct (to_hex_go bs (acc + 2)) as [r| |] eqn:Er; try discriminate. cbn [bind] in H.
  rewrite (IH (acc + 2) (acc' + 2) r Er) by lia. exact H.
Qed.

Theorem to_hex_lowercase_64 h :
  length h = 32%nat -> all_bytes h = true ->
  exists s, to_hex h = Ok s /\ length s = 64%nat /\ forallb is_lower_hex s = true.
Proof.
  intros Hl Hb. unfold to_hex.
  destruct (to_hex_go_ok h 0 Hb) as [s [Hs [Hlen Hf]]].
  - rewrite Hl. vm_compute. discriminate.
  - exists s. rewrite Hlen, Hl. auto.
Qed.

(* ---- round trip --------------------------------------------------------------- *)
Lemma from_hex_go_to_hex_go bs acc s :
  all_bytes bs = true -> to_hex_go bs acc = Ok s ->
  from_hex_go (length bs) s = Ok (HexOk bs).
Proof.
  revert acc s. induction bs as [|b bs IH]; intros acc s Hb H.
  - cbn in H. inversion H. reflexivity.
  - cbn [all_bytes forallb] in Hb. apply andb_true_iff in Hb. destruct Hb as [Hb1 Hb2].
    apply N.ltb_lt in Hb1.
    pose proof (byte_sweep _ byte_ok_all b Hb1) as Hok. unfold byte_ok, to_hex_byte in Hok.
    cbn [to_hex_go] in H.
    destruct (rs_hex_hi_index b) as [hi| |]; try discriminate. cbn [bind] in *.
    destruct (rs_hex_lo_index b) as [lo| |]; try discriminate. cbn [bind] in *.
    destruct (index_tbl rs_hex_table hi) as [c1| |]; try discriminate. cbn [bind] in *.
    destruct (index_tbl rs_hex_table lo) as [c2| |]; try discriminate. cbn [bind] in *.
    destruct (acc + 2 <=? 2 * rs_OUT_LEN); cbn [check bind] in H; try discriminate.
    destruct (to_hex_go bs (acc + 2)) as [r| |] eqn:Er; try discriminate. cbn [bind] in H.
    inversion H; subst s. clear H.
    cbn [length from_hex_go].
    rewrite !andb_true_iff in Hok. destruct Hok as [_ Hv].
    destruct (hex_val c1) as [[v1|]| |]; try discriminate.
    destruct (hex_val c2) as [[v2|]| |]; try discriminate.
    cbn [bind].
    destruct (rs_hex_combine v1 v2) as [v| |]; try discriminate.
    apply N.eqb_eq in Hv. subst v. cbn [bind].
    rewrite (IH (acc + 2) r Hb2 Er). reflexivity.
Qed.

Theorem from_hex_to_hex h s :
  length h = 32%nat -> all_bytes h = true -> to_hex h = Ok s -> from_hex s = Ok (HexOk h).
Proof.
  intros Hl Hb Hs.
  destruct (to_hex_lowercase_64 h Hl Hb) as [s' [Hs' [Hlen _]]].
  rewrite Hs in Hs'. inversion Hs'; subst s'.
  unfold from_hex. rewrite Hlen.
  change (negb (N.of_nat 64 =? rs_hex_len)) with false. cbn [negb].
  change (N.to_nat rs_OUT_LEN) with 32%nat. rewrite <- Hl.
  eapply from_hex_go_to_hex_go; eauto.
Qed.

(* ---- exact accept set; totality ------------------------------------------------ *)
Definition decode_pairs : list N -> list N :=
  fix go l := match l with
              | c1 :: c2 :: tl => (16 * digit_value c1 + digit_value c2) :: go tl
              | _ => []
              end.

Lemma from_hex_go_spec n : forall s,
  all_bytes s = true -> length s = (2 * n)%nat ->
  (forallb is_hex_digit s = true /\ from_hex_go n s = Ok (HexOk (decode_pairs s))) \/
  (forallb is_hex_digit s = false /\
   exists c, In c s /\ is_hex_digit c = false /\ from_hex_go n s = Ok (HexInvalidByte c)).
Proof.
  induction n as [|n IH]; intros s Hb Hl.
  - destruct s; [|discriminate]. left. split; reflexivity.
  - destruct s as [|c1 [|c2 tl]]; try (cbn in Hl; lia).
    cbn [all_bytes forallb] in Hb. rewrite !andb_true_iff in Hb. destruct Hb as [Hc1 [Hc2 Htl]].
    apply N.ltb_lt in Hc1. apply N.ltb_lt in Hc2.
    cbn [from_hex_go forallb].
    destruct (hex_val_spec c1 Hc1) as [[Hd1 [Hv1 Hr1]]|[Hd1 Hv1]]; rewrite Hv1, Hd1; cbn [bind andb].
    2:{ right. split; [reflexivity|]. exists c1. repeat split; auto. left; reflexivity. }
    destruct (hex_val_spec c2 Hc2) as [[Hd2 [Hv2 Hr2]]|[Hd2 Hv2]]; rewrite Hv2, Hd2; cbn [bind andb].
    2:{ right. split; [reflexivity|]. exists c2. repeat split; auto. right; left; reflexivity. }
    rewrite (combine_spec _ _ Hr1 Hr2). cbn [bind].
    assert (Hl' : length tl = (2 * n)%nat) by (cbn [length] in Hl; lia).
    destruct (IH tl Htl Hl') as [[Hf Hgo]|[Hf [c [Hin [Hc Hgo]]]]]; rewrite Hgo, Hf; cbn [bind].
    + left. split; reflexivity.
    + right. split; [reflexivity|]. exists c. repeat split; auto. right; right; exact Hin.
Qed.

Theorem from_hex_total s :
  all_bytes s = true -> exists r, from_hex s = Ok r.
Proof.
  intros Hb. unfold from_hex.
  destruct (N.of_nat (length s) =? rs_hex_len) eqn:E; cbn [negb]; [|eauto].
  apply N.eqb_eq in E. change rs_hex_len with 64 in E.
  assert (Hl : length s = (2 * 32)%nat) by lia.
  change (N.to_nat rs_OUT_LEN) with 32%nat.
  destruct (from_hex_go_spec 32 s Hb Hl) as [[_ H]|[_ [c [_ [_ H]]]]]; rewrite H; eauto.
Qed.

Theorem from_hex_accepts_iff s :
  all_bytes s = true ->
  ((exists h, from_hex s = Ok (HexOk h)) <->
   (length s = 64%nat /\ forallb is_hex_digit s = true)).
Proof.
  intros Hb. unfold from_hex. split.
  - intros [h H].
    destruct (N.of_nat (length s) =? rs_hex_len) eqn:E; cbn [negb] in H; [|discriminate].
    apply N.eqb_eq in E. change rs_hex_len with 64 in E.
    assert (Hl : length s = (2 * 32)%nat) by lia.
    change (N.to_nat rs_OUT_LEN) with 32%nat in H.
    destruct (from_hex_go_spec 32 s Hb Hl) as [[Hf _]|[_ [c [_ [_ H']]]]].
    + split; [lia|exact Hf].
    + rewrite H' in H. discriminate.
  - intros [Hl Hf]. rewrite Hl.
    change (negb (N.of_nat 64 =? rs_hex_len)) with false. cbn iota.
    change (N.to_nat rs_OUT_LEN) with 32%nat.
    destruct (from_hex_go_spec 32 s Hb) as [[_ H]|[Hf' _]]; [lia| |congruence].
    eauto.
Qed.

Theorem from_hex_value s h :
  all_bytes s = true -> from_hex s = Ok (HexOk h) -> h = decode_pairs s.
Proof.
  intros Hb H. unfold from_hex in H.
  destruct (N.of_nat (length s) =? rs_hex_len) eqn:E; cbn [negb] in H; [|discriminate].
  apply N.eqb_eq in E. change rs_hex_len with 64 in E.
  assert (Hl : length s = (2 * 32)%nat) by lia.
  change (N.to_nat rs_OUT_LEN) with 32%nat in H.
  destruct (from_hex_go_spec 32 s Hb Hl) as [[_ H']|[_ [c [_ [_ H']]]]]; rewrite H' in H; congruence.
Qed.

Theorem from_hex_rejects_len s :
  length s <> 64%nat -> from_hex s = Ok (HexInvalidLen (N.of_nat (length s))).
Proof.
  intros Hl. unfold from_hex.
  destruct (N.of_nat (length s) =? rs_hex_len) eqn:E; [|reflexivity].
  apply N.eqb_eq in E. change rs_hex_len with 64 in E. lia.
Qed.

(* upper and lower case digits decode alike *)
Definition digit_case_ok (c : N) : bool :=
  negb (is_hex_digit c) || ((digit_value (to_lower c) =? digit_value c) && is_hex_digit (to_lower c)).
Lemma digit_case_ok_all : forallb digit_case_ok bytes256 = true.
Proof. vm_compute. reflexivity. Qed.

Lemma decode_pairs_lower s :
  all_bytes s = true -> forallb is_hex_digit s = true ->
  decode_pairs (map to_lower s) = decode_pairs s /\ forallb is_hex_digit (map to_lower s) = true.
Proof.
  revert s. fix IH 1. intros [|c1 [|c2 tl]] Hb Hf.
  - split; reflexivity.
  - cbn in *. rewrite andb_true_r in *. apply N.ltb_lt in Hb.
    pose proof (byte_sweep _ digit_case_ok_all c1 Hb) as H. unfold digit_case_ok in H.
    rewrite Hf in H. cbn in H. apply andb_true_iff in H. destruct H as [_ H]. rewrite H. auto.
  - cbn [all_bytes forallb map] in *. rewrite !andb_true_iff in *.
    destruct Hb as [Hb1 [Hb2 Hb3]]. destruct Hf as [Hf1 [Hf2 Hf3]].
    apply N.ltb_lt in Hb1. apply N.ltb_lt in Hb2.
    pose proof (byte_sweep _ digit_case_ok_all c1 Hb1) as H1. unfold digit_case_ok in H1.
    pose proof (byte_sweep _ digit_case_ok_all c2 Hb2) as H2. unfold digit_case_ok in H2.
    rewrite Hf1 in H1. rewrite Hf2 in H2. cbn [negb orb] in H1, H2.
    apply andb_true_iff in H1. apply andb_true_iff in H2.
    destruct H1 as [E1 L1]. destruct H2 as [E2 L2]. apply N.eqb_eq in E1. apply N.eqb_eq in E2.
    destruct (IH tl Hb3 Hf3) as [IH1 IH2].
    cbn [decode_pairs]. fold decode_pairs. split.
    + rewrite E1, E2. f_equal. exact IH1.
    + repeat split; assumption.
Qed.

Lemma to_lower_byte c : c < 256 -> to_lower c < 256.
Proof.
  intros H. unfold to_lower. destruct ((65 <=? c) && (c <=? 90)) eqn:E; [|exact H].
  apply andb_true_iff in E. destruct E as [_ E]. apply N.leb_le in E. lia.
Qed.

Theorem from_hex_case_insensitive s h :
  all_bytes s = true -> from_hex s = Ok (HexOk h) -> from_hex (map to_lower s) = Ok (HexOk h).
Proof.
  intros Hb H.
  pose proof (from_hex_value s h Hb H) as Hv.
  destruct (proj1 (from_hex_accepts_iff s Hb) (ex_intro _ h H)) as [Hl Hf].
  destruct (decode_pairs_lower s Hb Hf) as [Hd Hf'].
  assert (Hb' : all_bytes (map to_lower s) = true).
  { unfold all_bytes in *. rewrite forallb_forall in *. intros x Hx.
    apply in_map_iff in Hx. destruct Hx as [c [<- Hc]]. apply N.ltb_lt, to_lower_byte, N.ltb_lt, Hb, Hc. }
  destruct (proj2 (from_hex_accepts_iff (map to_lower s) Hb')) as [h' Hh'].
  { rewrite map_length. auto. }
  rewrite Hh'. f_equal. f_equal. rewrite (from_hex_value _ _ Hb' Hh'). congruence.
Qed.

(* ---- slices -------------------------------------------------------------------- *)
Theorem from_slice_ok_iff_32 bs :
  (exists h, from_slice bs = Some h) <-> length bs = 32%nat.
Proof.
  unfold from_slice. change rs_OUT_LEN with 32. split.
  - intros [h H]. destruct (N.of_nat (length bs) =? 32) eqn:E; [|discriminate].
    apply N.eqb_eq in E. lia.
  - intros Hl. rewrite Hl. cbn. eauto.
Qed.

Theorem from_slice_lossless bs h : from_slice bs = Some h -> as_slice h = bs.
Proof.
  unfold from_slice, as_slice. destruct (_ =? _); intros H; inversion H; reflexivity.
Qed.

(* ---- equality ------------------------------------------------------------------ *)
Lemma lor_zero a b : N.lor a b = 0 <-> a = 0 /\ b = 0.
Proof. apply N.lor_eq_0_iff. Qed.

Lemma ct_acc_zero a : forall b acc,
  length a = length b -> (ct_acc a b acc = 0 <-> acc = 0 /\ a = b).
Proof.
  induction a as [|x a IH]; intros [|y b] acc Hl; try discriminate.
  - cbn. tauto.
  - cbn [ct_acc]. rewrite IH by (cbn in Hl; lia). rewrite lor_zero, N.lxor_eq_0_iff.
    split.
    + intros [[H1 H2] H3]. subst. auto.
    + intros [H1 H2]. inversion H2. auto.
Qed.

Theorem eq_iff_bytes_equal a b : constant_time_eq a b = true <-> a = b.
Proof.
  unfold constant_time_eq. destruct (Nat.eqb (length a) (length b)) eqn:E; cbn [negb].
  - apply Nat.eqb_eq in E. rewrite N.eqb_eq, ct_acc_zero by exact E. tauto.
  - apply Nat.eqb_neq in E. split; [discriminate|]. intros ->. contradiction.
Qed.
