(* Arrays of arrays (`[[u32; 8]; 54]`) as lists of lists, for code translated statement by statement
   (gen/GenRefImplLoops.v): `a[i]` is arr2_get, `a[i] = v` is arr2_set.  The translator precedes every such
   access by the bounds `assert!` of the source (a Rust index panics when out of range), so the value read
   out of range ([]) and the unchanged array written out of range are never observed. *)
From Coq Require Import NArith List Lia Arith.
Import ListNotations.

Definition arr2_get (s : list (list N)) (i : nat) : list N := nth i s [].

Fixpoint arr2_set (s : list (list N)) (i : nat) (v : list N) : list (list N) :=
  match s, i with
  | [], _ => []
  | _ :: tl, O => v :: tl
  | h :: tl, S i' => h :: arr2_set tl i' v
  end.

Lemma arr2_set_length s i v : length (arr2_set s i v) = length s.
Proof.
  revert i. induction s as [|h tl IH]; intros [|i]; cbn [arr2_set length]; try reflexivity.
  rewrite IH. reflexivity.
Qed.

Lemma arr2_get_indep s i d : (i < length s)%nat -> arr2_get s i = nth i s d.
Proof. intros H. apply nth_indep. exact H. Qed.
