(* Property C17: the Zeroize and Debug impls of src/lib.rs as translated into data (gen/GenSecret.v, regenerated from the
   source on every run by tools/gen_coq_secret.py, which rejects any body that is not `let Self {..} = self;` followed by
   `<field>.zeroize();` statements, resp. one debug builder chain). *)
From Coq Require Import String List Bool.
From V Require Import gen.GenSecret.
Import ListNotations.
Open Scope string_scope.

(* the destructuring pattern names every declared field in declaration order (no `..`), only `platform` may be bound to
   `_`, and the statements zeroize exactly the other fields, each once, in order *)
Definition zeroize_complete (fields : list string) (pat : list (string * bool)) (calls : list string) : Prop :=
  map fst pat = fields /\
  (forall f, In (f, true) pat -> f = "platform") /\
  calls = map fst (filter (fun p => negb (snd p)) pat).

Lemma zeroize_complete_wipes fields pat calls : zeroize_complete fields pat calls ->
  forall f, In f fields -> f = "platform" \/ In f calls.
Proof.
  intros [Hf [Hp Hc]] f Hin. subst fields calls.
  apply in_map_iff in Hin. destruct Hin as [[g ig] [Hg Hin]]. cbn [fst] in Hg. subst g.
  destruct ig.
  - left. apply Hp. exact Hin.
  - right. apply in_map_iff. exists (f, false). split; [reflexivity|]. apply filter_In. split; [exact Hin|reflexivity].
Qed.

Ltac zc := unfold zeroize_complete; split; [reflexivity|split; [|reflexivity]];
           intros f H; cbn in H; repeat (destruct H as [H|H]; [inversion H; try reflexivity|]); contradiction.

Lemma zeroize_Hash : zeroize_complete fields_Hash zeroize_pattern_Hash zeroize_calls_Hash.                      Proof. zc. Qed.
Lemma zeroize_Output : zeroize_complete fields_Output zeroize_pattern_Output zeroize_calls_Output.              Proof. zc. Qed.
Lemma zeroize_ChunkState : zeroize_complete fields_ChunkState zeroize_pattern_ChunkState zeroize_calls_ChunkState.  Proof. zc. Qed.
Lemma zeroize_Hasher : zeroize_complete fields_Hasher zeroize_pattern_Hasher zeroize_calls_Hasher.              Proof. zc. Qed.
Lemma zeroize_OutputReader : zeroize_complete fields_OutputReader zeroize_pattern_OutputReader zeroize_calls_OutputReader.  Proof. zc. Qed.

(* Hash, Hasher and OutputReader have no field that is skipped at all *)
Lemma zeroize_all_fields :
  zeroize_calls_Hash = fields_Hash /\ zeroize_calls_Hasher = fields_Hasher /\ zeroize_calls_OutputReader = fields_OutputReader.
Proof. repeat split. Qed.

(* none of the secret-holding structs derives Debug; the hand-written impls are exactly these four (Output has none) *)
Lemma no_derived_debug :
  ~ In "Debug" derives_Hash /\ ~ In "Debug" derives_Output /\ ~ In "Debug" derives_ChunkState /\
  ~ In "Debug" derives_Hasher /\ ~ In "Debug" derives_OutputReader.
Proof. repeat split; intros H; cbn in H; repeat (destruct H as [H|H]; [discriminate H|]); exact H. Qed.
Lemma debug_impls_are : debug_impls = ["Hash"; "ChunkState"; "Hasher"; "OutputReader"].
Proof. reflexivity. Qed.

(* the builder chains print exactly the expressions the model's string builders (Model/RsDebug.v) are built from:
   Hasher: flags and platform of the chunk state; ChunkState: count(), chunk_counter, flags, platform;
   OutputReader: position(); Hash: its hex string *)
Lemma debug_fields_are :
  debug_builder_Hasher = ("debug_struct", "Hasher") /\
  debug_fields_Hasher = [("flags", "&self.chunk_state.flags"); ("platform", "&self.chunk_state.platform")] /\
  debug_builder_ChunkState = ("debug_struct", "ChunkState") /\
  debug_fields_ChunkState = [("count", "&self.count()"); ("chunk_counter", "&self.chunk_counter"); ("flags", "&self.flags");
                             ("platform", "&self.platform")] /\
  debug_builder_OutputReader = ("debug_struct", "OutputReader") /\
  debug_fields_OutputReader = [("position", "&self.position()")] /\
  debug_builder_Hash = ("debug_tuple", "Hash") /\ debug_fields_Hash = [("", "&hex")].
Proof. repeat split. Qed.
