(* The vector round function and the register transposes as TRANSLATED from the sources
   (gen/GenRounds.v, terms over Model/Intrinsics.v) equal the hand-written models of Model/Kernels.v
   (`vround` = round_src on vectors, `transpose_vecs_128/256/512`), on which Proofs/KernelsP.v builds
   (vround_lane: lane i of vround is the portable round; transpose_vecs_*_ok: a true transpose).
   Everything is symbolic: registers, message vectors and the round number are variables.
     A  bits of 32-bit words (a small bit-blasting tactic), the lane facts behind rot16/12/8/7
     B  registers of 32-bit lanes; closure of the lane-wise operations
     C  the byte / 16-bit shuffles with the constants of the sources
     D  the 112-statement skeleton, one `let` at a time
     E  the helpers and the round of every file
     F  the transposes
     G  transpose_msg_vecs* (16 loads + transposes) = Kernels.transpose_msg_vecs4/8/16
     H  one iteration of the `for block` loop of hashN = Kernels.vcompress
   Unconditional (any lists): the Rust files (srli/slli/or) and blake3_avx512.c (ror).
   For registers of 32-bit lanes (`reg n`): blake3_sse2.c, blake3_sse41.c, blake3_avx2.c, whose rotations
   are byte / 16-bit shuffles and srli/slli/XOR. *)
From Coq Require Import NArith ZArith List Bool Arith Lia.
From V Require Import Base.Res Base.Word gen.GenConsts Model.Portable Model.Kernels Model.Intrinsics gen.GenRounds
  Proofs.KernelsP Proofs.CountersP.
Import ListNotations.
Open Scope N_scope.

(* ------------------------------------------------------------------ *)
(* A. bits of 32-bit words                                             *)
(* ------------------------------------------------------------------ *)
Definition W (x : N) : Prop := x < 4294967296.

Lemma testbit_high x n : W x -> 32 <= n -> N.testbit x n = false.
Proof.
  intros Hx Hn. rewrite <- (N.mod_small x (2 ^ 32)) by exact Hx. apply N.mod_pow2_bits_high. exact Hn.
Qed.
Lemma W_of_bits x : (forall n, 32 <= n -> N.testbit x n = false) -> W x.
Proof.
  intros H. assert (E : x = x mod 2 ^ 32).
  { apply N.bits_inj. intros n. destruct (N.lt_ge_cases n 32) as [L|L].
    - rewrite N.mod_pow2_bits_low by exact L. reflexivity.
    - rewrite N.mod_pow2_bits_high by exact L. apply H, L. }
  unfold W. rewrite E. apply N.mod_lt. discriminate.
Qed.
Lemma testbit_shiftl a k n : N.testbit (N.shiftl a k) n = if n <? k then false else N.testbit a (n - k).
Proof.
  destruct (N.ltb_spec n k) as [L|L]; [apply N.shiftl_spec_low, L|apply N.shiftl_spec_high', L].
Qed.
Lemma testbit_ones k n : N.testbit (N.ones k) n = (n <? k).
Proof.
  destruct (N.ltb_spec n k) as [L|L]; [apply N.ones_spec_low, L|apply N.ones_spec_high, L].
Qed.

(* push testbit through the bitwise operations; then decide the comparisons by lia in each range *)
Ltac bb_push :=
  repeat first [ rewrite N.lor_spec | rewrite N.land_spec | rewrite N.lxor_spec | rewrite N.shiftr_spec'
               | rewrite testbit_shiftl | rewrite testbit_ones ].
Ltac bb_cmp :=
  repeat match goal with
  | |- context [?a <? ?b] =>
      first [ replace (a <? b) with true by (symmetry; apply N.ltb_lt; lia)
            | replace (a <? b) with false by (symmetry; apply N.ltb_ge; lia) ]
  end.
Ltac bb_high :=
  repeat match goal with
  | H : W ?x |- context [N.testbit ?x ?e] => rewrite (testbit_high x e H) by lia
  end.
Ltac bb_bool :=
  rewrite ?andb_true_r, ?andb_false_r, ?orb_false_r, ?orb_true_r, ?xorb_false_r, ?andb_true_l, ?andb_false_l,
          ?orb_false_l, ?xorb_false_l.
Ltac bb_eq :=
  lazymatch goal with
  | |- N.testbit ?x ?a = N.testbit ?x ?b => f_equal; lia
  | |- orb _ _ = orb _ _ => f_equal; bb_eq
  | |- andb _ _ = andb _ _ => f_equal; bb_eq
  | |- xorb _ _ = xorb _ _ => f_equal; bb_eq
  | |- _ => reflexivity
  end.
Ltac bb_fin := bb_cmp; cbv iota; bb_high; bb_bool; bb_eq.
Ltac bb_consts :=
  unfold rotr32, w32, mask32, byte_n, word_of_bytes4;
  change 4294967295 with (N.ones 32); change 65535 with (N.ones 16); change 255 with (N.ones 8).
(* split the bit index n at the given bounds, then finish each range *)
Ltac bb_split n bounds :=
  lazymatch bounds with
  | nil => bb_fin
  | cons ?b ?tl => destruct (N.lt_ge_cases n b); [bb_fin | bb_split n tl]
  end.
Ltac bitblast bounds :=
  apply N.bits_inj; let n := fresh "n" in intros n; bb_consts; bb_push; bb_split n bounds.

Lemma W_w32 x : W (w32 x).
Proof. apply w32_lt. Qed.
Lemma W_lor a b : W a -> W b -> W (N.lor a b).
Proof. intros Ha Hb. apply W_of_bits. intros n Hn. bb_push. bb_fin. Qed.
Lemma W_lxor a b : W a -> W b -> W (N.lxor a b).
Proof. intros Ha Hb. apply W_of_bits. intros n Hn. bb_push. bb_fin. Qed.
Lemma W_shiftr a k : W a -> W (N.shiftr a k).
Proof. intros Ha. apply W_of_bits. intros n Hn. bb_push. bb_fin. Qed.
Lemma W_rotr32 x r : W x -> W (rotr32 x r).
Proof. intros H. unfold rotr32. apply W_lor; [apply W_shiftr, H|apply W_w32]. Qed.

(* (x >> k) ^ (x << (32 - k)) = (x >> k) | (x << (32 - k)): the two parts have no common bit *)
Lemma rot_xor x k : W x -> 0 < k < 32 ->
  N.lxor (N.shiftr x k) (w32 (N.shiftl x (32 - k))) = rotr32 x k.
Proof.
  intros Hx Hk. bitblast [32 - k; 32].
Qed.
(* bytes 2 3 0 1 of a word are the word rotated by 16; bytes 1 2 3 0, by 8 *)
Lemma rot16_bytes x : W x ->
  word_of_bytes4 (byte_n x 2) (byte_n x 3) (byte_n x 0) (byte_n x 1) = rotr32 x 16.
Proof. intros Hx. bitblast [8; 16; 24; 32]. Qed.
Lemma rot8_bytes x : W x ->
  word_of_bytes4 (byte_n x 1) (byte_n x 2) (byte_n x 3) (byte_n x 0) = rotr32 x 8.
Proof. intros Hx. bitblast [8; 16; 24; 32]. Qed.

(* ------------------------------------------------------------------ *)
(* B. registers of 32-bit lanes                                        *)
(* ------------------------------------------------------------------ *)
(* a register of n lanes: what an __m128i / __m256i / __m512i is (n = 4 / 8 / 16) *)
Definition reg (n : nat) (x : vec) : Prop := length x = n /\ Forall W x.
(* ... or the default value [] of an out-of-range read (nth _ m []), on which every
   lane-wise operation, model and translation alike, returns [] *)
Definition regz (n : nat) (x : vec) : Prop := Forall W x /\ (length x = n \/ x = []).

Lemma reg_regz n x : reg n x -> regz n x.
Proof. intros [L F]. split; [exact F|left; exact L]. Qed.
Lemma regz_nil n : regz n [].
Proof. split; [constructor|right; reflexivity]. Qed.

Lemma vmap2_nil_r f a : vmap2 f a [] = [].
Proof. unfold vmap2. destruct a; reflexivity. Qed.
Lemma vmap2_shape n f a b : (length a = n \/ a = []) -> (length b = n \/ b = []) ->
  length (vmap2 f a b) = n \/ vmap2 f a b = [].
Proof.
  intros [La| ->] [Lb| ->]; [left|right|right|right]; try reflexivity; try apply vmap2_nil_r.
  unfold vmap2. rewrite map_length, combine_length, La, Lb. apply Nat.min_id.
Qed.
Lemma vmap2_W f a b : (forall x y, In x a -> In y b -> W (f x y)) -> Forall W (vmap2 f a b).
Proof.
  intros H. unfold vmap2. apply Forall_forall. intros z Hz. apply in_map_iff in Hz.
  destruct Hz as ([x y] & <- & Hin). apply H; [eapply in_combine_l|eapply in_combine_r]; exact Hin.
Qed.
Lemma regz_vadd n a b : regz n a -> regz n b -> regz n (vadd a b).
Proof.
  intros [_ Sa] [_ Sb]. split; [|apply vmap2_shape; assumption].
  apply vmap2_W. intros. apply W_w32.
Qed.
Lemma regz_vxor n a b : regz n a -> regz n b -> regz n (vxor a b).
Proof.
  intros [Wa Sa] [Wb Sb]. split; [|apply vmap2_shape; assumption].
  apply vmap2_W. intros x y Hx Hy. rewrite Forall_forall in Wa, Wb. apply W_lxor; [apply Wa, Hx|apply Wb, Hy].
Qed.
Lemma regz_vrot n a r : regz n a -> regz n (vrot a r).
Proof.
  intros [Wa Sa]. split.
  - unfold vrot. apply Forall_forall. intros z Hz. apply in_map_iff in Hz. destruct Hz as (x & <- & Hx).
    rewrite Forall_forall in Wa. apply W_rotr32, Wa, Hx.
  - destruct Sa as [L| ->]; [left; unfold vrot; rewrite map_length; exact L|right; reflexivity].
Qed.
Lemma regz_mw n m r k : Forall (regz n) m -> regz n (mw [] m r k).
Proof.
  intros H. unfold mw. destruct (nth_in_or_default (sched r k) m []) as [I|E].
  - rewrite Forall_forall in H. apply H, I.
  - unfold vec in *. rewrite E. apply regz_nil.
Qed.
(* the C table is the Rust table *)
Lemma c_mw_mw m r k : c_mw m r k = mw [] m r k.
Proof. reflexivity. Qed.

(* lane-wise f(x) op g(x) *)
Lemma vmap2_maps (h : N -> N -> N) (f g : N -> N) a :
  vmap2 h (map f a) (map g a) = map (fun x => h (f x) (g x)) a.
Proof. unfold vmap2. induction a as [|x a IH]; [reflexivity|]. cbn [map combine fst snd]. rewrite <- IH. reflexivity. Qed.

(* (x >> k) | (x << (32 - k)): srli / slli / or, any register *)
Lemma rot_or_ok (k : N) (ks kl : Z) a : (0 < k < 32) -> imm8 ks = k -> imm8 kl = 32 - k ->
  vmap2 N.lor (map (srl32 (imm8 ks)) a) (map (sll32 (imm8 kl)) a) = vrot a k.
Proof.
  intros Hk -> ->. rewrite vmap2_maps. unfold vrot. apply map_ext. intros x.
  unfold srl32, sll32, rotr32.
  replace (31 <? k) with false by (symmetry; apply N.ltb_ge; lia).
  replace (31 <? 32 - k) with false by (symmetry; apply N.ltb_ge; lia). reflexivity.
Qed.
(* (x >> k) ^ (x << (32 - k)): srli / slli / xor, registers of 32-bit lanes *)
Lemma rot_xor_ok (k : N) (ks kl : Z) a : (0 < k < 32) -> imm8 ks = k -> imm8 kl = 32 - k -> Forall W a ->
  vxor (map (srl32 (imm8 ks)) a) (map (sll32 (imm8 kl)) a) = vrot a k.
Proof.
  intros Hk -> -> Ha. unfold vxor. rewrite vmap2_maps. unfold vrot. apply map_ext_in. intros x Hx.
  rewrite Forall_forall in Ha. unfold srl32, sll32, xor32.
  replace (31 <? k) with false by (symmetry; apply N.ltb_ge; lia).
  replace (31 <? 32 - k) with false by (symmetry; apply N.ltb_ge; lia).
  apply rot_xor; [apply Ha, Hx|exact Hk].
Qed.
(* _mm*_ror_epi32 *)
Lemma ror_ok (k : N) (kz : Z) a : imm8 kz = k -> k < 32 -> map (ror32 (imm8 kz)) a = vrot a k.
Proof.
  intros -> Hk. unfold vrot. apply map_ext. intros x. unfold ror32, rotr32. cbv zeta.
  rewrite N.mod_small by exact Hk. reflexivity.
Qed.

(* ------------------------------------------------------------------ *)
(* C. byte and 16-bit shuffles with the constants of the sources        *)
(* ------------------------------------------------------------------ *)
(* _mm_shuffle_epi8 / _mm256_shuffle_epi8 with the two index constants of the sources, on abstract bytes *)
Lemma pshufb_rot16_128 (x0 x1 x2 x3 x4 x5 x6 x7 x8 x9 x10 x11 x12 x13 x14 x15 : N) :
  pshufb [x0; x1; x2; x3; x4; x5; x6; x7; x8; x9; x10; x11; x12; x13; x14; x15]
         [2; 3; 0; 1; 6; 7; 4; 5; 10; 11; 8; 9; 14; 15; 12; 13] =
  [x2; x3; x0; x1; x6; x7; x4; x5; x10; x11; x8; x9; x14; x15; x12; x13].
Proof. reflexivity. Qed.
Lemma pshufb_rot8_128 (x0 x1 x2 x3 x4 x5 x6 x7 x8 x9 x10 x11 x12 x13 x14 x15 : N) :
  pshufb [x0; x1; x2; x3; x4; x5; x6; x7; x8; x9; x10; x11; x12; x13; x14; x15]
         [1; 2; 3; 0; 5; 6; 7; 4; 9; 10; 11; 8; 13; 14; 15; 12] =
  [x1; x2; x3; x0; x5; x6; x7; x4; x9; x10; x11; x8; x13; x14; x15; x12].
Proof. reflexivity. Qed.
Lemma pshufb_rot16_256 (x0 x1 x2 x3 x4 x5 x6 x7 x8 x9 x10 x11 x12 x13 x14 x15 x16 x17 x18 x19 x20 x21 x22 x23 x24 x25 x26 x27 x28 x29 x30 x31 : N) :
  pshufb [x0; x1; x2; x3; x4; x5; x6; x7; x8; x9; x10; x11; x12; x13; x14; x15; x16; x17; x18; x19; x20; x21; x22; x23; x24; x25; x26; x27; x28; x29; x30; x31]
         [2; 3; 0; 1; 6; 7; 4; 5; 10; 11; 8; 9; 14; 15; 12; 13; 2; 3; 0; 1; 6; 7; 4; 5; 10; 11; 8; 9; 14; 15; 12; 13] =
  [x2; x3; x0; x1; x6; x7; x4; x5; x10; x11; x8; x9; x14; x15; x12; x13; x18; x19; x16; x17; x22; x23; x20; x21; x26; x27; x24; x25; x30; x31; x28; x29].
Proof. reflexivity. Qed.
Lemma pshufb_rot8_256 (x0 x1 x2 x3 x4 x5 x6 x7 x8 x9 x10 x11 x12 x13 x14 x15 x16 x17 x18 x19 x20 x21 x22 x23 x24 x25 x26 x27 x28 x29 x30 x31 : N) :
  pshufb [x0; x1; x2; x3; x4; x5; x6; x7; x8; x9; x10; x11; x12; x13; x14; x15; x16; x17; x18; x19; x20; x21; x22; x23; x24; x25; x26; x27; x28; x29; x30; x31]
         [1; 2; 3; 0; 5; 6; 7; 4; 9; 10; 11; 8; 13; 14; 15; 12; 1; 2; 3; 0; 5; 6; 7; 4; 9; 10; 11; 8; 13; 14; 15; 12] =
  [x1; x2; x3; x0; x5; x6; x7; x4; x9; x10; x11; x8; x13; x14; x15; x12; x17; x18; x19; x16; x21; x22; x23; x20; x25; x26; x27; x24; x29; x30; x31; x28].
Proof. reflexivity. Qed.

Ltac lanes_of x n H :=
  let rec go x n := lazymatch n with
    | O => destruct x; [|discriminate H]
    | S ?n' => destruct x as [|? x]; [discriminate H|go x n'] end in go x n.

Ltac forall_inv :=
  repeat match goal with
  | H : Forall _ (_ :: _) |- _ => apply Forall_cons_iff in H; let H1 := fresh "HW" in destruct H as [H1 H]
  end.

Lemma shuffle8_rot16_128 x c : regz 4 x ->
  to8 c = [2; 3; 0; 1; 6; 7; 4; 5; 10; 11; 8; 9; 14; 15; 12; 13] -> mm_shuffle_epi8 x c = vrot x 16.
Proof.
  intros [HW [HL| ->]] Hc; [|reflexivity]. lanes_of x 4%nat HL. forall_inv.
  unfold mm_shuffle_epi8. rewrite Hc. cbn [to8 bytes_of_words flat_map bytes_of_word app].
  rewrite pshufb_rot16_128. cbn [of8 words_of_bytes vrot map]. rewrite !rot16_bytes by assumption. reflexivity.
Qed.
Lemma shuffle8_rot8_128 x c : regz 4 x ->
  to8 c = [1; 2; 3; 0; 5; 6; 7; 4; 9; 10; 11; 8; 13; 14; 15; 12] -> mm_shuffle_epi8 x c = vrot x 8.
Proof.
  intros [HW [HL| ->]] Hc; [|reflexivity]. lanes_of x 4%nat HL. forall_inv.
  unfold mm_shuffle_epi8. rewrite Hc. cbn [to8 bytes_of_words flat_map bytes_of_word app].
  rewrite pshufb_rot8_128. cbn [of8 words_of_bytes vrot map]. rewrite !rot8_bytes by assumption. reflexivity.
Qed.
Lemma shuffle8_rot16_256 x c : regz 8 x ->
  to8 c = [2; 3; 0; 1; 6; 7; 4; 5; 10; 11; 8; 9; 14; 15; 12; 13; 2; 3; 0; 1; 6; 7; 4; 5; 10; 11; 8; 9; 14; 15; 12; 13] ->
  mm256_shuffle_epi8 x c = vrot x 16.
Proof.
  intros [HW [HL| ->]] Hc; [|reflexivity]. lanes_of x 8%nat HL. forall_inv.
  unfold mm256_shuffle_epi8. rewrite Hc. cbn [to8 bytes_of_words flat_map bytes_of_word app].
  rewrite pshufb_rot16_256. cbn [of8 words_of_bytes vrot map]. rewrite !rot16_bytes by assumption. reflexivity.
Qed.
Lemma shuffle8_rot8_256 x c : regz 8 x ->
  to8 c = [1; 2; 3; 0; 5; 6; 7; 4; 9; 10; 11; 8; 13; 14; 15; 12; 1; 2; 3; 0; 5; 6; 7; 4; 9; 10; 11; 8; 13; 14; 15; 12] ->
  mm256_shuffle_epi8 x c = vrot x 8.
Proof.
  intros [HW [HL| ->]] Hc; [|reflexivity]. lanes_of x 8%nat HL. forall_inv.
  unfold mm256_shuffle_epi8. rewrite Hc. cbn [to8 bytes_of_words flat_map bytes_of_word app].
  rewrite pshufb_rot8_256. cbn [of8 words_of_bytes vrot map]. rewrite !rot8_bytes by assumption. reflexivity.
Qed.
(* _mm_shufflehi_epi16(_mm_shufflelo_epi16(x, 0xB1), 0xB1): the lanes 0, 1 are swapped by the first shuffle and
   copied by the second, the lanes 2, 3 the other way round *)
Lemma rot16_halves_lo x : W x ->
  N.lor (N.land (N.lor (N.land (N.shiftr x 16) 65535) (N.shiftl (N.land x 65535) 16)) 65535)
        (N.shiftl (N.land (N.shiftr (N.lor (N.land (N.shiftr x 16) 65535) (N.shiftl (N.land x 65535) 16)) 16) 65535) 16)
  = rotr32 x 16.
Proof. intros Hx. bitblast [16; 32]. Qed.
Lemma rot16_halves_hi x : W x ->
  N.lor (N.land (N.shiftr (N.lor (N.land x 65535) (N.shiftl (N.land (N.shiftr x 16) 65535) 16)) 16) 65535)
        (N.shiftl (N.land (N.lor (N.land x 65535) (N.shiftl (N.land (N.shiftr x 16) 65535) 16)) 65535) 16)
  = rotr32 x 16.
Proof. intros Hx. bitblast [16; 32]. Qed.

Lemma shuffle16_rot16 x : regz 4 x -> mm_shufflehi_epi16 (mm_shufflelo_epi16 x 0xb1%Z) 0xb1%Z = vrot x 16.
Proof.
  intros [HW [HL| ->]]; [|reflexivity]. lanes_of x 4%nat HL. forall_inv.
  unfold mm_shufflehi_epi16, mm_shufflelo_epi16.
  change (imm8 177) with 177.
  cbn [to16 flat_map app shuflo16 shufhi16]. cbv zeta.
  change (sel2 177 0) with 1%nat. change (sel2 177 1) with 0%nat.
  change (sel2 177 2) with 3%nat. change (sel2 177 3) with 2%nat.
  cbn [to16 flat_map app nth of16 shuflo16 shufhi16 vrot map]. cbv zeta.
  change (sel2 177 0) with 1%nat. change (sel2 177 1) with 0%nat.
  change (sel2 177 2) with 3%nat. change (sel2 177 3) with 2%nat.
  cbn [nth of16].
  rewrite !rot16_halves_lo, !rot16_halves_hi by assumption. reflexivity.
Qed.

(* ------------------------------------------------------------------ *)
(* D. the 112-statement skeleton, one `let` at a time                  *)
(* ------------------------------------------------------------------ *)
Lemma let_step {A B} (P : A -> Prop) (a a' : A) (f f' : A -> B) :
  a = a' -> P a' -> (forall x, P x -> f x = f' x) -> (let x := a in f x) = (let x := a' in f' x).
Proof. intros -> H E. cbv zeta. apply E, H. Qed.

(* invariant of the unconditional proofs *)
Definition anyreg (x : vec) : Prop := True.

(* solve_eq: the translated statement equals the model statement (helper lemmas, or conversion for add / xor
   and for c_mw = mw); solve_P: the invariant of the value just bound *)
Ltac round_steps P solve_eq solve_P :=
  repeat lazymatch goal with
  | |- (let x := ?a in @?f x) = (let y := ?a' in @?f' y) =>
      apply (let_step P a a' f f');
      [ solve_eq | solve_P | let x := fresh "x" in let H := fresh "Hx" in intros x H; cbv beta ]
  end.

Ltac split16_with v tac :=
  destruct v as [|?v0 [|?v1 [|?v2 [|?v3 [|?v4 [|?v5 [|?v6 [|?v7 [|?v8 [|?v9 [|?v10 [|?v11 [|?v12 [|?v13 [|?v14 [|?v15 [|? ?]]]]]]]]]]]]]]]]];
  [tac .. | idtac | tac].
Ltac split16 v := split16_with v ltac:(reflexivity).

Ltac regz_closure :=
  solve [repeat first [ assumption | apply regz_vadd | apply regz_vxor | apply regz_vrot | apply regz_mw ]].

Lemma Forall_reg_regz n l : Forall (reg n) l -> Forall (regz n) l.
Proof. apply Forall_impl. intros x. apply reg_regz. Qed.

(* the model round keeps registers of 32-bit lanes (so the conditional equalities chain over the rounds) *)
Lemma vround_regz n v m r : Forall (regz n) v -> Forall (regz n) m -> Forall (regz n) (vround v m r).
Proof.
  intros Hv Hm. cbv beta delta [vround round_src].
  split16_with v ltac:(exact Hv). cbv beta iota zeta.
  forall_inv. repeat (apply Forall_cons; [regz_closure|]). constructor.
Qed.
Lemma vround_length v m r : length (vround v m r) = length v.
Proof. cbv beta delta [vround round_src]. split16 v. reflexivity. Qed.

(* ------------------------------------------------------------------ *)
(* E. the helpers and the round of every file                          *)
(* ------------------------------------------------------------------ *)
(* src/rust_sse2.rs, src/rust_sse41.rs, src/rust_avx2.rs: rotN = (x >> N) | (x << (32 - N)) *)
Lemma rs_sse2_rot16_ok a : rs_sse2_rot16 a = vrot a 16.
Proof. apply (rot_or_ok 16); [lia|reflexivity|reflexivity]. Qed.
Lemma rs_sse2_rot12_ok a : rs_sse2_rot12 a = vrot a 12.
Proof. apply (rot_or_ok 12); [lia|reflexivity|reflexivity]. Qed.
Lemma rs_sse2_rot8_ok a : rs_sse2_rot8 a = vrot a 8.
Proof. apply (rot_or_ok 8); [lia|reflexivity|reflexivity]. Qed.
Lemma rs_sse2_rot7_ok a : rs_sse2_rot7 a = vrot a 7.
Proof. apply (rot_or_ok 7); [lia|reflexivity|reflexivity]. Qed.
Theorem rs_sse2_round_ok v m r : rs_sse2_round v m r = vround v m r.
Proof.
  cbv beta delta [rs_sse2_round vround round_src]. split16 v. cbv beta iota.
  round_steps anyreg ltac:(first [ apply rs_sse2_rot16_ok | apply rs_sse2_rot12_ok | apply rs_sse2_rot8_ok | apply rs_sse2_rot7_ok | reflexivity ]) ltac:(exact I).
  reflexivity.
Qed.

Lemma rs_sse41_rot16_ok a : rs_sse41_rot16 a = vrot a 16.
Proof. apply (rot_or_ok 16); [lia|reflexivity|reflexivity]. Qed.
Lemma rs_sse41_rot12_ok a : rs_sse41_rot12 a = vrot a 12.
Proof. apply (rot_or_ok 12); [lia|reflexivity|reflexivity]. Qed.
Lemma rs_sse41_rot8_ok a : rs_sse41_rot8 a = vrot a 8.
Proof. apply (rot_or_ok 8); [lia|reflexivity|reflexivity]. Qed.
Lemma rs_sse41_rot7_ok a : rs_sse41_rot7 a = vrot a 7.
Proof. apply (rot_or_ok 7); [lia|reflexivity|reflexivity]. Qed.
Theorem rs_sse41_round_ok v m r : rs_sse41_round v m r = vround v m r.
Proof.
  cbv beta delta [rs_sse41_round vround round_src]. split16 v. cbv beta iota.
  round_steps anyreg ltac:(first [ apply rs_sse41_rot16_ok | apply rs_sse41_rot12_ok | apply rs_sse41_rot8_ok | apply rs_sse41_rot7_ok | reflexivity ]) ltac:(exact I).
  reflexivity.
Qed.

Lemma rs_avx2_rot16_ok a : rs_avx2_rot16 a = vrot a 16.
Proof. apply (rot_or_ok 16); [lia|reflexivity|reflexivity]. Qed.
Lemma rs_avx2_rot12_ok a : rs_avx2_rot12 a = vrot a 12.
Proof. apply (rot_or_ok 12); [lia|reflexivity|reflexivity]. Qed.
Lemma rs_avx2_rot8_ok a : rs_avx2_rot8 a = vrot a 8.
Proof. apply (rot_or_ok 8); [lia|reflexivity|reflexivity]. Qed.
Lemma rs_avx2_rot7_ok a : rs_avx2_rot7 a = vrot a 7.
Proof. apply (rot_or_ok 7); [lia|reflexivity|reflexivity]. Qed.
Theorem rs_avx2_round_ok v m r : rs_avx2_round v m r = vround v m r.
Proof.
  cbv beta delta [rs_avx2_round vround round_src]. split16 v. cbv beta iota.
  round_steps anyreg ltac:(first [ apply rs_avx2_rot16_ok | apply rs_avx2_rot12_ok | apply rs_avx2_rot8_ok | apply rs_avx2_rot7_ok | reflexivity ]) ltac:(exact I).
  reflexivity.
Qed.

(* c/blake3_avx512.c: rotN = _mm*_ror_epi32(x, N) *)
Lemma c_avx512_rot16_128_ok a : c_avx512_rot16_128 a = vrot a 16.
Proof. apply (ror_ok 16); [reflexivity|lia]. Qed.
Lemma c_avx512_rot12_128_ok a : c_avx512_rot12_128 a = vrot a 12.
Proof. apply (ror_ok 12); [reflexivity|lia]. Qed.
Lemma c_avx512_rot8_128_ok a : c_avx512_rot8_128 a = vrot a 8.
Proof. apply (ror_ok 8); [reflexivity|lia]. Qed.
Lemma c_avx512_rot7_128_ok a : c_avx512_rot7_128 a = vrot a 7.
Proof. apply (ror_ok 7); [reflexivity|lia]. Qed.
Theorem c_avx512_round_fn4_ok v m r : c_avx512_round_fn4 v m r = vround v m r.
Proof.
  cbv beta delta [c_avx512_round_fn4 vround round_src]. split16 v. cbv beta iota.
  round_steps anyreg ltac:(first [ apply c_avx512_rot16_128_ok | apply c_avx512_rot12_128_ok | apply c_avx512_rot8_128_ok | apply c_avx512_rot7_128_ok | reflexivity ]) ltac:(exact I).
  reflexivity.
Qed.

Lemma c_avx512_rot16_256_ok a : c_avx512_rot16_256 a = vrot a 16.
Proof. apply (ror_ok 16); [reflexivity|lia]. Qed.
Lemma c_avx512_rot12_256_ok a : c_avx512_rot12_256 a = vrot a 12.
Proof. apply (ror_ok 12); [reflexivity|lia]. Qed.
Lemma c_avx512_rot8_256_ok a : c_avx512_rot8_256 a = vrot a 8.
Proof. apply (ror_ok 8); [reflexivity|lia]. Qed.
Lemma c_avx512_rot7_256_ok a : c_avx512_rot7_256 a = vrot a 7.
Proof. apply (ror_ok 7); [reflexivity|lia]. Qed.
Theorem c_avx512_round_fn8_ok v m r : c_avx512_round_fn8 v m r = vround v m r.
Proof.
  cbv beta delta [c_avx512_round_fn8 vround round_src]. split16 v. cbv beta iota.
  round_steps anyreg ltac:(first [ apply c_avx512_rot16_256_ok | apply c_avx512_rot12_256_ok | apply c_avx512_rot8_256_ok | apply c_avx512_rot7_256_ok | reflexivity ]) ltac:(exact I).
  reflexivity.
Qed.

Lemma c_avx512_rot16_512_ok a : c_avx512_rot16_512 a = vrot a 16.
Proof. apply (ror_ok 16); [reflexivity|lia]. Qed.
Lemma c_avx512_rot12_512_ok a : c_avx512_rot12_512 a = vrot a 12.
Proof. apply (ror_ok 12); [reflexivity|lia]. Qed.
Lemma c_avx512_rot8_512_ok a : c_avx512_rot8_512 a = vrot a 8.
Proof. apply (ror_ok 8); [reflexivity|lia]. Qed.
Lemma c_avx512_rot7_512_ok a : c_avx512_rot7_512 a = vrot a 7.
Proof. apply (ror_ok 7); [reflexivity|lia]. Qed.
Theorem c_avx512_round_fn16_ok v m r : c_avx512_round_fn16 v m r = vround v m r.
Proof.
  cbv beta delta [c_avx512_round_fn16 vround round_src]. split16 v. cbv beta iota.
  round_steps anyreg ltac:(first [ apply c_avx512_rot16_512_ok | apply c_avx512_rot12_512_ok | apply c_avx512_rot8_512_ok | apply c_avx512_rot7_512_ok | reflexivity ]) ltac:(exact I).
  reflexivity.
Qed.

(* c/blake3_sse2.c: rot16 = shufflehi(shufflelo(x, 0xB1), 0xB1), rot12/8/7 = (x >> N) ^ (x << (32 - N)) *)
Lemma c_sse2_rot16_ok x : regz 4 x -> c_sse2_rot16 x = vrot x 16.
Proof. apply shuffle16_rot16. Qed.
Lemma c_sse2_rot12_ok x : regz 4 x -> c_sse2_rot12 x = vrot x 12.
Proof. intros [H _]. apply (rot_xor_ok 12); [lia|reflexivity|reflexivity|exact H]. Qed.
Lemma c_sse2_rot8_ok x : regz 4 x -> c_sse2_rot8 x = vrot x 8.
Proof. intros [H _]. apply (rot_xor_ok 8); [lia|reflexivity|reflexivity|exact H]. Qed.
Lemma c_sse2_rot7_ok x : regz 4 x -> c_sse2_rot7 x = vrot x 7.
Proof. intros [H _]. apply (rot_xor_ok 7); [lia|reflexivity|reflexivity|exact H]. Qed.
Theorem c_sse2_round_fn_regz v m r : Forall (regz 4) v -> Forall (regz 4) m -> c_sse2_round_fn v m r = vround v m r.
Proof.
  intros Hv Hm. cbv beta delta [c_sse2_round_fn vround round_src]. split16 v. cbv beta iota. forall_inv.
  round_steps (regz 4) ltac:(first [ apply c_sse2_rot16_ok; assumption | apply c_sse2_rot12_ok; assumption | apply c_sse2_rot8_ok; assumption | apply c_sse2_rot7_ok; assumption | reflexivity ]) ltac:(regz_closure).
  reflexivity.
Qed.
Theorem c_sse2_round_fn_ok v m r : Forall (reg 4) v -> Forall (reg 4) m -> c_sse2_round_fn v m r = vround v m r.
Proof. intros Hv Hm. apply c_sse2_round_fn_regz; apply Forall_reg_regz; assumption. Qed.

(* c/blake3_sse41.c: rot16, rot8 = _mm_shuffle_epi8 with a constant, rot12/7 = (x >> N) ^ (x << (32 - N)) *)
Lemma c_sse41_rot16_ok x : regz 4 x -> c_sse41_rot16 x = vrot x 16.
Proof. intros H. apply shuffle8_rot16_128; [exact H|vm_compute; reflexivity]. Qed.
Lemma c_sse41_rot12_ok x : regz 4 x -> c_sse41_rot12 x = vrot x 12.
Proof. intros [H _]. apply (rot_xor_ok 12); [lia|reflexivity|reflexivity|exact H]. Qed.
Lemma c_sse41_rot8_ok x : regz 4 x -> c_sse41_rot8 x = vrot x 8.
Proof. intros H. apply shuffle8_rot8_128; [exact H|vm_compute; reflexivity]. Qed.
Lemma c_sse41_rot7_ok x : regz 4 x -> c_sse41_rot7 x = vrot x 7.
Proof. intros [H _]. apply (rot_xor_ok 7); [lia|reflexivity|reflexivity|exact H]. Qed.
Theorem c_sse41_round_fn_regz v m r : Forall (regz 4) v -> Forall (regz 4) m -> c_sse41_round_fn v m r = vround v m r.
Proof.
  intros Hv Hm. cbv beta delta [c_sse41_round_fn vround round_src]. split16 v. cbv beta iota. forall_inv.
  round_steps (regz 4) ltac:(first [ apply c_sse41_rot16_ok; assumption | apply c_sse41_rot12_ok; assumption | apply c_sse41_rot8_ok; assumption | apply c_sse41_rot7_ok; assumption | reflexivity ]) ltac:(regz_closure).
  reflexivity.
Qed.
Theorem c_sse41_round_fn_ok v m r : Forall (reg 4) v -> Forall (reg 4) m -> c_sse41_round_fn v m r = vround v m r.
Proof. intros Hv Hm. apply c_sse41_round_fn_regz; apply Forall_reg_regz; assumption. Qed.

(* c/blake3_avx2.c: rot16, rot8 = _mm256_shuffle_epi8 with a constant, rot12/7 = (x >> N) | (x << (32 - N)) *)
Lemma c_avx2_rot16_ok x : regz 8 x -> c_avx2_rot16 x = vrot x 16.
Proof. intros H. apply shuffle8_rot16_256; [exact H|vm_compute; reflexivity]. Qed.
Lemma c_avx2_rot12_ok x : regz 8 x -> c_avx2_rot12 x = vrot x 12.
Proof. intros _. apply (rot_or_ok 12); [lia|reflexivity|reflexivity]. Qed.
Lemma c_avx2_rot8_ok x : regz 8 x -> c_avx2_rot8 x = vrot x 8.
Proof. intros H. apply shuffle8_rot8_256; [exact H|vm_compute; reflexivity]. Qed.
Lemma c_avx2_rot7_ok x : regz 8 x -> c_avx2_rot7 x = vrot x 7.
Proof. intros _. apply (rot_or_ok 7); [lia|reflexivity|reflexivity]. Qed.
Theorem c_avx2_round_fn_regz v m r : Forall (regz 8) v -> Forall (regz 8) m -> c_avx2_round_fn v m r = vround v m r.
Proof.
  intros Hv Hm. cbv beta delta [c_avx2_round_fn vround round_src]. split16 v. cbv beta iota. forall_inv.
  round_steps (regz 8) ltac:(first [ apply c_avx2_rot16_ok; assumption | apply c_avx2_rot12_ok; assumption | apply c_avx2_rot8_ok; assumption | apply c_avx2_rot7_ok; assumption | reflexivity ]) ltac:(regz_closure).
  reflexivity.
Qed.
Theorem c_avx2_round_fn_ok v m r : Forall (reg 8) v -> Forall (reg 8) m -> c_avx2_round_fn v m r = vround v m r.
Proof. intros Hv Hm. apply c_avx2_round_fn_regz; apply Forall_reg_regz; assumption. Qed.

(* the four rotations of c_sse2, on registers of 4 32-bit lanes *)
Lemma c_sse2_rots_ok x : reg 4 x ->
  c_sse2_rot16 x = vrot x 16 /\ c_sse2_rot12 x = vrot x 12 /\ c_sse2_rot8 x = vrot x 8 /\ c_sse2_rot7 x = vrot x 7.
Proof.
  intros H. apply reg_regz in H.
  repeat split; [apply c_sse2_rot16_ok|apply c_sse2_rot12_ok|apply c_sse2_rot8_ok|apply c_sse2_rot7_ok]; exact H.
Qed.
(* the four rotations of c_sse41, on registers of 4 32-bit lanes *)
Lemma c_sse41_rots_ok x : reg 4 x ->
  c_sse41_rot16 x = vrot x 16 /\ c_sse41_rot12 x = vrot x 12 /\ c_sse41_rot8 x = vrot x 8 /\ c_sse41_rot7 x = vrot x 7.
Proof.
  intros H. apply reg_regz in H.
  repeat split; [apply c_sse41_rot16_ok|apply c_sse41_rot12_ok|apply c_sse41_rot8_ok|apply c_sse41_rot7_ok]; exact H.
Qed.
(* the four rotations of c_avx2, on registers of 8 32-bit lanes *)
Lemma c_avx2_rots_ok x : reg 8 x ->
  c_avx2_rot16 x = vrot x 16 /\ c_avx2_rot12 x = vrot x 12 /\ c_avx2_rot8 x = vrot x 8 /\ c_avx2_rot7 x = vrot x 7.
Proof.
  intros H. apply reg_regz in H.
  repeat split; [apply c_avx2_rot16_ok|apply c_avx2_rot12_ok|apply c_avx2_rot8_ok|apply c_avx2_rot7_ok]; exact H.
Qed.
(* chaining: the model round maps registers to registers *)
Lemma vround_reg n v m r : length v = 16%nat -> length m = 16%nat -> (r < 7)%nat ->
  Forall (reg n) v -> Forall (reg n) m -> Forall (reg n) (vround v m r).
Proof.
  intros Lv Lm Hr Hv Hm.
  assert (Hs : forall k, (k < 16)%nat -> (sched r k < 16)%nat).
  { intros k Hk. do 7 (destruct r as [|r]; [do 16 (destruct k as [|k]; [vm_compute; lia|]); lia|]). lia. }
  assert (Hmw : forall k, (k < 16)%nat -> reg n (mw [] m r k)).
  { intros k Hk. unfold mw. rewrite Forall_forall in Hm. apply Hm, nth_In. pose proof (Hs k Hk). unfold vec in *. lia. }
  cbv beta delta [vround round_src]. split16_with v ltac:(discriminate Lv). cbv beta iota zeta.
  assert (Cadd : forall a b, reg n a -> reg n b -> reg n (vadd a b)).
  { intros a b [La Wa] [Lb Wb]. split; [unfold vadd, vmap2; rewrite map_length, combine_length, La, Lb; apply Nat.min_id|].
    apply vmap2_W. intros. apply W_w32. }
  assert (Cxor : forall a b, reg n a -> reg n b -> reg n (vxor a b)).
  { intros a b [La Wa] [Lb Wb]. split; [unfold vxor, vmap2; rewrite map_length, combine_length, La, Lb; apply Nat.min_id|].
    apply vmap2_W. intros x y Hx Hy. rewrite Forall_forall in Wa, Wb. apply W_lxor; [apply Wa, Hx|apply Wb, Hy]. }
  assert (Crot : forall a k, reg n a -> reg n (vrot a k)).
  { intros a k [La Wa]. split; [unfold vrot; rewrite map_length; exact La|].
    unfold vrot. apply Forall_forall. intros z Hz. apply in_map_iff in Hz. destruct Hz as (x & <- & Hx).
    rewrite Forall_forall in Wa. apply W_rotr32, Wa, Hx. }
  forall_inv.
  repeat (apply Forall_cons;
          [solve [repeat first [ assumption | apply Cadd | apply Cxor | apply Crot | apply Hmw; lia ]]|]).
  constructor.
Qed.

(* ------------------------------------------------------------------ *)
(* F. the transposes: the translated unpack / permute sequences ARE    *)
(*    the model sequences (the immediates 0x20, 0x31, 0x88, 0xdd       *)
(*    select the 128-bit lanes that the model names)                   *)
(* ------------------------------------------------------------------ *)
Lemma permute2x128_0x20 a b : mm256_permute2x128_si256 a b 0x20%Z = permute2x128_20 0 a b.
Proof. reflexivity. Qed.
Lemma permute2x128_0x31 a b : mm256_permute2x128_si256 a b 0x31%Z = permute2x128_31 0 a b.
Proof. reflexivity. Qed.
Lemma shuffle_i32x4_0x88 a b : mm512_shuffle_i32x4 a b 0x88%Z = unpack_lo_128 0 a b.
Proof. reflexivity. Qed.
Lemma shuffle_i32x4_0xdd a b : mm512_shuffle_i32x4 a b 0xdd%Z = unpack_hi_128 0 a b.
Proof. reflexivity. Qed.

Theorem rs_sse2_transpose_vecs_ok vecs : rs_sse2_transpose_vecs vecs = transpose_vecs_128 0 vecs.
Proof. reflexivity. Qed.
Theorem rs_sse41_transpose_vecs_ok vecs : rs_sse41_transpose_vecs vecs = transpose_vecs_128 0 vecs.
Proof. reflexivity. Qed.
Theorem rs_avx2_transpose_vecs_ok vecs : rs_avx2_transpose_vecs vecs = transpose_vecs_256 0 vecs.
Proof. reflexivity. Qed.
Theorem c_sse2_transpose_vecs_ok vecs : c_sse2_transpose_vecs vecs = transpose_vecs_128 0 vecs.
Proof. reflexivity. Qed.
Theorem c_sse41_transpose_vecs_ok vecs : c_sse41_transpose_vecs vecs = transpose_vecs_128 0 vecs.
Proof. reflexivity. Qed.
Theorem c_avx2_transpose_vecs_ok vecs : c_avx2_transpose_vecs vecs = transpose_vecs_256 0 vecs.
Proof. reflexivity. Qed.
Theorem c_avx512_transpose_vecs_128_ok vecs : c_avx512_transpose_vecs_128 vecs = transpose_vecs_128 0 vecs.
Proof. reflexivity. Qed.
Theorem c_avx512_transpose_vecs_256_ok vecs : c_avx512_transpose_vecs_256 vecs = transpose_vecs_256 0 vecs.
Proof. reflexivity. Qed.
Theorem c_avx512_transpose_vecs_512_ok vecs : c_avx512_transpose_vecs_512 vecs = transpose_vecs_512 0 vecs.
Proof. reflexivity. Qed.

(* ------------------------------------------------------------------ *)
(* G. transpose_msg_vecs*: the 16 loads and the transposes             *)
(* ------------------------------------------------------------------ *)
Theorem rs_sse2_transpose_msg_vecs_ok inputs off : rs_sse2_transpose_msg_vecs inputs off = transpose_msg_vecs4 inputs off.
Proof. reflexivity. Qed.
Theorem rs_sse41_transpose_msg_vecs_ok inputs off : rs_sse41_transpose_msg_vecs inputs off = transpose_msg_vecs4 inputs off.
Proof. reflexivity. Qed.
Theorem rs_avx2_transpose_msg_vecs_ok inputs off : rs_avx2_transpose_msg_vecs inputs off = transpose_msg_vecs8 inputs off.
Proof. reflexivity. Qed.
Theorem c_sse2_transpose_msg_vecs_ok inputs off : c_sse2_transpose_msg_vecs inputs off = transpose_msg_vecs4 inputs off.
Proof. reflexivity. Qed.
Theorem c_sse41_transpose_msg_vecs_ok inputs off : c_sse41_transpose_msg_vecs inputs off = transpose_msg_vecs4 inputs off.
Proof. reflexivity. Qed.
Theorem c_avx2_transpose_msg_vecs_ok inputs off : c_avx2_transpose_msg_vecs inputs off = transpose_msg_vecs8 inputs off.
Proof. reflexivity. Qed.
Theorem c_avx512_transpose_msg_vecs4_ok inputs off : c_avx512_transpose_msg_vecs4 inputs off = transpose_msg_vecs4 inputs off.
Proof. reflexivity. Qed.
Theorem c_avx512_transpose_msg_vecs8_ok inputs off : c_avx512_transpose_msg_vecs8 inputs off = transpose_msg_vecs8 inputs off.
Proof. reflexivity. Qed.
(* one load per input at the block offset itself (`&inputs[i][block_offset]`), one 16 x 16 transpose *)
Theorem c_avx512_transpose_msg_vecs16_ok inputs off :
  c_avx512_transpose_msg_vecs16 inputs off = transpose_msg_vecs16 inputs off.
Proof.
  unfold transpose_msg_vecs16, transpose_msg_vecs. change (Nat.div 16 16) with 1%nat.
  cbn [seq flat_map]. change (4 * 16 * 0)%nat with 0%nat. rewrite Nat.add_0_r, app_nil_r. reflexivity.
Qed.

(* the message vectors of byte inputs are registers of 32-bit lanes *)
Lemma testbit_high8 b m : b < 256 -> 8 <= m -> N.testbit b m = false.
Proof.
  intros Hb Hm. rewrite <- (N.mod_small b (2 ^ 8)) by exact Hb. apply N.mod_pow2_bits_high. exact Hm.
Qed.
Lemma W_word_of_bytes4 b0 b1 b2 b3 : b0 < 256 -> b1 < 256 -> b2 < 256 -> b3 < 256 -> W (word_of_bytes4 b0 b1 b2 b3).
Proof.
  intros H0 H1 H2 H3. apply W_of_bits. intros n Hn. unfold word_of_bytes4. bb_push. bb_cmp. cbv iota.
  rewrite (testbit_high8 b0), (testbit_high8 b1), (testbit_high8 b2), (testbit_high8 b3) by (assumption || lia).
  reflexivity.
Qed.
Lemma W_words_of_bytes : forall k l, (length l <= k)%nat -> Forall (fun b => b < 256) l -> Forall W (words_of_bytes l).
Proof.
  induction k as [|k IH]; intros l Hl Hb.
  - destruct l; [constructor|cbn in Hl; lia].
  - destruct l as [|b0 [|b1 [|b2 [|b3 tl]]]]; try constructor.
    + forall_inv. apply W_word_of_bytes4; assumption.
    + apply IH; [cbn [length] in Hl; lia|]. forall_inv. assumption.
Qed.
Lemma tmsg_reg n tmsg : tmsg_ok n tmsg -> (0 < n)%nat -> forall inputs off,
  (forall j, (j < n)%nat -> (off + 64 <= length (inp inputs j))%nat) ->
  (forall j, (j < n)%nat -> Forall (fun b => b < 256) (inp inputs j)) ->
  Forall (reg n) (tmsg inputs off).
Proof.
  intros Hok Hn inputs off Hlen Hbytes.
  destruct (Hok inputs off 0%nat Hn Hlen) as (Hwf & L16 & _).
  apply Forall_forall. intros x Hx. rewrite Forall_forall in Hwf. pose proof (Hwf x Hx) as Lx. unfold wf in Lx.
  split; [exact Lx|]. apply Forall_forall. intros e He.
  destruct (In_nth _ _ [] Hx) as (k & Hk & Ek). destruct (In_nth _ _ 0 He) as (i & Hi & Ei).
  rewrite Lx in Hi. destruct (Hok inputs off i Hi Hlen) as (_ & _ & El).
  assert (E : e = nth k (lane i (tmsg inputs off)) 0).
  { unfold lane. rewrite (nth_map_lt (fun v => nth i v 0) _ k [] 0) by exact Hk. rewrite Ek. symmetry. exact Ei. }
  rewrite E, El.
  assert (Hw : Forall W (words_of_bytes (firstn 64 (skipn off (inp inputs i))))).
  { apply (W_words_of_bytes 64); [rewrite firstn_length; lia|]. apply Forall_firstn, Forall_skipn, Hbytes, Hi. }
  destruct (nth_in_or_default k (words_of_bytes (firstn 64 (skipn off (inp inputs i)))) 0) as [I|D].
  - rewrite Forall_forall in Hw. apply Hw, I.
  - rewrite D. reflexivity.
Qed.

(* ------------------------------------------------------------------ *)
(* H. one iteration of the `for block` loop of hashN                   *)
(* ------------------------------------------------------------------ *)
(* h_vecs[i] = xor(v[i], v[i + 8]) *)
Lemma feed_forward (v : list vec) : length v = 16%nat ->
  [vxor (vk v 0) (vk v 8); vxor (vk v 1) (vk v 9); vxor (vk v 2) (vk v 10); vxor (vk v 3) (vk v 11);
   vxor (vk v 4) (vk v 12); vxor (vk v 5) (vk v 13); vxor (vk v 6) (vk v 14); vxor (vk v 7) (vk v 15)] =
  vxor_pairs (firstn 8 v) (skipn 8 v).
Proof. intros L. lanes_of v 16%nat L. reflexivity. Qed.

(* set1(x) for a 32-bit x: `x as i32` / (int32_t)x keeps the 32 bits *)
Lemma set1_bits x : x < 4294967296 -> bits32 (cast_s 32 (Z.of_N x)) = x.
Proof. intros H. rewrite bits32_counter. apply w32_id, H. Qed.
Lemma reg_vset1 n x : W x -> reg n (vset1 n x).
Proof.
  intros H. split; [apply repeat_length|]. apply Forall_forall. intros y Hy. apply repeat_spec in Hy. subst y. exact H.
Qed.
Lemma W_IV k : W (nth k rs_IV 0).
Proof. do 8 (destruct k as [|k]; [reflexivity|]). destruct k; reflexivity. Qed.

Ltac set1_side := first [ assumption | apply W_IV | reflexivity ].
(* the eight feed-forward xors against vxor_pairs (firstn 8 V) (skipn 8 V), V the state after the seven rounds *)
(* rewrite the seven round calls, innermost first (the argument of the lemma is given explicitly: the
   translated rounds of the unconditional back ends are convertible with vround, which confuses `rewrite !`) *)
Ltac chain_rounds rf lem tac :=
  repeat match goal with
  | |- context [rf ?v ?m ?r] =>
      lazymatch v with
      | context [rf] => fail
      | _ => rewrite (lem v m r) by tac
      end
  end.
Ltac finish_block xf :=
  unfold xf, mm_xor_si128, mm256_xor_si256, mm512_xor_si512;
  match goal with
  | |- _ = vxor_pairs (firstn 8 ?V) _ => rewrite <- (feed_forward V) by (rewrite !vround_length; reflexivity)
  end; reflexivity.

(* rs_sse2: hash4 *)
Lemma rs_sse2_set1_ok x : x < 4294967296 -> rs_sse2_set1 x = vset1 4 x.
Proof. intros H. unfold rs_sse2_set1, mm_set1_epi32. rewrite set1_bits by exact H. reflexivity. Qed.
Theorem rs_sse2_hash4_block_ok h clo chi bf inputs block : length h = 8%nat -> bf < 4294967296 ->
  rs_sse2_hash4_block h clo chi bf inputs block =
  vcompress 4 h (transpose_msg_vecs4 inputs (block * 64)) clo chi rs_BLOCK_LEN bf.
Proof.
  intros Lh Hbf. lanes_of h 8%nat Lh. unfold rs_sse2_hash4_block. cbv zeta.
  rewrite rs_sse2_transpose_msg_vecs_ok.
  chain_rounds rs_sse2_round rs_sse2_round_ok ltac:(idtac).
  change (w32 rs_BLOCK_LEN) with rs_BLOCK_LEN.
  rewrite !rs_sse2_set1_ok by set1_side.
  change (N.to_nat c_BLOCK_LEN) with 64%nat. change (N.to_nat rs_BLOCK_LEN) with 64%nat.
  unfold vcompress, vrounds7, vstate. cbv zeta. cbn [app vk nth].
  finish_block rs_sse2_xor.
Qed.

(* rs_sse41: hash4 *)
Lemma rs_sse41_set1_ok x : x < 4294967296 -> rs_sse41_set1 x = vset1 4 x.
Proof. intros H. unfold rs_sse41_set1, mm_set1_epi32. rewrite set1_bits by exact H. reflexivity. Qed.
Theorem rs_sse41_hash4_block_ok h clo chi bf inputs block : length h = 8%nat -> bf < 4294967296 ->
  rs_sse41_hash4_block h clo chi bf inputs block =
  vcompress 4 h (transpose_msg_vecs4 inputs (block * 64)) clo chi rs_BLOCK_LEN bf.
Proof.
  intros Lh Hbf. lanes_of h 8%nat Lh. unfold rs_sse41_hash4_block. cbv zeta.
  rewrite rs_sse41_transpose_msg_vecs_ok.
  chain_rounds rs_sse41_round rs_sse41_round_ok ltac:(idtac).
  change (w32 rs_BLOCK_LEN) with rs_BLOCK_LEN.
  rewrite !rs_sse41_set1_ok by set1_side.
  change (N.to_nat c_BLOCK_LEN) with 64%nat. change (N.to_nat rs_BLOCK_LEN) with 64%nat.
  unfold vcompress, vrounds7, vstate. cbv zeta. cbn [app vk nth].
  finish_block rs_sse41_xor.
Qed.

(* rs_avx2: hash8 *)
Lemma rs_avx2_set1_ok x : x < 4294967296 -> rs_avx2_set1 x = vset1 8 x.
Proof. intros H. unfold rs_avx2_set1, mm256_set1_epi32. rewrite set1_bits by exact H. reflexivity. Qed.
Theorem rs_avx2_hash8_block_ok h clo chi bf inputs block : length h = 8%nat -> bf < 4294967296 ->
  rs_avx2_hash8_block h clo chi bf inputs block =
  vcompress 8 h (transpose_msg_vecs8 inputs (block * 64)) clo chi rs_BLOCK_LEN bf.
Proof.
  intros Lh Hbf. lanes_of h 8%nat Lh. unfold rs_avx2_hash8_block. cbv zeta.
  rewrite rs_avx2_transpose_msg_vecs_ok.
  chain_rounds rs_avx2_round rs_avx2_round_ok ltac:(idtac).
  change (w32 rs_BLOCK_LEN) with rs_BLOCK_LEN.
  rewrite !rs_avx2_set1_ok by set1_side.
  change (N.to_nat c_BLOCK_LEN) with 64%nat. change (N.to_nat rs_BLOCK_LEN) with 64%nat.
  unfold vcompress, vrounds7, vstate. cbv zeta. cbn [app vk nth].
  finish_block rs_avx2_xor.
Qed.

(* c_avx512: blake3_hash4_avx512 *)
Lemma c_avx512_set1_128_ok x : x < 4294967296 -> c_avx512_set1_128 (Z.of_N x) = vset1 4 x.
Proof. intros H. unfold c_avx512_set1_128, mm_set1_epi32. rewrite set1_bits by exact H. reflexivity. Qed.
Theorem c_avx512_blake3_hash4_avx512_block_ok h clo chi bf inputs block : length h = 8%nat -> bf < 4294967296 ->
  c_avx512_blake3_hash4_avx512_block h clo chi bf inputs block =
  vcompress 4 h (transpose_msg_vecs4 inputs (block * 64)) clo chi rs_BLOCK_LEN bf.
Proof.
  intros Lh Hbf. lanes_of h 8%nat Lh. unfold c_avx512_blake3_hash4_avx512_block. cbv zeta.
  rewrite c_avx512_transpose_msg_vecs4_ok.
  chain_rounds c_avx512_round_fn4 c_avx512_round_fn4_ok ltac:(idtac).
  change (cast_u 32 (Z.of_N c_BLOCK_LEN)) with (Z.of_N rs_BLOCK_LEN). change (nth 0 c_IV 0) with (nth 0 rs_IV 0).
  change (nth 1 c_IV 0) with (nth 1 rs_IV 0). change (nth 2 c_IV 0) with (nth 2 rs_IV 0). change (nth 3 c_IV 0) with (nth 3 rs_IV 0).
  rewrite !c_avx512_set1_128_ok by set1_side.
  change (N.to_nat c_BLOCK_LEN) with 64%nat. change (N.to_nat rs_BLOCK_LEN) with 64%nat.
  unfold vcompress, vrounds7, vstate. cbv zeta. cbn [app vk nth].
  finish_block c_avx512_xor_128.
Qed.

(* c_avx512: blake3_hash8_avx512 *)
Lemma c_avx512_set1_256_ok x : x < 4294967296 -> c_avx512_set1_256 (Z.of_N x) = vset1 8 x.
Proof. intros H. unfold c_avx512_set1_256, mm256_set1_epi32. rewrite set1_bits by exact H. reflexivity. Qed.
Theorem c_avx512_blake3_hash8_avx512_block_ok h clo chi bf inputs block : length h = 8%nat -> bf < 4294967296 ->
  c_avx512_blake3_hash8_avx512_block h clo chi bf inputs block =
  vcompress 8 h (transpose_msg_vecs8 inputs (block * 64)) clo chi rs_BLOCK_LEN bf.
Proof.
  intros Lh Hbf. lanes_of h 8%nat Lh. unfold c_avx512_blake3_hash8_avx512_block. cbv zeta.
  rewrite c_avx512_transpose_msg_vecs8_ok.
  chain_rounds c_avx512_round_fn8 c_avx512_round_fn8_ok ltac:(idtac).
  change (cast_u 32 (Z.of_N c_BLOCK_LEN)) with (Z.of_N rs_BLOCK_LEN). change (nth 0 c_IV 0) with (nth 0 rs_IV 0).
  change (nth 1 c_IV 0) with (nth 1 rs_IV 0). change (nth 2 c_IV 0) with (nth 2 rs_IV 0). change (nth 3 c_IV 0) with (nth 3 rs_IV 0).
  rewrite !c_avx512_set1_256_ok by set1_side.
  change (N.to_nat c_BLOCK_LEN) with 64%nat. change (N.to_nat rs_BLOCK_LEN) with 64%nat.
  unfold vcompress, vrounds7, vstate. cbv zeta. cbn [app vk nth].
  finish_block c_avx512_xor_256.
Qed.

(* c_avx512: blake3_hash16_avx512 *)
Lemma c_avx512_set1_512_ok x : x < 4294967296 -> c_avx512_set1_512 (Z.of_N x) = vset1 16 x.
Proof. intros H. unfold c_avx512_set1_512, mm512_set1_epi32. rewrite set1_bits by exact H. reflexivity. Qed.
Theorem c_avx512_blake3_hash16_avx512_block_ok h clo chi bf inputs block : length h = 8%nat -> bf < 4294967296 ->
  c_avx512_blake3_hash16_avx512_block h clo chi bf inputs block =
  vcompress 16 h (transpose_msg_vecs16 inputs (block * 64)) clo chi rs_BLOCK_LEN bf.
Proof.
  intros Lh Hbf. lanes_of h 8%nat Lh. unfold c_avx512_blake3_hash16_avx512_block. cbv zeta.
  rewrite c_avx512_transpose_msg_vecs16_ok.
  chain_rounds c_avx512_round_fn16 c_avx512_round_fn16_ok ltac:(idtac).
  change (cast_u 32 (Z.of_N c_BLOCK_LEN)) with (Z.of_N rs_BLOCK_LEN). change (nth 0 c_IV 0) with (nth 0 rs_IV 0).
  change (nth 1 c_IV 0) with (nth 1 rs_IV 0). change (nth 2 c_IV 0) with (nth 2 rs_IV 0). change (nth 3 c_IV 0) with (nth 3 rs_IV 0).
  rewrite !c_avx512_set1_512_ok by set1_side.
  change (N.to_nat c_BLOCK_LEN) with 64%nat. change (N.to_nat rs_BLOCK_LEN) with 64%nat.
  unfold vcompress, vrounds7, vstate. cbv zeta. cbn [app vk nth].
  finish_block c_avx512_xor_512.
Qed.

(* c_sse2: blake3_hash4_sse2 *)
Lemma c_sse2_set1_ok x : x < 4294967296 -> c_sse2_set1 (Z.of_N x) = vset1 4 x.
Proof. intros H. unfold c_sse2_set1, mm_set1_epi32. rewrite set1_bits by exact H. reflexivity. Qed.
Theorem c_sse2_blake3_hash4_sse2_block_ok h clo chi bf inputs block :
  length h = 8%nat -> Forall (reg 4) h -> reg 4 clo -> reg 4 chi -> bf < 4294967296 ->
  (forall j, (j < 4)%nat -> (block * 64 + 64 <= length (inp inputs j))%nat) ->
  (forall j, (j < 4)%nat -> Forall (fun b => b < 256) (inp inputs j)) ->
  c_sse2_blake3_hash4_sse2_block h clo chi bf inputs block =
  vcompress 4 h (transpose_msg_vecs4 inputs (block * 64)) clo chi rs_BLOCK_LEN bf.
Proof.
  intros Lh Hh Hlo Hhi Hbf Hlen Hbytes.
  assert (Hm : Forall (regz 4) (transpose_msg_vecs4 inputs (block * 64))).
  { apply Forall_reg_regz, (tmsg_reg 4 _ tmsg_ok_4); [lia|exact Hlen|exact Hbytes]. }
  apply Forall_reg_regz in Hh. apply reg_regz in Hlo, Hhi.
  lanes_of h 8%nat Lh. forall_inv. unfold c_sse2_blake3_hash4_sse2_block. cbv zeta.
  rewrite c_sse2_transpose_msg_vecs_ok.
  change (cast_u 32 (Z.of_N c_BLOCK_LEN)) with (Z.of_N rs_BLOCK_LEN). change (nth 0 c_IV 0) with (nth 0 rs_IV 0).
  change (nth 1 c_IV 0) with (nth 1 rs_IV 0). change (nth 2 c_IV 0) with (nth 2 rs_IV 0). change (nth 3 c_IV 0) with (nth 3 rs_IV 0).
  rewrite !c_sse2_set1_ok by set1_side.
  change (N.to_nat c_BLOCK_LEN) with 64%nat. cbn [vk nth].
  match goal with
  | |- context [c_sse2_round_fn ?v ?m 0%nat] =>
      assert (H0 : Forall (regz 4) v)
        by (repeat (apply Forall_cons; [first [assumption | apply reg_regz, reg_vset1; set1_side]|]); constructor)
  end.
  chain_rounds c_sse2_round_fn c_sse2_round_fn_regz ltac:(repeat first [assumption | apply vround_regz]).
  unfold vcompress, vrounds7, vstate. cbv zeta. cbn [app].
  finish_block c_sse2_xorv.
Qed.

(* c_sse41: blake3_hash4_sse41 *)
Lemma c_sse41_set1_ok x : x < 4294967296 -> c_sse41_set1 (Z.of_N x) = vset1 4 x.
Proof. intros H. unfold c_sse41_set1, mm_set1_epi32. rewrite set1_bits by exact H. reflexivity. Qed.
Theorem c_sse41_blake3_hash4_sse41_block_ok h clo chi bf inputs block :
  length h = 8%nat -> Forall (reg 4) h -> reg 4 clo -> reg 4 chi -> bf < 4294967296 ->
  (forall j, (j < 4)%nat -> (block * 64 + 64 <= length (inp inputs j))%nat) ->
  (forall j, (j < 4)%nat -> Forall (fun b => b < 256) (inp inputs j)) ->
  c_sse41_blake3_hash4_sse41_block h clo chi bf inputs block =
  vcompress 4 h (transpose_msg_vecs4 inputs (block * 64)) clo chi rs_BLOCK_LEN bf.
Proof.
  intros Lh Hh Hlo Hhi Hbf Hlen Hbytes.
  assert (Hm : Forall (regz 4) (transpose_msg_vecs4 inputs (block * 64))).
  { apply Forall_reg_regz, (tmsg_reg 4 _ tmsg_ok_4); [lia|exact Hlen|exact Hbytes]. }
  apply Forall_reg_regz in Hh. apply reg_regz in Hlo, Hhi.
  lanes_of h 8%nat Lh. forall_inv. unfold c_sse41_blake3_hash4_sse41_block. cbv zeta.
  rewrite c_sse41_transpose_msg_vecs_ok.
  change (cast_u 32 (Z.of_N c_BLOCK_LEN)) with (Z.of_N rs_BLOCK_LEN). change (nth 0 c_IV 0) with (nth 0 rs_IV 0).
  change (nth 1 c_IV 0) with (nth 1 rs_IV 0). change (nth 2 c_IV 0) with (nth 2 rs_IV 0). change (nth 3 c_IV 0) with (nth 3 rs_IV 0).
  rewrite !c_sse41_set1_ok by set1_side.
  change (N.to_nat c_BLOCK_LEN) with 64%nat. cbn [vk nth].
  match goal with
  | |- context [c_sse41_round_fn ?v ?m 0%nat] =>
      assert (H0 : Forall (regz 4) v)
        by (repeat (apply Forall_cons; [first [assumption | apply reg_regz, reg_vset1; set1_side]|]); constructor)
  end.
  chain_rounds c_sse41_round_fn c_sse41_round_fn_regz ltac:(repeat first [assumption | apply vround_regz]).
  unfold vcompress, vrounds7, vstate. cbv zeta. cbn [app].
  finish_block c_sse41_xorv.
Qed.

(* c_avx2: blake3_hash8_avx2 *)
Lemma c_avx2_set1_ok x : x < 4294967296 -> c_avx2_set1 (Z.of_N x) = vset1 8 x.
Proof. intros H. unfold c_avx2_set1, mm256_set1_epi32. rewrite set1_bits by exact H. reflexivity. Qed.
Theorem c_avx2_blake3_hash8_avx2_block_ok h clo chi bf inputs block :
  length h = 8%nat -> Forall (reg 8) h -> reg 8 clo -> reg 8 chi -> bf < 4294967296 ->
  (forall j, (j < 8)%nat -> (block * 64 + 64 <= length (inp inputs j))%nat) ->
  (forall j, (j < 8)%nat -> Forall (fun b => b < 256) (inp inputs j)) ->
  c_avx2_blake3_hash8_avx2_block h clo chi bf inputs block =
  vcompress 8 h (transpose_msg_vecs8 inputs (block * 64)) clo chi rs_BLOCK_LEN bf.
Proof.
  intros Lh Hh Hlo Hhi Hbf Hlen Hbytes.
  assert (Hm : Forall (regz 8) (transpose_msg_vecs8 inputs (block * 64))).
  { apply Forall_reg_regz, (tmsg_reg 8 _ tmsg_ok_8); [lia|exact Hlen|exact Hbytes]. }
  apply Forall_reg_regz in Hh. apply reg_regz in Hlo, Hhi.
  lanes_of h 8%nat Lh. forall_inv. unfold c_avx2_blake3_hash8_avx2_block. cbv zeta.
  rewrite c_avx2_transpose_msg_vecs_ok.
  change (cast_u 32 (Z.of_N c_BLOCK_LEN)) with (Z.of_N rs_BLOCK_LEN). change (nth 0 c_IV 0) with (nth 0 rs_IV 0).
  change (nth 1 c_IV 0) with (nth 1 rs_IV 0). change (nth 2 c_IV 0) with (nth 2 rs_IV 0). change (nth 3 c_IV 0) with (nth 3 rs_IV 0).
  rewrite !c_avx2_set1_ok by set1_side.
  change (N.to_nat c_BLOCK_LEN) with 64%nat. cbn [vk nth].
  match goal with
  | |- context [c_avx2_round_fn ?v ?m 0%nat] =>
      assert (H0 : Forall (regz 8) v)
        by (repeat (apply Forall_cons; [first [assumption | apply reg_regz, reg_vset1; set1_side]|]); constructor)
  end.
  chain_rounds c_avx2_round_fn c_avx2_round_fn_regz ltac:(repeat first [assumption | apply vround_regz]).
  unfold vcompress, vrounds7, vstate. cbv zeta. cbn [app].
  finish_block c_avx2_xorv.
Qed.
