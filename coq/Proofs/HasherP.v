(* C02 / C09 / C10 core: the incremental Hasher (lazy CV stack, subtree offsets)
   refines "the bytes absorbed so far".  Part 1: canonical spec trees, the stack
   abstraction (exponent lists), the right spine. *)
From V Require Import Proofs.ListP.
From V Require Import Base.Res Base.Word Base.MachInt gen.GenConsts gen.GenFormulas
  Spec.Compress Spec.Tree Model.Portable Model.Platform Model.RsChunk Model.RsWide Model.RsHasher
  Proofs.ChunkP Proofs.TreeP Proofs.FormulasP Proofs.WideP Proofs.StackArithP.
Open Scope N_scope.

(* the specification tree at the canonical height *)
Definition st (ctr : N) (bs : list N) : tree := spec_tree wide_fuel ctr bs.

Lemma two_pow_64 : 2 ^ N.of_nat 64 = 18446744073709551616.
Proof. reflexivity. Qed.
Lemma two_pow_63 : 2 ^ N.of_nat 63 = 9223372036854775808.
Proof. reflexivity. Qed.

Lemma spec_tree_leaf h ctr bs : len bs <= 1024 -> spec_tree h ctr bs = Leaf ctr bs.
Proof.
  intros H. destruct h as [|h]; [reflexivity|]. rewrite spec_tree_unfold.
  replace (len bs <=? 1024) with true by lia. reflexivity.
Qed.

Lemma spec_tree_node h ctr bs : 1024 < len bs -> len bs <= 1024 * 2 ^ N.of_nat h ->
  spec_tree h ctr bs = Node (spec_tree h ctr (take (left_len (len bs)) bs))
                            (spec_tree h (ctr + left_len (len bs) / 1024) (drop (left_len (len bs)) bs)).
Proof.
  intros Hlo Hhi. destruct h as [|h]; [change (2 ^ N.of_nat 0) with 1 in Hhi; lia|].
  rewrite spec_tree_unfold. replace (len bs <=? 1024) with false by lia. cbn zeta.
  destruct (left_len_spec (len bs) Hlo) as (a & Hl & Ha1 & Ha2). rewrite Hl.
  rewrite N.add_1_r, N.pow_succ_r' in Ha2. rewrite Nat2N.inj_succ, N.pow_succ_r' in Hhi.
  assert (Hp : 2 ^ a <= 2 ^ N.of_nat h) by (apply pow2_lt_le_g; lia).
  apply f_equal2; apply spec_tree_fuel; rewrite ?len_take, ?len_drop, ?Nat2N.inj_succ, ?N.pow_succ_r'; lia.
Qed.

Lemma st_leaf ctr bs : len bs <= 1024 -> st ctr bs = Leaf ctr bs.
Proof. apply spec_tree_leaf. Qed.

Lemma st_node ctr bs : 1024 < len bs -> len bs <= 1024 * 2 ^ 64 ->
  st ctr bs = Node (st ctr (take (left_len (len bs)) bs))
                   (st (ctr + left_len (len bs) / 1024) (drop (left_len (len bs)) bs)).
Proof. intros H1 H2. apply spec_tree_node; [exact H1|exact H2]. Qed.

Lemma left_len_eq n a : 1024 * 2 ^ a < n -> n <= 2 * (1024 * 2 ^ a) -> left_len n = 1024 * 2 ^ a.
Proof.
  intros H1 H2. pose proof (pow2_pos a) as Hp.
  destruct (left_len_spec n ltac:(lia)) as (b & Hl & Hb1 & Hb2). rewrite Hl.
  rewrite N.add_1_r, N.pow_succ_r' in Hb2.
  assert (Hab : a = b).
  { apply (pow2_unique a b ((n + 1023) / 1024)); rewrite N.add_1_r, N.pow_succ_r'; lia. }
  subst. reflexivity.
Qed.

(* ---- the stack abstraction: exponents, bottom of the stack first ------------------------- *)
Fixpoint trees_of (ctr : N) (bs : list N) (es : list N) : list tree :=
  match es with
  | [] => []
  | a :: tl => st ctr (take (1024 * 2 ^ a) bs) :: trees_of (ctr + 2 ^ a) (drop (1024 * 2 ^ a) bs) tl
  end.

Lemma trees_of_length ctr bs es : length (trees_of ctr bs es) = length es.
Proof. revert ctr bs. induction es as [|a es IH]; intros; [reflexivity|]. cbn. rewrite IH. reflexivity. Qed.

Lemma trees_of_app ctr bs e1 e2 :
  trees_of ctr bs (e1 ++ e2) = trees_of ctr bs e1 ++ trees_of (ctr + sum2 e1) (drop (1024 * sum2 e1) bs) e2.
Proof.
  revert ctr bs. induction e1 as [|a e1 IH]; intros ctr bs.
  - cbn [app trees_of sum2]. rewrite N.add_0_r, N.mul_0_r, drop_0. reflexivity.
  - cbn [app trees_of sum2]. rewrite IH, drop_drop.
    replace (ctr + 2 ^ a + sum2 e1) with (ctr + (2 ^ a + sum2 e1)) by lia.
    replace (1024 * 2 ^ a + 1024 * sum2 e1) with (1024 * (2 ^ a + sum2 e1)) by lia. reflexivity.
Qed.

(* the trees only look at the committed prefix *)
Lemma trees_of_ext ctr bs ext es : 1024 * sum2 es <= len bs ->
  trees_of ctr (bs ++ ext) es = trees_of ctr bs es.
Proof.
  revert ctr bs. induction es as [|a es IH]; intros ctr bs H; [reflexivity|].
  cbn [trees_of sum2] in *. pose proof (pow2_pos a).
  rewrite take_app_le by lia. rewrite drop_app_le by lia. rewrite IH by (rewrite len_drop; lia). reflexivity.
Qed.

(* the right spine: Node t1 (Node t2 (... (Node tk last))) *)
Fixpoint spine (ts : list tree) (last : tree) : tree :=
  match ts with [] => last | t :: tl => Node t (spine tl last) end.

(* every entry dominates everything after it plus the remainder of r bytes *)
Fixpoint DomR (es : list N) (r : N) : Prop :=
  match es with [] => True | a :: tl => 1024 * sum2 tl + r <= 1024 * 2 ^ a /\ DomR tl r end.

Lemma SDom_DomR es r : SDom es -> r <= 1024 -> DomR es r.
Proof.
  induction es as [|a es IH]; cbn; [auto|]. intros [H1 H2] Hr. split; [lia|auto].
Qed.

Lemma Dom_DomR0 es : Dom es -> DomR es 0.
Proof. induction es as [|a es IH]; cbn; [auto|]. intros [H1 H2]. split; [lia|auto]. Qed.

Lemma DomR_app es a : Dom (es ++ [a]) -> DomR es (1024 * 2 ^ a).
Proof.
  induction es as [|b es IH]; cbn [app Dom DomR]; [auto|].
  intros [H1 H2]. rewrite sum2_app in H1. cbn [sum2] in H1. split; [lia|auto].
Qed.

(* the spine of the stack trees over the remainder's tree is the spec tree of everything *)
Lemma spine_st : forall es ctr bs,
  1024 * sum2 es < len bs -> len bs <= 1024 * 2 ^ 64 ->
  DomR es (len bs - 1024 * sum2 es) ->
  spine (trees_of ctr bs es) (st (ctr + sum2 es) (drop (1024 * sum2 es) bs)) = st ctr bs.
Proof.
  induction es as [|a es IH]; intros ctr bs Hlo Hhi HD.
  - cbn [trees_of spine sum2]. rewrite N.add_0_r, N.mul_0_r, drop_0. reflexivity.
  - cbn [trees_of spine sum2 DomR] in *. destruct HD as [H1 H2]. pose proof (pow2_pos a) as Hp.
    rewrite (st_node ctr bs) by lia.
    rewrite (left_len_eq (len bs) a) by lia.
    replace (1024 * 2 ^ a / 1024) with (2 ^ a) by (rewrite N.mul_comm, N.div_mul; lia).
    f_equal.
    specialize (IH (ctr + 2 ^ a) (drop (1024 * 2 ^ a) bs)).
    rewrite len_drop, drop_drop in IH.
    replace (ctr + 2 ^ a + sum2 es) with (ctr + (2 ^ a + sum2 es)) in IH by lia.
    replace (1024 * 2 ^ a + 1024 * sum2 es) with (1024 * (2 ^ a + sum2 es)) in IH by lia.
    apply IH; try lia.
    replace (len bs - 1024 * 2 ^ a - 1024 * sum2 es) with (len bs - 1024 * (2 ^ a + sum2 es)) by lia. exact H2.
Qed.

(* two adjacent full subtrees of equal size are the two children of the doubled subtree *)
Lemma st_double ctr bs a : len bs = 1024 * 2 ^ (a + 1) -> a + 1 <= 64 ->
  st ctr bs = Node (st ctr (take (1024 * 2 ^ a) bs)) (st (ctr + 2 ^ a) (drop (1024 * 2 ^ a) bs)).
Proof.
  intros Hl Ha. rewrite N.add_1_r, N.pow_succ_r' in Hl. pose proof (pow2_pos a) as Hp.
  assert (Hp64 : 2 * 2 ^ a <= 2 ^ 64).
  { rewrite <- N.pow_succ_r'. apply N.pow_le_mono_r; lia. }
  rewrite (st_node ctr bs) by lia.
  rewrite (left_len_eq (len bs) a) by lia.
  replace (1024 * 2 ^ a / 1024) with (2 ^ a) by (rewrite N.mul_comm, N.div_mul; lia). reflexivity.
Qed.

Lemma spec_tree_wf : forall h ctr bs, len bs <= 1024 * 2 ^ N.of_nat h -> wf_tree (spec_tree h ctr bs).
Proof.
  induction h as [|h IH]; intros ctr bs H.
  - change (2 ^ N.of_nat 0) with 1 in H. cbn. lia.
  - cbn [spec_tree]. destruct (len bs <=? 1024) eqn:E; [cbn; lia|].
    destruct (left_len_spec (len bs) ltac:(lia)) as (a & Hl & Ha1 & Ha2). rewrite Hl.
    rewrite Nat2N.inj_succ, N.pow_succ_r' in H. rewrite N.add_1_r, N.pow_succ_r' in Ha2.
    assert (Hp : 2 ^ a <= 2 ^ N.of_nat h) by (apply pow2_lt_le_g; lia).
    cbn [wf_tree]. split; apply IH; rewrite ?len_take, ?len_drop; lia.
Qed.

Lemma st_wf ctr bs : len bs <= 1024 * 2 ^ 64 -> wf_tree (st ctr bs).
Proof. intros H. apply spec_tree_wf. exact H. Qed.

Lemma trees_of_wf : forall es ctr bs, Forall (fun a => a <= 64) es -> Forall wf_tree (trees_of ctr bs es).
Proof.
  induction es as [|a es IH]; intros ctr bs H; [constructor|].
  inversion H; subst. cbn [trees_of]. constructor; [|apply IH; assumption].
  apply st_wf. rewrite len_take.
  assert (2 ^ a <= 2 ^ 64) by (apply N.pow_le_mono_r; lia). lia.
Qed.

Lemma st_unfold ctr bs : st ctr bs = spec_tree wide_fuel ctr bs.
Proof. reflexivity. Qed.

Global Opaque st.

Lemma sum2_bound a es : In a es -> 2 ^ a <= sum2 es.
Proof.
  induction es as [|b es IH]; intros H; [contradiction|].
  cbn [sum2]. destruct H as [->|H]; [lia|]. specialize (IH H). lia.
Qed.

Lemma exps_le es m : sum2 es <= 2 ^ m -> Forall (fun a => a <= m) es.
Proof.
  intros H. apply Forall_forall. intros a Ha. pose proof (sum2_bound a es Ha) as Hb.
  apply (N.pow_le_mono_r_iff 2); lia.
Qed.

Lemma chunks_pow2_g k : chunks (1024 * 2 ^ k) = 2 ^ k.
Proof.
  unfold chunks. replace (1024 * 2 ^ k + 1023) with (1023 + 2 ^ k * 1024) by lia.
  rewrite N.div_add by lia. reflexivity.
Qed.

Lemma pow2_half b : 1 <= b -> 2 ^ b / 2 = 2 ^ (b - 1).
Proof.
  intros H. replace b with (N.succ (b - 1)) at 1 by lia. rewrite N.pow_succ_r', N.mul_comm, N.div_mul; lia.
Qed.

Section HasherProof.
  Variable c8 : list N -> list N -> N -> N -> N -> list N.
  Variable p : platform.
  Hypothesis POK : PlatformOK p.
  Hypothesis Hpcip : forall cv b bl c f, length cv = 8%nat -> length b = 64%nat ->
    Portable.compress_in_place cv b bl c f = c8 cv b bl c f.
  Hypothesis Hc8len : forall cv b bl c f, length cv = 8%nat -> length b = 64%nat ->
    length (c8 cv b bl c f) = 8%nat.
  Variables (K : list N) (F : N).
  Hypothesis HK : length K = 8%nat.
  (* the subtree this hasher computes starts at chunk c0 and may hold at most lim chunks *)
  Variables (c0 lim : N).
  Hypothesis Hlim : c0 + lim <= 2 ^ 54.
  Hypothesis Hc054 : c0 < 2 ^ 54.
  Hypothesis Hal : forall b, 2 ^ b <= lim -> (2 ^ b | c0).
  Hypothesis Hmsl : rs_max_subtree_len (c0 * 1024) = Ok (if c0 =? 0 then None else Some (1024 * lim)).

  Notation tcv := (tree_cv c8 K F).
  Notation Hcip' := (WideP.Hcip c8 p POK Hpcip).
  Notation wfcv := (wf_chaining_value c8 p POK Hpcip).
  Notation towf := (tree_out_wf c8 p POK Hpcip Hc8len K F HK).
  Notation tcvlen := (tcv_length c8 p POK Hpcip Hc8len K F HK).

  Definition stack_of (bs : list N) (es : list N) : list (list N) := rev (map tcv (trees_of c0 bs es)).

  Lemma stack_of_length bs es : length (stack_of bs es) = length es.
  Proof. unfold stack_of. rewrite rev_length, map_length, trees_of_length. reflexivity. Qed.

  Lemma parent_cv_spec h t1 t2 :
    h_key h = K -> h_flags h = F -> wf_tree t1 -> wf_tree t2 ->
    parent_cv p h (tcv t1) (tcv t2) = tcv (Node t1 t2).
  Proof.
    intros Hk Hf W1 W2. unfold parent_cv. rewrite Hk, Hf.
    rewrite wfcv; [reflexivity|].
    split; [exact HK|]. cbn [parent_output o_block]. rewrite app_length, !tcvlen by assumption. reflexivity.
  Qed.

  (* stack of pre ++ [a; a]: the top two entries and their merge *)
  Lemma stack_top2 bs pre a :
    1024 * sum2 (pre ++ [a; a]) <= len bs -> a + 1 <= 64 ->
    let X := drop (1024 * sum2 pre) bs in
    let t1 := st (c0 + sum2 pre) (take (1024 * 2 ^ a) X) in
    let t2 := st (c0 + sum2 pre + 2 ^ a) (take (1024 * 2 ^ a) (drop (1024 * 2 ^ a) X)) in
    stack_of bs (pre ++ [a; a]) = tcv t2 :: tcv t1 :: stack_of bs pre /\
    stack_of bs (pre ++ [a + 1]) = tcv (Node t1 t2) :: stack_of bs pre.
  Proof.
    intros Hl Ha X t1 t2. unfold stack_of. rewrite !trees_of_app, !map_app, !rev_app_distr.
    cbn [trees_of map rev app]. fold X. split; [reflexivity|].
    f_equal. f_equal.
    rewrite sum2_app in Hl. cbn [sum2] in Hl.
    assert (HX : len X = len bs - 1024 * sum2 pre) by (unfold X; apply len_drop).
    rewrite (st_double (c0 + sum2 pre) (take (1024 * 2 ^ (a + 1)) X) a).
    - unfold t1, t2. rewrite take_take. rewrite N.add_1_r, N.pow_succ_r'.
      replace (N.min (1024 * 2 ^ a) (1024 * (2 * 2 ^ a))) with (1024 * 2 ^ a) by lia.
      rewrite (take_drop_comm (1024 * 2 ^ a) (1024 * 2 ^ a) X).
      replace (1024 * 2 ^ a + 1024 * 2 ^ a) with (1024 * (2 * 2 ^ a)) by lia. reflexivity.
    - rewrite len_take. rewrite N.add_1_r, N.pow_succ_r'. lia.
    - exact Ha.
  Qed.

  Lemma merge_loop_spec : forall n es fuel h bs,
    length es = n -> (n <= fuel)%nat -> h_key h = K -> h_flags h = F ->
    Dom es -> 1024 * sum2 es <= len bs -> sum2 es <= 2 ^ 54 ->
    exists es', merge_loop fuel p h (stack_of bs es) (popcount (sum2 es)) = Ok (stack_of bs es') /\
                SDom es' /\ sum2 es' = sum2 es.
  Proof.
    induction n as [|n IH]; intros es fuel h bs Hn Hfuel Hk Hf HD Hl Hs.
    - destruct es; [|discriminate]. exists []. destruct fuel; cbn; auto.
    - destruct fuel as [|fuel]; [lia|].
      cbn [merge_loop]. rewrite stack_of_length.
      destruct (N.of_nat (length es) <=? popcount (sum2 es)) eqn:E.
      + exists es. split; [reflexivity|]. split; [apply dom_merged; [exact HD|lia]|reflexivity].
      + destruct (dom_needs_merge es HD ltac:(lia)) as (pre & a & ->).
        assert (Ha : a <= 53).
        { assert (Hin : In a (pre ++ [a; a])) by (apply in_or_app; right; left; reflexivity).
          pose proof (sum2_bound a _ Hin) as Hb. rewrite sum2_app in Hb, Hs. cbn [sum2] in Hb, Hs.
          assert (2 * 2 ^ a <= 2 ^ 54) by lia. rewrite <- N.pow_succ_r' in H.
          apply N.pow_le_mono_r_iff in H; lia. }
        destruct (stack_top2 bs pre a Hl ltac:(lia)) as [Hs1 Hs2]. cbn zeta in Hs1, Hs2.
        rewrite Hs1.
        rewrite parent_cv_spec; try assumption.
        2:{ apply st_wf. rewrite len_take. assert (2 ^ a <= 2 ^ 64) by (apply N.pow_le_mono_r; lia). lia. }
        2:{ apply st_wf. rewrite len_take. assert (2 ^ a <= 2 ^ 64) by (apply N.pow_le_mono_r; lia). lia. }
        rewrite <- Hs2.
        destruct (dom_merge pre a HD) as [HD' Hsum].
        destruct (IH (pre ++ [a + 1]) fuel h bs) as (es' & Hrun & HS' & Hsum'); try assumption.
        * rewrite app_length in *. cbn [length] in *. lia.
        * lia.
        * rewrite Hsum. exact Hl.
        * rewrite Hsum. exact Hs.
        * rewrite Hsum in Hrun. exists es'. rewrite Hrun. split; [reflexivity|]. split; [exact HS'|]. congruence.
  Qed.

  Lemma popcount_le x : popcount x <= x.
  Proof.
    destruct x as [|q]; [cbn; lia|]. cbn [popcount].
    induction q as [q IH|q IH|]; cbn [popcount_pos]; lia.
  Qed.

  Lemma post_merge_len_spec C : c0 + C < 2 ^ 64 -> rs_post_merge_len (c0 + C) c0 = Ok (popcount C).
  Proof.
    intros H. unfold rs_post_merge_len, mu, mb, mi_sub, mi_popcount, mi_cast. cbn [bind].
    replace (c0 <=? c0 + C) with true by lia. cbn [bind].
    replace (c0 + C - c0) with C by lia. rewrite N.land_ones.
    rewrite N.mod_small; [reflexivity|]. pose proof (popcount_le C). lia.
  Qed.

  (* a hasher whose stack represents the exponent list es over the bytes bs *)
  Definition StackRep (h : hasher) (bs : list N) (es : list N) : Prop :=
    h_key h = K /\ h_flags h = F /\ h_init h = c0 /\ h_stack h = stack_of bs es /\
    Dom es /\ 1024 * sum2 es <= len bs.

  Lemma stack_of_snoc bs es b :
    1024 * (sum2 es + 2 ^ b) <= len bs ->
    stack_of bs (es ++ [b]) =
    tcv (st (c0 + sum2 es) (take (1024 * 2 ^ b) (drop (1024 * sum2 es) bs))) :: stack_of bs es.
  Proof.
    intros H. unfold stack_of. rewrite trees_of_app, map_app, rev_app_distr. reflexivity.
  Qed.

  Lemma stack_of_ext bs ext es : 1024 * sum2 es <= len bs -> stack_of (bs ++ ext) es = stack_of bs es.
  Proof. intros H. unfold stack_of. rewrite trees_of_ext by exact H. reflexivity. Qed.

  (* push_cv of the next aligned subtree of 2^b chunks *)
  Lemma push_cv_spec h bs es b :
    StackRep h bs es -> (2 ^ b | sum2 es) -> c0 + sum2 es + 2 ^ b <= 2 ^ 54 ->
    1024 * (sum2 es + 2 ^ b) <= len bs ->
    exists h' es',
      push_cv p h (tcv (st (c0 + sum2 es) (take (1024 * 2 ^ b) (drop (1024 * sum2 es) bs)))) (c0 + sum2 es) = Ok h' /\
      StackRep h' bs (es' ++ [b]) /\ SDom es' /\ sum2 es' = sum2 es /\ h_cs h' = h_cs h.
  Proof.
    intros (Hk & Hf & Hi & Hst & HD & Hl) Hdiv Hcap Hlen.
    pose proof (pow2_pos b) as Hpb.
    assert (H54 : 2 ^ 54 = 18014398509481984) by reflexivity.
    unfold push_cv, merge_cv_stack. rewrite Hi.
    rewrite post_merge_len_spec by (rewrite two64; lia). cbn [bind]. rewrite Hst.
    destruct (merge_loop_spec (length es) es 64 h bs eq_refl) as (es' & Hrun & HS' & Hsum'); try assumption.
    { pose proof (dom_length_bound es 54 HD ltac:(lia)). lia. }
    { lia. }
    rewrite Hrun. cbn [bind h_stack].
    pose proof (sdom_length_bound _ 54 HS' ltac:(lia)) as Hb.
    rewrite stack_of_length. change rs_cv_stack_cap with 55.
    replace (N.of_nat (length es') <? 55) with true by lia. cbn [check bind].
    eexists. exists es'. split; [reflexivity|].
    split; [|repeat split; assumption || reflexivity].
    unfold StackRep. cbn [h_key h_flags h_cs h_init h_stack]. repeat split; try assumption.
    - rewrite stack_of_snoc by (rewrite Hsum'; exact Hlen). rewrite Hsum'. reflexivity.
    - apply dom_push; [exact HS'|rewrite Hsum'; exact Hdiv].
    - rewrite sum2_app. cbn [sum2]. lia.
  Qed.

  (* ---- final_output ------------------------------------------------------------------------ *)
  Lemma spine_snoc ts x t : spine (ts ++ [x]) t = spine ts (Node x t).
  Proof. induction ts as [|y ts IH]; cbn [app spine]; [reflexivity|]. rewrite IH. reflexivity. Qed.

  Lemma out_cv_tree t : wf_tree t -> out_chaining_value p (tree_out c8 K F t) = tcv t.
  Proof. intros W. rewrite wfcv by (apply towf; exact W). symmetry. apply tree_cv_out. Qed.

  Lemma final_fold_spec h : h_key h = K -> h_flags h = F -> forall ts t,
    Forall wf_tree ts -> wf_tree t ->
    final_fold p h (tree_out c8 K F t) (rev (map tcv ts)) = tree_out c8 K F (spine ts t).
  Proof.
    intros Hk Hf ts. induction ts as [|x ts IH] using rev_ind; intros t Wts Wt; [reflexivity|].
    apply Forall_app in Wts. destruct Wts as [Wts Wx]. apply Forall_inv in Wx. rename Wx into Wx'.
    rewrite map_app, rev_app_distr. cbn [map rev app final_fold]. rewrite Hk, Hf.
    rewrite out_cv_tree by exact Wt.
    change (parent_output K F (tcv x) (tcv t)) with (tree_out c8 K F (Node x t)).
    rewrite IH by (try assumption; split; assumption). rewrite spine_snoc. reflexivity.
  Qed.

  Lemma Tight_fields T cs bs : Tight c8 K F T cs bs -> cs_ctr cs = T /\ cs_flags cs = F /\ len bs <= 1024.
  Proof. intros (nb & [-> [Hl H1024]] & _). cbn. auto. Qed.

  Lemma Tight_count T cs bs : Tight c8 K F T cs bs -> cs_count cs = Ok (len bs).
  Proof. intros (nb & HR & _). apply (Repr_count c8 p Hcip' Hc8len K F T HK cs bs nb HR). Qed.

  Definition Inv (h : hasher) (bs : list N) : Prop :=
    exists es,
      StackRep h bs es /\
      Tight c8 K F (c0 + sum2 es) (h_cs h) (drop (1024 * sum2 es) bs) /\
      (0 < len bs - 1024 * sum2 es -> SDom es) /\
      (len bs = 1024 * sum2 es -> sum2 es = 0 \/ (2 <= length es)%nat) /\
      len bs <= 1024 * lim /\ len bs < 2 ^ 64.

  Lemma lim_bound : 1024 * lim <= 1024 * 2 ^ 64.
  Proof.
    assert (H54 : 2 ^ 54 = 18014398509481984) by reflexivity. rewrite two64. lia.
  Qed.

  Lemma snoc_cases {A} (l : list A) : l = [] \/ exists l' a, l = l' ++ [a].
  Proof.
    induction l as [|x l IH] using rev_ind; [left; reflexivity|right; eauto].
  Qed.

  Theorem final_output_spec h bs : Inv h bs -> final_output p h = Ok (tree_out c8 K F (st c0 bs)).
  Proof.
    intros (es & (Hk & Hf & Hi & Hst & HD & Hl) & HT & Hpart & Hempty & Hblim & Hb64).
    pose proof lim_bound as Hlb.
    destruct (Tight_fields _ _ _ HT) as (Hctr & Hfl & Hp1024). rewrite len_drop in Hp1024.
    assert (H54 : 2 ^ 54 = 18014398509481984) by reflexivity.
    unfold final_output. rewrite Hst.
    destruct (snoc_cases es) as [->|(es0 & a & ->)].
    - (* empty stack: the chunk state is everything *)
      cbn [stack_of trees_of map rev sum2] in *. rewrite Hctr, Hi, N.add_0_r. rewrite N.eqb_refl. cbn [check bind].
      rewrite N.mul_0_r, drop_0 in HT. rewrite N.add_0_r in HT.
      rewrite (cs_output_spec c8 p Hcip' Hc8len K F c0 HK (h_cs h) bs HT).
      rewrite st_leaf by lia. reflexivity.
    - assert (Hsum : sum2 (es0 ++ [a]) = sum2 es0 + 2 ^ a) by (rewrite sum2_app; cbn [sum2]; lia).
      assert (Hexp : Forall (fun x => x <= 64) (es0 ++ [a])).
      { apply exps_le. assert (2 ^ 54 <= 2 ^ 64) by (apply N.pow_le_mono_r; lia). lia. }
      pose proof (trees_of_wf (es0 ++ [a]) c0 bs Hexp) as Wts.
      pose proof (pow2_pos a) as Hpa.
      rewrite Hsum in *.
      rewrite (stack_of_snoc bs es0 a) by lia. cbn iota.
      rewrite (Tight_count _ _ _ HT). cbn [bind]. rewrite len_drop.
      destruct (0 <? len bs - 1024 * (sum2 es0 + 2 ^ a)) eqn:Epart.
      + (* a partial chunk on top of a fully merged stack *)
        assert (HS : SDom (es0 ++ [a])) by (apply Hpart; lia).
        rewrite Hctr, Hi. rewrite post_merge_len_spec by (rewrite two64; lia). cbn [bind].
        cbn [length]. rewrite stack_of_length.
        pose proof (sdom_popcount _ HS) as Hpc. rewrite Hsum, app_length in Hpc. cbn [length] in Hpc.
        replace (N.of_nat (S (length es0)) =? popcount (sum2 es0 + 2 ^ a)) with true by lia.
        cbn [check bind]. f_equal.
        rewrite (cs_output_spec c8 p Hcip' Hc8len K F (c0 + (sum2 es0 + 2 ^ a)) HK (h_cs h) _ HT).
        change (chunk_output c8 K F (c0 + (sum2 es0 + 2 ^ a)) (drop (1024 * (sum2 es0 + 2 ^ a)) bs))
          with (tree_out c8 K F (Leaf (c0 + (sum2 es0 + 2 ^ a)) (drop (1024 * (sum2 es0 + 2 ^ a)) bs))).
        rewrite <- (stack_of_snoc bs es0 a) by lia.
        unfold stack_of. rewrite final_fold_spec; try assumption; [|cbn; rewrite len_drop; lia].
        f_equal. rewrite <- (st_leaf (c0 + (sum2 es0 + 2 ^ a))) by (rewrite len_drop; lia).
        rewrite <- Hsum. apply spine_st; rewrite ?Hsum; try lia. apply SDom_DomR; [exact HS|lia].
      + (* no partial chunk: the top two entries form the last parent *)
        assert (Hfull : len bs = 1024 * (sum2 es0 + 2 ^ a)) by lia.
        destruct (Hempty Hfull) as [Hz|Hk2]; [lia|].
        destruct (snoc_cases es0) as [->|(es1 & b & ->)].
        { cbn [app length] in Hk2. lia. }
        rewrite (stack_of_snoc bs es1 b).
        2:{ rewrite !sum2_app in Hl. cbn [sum2] in Hl. lia. }
        f_equal.
        set (tb := st (c0 + sum2 es1) (take (1024 * 2 ^ b) (drop (1024 * sum2 es1) bs))).
        set (ta := st (c0 + sum2 (es1 ++ [b])) (take (1024 * 2 ^ a) (drop (1024 * sum2 (es1 ++ [b])) bs))).
        assert (Wall : Forall wf_tree (trees_of c0 bs es1 ++ [tb] ++ [ta])).
        { rewrite !trees_of_app in Wts. cbn [trees_of] in Wts. rewrite <- app_assoc in Wts. exact Wts. }
        apply Forall_app in Wall. destruct Wall as [W1 W2]. apply Forall_app in W2. destruct W2 as [Wb Wa].
        apply Forall_inv in Wb. apply Forall_inv in Wa.
        rewrite Hk, Hf.
        change (parent_output K F (tcv tb) (tcv ta)) with (tree_out c8 K F (Node tb ta)).
        unfold stack_of. rewrite final_fold_spec; try assumption; [|split; assumption].
        f_equal. rewrite <- spine_snoc.
        assert (Etr : trees_of c0 bs es1 ++ [tb] = trees_of c0 bs (es1 ++ [b])).
        { rewrite trees_of_app. reflexivity. }
        rewrite Etr.
        assert (Eta : ta = st (c0 + sum2 (es1 ++ [b])) (drop (1024 * sum2 (es1 ++ [b])) bs)).
        { unfold ta. rewrite take_all; [reflexivity|]. rewrite len_drop. lia. }
        rewrite Eta. apply spine_st.
        * lia.
        * lia.
        * replace (len bs - 1024 * sum2 (es1 ++ [b])) with (1024 * 2 ^ a) by lia.
          apply DomR_app. exact HD.
  Qed.

  (* ---- update ----------------------------------------------------------------------------------- *)
  Lemma hasher_count_spec h bs : Inv h bs -> hasher_count h = Ok (len bs).
  Proof.
    intros (es & (Hk & Hf & Hi & Hst & HD & Hl) & HT & _ & _ & Hblim & Hb64).
    assert (H54 : 2 ^ 54 = 18014398509481984) by reflexivity.
    destruct (Tight_fields _ _ _ HT) as (Hctr & _ & Hp). rewrite len_drop in Hp.
    unfold hasher_count. rewrite (Tight_count _ _ _ HT). cbn [bind]. rewrite Hctr, Hi, len_drop.
    rewrite rs_count_spec.
    - f_equal. lia.
    - lia.
    - rewrite two64 in *. lia.
  Qed.

  Definition LoopState (h : hasher) (bs : list N) (es : list N) : Prop :=
    StackRep h bs es /\ len bs = 1024 * sum2 es /\ h_cs h = cs_new K (c0 + sum2 es) F.

  Lemma shrink_loop_spec q : (1024 | q) -> forall fuel e,
    (N.to_nat e < fuel)%nat -> 10 <= e -> e < 64 ->
    exists e', shrink_loop fuel (2 ^ e) q = Ok (2 ^ e') /\ 10 <= e' /\ e' <= e /\ (2 ^ e' | q).
  Proof.
    intros Hq. induction fuel as [|fuel IH]; intros e Hf He1 He2; [lia|].
    cbn [shrink_loop]. rewrite rs_shrink_cond_spec by exact He2. cbn [bind].
    destruct (q mod 2 ^ e =? 0) eqn:E; cbn [negb].
    - exists e. repeat split; try lia. apply N.mod_divide; [apply N.pow_nonzero; lia|lia].
    - destruct (N.eq_dec e 10) as [->|Hne].
      + exfalso. change (2 ^ 10) with 1024 in E. destruct Hq as [k Hk]. rewrite Hk, N.mod_mul in E by lia. discriminate.
      + replace (2 ^ e / 2) with (2 ^ (e - 1)).
        2:{ replace e with (N.succ (e - 1)) at 2 by lia. rewrite N.pow_succ_r', N.mul_comm, N.div_mul; lia. }
        destruct (IH (e - 1)) as (e' & Hr & H1 & H2 & H3); try lia.
        exists e'. repeat split; try assumption; lia.
  Qed.

  Lemma cs_new_Tight T : Tight c8 K F T (cs_new K T F) [].
  Proof. apply (Tight_new c8 p Hcip' Hc8len K F T HK). Qed.

  Lemma with_cs_StackRep h bs es cs : StackRep h bs es -> cs_flags cs = F -> StackRep (with_cs h cs) bs es.
  Proof. intros (Hk & Hf & Hi & Hst & HD & Hl) Hc. unfold StackRep, with_cs, h_flags. cbn. auto 10. Qed.

  Lemma StackRep_ext h bs ext es : StackRep h bs es -> StackRep h (bs ++ ext) es.
  Proof.
    intros (Hk & Hf & Hi & Hst & HD & Hl). unfold StackRep. rewrite stack_of_ext by exact Hl.
    rewrite len_app. repeat split; try assumption. lia.
  Qed.

  Lemma LoopState_cs h bs es : LoopState h bs es ->
    cs_ctr (h_cs h) = c0 + sum2 es /\ cs_flags (h_cs h) = F /\ cs_count (h_cs h) = Ok 0.
  Proof. intros (_ & _ & ->). cbn. auto. Qed.

  (* one iteration of the `while input.len() > CHUNK_LEN` loop *)
  Lemma update_loop_step h bs es input :
    LoopState h bs es -> 1024 < len input -> len (bs ++ input) <= 1024 * lim -> len (bs ++ input) < 2 ^ 64 ->
    exists h' es' k,
      (forall fuel, update_loop (S fuel) p h input = update_loop fuel p h' (drop k input)) /\
      LoopState h' (bs ++ take k input) es' /\ 1024 <= k /\ k <= len input /\
      (k = len input -> (2 <= length es')%nat).
  Proof.
    intros (HSR & Hfull & Hcs) Hin Htot Htot64.
    pose proof HSR as (Hk & Hf & Hi & Hst & HD & Hl).
    assert (H54 : 2 ^ 54 = 18014398509481984) by reflexivity.
    rewrite len_app in Htot, Htot64. set (C := sum2 es) in *. set (n := len input) in *.
    assert (Hn64 : n < 2 ^ 64) by lia.
    pose proof (N.log2_spec n ltac:(lia)) as [Hlg1 Hlg2]. set (e := N.log2 n) in *. rewrite N.pow_succ_r' in Hlg2.
    assert (He10 : 10 <= e).
    { destruct (N.le_gt_cases 10 e) as [H|H]; [exact H|]. exfalso.
      assert (2 ^ N.succ e <= 2 ^ 10) by (apply N.pow_le_mono_r; lia). rewrite N.pow_succ_r' in H0.
      change (2 ^ 10) with 1024 in H0. lia. }
    assert (He64 : e < 64) by (apply (N.pow_lt_mono_r_iff 2); lia).
    destruct (shrink_loop_spec ((c0 + C) * 1024) ltac:(exists (c0 + C); reflexivity) 64 e) as (e' & Hshr & He'1 & He'2 & He'3); try lia.
    set (b := e' - 10).
    assert (Hsub : 2 ^ e' = 1024 * 2 ^ b).
    { replace e' with (10 + b) at 1 by (unfold b; lia). rewrite N.pow_add_r. reflexivity. }
    pose proof (pow2_pos b) as Hpb.
    assert (Hle_n : 1024 * 2 ^ b <= n).
    { rewrite <- Hsub. assert (2 ^ e' <= 2 ^ e) by (apply N.pow_le_mono_r; lia). lia. }
    assert (HdivC : (2 ^ b | C)).
    { assert (Hd : (2 ^ b | c0 + C)).
      { rewrite Hsub in He'3. destruct He'3 as [m Hm]. exists m. nia. }
      assert (Hd0 : (2 ^ b | c0)) by (apply Hal; lia).
      apply (N.divide_add_cancel_r _ _ _ Hd0 Hd). }
    set (piece := take (1024 * 2 ^ b) input).
    set (bs' := bs ++ piece).
    assert (Hpl : len piece = 1024 * 2 ^ b) by (unfold piece; rewrite len_take; lia).
    assert (Hdrop : drop (1024 * C) bs' = piece).
    { unfold bs'. rewrite drop_app_ge by lia. replace (1024 * C - len bs) with 0 by lia. apply drop_0. }
    assert (HSR' : StackRep h bs' es) by (apply StackRep_ext; exact HSR).
    (* common prefix of the iteration *)
    assert (Hpre : forall fuel (kont : N -> res (hasher * list N)),
      update_loop (S fuel) p h input = kont (1024 * 2 ^ b) ->
      update_loop (S fuel) p h input = kont (1024 * 2 ^ b)) by auto.
    clear Hpre.
    destruct (LoopState_cs h bs es (conj HSR (conj Hfull Hcs))) as (Hctr & Hfl & Hcnt).
    destruct (N.eq_dec b 0) as [Hb0|Hb0].
    - (* a single chunk *)
      assert (Epiece : piece = take 1024 input) by (unfold piece; rewrite Hb0; reflexivity).
      rewrite Hb0 in *. change (2 ^ 0) with 1 in *. rewrite N.mul_1_r in *.
      destruct (cs_update_spec c8 p Hcip' Hc8len K F (c0 + C) HK (cs_new K (c0 + C) F) [] piece (cs_new_Tight _))
        as (cs1 & Hupd & HT1); [cbn [app]; lia|]. cbn [app] in HT1.
      assert (Hcv : out_chaining_value p (cs_output cs1) = tcv (st (c0 + C) (take (1024 * 2 ^ 0) (drop (1024 * C) bs')))).
      { change (2 ^ 0) with 1. rewrite N.mul_1_r, Hdrop, take_all by lia.
        rewrite (cs_output_spec c8 p Hcip' Hc8len K F (c0 + C) HK cs1 piece HT1).
        rewrite st_leaf by lia. cbn [tree_cv]. apply wfcv.
        apply (chunk_output_wf c8 p POK Hpcip Hc8len K F HK). lia. }
      destruct (push_cv_spec h bs' es 0 HSR') as (h1 & es1 & Hpush & HSR1 & HS1 & Hsum1 & Hcs1).
      { exists C. lia. }
      { change (2 ^ 0) with 1. fold C. lia. }
      { change (2 ^ 0) with 1. fold C. unfold bs'. rewrite len_app. lia. }
      fold C in Hpush.
      exists (with_cs h1 (mkCS K (c0 + C + 1) zero_block 0 0 F)), (es1 ++ [0]), 1024.
      split; [|split; [|split; [lia|split; [lia|]]]].
      + intros fuel. cbn [update_loop]. unfold nlen. fold (len input). fold n. change rs_CHUNK_LEN with 1024.
        replace (n <=? 1024) with false by lia.
        rewrite Hcnt. cbn [bind]. change (0 =? 0) with true. cbn [check bind].
        rewrite rs_largest_power_of_two_leq_spec by lia. cbn [bind]. fold e.
        rewrite Hctr. fold C. rewrite rs_count_so_far_spec by (rewrite two64; lia). cbn [bind].
        rewrite Hshr. cbn [bind]. rewrite Hsub.
        rewrite rs_subtree_chunks_spec by (rewrite two64; lia). cbn [bind]. change (1024 / 1024) with 1.
        replace (1024 <=? n) with true by lia. cbn [check bind].
        change (1024 <=? 1024) with true. cbn iota. change (1024 =? 1024) with true. cbn [check bind].
        rewrite Hfl, Hk. rewrite firstn_N. rewrite <- Epiece. rewrite Hupd. cbn [bind].
        rewrite Hcv. rewrite Hpush. cbn [bind].
        unfold mi_add, fits. replace (c0 + C + 1 <? 2 ^ 64) with true by (rewrite two64; lia). cbn [bind].
        rewrite Hcs. unfold cs_new. cbn [cs_cv cs_buf cs_buf_len cs_blocks cs_flags]. rewrite skipn_N. reflexivity.
      + split; [|split].
        * apply with_cs_StackRep; [|reflexivity]. unfold bs' in HSR1. rewrite Epiece in HSR1. exact HSR1.
        * rewrite <- Epiece, len_app, sum2_app. cbn [sum2]. change (2 ^ 0) with 1. rewrite Hpl. lia.
        * cbn [with_cs h_cs]. rewrite sum2_app. cbn [sum2]. change (2 ^ 0) with 1. unfold cs_new.
          replace (c0 + (sum2 es1 + (1 + 0))) with (c0 + C + 1) by lia. reflexivity.
      + intros Hkn. lia.
    - (* a subtree of 2^b >= 2 chunks: two CVs *)
      assert (Hb1 : 1 <= b) by lia.
      assert (Hb54 : b <= 54).
      { apply (N.pow_le_mono_r_iff 2); lia. }
      destruct (to_parent_node_spec c8 p POK Hpcip Hc8len K F HK piece (c0 + C)) as (ta & tb & Hrun & Ht & Wa & Wb).
      { assert (2 <= 2 ^ b).
        { assert (2 ^ 1 <= 2 ^ b) by (apply N.pow_le_mono_r; lia). change (2 ^ 1) with 2 in *. lia. }
        lia. }
      { lia. }
      { rewrite Hpl, chunks_pow2_g, two64. lia. }
      rewrite <- st_unfold in Ht.
      assert (Hpl' : len piece = 1024 * 2 ^ (b - 1 + 1)) by (replace (b - 1 + 1) with b by lia; exact Hpl).
      rewrite (st_double (c0 + C) piece (b - 1) Hpl' ltac:(lia)) in Ht.
      injection Ht as Hta Htb.
      set (half := 1024 * 2 ^ (b - 1)) in *.
      assert (Hhalf : 2 * half = 1024 * 2 ^ b).
      { unfold half. replace b with (N.succ (b - 1)) at 2 by lia. rewrite N.pow_succ_r'. lia. }
      pose proof (pow2_pos (b - 1)) as Hpb1.
      (* first push *)
      assert (Hcv1 : tcv ta = tcv (st (c0 + C) (take (1024 * 2 ^ (b - 1)) (drop (1024 * C) bs')))).
      { rewrite Hdrop. fold half. rewrite Hta. reflexivity. }
      destruct (push_cv_spec h bs' es (b - 1) HSR') as (h1 & es1 & Hpush1 & HSR1 & HS1 & Hsum1 & Hcs1).
      { destruct HdivC as [m Hm]. exists (2 * m). fold C. rewrite Hm.
        replace b with (N.succ (b - 1)) at 1 by lia. rewrite N.pow_succ_r'. lia. }
      { fold C. unfold half in *. lia. }
      { fold C. unfold bs'. rewrite len_app. unfold half in *. lia. }
      fold C in Hpush1.
      assert (HSD1 : SDom (es1 ++ [b - 1])).
      { apply sdom_push_half; [exact HS1|]. rewrite Hsum1. replace (b - 1 + 1) with b by lia. exact HdivC. }
      (* second push *)
      assert (Hsum1' : sum2 (es1 ++ [b - 1]) = C + 2 ^ (b - 1)) by (rewrite sum2_app; cbn [sum2]; lia).
      assert (Hcv2 : tcv tb = tcv (st (c0 + sum2 (es1 ++ [b - 1])) (take (1024 * 2 ^ (b - 1)) (drop (1024 * sum2 (es1 ++ [b - 1])) bs')))).
      { rewrite Hsum1'. replace (1024 * (C + 2 ^ (b - 1))) with (1024 * C + half) by (unfold half; lia).
        rewrite <- drop_drop, Hdrop. fold half.
        rewrite take_all by (rewrite len_drop; lia).
        replace (c0 + (C + 2 ^ (b - 1))) with (c0 + C + 2 ^ (b - 1)) by lia. rewrite Htb. reflexivity. }
      destruct (push_cv_spec h1 bs' (es1 ++ [b - 1]) (b - 1) HSR1) as (h2 & es2 & Hpush2 & HSR2 & HS2 & Hsum2 & Hcs2).
      { rewrite Hsum1'. destruct HdivC as [m Hm]. exists (2 * m + 1). rewrite Hm.
        replace b with (N.succ (b - 1)) at 1 by lia. rewrite N.pow_succ_r'. lia. }
      { rewrite Hsum1'. unfold half in *. lia. }
      { rewrite Hsum1'. unfold bs'. rewrite len_app. unfold half in *. lia. }
      rewrite Hsum1' in Hpush2. rewrite Hsum1' in Hcv2.
      exists (with_cs h2 (mkCS K (c0 + C + 2 ^ b) zero_block 0 0 F)), (es2 ++ [b - 1]), (1024 * 2 ^ b).
      split; [|split; [|split; [lia|split; [lia|]]]].
      + intros fuel. cbn [update_loop]. unfold nlen. fold (len input). fold n. change rs_CHUNK_LEN with 1024.
        replace (n <=? 1024) with false by lia.
        rewrite Hcnt. cbn [bind]. change (0 =? 0) with true. cbn [check bind].
        rewrite rs_largest_power_of_two_leq_spec by lia. cbn [bind]. fold e.
        rewrite Hctr. fold C. rewrite rs_count_so_far_spec by (rewrite two64; lia). cbn [bind].
        rewrite Hshr. cbn [bind]. rewrite Hsub.
        rewrite rs_subtree_chunks_spec by (rewrite two64; lia). cbn [bind].
        replace (1024 * 2 ^ b / 1024) with (2 ^ b) by (rewrite N.mul_comm, N.div_mul; lia).
        replace (1024 * 2 ^ b <=? n) with true by lia. cbn [check bind].
        replace (1024 * 2 ^ b <=? 1024) with false by (rewrite <- Hhalf; unfold half; lia). cbn iota.
        rewrite Hfl, Hk. rewrite firstn_N. fold piece. rewrite Hrun. cbn [bind].
        pose proof (tcv_length c8 p POK Hpcip Hc8len K F HK ta Wa) as La.
        pose proof (tcv_length c8 p POK Hpcip Hc8len K F HK tb Wb) as Lb.
        assert (E0 : N.of_nat (length (tcv ta ++ tcv tb)) = 64) by (rewrite app_length, La, Lb; reflexivity).
        assert (E1 : firstn 32 (tcv ta ++ tcv tb) = tcv ta).
        { rewrite firstn_app, La. change (32 - 32)%nat with 0%nat. rewrite firstn_O, app_nil_r.
          apply firstn_all2. lia. }
        assert (E2 : firstn 32 (skipn 32 (tcv ta ++ tcv tb)) = tcv tb).
        { rewrite skipn_app, La. change (32 - 32)%nat with 0%nat. rewrite skipn_all2 by lia.
          cbn [skipn app]. apply firstn_all2. lia. }
        rewrite E0, E1, E2. change (64 <=? 64) with true. cbn [check bind].
        rewrite Hcv1, Hpush1. cbn [bind].
        rewrite rs_right_cv_counter_spec.
        2:{ rewrite (pow2_half b Hb1), two64. unfold half in *. lia. }
        rewrite (pow2_half b Hb1). cbn [bind].
        rewrite Hcv2. replace (c0 + C + 2 ^ (b - 1)) with (c0 + (C + 2 ^ (b - 1))) by lia.
        rewrite Hpush2. cbn [bind].
        unfold mi_add, fits. replace (c0 + C + 2 ^ b <? 2 ^ 64) with true by (rewrite two64; lia). cbn [bind].
        rewrite Hcs. unfold cs_new. cbn [cs_cv cs_buf cs_buf_len cs_blocks cs_flags]. rewrite skipn_N. reflexivity.
      + split; [|split].
        * apply with_cs_StackRep; [|reflexivity]. unfold bs', piece in HSR2. exact HSR2.
        * rewrite len_app, sum2_app. cbn [sum2]. unfold piece in Hpl. fold piece. rewrite Hsum2, Hsum1'. unfold half in *.
          assert (len piece = 1024 * 2 ^ b) by (unfold piece; rewrite len_take; lia). lia.
        * cbn [with_cs h_cs]. rewrite sum2_app. cbn [sum2]. rewrite Hsum2, Hsum1'. unfold cs_new.
          replace (c0 + (C + 2 ^ (b - 1) + (2 ^ (b - 1) + 0))) with (c0 + C + 2 ^ b) by (unfold half in *; lia). reflexivity.
      + intros _. rewrite app_length. cbn [length].
        destruct es2 as [|x es2']; [cbn [sum2] in Hsum2; rewrite Hsum1' in Hsum2; lia|]. cbn [length]. lia.
  Qed.

  Lemma update_loop_small fuel h input : len input <= 1024 -> update_loop fuel p h input = Ok (h, input).
  Proof.
    intros H. destruct fuel; cbn [update_loop]; unfold nlen; fold (len input); change rs_CHUNK_LEN with 1024;
      replace (len input <=? 1024) with true by lia; reflexivity.
  Qed.

  Lemma update_loop_spec : forall fuel h bs es input,
    LoopState h bs es -> len (bs ++ input) <= 1024 * lim -> len (bs ++ input) < 2 ^ 64 ->
    (N.to_nat (len input / 1024) < fuel)%nat ->
    exists h' es' k,
      update_loop fuel p h input = Ok (h', drop k input) /\
      LoopState h' (bs ++ take k input) es' /\ k <= len input /\ len input - k <= 1024 /\
      (k = 0 -> h' = h /\ es' = es) /\
      (0 < k -> k = len input -> (2 <= length es')%nat).
  Proof.
    induction fuel as [|fuel IH]; intros h bs es input HL Htot Htot64 Hfuel; [lia|].
    destruct (len input <=? 1024) eqn:E.
    - exists h, es, 0. rewrite update_loop_small by lia. rewrite drop_0, take_0, app_nil_r.
      split; [reflexivity|]. split; [exact HL|]. repeat split; lia.
    - destruct (update_loop_step h bs es input HL ltac:(lia) Htot Htot64) as (h1 & es1 & k1 & Hstep & HL1 & Hk1a & Hk1b & Hk1c).
      rewrite Hstep.
      destruct (IH h1 (bs ++ take k1 input) es1 (drop k1 input) HL1) as (h2 & es2 & k2 & Hrun & HL2 & Hk2a & Hk2b & Hk2c & Hk2d).
      + rewrite <- app_assoc, take_drop. exact Htot.
      + rewrite <- app_assoc, take_drop. exact Htot64.
      + rewrite len_drop. lia.
      + rewrite len_drop in *. exists h2, es2, (k1 + k2). rewrite drop_drop in Hrun.
        split; [exact Hrun|].
        assert (Ht : take k1 input ++ take k2 (drop k1 input) = take (k1 + k2) input).
        { rewrite <- (take_drop k1 (take (k1 + k2) input)). rewrite take_take.
          replace (N.min k1 (k1 + k2)) with k1 by lia. f_equal. rewrite take_drop_comm. reflexivity. }
        rewrite <- app_assoc, Ht in HL2. split; [exact HL2|].
        split; [lia|]. split; [lia|]. split; [lia|].
        intros _ Hall. destruct (N.eq_dec k2 0) as [Hz|Hnz].
        * destruct (Hk2c Hz) as [-> ->]. apply Hk1c. lia.
        * apply Hk2d; lia.
  Qed.

  Lemma Tight_nil T cs : Tight c8 K F T cs [] -> cs = cs_new K T F.
  Proof.
    intros (nb & [-> [Hl _]] & _). change (len []) with 0 in *.
    assert (nb = 0%nat) by lia. subst nb. reflexivity.
  Qed.

  (* the subtree loop followed by the final partial chunk *)
  Lemma hasher_update_tail_spec h bs es input :
    LoopState h bs es -> len (bs ++ input) <= 1024 * lim -> len (bs ++ input) < 2 ^ 64 ->
    (len input = 0 -> sum2 es = 0 \/ (2 <= length es)%nat) ->
    exists h', hasher_update_tail p h input = Ok h' /\ Inv h' (bs ++ input).
  Proof.
    intros HL Htot Htot64 Hemp. unfold hasher_update_tail.
    assert (H54 : 2 ^ 54 = 18014398509481984) by reflexivity.
    destruct (update_loop_spec (S (Nat.div (length input) 1024)) h bs es input HL Htot Htot64)
      as (h2 & es2 & k & Hrun & HL2 & Hka & Hkb & Hkc & Hkd).
    { unfold len. rewrite N2Nat.inj_div, Nat2N.id. change (N.to_nat 1024) with 1024%nat. lia. }
    rewrite Hrun. cbn [bind]. unfold nlen. fold (len (drop k input)). rewrite len_drop.
    change rs_CHUNK_LEN with 1024. replace (len input - k <=? 1024) with true by lia. cbn [check bind].
    destruct HL2 as (HSR2 & Hfull2 & Hcs2). pose proof HSR2 as (Hk2 & Hf2 & Hi2 & Hst2 & HD2 & Hl2).
    rewrite len_app, len_take in Hfull2. replace (N.min k (len input)) with k in Hfull2 by lia.
    assert (Hall : (bs ++ take k input) ++ drop k input = bs ++ input) by (rewrite <- app_assoc, take_drop; reflexivity).
    rewrite len_app in Htot, Htot64.
    destruct (len input - k =? 0) eqn:E; cbn [negb].
    - (* everything went into whole subtrees *)
      exists h2. split; [reflexivity|].
      assert (Hd : drop k input = []) by (apply drop_all; lia).
      rewrite <- Hall, Hd, app_nil_r.
      exists es2. split; [exact HSR2|].
      rewrite len_app, len_take. replace (N.min k (len input)) with k by lia.
      split.
      { rewrite drop_all by (rewrite len_app, len_take; lia). rewrite Hcs2. apply cs_new_Tight. }
      split; [intros; lia|]. split; [|split; lia].
      intros _. destruct (N.eq_dec k 0) as [Hz|Hnz].
      + destruct (Hkc Hz) as [-> ->]. apply Hemp. lia.
      + right. apply Hkd; lia.
    - (* a final partial (or exactly full) chunk goes into the chunk state, then the extra merge *)
      set (rest := drop k input) in *.
      assert (Hrl : len rest = len input - k) by (unfold rest; apply len_drop).
      rewrite Hcs2.
      destruct (cs_update_spec c8 p Hcip' Hc8len K F (c0 + sum2 es2) HK (cs_new K (c0 + sum2 es2) F) [] rest (cs_new_Tight _))
        as (cs3 & Hupd & HT3); [cbn [app]; lia|]. cbn [app] in HT3.
      rewrite Hupd. cbn [bind].
      destruct (Tight_fields _ _ _ HT3) as (Hctr3 & Hfl3 & _).
      unfold merge_cv_stack. cbn [with_cs h_init h_stack h_key h_cs]. rewrite Hi2, Hctr3.
      rewrite post_merge_len_spec by (rewrite two64; lia). cbn [bind]. rewrite Hst2.
      destruct (merge_loop_spec (length es2) es2 64 (with_cs h2 cs3) (bs ++ take k input) eq_refl) as (es3 & Hm & HS3 & Hsum3); try assumption.
      { pose proof (dom_length_bound es2 54 HD2 ltac:(lia)). lia. }
      { lia. }
      rewrite Hm. cbn [bind]. eexists. split; [reflexivity|].
      rewrite <- Hall. fold rest.
      exists es3. rewrite Hsum3.
      split.
      { unfold StackRep, h_flags. cbn [h_key h_cs h_init h_stack]. repeat split; try assumption.
        - rewrite (stack_of_ext (bs ++ take k input) rest es3); [reflexivity|]. rewrite Hsum3. exact Hl2.
        - apply SDom_Dom. exact HS3.
        - rewrite Hsum3, len_app. lia. }
      split.
      { assert (Hlen2 : len (bs ++ take k input) = 1024 * sum2 es2) by (rewrite len_app, len_take; lia).
        cbn [h_cs]. rewrite drop_app_ge by lia. rewrite Hlen2, N.sub_diag, drop_0. exact HT3. }
      split; [intros _; exact HS3|]. rewrite !len_app, len_take. replace (N.min k (len input)) with k by lia.
      split; [intros; lia|]. split; lia.
  Qed.

  Theorem hasher_update_spec h bs input :
    Inv h bs -> len (bs ++ input) <= 1024 * lim -> len (bs ++ input) < 2 ^ 64 ->
    exists h', hasher_update p h input = Ok h' /\ Inv h' (bs ++ input).
  Proof.
    intros HI Htot Htot64. pose proof (hasher_count_spec h bs HI) as Hcount.
    destruct HI as (es & HSR & HT & Hpart & Hempty & Hblim & Hb64).
    pose proof HSR as (Hk & Hf & Hi & Hst & HD & Hl).
    assert (H54 : 2 ^ 54 = 18014398509481984) by reflexivity.
    destruct (Tight_fields _ _ _ HT) as (Hctr & Hfl & Hp1024). rewrite len_drop in Hp1024.
    rewrite len_app in Htot, Htot64.
    set (C := sum2 es) in *. set (part := drop (1024 * C) bs) in *.
    assert (Hpl : len part = len bs - 1024 * C) by (unfold part; apply len_drop).
    unfold hasher_update. rewrite Hi.
    rewrite rs_input_offset_spec by (rewrite two64; lia). cbn [bind].
    rewrite Hmsl. cbn [bind].
    assert (Hguard : (match (if c0 =? 0 then None else Some (1024 * lim)) with
                      | Some max => cnt <- hasher_count h ;; remaining <- mi_sub 64 max cnt ;;
                                    assert! (nlen input <=? remaining) code 21 ;; Ok tt
                      | None => Ok tt end) = Ok tt).
    { destruct (c0 =? 0); [reflexivity|]. rewrite Hcount. cbn [bind]. unfold mi_sub.
      replace (len bs <=? 1024 * lim) with true by lia. cbn [bind]. unfold nlen. fold (len input).
      replace (len input <=? 1024 * lim - len bs) with true by lia. reflexivity. }
    rewrite Hguard. cbn [bind]. rewrite (Tight_count _ _ _ HT). cbn [bind]. fold part. rewrite Hpl.
    destruct (0 <? len bs - 1024 * C) eqn:Ec.
    - (* finish the partial chunk first *)
      change rs_CHUNK_LEN with 1024. unfold mi_sub. replace (len bs - 1024 * C <=? 1024) with true by lia. cbn [bind].
      unfold nlen. fold (len input). set (t := N.min (1024 - (len bs - 1024 * C)) (len input)).
      rewrite firstn_N, skipn_N.
      destruct (cs_update_spec c8 p Hcip' Hc8len K F (c0 + C) HK (h_cs h) part (take t input) HT)
        as (cs1 & Hupd & HT1).
      { rewrite len_app, len_take. unfold t. lia. }
      rewrite Hupd. cbn [bind]. fold (len (drop t input)). rewrite len_drop.
      destruct (Tight_fields _ _ _ HT1) as (Hctr1 & Hfl1 & _).
      assert (HS : SDom es) by (apply Hpart; lia).
      destruct (len input - t =? 0) eqn:Er; cbn [negb].
      + (* all of the input fitted into the chunk state *)
        cbn [bind]. exists (with_cs h cs1). split; [reflexivity|].
        assert (Hti : take t input = input) by (apply take_all; lia).
        rewrite Hti in HT1.
        exists es. split; [apply with_cs_StackRep; [apply StackRep_ext; exact HSR|exact Hfl1]|].
        fold C. split.
        { cbn [with_cs h_cs]. rewrite drop_app_le by lia. exact HT1. }
        rewrite len_app. split; [intros _; exact HS|]. split; [intros; lia|]. split; lia.
      + (* the chunk is complete and more input follows *)
        assert (Ht : t = 1024 - (len bs - 1024 * C)) by (unfold t; lia).
        rewrite (Tight_count _ _ _ HT1). cbn [bind]. rewrite len_app, len_take, Hpl.
        replace (len bs - 1024 * C + N.min t (len input) =? 1024) with true by lia. cbn [check bind].
        set (bs1 := bs ++ take t input).
        assert (Hbs1 : len bs1 = 1024 * (C + 1)) by (unfold bs1; rewrite len_app, len_take; lia).
        assert (Hd1 : drop (1024 * C) bs1 = part ++ take t input).
        { unfold bs1. rewrite drop_app_le by lia. reflexivity. }
        assert (Hcv : out_chaining_value p (cs_output cs1) =
                      tcv (st (c0 + sum2 es) (take (1024 * 2 ^ 0) (drop (1024 * sum2 es) bs1)))).
        { fold C. change (2 ^ 0) with 1. rewrite N.mul_1_r, Hd1.
          rewrite take_all by (rewrite len_app, len_take; lia).
          rewrite (cs_output_spec c8 p Hcip' Hc8len K F (c0 + C) HK cs1 _ HT1).
          rewrite st_leaf by (rewrite len_app, len_take; lia). cbn [tree_cv]. apply wfcv.
          apply (chunk_output_wf c8 p POK Hpcip Hc8len K F HK). rewrite len_app, len_take. lia. }
        destruct (push_cv_spec (with_cs h cs1) bs1 es 0) as (h1 & es1 & Hpush & HSR1 & HS1 & Hsum1 & Hcs1).
        { apply with_cs_StackRep; [apply StackRep_ext; exact HSR|exact Hfl1]. }
        { exists (sum2 es). lia. }
        { change (2 ^ 0) with 1. fold C. lia. }
        { change (2 ^ 0) with 1. fold C. lia. }
        rewrite Hctr1, Hcv. fold C in Hpush. fold C. rewrite Hpush. cbn [bind].
        unfold mi_add, fits. replace (c0 + C + 1 <? 2 ^ 64) with true by (rewrite two64; lia). cbn [bind].
        cbn iota.
        destruct HSR1 as (Hk1 & Hf1 & Hi1 & Hst1 & HD1 & Hl1).
        rewrite Hk1, Hfl1.
        destruct (hasher_update_tail_spec (with_cs h1 (cs_new K (c0 + C + 1) F)) bs1 (es1 ++ [0]) (drop t input))
          as (h' & Hrun & HI').
        { split; [|split].
          - apply with_cs_StackRep; [|reflexivity]. unfold StackRep. auto 10.
          - rewrite sum2_app. cbn [sum2]. change (2 ^ 0) with 1. lia.
          - cbn [with_cs h_cs]. rewrite sum2_app. cbn [sum2]. change (2 ^ 0) with 1.
            replace (c0 + (sum2 es1 + (1 + 0))) with (c0 + C + 1) by lia. reflexivity. }
        { unfold bs1. rewrite <- app_assoc, take_drop, len_app. lia. }
        { unfold bs1. rewrite <- app_assoc, take_drop, len_app. lia. }
        { rewrite len_drop. intros Hz. lia. }
        rewrite Hrun. exists h'. split; [reflexivity|].
        unfold bs1 in HI'. rewrite <- app_assoc, take_drop in HI'. exact HI'.
    - (* the chunk state is empty: straight to the subtree loop *)
      cbn [bind]. cbn iota.
      assert (Hpe : part = []) by (apply len_0_nil; lia).
      rewrite Hpe in HT. pose proof (Tight_nil _ _ HT) as Hcs.
      destruct (hasher_update_tail_spec h bs es input) as (h' & Hrun & HI').
      { split; [exact HSR|]. split; [fold C; lia|exact Hcs]. }
      { rewrite len_app. lia. }
      { rewrite len_app. lia. }
      { intros _. apply Hempty. fold C. lia. }
      rewrite Hrun. eauto.
  Qed.

  Lemma Inv_new : c0 + 0 <= 2 ^ 54 -> Inv (mkHasher K (cs_new K c0 F) c0 []) [].
  Proof.
    intros _. exists []. split; [|split; [|split; [|split; [|split]]]].
    - unfold StackRep, h_flags. cbn [h_key h_cs h_init h_stack cs_new cs_flags stack_of trees_of map rev Dom sum2].
      change (len []) with 0. repeat split; auto. lia.
    - cbn [sum2 h_cs]. rewrite N.add_0_r. apply cs_new_Tight.
    - change (len []) with 0. cbn [sum2]. intros; lia.
    - cbn [sum2]. auto.
    - change (len []) with 0. lia.
    - change (len []) with 0. rewrite two64. lia.
  Qed.
End HasherProof.
