(* C05: every SIMD kernel ALGORITHM equals the portable compression function.
   Statements only; models in Model/Kernels.v, proofs in Proofs/KernelsP.v.
   Scope: the lane-parallel hashN / xofN kernels, the row-vectorised single-block kernel,
   the four load_counters variants, the unpack/permute transposes, and the
   hash_many / xof_many cascades of the SSE2, SSE4.1, AVX2 and AVX-512 back ends, as
   written in the Rust-intrinsics and C-intrinsics sources.  The assembly files implement the
   same algorithms and are tied to these models by correspondence only (DESIGN.md, C05).
   Domain: cv/key of 8 words, inputs of one common length that is a multiple of 64
   (`uniform`), counter + number of lanes/inputs/blocks within u64. *)
From Coq Require Import NArith ZArith List Bool Arith.
From V Require Import Base.Res Base.Word Base.MachInt gen.GenConsts Model.Portable Model.Platform
  Model.Kernels Proofs.KernelsP Proofs.BlendP.
Import ListNotations.
Open Scope N_scope.

(* lane_lift: any function built from lane-wise add/xor/rot, read at lane i, is the scalar
   function of the lane-i inputs *)
Theorem C05_lane_lift : forall n i, (i < n)%nat -> forall (env : nat -> vec) (e : wexpr),
  (forall k, length (env k) = n) ->
  length (eval_vec env e) = n /\ nth i (eval_vec env e) 0 = eval_word (fun k => nth i (env k) 0) e.
Proof. exact lane_lift. Qed.
Print Assumptions C05_lane_lift.

(* the SIMD round (112 statements, source order), read at lane i, is the portable round *)
Theorem C05_vround_lane : forall n i, (i < n)%nat -> forall (v msg : list vec) r,
  (r < 7)%nat -> length v = 16%nat -> length msg = 16%nat -> Forall (wf n) v -> Forall (wf n) msg ->
  Forall (wf n) (vround v msg r) /\ length (vround v msg r) = 16%nat /\
  lane i (vround v msg r) = Portable.round (lane i v) (lane i msg) r.
Proof. exact vround_lane. Qed.
Print Assumptions C05_vround_lane.

(* transposes, polymorphic in the lane contents: row j of the result is column j *)
Theorem C05_transpose_4x4 : forall A (d : A) (M : list (list A)),
  length M = 4%nat -> Forall (fun r => length r = 4%nat) M ->
  transpose_vecs_128 d M = map (fun j => map (fun row => nth j row d) M) (seq 0 4).
Proof. exact @transpose_vecs_128_ok. Qed.
Print Assumptions C05_transpose_4x4.
Theorem C05_transpose_8x8 : forall A (d : A) (M : list (list A)),
  length M = 8%nat -> Forall (fun r => length r = 8%nat) M ->
  transpose_vecs_256 d M = map (fun j => map (fun row => nth j row d) M) (seq 0 8).
Proof. exact @transpose_vecs_256_ok. Qed.
Print Assumptions C05_transpose_8x8.
Theorem C05_transpose_16x16 : forall A (d : A) (M : list (list A)),
  length M = 16%nat -> Forall (fun r => length r = 16%nat) M ->
  transpose_vecs_512 d M = map (fun j => map (fun row => nth j row d) M) (seq 0 16).
Proof. exact @transpose_vecs_512_ok. Qed.
Print Assumptions C05_transpose_16x16.

(* load_counters: lane i holds (counter_low, counter_high) of counter + i (or of counter) *)
Definition C05_lc_stmt (n : nat) (lc : N -> bool -> res (vec * vec)) : Prop :=
  forall counter incr, counter + N.of_nat n <= 2 ^ 64 ->
    exists clo chi, lc counter incr = Ok (clo, chi) /\ length clo = n /\ length chi = n /\
      forall i, (i < n)%nat ->
        nth i clo 0 = ctr_lo (if incr then counter + N.of_nat i else counter) /\
        nth i chi 0 = ctr_hi (if incr then counter + N.of_nat i else counter).
Theorem C05_load_counters_rust : forall n, C05_lc_stmt n (load_counters_rs n).
Proof. exact load_counters_rs_ok. Qed.
Print Assumptions C05_load_counters_rust.
Theorem C05_load_counters_signed_compare : forall n, N.of_nat n <= 4294967296 -> C05_lc_stmt n (load_counters_cmp n).
Proof. exact load_counters_cmp_ok. Qed.
Print Assumptions C05_load_counters_signed_compare.
Theorem C05_load_counters_andnot : forall n, N.of_nat n <= 2147483648 -> C05_lc_stmt n (load_counters_andnot n).
Proof. exact load_counters_andnot_ok. Qed.
Print Assumptions C05_load_counters_andnot.
Theorem C05_load_counters_64bit : forall n, C05_lc_stmt n (load_counters_64 n).
Proof. exact load_counters_64_ok. Qed.
Print Assumptions C05_load_counters_64bit.

(* hashN: N inputs of `blocks` blocks = Portable.hash1 per input, counters counter + i *)
Definition C05_hashN_stmt (n : nat) (hN : hashN_fn) : Prop :=
  forall chunk blocks key counter incr fl fs fe,
    length chunk = n -> length key = 8%nat ->
    (forall i, In i chunk -> length i = (blocks * 64)%nat) ->
    counter + N.of_nat n <= 2 ^ 64 ->
    hN chunk blocks key counter incr fl fs fe = Ok (hm_spec chunk key counter incr fl fs fe).
(* hm_spec is the value of Portable.hash_many_go *)
Theorem C05_hm_spec_is_portable : forall inputs key c incr fl fs fe,
  (forall i, In i inputs -> Nat.modulo (length i) 64 = 0%nat) -> c + N.of_nat (length inputs) < 2 ^ 64 ->
  hash_many_go inputs key c incr fl fs fe = Ok (hm_spec inputs key c incr fl fs fe).
Proof. exact hash_many_go_spec. Qed.
Print Assumptions C05_hm_spec_is_portable.
Theorem C05_hash4_rust : C05_hashN_stmt 4 hash4_rs. Proof. exact hash4_rs_ok. Qed.
Print Assumptions C05_hash4_rust.
Theorem C05_hash8_rust : C05_hashN_stmt 8 hash8_rs. Proof. exact hash8_rs_ok. Qed.
Print Assumptions C05_hash8_rust.
Theorem C05_hash4_c : C05_hashN_stmt 4 hash4_c. Proof. exact hash4_c_ok. Qed.
Print Assumptions C05_hash4_c.
Theorem C05_hash8_c : C05_hashN_stmt 8 hash8_c. Proof. exact hash8_c_ok. Qed.
Print Assumptions C05_hash8_c.
Theorem C05_hash4_avx512 : C05_hashN_stmt 4 hash4_avx512. Proof. exact hash4_avx512_ok. Qed.
Print Assumptions C05_hash4_avx512.
Theorem C05_hash8_avx512 : C05_hashN_stmt 8 hash8_avx512. Proof. exact hash8_avx512_ok. Qed.
Print Assumptions C05_hash8_avx512.
Theorem C05_hash16_avx512 : C05_hashN_stmt 16 hash16_avx512. Proof. exact hash16_avx512_ok. Qed.
Print Assumptions C05_hash16_avx512.

(* hash_many cascades = Portable.hash_many, any number of inputs *)
Definition C05_dom (inputs : list (list N)) (key : list N) (ctr : N) : Prop :=
  length key = 8%nat /\
  (forall i, In i inputs -> length i = (Nat.div (length (hd [] inputs)) 64 * 64)%nat) /\
  ctr + N.of_nat (length inputs) < 2 ^ 64.
Theorem C05_hash_many_sse2 : forall inputs key ctr incr fl fs fe cap, C05_dom inputs key ctr ->
  hash_many_rs4 (load_counters_rs 4) compress_in_place_rows inputs key ctr incr fl fs fe cap =
  hash_many inputs key ctr incr fl fs fe cap.
Proof. exact hash_many_sse2_ok. Qed.
Print Assumptions C05_hash_many_sse2.
Theorem C05_hash_many_sse41 : forall inputs key ctr incr fl fs fe cap, C05_dom inputs key ctr ->
  hash_many_rs4 (load_counters_rs 4) compress_in_place_rows inputs key ctr incr fl fs fe cap =
  hash_many inputs key ctr incr fl fs fe cap.
Proof. exact hash_many_sse41_ok. Qed.
Print Assumptions C05_hash_many_sse41.
Theorem C05_hash_many_avx2 : forall inputs key ctr incr fl fs fe cap, C05_dom inputs key ctr ->
  hash_many_rs8 (load_counters_rs 8) (load_counters_rs 4) compress_in_place_rows inputs key ctr incr fl fs fe cap =
  hash_many inputs key ctr incr fl fs fe cap.
Proof. exact hash_many_avx2_ok. Qed.
Print Assumptions C05_hash_many_avx2.
Theorem C05_hash_many_avx512 : forall inputs key ctr incr fl fs fe cap, C05_dom inputs key ctr ->
  N.of_nat (length inputs) <= cap ->
  ffi_hash_many (hash_many_c16 compress_in_place_rows) inputs key ctr incr fl fs fe cap =
  hash_many inputs key ctr incr fl fs fe cap.
Proof. exact hash_many_avx512_ok. Qed.
Print Assumptions C05_hash_many_avx512.
Theorem C05_hash_many_sse41_c : forall inputs key ctr incr fl fs fe cap, C05_dom inputs key ctr ->
  N.of_nat (length inputs) <= cap ->
  ffi_hash_many (hash_many_c4 (load_counters_cmp 4) compress_in_place_rows) inputs key ctr incr fl fs fe cap =
  hash_many inputs key ctr incr fl fs fe cap.
Proof. exact hash_many_sse41_c_ok. Qed.
Print Assumptions C05_hash_many_sse41_c.
Theorem C05_hash_many_avx2_c : forall inputs key ctr incr fl fs fe cap, C05_dom inputs key ctr ->
  N.of_nat (length inputs) <= cap ->
  ffi_hash_many (hash_many_c8 (load_counters_cmp 8) (load_counters_cmp 4) compress_in_place_rows)
                inputs key ctr incr fl fs fe cap =
  hash_many inputs key ctr incr fl fs fe cap.
Proof. exact hash_many_avx2_c_ok. Qed.
Print Assumptions C05_hash_many_avx2_c.
(* the FFI wrappers' bound check is an unconditional assert! (portable: debug_assert!) *)
Theorem C05_ffi_hash_many_short_out : forall f inputs key ctr incr fl fs fe cap,
  cap < N.of_nat (length inputs) -> ffi_hash_many f inputs key ctr incr fl fs fe cap = Panic 101.
Proof. exact ffi_hash_many_short. Qed.
Print Assumptions C05_ffi_hash_many_short_out.

(* compress_rows_ok: row-vectorised single-block compression *)
Theorem C05_compress_in_place_rows : forall cv block bl ctr fl, length cv = 8%nat ->
  compress_in_place_rows cv block bl ctr fl = compress_in_place cv block bl ctr fl.
Proof. exact compress_in_place_rows_ok. Qed.
Print Assumptions C05_compress_in_place_rows.
Theorem C05_compress_xof_rows : forall cv block bl ctr fl, length cv = 8%nat ->
  compress_xof_rows cv block bl ctr fl = compress_xof cv block bl ctr fl.
Proof. exact compress_xof_rows_ok. Qed.
Print Assumptions C05_compress_xof_rows.
(* the shuffle sequence between rounds is MSG_PERMUTATION in the diagonal layout *)
Theorem C05_msg_shuffle_is_permutation : forall x, length x = 16%nat ->
  msg_next (layout x) = layout (Spec.Compress.permute x).
Proof. exact msg_next_layout. Qed.
Print Assumptions C05_msg_shuffle_is_permutation.

(* xof_many: blake3_xof_many_avx512 = the generic loop *)
Theorem C05_xof_many_avx512 : forall cv block bl ctr fl n, length cv = 8%nat -> ctr + n < 2 ^ 64 ->
  xof_many_avx512 compress_xof_rows cv block bl ctr fl n = portable_xof_many cv block bl ctr fl n.
Proof. exact (xof_many_avx512_ok compress_xof_rows cx_ok_rows). Qed.
Print Assumptions C05_xof_many_avx512.

(* PlatformOK *)
Theorem C05_platform_sse2 : PlatformOK sse2_platform. Proof. exact sse2_platform_ok. Qed.
Print Assumptions C05_platform_sse2.
Theorem C05_platform_sse41 : PlatformOK sse41_platform. Proof. exact sse41_platform_ok. Qed.
Print Assumptions C05_platform_sse41.
Theorem C05_platform_avx2 : PlatformOK avx2_platform. Proof. exact avx2_platform_ok. Qed.
Print Assumptions C05_platform_avx2.
Theorem C05_platform_avx512 : PlatformOK avx512_platform. Proof. exact avx512_platform_ok. Qed.
Print Assumptions C05_platform_avx512.
Theorem C05_platform_sse41_ffi : PlatformOK sse41_ffi_platform. Proof. exact sse41_ffi_platform_ok. Qed.
Print Assumptions C05_platform_sse41_ffi.
Theorem C05_platform_avx2_ffi : PlatformOK avx2_ffi_platform. Proof. exact avx2_ffi_platform_ok. Qed.
Print Assumptions C05_platform_avx2_ffi.
(* rust_sse2.rs: the emulation of _mm_blend_epi16 ((mask & b) | andnot(mask, a) with the cmpeq16 mask) is the
   lane selection of the SSE4.1 instruction, for the two immediates the code uses and registers of 32-bit lanes *)
Theorem C05_sse2_blend_is_lane_select : forall a b imm, (imm = 0xCC \/ imm = 0xC0) -> lanes32 a -> lanes32 b ->
  blend_epi16_sse2 a b imm = blend_epi16 0 a b imm /\ lanes32 (blend_epi16 0 a b imm).
Proof. intros a b imm Hi Ha Hb. split; [apply blend_sse2_is_lane_select; assumption|apply blend_lanes32; assumption]. Qed.
Print Assumptions C05_sse2_blend_is_lane_select.

(* inside the argument types the platform records run the vector kernels, not the guard's
   portable branch *)
Theorem C05_guard_identity_hash_many : forall extra k inputs key ctr incr fl fs fe cap,
  cv_ok key = true -> inputs_ok inputs = true -> extra inputs cap = true ->
  guard_hm extra k inputs key ctr incr fl fs fe cap = k inputs key ctr incr fl fs fe cap.
Proof. exact guard_hm_in. Qed.
Print Assumptions C05_guard_identity_hash_many.

(* non-vacuity: the AVX2 model on 9 one-block inputs (one hash8 batch, then the SSE4.1
   remainder path), counters crossing 2^32, really computes and agrees with portable *)
Definition ex_input (k : nat) : list N := map (fun i => N.of_nat ((i * 7 + k * 13 + i * i) mod 256)) (seq 0 64).
Definition ex_inputs : list (list N) := map ex_input (seq 0 9).
Definition ex_key : list N := [1; 2; 3; 4; 5; 6; 7; 4000000000].
Example C05_avx2_nine_inputs :
  hash_many_rs8 (load_counters_rs 8) (load_counters_rs 4) compress_in_place_rows
                ex_inputs ex_key 4294967290 true 5 1 2 9 =
  hash_many ex_inputs ex_key 4294967290 true 5 1 2 9 /\
  is_ok (hash_many ex_inputs ex_key 4294967290 true 5 1 2 9) = true /\
  p_hash_many avx2_platform ex_inputs ex_key 4294967290 true 5 1 2 9 =
  hash_many_rs8 (load_counters_rs 8) (load_counters_rs 4) compress_in_place_rows
                ex_inputs ex_key 4294967290 true 5 1 2 9.
Proof. vm_compute. repeat split. Qed.
Example C05_avx512_xof_35_blocks :
  xof_many_avx512 compress_xof_rows ex_key (ex_input 3) 64 4294967290 11 35 =
  portable_xof_many ex_key (ex_input 3) 64 4294967290 11 35.
Proof. vm_compute. reflexivity. Qed.

(* ------------------------------------------------------------------ *)
(* load_counters as TRANSLATED from the sources.  gen/GenCounters.v is regenerated on every run
   (tools/gen_coq.py gen_counters) from the text of every load_counters* function of
   c/blake3_sse2.c, c/blake3_sse41.c, c/blake3_avx2.c, c/blake3_avx512.c, src/rust_sse2.rs,
   src/rust_sse41.rs, src/rust_avx2.rs, as terms over the intrinsic semantics of
   Model/Intrinsics.v.  For each: (model) it equals the hand-written model of Model/Kernels.v
   that the kernels above are built on, and (spec) it satisfies the counter statement
   C05_lc_stmt.  The counter is universally quantified; only the lane count is concrete. *)
From V Require Import Model.Intrinsics gen.GenCounters Proofs.CountersP.

Theorem C05_counters_c_sse2_model : forall counter incr,
  Ok (c_sse2_load_counters counter incr) = load_counters_cmp 4 counter incr.
Proof. exact c_sse2_load_counters_model. Qed.
Print Assumptions C05_counters_c_sse2_model.
Theorem C05_counters_c_sse2 : C05_lc_stmt 4 (fun c i => Ok (c_sse2_load_counters c i)).
Proof. exact c_sse2_load_counters_ok. Qed.
Print Assumptions C05_counters_c_sse2.

Theorem C05_counters_c_sse41_model : forall counter incr,
  Ok (c_sse41_load_counters counter incr) = load_counters_cmp 4 counter incr.
Proof. exact c_sse41_load_counters_model. Qed.
Print Assumptions C05_counters_c_sse41_model.
Theorem C05_counters_c_sse41 : C05_lc_stmt 4 (fun c i => Ok (c_sse41_load_counters c i)).
Proof. exact c_sse41_load_counters_ok. Qed.
Print Assumptions C05_counters_c_sse41.

Theorem C05_counters_c_avx2_model : forall counter incr,
  Ok (c_avx2_load_counters counter incr) = load_counters_cmp 8 counter incr.
Proof. exact c_avx2_load_counters_model. Qed.
Print Assumptions C05_counters_c_avx2_model.
Theorem C05_counters_c_avx2 : C05_lc_stmt 8 (fun c i => Ok (c_avx2_load_counters c i)).
Proof. exact c_avx2_load_counters_ok. Qed.
Print Assumptions C05_counters_c_avx2.

Theorem C05_counters_c_avx512_4_model : forall counter incr, counter < 2 ^ 64 ->
  Ok (c_avx512_load_counters4 counter incr) = load_counters_64 4 counter incr.
Proof. exact c_avx512_load_counters4_model. Qed.
Print Assumptions C05_counters_c_avx512_4_model.
Theorem C05_counters_c_avx512_4 : C05_lc_stmt 4 (fun c i => Ok (c_avx512_load_counters4 c i)).
Proof. exact c_avx512_load_counters4_ok. Qed.
Print Assumptions C05_counters_c_avx512_4.

Theorem C05_counters_c_avx512_8_model : forall counter incr, counter < 2 ^ 64 ->
  Ok (c_avx512_load_counters8 counter incr) = load_counters_64 8 counter incr.
Proof. exact c_avx512_load_counters8_model. Qed.
Print Assumptions C05_counters_c_avx512_8_model.
Theorem C05_counters_c_avx512_8 : C05_lc_stmt 8 (fun c i => Ok (c_avx512_load_counters8 c i)).
Proof. exact c_avx512_load_counters8_ok. Qed.
Print Assumptions C05_counters_c_avx512_8.

Theorem C05_counters_c_avx512_16_model : forall counter incr,
  Ok (c_avx512_load_counters16 counter incr) = load_counters_andnot 16 counter incr.
Proof. exact c_avx512_load_counters16_model. Qed.
Print Assumptions C05_counters_c_avx512_16_model.
Theorem C05_counters_c_avx512_16 : C05_lc_stmt 16 (fun c i => Ok (c_avx512_load_counters16 c i)).
Proof. exact c_avx512_load_counters16_ok. Qed.
Print Assumptions C05_counters_c_avx512_16.

(* Rust: equality with the model includes the debug-build overflow panic of `counter + (mask & i)` *)
Theorem C05_counters_rs_sse2_model : forall counter incr,
  rs_sse2_load_counters counter incr = load_counters_rs 4 counter incr.
Proof. exact rs_sse2_load_counters_model. Qed.
Print Assumptions C05_counters_rs_sse2_model.
Theorem C05_counters_rs_sse2 : C05_lc_stmt 4 rs_sse2_load_counters.
Proof. exact rs_sse2_load_counters_ok. Qed.
Print Assumptions C05_counters_rs_sse2.

Theorem C05_counters_rs_sse41_model : forall counter incr,
  rs_sse41_load_counters counter incr = load_counters_rs 4 counter incr.
Proof. exact rs_sse41_load_counters_model. Qed.
Print Assumptions C05_counters_rs_sse41_model.
Theorem C05_counters_rs_sse41 : C05_lc_stmt 4 rs_sse41_load_counters.
Proof. exact rs_sse41_load_counters_ok. Qed.
Print Assumptions C05_counters_rs_sse41.

Theorem C05_counters_rs_avx2_model : forall counter incr,
  rs_avx2_load_counters counter incr = load_counters_rs 8 counter incr.
Proof. exact rs_avx2_load_counters_model. Qed.
Print Assumptions C05_counters_rs_avx2_model.
Theorem C05_counters_rs_avx2 : C05_lc_stmt 8 rs_avx2_load_counters.
Proof. exact rs_avx2_load_counters_ok. Qed.
Print Assumptions C05_counters_rs_avx2.

(* ------------------------------------------------------------------------------------------
   The portable compression function itself: TRANSLATED source against the hand-written model.
   gen/GenPortable.v is regenerated from the repository on every run by tools/gen_coq.py
   (gen_portable): src/portable.rs fn g / round / compress_pre / compress_in_place / compress_xof,
   the two byte<->word conversions of src/platform.rs they call, and c/blake3_portable.c rotr32 /
   g / round_fn / compress_pre / blake3_compress_in_place_portable / blake3_compress_xof_portable
   (with counter_low / counter_high of c/blake3_impl.h), statement by statement: order, array
   indices and rotation constants are the source's.  Each translated function equals the function
   of Model/Portable.v that every other proof builds on, for ALL words (state and message of 16
   words, chaining value of 8, block of 64 bytes, any counter / block_len / flags).
   Primitives taken as given (Base/Word.v, Base/Arr.v): u32 wrapping_add / C uint32_t `+` = add32,
   `^` = xor32, rotate_right = rotr32, u32::from_le_bytes / load32 = little-endian load,
   to_le_bytes / store32 = bytes_of_word, array read / write / slice. *)
From V Require Import Base.Arr gen.GenPortable Proofs.GenPortableP.

(* fn g works in place on state[a], state[b], state[c], state[d]; the model's g maps four words to
   four words: the translated statements equal the model's results written back at a, b, c, d *)
Theorem C05_portable_rs_g : forall s a b c d x y,
  (a < length s)%nat -> (b < length s)%nat -> (c < length s)%nat -> (d < length s)%nat ->
  a <> b -> a <> c -> a <> d -> b <> c -> b <> d -> c <> d ->
  rs_g s a b c d x y =
  (let '(a', b', c', d') := Portable.g (arr_get s a) (arr_get s b) (arr_get s c) (arr_get s d) x y in
   arr_set (arr_set (arr_set (arr_set s a a') b b') c c') d d').
Proof. exact rs_g_model. Qed.
Print Assumptions C05_portable_rs_g.
Theorem C05_portable_rs_round : forall s msg r, length s = 16%nat ->
  rs_round s msg r = Portable.round s msg r.
Proof. exact rs_round_eq. Qed.
Print Assumptions C05_portable_rs_round.
Theorem C05_portable_rs_words_from_le_bytes_64 : forall bytes, length bytes = 64%nat ->
  rs_words_from_le_bytes_64 bytes = words_of_bytes bytes.
Proof. exact rs_words_from_le_bytes_64_eq. Qed.
Print Assumptions C05_portable_rs_words_from_le_bytes_64.
Theorem C05_portable_rs_le_bytes_from_words_64 : forall words, length words = 16%nat ->
  rs_le_bytes_from_words_64 words = bytes_of_words words.
Proof. exact rs_le_bytes_from_words_64_eq. Qed.
Print Assumptions C05_portable_rs_le_bytes_from_words_64.
Theorem C05_portable_rs_compress_pre : forall cv block block_len counter flags,
  length cv = 8%nat -> length block = 64%nat ->
  rs_compress_pre cv block block_len counter flags = Portable.compress_pre cv block block_len counter flags.
Proof. exact rs_compress_pre_eq. Qed.
Print Assumptions C05_portable_rs_compress_pre.
Theorem C05_portable_rs_compress_in_place : forall cv block block_len counter flags,
  length cv = 8%nat -> length block = 64%nat ->
  rs_compress_in_place cv block block_len counter flags = Portable.compress_in_place cv block block_len counter flags.
Proof. exact rs_compress_in_place_eq. Qed.
Print Assumptions C05_portable_rs_compress_in_place.
Theorem C05_portable_rs_compress_xof : forall cv block block_len counter flags,
  length cv = 8%nat -> length block = 64%nat ->
  rs_compress_xof cv block block_len counter flags = Portable.compress_xof cv block block_len counter flags.
Proof. exact rs_compress_xof_eq. Qed.
Print Assumptions C05_portable_rs_compress_xof.

(* c/blake3_portable.c.  rotr32 is translated with C's shift rules (a shift by the full width is an
   error): for the amounts 1..31 it is the rotation; g calls it with 16, 12, 8, 7 *)
Theorem C05_portable_c_rotr32 : forall w c, 0 < c -> c < 32 -> c_rotr32 w c = Ok (rotr32 w c).
Proof. exact c_rotr32_ok. Qed.
Print Assumptions C05_portable_c_rotr32.
Theorem C05_portable_c_g : forall s a b c d x y,
  (a < length s)%nat -> (b < length s)%nat -> (c < length s)%nat -> (d < length s)%nat ->
  a <> b -> a <> c -> a <> d -> b <> c -> b <> d -> c <> d ->
  c_g s a b c d x y =
  (let '(a', b', c', d') := Portable.g (arr_get s a) (arr_get s b) (arr_get s c) (arr_get s d) x y in
   arr_set (arr_set (arr_set (arr_set s a a') b b') c c') d d').
Proof. exact c_g_model. Qed.
Print Assumptions C05_portable_c_g.
Theorem C05_portable_c_round_fn : forall s msg r, length s = 16%nat ->
  c_round_fn s msg r = Portable.round s msg r.
Proof. exact c_round_fn_eq. Qed.
Print Assumptions C05_portable_c_round_fn.
(* `state` is an out-parameter (an uninitialised local of the callers): any previous contents *)
Theorem C05_portable_c_compress_pre : forall state cv block block_len counter flags,
  length state = 16%nat -> length cv = 8%nat -> length block = 64%nat ->
  c_compress_pre state cv block block_len counter flags = Portable.compress_pre cv block block_len counter flags.
Proof. exact c_compress_pre_eq. Qed.
Print Assumptions C05_portable_c_compress_pre.
Theorem C05_portable_c_compress_in_place : forall cv block block_len counter flags,
  length cv = 8%nat -> length block = 64%nat ->
  c_blake3_compress_in_place_portable cv block block_len counter flags =
  Portable.compress_in_place cv block block_len counter flags.
Proof. exact c_compress_in_place_eq. Qed.
Print Assumptions C05_portable_c_compress_in_place.
(* the 64 output bytes go to the caller's buffer `out`, whatever it held *)
Theorem C05_portable_c_compress_xof : forall cv block block_len counter flags out,
  length cv = 8%nat -> length block = 64%nat -> length out = 64%nat ->
  c_blake3_compress_xof_portable cv block block_len counter flags out =
  Portable.compress_xof cv block block_len counter flags.
Proof. exact c_compress_xof_eq. Qed.
Print Assumptions C05_portable_c_compress_xof.


(* ------------------------------------------------------------------ *)
(* The vector round and the register transposes as TRANSLATED from the sources.  gen/GenRounds.v is
   regenerated on every run (tools/gen_coq.py gen_kernel_rounds) from the text of
     fn round + add, xor, rot16, rot12, rot8, rot7, fn transpose_vecs (+ interleave128)
        of src/rust_sse2.rs, src/rust_sse41.rs, src/rust_avx2.rs,
     round_fn + addv, xorv, rot16, rot12, rot8, rot7, transpose_vecs
        of c/blake3_sse2.c, c/blake3_sse41.c, c/blake3_avx2.c,
     round_fn4/8/16 + add_*, xor_*, rot*_128/256/512, transpose_vecs_128/256/512 (+ unpack_lo_128, unpack_hi_128)
        of c/blake3_avx512.c,
   statement by statement (112 statements per round, in source order, every index from the text), as terms over
   the intrinsic semantics of Model/Intrinsics.v.  Each translated round equals `vround`, each translated transpose
   equals `transpose_vecs_128/256/512` -- the hand-written models that C05_vround_lane, C05_transpose_*,
   C05_hash* above are about.  Registers, message vectors and the round number are variables.
   The Rust files (rot = srli/slli/or) and blake3_avx512.c (rot = ror_epi32): for all lists.
   blake3_sse2.c (rot16 = shufflelo/shufflehi 0xB1, others srli/slli/XOR), blake3_sse41.c and blake3_avx2.c
   (rot16, rot8 = shuffle_epi8 with a constant): for registers of 32-bit lanes, C05_reg.
   Also translated (further down): transpose_msg_vecs* and one iteration of the `for block` loop of hashN. *)
From V Require Import gen.GenRounds Proofs.RoundsP.

Definition C05_reg (n : nat) (x : vec) : Prop := length x = n /\ Forall (fun w => w < 2 ^ 32) x.

Theorem C05_round_rs_sse2_round : forall v m r, rs_sse2_round v m r = vround v m r.
Proof. exact rs_sse2_round_ok. Qed.
Print Assumptions C05_round_rs_sse2_round.
Theorem C05_round_rs_sse41_round : forall v m r, rs_sse41_round v m r = vround v m r.
Proof. exact rs_sse41_round_ok. Qed.
Print Assumptions C05_round_rs_sse41_round.
Theorem C05_round_rs_avx2_round : forall v m r, rs_avx2_round v m r = vround v m r.
Proof. exact rs_avx2_round_ok. Qed.
Print Assumptions C05_round_rs_avx2_round.
Theorem C05_round_c_avx512_round_fn4 : forall v m r, c_avx512_round_fn4 v m r = vround v m r.
Proof. exact c_avx512_round_fn4_ok. Qed.
Print Assumptions C05_round_c_avx512_round_fn4.
Theorem C05_round_c_avx512_round_fn8 : forall v m r, c_avx512_round_fn8 v m r = vround v m r.
Proof. exact c_avx512_round_fn8_ok. Qed.
Print Assumptions C05_round_c_avx512_round_fn8.
Theorem C05_round_c_avx512_round_fn16 : forall v m r, c_avx512_round_fn16 v m r = vround v m r.
Proof. exact c_avx512_round_fn16_ok. Qed.
Print Assumptions C05_round_c_avx512_round_fn16.

Theorem C05_round_c_sse2_round_fn : forall v m r, Forall (C05_reg 4) v -> Forall (C05_reg 4) m ->
  c_sse2_round_fn v m r = vround v m r.
Proof. exact c_sse2_round_fn_ok. Qed.
Print Assumptions C05_round_c_sse2_round_fn.
(* its rotations: byte / 16-bit shuffles and shift pairs are the lane-wise rotr *)
Theorem C05_rots_c_sse2 : forall x, C05_reg 4 x ->
  c_sse2_rot16 x = vrot x 16 /\ c_sse2_rot12 x = vrot x 12 /\ c_sse2_rot8 x = vrot x 8 /\ c_sse2_rot7 x = vrot x 7.
Proof. exact c_sse2_rots_ok. Qed.
Print Assumptions C05_rots_c_sse2.
Theorem C05_round_c_sse41_round_fn : forall v m r, Forall (C05_reg 4) v -> Forall (C05_reg 4) m ->
  c_sse41_round_fn v m r = vround v m r.
Proof. exact c_sse41_round_fn_ok. Qed.
Print Assumptions C05_round_c_sse41_round_fn.
(* its rotations: byte / 16-bit shuffles and shift pairs are the lane-wise rotr *)
Theorem C05_rots_c_sse41 : forall x, C05_reg 4 x ->
  c_sse41_rot16 x = vrot x 16 /\ c_sse41_rot12 x = vrot x 12 /\ c_sse41_rot8 x = vrot x 8 /\ c_sse41_rot7 x = vrot x 7.
Proof. exact c_sse41_rots_ok. Qed.
Print Assumptions C05_rots_c_sse41.
Theorem C05_round_c_avx2_round_fn : forall v m r, Forall (C05_reg 8) v -> Forall (C05_reg 8) m ->
  c_avx2_round_fn v m r = vround v m r.
Proof. exact c_avx2_round_fn_ok. Qed.
Print Assumptions C05_round_c_avx2_round_fn.
(* its rotations: byte / 16-bit shuffles and shift pairs are the lane-wise rotr *)
Theorem C05_rots_c_avx2 : forall x, C05_reg 8 x ->
  c_avx2_rot16 x = vrot x 16 /\ c_avx2_rot12 x = vrot x 12 /\ c_avx2_rot8 x = vrot x 8 /\ c_avx2_rot7 x = vrot x 7.
Proof. exact c_avx2_rots_ok. Qed.
Print Assumptions C05_rots_c_avx2.

(* the model round maps 16 registers to 16 registers, so the equalities above chain over the seven rounds *)
Theorem C05_vround_reg : forall n v m r, length v = 16%nat -> length m = 16%nat -> (r < 7)%nat ->
  Forall (C05_reg n) v -> Forall (C05_reg n) m -> Forall (C05_reg n) (vround v m r).
Proof. exact vround_reg. Qed.
Print Assumptions C05_vround_reg.

(* the transposes: the translated unpack / permute sequences are the model sequences *)
Theorem C05_rs_sse2_transpose_vecs : forall vecs, rs_sse2_transpose_vecs vecs = transpose_vecs_128 0 vecs.
Proof. exact rs_sse2_transpose_vecs_ok. Qed.
Print Assumptions C05_rs_sse2_transpose_vecs.
Theorem C05_rs_sse41_transpose_vecs : forall vecs, rs_sse41_transpose_vecs vecs = transpose_vecs_128 0 vecs.
Proof. exact rs_sse41_transpose_vecs_ok. Qed.
Print Assumptions C05_rs_sse41_transpose_vecs.
Theorem C05_rs_avx2_transpose_vecs : forall vecs, rs_avx2_transpose_vecs vecs = transpose_vecs_256 0 vecs.
Proof. exact rs_avx2_transpose_vecs_ok. Qed.
Print Assumptions C05_rs_avx2_transpose_vecs.
Theorem C05_c_sse2_transpose_vecs : forall vecs, c_sse2_transpose_vecs vecs = transpose_vecs_128 0 vecs.
Proof. exact c_sse2_transpose_vecs_ok. Qed.
Print Assumptions C05_c_sse2_transpose_vecs.
Theorem C05_c_sse41_transpose_vecs : forall vecs, c_sse41_transpose_vecs vecs = transpose_vecs_128 0 vecs.
Proof. exact c_sse41_transpose_vecs_ok. Qed.
Print Assumptions C05_c_sse41_transpose_vecs.
Theorem C05_c_avx2_transpose_vecs : forall vecs, c_avx2_transpose_vecs vecs = transpose_vecs_256 0 vecs.
Proof. exact c_avx2_transpose_vecs_ok. Qed.
Print Assumptions C05_c_avx2_transpose_vecs.
Theorem C05_c_avx512_transpose_vecs_128 : forall vecs, c_avx512_transpose_vecs_128 vecs = transpose_vecs_128 0 vecs.
Proof. exact c_avx512_transpose_vecs_128_ok. Qed.
Print Assumptions C05_c_avx512_transpose_vecs_128.
Theorem C05_c_avx512_transpose_vecs_256 : forall vecs, c_avx512_transpose_vecs_256 vecs = transpose_vecs_256 0 vecs.
Proof. exact c_avx512_transpose_vecs_256_ok. Qed.
Print Assumptions C05_c_avx512_transpose_vecs_256.
Theorem C05_c_avx512_transpose_vecs_512 : forall vecs, c_avx512_transpose_vecs_512 vecs = transpose_vecs_512 0 vecs.
Proof. exact c_avx512_transpose_vecs_512_ok. Qed.
Print Assumptions C05_c_avx512_transpose_vecs_512.

(* transpose_msg_vecs*: the 16 unaligned loads (a pointer `&inputs[i][off]` / `inputs[i].add(off)` is the pair
   (i-th input, offset), _mm*_loadu_si* reads 16/32/64 bytes little-endian) and the transposes of the n x n squares,
   translated, equal the model transpose_msg_vecs4/8/16 (C05_transpose_msg above: lane i holds block i's words) *)
Theorem C05_rs_sse2_transpose_msg_vecs : forall inputs off, rs_sse2_transpose_msg_vecs inputs off = transpose_msg_vecs4 inputs off.
Proof. exact rs_sse2_transpose_msg_vecs_ok. Qed.
Print Assumptions C05_rs_sse2_transpose_msg_vecs.
Theorem C05_rs_sse41_transpose_msg_vecs : forall inputs off, rs_sse41_transpose_msg_vecs inputs off = transpose_msg_vecs4 inputs off.
Proof. exact rs_sse41_transpose_msg_vecs_ok. Qed.
Print Assumptions C05_rs_sse41_transpose_msg_vecs.
Theorem C05_rs_avx2_transpose_msg_vecs : forall inputs off, rs_avx2_transpose_msg_vecs inputs off = transpose_msg_vecs8 inputs off.
Proof. exact rs_avx2_transpose_msg_vecs_ok. Qed.
Print Assumptions C05_rs_avx2_transpose_msg_vecs.
Theorem C05_c_sse2_transpose_msg_vecs : forall inputs off, c_sse2_transpose_msg_vecs inputs off = transpose_msg_vecs4 inputs off.
Proof. exact c_sse2_transpose_msg_vecs_ok. Qed.
Print Assumptions C05_c_sse2_transpose_msg_vecs.
Theorem C05_c_sse41_transpose_msg_vecs : forall inputs off, c_sse41_transpose_msg_vecs inputs off = transpose_msg_vecs4 inputs off.
Proof. exact c_sse41_transpose_msg_vecs_ok. Qed.
Print Assumptions C05_c_sse41_transpose_msg_vecs.
Theorem C05_c_avx2_transpose_msg_vecs : forall inputs off, c_avx2_transpose_msg_vecs inputs off = transpose_msg_vecs8 inputs off.
Proof. exact c_avx2_transpose_msg_vecs_ok. Qed.
Print Assumptions C05_c_avx2_transpose_msg_vecs.
Theorem C05_c_avx512_transpose_msg_vecs4 : forall inputs off, c_avx512_transpose_msg_vecs4 inputs off = transpose_msg_vecs4 inputs off.
Proof. exact c_avx512_transpose_msg_vecs4_ok. Qed.
Print Assumptions C05_c_avx512_transpose_msg_vecs4.
Theorem C05_c_avx512_transpose_msg_vecs8 : forall inputs off, c_avx512_transpose_msg_vecs8 inputs off = transpose_msg_vecs8 inputs off.
Proof. exact c_avx512_transpose_msg_vecs8_ok. Qed.
Print Assumptions C05_c_avx512_transpose_msg_vecs8.
Theorem C05_c_avx512_transpose_msg_vecs16 : forall inputs off, c_avx512_transpose_msg_vecs16 inputs off = transpose_msg_vecs16 inputs off.
Proof. exact c_avx512_transpose_msg_vecs16_ok. Qed.
Print Assumptions C05_c_avx512_transpose_msg_vecs16.

(* one iteration of the `for block` loop of hash4 / hash8 / hash16 (set1 of the block length and flags, the message
   vectors of block number `block`, the 16-vector state h_vecs ++ IV[0..3] ++ counters ++ len ++ flags, seven calls of
   the round, the eight feed-forward xors), translated from the loop body, equals the model `vcompress` that
   hashN_loop iterates.  The `if block + 1 == blocks { block_flags |= flags_end }` prologue and the
   `block_flags = flags` epilogue are recognised by the translator and remain the hand-written hashN_loop. *)
Theorem C05_block_rs_sse2_hash4 : forall h clo chi bf inputs block, length h = 8%nat -> bf < 2 ^ 32 ->
  rs_sse2_hash4_block h clo chi bf inputs block =
  vcompress 4 h (transpose_msg_vecs4 inputs (block * 64)) clo chi rs_BLOCK_LEN bf.
Proof. exact rs_sse2_hash4_block_ok. Qed.
Print Assumptions C05_block_rs_sse2_hash4.
Theorem C05_block_rs_sse41_hash4 : forall h clo chi bf inputs block, length h = 8%nat -> bf < 2 ^ 32 ->
  rs_sse41_hash4_block h clo chi bf inputs block =
  vcompress 4 h (transpose_msg_vecs4 inputs (block * 64)) clo chi rs_BLOCK_LEN bf.
Proof. exact rs_sse41_hash4_block_ok. Qed.
Print Assumptions C05_block_rs_sse41_hash4.
Theorem C05_block_rs_avx2_hash8 : forall h clo chi bf inputs block, length h = 8%nat -> bf < 2 ^ 32 ->
  rs_avx2_hash8_block h clo chi bf inputs block =
  vcompress 8 h (transpose_msg_vecs8 inputs (block * 64)) clo chi rs_BLOCK_LEN bf.
Proof. exact rs_avx2_hash8_block_ok. Qed.
Print Assumptions C05_block_rs_avx2_hash8.
Theorem C05_block_c_avx512_blake3_hash4_avx512 : forall h clo chi bf inputs block, length h = 8%nat -> bf < 2 ^ 32 ->
  c_avx512_blake3_hash4_avx512_block h clo chi bf inputs block =
  vcompress 4 h (transpose_msg_vecs4 inputs (block * 64)) clo chi rs_BLOCK_LEN bf.
Proof. exact c_avx512_blake3_hash4_avx512_block_ok. Qed.
Print Assumptions C05_block_c_avx512_blake3_hash4_avx512.
Theorem C05_block_c_avx512_blake3_hash8_avx512 : forall h clo chi bf inputs block, length h = 8%nat -> bf < 2 ^ 32 ->
  c_avx512_blake3_hash8_avx512_block h clo chi bf inputs block =
  vcompress 8 h (transpose_msg_vecs8 inputs (block * 64)) clo chi rs_BLOCK_LEN bf.
Proof. exact c_avx512_blake3_hash8_avx512_block_ok. Qed.
Print Assumptions C05_block_c_avx512_blake3_hash8_avx512.
Theorem C05_block_c_avx512_blake3_hash16_avx512 : forall h clo chi bf inputs block, length h = 8%nat -> bf < 2 ^ 32 ->
  c_avx512_blake3_hash16_avx512_block h clo chi bf inputs block =
  vcompress 16 h (transpose_msg_vecs16 inputs (block * 64)) clo chi rs_BLOCK_LEN bf.
Proof. exact c_avx512_blake3_hash16_avx512_block_ok. Qed.
Print Assumptions C05_block_c_avx512_blake3_hash16_avx512.
(* blake3_sse2.c, blake3_sse41.c, blake3_avx2.c: for registers of 32-bit lanes and inputs that are byte strings
   holding the block *)
Theorem C05_block_c_sse2_blake3_hash4_sse2 : forall h clo chi bf inputs block,
  length h = 8%nat -> Forall (C05_reg 4) h -> C05_reg 4 clo -> C05_reg 4 chi -> bf < 2 ^ 32 ->
  (forall j, (j < 4)%nat -> (block * 64 + 64 <= length (inp inputs j))%nat) ->
  (forall j, (j < 4)%nat -> Forall (fun b => b < 256) (inp inputs j)) ->
  c_sse2_blake3_hash4_sse2_block h clo chi bf inputs block =
  vcompress 4 h (transpose_msg_vecs4 inputs (block * 64)) clo chi rs_BLOCK_LEN bf.
Proof. exact c_sse2_blake3_hash4_sse2_block_ok. Qed.
Print Assumptions C05_block_c_sse2_blake3_hash4_sse2.
Theorem C05_block_c_sse41_blake3_hash4_sse41 : forall h clo chi bf inputs block,
  length h = 8%nat -> Forall (C05_reg 4) h -> C05_reg 4 clo -> C05_reg 4 chi -> bf < 2 ^ 32 ->
  (forall j, (j < 4)%nat -> (block * 64 + 64 <= length (inp inputs j))%nat) ->
  (forall j, (j < 4)%nat -> Forall (fun b => b < 256) (inp inputs j)) ->
  c_sse41_blake3_hash4_sse41_block h clo chi bf inputs block =
  vcompress 4 h (transpose_msg_vecs4 inputs (block * 64)) clo chi rs_BLOCK_LEN bf.
Proof. exact c_sse41_blake3_hash4_sse41_block_ok. Qed.
Print Assumptions C05_block_c_sse41_blake3_hash4_sse41.
Theorem C05_block_c_avx2_blake3_hash8_avx2 : forall h clo chi bf inputs block,
  length h = 8%nat -> Forall (C05_reg 8) h -> C05_reg 8 clo -> C05_reg 8 chi -> bf < 2 ^ 32 ->
  (forall j, (j < 8)%nat -> (block * 64 + 64 <= length (inp inputs j))%nat) ->
  (forall j, (j < 8)%nat -> Forall (fun b => b < 256) (inp inputs j)) ->
  c_avx2_blake3_hash8_avx2_block h clo chi bf inputs block =
  vcompress 8 h (transpose_msg_vecs8 inputs (block * 64)) clo chi rs_BLOCK_LEN bf.
Proof. exact c_avx2_blake3_hash8_avx2_block_ok. Qed.
Print Assumptions C05_block_c_avx2_blake3_hash8_avx2.

(* The row-vectorised single-block compression, TRANSLATED from the sources (gen/GenRows.v, tools/gen_coq.py
   gen_kernel_rows): g1, g2, diagonalize, undiagonalize, compress_pre (the seven rounds with their message shuffles,
   every immediate from the text), compress_in_place and compress_xof of src/rust_sse41.rs, src/rust_sse2.rs,
   c/blake3_sse2.c, c/blake3_sse41.c and c/blake3_avx512.c, as terms over the intrinsic semantics of Model/Intrinsics.v
   (_mm_shuffle_epi32, _mm_shuffle_ps between the two casts, _mm_blend_epi16 on 16-bit elements, the unpacks,
   _mm_set_epi16 / _mm_set1_epi16 / _mm_cmpeq_epi16 of the SSE2 blend emulation, _mm_loadu_si128 / _mm_storeu_si128 on
   the little-endian memory image of cv, transmute of four registers to 64 bytes).  Each translated function equals the
   hand-written model of Model/Kernels.v section 7 that C05_compress_in_place_rows / C05_compress_xof_rows above are
   about, hence the portable compression.  cv, block, counter, block_len, flags and all registers are variables.
   Domain C05_row_dom: cv is 8 words below 2^32, block is 64 bytes, block_len and flags (u8 / uint8_t in the sources)
   are below 2^32.  g1 / g2 of the Rust files and of blake3_avx512.c: on all lists; of blake3_sse2.c / blake3_sse41.c
   (byte / 16-bit shuffles, shift pairs joined by XOR): on registers of four 32-bit lanes. *)
From V Require Import gen.GenRows Proofs.RowsP.

Definition C05_row_dom (cv block : list N) (bl fl : N) : Prop :=
  length cv = 8%nat /\ Forall (fun w => w < 2 ^ 32) cv /\ length block = 64%nat /\ Forall (fun b => b < 256) block /\
  bl < 2 ^ 32 /\ fl < 2 ^ 32.

(* the intrinsics with the two blend immediates of the sources: lane selection, on registers of 32-bit lanes *)
Theorem C05_mm_blend_epi16_0xCC : forall a b, C05_reg 4 a -> C05_reg 4 b -> mm_blend_epi16 a b 0xCC%Z = blend_epi16 0 a b 0xCC.
Proof. exact blend_cc_ok. Qed.
Print Assumptions C05_mm_blend_epi16_0xCC.
Theorem C05_mm_blend_epi16_0xC0 : forall a b, C05_reg 4 a -> C05_reg 4 b -> mm_blend_epi16 a b 0xC0%Z = blend_epi16 0 a b 0xC0.
Proof. exact blend_c0_ok. Qed.
Print Assumptions C05_mm_blend_epi16_0xC0.
(* the model compress_pre is the statement sequence of the sources (rows and message registers loaded, then
   flat_pre: seven rounds in source order) *)
Theorem C05_compress_pre_rows_flat : forall B (fin : vec -> vec -> vec -> vec -> B) cv block bl ctr fl,
  (let '(a, b, c, d) := compress_pre_rows cv block bl ctr fl in fin a b c d) = flat_compress_pre fin cv block bl ctr fl.
Proof. exact @compress_pre_rows_flat. Qed.
Print Assumptions C05_compress_pre_rows_flat.

(* src/rust_sse41.rs *)
Theorem C05_rs_sse41_g1 : forall a b c d m, rs_sse41_g1 a b c d m = g1r a b c d m.
Proof. exact rs_sse41_g1_ok. Qed.
Print Assumptions C05_rs_sse41_g1.
Theorem C05_rs_sse41_g2 : forall a b c d m, rs_sse41_g2 a b c d m = g2r a b c d m.
Proof. exact rs_sse41_g2_ok. Qed.
Print Assumptions C05_rs_sse41_g2.
Theorem C05_rs_sse41_diagonalize : forall a b c, rs_sse41_diagonalize a b c = diagonalize a b c.
Proof. exact rs_sse41_diagonalize_ok. Qed.
Print Assumptions C05_rs_sse41_diagonalize.
Theorem C05_rs_sse41_undiagonalize : forall a b c, rs_sse41_undiagonalize a b c = undiagonalize a b c.
Proof. exact rs_sse41_undiagonalize_ok. Qed.
Print Assumptions C05_rs_sse41_undiagonalize.
Theorem C05_rs_sse41_compress_pre : forall cv block bl ctr fl, C05_row_dom cv block bl fl ->
  rs_sse41_compress_pre cv block bl ctr fl = Ok (compress_pre_rows cv block bl ctr fl).
Proof. exact rs_sse41_compress_pre_ok. Qed.
Print Assumptions C05_rs_sse41_compress_pre.
Theorem C05_rs_sse41_compress_in_place : forall cv block bl ctr fl, C05_row_dom cv block bl fl ->
  rs_sse41_compress_in_place cv block bl ctr fl = Ok (compress_in_place_rows cv block bl ctr fl).
Proof. exact rs_sse41_compress_in_place_ok. Qed.
Print Assumptions C05_rs_sse41_compress_in_place.
Theorem C05_rs_sse41_compress_xof : forall cv block bl ctr fl, C05_row_dom cv block bl fl ->
  rs_sse41_compress_xof cv block bl ctr fl = Ok (compress_xof_rows cv block bl ctr fl).
Proof. exact rs_sse41_compress_xof_ok. Qed.
Print Assumptions C05_rs_sse41_compress_xof.
Theorem C05_rs_sse41_compress_in_place_portable : forall cv block bl ctr fl, C05_row_dom cv block bl fl ->
  rs_sse41_compress_in_place cv block bl ctr fl = Ok (compress_in_place cv block bl ctr fl).
Proof. exact rs_sse41_compress_in_place_portable. Qed.
Print Assumptions C05_rs_sse41_compress_in_place_portable.
Theorem C05_rs_sse41_compress_xof_portable : forall cv block bl ctr fl, C05_row_dom cv block bl fl ->
  rs_sse41_compress_xof cv block bl ctr fl = Ok (compress_xof cv block bl ctr fl).
Proof. exact rs_sse41_compress_xof_portable. Qed.
Print Assumptions C05_rs_sse41_compress_xof_portable.

(* src/rust_sse2.rs (blend_epi16: _mm_blend_epi16 emulated with and / andnot / or under a cmpeq_epi16 mask) *)
Theorem C05_rs_sse2_g1 : forall a b c d m, rs_sse2_g1 a b c d m = g1r a b c d m.
Proof. exact rs_sse2_g1_ok. Qed.
Print Assumptions C05_rs_sse2_g1.
Theorem C05_rs_sse2_g2 : forall a b c d m, rs_sse2_g2 a b c d m = g2r a b c d m.
Proof. exact rs_sse2_g2_ok. Qed.
Print Assumptions C05_rs_sse2_g2.
Theorem C05_rs_sse2_diagonalize : forall a b c, rs_sse2_diagonalize a b c = diagonalize a b c.
Proof. exact rs_sse2_diagonalize_ok. Qed.
Print Assumptions C05_rs_sse2_diagonalize.
Theorem C05_rs_sse2_undiagonalize : forall a b c, rs_sse2_undiagonalize a b c = undiagonalize a b c.
Proof. exact rs_sse2_undiagonalize_ok. Qed.
Print Assumptions C05_rs_sse2_undiagonalize.
Theorem C05_rs_sse2_blend_epi16_0xCC : forall a b, C05_reg 4 a -> C05_reg 4 b -> rs_sse2_blend_epi16 a b 0xCC%Z = blend_epi16 0 a b 0xCC.
Proof. exact rs_sse2_blend_cc_ok. Qed.
Print Assumptions C05_rs_sse2_blend_epi16_0xCC.
Theorem C05_rs_sse2_blend_epi16_0xC0 : forall a b, C05_reg 4 a -> C05_reg 4 b -> rs_sse2_blend_epi16 a b 0xC0%Z = blend_epi16 0 a b 0xC0.
Proof. exact rs_sse2_blend_c0_ok. Qed.
Print Assumptions C05_rs_sse2_blend_epi16_0xC0.
Theorem C05_rs_sse2_compress_pre : forall cv block bl ctr fl, C05_row_dom cv block bl fl ->
  rs_sse2_compress_pre cv block bl ctr fl = Ok (compress_pre_rows cv block bl ctr fl).
Proof. exact rs_sse2_compress_pre_ok. Qed.
Print Assumptions C05_rs_sse2_compress_pre.
Theorem C05_rs_sse2_compress_in_place : forall cv block bl ctr fl, C05_row_dom cv block bl fl ->
  rs_sse2_compress_in_place cv block bl ctr fl = Ok (compress_in_place_rows cv block bl ctr fl).
Proof. exact rs_sse2_compress_in_place_ok. Qed.
Print Assumptions C05_rs_sse2_compress_in_place.
Theorem C05_rs_sse2_compress_xof : forall cv block bl ctr fl, C05_row_dom cv block bl fl ->
  rs_sse2_compress_xof cv block bl ctr fl = Ok (compress_xof_rows cv block bl ctr fl).
Proof. exact rs_sse2_compress_xof_ok. Qed.
Print Assumptions C05_rs_sse2_compress_xof.
Theorem C05_rs_sse2_compress_in_place_portable : forall cv block bl ctr fl, C05_row_dom cv block bl fl ->
  rs_sse2_compress_in_place cv block bl ctr fl = Ok (compress_in_place cv block bl ctr fl).
Proof. exact rs_sse2_compress_in_place_portable. Qed.
Print Assumptions C05_rs_sse2_compress_in_place_portable.
Theorem C05_rs_sse2_compress_xof_portable : forall cv block bl ctr fl, C05_row_dom cv block bl fl ->
  rs_sse2_compress_xof cv block bl ctr fl = Ok (compress_xof cv block bl ctr fl).
Proof. exact rs_sse2_compress_xof_portable. Qed.
Print Assumptions C05_rs_sse2_compress_xof_portable.

(* c/blake3_avx512.c (the 128-bit compress_pre; rotations by _mm_ror_epi32) *)
Theorem C05_c_avx512_g1 : forall a b c d m, c_avx512_g1 a b c d m = g1r a b c d m.
Proof. exact c_avx512_g1_ok. Qed.
Print Assumptions C05_c_avx512_g1.
Theorem C05_c_avx512_g2 : forall a b c d m, c_avx512_g2 a b c d m = g2r a b c d m.
Proof. exact c_avx512_g2_ok. Qed.
Print Assumptions C05_c_avx512_g2.
Theorem C05_c_avx512_diagonalize : forall a b c, c_avx512_diagonalize a b c = diagonalize a b c.
Proof. exact c_avx512_diagonalize_ok. Qed.
Print Assumptions C05_c_avx512_diagonalize.
Theorem C05_c_avx512_undiagonalize : forall a b c, c_avx512_undiagonalize a b c = undiagonalize a b c.
Proof. exact c_avx512_undiagonalize_ok. Qed.
Print Assumptions C05_c_avx512_undiagonalize.
Theorem C05_c_avx512_compress_pre : forall cv block bl ctr fl, C05_row_dom cv block bl fl ->
  c_avx512_compress_pre cv block bl ctr fl = compress_pre_rows cv block bl ctr fl.
Proof. exact c_avx512_compress_pre_ok. Qed.
Print Assumptions C05_c_avx512_compress_pre.
Theorem C05_c_avx512_blake3_compress_in_place_avx512 : forall cv block bl ctr fl, C05_row_dom cv block bl fl ->
  c_avx512_blake3_compress_in_place_avx512 cv block bl ctr fl = compress_in_place_rows cv block bl ctr fl.
Proof. exact c_avx512_blake3_compress_in_place_avx512_ok. Qed.
Print Assumptions C05_c_avx512_blake3_compress_in_place_avx512.
(* `out`: the 64 bytes the caller passes; all of them are overwritten *)
Theorem C05_c_avx512_blake3_compress_xof_avx512 : forall cv block bl ctr fl out, C05_row_dom cv block bl fl -> length out = 64%nat ->
  c_avx512_blake3_compress_xof_avx512 cv block bl ctr fl out = compress_xof_rows cv block bl ctr fl.
Proof. exact c_avx512_blake3_compress_xof_avx512_ok. Qed.
Print Assumptions C05_c_avx512_blake3_compress_xof_avx512.
Theorem C05_c_avx512_blake3_compress_in_place_avx512_portable : forall cv block bl ctr fl, C05_row_dom cv block bl fl ->
  c_avx512_blake3_compress_in_place_avx512 cv block bl ctr fl = compress_in_place cv block bl ctr fl.
Proof. exact c_avx512_compress_in_place_portable. Qed.
Print Assumptions C05_c_avx512_blake3_compress_in_place_avx512_portable.
Theorem C05_c_avx512_blake3_compress_xof_avx512_portable : forall cv block bl ctr fl out, C05_row_dom cv block bl fl -> length out = 64%nat ->
  c_avx512_blake3_compress_xof_avx512 cv block bl ctr fl out = compress_xof cv block bl ctr fl.
Proof. exact c_avx512_compress_xof_portable. Qed.
Print Assumptions C05_c_avx512_blake3_compress_xof_avx512_portable.

(* c/blake3_sse41.c *)
Theorem C05_c_sse41_g1 : forall a b c d m, C05_reg 4 a -> C05_reg 4 b -> C05_reg 4 c -> C05_reg 4 d -> C05_reg 4 m ->
  c_sse41_g1 a b c d m = g1r a b c d m.
Proof. exact c_sse41_g1_ok. Qed.
Print Assumptions C05_c_sse41_g1.
Theorem C05_c_sse41_g2 : forall a b c d m, C05_reg 4 a -> C05_reg 4 b -> C05_reg 4 c -> C05_reg 4 d -> C05_reg 4 m ->
  c_sse41_g2 a b c d m = g2r a b c d m.
Proof. exact c_sse41_g2_ok. Qed.
Print Assumptions C05_c_sse41_g2.
Theorem C05_c_sse41_diagonalize : forall a b c, c_sse41_diagonalize a b c = diagonalize a b c.
Proof. exact c_sse41_diagonalize_ok. Qed.
Print Assumptions C05_c_sse41_diagonalize.
Theorem C05_c_sse41_undiagonalize : forall a b c, c_sse41_undiagonalize a b c = undiagonalize a b c.
Proof. exact c_sse41_undiagonalize_ok. Qed.
Print Assumptions C05_c_sse41_undiagonalize.
Theorem C05_c_sse41_compress_pre : forall cv block bl ctr fl, C05_row_dom cv block bl fl ->
  c_sse41_compress_pre cv block bl ctr fl = compress_pre_rows cv block bl ctr fl.
Proof. exact c_sse41_compress_pre_ok. Qed.
Print Assumptions C05_c_sse41_compress_pre.
Theorem C05_c_sse41_blake3_compress_in_place_sse41 : forall cv block bl ctr fl, C05_row_dom cv block bl fl ->
  c_sse41_blake3_compress_in_place_sse41 cv block bl ctr fl = compress_in_place_rows cv block bl ctr fl.
Proof. exact c_sse41_blake3_compress_in_place_sse41_ok. Qed.
Print Assumptions C05_c_sse41_blake3_compress_in_place_sse41.
(* `out`: the 64 bytes the caller passes; all of them are overwritten *)
Theorem C05_c_sse41_blake3_compress_xof_sse41 : forall cv block bl ctr fl out, C05_row_dom cv block bl fl -> length out = 64%nat ->
  c_sse41_blake3_compress_xof_sse41 cv block bl ctr fl out = compress_xof_rows cv block bl ctr fl.
Proof. exact c_sse41_blake3_compress_xof_sse41_ok. Qed.
Print Assumptions C05_c_sse41_blake3_compress_xof_sse41.
Theorem C05_c_sse41_blake3_compress_in_place_sse41_portable : forall cv block bl ctr fl, C05_row_dom cv block bl fl ->
  c_sse41_blake3_compress_in_place_sse41 cv block bl ctr fl = compress_in_place cv block bl ctr fl.
Proof. exact c_sse41_compress_in_place_portable. Qed.
Print Assumptions C05_c_sse41_blake3_compress_in_place_sse41_portable.
Theorem C05_c_sse41_blake3_compress_xof_sse41_portable : forall cv block bl ctr fl out, C05_row_dom cv block bl fl -> length out = 64%nat ->
  c_sse41_blake3_compress_xof_sse41 cv block bl ctr fl out = compress_xof cv block bl ctr fl.
Proof. exact c_sse41_compress_xof_portable. Qed.
Print Assumptions C05_c_sse41_blake3_compress_xof_sse41_portable.

(* c/blake3_sse2.c (blend_epi16 as in rust_sse2.rs; the int16_t parameter receives (int16_t)0xCC) *)
Theorem C05_c_sse2_g1 : forall a b c d m, C05_reg 4 a -> C05_reg 4 b -> C05_reg 4 c -> C05_reg 4 d -> C05_reg 4 m ->
  c_sse2_g1 a b c d m = g1r a b c d m.
Proof. exact c_sse2_g1_ok. Qed.
Print Assumptions C05_c_sse2_g1.
Theorem C05_c_sse2_g2 : forall a b c d m, C05_reg 4 a -> C05_reg 4 b -> C05_reg 4 c -> C05_reg 4 d -> C05_reg 4 m ->
  c_sse2_g2 a b c d m = g2r a b c d m.
Proof. exact c_sse2_g2_ok. Qed.
Print Assumptions C05_c_sse2_g2.
Theorem C05_c_sse2_diagonalize : forall a b c, c_sse2_diagonalize a b c = diagonalize a b c.
Proof. exact c_sse2_diagonalize_ok. Qed.
Print Assumptions C05_c_sse2_diagonalize.
Theorem C05_c_sse2_undiagonalize : forall a b c, c_sse2_undiagonalize a b c = undiagonalize a b c.
Proof. exact c_sse2_undiagonalize_ok. Qed.
Print Assumptions C05_c_sse2_undiagonalize.
Theorem C05_c_sse2_blend_epi16_0xCC : forall a b, C05_reg 4 a -> C05_reg 4 b -> c_sse2_blend_epi16 a b (cast_s 16 0xCC%Z) = blend_epi16 0 a b 0xCC.
Proof. exact c_sse2_blend_cc_ok. Qed.
Print Assumptions C05_c_sse2_blend_epi16_0xCC.
Theorem C05_c_sse2_blend_epi16_0xC0 : forall a b, C05_reg 4 a -> C05_reg 4 b -> c_sse2_blend_epi16 a b (cast_s 16 0xC0%Z) = blend_epi16 0 a b 0xC0.
Proof. exact c_sse2_blend_c0_ok. Qed.
Print Assumptions C05_c_sse2_blend_epi16_0xC0.
Theorem C05_c_sse2_compress_pre : forall cv block bl ctr fl, C05_row_dom cv block bl fl ->
  c_sse2_compress_pre cv block bl ctr fl = compress_pre_rows cv block bl ctr fl.
Proof. exact c_sse2_compress_pre_ok. Qed.
Print Assumptions C05_c_sse2_compress_pre.
Theorem C05_c_sse2_blake3_compress_in_place_sse2 : forall cv block bl ctr fl, C05_row_dom cv block bl fl ->
  c_sse2_blake3_compress_in_place_sse2 cv block bl ctr fl = compress_in_place_rows cv block bl ctr fl.
Proof. exact c_sse2_blake3_compress_in_place_sse2_ok. Qed.
Print Assumptions C05_c_sse2_blake3_compress_in_place_sse2.
(* `out`: the 64 bytes the caller passes; all of them are overwritten *)
Theorem C05_c_sse2_blake3_compress_xof_sse2 : forall cv block bl ctr fl out, C05_row_dom cv block bl fl -> length out = 64%nat ->
  c_sse2_blake3_compress_xof_sse2 cv block bl ctr fl out = compress_xof_rows cv block bl ctr fl.
Proof. exact c_sse2_blake3_compress_xof_sse2_ok. Qed.
Print Assumptions C05_c_sse2_blake3_compress_xof_sse2.
Theorem C05_c_sse2_blake3_compress_in_place_sse2_portable : forall cv block bl ctr fl, C05_row_dom cv block bl fl ->
  c_sse2_blake3_compress_in_place_sse2 cv block bl ctr fl = compress_in_place cv block bl ctr fl.
Proof. exact c_sse2_compress_in_place_portable. Qed.
Print Assumptions C05_c_sse2_blake3_compress_in_place_sse2_portable.
Theorem C05_c_sse2_blake3_compress_xof_sse2_portable : forall cv block bl ctr fl out, C05_row_dom cv block bl fl -> length out = 64%nat ->
  c_sse2_blake3_compress_xof_sse2 cv block bl ctr fl out = compress_xof cv block bl ctr fl.
Proof. exact c_sse2_compress_xof_portable. Qed.
Print Assumptions C05_c_sse2_blake3_compress_xof_sse2_portable.

(* ---- hash1 / hash_many outside the compression: the block loops with the block_flags bookkeeping and the
   per-input loop with the counter increment, translated statement by statement (gen/GenCascades.v; representation
   in the header comment of that generator in tools/gen_coq.py), against the models.  `fuel` is the fuel of the
   translated `while` loops: the statements hold at EVERY fuel above the loop's iteration count. ---- *)
From V Require Import gen.GenCascades Proofs.CascadesP.

(* src/portable.rs hash1::<N> (N = input.len()) *)
Theorem C05_src_rs_portable_hash1 : forall fuel input key ctr flags fs fe,
  length key = 8%nat -> (length input / 64 < fuel)%nat ->
  src_rs_portable_hash1 fuel (N.of_nat (length input)) input key ctr flags fs fe = Portable.hash1 input key ctr flags fs fe.
Proof. exact src_rs_portable_hash1_ok. Qed.
Print Assumptions C05_src_rs_portable_hash1.
(* src/portable.rs hash_many::<N>: out.len() = 32 * cap, every input has N = n bytes *)
Theorem C05_src_rs_portable_hash_many : forall fuel n inputs key counter incr flags fs fe cap,
  length key = 8%nat -> (n / 64 < fuel)%nat -> Forall (fun i => length i = n) inputs -> N.of_nat (length inputs) * 32 < 2 ^ 64 ->
  src_rs_portable_hash_many fuel (N.of_nat n) inputs key counter incr flags fs fe (32 * cap)
  = Portable.hash_many inputs key counter incr flags fs fe cap.
Proof. exact src_rs_portable_hash_many_ok. Qed.
Print Assumptions C05_src_rs_portable_hash_many.
(* c/blake3_portable.c hash_one_portable: `out` is the 32 bytes the caller passes, all overwritten *)
Theorem C05_src_c_portable_hash_one_portable : forall fuel input blocks key ctr flags fs fe out,
  length key = 8%nat -> length out = 32%nat -> length input = (blocks * 64)%nat -> (blocks < fuel)%nat -> N.of_nat blocks < 2 ^ 64 ->
  src_c_portable_hash_one_portable fuel input (N.of_nat blocks) key ctr flags fs fe out = Portable.hash1 input key ctr flags fs fe.
Proof. exact src_c_portable_hash_one_portable_ok. Qed.
Print Assumptions C05_src_c_portable_hash_one_portable.
(* hash1 of src/rust_sse2.rs / src/rust_sse41.rs over ANY compress_in_place `cip` (okc cip = the callee returning
   Ok (cip ..)): the one-input kernel hash1_rs cip of the cascades *)
Theorem C05_src_rs_sse2_hash1 : forall cip fuel input blocks key ctr flags fs fe, (length input / 64 < fuel)%nat ->
  src_rs_sse2_hash1 (okc cip) fuel (N.of_nat (length input)) input key ctr flags fs fe = hash1_rs cip input blocks key ctr flags fs fe.
Proof. exact src_rs_sse2_hash1_ok. Qed.
Print Assumptions C05_src_rs_sse2_hash1.
Theorem C05_src_rs_sse41_hash1 : forall cip fuel input blocks key ctr flags fs fe, (length input / 64 < fuel)%nat ->
  src_rs_sse41_hash1 (okc cip) fuel (N.of_nat (length input)) input key ctr flags fs fe = hash1_rs cip input blocks key ctr flags fs fe.
Proof. exact src_rs_sse41_hash1_ok. Qed.
Print Assumptions C05_src_rs_sse41_hash1.
(* hash_one_sse2 / hash_one_sse41 / hash_one_avx512 over any compress_in_place that keeps cv at 8 words *)
Theorem C05_src_c_sse2_hash_one_sse2 : forall (cip : cip_fn) fuel input blocks key ctr flags fs fe out,
  length key = 8%nat -> (blocks < fuel)%nat -> N.of_nat blocks < 2 ^ 64 -> (64 * blocks <= length input)%nat ->
  length (hash_one_go cip blocks key input ctr flags (N.lor flags fs) fe) = 8%nat ->
  src_c_sse2_hash_one_sse2 cip fuel input (N.of_nat blocks) key ctr flags fs fe out = hash_one_c cip input blocks key ctr flags fs fe.
Proof. exact src_c_sse2_hash_one_sse2_ok. Qed.
Print Assumptions C05_src_c_sse2_hash_one_sse2.
Theorem C05_src_c_sse41_hash_one_sse41 : forall (cip : cip_fn) fuel input blocks key ctr flags fs fe out,
  length key = 8%nat -> (blocks < fuel)%nat -> N.of_nat blocks < 2 ^ 64 -> (64 * blocks <= length input)%nat ->
  length (hash_one_go cip blocks key input ctr flags (N.lor flags fs) fe) = 8%nat ->
  src_c_sse41_hash_one_sse41 cip fuel input (N.of_nat blocks) key ctr flags fs fe out = hash_one_c cip input blocks key ctr flags fs fe.
Proof. exact src_c_sse41_hash_one_sse41_ok. Qed.
Print Assumptions C05_src_c_sse41_hash_one_sse41.
Theorem C05_src_c_avx512_hash_one_avx512 : forall (cip : cip_fn) fuel input blocks key ctr flags fs fe out,
  length key = 8%nat -> (blocks < fuel)%nat -> N.of_nat blocks < 2 ^ 64 -> (64 * blocks <= length input)%nat ->
  length (hash_one_go cip blocks key input ctr flags (N.lor flags fs) fe) = 8%nat ->
  src_c_avx512_hash_one_avx512 cip fuel input (N.of_nat blocks) key ctr flags fs fe out = hash_one_c cip input blocks key ctr flags fs fe.
Proof. exact src_c_avx512_hash_one_avx512_ok. Qed.
Print Assumptions C05_src_c_avx512_hash_one_avx512.
(* the `while inputs.len() >= DEGREE && out.len() >= DEGREE * OUT_LEN` loop of hash_many of src/rust_sse41.rs /
   src/rust_sse2.rs (hash4 = any hN; slice advance, counter += DEGREE, out advance) is batch_while 4 of the cascade
   model hash_many_rs4: out.len() = 32 * cap, blocks = N / BLOCK_LEN, acc = what was written before the loop *)
Theorem C05_src_rs_sse41_hash_many_loop1 : forall hN ext fuel gN inputs key counter incr flags fs fe cap acc, (length inputs < fuel)%nat ->
  src_rs_sse41_hash_many_loop1 hN ext fuel gN inputs key counter incr flags fs fe (32 * cap) acc =
  ('(outs, st) <- batch_while fuel 4 hN cadd_rs true inputs (N.to_nat (gN / 64)) key counter incr flags fs fe cap ;;
   let '(rest, c', cap') := st in Ok (rest, c', 32 * cap', acc ++ outs)).
Proof. exact src_rs_sse41_hash_many_loop1_ok. Qed.
Print Assumptions C05_src_rs_sse41_hash_many_loop1.
Theorem C05_src_rs_sse2_hash_many_loop1 : forall hN ext fuel gN inputs key counter incr flags fs fe cap acc, (length inputs < fuel)%nat ->
  src_rs_sse2_hash_many_loop1 hN ext fuel gN inputs key counter incr flags fs fe (32 * cap) acc =
  ('(outs, st) <- batch_while fuel 4 hN cadd_rs true inputs (N.to_nat (gN / 64)) key counter incr flags fs fe cap ;;
   let '(rest, c', cap') := st in Ok (rest, c', 32 * cap', acc ++ outs)).
Proof. exact src_rs_sse2_hash_many_loop1_ok. Qed.
Print Assumptions C05_src_rs_sse2_hash_many_loop1.
(* the `while (num_inputs >= 16)` loop of blake3_hash_many_avx512 (c/blake3_avx512.c; hash16 = any h16; `inputs += 16`,
   `num_inputs -= 16`, `counter += 16`) is batch_while 16 of the cascade model hash_many_c16 *)
Theorem C05_src_c_avx512_blake3_hash_many_avx512_loop1 : forall h16 h8 h4 ext fuel inputs blocks key counter incr flags fs fe out acc,
  (length inputs < fuel)%nat -> N.of_nat (length inputs) < 2 ^ 64 ->
  (p <- src_c_avx512_blake3_hash_many_avx512_loop1 h16 h8 h4 ext fuel inputs (N.of_nat (length inputs)) blocks key counter incr flags fs fe out acc ;;
   let '(i, n, c, _, w) := p in Ok (i, n, c, w)) =
  ('(outs, st) <- batch_while fuel 16 h16 cadd_c false inputs (N.to_nat blocks) key counter incr flags fs fe 0 ;;
   let '(rest, c', _) := st in Ok (rest, N.of_nat (length rest), c', acc ++ outs)).
Proof. exact src_c_avx512_blake3_hash_many_avx512_loop1_ok. Qed.
Print Assumptions C05_src_c_avx512_blake3_hash_many_avx512_loop1.

(* ---- the WHOLE hash_many / blake3_hash_many_* functions as translated (gen/GenCascades.v), against the cascade
   models of Model/Kernels.v (Proofs/CascadesP2.v).  The N-way kernels are the model's hashN_gen .. / hash16_avx512 ..,
   compress_in_place is any `cip` (C: one that keeps the cv 8 words long, cip_len8; it holds of
   compress_in_place_rows and of Portable.compress_in_place: cip_len8_rows, cip_len8_portable).  Each equation
   compares the two results whatever they are (Ok value or Panic code), at EVERY fuel above the stated bound. ---- *)
From V Require Import Proofs.CascadesP2.

(* src/rust_sse2.rs / src/rust_sse41.rs hash_many::<N>: every input has N = n bytes, out.len() = 32 * cap *)
Theorem C05_src_rs_sse2_hash_many : forall lc4 cip fuel n inputs key counter incr flags fs fe cap,
  (length inputs < fuel)%nat -> (n / 64 < fuel)%nat -> Forall (fun i => length i = n) inputs ->
  N.of_nat (length inputs) * 32 < 2 ^ 64 ->
  src_rs_sse2_hash_many (hashN_gen 4 transpose_msg_vecs4 lc4 store4) (okc cip) fuel (N.of_nat n) inputs key counter incr flags fs fe (32 * cap)
  = hash_many_rs4 lc4 cip inputs key counter incr flags fs fe cap.
Proof. exact src_rs_sse2_hash_many_ok. Qed.
Print Assumptions C05_src_rs_sse2_hash_many.
Theorem C05_src_rs_sse41_hash_many : forall lc4 cip fuel n inputs key counter incr flags fs fe cap,
  (length inputs < fuel)%nat -> (n / 64 < fuel)%nat -> Forall (fun i => length i = n) inputs ->
  N.of_nat (length inputs) * 32 < 2 ^ 64 ->
  src_rs_sse41_hash_many (hashN_gen 4 transpose_msg_vecs4 lc4 store4) (okc cip) fuel (N.of_nat n) inputs key counter incr flags fs fe (32 * cap)
  = hash_many_rs4 lc4 cip inputs key counter incr flags fs fe cap.
Proof. exact src_rs_sse41_hash_many_ok. Qed.
Print Assumptions C05_src_rs_sse41_hash_many.
(* src/rust_avx2.rs hash_many::<N>; `crate::sse41::hash_many` is the translated src_rs_sse41_hash_many *)
Theorem C05_src_rs_avx2_hash_many : forall lc8 lc4 cip fuel n inputs key counter incr flags fs fe cap,
  (length inputs < fuel)%nat -> (n / 64 < fuel)%nat -> Forall (fun i => length i = n) inputs ->
  N.of_nat (length inputs) * 32 < 2 ^ 64 ->
  src_rs_avx2_hash_many (hashN_gen 8 transpose_msg_vecs8 lc8 store8)
    (src_rs_sse41_hash_many (hashN_gen 4 transpose_msg_vecs4 lc4 store4) (okc cip) fuel)
    fuel (N.of_nat n) inputs key counter incr flags fs fe (32 * cap)
  = hash_many_rs8 lc8 lc4 cip inputs key counter incr flags fs fe cap.
Proof. exact src_rs_avx2_hash_many_ok. Qed.
Print Assumptions C05_src_rs_avx2_hash_many.

(* c/blake3_sse2.c / c/blake3_sse41.c blake3_hash_many_*: num_inputs = the number of input pointers, every input has at
   least 64 * blocks bytes (long_enough), `out` is any pointer (only written through) *)
Theorem C05_src_c_sse2_blake3_hash_many_sse2 : forall lc4 (cip : cip_fn) fuel inputs bn key counter incr flags fs fe out,
  cip_len8 cip -> length key = 8%nat -> N.of_nat bn < 2 ^ 64 ->
  (length inputs + bn < fuel)%nat -> N.of_nat (length inputs) < 2 ^ 64 -> Forall (long_enough bn) inputs ->
  src_c_sse2_blake3_hash_many_sse2 (hashN_gen 4 transpose_msg_vecs4 lc4 store4) cip fuel inputs (N.of_nat (length inputs))
    (N.of_nat bn) key counter incr flags fs fe out
  = hash_many_c4 lc4 cip inputs bn key counter incr flags fs fe.
Proof. exact src_c_sse2_blake3_hash_many_sse2_ok. Qed.
Print Assumptions C05_src_c_sse2_blake3_hash_many_sse2.
Theorem C05_src_c_sse41_blake3_hash_many_sse41 : forall lc4 (cip : cip_fn) fuel inputs bn key counter incr flags fs fe out,
  cip_len8 cip -> length key = 8%nat -> N.of_nat bn < 2 ^ 64 ->
  (length inputs + bn < fuel)%nat -> N.of_nat (length inputs) < 2 ^ 64 -> Forall (long_enough bn) inputs ->
  src_c_sse41_blake3_hash_many_sse41 (hashN_gen 4 transpose_msg_vecs4 lc4 store4) cip fuel inputs (N.of_nat (length inputs))
    (N.of_nat bn) key counter incr flags fs fe out
  = hash_many_c4 lc4 cip inputs bn key counter incr flags fs fe.
Proof. exact src_c_sse41_blake3_hash_many_sse41_ok. Qed.
Print Assumptions C05_src_c_sse41_blake3_hash_many_sse41.
(* c/blake3_avx2.c blake3_hash_many_avx2; `blake3_hash_many_sse41` is the translated function *)
Theorem C05_src_c_avx2_blake3_hash_many_avx2 : forall lc8 lc4 (cip : cip_fn) fuel inputs bn key counter incr flags fs fe out,
  cip_len8 cip -> length key = 8%nat -> N.of_nat bn < 2 ^ 64 ->
  (length inputs + bn < fuel)%nat -> N.of_nat (length inputs) < 2 ^ 64 -> Forall (long_enough bn) inputs ->
  src_c_avx2_blake3_hash_many_avx2 (hashN_gen 8 transpose_msg_vecs8 lc8 store8)
    (src_c_sse41_blake3_hash_many_sse41 (hashN_gen 4 transpose_msg_vecs4 lc4 store4) cip fuel)
    fuel inputs (N.of_nat (length inputs)) (N.of_nat bn) key counter incr flags fs fe out
  = hash_many_c8 lc8 lc4 cip inputs bn key counter incr flags fs fe.
Proof. exact src_c_avx2_blake3_hash_many_avx2_ok. Qed.
Print Assumptions C05_src_c_avx2_blake3_hash_many_avx2.
(* c/blake3_avx512.c blake3_hash_many_avx512: 16, 8, 4, 1 *)
Theorem C05_src_c_avx512_blake3_hash_many_avx512 : forall (cip : cip_fn) fuel inputs bn key counter incr flags fs fe out,
  cip_len8 cip -> length key = 8%nat -> N.of_nat bn < 2 ^ 64 ->
  (length inputs + bn < fuel)%nat -> N.of_nat (length inputs) < 2 ^ 64 -> Forall (long_enough bn) inputs ->
  src_c_avx512_blake3_hash_many_avx512 hash16_avx512 hash8_avx512 hash4_avx512 cip fuel inputs (N.of_nat (length inputs))
    (N.of_nat bn) key counter incr flags fs fe out
  = hash_many_c16 cip inputs bn key counter incr flags fs fe.
Proof. exact src_c_avx512_blake3_hash_many_avx512_ok. Qed.
Print Assumptions C05_src_c_avx512_blake3_hash_many_avx512.

(* c/blake3_portable.c blake3_hash_many_portable: every input has exactly blocks * 64 bytes, `out` has room for
   num_inputs * 32 bytes.  In general it is the one-at-a-time loop over Portable.hash1 with the WRAPPING uint64_t counter;
   it is Portable.hash_many (whose counter += 1 is overflow-checked, Panic 1001, and which has the debug assertion 1101
   on the capacity) when the counter stays below 2^64 and num_inputs <= cap. *)
Theorem C05_src_c_portable_blake3_hash_many_portable_single : forall fuel inputs bn key counter incr flags fs fe out,
  length key = 8%nat -> N.of_nat bn < 2 ^ 64 ->
  (length inputs + bn < fuel)%nat -> N.of_nat (length inputs) < 2 ^ 64 -> Forall (exact_len bn) inputs ->
  (32 * length inputs <= length out)%nat ->
  src_c_portable_blake3_hash_many_portable fuel inputs (N.of_nat (length inputs)) (N.of_nat bn) key counter incr flags fs fe out
  = single_loop portable_hash1 cadd_c false inputs bn key counter incr flags fs fe 0.
Proof. exact src_c_portable_blake3_hash_many_portable_single. Qed.
Print Assumptions C05_src_c_portable_blake3_hash_many_portable_single.
Theorem C05_src_c_portable_blake3_hash_many_portable : forall fuel inputs bn key counter incr flags fs fe out cap,
  length key = 8%nat -> N.of_nat bn < 2 ^ 64 ->
  (length inputs + bn < fuel)%nat -> N.of_nat (length inputs) < 2 ^ 64 -> Forall (exact_len bn) inputs ->
  (32 * length inputs <= length out)%nat -> N.of_nat (length inputs) <= cap ->
  (incr = true -> counter + N.of_nat (length inputs) < 2 ^ 64) ->
  src_c_portable_blake3_hash_many_portable fuel inputs (N.of_nat (length inputs)) (N.of_nat bn) key counter incr flags fs fe out
  = Portable.hash_many inputs key counter incr flags fs fe cap.
Proof. exact src_c_portable_blake3_hash_many_portable_ok. Qed.
Print Assumptions C05_src_c_portable_blake3_hash_many_portable.

From Coq Require Import Lia.
(* non-vacuity: the side conditions of the whole-function theorems hold of 21 inputs of 2 blocks, an 8-word key,
   fuel 30, compress_in_place_rows, a 21 * 32-byte `out` *)
Example C05_src_hash_many_side_conditions_inhabited :
  let inputs := repeat (repeat 0 128%nat) 21 in
  cip_len8 compress_in_place_rows /\ length (repeat 0 8%nat) = 8%nat /\ N.of_nat 2 < 2 ^ 64 /\
  (length inputs + 2 < 30)%nat /\ (length inputs < 30)%nat /\ (128 / 64 < 30)%nat /\
  N.of_nat (length inputs) < 2 ^ 64 /\ N.of_nat (length inputs) * 32 < 2 ^ 64 /\
  Forall (long_enough 2) inputs /\ Forall (exact_len 2) inputs /\ Forall (fun i => length i = 128%nat) inputs /\
  (32 * length inputs <= length (repeat 0 672%nat))%nat.
Proof.
  cbv zeta. rewrite !repeat_length.
  assert (F : forall P : list N -> Prop, P (repeat 0 128%nat) -> Forall P (repeat (repeat 0 128%nat) 21)).
  { intros P HP. apply Forall_forall. intros x Hx. apply repeat_spec in Hx. subst x. exact HP. }
  repeat split; try exact cip_len8_rows; try (apply F; unfold long_enough, exact_len; rewrite repeat_length); try lia;
    try reflexivity; try (apply Nat.div_lt_upper_bound; lia).
Qed.

(* ---- the individual loops of the cascades (Proofs/CascadesP2.v) ---- *)
(* the trailing `for (&input, output) in inputs.iter().zip(out.chunks_exact_mut(OUT_LEN))` of rust_sse2.rs / rust_sse41.rs:
   single_loop over hash1_rs, stopping when `out` is exhausted (chunks = out.len() / OUT_LEN) *)
Theorem C05_src_rs_sse2_hash_many_loop2 : forall hN cip fuel n blocks inputs chunks key counter incr flags fs fe acc,
  (n / 64 < fuel)%nat -> Forall (fun i => length i = n) inputs ->
  ('(counter, out_w) <- src_rs_sse2_hash_many_loop2 hN (okc cip) fuel (N.of_nat n) inputs chunks key counter incr flags fs fe acc ;; Ok out_w)
  = (r <- single_loop (hash1_rs cip) cadd_rs true inputs blocks key counter incr flags fs fe chunks ;; Ok (acc ++ r)).
Proof. exact src_rs_sse2_hash_many_loop2_ok. Qed.
Print Assumptions C05_src_rs_sse2_hash_many_loop2.
Theorem C05_src_rs_sse41_hash_many_loop2 : forall hN cip fuel n blocks inputs chunks key counter incr flags fs fe acc,
  (n / 64 < fuel)%nat -> Forall (fun i => length i = n) inputs ->
  ('(counter, out_w) <- src_rs_sse41_hash_many_loop2 hN (okc cip) fuel (N.of_nat n) inputs chunks key counter incr flags fs fe acc ;; Ok out_w)
  = (r <- single_loop (hash1_rs cip) cadd_rs true inputs blocks key counter incr flags fs fe chunks ;; Ok (acc ++ r)).
Proof. exact src_rs_sse41_hash_many_loop2_ok. Qed.
Print Assumptions C05_src_rs_sse41_hash_many_loop2.
(* the degree-8 loop of rust_avx2.rs *)
Theorem C05_src_rs_avx2_hash_many_loop1 : forall hN ext fuel gN inputs key counter incr flags fs fe cap acc, (length inputs < fuel)%nat ->
  src_rs_avx2_hash_many_loop1 hN ext fuel gN inputs key counter incr flags fs fe (32 * cap) acc =
  ('(outs, st) <- batch_while fuel 8 hN cadd_rs true inputs (N.to_nat (gN / 64)) key counter incr flags fs fe cap ;;
   let '(rest, c', cap') := st in Ok (rest, c', 32 * cap', acc ++ outs)).
Proof. exact src_rs_avx2_hash_many_loop1_ok. Qed.
Print Assumptions C05_src_rs_avx2_hash_many_loop1.
(* the `while (num_inputs >= DEGREE)` loops of the C files: batch_while DEGREE, wrapping counter, no capacity test;
   out' = where the `out` pointer stands afterwards *)
Theorem C05_src_c_sse2_blake3_hash_many_sse2_loop1 : forall hN ext fuel inputs blocks key counter incr flags fs fe out acc,
  (length inputs < fuel)%nat -> N.of_nat (length inputs) < 2 ^ 64 ->
  exists out', src_c_sse2_blake3_hash_many_sse2_loop1 hN ext fuel inputs (N.of_nat (length inputs)) blocks key counter incr flags fs fe out acc =
    ('(outs, st) <- batch_while fuel 4 hN cadd_c false inputs (N.to_nat blocks) key counter incr flags fs fe 0 ;;
     let '(rest, c', _) := st in Ok (rest, N.of_nat (length rest), c', out', acc ++ outs)).
Proof. exact src_c_sse2_blake3_hash_many_sse2_loop1_ok. Qed.
Print Assumptions C05_src_c_sse2_blake3_hash_many_sse2_loop1.
Theorem C05_src_c_sse41_blake3_hash_many_sse41_loop1 : forall hN ext fuel inputs blocks key counter incr flags fs fe out acc,
  (length inputs < fuel)%nat -> N.of_nat (length inputs) < 2 ^ 64 ->
  exists out', src_c_sse41_blake3_hash_many_sse41_loop1 hN ext fuel inputs (N.of_nat (length inputs)) blocks key counter incr flags fs fe out acc =
    ('(outs, st) <- batch_while fuel 4 hN cadd_c false inputs (N.to_nat blocks) key counter incr flags fs fe 0 ;;
     let '(rest, c', _) := st in Ok (rest, N.of_nat (length rest), c', out', acc ++ outs)).
Proof. exact src_c_sse41_blake3_hash_many_sse41_loop1_ok. Qed.
Print Assumptions C05_src_c_sse41_blake3_hash_many_sse41_loop1.
Theorem C05_src_c_avx2_blake3_hash_many_avx2_loop1 : forall hN ext fuel inputs blocks key counter incr flags fs fe out acc,
  (length inputs < fuel)%nat -> N.of_nat (length inputs) < 2 ^ 64 ->
  exists out', src_c_avx2_blake3_hash_many_avx2_loop1 hN ext fuel inputs (N.of_nat (length inputs)) blocks key counter incr flags fs fe out acc =
    ('(outs, st) <- batch_while fuel 8 hN cadd_c false inputs (N.to_nat blocks) key counter incr flags fs fe 0 ;;
     let '(rest, c', _) := st in Ok (rest, N.of_nat (length rest), c', out', acc ++ outs)).
Proof. exact src_c_avx2_blake3_hash_many_avx2_loop1_ok. Qed.
Print Assumptions C05_src_c_avx2_blake3_hash_many_avx2_loop1.
Theorem C05_src_c_avx512_blake3_hash_many_avx512_loop2 : forall h16 h8 h4 ext fuel inputs blocks key counter incr flags fs fe out acc,
  (length inputs < fuel)%nat -> N.of_nat (length inputs) < 2 ^ 64 ->
  exists out', src_c_avx512_blake3_hash_many_avx512_loop2 h16 h8 h4 ext fuel inputs (N.of_nat (length inputs)) blocks key counter incr flags fs fe out acc =
    ('(outs, st) <- batch_while fuel 8 h8 cadd_c false inputs (N.to_nat blocks) key counter incr flags fs fe 0 ;;
     let '(rest, c', _) := st in Ok (rest, N.of_nat (length rest), c', out', acc ++ outs)).
Proof. exact src_c_avx512_blake3_hash_many_avx512_loop2_ok. Qed.
Print Assumptions C05_src_c_avx512_blake3_hash_many_avx512_loop2.
Theorem C05_src_c_avx512_blake3_hash_many_avx512_loop3 : forall h16 h8 h4 ext fuel inputs blocks key counter incr flags fs fe out acc,
  (length inputs < fuel)%nat -> N.of_nat (length inputs) < 2 ^ 64 ->
  exists out', src_c_avx512_blake3_hash_many_avx512_loop3 h16 h8 h4 ext fuel inputs (N.of_nat (length inputs)) blocks key counter incr flags fs fe out acc =
    ('(outs, st) <- batch_while fuel 4 h4 cadd_c false inputs (N.to_nat blocks) key counter incr flags fs fe 0 ;;
     let '(rest, c', _) := st in Ok (rest, N.of_nat (length rest), c', out', acc ++ outs)).
Proof. exact src_c_avx512_blake3_hash_many_avx512_loop3_ok. Qed.
Print Assumptions C05_src_c_avx512_blake3_hash_many_avx512_loop3.
(* the trailing `while (num_inputs > 0)` loops of the C files: single_loop over hash_one_c, wrapping counter; fuel above
   num_inputs + blocks because the inner hash_one_* block loop runs on the same (decreasing) fuel *)
Theorem C05_src_c_sse2_blake3_hash_many_sse2_loop2 : forall hN (cip : cip_fn) bn key flags fs fe, cip_len8 cip -> length key = 8%nat ->
  N.of_nat bn < 2 ^ 64 -> forall inputs fuel counter incr out acc,
  (length inputs + bn < fuel)%nat -> N.of_nat (length inputs) < 2 ^ 64 -> Forall (long_enough bn) inputs ->
  ('(inputs, num_inputs, counter, out, out_w) <-
      src_c_sse2_blake3_hash_many_sse2_loop2 hN cip fuel inputs (N.of_nat (length inputs)) (N.of_nat bn) key counter incr flags fs fe out acc ;; Ok out_w)
  = (r <- single_loop (hash_one_c cip) cadd_c false inputs bn key counter incr flags fs fe 0 ;; Ok (acc ++ r)).
Proof. exact src_c_sse2_blake3_hash_many_sse2_loop2_ok. Qed.
Print Assumptions C05_src_c_sse2_blake3_hash_many_sse2_loop2.
Theorem C05_src_c_sse41_blake3_hash_many_sse41_loop2 : forall hN (cip : cip_fn) bn key flags fs fe, cip_len8 cip -> length key = 8%nat ->
  N.of_nat bn < 2 ^ 64 -> forall inputs fuel counter incr out acc,
  (length inputs + bn < fuel)%nat -> N.of_nat (length inputs) < 2 ^ 64 -> Forall (long_enough bn) inputs ->
  ('(inputs, num_inputs, counter, out, out_w) <-
      src_c_sse41_blake3_hash_many_sse41_loop2 hN cip fuel inputs (N.of_nat (length inputs)) (N.of_nat bn) key counter incr flags fs fe out acc ;; Ok out_w)
  = (r <- single_loop (hash_one_c cip) cadd_c false inputs bn key counter incr flags fs fe 0 ;; Ok (acc ++ r)).
Proof. exact src_c_sse41_blake3_hash_many_sse41_loop2_ok. Qed.
Print Assumptions C05_src_c_sse41_blake3_hash_many_sse41_loop2.
Theorem C05_src_c_avx512_blake3_hash_many_avx512_loop4 : forall h16 h8 h4 (cip : cip_fn) bn key flags fs fe, cip_len8 cip -> length key = 8%nat ->
  N.of_nat bn < 2 ^ 64 -> forall inputs fuel counter incr out acc,
  (length inputs + bn < fuel)%nat -> N.of_nat (length inputs) < 2 ^ 64 -> Forall (long_enough bn) inputs ->
  ('(inputs, num_inputs, counter, out, out_w) <-
      src_c_avx512_blake3_hash_many_avx512_loop4 h16 h8 h4 cip fuel inputs (N.of_nat (length inputs)) (N.of_nat bn) key counter incr flags fs fe out acc ;; Ok out_w)
  = (r <- single_loop (hash_one_c cip) cadd_c false inputs bn key counter incr flags fs fe 0 ;; Ok (acc ++ r)).
Proof. exact src_c_avx512_blake3_hash_many_avx512_loop4_ok. Qed.
Print Assumptions C05_src_c_avx512_blake3_hash_many_avx512_loop4.

(* BEGIN block of tools/gen_coq_kern2.py / Proofs/GenKern2P.v (the WHOLE hashN functions, translated)  *)
(* ================================================================== *)
From V Require Import Model.Intrinsics gen.GenKern2 Proofs.RoundsP Proofs.GenKern2P.
(* The whole hash4 / hash8 / hash16 of src/rust_sse2.rs, src/rust_sse41.rs, src/rust_avx2.rs and c/blake3_avx512.c, translated
   statement by statement (key broadcast, load_counters, block_flags bookkeeping, `for block` loop, final transposes,
   every store to `out`): the final contents of `out` are the concatenated CVs of the kernel model, for every key of 8
   32-bit words (W x := x < 2^32), inputs of blocks*64 bytes, u8 flags, counter + lanes within u64, `out` of lanes*32 bytes *)
Theorem C05_src_k2_rs_sse2_hash4 : forall inputs blocks key counter incr flags fs fe out,
  length key = 8%nat -> Forall W key ->
  (forall j, (j < 4)%nat -> length (inp inputs j) = (blocks * 64)%nat) ->
  counter + 4 <= 2 ^ 64 -> flags < 256 -> fs < 256 -> fe < 256 -> length out = 128%nat ->
  k2_rs_sse2_hash4 inputs blocks key counter incr flags fs fe out =
  (outs <- hash4_rs inputs blocks key counter incr flags fs fe ;; Ok (concat outs)).
Proof. exact k2_rs_sse2_hash4_ok. Qed.
Print Assumptions C05_src_k2_rs_sse2_hash4.
(* ... hence Portable.hash1 of each of the 4 inputs with counters counter + i (hm_spec) *)
Theorem C05_src_k2_rs_sse2_hash4_portable : forall inputs blocks key counter incr flags fs fe out,
  length inputs = 4%nat -> length key = 8%nat -> Forall W key ->
  (forall i, In i inputs -> length i = (blocks * 64)%nat) ->
  counter + 4 <= 2 ^ 64 -> flags < 256 -> fs < 256 -> fe < 256 -> length out = 128%nat ->
  k2_rs_sse2_hash4 inputs blocks key counter incr flags fs fe out =
  Ok (concat (hm_spec inputs key counter incr flags fs fe)).
Proof. exact k2_rs_sse2_hash4_spec. Qed.
Print Assumptions C05_src_k2_rs_sse2_hash4_portable.
Theorem C05_src_k2_rs_sse41_hash4 : forall inputs blocks key counter incr flags fs fe out,
  length key = 8%nat -> Forall W key ->
  (forall j, (j < 4)%nat -> length (inp inputs j) = (blocks * 64)%nat) ->
  counter + 4 <= 2 ^ 64 -> flags < 256 -> fs < 256 -> fe < 256 -> length out = 128%nat ->
  k2_rs_sse41_hash4 inputs blocks key counter incr flags fs fe out =
  (outs <- hash4_rs inputs blocks key counter incr flags fs fe ;; Ok (concat outs)).
Proof. exact k2_rs_sse41_hash4_ok. Qed.
Print Assumptions C05_src_k2_rs_sse41_hash4.
(* ... hence Portable.hash1 of each of the 4 inputs with counters counter + i (hm_spec) *)
Theorem C05_src_k2_rs_sse41_hash4_portable : forall inputs blocks key counter incr flags fs fe out,
  length inputs = 4%nat -> length key = 8%nat -> Forall W key ->
  (forall i, In i inputs -> length i = (blocks * 64)%nat) ->
  counter + 4 <= 2 ^ 64 -> flags < 256 -> fs < 256 -> fe < 256 -> length out = 128%nat ->
  k2_rs_sse41_hash4 inputs blocks key counter incr flags fs fe out =
  Ok (concat (hm_spec inputs key counter incr flags fs fe)).
Proof. exact k2_rs_sse41_hash4_spec. Qed.
Print Assumptions C05_src_k2_rs_sse41_hash4_portable.
Theorem C05_src_k2_rs_avx2_hash8 : forall inputs blocks key counter incr flags fs fe out,
  length key = 8%nat -> Forall W key ->
  (forall j, (j < 8)%nat -> length (inp inputs j) = (blocks * 64)%nat) ->
  counter + 8 <= 2 ^ 64 -> flags < 256 -> fs < 256 -> fe < 256 -> length out = 256%nat ->
  k2_rs_avx2_hash8 inputs blocks key counter incr flags fs fe out =
  (outs <- hash8_rs inputs blocks key counter incr flags fs fe ;; Ok (concat outs)).
Proof. exact k2_rs_avx2_hash8_ok. Qed.
Print Assumptions C05_src_k2_rs_avx2_hash8.
(* ... hence Portable.hash1 of each of the 8 inputs with counters counter + i (hm_spec) *)
Theorem C05_src_k2_rs_avx2_hash8_portable : forall inputs blocks key counter incr flags fs fe out,
  length inputs = 8%nat -> length key = 8%nat -> Forall W key ->
  (forall i, In i inputs -> length i = (blocks * 64)%nat) ->
  counter + 8 <= 2 ^ 64 -> flags < 256 -> fs < 256 -> fe < 256 -> length out = 256%nat ->
  k2_rs_avx2_hash8 inputs blocks key counter incr flags fs fe out =
  Ok (concat (hm_spec inputs key counter incr flags fs fe)).
Proof. exact k2_rs_avx2_hash8_spec. Qed.
Print Assumptions C05_src_k2_rs_avx2_hash8_portable.
Theorem C05_src_k2_c_avx512_blake3_hash4_avx512 : forall inputs blocks key counter incr flags fs fe out,
  length key = 8%nat -> Forall W key ->
  (forall j, (j < 4)%nat -> length (inp inputs j) = (blocks * 64)%nat) ->
  counter + 4 <= 2 ^ 64 -> flags < 256 -> fs < 256 -> fe < 256 -> length out = 128%nat ->
  Ok (k2_c_avx512_blake3_hash4_avx512 inputs blocks key counter incr flags fs fe out) =
  (outs <- hash4_avx512 inputs blocks key counter incr flags fs fe ;; Ok (concat outs)).
Proof. exact k2_c_avx512_blake3_hash4_avx512_ok. Qed.
Print Assumptions C05_src_k2_c_avx512_blake3_hash4_avx512.
(* ... hence Portable.hash1 of each of the 4 inputs with counters counter + i (hm_spec) *)
Theorem C05_src_k2_c_avx512_blake3_hash4_avx512_portable : forall inputs blocks key counter incr flags fs fe out,
  length inputs = 4%nat -> length key = 8%nat -> Forall W key ->
  (forall i, In i inputs -> length i = (blocks * 64)%nat) ->
  counter + 4 <= 2 ^ 64 -> flags < 256 -> fs < 256 -> fe < 256 -> length out = 128%nat ->
  Ok (k2_c_avx512_blake3_hash4_avx512 inputs blocks key counter incr flags fs fe out) =
  Ok (concat (hm_spec inputs key counter incr flags fs fe)).
Proof. exact k2_c_avx512_blake3_hash4_avx512_spec. Qed.
Print Assumptions C05_src_k2_c_avx512_blake3_hash4_avx512_portable.
Theorem C05_src_k2_c_avx512_blake3_hash8_avx512 : forall inputs blocks key counter incr flags fs fe out,
  length key = 8%nat -> Forall W key ->
  (forall j, (j < 8)%nat -> length (inp inputs j) = (blocks * 64)%nat) ->
  counter + 8 <= 2 ^ 64 -> flags < 256 -> fs < 256 -> fe < 256 -> length out = 256%nat ->
  Ok (k2_c_avx512_blake3_hash8_avx512 inputs blocks key counter incr flags fs fe out) =
  (outs <- hash8_avx512 inputs blocks key counter incr flags fs fe ;; Ok (concat outs)).
Proof. exact k2_c_avx512_blake3_hash8_avx512_ok. Qed.
Print Assumptions C05_src_k2_c_avx512_blake3_hash8_avx512.
(* ... hence Portable.hash1 of each of the 8 inputs with counters counter + i (hm_spec) *)
Theorem C05_src_k2_c_avx512_blake3_hash8_avx512_portable : forall inputs blocks key counter incr flags fs fe out,
  length inputs = 8%nat -> length key = 8%nat -> Forall W key ->
  (forall i, In i inputs -> length i = (blocks * 64)%nat) ->
  counter + 8 <= 2 ^ 64 -> flags < 256 -> fs < 256 -> fe < 256 -> length out = 256%nat ->
  Ok (k2_c_avx512_blake3_hash8_avx512 inputs blocks key counter incr flags fs fe out) =
  Ok (concat (hm_spec inputs key counter incr flags fs fe)).
Proof. exact k2_c_avx512_blake3_hash8_avx512_spec. Qed.
Print Assumptions C05_src_k2_c_avx512_blake3_hash8_avx512_portable.
Theorem C05_src_k2_c_avx512_blake3_hash16_avx512 : forall inputs blocks key counter incr flags fs fe out,
  length key = 8%nat -> Forall W key ->
  (forall j, (j < 16)%nat -> length (inp inputs j) = (blocks * 64)%nat) ->
  counter + 16 <= 2 ^ 64 -> flags < 256 -> fs < 256 -> fe < 256 -> length out = 512%nat ->
  Ok (k2_c_avx512_blake3_hash16_avx512 inputs blocks key counter incr flags fs fe out) =
  (outs <- hash16_avx512 inputs blocks key counter incr flags fs fe ;; Ok (concat outs)).
Proof. exact k2_c_avx512_blake3_hash16_avx512_ok. Qed.
Print Assumptions C05_src_k2_c_avx512_blake3_hash16_avx512.
(* ... hence Portable.hash1 of each of the 16 inputs with counters counter + i (hm_spec) *)
Theorem C05_src_k2_c_avx512_blake3_hash16_avx512_portable : forall inputs blocks key counter incr flags fs fe out,
  length inputs = 16%nat -> length key = 8%nat -> Forall W key ->
  (forall i, In i inputs -> length i = (blocks * 64)%nat) ->
  counter + 16 <= 2 ^ 64 -> flags < 256 -> fs < 256 -> fe < 256 -> length out = 512%nat ->
  Ok (k2_c_avx512_blake3_hash16_avx512 inputs blocks key counter incr flags fs fe out) =
  Ok (concat (hm_spec inputs key counter incr flags fs fe)).
Proof. exact k2_c_avx512_blake3_hash16_avx512_spec. Qed.
Print Assumptions C05_src_k2_c_avx512_blake3_hash16_avx512_portable.
(* END block of tools/gen_coq_kern2.py / Proofs/GenKern2P.v *)

(* ---- the three C hashN functions whose per-block theorem needs 32-bit lanes (Proofs/GenKern2P2.v: loop invariant
   "8 vectors of n lanes, every lane below 2^32"): translated whole function = the kernel model hash4_c / hash8_c ---- *)
From V Require Import Proofs.GenKern2P2.
Theorem C05_src_c_sse2_blake3_hash4_sse2 : forall inputs blocks key counter incr flags fs fe out,
  length key = 8%nat -> Forall W key ->
  (forall j, (j < 4)%nat -> length (inp inputs j) = (blocks * 64)%nat) ->
  (forall j, (j < 4)%nat -> Forall (fun b => b < 256) (inp inputs j)) ->
  counter + 4 <= 2 ^ 64 -> flags < 256 -> fs < 256 -> fe < 256 -> length out = 128%nat ->
  Ok (k2_c_sse2_blake3_hash4_sse2 inputs blocks key counter incr flags fs fe out) =
  (outs <- hash4_c inputs blocks key counter incr flags fs fe ;; Ok (concat outs)).
Proof. exact k2_c_sse2_blake3_hash4_sse2_ok. Qed.
Theorem C05_src_c_sse41_blake3_hash4_sse41 : forall inputs blocks key counter incr flags fs fe out,
  length key = 8%nat -> Forall W key ->
  (forall j, (j < 4)%nat -> length (inp inputs j) = (blocks * 64)%nat) ->
  (forall j, (j < 4)%nat -> Forall (fun b => b < 256) (inp inputs j)) ->
  counter + 4 <= 2 ^ 64 -> flags < 256 -> fs < 256 -> fe < 256 -> length out = 128%nat ->
  Ok (k2_c_sse41_blake3_hash4_sse41 inputs blocks key counter incr flags fs fe out) =
  (outs <- hash4_c inputs blocks key counter incr flags fs fe ;; Ok (concat outs)).
Proof. exact k2_c_sse41_blake3_hash4_sse41_ok. Qed.
Theorem C05_src_c_avx2_blake3_hash8_avx2 : forall inputs blocks key counter incr flags fs fe out,
  length key = 8%nat -> Forall W key ->
  (forall j, (j < 8)%nat -> length (inp inputs j) = (blocks * 64)%nat) ->
  (forall j, (j < 8)%nat -> Forall (fun b => b < 256) (inp inputs j)) ->
  counter + 8 <= 2 ^ 64 -> flags < 256 -> fs < 256 -> fe < 256 -> length out = 256%nat ->
  Ok (k2_c_avx2_blake3_hash8_avx2 inputs blocks key counter incr flags fs fe out) =
  (outs <- hash8_c inputs blocks key counter incr flags fs fe ;; Ok (concat outs)).
Proof. exact k2_c_avx2_blake3_hash8_avx2_ok. Qed.
Print Assumptions C05_src_c_sse2_blake3_hash4_sse2.
Print Assumptions C05_src_c_sse41_blake3_hash4_sse41.
Print Assumptions C05_src_c_avx2_blake3_hash8_avx2.
