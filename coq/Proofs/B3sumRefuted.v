(* Witnesses, computed on the model of the code AS IT IS (asis_cfg), that two sub-statements of
   C13 (and with them one of C12) are false for the unchanged b3sum/src/main.rs.  The same
   statements are proved for the repaired configuration in Proofs/B3sumP.v; the correspondence
   check (tools/props/C13.py) shows that the unchanged code agrees with asis_cfg on these inputs. *)
From Coq Require Import NArith List Bool.
From V Require Import Base.Res Model.B3sum Proofs.B3sumP.
Import ListNotations.
Open Scope N_scope.

(* a 32-byte digest (BLAKE3 of "lo") *)
Definition h_lo : list N :=
  [0xdb;0x95;0x67;0x19;0x0c;0xd4;0x51;0x80;0xb6;0xd8;0x1d;0x4c;0xf2;0x39;0x12;0xa0;
   0xf4;0x98;0x11;0x29;0x86;0x79;0x44;0x19;0xd0;0xdd;0x10;0x36;0x92;0xf6;0x03;0xa1].

(* "a  b" *)
Definition path_a__b : list N := [97; 32; 32; 98].

(* Defect 1: `b3sum --tag "a  b"` prints `BLAKE3 (a  b) = <hex>`; --check splits that line at the
   two spaces (untagged rule first) and rejects it with "Invalid hash length". *)
Lemma roundtrip_tag_refuted :
  exists p h, good_path p /\ bytes_ok h /\ length h = 32%nat /\
    parse_check_line asis_cfg (print_line true (utf8_encode p) (hex_of_bytes h)) = Ok (PErr EHashLength).
Proof.
  exists path_a__b, h_lo. split; [|split; [|split]].
  - unfold good_path. repeat split; try reflexivity. discriminate.
  - unfold bytes_ok, h_lo. repeat constructor.
  - reflexivity.
  - vm_compute. reflexivity.
Qed.

(* the same line is accepted, with the right path and hash, by the repaired configuration *)
Lemma roundtrip_tag_witness_fixed :
  parse_check_line fixed_cfg (print_line true (utf8_encode path_a__b) (hex_of_bytes h_lo)) =
  Ok (POk path_a__b h_lo false path_a__b).
Proof. vm_compute. reflexivity. Qed.

(* Defect 2: a hash field of 64 BYTES whose last character is two bytes long: 62 hex digits + U+00E9 *)
Definition line_hex62_eacute : list N :=
  firstn 62 (hex_of_bytes h_lo) ++ [233] ++ PLAIN_SEP ++ [99] ++ [LF].

Lemma parse_total_refuted : exists line, parse_check_line asis_cfg line = Panic PANIC_HEX_LOW.
Proof. exists line_hex62_eacute. vm_compute. reflexivity. Qed.

Lemma parse_total_witness_fixed : parse_check_line fixed_cfg line_hex62_eacute = Ok (PErr EHex).
Proof. vm_compute. reflexivity. Qed.

(* C12: with such a line in a checkfile the run ends with status 101 and the entries after it,
   here a correct one, are not checked (no "c: OK" is printed) *)
Definition good_line_c : list N := print_line false [99] (hex_of_bytes h_lo).
Definition fs_c : fsys := fun p => inr (fun i => nth (N.to_nat i) h_lo 0).

Lemma check_continues_refuted :
  exists lines, b3sum_check asis_cfg fs_c 0 false [Some lines] = ([], ExitPanic PANIC_HEX_LOW) /\
                exit_status (ExitPanic PANIC_HEX_LOW) = 101 /\
                In (LText good_line_c) lines /\
                check_one_line asis_cfg fs_c 0 false good_line_c = Ok (true, [99] ++ OK_SUFFIX).
Proof.
  exists [LText line_hex62_eacute; LText good_line_c].
  split; [vm_compute; reflexivity|]. split; [reflexivity|]. split; [right; left; reflexivity|].
  vm_compute. reflexivity.
Qed.

Lemma check_continues_witness_fixed :
  b3sum_check fixed_cfg fs_c 0 false [Some [LText line_hex62_eacute; LText good_line_c]] =
  ([99] ++ OK_SUFFIX, ExitCode 1).
Proof. vm_compute. reflexivity. Qed.
