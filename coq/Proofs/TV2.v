(* test vectors, cases with index in [15, 26): evaluated inside the kernel *)
From Coq Require Import NArith List Bool.
From V Require Import Proofs.TVCommon.

Lemma tv_slice_2_ok : forallb check_case (tv_slice 15 26) = true.
Proof. vm_compute. reflexivity. Qed.
