(* Model of the all-at-once path of src/lib.rs: compress_chunks_parallel,
   compress_parents_parallel, compress_subtree_wide, compress_subtree_to_parent_node,
   hash_all_at_once, hash, keyed_hash, derive_key, hazmat::hash_derive_key_context.
   CV arrays are lists of 32-byte CVs; every `out` buffer carries its capacity in
   CVs (`cap`), and every slice index / ArrayVec::push / split_at is an assert. *)
From Coq Require Import NArith List Bool.
From V Require Import Base.Res Base.Word Base.MachInt gen.GenConsts gen.GenFormulas
  Spec.Tree Model.Portable Model.Platform Model.RsChunk.
Import ListNotations.
Open Scope N_scope.

(* input.chunks_exact(n): the full n-byte pieces and the remainder *)
Fixpoint chunks_exact (fuel : nat) (n : nat) (l : list N) : list (list N) * list N :=
  match fuel with
  | O => ([], l)
  | S fuel' =>
      if Nat.ltb (length l) n then ([], l)
      else let '(cs, r) := chunks_exact fuel' n (skipn n l) in (firstn n l :: cs, r)
  end.
Definition chunks_exact_of (n : N) (l : list N) : list (list N) * list N :=
  chunks_exact (S (Nat.div (length l) (N.to_nat n))) (N.to_nat n) l.

Definition nlen_l {A} (l : list A) : N := N.of_nat (length l).

Definition compress_chunks_parallel (p : platform) (input key : list N) (chunk_counter flags cap : N)
  : res (list (list N)) :=
  assert! (negb (nlen input =? 0)) code 1200 ;;
  assert! (nlen input <=? p_max_degree p * rs_CHUNK_LEN) code 1201 ;;
  let '(chunks, rem) := chunks_exact_of rs_CHUNK_LEN input in
  assert! (nlen_l chunks <=? p_max_degree p) code 30 ;;            (* ArrayVec::push *)
  cvs <- p_hash_many p chunks key chunk_counter true flags rs_flag_CHUNK_START rs_flag_CHUNK_END cap ;;
  let chunks_so_far := nlen_l chunks in
  if negb (nlen rem =? 0) then
    counter <- mi_add 64 chunk_counter chunks_so_far ;;
    cs <- cs_update p (cs_new key counter flags) rem ;;
    assert! (chunks_so_far + 1 <=? cap) code 31 ;;               (* array_mut_ref!(out, ...) *)
    Ok (cvs ++ [out_chaining_value p (cs_output cs)])
  else Ok cvs.

(* pair up adjacent CVs into 64-byte parent blocks; an odd one is left over *)
Fixpoint pair_blocks (cvs : list (list N)) : list (list N) * option (list N) :=
  match cvs with
  | a :: b :: tl => let '(ps, r) := pair_blocks tl in ((a ++ b) :: ps, r)
  | [a] => ([], Some a)
  | [] => ([], None)
  end.

Definition compress_parents_parallel (p : platform) (child_cvs : list (list N)) (key : list N) (flags cap : N)
  : res (list (list N)) :=
  let num_children := N.of_nat (length child_cvs) in
  assert! (2 <=? num_children) code 1202 ;;
  assert! (num_children <=? 2 * max_degree_or_2 p) code 1203 ;;
  let '(parents, odd) := pair_blocks child_cvs in
  assert! (N.of_nat (length parents) <=? max_degree_or_2 p) code 32 ;;   (* ArrayVec::push *)
  outs <- p_hash_many p parents key 0 false (N.lor flags rs_flag_PARENT) 0 0 cap ;;
  match odd with
  | Some cv =>
      assert! (N.of_nat (length parents) + 1 <=? cap) code 33 ;;        (* out[n*32..][..32] *)
      Ok (outs ++ [cv])
  | None => Ok outs
  end.

Fixpoint compress_subtree_wide (fuel : nat) (p : platform) (input key : list N) (chunk_counter flags cap : N)
  : res (list (list N)) :=
  if nlen input <=? p_degree p * rs_CHUNK_LEN then
    compress_chunks_parallel p input key chunk_counter flags cap
  else match fuel with
  | O => OutOfFuel
  | S fuel' =>
      assert! (MachInt.popcount (p_degree p) =? 1) code 1204 ;;
      assert! (rs_CHUNK_LEN <? nlen input) code 1205 ;;             (* debug_assert in left_subtree_len *)
      left_len <- rs_left_subtree_len (nlen input) ;;
      assert! (left_len <=? nlen input) code 34 ;;                  (* split_at *)
      let left := firstn (N.to_nat left_len) input in
      let right := skipn (N.to_nat left_len) input in
      right_counter <- rs_right_chunk_counter chunk_counter left_len ;;
      let array_cap := 2 * max_degree_or_2 p in
      degree <- (if left_len =? rs_CHUNK_LEN then
                   assert! (p_degree p =? 1) code 1206 ;; Ok 1
                 else Ok (N.max (p_degree p) 2)) ;;
      assert! (degree <=? array_cap) code 35 ;;                     (* split_at_mut *)
      lcvs <- compress_subtree_wide fuel' p left key chunk_counter flags degree ;;
      rcvs <- compress_subtree_wide fuel' p right key right_counter flags (array_cap - degree) ;;
      let left_n := N.of_nat (length lcvs) in
      let right_n := N.of_nat (length rcvs) in
      assert! (left_n =? degree) code 1207 ;;
      assert! ((1 <=? right_n) && (right_n <=? left_n)) code 1208 ;;
      if left_n =? 1 then
        assert! (2 <=? cap) code 36 ;;                              (* out[..2*OUT_LEN] *)
        Ok (firstn 2 (lcvs ++ rcvs))
      else
        compress_parents_parallel p (lcvs ++ rcvs) key flags cap
  end.

(* the `while num_cvs > 2` loop of compress_subtree_to_parent_node *)
Fixpoint condense_loop (fuel : nat) (p : platform) (cvs : list (list N)) (key : list N) (flags : N)
  : res (list (list N)) :=
  if N.of_nat (length cvs) <=? 2 then Ok cvs
  else match fuel with
       | O => OutOfFuel
       | S fuel' =>
           outs <- compress_parents_parallel p cvs key flags (max_degree_or_2 p / 2) ;;
           condense_loop fuel' p outs key flags
       end.

Definition wide_fuel : nat := 64.

Definition compress_subtree_to_parent_node (p : platform) (input key : list N) (chunk_counter flags : N)
  : res (list N) :=
  assert! (rs_CHUNK_LEN <? nlen input) code 1209 ;;
  cvs <- compress_subtree_wide wide_fuel p input key chunk_counter flags (max_degree_or_2 p) ;;
  assert! (2 <=? N.of_nat (length cvs)) code 1210 ;;
  cvs <- condense_loop 8 p cvs key flags ;;
  match cvs with
  | [a; b] => Ok (a ++ b)
  | _ => Panic 1211
  end.

Definition hash_all_at_once (p : platform) (input key : list N) (flags : N) : res output :=
  if nlen input <=? rs_CHUNK_LEN then
    cs <- cs_update p (cs_new key 0 flags) input ;;
    Ok (cs_output cs)
  else
    block <- compress_subtree_to_parent_node p input key 0 flags ;;
    Ok (mkOutput key block rs_BLOCK_LEN 0 (N.lor flags rs_flag_PARENT)).

Definition rs_hash (p : platform) (input : list N) : res (list N) :=
  o <- hash_all_at_once p input rs_IV 0 ;; out_root_hash p o.

Definition rs_keyed_hash (p : platform) (key input : list N) : res (list N) :=
  o <- hash_all_at_once p input (words_of_bytes key) rs_flag_KEYED_HASH ;; out_root_hash p o.

Definition rs_hash_derive_key_context (p : platform) (context : list N) : res (list N) :=
  o <- hash_all_at_once p context rs_IV rs_flag_DERIVE_KEY_CONTEXT ;; out_root_hash p o.

Definition rs_derive_key (p : platform) (context material : list N) : res (list N) :=
  context_key <- rs_hash_derive_key_context p context ;;
  o <- hash_all_at_once p material (words_of_bytes context_key) rs_flag_DERIVE_KEY_MATERIAL ;;
  out_root_hash p o.
