(* src/hazmat.rs as TRANSLATED statement by statement (gen/GenHazmat.v: HasherExt for Hasher, Mode::key_words /
   flags_byte, merge_subtrees_inner / non_root / root / root_xof, hash_derive_key_context; with them the constructors
   Hasher::new / new_keyed / Default::default of src/lib.rs and platform::words_from_le_bytes_32) equals the hand-written
   models of Model/RsHasher.v / Model/RsWide.v, for all arguments, including the Panic results.

   Representation.  lib_of_hasher / lib_of_out / lib_of_rd (Proofs/GenLibLoopsP.v, Proofs/GenXofP.v) build the translated
   records from the models' and the platform; `Platform::detect()` is the last parameter of every translated function
   that calls it.  The models take (key words, flags) where the source takes a `Mode`: mode_key / mode_flags read them
   off the translated enum.  Functions that are called but not translated here are parameters, instantiated with the
   models' (m_parent_node_output, m_Output_chaining_value, m_Output_root_hash of Proofs/GenLibLoopsP.v, m_hash_all_at_once
   below). *)
From Coq Require Import NArith ZArith List Bool Lia Arith.
From V Require Import Base.Res Base.Word Base.MachInt Base.Arr Base.ArrayVec Base.MutSlice Base.SInt
  gen.GenConsts gen.GenFormulas gen.GenLibSmall gen.GenLibLoops gen.GenXof gen.GenHazmat
  Spec.Tree Model.Portable Model.Platform Model.RsChunk Model.RsWide Model.RsHasher Model.RsXof Model.Machine
  Proofs.GenLibSmallP Proofs.GenLibLoopsP Proofs.GenXofP.
Import ListNotations.
Open Scope N_scope.
(* a tactic that diverges when the generated text changes is a failure, not a hang *)
Set Default Timeout 300.

(* ---------- platform::words_from_le_bytes_32 ---------- *)
Lemma hz_words_from_le_bytes_32_eq bytes : length bytes = 32%nat ->
  hz_words_from_le_bytes_32 bytes = words_of_bytes bytes.
Proof. intros H. destruct_list bytes 32. reflexivity. Qed.

(* ---------- the constructors ---------- *)
Lemma hz_Hasher_new_eq p : hz_Hasher_new p = lib_of_hasher p (new_internal rs_IV 0).
Proof. reflexivity. Qed.

Lemma hz_Hasher_default_eq p : hz_Hasher_Default_default p = lib_of_hasher p (new_internal rs_IV 0).
Proof. reflexivity. Qed.

Lemma hz_Hasher_new_keyed_eq key p : length key = 32%nat ->
  hz_Hasher_new_keyed key p = lib_of_hasher p (new_internal (words_of_bytes key) rs_flag_KEYED_HASH).
Proof. intros H. unfold hz_Hasher_new_keyed. cbv zeta. rewrite (hz_words_from_le_bytes_32_eq key H). reflexivity. Qed.

Lemma hz_Hasher_new_from_context_key_eq ck p : length ck = 32%nat ->
  hz_Hasher_new_from_context_key ck p = lib_of_hasher p (new_internal (words_of_bytes ck) rs_flag_DERIVE_KEY_MATERIAL).
Proof. intros H. unfold hz_Hasher_new_from_context_key. cbv zeta. rewrite (hz_words_from_le_bytes_32_eq ck H). reflexivity. Qed.

(* ---------- set_input_offset, finalize_non_root ---------- *)
Lemma hz_Hasher_set_input_offset_eq p h off : cs_blocks (h_cs h) < 2 ^ 8 -> cs_buf_len (h_cs h) < 2 ^ 8 ->
  hz_Hasher_set_input_offset (lib_of_hasher p h) off = res_map (lib_of_hasher p) (set_input_offset h off).
Proof.
  intros Hb Hl. unfold hz_Hasher_set_input_offset, set_input_offset.
  rewrite (lib_Hasher_count_eq p h Hb Hl). unfold mcmp at 1.
  destruct (hasher_count h) as [cnt| |]; cbn [bind res_map]; try reflexivity.
  destruct (cnt =? 0); cbn [check bind res_map]; [|reflexivity].
  unfold mcmp, mb, mu, mi_cast, mi_rem, mi_div. cbn [bind].
  change (N.land rs_CHUNK_LEN (N.ones 64)) with rs_CHUNK_LEN. change (rs_CHUNK_LEN =? 0) with false. cbv iota. cbn [bind].
  destruct (off mod rs_CHUNK_LEN =? 0); cbn [check bind res_map]; reflexivity.
Qed.

Lemma hz_Hasher_finalize_non_root_eq p fuel h : cs_blocks (h_cs h) < 2 ^ 8 -> cs_buf_len (h_cs h) < 2 ^ 8 ->
  (length (h_stack h) <= fuel)%nat -> (forall a, h_stack h = [a] -> cs_count (h_cs h) <> Ok 0) ->
  hz_Hasher_finalize_non_root m_parent_node_output m_Output_chaining_value fuel (lib_of_hasher p h)
  = finalize_non_root p h.
Proof.
  intros Hb Hl Hf H1. unfold hz_Hasher_finalize_non_root, finalize_non_root.
  rewrite (lib_Hasher_count_eq p h Hb Hl). unfold mcmp at 1, nneb.
  destruct (hasher_count h) as [cnt| |]; cbn [bind]; try reflexivity.
  destruct (negb (cnt =? 0)); cbn [check bind]; [|reflexivity].
  rewrite (lib_Hasher_final_output_eq p fuel h Hf H1).
  destruct (final_output p h) as [o| |]; cbn [bind res_map]; reflexivity.
Qed.

(* ---------- Mode ---------- *)
Definition mode_key (mode : hz_Mode) : list N :=
  match mode with
  | hz_Mode_Hash => rs_IV
  | hz_Mode_KeyedHash k | hz_Mode_DeriveKeyMaterial k => words_of_bytes k
  end.
Definition mode_flags (mode : hz_Mode) : N :=
  match mode with
  | hz_Mode_Hash => 0
  | hz_Mode_KeyedHash _ => rs_flag_KEYED_HASH
  | hz_Mode_DeriveKeyMaterial _ => rs_flag_DERIVE_KEY_MATERIAL
  end.
(* the payloads are &[u8; KEY_LEN] *)
Definition mode_ok (mode : hz_Mode) : Prop :=
  match mode with
  | hz_Mode_Hash => True
  | hz_Mode_KeyedHash k | hz_Mode_DeriveKeyMaterial k => length k = 32%nat
  end.

Lemma hz_Mode_key_words_eq mode : mode_ok mode -> hz_Mode_key_words mode = mode_key mode.
Proof. destruct mode as [|k|k]; cbn [mode_ok hz_Mode_key_words mode_key]; intros H; [reflexivity| |];
  apply hz_words_from_le_bytes_32_eq; exact H. Qed.

Lemma hz_Mode_flags_byte_eq mode : hz_Mode_flags_byte mode = mode_flags mode.
Proof. destruct mode; reflexivity. Qed.

(* the Mode a case of the machine (Model/Machine.v) passes to hazmat; ck = the context key of the derive modes *)
Definition hz_mode_of (m : mmode) (ck : list N) : hz_Mode :=
  match m with
  | MHash => hz_Mode_Hash
  | MKeyed k => hz_Mode_KeyedHash k
  | MDerive _ | MDeriveK _ => hz_Mode_DeriveKeyMaterial ck
  end.

Lemma mode_init_hz p m key flags : mode_init p m = Ok (key, flags) ->
  exists ck, match m with MDerive c | MDeriveK c => rs_hash_derive_key_context p c = Ok ck | _ => ck = [] end /\
             key = mode_key (hz_mode_of m ck) /\ flags = mode_flags (hz_mode_of m ck).
Proof.
  destruct m as [|k|c|c]; cbn [mode_init]; intros H.
  - inversion H. exists []. repeat split.
  - inversion H. exists []. repeat split.
  - destruct (rs_hash_derive_key_context p c) as [ck| |]; cbn [bind] in H; try discriminate.
    inversion H. exists ck. repeat split.
  - destruct (rs_hash_derive_key_context p c) as [ck| |]; cbn [bind] in H; try discriminate.
    inversion H. exists ck. repeat split.
Qed.

(* ---------- merge_subtrees_* ---------- *)
Lemma hz_merge_subtrees_inner_eq l r mode p :
  hz_merge_subtrees_inner m_parent_node_output l r mode p
  = lib_of_out p (merge_subtrees_inner (hz_Mode_key_words mode) (hz_Mode_flags_byte mode) l r).
Proof. reflexivity. Qed.

Lemma hz_merge_subtrees_non_root_eq l r mode p :
  hz_merge_subtrees_non_root m_parent_node_output m_Output_chaining_value l r mode p
  = merge_subtrees_non_root p (hz_Mode_key_words mode) (hz_Mode_flags_byte mode) l r.
Proof. unfold hz_merge_subtrees_non_root. rewrite hz_merge_subtrees_inner_eq, m_cv_of_out. reflexivity. Qed.

Lemma hz_merge_subtrees_root_eq l r mode p :
  hz_merge_subtrees_root m_parent_node_output m_Output_root_hash l r mode p
  = merge_subtrees_root p (hz_Mode_key_words mode) (hz_Mode_flags_byte mode) l r.
Proof. unfold hz_merge_subtrees_root. rewrite hz_merge_subtrees_inner_eq, m_rh_of_out. apply bind_ret. Qed.

Lemma hz_merge_subtrees_root_xof_eq l r mode p :
  hz_merge_subtrees_root_xof m_parent_node_output l r mode p
  = lib_of_rd p (reader_new (merge_subtrees_inner (hz_Mode_key_words mode) (hz_Mode_flags_byte mode) l r)).
Proof. reflexivity. Qed.

(* with the TRANSLATED parent_node_output (gen/GenLibSmall.v) for 32-byte children *)
Lemma hz_merge_subtrees_inner_src l r mode p : length l = 32%nat -> length r = 32%nat ->
  hz_merge_subtrees_inner lib_parent_node_output l r mode p
  = lib_of_out p (merge_subtrees_inner (hz_Mode_key_words mode) (hz_Mode_flags_byte mode) l r).
Proof. intros Hl Hr. unfold hz_merge_subtrees_inner. apply (src_pno p); assumption. Qed.

(* ---------- hash_derive_key_context ---------- *)
Definition m_hash_all_at_once (p : platform) (input key : list N) (flags : N) : res lib_Output :=
  res_map (lib_of_out p) (hash_all_at_once p input key flags).

Lemma hz_hash_derive_key_context_eq p ctx :
  hz_hash_derive_key_context m_Output_root_hash (m_hash_all_at_once p) ctx = rs_hash_derive_key_context p ctx.
Proof.
  unfold hz_hash_derive_key_context, rs_hash_derive_key_context, m_hash_all_at_once.
  destruct (hash_all_at_once p ctx rs_IV rs_flag_DERIVE_KEY_CONTEXT) as [o| |]; cbn [bind res_map]; try reflexivity.
  rewrite m_rh_of_out. apply bind_ret.
Qed.
