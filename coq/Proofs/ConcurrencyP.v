(* C08: every interleaving of the two halves' writes gives the same children list
   as running left then right.  C18: in any interleaving of per-instance operation
   sequences each instance observes exactly what it would observe alone; the
   detection cache only ever moves from unknown to the one detected value. *)
From Coq Require Import NArith Arith List Bool Lia.
From V Require Import Base.Res Model.Concurrency.
Import ListNotations.
Open Scope N_scope.

(* ---- slots -------------------------------------------------------------------------------------- *)
Lemma write_slot_length {A} (mem : list A) i x : length (write_slot mem i x) = length mem.
Proof. revert i. induction mem as [|y mem IH]; intros [|i]; cbn; auto. Qed.

Lemma write_slot_comm {A} (mem : list A) i j x y : i <> j ->
  write_slot (write_slot mem i x) j y = write_slot (write_slot mem j y) i x.
Proof.
  revert i j. induction mem as [|z mem IH]; intros [|i] [|j] H; cbn; try reflexivity; try congruence.
  f_equal. apply IH. congruence.
Qed.

Lemma nth_write_same {A} (mem : list A) i x d : (i < length mem)%nat -> nth i (write_slot mem i x) d = x.
Proof. revert i. induction mem as [|y mem IH]; intros [|i] H; cbn in *; try lia; auto. apply IH. lia. Qed.

Lemma nth_write_other {A} (mem : list A) i j x d : i <> j -> nth j (write_slot mem i x) d = nth j mem d.
Proof.
  revert i j. induction mem as [|y mem IH]; intros [|i] [|j] H; cbn; try reflexivity; try congruence.
  apply IH. congruence.
Qed.

Definition slots (evs : list wr) : list nat := map fst evs.
Definition disjoint (a b : list nat) : Prop := forall i, In i a -> In i b -> False.

Lemma apply_writes_app mem a b : apply_writes mem (a ++ b) = apply_writes (apply_writes mem a) b.
Proof. apply fold_left_app. Qed.

(* a single write commutes with a batch of writes to other slots *)
Lemma write_commutes_batch : forall evs mem i x, ~ In i (slots evs) ->
  apply_writes (write_slot mem i x) evs = write_slot (apply_writes mem evs) i x.
Proof.
  induction evs as [|[j y] evs IH]; intros mem i x H; [reflexivity|].
  cbn [apply_writes fold_left fst snd] in *. fold (apply_writes (write_slot (write_slot mem i x) j y) evs).
  fold (apply_writes (write_slot mem j y) evs).
  rewrite write_slot_comm by (intro E; apply H; left; cbn; auto).
  apply IH. intro Hin. apply H. right. exact Hin.
Qed.

(* C08 core: disjoint write sets => every interleaving = left then right *)
Theorem interleave_irrelevant : forall l r m, Interleave l r m -> disjoint (slots l) (slots r) ->
  forall mem, apply_writes mem m = apply_writes mem (l ++ r).
Proof.
  intros l r m H. induction H as [|x l r m H IH|x l r m H IH]; intros Hd mem.
  - reflexivity.
  - cbn [app apply_writes fold_left]. apply IH. intros i Hi Hj. apply (Hd i); [right; exact Hi|exact Hj].
  - destruct x as [j y]. cbn [apply_writes fold_left fst snd].
    fold (apply_writes (write_slot mem j y) m). rewrite IH.
    2:{ intros i Hi Hj. apply (Hd i); [exact Hi|right; exact Hj]. }
    rewrite !apply_writes_app.
    assert (Hnot : ~ In j (slots l)) by (intro Hin; apply (Hd j); [exact Hin|left; reflexivity]).
    rewrite (write_commutes_batch l mem j y Hnot).
    cbn [apply_writes fold_left fst snd]. reflexivity.
Qed.

(* the halves' slot sets *)
Lemma slots_events_from base cvs : slots (events_from base cvs) = seq base (length cvs).
Proof. revert base. induction cvs as [|cv cvs IH]; intros base; cbn; [reflexivity|]. rewrite IH. reflexivity. Qed.

Lemma halves_disjoint degree lcvs rcvs : (length lcvs <= degree)%nat ->
  disjoint (slots (events_from 0 lcvs)) (slots (events_from degree rcvs)).
Proof.
  intros Hl i Hi Hj. rewrite slots_events_from in *. apply in_seq in Hi. apply in_seq in Hj. lia.
Qed.

Lemma apply_writes_length : forall evs mem, length (apply_writes mem evs) = length mem.
Proof.
  induction evs as [|[j y] evs IH]; intros mem; [reflexivity|].
  cbn [apply_writes fold_left fst snd]. fold (apply_writes (write_slot mem j y) evs).
  rewrite IH. apply write_slot_length.
Qed.

(* what a half's writes leave in the array *)
Lemma nth_apply_events : forall cvs base mem j d, (base + length cvs <= length mem)%nat ->
  nth j (apply_writes mem (events_from base cvs)) d =
  if (base <=? j)%nat && (j <? base + length cvs)%nat then nth (j - base) cvs d else nth j mem d.
Proof.
  induction cvs as [|cv cvs IH]; intros base mem j d H.
  - cbn [events_from apply_writes fold_left length]. destruct (base <=? j)%nat eqn:E1; cbn [andb]; [|reflexivity].
    replace (j <? base + 0)%nat with false; [reflexivity|]. symmetry. apply Nat.ltb_ge. apply Nat.leb_le in E1. lia.
  - cbn [events_from apply_writes fold_left fst snd length] in *.
    fold (apply_writes (write_slot mem base cv) (events_from (S base) cvs)).
    rewrite IH by (rewrite write_slot_length; lia).
    destruct (Nat.eq_dec j base) as [->|Hne].
    + replace (S base <=? base)%nat with false by (symmetry; apply Nat.leb_gt; lia). cbn [andb].
      rewrite nth_write_same by lia.
      rewrite Nat.leb_refl. replace (base <? base + S (length cvs))%nat with true by (symmetry; apply Nat.ltb_lt; lia).
      cbn [andb]. rewrite Nat.sub_diag. reflexivity.
    + rewrite nth_write_other by congruence.
      destruct (S base <=? j)%nat eqn:E1.
      * apply Nat.leb_le in E1. replace (base <=? j)%nat with true by (symmetry; apply Nat.leb_le; lia).
        replace (j <? base + S (length cvs))%nat with (j <? S base + length cvs)%nat by (f_equal; lia).
        cbn [andb]. destruct (j <? S base + length cvs)%nat; [|reflexivity].
        replace (j - base)%nat with (S (j - S base)) by lia. reflexivity.
      * apply Nat.leb_gt in E1. cbn [andb].
        replace (base <=? j)%nat with false by (symmetry; apply Nat.leb_gt; lia). reflexivity.
Qed.

Lemma nth_firstn_lt {A} (l : list A) n j d : (j < n)%nat -> nth j (firstn n l) d = nth j l d.
Proof.
  revert n j. induction l as [|x l IH]; intros [|n] [|j] H; cbn; try lia; auto. apply IH. lia.
Qed.

(* C08: whatever the schedule, the parent layer sees left ++ right *)
Theorem split_node_schedule_independent cap degree lcvs rcvs m :
  length lcvs = degree -> (degree + length rcvs <= cap)%nat ->
  Interleave (events_from 0 lcvs) (events_from degree rcvs) m ->
  split_node cap degree lcvs rcvs m = lcvs ++ rcvs.
Proof.
  intros Hl Hcap HI. unfold split_node.
  rewrite (interleave_irrelevant _ _ _ HI) by (apply halves_disjoint; lia).
  rewrite apply_writes_app.
  set (mem0 := repeat zero_cv cap).
  assert (Hm0 : length mem0 = cap) by (unfold mem0; apply repeat_length).
  set (mem1 := apply_writes mem0 (events_from 0 lcvs)).
  assert (Hm1 : length mem1 = cap) by (unfold mem1; rewrite apply_writes_length; exact Hm0).
  apply (nth_ext _ _ [] []).
  - rewrite firstn_length, apply_writes_length, Hm1, app_length. lia.
  - intros j Hj. rewrite firstn_length, apply_writes_length, Hm1 in Hj.
    rewrite nth_firstn_lt by lia.
    rewrite nth_apply_events by lia.
    destruct (degree <=? j)%nat eqn:E1.
    + apply Nat.leb_le in E1. replace (j <? degree + length rcvs)%nat with true by (symmetry; apply Nat.ltb_lt; lia).
      cbn [andb]. rewrite app_nth2 by lia. rewrite Hl. reflexivity.
    + apply Nat.leb_gt in E1. cbn [andb]. unfold mem1. rewrite nth_apply_events by (cbn; lia).
      cbn [Nat.leb andb]. replace (j <? 0 + length lcvs)%nat with true by (symmetry; apply Nat.ltb_lt; lia).
      rewrite Nat.sub_0_r. rewrite app_nth1 by lia. reflexivity.
Qed.

(* the serial join is one of the schedules (left first), so is right first *)
Lemma interleave_left_first {A} (l r : list A) : Interleave l r (l ++ r).
Proof.
  induction l as [|x l IH]; cbn [app].
  - induction r as [|y r IHr]; [constructor|]. apply IL_right. exact IHr.
  - apply IL_left. exact IH.
Qed.

Lemma interleave_right_first {A} (l r : list A) : Interleave l r (r ++ l).
Proof.
  induction r as [|y r IH]; cbn [app].
  - induction l as [|x l IHl]; [constructor|]. apply IL_left. exact IHl.
  - apply IL_right. exact IH.
Qed.

(* ---- C18 --------------------------------------------------------------------------------------------- *)
Section Isolation.
  Variables (S A O : Type) (f : A -> S -> res (S * O)) (features : N).
  Notation proc := (proc S).
  Notation op_step := (op_step S A O f features).
  Notation run_seq := (run_seq S A O f features).
  Notation run_alone := (run_alone S A O f).

  (* the cache is monotone and single-valued *)
  Definition cache_ok (c : option N) : Prop := c = None \/ c = Some features.

  Lemma cache_ok_some : cache_ok (Some features).
  Proof. right. reflexivity. Qed.

  Lemma detect_cache (p : proc) : cache_ok (cache S p) ->
    cache S (fst (detect S features p)) = Some features /\ snd (detect S features p) = features /\
    insts S (fst (detect S features p)) = insts S p.
  Proof.
    intros [H|H]; unfold detect; rewrite H; cbn; auto.
  Qed.

  Lemma op_step_spec (p : proc) i a s : cache_ok (cache S p) -> nth_error (insts S p) i = Some s ->
    op_step p i a =
    match f a s with
    | Ok (s', o) => Ok (mkProc S (write_slot (insts S p) i s') (Some features), o)
    | Panic c => Panic c
    | OutOfFuel => OutOfFuel
    end.
  Proof.
    intros Hc Hn. unfold op_step. destruct (detect_cache p Hc) as (H1 & H2 & H3).
    destruct (detect S features p) as [[ip cp] v]. cbn [fst snd insts cache] in *. cbn iota. subst ip cp. rewrite Hn.
    destruct (f a s) as [[s' o]| |]; cbn [bind]; reflexivity.
  Qed.

  Lemma nth_error_write_same {X} (l : list X) i x y : nth_error l i = Some y -> nth_error (write_slot l i x) i = Some x.
  Proof. revert i. induction l as [|z l IH]; intros [|i] H; cbn in *; try discriminate; auto. Qed.

  Lemma nth_error_write_other {X} (l : list X) i j x : i <> j -> nth_error (write_slot l i x) j = nth_error l j.
  Proof.
    revert i j. induction l as [|z l IH]; intros [|i] [|j] H; cbn; try reflexivity; try congruence.
    apply IH. congruence.
  Qed.

  (* C18: in ANY global sequence of operations (any interleaving of the instances' own sequences)
     instance i observes exactly what it observes when its operations run alone from its state *)
  Theorem interleaving_projects : forall evs (p : proc) p' os i s,
    cache_ok (cache S p) -> nth_error (insts S p) i = Some s ->
    run_seq p evs = Ok (p', os) ->
    exists s', run_alone s (map snd (filter (fun x => Nat.eqb (fst x) i) evs)) = Ok (s', project O i os) /\
               nth_error (insts S p') i = Some s' /\ cache_ok (cache S p').
  Proof.
    induction evs as [|[j a] evs IH]; intros p p' os i s Hc Hn Hrun.
    - cbn in Hrun. inversion Hrun; subst. exists s. cbn. auto.
    - cbn [run_seq] in Hrun.
      destruct (nth_error (insts S p) j) as [sj|] eqn:Ej.
      2:{ unfold Concurrency.op_step in Hrun. destruct (detect_cache p Hc) as (H1 & H2 & H3).
          destruct (detect S features p) as [[iq cq] v]. cbn [fst snd insts cache] in *. cbn iota in Hrun. subst iq. rewrite Ej in Hrun. discriminate. }
      rewrite (op_step_spec p j a sj Hc Ej) in Hrun.
      destruct (f a sj) as [[sj' o]| |] eqn:Ef; cbn [bind] in Hrun; try discriminate.
      destruct (run_seq (mkProc S (write_slot (insts S p) j sj') (Some features)) evs) as [[p2 os2]| |] eqn:Er;
        cbn [bind] in Hrun; try discriminate.
      inversion Hrun; subst p' os. clear Hrun.
      cbn [filter fst map project]. unfold project. cbn [filter fst].
      destruct (Nat.eqb j i) eqn:Eji.
      + apply Nat.eqb_eq in Eji. subst j. rewrite Hn in Ej. inversion Ej; subst sj.
        destruct (IH (mkProc S (write_slot (insts S p) i sj') (Some features)) p2 os2 i sj' cache_ok_some (nth_error_write_same _ _ _ _ Hn) Er) as (s' & Ha & Hn' & Hc').
        exists s'. cbn [map snd run_alone]. rewrite Ef. cbn [bind]. unfold project in Ha. rewrite Ha. cbn [bind]. auto.
      + apply Nat.eqb_neq in Eji.
        destruct (IH (mkProc S (write_slot (insts S p) j sj') (Some features)) p2 os2 i s cache_ok_some) as (s' & Ha & Hn' & Hc'); [|exact Er|].
        { cbn [insts]. rewrite nth_error_write_other by exact Eji. exact Hn. }
        exists s'. auto.
  Qed.
End Isolation.
